/-
  KPair — the pair MODEL computes what the pair SOURCE computes.

  `Gen/KPair.lean` is regenerated on every run by `bin/gen-kernels` from the Rust text of
  `dex/pair/src/{amm.rs, liquidity_pool.rs, pair_actions/swap.rs}` (translation rules in the
  generator's doc string: `BigUint` = `Nat`, checked subtraction / division, `require!` = `req`,
  fields of `storage_cache` / `context` as explicit inputs and outputs).  The theorems below are
  re-checked against whatever the source says now:

  * the arithmetic kernels of the source equal the model's kernels (`Pair.quote`, `amountOut`,
    `amountIn`, `amountOutNoFee`, `specialFee`) wherever the source does not abort;
  * `get_amounts_removed` / `set_optimal_amounts` of the source ARE the model's
    `amountsRemoved` / `optimal`;
  * every successful model `addLiq` / `removeLiq` / `swapIn` / `swapOut` / `localSwap` step is a
    successful run of the translated `pool_add_liquidity` / `pool_remove_liquidity` /
    `perform_swap_fixed_input` / `perform_swap_fixed_output` / `swap_safe_no_fee` with exactly the
    model's amounts and new reserves.

  A changed operator, operand, rounding direction, guard or update in those source functions
  changes the generated definition and breaks the corresponding theorem.
-/
import MxModel.Gen.KPair
import MxModel.Lemmas.PairSpec

namespace Mx.KPair
open Mx Mx.Pair Mx.Gen

/-! ### amm.rs -/

/-- source `quote` = model `quote` (the source aborts on a zero reserve) -/
theorem quote_eq (a rA rB : Nat) :
    KPair.quote a rA rB = if rA = 0 then none else some (Pair.quote a rA rB) := by
  simp only [KPair.quote, div?, Pair.quote, Option.bind_eq_bind, Option.pure_def]

/-- source `get_amount_out_no_fee` = model `amountOutNoFee` -/
theorem get_amount_out_no_fee_eq (a rIn rOut : Nat) :
    KPair.get_amount_out_no_fee a rIn rOut =
      if rIn + a = 0 then none else some (amountOutNoFee a rIn rOut) := by
  simp only [KPair.get_amount_out_no_fee, div?, amountOutNoFee, Option.bind_eq_bind, Option.pure_def]

/-- source `get_amount_out` = model `amountOut` (for a total fee within `MAX_PERCENTAGE`) -/
theorem get_amount_out_eq (a rIn rOut total : Nat) (ht : total ≤ M) :
    KPair.get_amount_out a rIn rOut total =
      if rIn * M + a * (M - total) = 0 then none else some (amountOut total a rIn rOut) := by
  have hM : M = 100000 := rfl
  simp only [KPair.get_amount_out, sub?, div?, amountOut, Option.bind_eq_bind, Option.pure_def,
    hM] at *
  rw [if_pos ht]
  simp only [Option.bind_some]

/-- source `get_amount_in` = model `amountIn` -/
theorem get_amount_in_eq (out rIn rOut total : Nat) (ht : total ≤ M) (ho : out ≤ rOut) :
    KPair.get_amount_in out rIn rOut total =
      if (rOut - out) * (M - total) = 0 then none else some (amountIn total out rIn rOut) := by
  have hM : M = 100000 := rfl
  simp only [KPair.get_amount_in, sub?, div?, amountIn, Option.bind_eq_bind, Option.pure_def,
    hM] at *
  rw [if_pos ho]
  simp only [Option.bind_some]
  rw [if_pos ht]
  simp only [Option.bind_some]
  split <;> rfl

/-- the source refuses to quote an output above the reserve (checked subtraction) -/
theorem get_amount_in_none (out rIn rOut total : Nat) (ho : rOut < out) :
    KPair.get_amount_in out rIn rOut total = none := by
  simp only [KPair.get_amount_in, sub?, Option.bind_eq_bind]
  rw [if_neg (by omega)]
  rfl

/-- source `get_special_fee_from_input` = model `specialFee` -/
theorem get_special_fee_eq (a special : Nat) :
    KPair.get_special_fee_from_input a special = some (specialFee special a) := by
  simp [KPair.get_special_fee_from_input, div?, specialFee, M]

/-- source `calculate_k_constant` is the plain product -/
theorem k_constant_eq (a b : Nat) : KPair.calculate_k_constant a b = some (a * b) := rfl

/-! ### liquidity_pool.rs -/

/-- source `get_amounts_removed` IS the model's `amountsRemoved` (same guards, same floors) -/
theorem get_amounts_removed_eq (s : St) (lp m1 m2 : Nat) :
    KPair.get_amounts_removed m1 lp m2 s.r1 s.S s.r2 = amountsRemoved s lp m1 m2 := by
  have hL : MINLIQ = 1000 := rfl
  by_cases hS : s.S = 0
  · have h1 : ¬ (s.S ≥ lp + 1000) := by omega
    have h2 : ¬ (lp + MINLIQ ≤ s.S) := by omega
    simp [KPair.get_amounts_removed, amountsRemoved, req, h1, h2]
  · simp only [KPair.get_amounts_removed, amountsRemoved, div?, if_neg hS, hL,
      Option.bind_eq_bind, Option.bind_some, Option.pure_def, ge_iff_le, gt_iff_lt]
    try rfl

/-- source `set_optimal_amounts` (non-initial branch) IS the model's `optimal` -/
theorem set_optimal_amounts_eq (s : St) (a1 a2 m1 m2 : Nat) (hS : s.S ≠ 0)
    (h1 : s.r1 ≠ 0) (h2 : s.r2 ≠ 0) :
    KPair.set_optimal_amounts a1 m1 a2 m2 s.r1 s.S s.r2 = optimal s a1 a2 m1 m2 := by
  simp only [KPair.set_optimal_amounts, optimal, quote_eq, if_neg h1, if_neg h2, decide_eq_true_eq,
    if_neg hS, Option.bind_eq_bind, Option.bind_some, Option.pure_def, ge_iff_le]
  by_cases hq : Pair.quote a1 s.r1 s.r2 ≤ a2
  · simp only [if_pos hq, Option.bind_some]
    try rfl
  · simp only [if_neg hq]
    by_cases hq1 : Pair.quote a2 s.r2 s.r1 ≤ a1
    · simp [req, hq1]
    · simp [req, hq1]

/-- the initial branch of `set_optimal_amounts` takes the whole payment -/
theorem set_optimal_amounts_initial (a1 a2 m1 m2 r1 r2 : Nat) :
    KPair.set_optimal_amounts a1 m1 a2 m2 r1 0 r2 = some (a1, a2) := by
  simp [KPair.set_optimal_amounts]

/-- a successful model `addLiquidity` (non-initial) is a successful run of the source's
    `set_optimal_amounts` + `pool_add_liquidity` with the model's amounts, LP minted and new
    reserves / supply -/
theorem addLiq_runs_source {s s' : St} {a1 a2 m1 m2 : Nat} {o : Out} (hS : s.S ≠ 0)
    (h : addLiq s a1 a2 m1 m2 = some (s', o)) :
    KPair.set_optimal_amounts a1 m1 a2 m2 s.r1 s.S s.r2 = some (o.v2, o.v3) ∧
    KPair.pool_add_liquidity o.v2 o.v3 s.r1 s.S s.r2 = some (o.v1, s'.r1, s'.S, s'.r2) := by
  simp only [addLiq, if_neg hS, Option.bind_eq_bind, Option.bind_eq_some_iff, req_eq_some,
    Option.pure_def, Option.some.injEq, Prod.mk.injEq] at h
  obtain ⟨_, _, _, _, _, _, _, _, _, ⟨hr1, hr2⟩, ⟨o1, o2⟩, hopt, _, hliq, _, _, rfl, rfl⟩ := h
  refine ⟨by rw [set_optimal_amounts_eq s a1 a2 m1 m2 hS hr1 hr2]; exact hopt, ?_⟩
  simp only [KPair.pool_add_liquidity, div?, if_neg hr1, if_neg hr2, Option.bind_eq_bind,
    Option.bind_some, Option.pure_def, St.touch]
  have : req (Nat.min (o1 * s.S / s.r1) (o2 * s.S / s.r2) > 0) = some () := by
    rw [req_eq_some]; exact hliq
  rw [this]
  rfl

/-- a successful model first deposit is a successful run of the source's
    `pool_add_initial_liquidity` -/
theorem firstMint_runs_source {s s' : St} {a1 a2 lp : Nat}
    (h : s.firstMint a1 a2 = some (s', lp)) :
    KPair.pool_add_initial_liquidity a1 a2 s.r1 s.r2 = some (lp, s'.r1, s'.S, s'.r2) := by
  have hL : MINLIQ = 1000 := rfl
  simp only [St.firstMint, Option.bind_eq_bind, Option.bind_eq_some_iff, req_eq_some,
    Option.pure_def, Option.some.injEq, Prod.mk.injEq] at h
  obtain ⟨_, hm, rfl, rfl⟩ := h
  have hm' : Nat.min a1 a2 > 1000 := by rw [hL] at hm; exact hm
  simp only [KPair.pool_add_initial_liquidity, sub?, Option.bind_eq_bind, Option.pure_def]
  have : req (Nat.min a1 a2 > 1000) = some () := by rw [req_eq_some]; exact hm'
  rw [this]
  simp only [Option.bind_some]
  rw [if_pos (by omega)]
  rfl

/-- a successful model `removeLiquidity` is a successful run of the source's
    `pool_remove_liquidity` with the model's payouts and new reserves / supply -/
theorem removeLiq_runs_source {s s' : St} {lp m1 m2 : Nat} {o : Out}
    (h : removeLiq s lp m1 m2 = some (s', o)) :
    KPair.pool_remove_liquidity m1 lp m2 s.r1 s.S s.r2 = some (o.v1, o.v2, s'.r1, s'.S, s'.r2) := by
  simp only [removeLiq, Option.bind_eq_bind, Option.bind_eq_some_iff, req_eq_some, sub?_eq_some,
    Option.pure_def, Option.some.injEq, Prod.mk.injEq] at h
  obtain ⟨_, _, _, _, _, _, ⟨x1, x2⟩, hrem, _, _, c, _, b1, _, b2, _, rfl, rfl⟩ := h
  have hrem' := hrem
  simp only [amountsRemoved, Option.bind_eq_bind, Option.bind_eq_some_iff, req_eq_some,
    Option.pure_def, Option.some.injEq, Prod.mk.injEq] at hrem'
  obtain ⟨_, hS, _, _, _, _, _, hx1, _, _, _, _, _, hx2, rfl, rfl⟩ := hrem'
  have hL : MINLIQ = 1000 := rfl
  simp only [KPair.pool_remove_liquidity, get_amounts_removed_eq, hrem, sub?, Option.bind_eq_bind,
    Option.bind_some, Option.pure_def, St.touch]
  rw [if_pos (by omega), Option.bind_some, if_pos (by omega), Option.bind_some,
    if_pos (by omega), Option.bind_some]

/-- the model's local no-fee swap (fee slices, `swapNoFeeAndForward`) is the source's
    `swap_safe_no_fee` -/
theorem localSwap_runs_source {s s' : St} {d : Dir} {a out : Nat}
    (h : s.localSwap d a = some (s', out)) :
    KPair.swap_safe_no_fee a (s.rin d) (s.rout d) = some (out, s'.rin d, s'.rout d) := by
  simp only [St.localSwap, Option.bind_eq_bind, Option.bind_eq_some_iff, req_eq_some,
    Option.pure_def, Option.some.injEq, Prod.mk.injEq] at h
  obtain ⟨_, hr, _, ⟨ho1, ho2⟩, rfl, rfl⟩ := h
  simp only [KPair.swap_safe_no_fee, get_amount_out_no_fee_eq, sub?, Option.bind_eq_bind,
    Option.pure_def]
  have h1 : req (s.rin d ≠ 0) = some () := by rw [req_eq_some]; exact hr
  rw [h1, Option.bind_some, if_neg (by omega), Option.bind_some]
  have h2 : req (s.rout d > amountOutNoFee a (s.rin d) (s.rout d) ∧
      amountOutNoFee a (s.rin d) (s.rout d) ≠ 0) = some () := by
    rw [req_eq_some]; exact ⟨ho1, ho2⟩
  rw [h2, Option.bind_some, if_pos (by omega), Option.bind_some]
  cases d <;> rfl

/-! ### pair_actions/swap.rs -/

/-- a successful model fixed-input swap is a successful run of the source's
    `perform_swap_fixed_input`: same output, same special fee, and the reserves the source
    writes back are the model's reserves before fee routing (`swapMid`) -/
theorem swapIn_runs_source {s s' : St} {d : Dir} {a minOut f0 : Nat} {o : Out}
    (ht : s.total ≤ M) (h : swapIn s d a minOut = some (s', o)) :
    KPair.perform_swap_fixed_input f0 a minOut (s.rin d) (s.rout d) s.feeOn s.special s.total =
      some (if s.feeOn then swapFee s a else f0, a, o.v1,
            (swapMid s d a (swapFee s a) o.v1).rin d, (swapMid s d a (swapFee s a) o.v1).rout d) := by
  obtain ⟨s3, spent, _, ha, _, hmin, rfl, h6, h7, h8, hfee, _⟩ := swapIn_spec h
  have hden : s.rin d * M + a * (M - s.total) ≠ 0 := by
    intro h0
    have : amountOut s.total a (s.rin d) (s.rout d) = 0 := by
      simp only [amountOut]; rw [h0]; exact Nat.div_zero _
    exact h8 this
  simp only [KPair.perform_swap_fixed_input, get_amount_out_eq _ _ _ _ ht, if_neg hden,
    get_special_fee_eq, sub?, Option.bind_eq_bind, Option.bind_some, Option.pure_def]
  have e1 : req (amountOut s.total a (s.rin d) (s.rout d) ≥ minOut) = some () := by
    rw [req_eq_some]; exact h6
  have e2 : req (s.rout d > amountOut s.total a (s.rin d) (s.rout d)) = some () := by
    rw [req_eq_some]; exact h7
  have e3 : req (amountOut s.total a (s.rin d) (s.rout d) ≠ 0) = some () := by
    rw [req_eq_some]; exact h8
  rw [e1, Option.bind_some, e2, Option.bind_some, e3, Option.bind_some]
  have h7' : amountOut s.total a (s.rin d) (s.rout d) < s.rout d := h7
  have hle : amountOut s.total a (s.rin d) (s.rout d) ≤ s.rout d := by omega
  cases hf : s.feeOn
  · simp only [Bool.false_eq_true, if_false, swapFee, hf, if_pos hle, Option.bind_some]
    cases d <;> simp [swapMid, St.setR, St.setBal, St.rin, St.rout, St.touch]
  · have hfe : swapFee s a = specialFee s.special a := by simp [swapFee, hf]
    rw [hfe] at hfee ⊢
    simp only [if_true, if_pos hfee, if_pos hle, Option.bind_some]
    cases d <;> simp [swapMid, St.setR, St.setBal, St.rin, St.rout, St.touch]

/-- a successful model fixed-output swap is a successful run of the source's
    `perform_swap_fixed_output`: same charge, same special fee, same reserves -/
theorem swapOut_runs_source {s s' : St} {d : Dir} {maxIn out f0 : Nat} {o : Out}
    (ht : s.total ≤ M) (h : swapOut s d maxIn out = some (s', o)) :
    KPair.perform_swap_fixed_output f0 maxIn out (s.rin d) (s.rout d) s.feeOn s.special s.total =
      some (if s.feeOn then swapFee s o.v2 else f0, o.v2, out,
            (swapMid s d o.v2 (swapFee s o.v2) out).rin d,
            (swapMid s d o.v2 (swapFee s o.v2) out).rout d) := by
  obtain ⟨s3, spent, _, _, _, hout, hden, rfl, hmax, hne, hfee, _⟩ := swapOut_spec h
  simp only [KPair.perform_swap_fixed_output, get_amount_in_eq _ _ _ _ ht (by omega : out ≤ s.rout d),
    if_neg hden, get_special_fee_eq, sub?, Option.bind_eq_bind, Option.bind_some, Option.pure_def]
  have e1 : req (amountIn s.total out (s.rin d) (s.rout d) ≤ maxIn) = some () := by
    rw [req_eq_some]; exact hmax
  have e2 : req (amountIn s.total out (s.rin d) (s.rout d) ≠ 0) = some () := by
    rw [req_eq_some]; exact hne
  rw [e1, Option.bind_some, e2, Option.bind_some]
  have hle : out ≤ s.rout d := by omega
  cases hf : s.feeOn
  · simp only [Bool.false_eq_true, if_false, swapFee, hf, if_pos hle, Option.bind_some]
    cases d <;> simp [swapMid, St.setR, St.setBal, St.rin, St.rout, St.touch]
  · have hfe : swapFee s (amountIn s.total out (s.rin d) (s.rout d)) =
        specialFee s.special (amountIn s.total out (s.rin d) (s.rout d)) := by simp [swapFee, hf]
    rw [hfe] at hfee ⊢
    simp only [if_true, if_pos hfee, if_pos hle, Option.bind_some]
    cases d <;> simp [swapMid, St.setR, St.setBal, St.rin, St.rout, St.touch]

end Mx.KPair
