/-
  KPair — the pair MODEL computes what the pair SOURCE computes.

  `Gen/KPair.lean` is regenerated on every run by `bin/gen-kernels` from the Rust text of
  `dex/pair/src/{amm.rs, liquidity_pool.rs, pair_actions/swap.rs}` (translation rules in the
  generator's doc string: `BigUint` = `Nat`, checked subtraction / division, `require!` = `req`,
  fields of `storage_cache` / `context` as explicit inputs and outputs).  The theorems below are
  re-checked against whatever the source says now:

  * the arithmetic kernels of the source equal the model's kernels (`Pair.quote`, `amountOut`,
    `amountIn`, `amountOutNoFee`, `specialFee`) wherever the source does not abort;
  * `get_amounts_removed` / `set_optimal_amounts` of the source ARE the model's
    `amountsRemoved` / `optimal`;
  * every successful model `addLiq` / `removeLiq` / `swapIn` / `swapOut` / `localSwap` step is a
    successful run of the translated `pool_add_liquidity` / `pool_remove_liquidity` /
    `perform_swap_fixed_input` / `perform_swap_fixed_output` / `swap_safe_no_fee` with exactly the
    model's amounts and new reserves.

  A changed operator, operand, rounding direction, guard or update in those source functions
  changes the generated definition and breaks the corresponding theorem.  The proofs are written with
  the shape-insensitive tactics of Lemmas/KTactic.lean (`k_solve`: unfold, split every `if`,
  AC-normalise, linear arithmetic over the normalised atoms), so that harmless rewrites of the
  source (operands reordered, `min` arguments swapped, locals renamed or introduced, independent
  statements or `require!`s swapped) keep them checking.
-/
import MxModel.Gen.KPair
import MxModel.Lemmas.PairSpec
import MxModel.Lemmas.KTactic

namespace Mx.KPair
open Mx Mx.Pair Mx.Gen

/-! ### amm.rs -/

/-- source `quote` = model `quote` (the source aborts on a zero reserve) -/
theorem quote_eq (a rA rB : Nat) :
    KPair.quote a rA rB = if rA = 0 then none else some (Pair.quote a rA rB) := by
  unfold KPair.quote Pair.quote
  k_solve

/-- source `get_amount_out_no_fee` = model `amountOutNoFee` -/
theorem get_amount_out_no_fee_eq (a rIn rOut : Nat) :
    KPair.get_amount_out_no_fee a rIn rOut =
      if rIn + a = 0 then none else some (amountOutNoFee a rIn rOut) := by
  unfold KPair.get_amount_out_no_fee amountOutNoFee
  k_solve

/-- source `get_amount_out` = model `amountOut` (for a total fee within `MAX_PERCENTAGE`) -/
theorem get_amount_out_eq (a rIn rOut total : Nat) (ht : total ≤ M) :
    KPair.get_amount_out a rIn rOut total =
      if rIn * M + a * (M - total) = 0 then none else some (amountOut total a rIn rOut) := by
  have hM : M = 100000 := rfl
  have ht2 : total ≤ 100000 := ht
  unfold KPair.get_amount_out amountOut
  rw [hM]
  k_solve

/-- source `get_amount_in` = model `amountIn` -/
theorem get_amount_in_eq (out rIn rOut total : Nat) (ht : total ≤ M) (ho : out ≤ rOut) :
    KPair.get_amount_in out rIn rOut total =
      if (rOut - out) * (M - total) = 0 then none else some (amountIn total out rIn rOut) := by
  have hM : M = 100000 := rfl
  have ht2 : total ≤ 100000 := ht
  unfold KPair.get_amount_in amountIn
  rw [hM]
  k_solve

/-- the source refuses to quote an output above the reserve (checked subtraction) -/
theorem get_amount_in_none (out rIn rOut total : Nat) (ho : rOut < out) :
    KPair.get_amount_in out rIn rOut total = none := by
  unfold KPair.get_amount_in
  k_solve

/-- source `get_special_fee_from_input` = model `specialFee` -/
theorem get_special_fee_eq (a special : Nat) :
    KPair.get_special_fee_from_input a special = some (specialFee special a) := by
  have hM : M = 100000 := rfl
  unfold KPair.get_special_fee_from_input specialFee
  rw [hM]
  k_solve

/-- source `calculate_k_constant` is the plain product -/
theorem k_constant_eq (a b : Nat) : KPair.calculate_k_constant a b = some (a * b) := by
  unfold KPair.calculate_k_constant
  k_solve

/-! ### liquidity_pool.rs -/

/-- source `get_amounts_removed` IS the model's `amountsRemoved` (same guards, same floors) -/
theorem get_amounts_removed_eq (s : St) (lp m1 m2 : Nat) :
    KPair.get_amounts_removed m1 lp m2 s.r1 s.S s.r2 = amountsRemoved s lp m1 m2 := by
  have hL : MINLIQ = 1000 := rfl
  unfold KPair.get_amounts_removed amountsRemoved
  try simp only [KPair.quote]   -- a maintainer may (or may not) route these proportions through the `quote` helper
  rw [hL]
  generalize s.r1 = r1
  generalize s.r2 = r2
  generalize s.S = S
  by_cases hS : S = 0
  · have h1 : ¬ (lp + 1000 ≤ S) := by omega
    k_unfold
    simp only [if_neg h1]
  · k_unfold
    simp only [if_neg hS]
    first
      | rfl
      | (k_ac; done)
      | k_solve

/-- source `set_optimal_amounts` (non-initial branch) IS the model's `optimal` -/
theorem set_optimal_amounts_eq (s : St) (a1 a2 m1 m2 : Nat) (hS : s.S ≠ 0)
    (h1 : s.r1 ≠ 0) (h2 : s.r2 ≠ 0) :
    KPair.set_optimal_amounts a1 m1 a2 m2 s.r1 s.S s.r2 = optimal s a1 a2 m1 m2 := by
  unfold KPair.set_optimal_amounts optimal
  simp only [quote_eq, if_neg h1, if_neg h2]
  unfold Pair.quote
  k_solve

/-- the initial branch of `set_optimal_amounts` takes the whole payment -/
theorem set_optimal_amounts_initial (a1 a2 m1 m2 r1 r2 : Nat) :
    KPair.set_optimal_amounts a1 m1 a2 m2 r1 0 r2 = some (a1, a2) := by
  unfold KPair.set_optimal_amounts
  k_solve

/-- a successful model `addLiquidity` (non-initial) is a successful run of the source's
    `set_optimal_amounts` + `pool_add_liquidity` with the model's amounts, LP minted and new
    reserves / supply -/
theorem addLiq_runs_source {s s' : St} {a1 a2 m1 m2 : Nat} {o : Out} (hS : s.S ≠ 0)
    (h : addLiq s a1 a2 m1 m2 = some (s', o)) :
    KPair.set_optimal_amounts a1 m1 a2 m2 s.r1 s.S s.r2 = some (o.v2, o.v3) ∧
    KPair.pool_add_liquidity o.v2 o.v3 s.r1 s.S s.r2 = some (o.v1, s'.r1, s'.S, s'.r2) := by
  simp only [addLiq, if_neg hS, Option.bind_eq_bind, Option.bind_eq_some_iff, req_eq_some,
    Option.pure_def, Option.some.injEq, Prod.mk.injEq] at h
  obtain ⟨_, _, _, _, _, _, _, _, _, ⟨hr1, hr2⟩, ⟨o1, o2⟩, hopt, _, hliq, _, _, rfl, rfl⟩ := h
  refine ⟨by rw [set_optimal_amounts_eq s a1 a2 m1 m2 hS hr1 hr2]; exact hopt, ?_⟩
  have hliq' : 0 < Nat.min (o1 * s.S / s.r1) (o2 * s.S / s.r2) := hliq
  show KPair.pool_add_liquidity o1 o2 s.r1 s.S s.r2 = some (min (o1 * s.S / s.r1) (o2 * s.S / s.r2),
    s.r1 + o1, s.S + min (o1 * s.S / s.r1) (o2 * s.S / s.r2), s.r2 + o2)
  unfold KPair.pool_add_liquidity
  try simp only [KPair.quote]   -- a maintainer may (or may not) route these proportions through the `quote` helper
  k_solve

/-- a successful model first deposit is a successful run of the source's
    `pool_add_initial_liquidity` -/
theorem firstMint_runs_source {s s' : St} {a1 a2 lp : Nat}
    (h : s.firstMint a1 a2 = some (s', lp)) :
    KPair.pool_add_initial_liquidity a1 a2 s.r1 s.r2 = some (lp, s'.r1, s'.S, s'.r2) := by
  have hL : MINLIQ = 1000 := rfl
  simp only [St.firstMint, Option.bind_eq_bind, Option.bind_eq_some_iff, req_eq_some,
    Option.pure_def, Option.some.injEq, Prod.mk.injEq] at h
  obtain ⟨_, hm, rfl, rfl⟩ := h
  have hm' : 1000 < Nat.min a1 a2 := by rw [hL] at hm; exact hm
  show KPair.pool_add_initial_liquidity a1 a2 s.r1 s.r2 =
    some (min a1 a2 - MINLIQ, s.r1 + a1, min a1 a2, s.r2 + a2)
  unfold KPair.pool_add_initial_liquidity
  try simp only [KPair.quote]   -- a maintainer may (or may not) route these proportions through the `quote` helper
  rw [hL]
  k_solve

/-- a successful model `removeLiquidity` is a successful run of the source's
    `pool_remove_liquidity` with the model's payouts and new reserves / supply -/
theorem removeLiq_runs_source {s s' : St} {lp m1 m2 : Nat} {o : Out}
    (h : removeLiq s lp m1 m2 = some (s', o)) :
    KPair.pool_remove_liquidity m1 lp m2 s.r1 s.S s.r2 = some (o.v1, o.v2, s'.r1, s'.S, s'.r2) := by
  simp only [removeLiq, Option.bind_eq_bind, Option.bind_eq_some_iff, req_eq_some, sub?_eq_some,
    Option.pure_def, Option.some.injEq, Prod.mk.injEq] at h
  obtain ⟨_, _, _, _, _, _, ⟨x1, x2⟩, hrem, _, _, c, _, b1, _, b2, _, rfl, rfl⟩ := h
  have hrem' := hrem
  simp only [amountsRemoved, Option.bind_eq_bind, Option.bind_eq_some_iff, req_eq_some,
    Option.pure_def, Option.some.injEq, Prod.mk.injEq] at hrem'
  obtain ⟨_, hS, _, _, _, _, _, hx1, _, _, _, _, _, hx2, rfl, rfl⟩ := hrem'
  have hL : MINLIQ = 1000 := rfl
  rw [hL] at hS
  show KPair.pool_remove_liquidity m1 lp m2 s.r1 s.S s.r2 =
    some (lp * s.r1 / s.S, lp * s.r2 / s.S, s.r1 - lp * s.r1 / s.S, s.S - lp, s.r2 - lp * s.r2 / s.S)
  unfold KPair.pool_remove_liquidity
  try simp only [KPair.quote]   -- a maintainer may (or may not) route these proportions through the `quote` helper
  rw [get_amounts_removed_eq, hrem]
  k_solve

/-- the model's local no-fee swap (fee slices, `swapNoFeeAndForward`) is the source's
    `swap_safe_no_fee` -/
theorem localSwap_runs_source {s s' : St} {d : Dir} {a out : Nat}
    (h : s.localSwap d a = some (s', out)) :
    KPair.swap_safe_no_fee a (s.rin d) (s.rout d) = some (out, s'.rin d, s'.rout d) := by
  simp only [St.localSwap, Option.bind_eq_bind, Option.bind_eq_some_iff, req_eq_some,
    Option.pure_def, Option.some.injEq, Prod.mk.injEq] at h
  obtain ⟨_, hr, _, ⟨ho1, ho2⟩, rfl, rfl⟩ := h
  have e1 : (s.setR d (s.rin d + a) (s.rout d - amountOutNoFee a (s.rin d) (s.rout d))).rin d = s.rin d + a := by
    cases d <;> rfl
  have e2 : (s.setR d (s.rin d + a) (s.rout d - amountOutNoFee a (s.rin d) (s.rout d))).rout d =
      s.rout d - amountOutNoFee a (s.rin d) (s.rout d) := by
    cases d <;> rfl
  rw [e1, e2]
  unfold KPair.swap_safe_no_fee
  simp only [get_amount_out_no_fee_eq]
  k_solve

/-! ### pair_actions/swap.rs -/

theorem swapMid_rin (s : St) (d : Dir) (c f o : Nat) : (swapMid s d c f o).rin d = s.rin d + (c - f) := by
  cases d <;> rfl
theorem swapMid_rout (s : St) (d : Dir) (c f o : Nat) : (swapMid s d c f o).rout d = s.rout d - o := by
  cases d <;> rfl

/-- a successful model fixed-input swap is a successful run of the source's
    `perform_swap_fixed_input`: same output, same special fee, and the reserves the source
    writes back are the model's reserves before fee routing (`swapMid`) -/
theorem swapIn_runs_source {s s' : St} {d : Dir} {a minOut f0 : Nat} {o : Out}
    (ht : s.total ≤ M) (h : swapIn s d a minOut = some (s', o)) :
    KPair.perform_swap_fixed_input f0 a minOut (s.rin d) (s.rout d) s.feeOn s.special s.total =
      some (if s.feeOn then swapFee s a else f0, a, o.v1,
            (swapMid s d a (swapFee s a) o.v1).rin d, (swapMid s d a (swapFee s a) o.v1).rout d) := by
  obtain ⟨s3, spent, _, ha, _, hmin, rfl, h6, h7, h8, hfee, _⟩ := swapIn_spec h
  have h6' : minOut ≤ amountOut s.total a (s.rin d) (s.rout d) := h6
  have h7' : amountOut s.total a (s.rin d) (s.rout d) < s.rout d := h7
  have h8' : amountOut s.total a (s.rin d) (s.rout d) ≠ 0 := h8
  have hden : s.rin d * M + a * (M - s.total) ≠ 0 := by
    intro h0
    have : amountOut s.total a (s.rin d) (s.rout d) = 0 := by
      simp only [amountOut]; rw [h0]; exact Nat.div_zero _
    exact h8 this
  rw [swapMid_rin, swapMid_rout]
  show _ = some (_, a, amountOut s.total a (s.rin d) (s.rout d), _, _)
  unfold KPair.perform_swap_fixed_input
  simp only [get_amount_out_eq _ _ _ _ ht, if_neg hden, get_special_fee_eq]
  cases hf : s.feeOn
  · have hfe : swapFee s a = 0 := by simp [swapFee, hf]
    rw [hfe]
    k_solve
  · have hfe : swapFee s a = specialFee s.special a := by simp [swapFee, hf]
    rw [hfe] at hfee ⊢
    k_solve

/-- a successful model fixed-output swap is a successful run of the source's
    `perform_swap_fixed_output`: same charge, same special fee, same reserves -/
theorem swapOut_runs_source {s s' : St} {d : Dir} {maxIn out f0 : Nat} {o : Out}
    (ht : s.total ≤ M) (h : swapOut s d maxIn out = some (s', o)) :
    KPair.perform_swap_fixed_output f0 maxIn out (s.rin d) (s.rout d) s.feeOn s.special s.total =
      some (if s.feeOn then swapFee s o.v2 else f0, o.v2, out,
            (swapMid s d o.v2 (swapFee s o.v2) out).rin d,
            (swapMid s d o.v2 (swapFee s o.v2) out).rout d) := by
  obtain ⟨s3, spent, _, _, _, hout, hden, rfl, hmax, hne, hfee, _⟩ := swapOut_spec h
  have hmax' : amountIn s.total out (s.rin d) (s.rout d) ≤ maxIn := hmax
  have hne' : amountIn s.total out (s.rin d) (s.rout d) ≠ 0 := hne
  rw [swapMid_rin, swapMid_rout]
  show _ = some (_, amountIn s.total out (s.rin d) (s.rout d), out, _, _)
  unfold KPair.perform_swap_fixed_output
  simp only [get_amount_in_eq _ _ _ _ ht (by omega : out ≤ s.rout d), if_neg hden, get_special_fee_eq]
  cases hf : s.feeOn
  · have hfe : swapFee s (amountIn s.total out (s.rin d) (s.rout d)) = 0 := by simp [swapFee, hf]
    rw [hfe]
    k_solve
  · have hfe : swapFee s (amountIn s.total out (s.rin d) (s.rout d)) =
        specialFee s.special (amountIn s.total out (s.rin d) (s.rout d)) := by simp [swapFee, hf]
    rw [hfe] at hfee ⊢
    k_solve

/-! ### fee.rs: the fees-collector cut and the slice of `send_fee`; liquidity_pool.rs: position view -/

/-- the fees-collector part of `send_fee`: `cut = ⌊fee · pct / 100000⌋`, `rest = fee − cut`
    (checked: aborts for a cut above the fee, i.e. a percentage above 100 %) -/
theorem fee_collector_cut_eq (fee pct : Nat) :
    KPair.fee_collector_cut fee pct =
      if fee < fee * pct / M then none else some (fee * pct / M, fee - fee * pct / M) := by
  have hM : M = 100000 := rfl
  k_defs [KPair.fee_collector_cut, hM]
  k_solve

/-- a successful model `collectorCut` with a configured collector returns the source's remainder,
    and what it books for the collector is the source's cut -/
theorem collectorCut_runs_source {s s' : St} {d : Dir} {fee pct rem : Nat} (hc : s.cut = some pct)
    (h : s.collectorCut d fee = some (s', rem)) :
    KPair.fee_collector_cut fee pct = some (fee * pct / M, rem) := by
  simp only [St.collectorCut, hc, Option.bind_eq_bind, Option.bind_eq_some_iff, sub?_eq_some] at h
  obtain ⟨r, ⟨hle, rfl⟩, h⟩ := h
  have hr : rem = fee - fee * pct / M := by
    split at h
    · simp only [Option.bind_eq_bind, Option.bind_eq_some_iff, Option.pure_def, Option.some.injEq,
        Prod.mk.injEq] at h
      obtain ⟨_, _, _, rfl⟩ := h
      rfl
    · simp only [Option.pure_def, Option.some.injEq, Prod.mk.injEq] at h
      exact h.2.symm
  rw [fee_collector_cut_eq, if_neg (by omega), hr]

/-- the slice every fee destination receives: `⌊remaining / number of destinations⌋`
    (the caller returned before for zero destinations, so the division does not abort there) -/
theorem fee_slice_amount_eq (rem n : Nat) :
    KPair.fee_slice_amount rem n = if n = 0 then none else some (rem / n) := by
  k_defs [KPair.fee_slice_amount]
  k_solve

/-- `setupFeesCollector` accepts exactly the cut percentages `0 < pct ≤ 100000`
    (the model's `cfg (.setCollector c)`) -/
theorem setup_fees_collector_guard_eq (pct : Nat) :
    KPair.setup_fees_collector_guard pct = if 0 < pct ∧ pct ≤ M then some () else none := by
  have hM : M = 100000 := rfl
  k_defs [KPair.setup_fees_collector_guard, hM]
  k_solve

/-- source `get_token_for_given_position` on the first / second reserve IS the model's
    `viewTokensForPosition` (component-wise): `⌊lp · reserve / supply⌋`, 0 for an empty pool -/
theorem get_token_for_given_position_eq (s : St) (lp tok : Nat) :
    KPair.get_token_for_given_position lp s.S s.r1 tok = some (tok, 0, (viewTokensForPosition s lp).1) ∧
    KPair.get_token_for_given_position lp s.S s.r2 tok = some (tok, 0, (viewTokensForPosition s lp).2) := by
  constructor <;>
  · k_defs [KPair.get_token_for_given_position, viewTokensForPosition]
    k_solve

end Mx.KPair
