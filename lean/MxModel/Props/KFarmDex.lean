/-
  KFarmDex — the farm model (`Core/Farm.lean`) computes what the SOURCE that `dex/farm` and
  `dex/farm-with-locked-rewards` really run computes:

    * `mint_per_block_rewards`       common/modules/farm/farm_base_impl/src/base_traits_impl.rs
    * `take_reward_slice`            energy-integration/farm-boosted-yields/src/lib.rs
    * `Wrapper::generate_aggregated_rewards`, `Wrapper::calculate_rewards`, `Wrapper::get_exit_penalty`,
      `Wrapper::apply_penalty`, `claim_only_boosted_payment`      dex/farm/src/base_functions.rs
      (`NoMintWrapper` of farm-with-locked-rewards has the same `generate_aggregated_rewards` text and
      forwards the other three to `Wrapper`)

  `Gen/KFarmDex.lean` is regenerated on every run by `bin/gen-kernels`.  Storage cells read are
  inputs (`last_reward_block_nonce`, `boosted_yields_rewards_percentage`, `first_week_start_epoch`,
  `accumulated_rewards_for_week(current_week)` …), cells and cache fields written are outputs.
-/
import MxModel.Gen.KFarmDex
import MxModel.Props.KFarm
import MxModel.Props.KWeek
import MxModel.Lemmas.FarmSpec
import MxModel.Lemmas.KTactic

namespace Mx.KFarmDex
open Mx Mx.Gen Mx.Farm

/-! ### emission -/

/-- source `mint_per_block_rewards` in closed form: when the block advanced, the emission
    `calculate_per_block_rewards` and `last_reward_block_nonce := current block`; otherwise nothing.
    Result order (emitted, last_reward_block_nonce); never aborts -/
theorem mint_per_block_rewards_eq (cur last perBlock : Nat) (produce : Bool) :
    KFarmDex.mint_per_block_rewards cur last perBlock produce =
      some (if last < cur then (if produce = false then 0 else perBlock * (cur - last)) else 0,
            if last < cur then cur else last) := by
  k_defs [KFarmDex.mint_per_block_rewards, Mx.KFarm.calculate_per_block_rewards_eq]
  cases produce <;> k_solve

/-- on a model state: the source emits the model's `minted` and moves `last_reward_block_nonce`
    exactly as `generate` moves `lastBlock` -/
theorem mint_per_block_rewards_state (s : St) :
    KFarmDex.mint_per_block_rewards s.block s.lastBlock s.perBlock s.produce =
      some (minted s, if s.lastBlock < s.block then s.block else s.lastBlock) := by
  rw [mint_per_block_rewards_eq]
  simp only [minted]
  by_cases hb : s.lastBlock < s.block
  · cases hp : s.produce <;> simp [hb]
  · simp [hb]

/-! ### the boosted cut -/

/-- source `take_reward_slice(full)` in closed form.  Result order (base_farm, boosted_farm,
    accumulated_rewards_for_week(current week)).  No cut for percentage 0 or a cut that rounds to 0
    (then the week is not even computed); otherwise the cut `⌊full · pct / 10000⌋` is added to the
    current week's accumulator and taken off the base part — aborting before the first week and on
    a cut above the full amount (percentage above 100 %) -/
theorem take_reward_slice_eq (full acc epoch pct first : Nat) :
    KFarmDex.take_reward_slice full acc epoch pct first =
      if pct = 0 ∨ full * pct / 10000 = 0 then some (full, 0, acc)
      else if epoch < first ∨ full < full * pct / 10000 then none
      else some (full - full * pct / 10000, full * pct / 10000, acc + full * pct / 10000) := by
  k_defs [KFarmDex.take_reward_slice, Mx.KWeek.get_current_week_eq, Weekly.weekOf]
  k_solve

/-- a successful model `takeRewardSlice` is a successful run of the source's `take_reward_slice`
    (for a percentage within 100 %): same cut, base part = full − cut, and the current week's
    accumulator moves as in the model -/
theorem takeRewardSlice_runs_source {s s' : St} {full cut : Nat}
    (h : takeRewardSlice s full = some (s', cut)) (hp : s.pct ≤ MAXPCT) (acc : Nat) :
    KFarmDex.take_reward_slice full acc s.epoch s.pct s.firstWeekStart =
      some (full - cut, cut, acc + cut) ∧
    (∀ W, s.week = some W → s'.b.accum W = s.b.accum W + cut) := by
  have hM : MAXPCT = 10000 := rfl
  obtain ⟨hcut, hcases⟩ := takeRewardSlice_spec h
  rw [hM] at hcut hp
  rw [take_reward_slice_eq]
  rcases hcases with ⟨h0, hs'⟩ | ⟨hpos, W, hW, hs'⟩
  · have hz : s.pct = 0 ∨ full * s.pct / 10000 = 0 := by
      by_cases hz : s.pct = 0
      · exact Or.inl hz
      · rw [if_neg hz] at hcut; exact Or.inr (by omega)
    rw [if_pos hz, h0, hs']
    exact ⟨rfl, fun W _ => rfl⟩
  · have hpz : s.pct ≠ 0 := by
      intro hz; rw [if_pos hz] at hcut; omega
    rw [if_neg hpz] at hcut
    have hz : ¬ (s.pct = 0 ∨ full * s.pct / 10000 = 0) := by omega
    have hle : full * s.pct / 10000 ≤ full := by
      apply Nat.div_le_of_le_mul
      calc full * s.pct ≤ full * 10000 := Nat.mul_le_mul_left _ hp
        _ = 10000 * full := Nat.mul_comm _ _
    have hwk : s.firstWeekStart ≤ s.epoch := by
      simp only [St.week, Weekly.weekOf, Option.bind_eq_bind, Option.bind_eq_some_iff,
        req_eq_some] at hW
      obtain ⟨_, hle', _⟩ := hW
      exact hle'
    have h2 : ¬ (s.epoch < s.firstWeekStart ∨ full < full * s.pct / 10000) := by omega
    rw [if_neg hz, if_neg h2, ← hcut, hs']
    refine ⟨rfl, fun W' hW' => ?_⟩
    rw [hW] at hW'
    cases hW'
    simp only [Weekly.upd_same]

/-! ### `Wrapper::generate_aggregated_rewards` -/

/-- source `Wrapper::generate_aggregated_rewards` as the composition of the three source steps.
    Result order (accumulated_rewards_for_week(current week), last_reward_block_nonce,
    reward_per_share, reward_reserve) -/
theorem generate_aggregated_rewards_eq (dsc supply rps reserve acc epoch block pct first last perBlock : Nat)
    (produce : Bool) (m last' : Nat)
    (hm : KFarmDex.mint_per_block_rewards block last perBlock produce = some (m, last')) :
    KFarmDex.generate_aggregated_rewards dsc supply rps reserve acc epoch block pct first last perBlock
        produce =
      if m = 0 then some (acc, last', rps, reserve)
      else (KFarmDex.take_reward_slice m acc epoch pct first).bind fun r =>
        some (r.2.2, last', rps + (if supply = 0 then 0 else r.1 * dsc / supply), reserve + m) := by
  k_defs [KFarmDex.generate_aggregated_rewards, hm]
  rcases KFarmDex.take_reward_slice m acc epoch pct first with _ | ⟨base, cut, acc'⟩ <;> k_solve

/-- MAIN: a successful model `generate` is a successful run of the
    source's `Wrapper::generate_aggregated_rewards` on the same cache and storage cells: same new
    `last_reward_block_nonce`, same new index, same new reserve, and the current week's accumulated
    boosted rewards grow by the model's cut `cutOf s` -/
theorem generate_runs_source {s s' : St} {c c' : Cache} (h : generate s c = some (s', c'))
    (acc : Nat) :
    KFarmDex.generate_aggregated_rewards s.dsc c.supply c.rps c.reserve acc s.epoch s.block s.pct
        s.firstWeekStart s.lastBlock s.perBlock s.produce =
      some (acc + cutOf s, s'.lastBlock, c'.rps, c'.reserve) ∧
    (∀ W, s.week = some W → s'.b.accum W = s.b.accum W + cutOf s) := by
  obtain ⟨b', hs', hle, hc', hb⟩ := generate_spec h
  rw [generate_aggregated_rewards_eq _ _ _ _ _ _ _ _ _ _ _ _ _ _ (mint_per_block_rewards_state s)]
  have hlast : s'.lastBlock = if s.lastBlock < s.block then s.block else s.lastBlock := by rw [hs']
  have hacc : ∀ W, s.week = some W → s'.b.accum W = s.b.accum W + cutOf s := by
    intro W hW
    rw [hs']
    rcases hb with ⟨h0, rfl⟩ | ⟨_, W', hW', rfl⟩
    · simp only [h0, Nat.add_zero]
    · rw [hW] at hW'; cases hW'
      simp only [Weekly.upd_same]
  refine ⟨?_, hacc⟩
  by_cases hm : minted s = 0
  · have hcut : cutOf s = 0 := by omega
    rw [if_pos hm, hc', hlast, hm, hcut]
    simp only [Nat.add_zero, Nat.sub_zero, Nat.zero_mul, Nat.zero_div, ite_self]
  · rw [if_neg hm, take_reward_slice_eq]
    have hcdef : cutOf s = if s.pct = 0 then 0 else minted s * s.pct / 10000 := rfl
    rcases hb with ⟨h0, _⟩ | ⟨hpos, W, hW, _⟩
    · have hz : s.pct = 0 ∨ minted s * s.pct / 10000 = 0 := by
        by_cases hz : s.pct = 0
        · exact Or.inl hz
        · rw [if_neg hz] at hcdef; exact Or.inr (by omega)
      rw [if_pos hz, hc', hlast, h0]
      simp only [Option.bind_some, Nat.add_zero, Nat.sub_zero]
    · have hpz : s.pct ≠ 0 := by
        intro hz; rw [if_pos hz] at hcdef; omega
      rw [if_neg hpz] at hcdef
      have hz : ¬ (s.pct = 0 ∨ minted s * s.pct / 10000 = 0) := by omega
      have hwk : s.firstWeekStart ≤ s.epoch := by
        simp only [St.week, Weekly.weekOf, Option.bind_eq_bind, Option.bind_eq_some_iff,
          req_eq_some] at hW
        obtain ⟨_, hle', _⟩ := hW
        exact hle'
      have h2 : ¬ (s.epoch < s.firstWeekStart ∨ minted s < minted s * s.pct / 10000) := by omega
      rw [if_neg hz, if_neg h2, ← hcdef, hc', hlast]
      simp only [Option.bind_some]

/-- the source aborts exactly where the model's `generate` can fail: a non-zero cut before the
    first week, or a cut above the emission (percentage above 100 %) -/
theorem generate_aggregated_rewards_aborts (s : St) (c : Cache) (acc : Nat)
    (hcut : cutOf s ≠ 0) (hbad : s.epoch < s.firstWeekStart ∨ minted s < cutOf s) :
    KFarmDex.generate_aggregated_rewards s.dsc c.supply c.rps c.reserve acc s.epoch s.block s.pct
        s.firstWeekStart s.lastBlock s.perBlock s.produce = none := by
  rw [generate_aggregated_rewards_eq _ _ _ _ _ _ _ _ _ _ _ _ _ _ (mint_per_block_rewards_state s)]
  have hcdef : cutOf s = if s.pct = 0 then 0 else minted s * s.pct / 10000 := rfl
  have hpz : s.pct ≠ 0 := by
    intro hz; rw [if_pos hz] at hcdef; exact hcut hcdef
  rw [if_neg hpz] at hcdef
  have hm : minted s ≠ 0 := by
    intro hm; rw [hm, Nat.zero_mul, Nat.zero_div] at hcdef; exact hcut hcdef
  have hz : ¬ (s.pct = 0 ∨ minted s * s.pct / 10000 = 0) := by omega
  have h2 : s.epoch < s.firstWeekStart ∨ minted s < minted s * s.pct / 10000 := by omega
  rw [if_neg hm, take_reward_slice_eq, if_neg hz, if_pos h2]
  rfl

/-! ### rewards of a position, exit penalty, boosted-only claim -/

/-- source `Wrapper::calculate_rewards` = model base reward + the boosted claim (`reward := base +
    boosted` in `claimCore` / `exitFarm`), for a non-zero division safety constant -/
theorem calculate_rewards_eq (amount rpsTok dsc rpsNow boosted : Nat) (hd : dsc ≠ 0) :
    KFarmDex.calculate_rewards amount rpsTok dsc rpsNow boosted =
      some (baseReward dsc rpsNow amount rpsTok + boosted) := by
  k_defs [KFarmDex.calculate_rewards, Mx.KFarm.calculate_rewards_some _ _ _ _ hd]
  k_solve

/-- source `Wrapper::get_exit_penalty` IS the model's `exitPenalty`: aborts when the entering epoch
    lies in the future (checked `u64` subtraction), 0 after the minimum farming epochs, otherwise
    `⌊amount · penalty_percent / 10000⌋` -/
theorem get_exit_penalty_eq (s : St) (amount entering : Nat) :
    KFarmDex.get_exit_penalty amount entering s.epoch s.minFarmingEpochs s.penaltyPct =
      exitPenalty s amount entering := by
  have hM : MAXPCT = 10000 := rfl
  k_defs [KFarmDex.get_exit_penalty, exitPenalty, hM]
  k_solve

/-- source `Wrapper::apply_penalty` (the amount left after the penalty) IS the model's
    `exitPenalty` followed by the checked subtraction, as in `exitFarm` -/
theorem apply_penalty_eq (s : St) (amount entering : Nat) :
    KFarmDex.apply_penalty amount entering s.epoch s.minFarmingEpochs s.penaltyPct =
      (exitPenalty s amount entering).bind fun pen => sub? amount pen := by
  k_defs [KFarmDex.apply_penalty, get_exit_penalty_eq]
  cases exitPenalty s amount entering <;> k_solve

/-- source `claim_only_boosted_payment` in closed form: the boosted reward is taken off the STORED
    `reward_reserve` (checked), nothing is touched for a zero reward.  Result (reward, reward_reserve) -/
theorem claim_only_boosted_payment_eq (r reserve : Nat) :
    KFarmDex.claim_only_boosted_payment r reserve =
      if r = 0 then some (0, reserve) else (sub? reserve r).map fun res => (r, res) := by
  k_defs [KFarmDex.claim_only_boosted_payment]
  k_solve

/-- the model's `claimOnlyBoostedPayment` is its boosted claim followed by the source's
    `claim_only_boosted_payment` on the stored reserve -/
theorem claimOnlyBoostedPayment_runs_source {s s1 : St} {user r : Nat}
    (hb : claimBoostedYields s user = some (s1, r)) :
    claimOnlyBoostedPayment s user =
      (KFarmDex.claim_only_boosted_payment r s1.reserve).map
        fun p => ({ s1 with reserve := p.2 }, p.1) := by
  rw [claim_only_boosted_payment_eq]
  simp only [claimOnlyBoostedPayment, hb, Option.bind_eq_bind, Option.bind_some, Option.pure_def]
  by_cases h : r = 0
  · subst h
    simp only [if_true, Option.map_some]
  · simp only [if_neg h]
    cases sub? s1.reserve r <;> rfl

example : KFarmDex.take_reward_slice 1000 5 20 2500 10 = some (750, 250, 255) := by decide
example : KFarmDex.take_reward_slice 1000 5 9 2500 10 = none := by decide
example : KFarmDex.take_reward_slice 3 5 9 2500 10 = some (3, 0, 5) := by decide
example : KFarmDex.generate_aggregated_rewards 1000 50 7 20 5 20 10 2500 10 4 5 true =
    some (12, 10, 467, 50) := by decide
example : KFarmDex.apply_penalty 1000 8 10 3 100 = some 990 := by decide
example : KFarmDex.apply_penalty 1000 8 11 3 100 = some 1000 := by decide

end Mx.KFarmDex
