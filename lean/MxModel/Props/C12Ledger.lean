/-
  C12 — the staking-token balance with EVERY term identified, unbond liveness, the admin ledger.

  Statement (properties.jsonl C12): "… the contract's staking-token balance always equals directly
  staked principal plus outstanding unbond amounts plus un-accrued capacity plus
  accrued-but-unpaid rewards.  Unstaked principal can be withdrawn in full exactly once the unbond
  period has elapsed and never before, and the admin can withdraw only capacity that has not yet
  been accrued to stakers."

  Props/C12.lean proves the decomposition with two signed ghosts, `virt` (stake registered
  through the metastaking-proxy endpoints without staking tokens moving) and `unbondOut`.  This
  file closes audit item 4 (notes/audit-session3.md): nothing constrained `virt`, so "directly
  staked principal" was not pinned, and the side condition `pay ≤ balance` of `unbondFarm` was
  never discharged.

  What determines `virt`:
    * `virt_only_proxy`      (one transaction, all operations): `virt` moves by `virtDelta op`, a
      function of the operation alone, non-zero only for the three proxy endpoints, each of which
      needs a caller on the (constant) SC whitelist;
    * `virt_eq_history`      (all histories): `virt` = Σ over the successful proxy operations;
    * `no_proxy_no_virt`     empty whitelist ⇒ `virt = 0` always ⇒ `staking_balance_no_proxy`:
      balance = supply + Σ outstanding unbond units + (capacity − accumulated) + reserve, all `Nat`;
    * `virt_eq_proxy_held`   under the PROXY DISCIPLINE `discRun P` (the accounts of `P` behave like
      the metastaking proxy: only they use the proxy endpoints, they never stake / compound /
      unstake directly, positions never cross the boundary of `P`; unbond tokens may):
      `virt` = Σ position units held by the accounts of `P`, hence `staking_balance_identified`:
      balance = Σ position units held by NON-proxy accounts + Σ outstanding unbond units
                + (capacity − accumulated) + reserve.
  The discipline is NECESSARY (observation, see `undisciplined_proxy_drains_capacity`): a
  whitelisted address that registers virtual stake and then leaves through the DIRECT
  `unstakeFarm` receives an unbond token backed by nothing and is paid from the admin's capacity —
  `unstakeFarm` cannot tell a virtually staked position from a real one (same attributes in the
  Rust code).  The SC whitelist is a trust assumption of C12.

  Lemmas: Lemmas/StakingVirt.lean, Lemmas/StakingLedger.lean.  Only property theorems live here.
-/
import MxModel.Lemmas.StakingLedger

namespace Mx.C12Ledger
open Mx.Staking

/-- the state reached from a fresh deployment (any configuration) by any history -/
abbrev reach (epoch block dsc maxApr minUnbond perBlock : Nat) (accts wl : List Nat)
    (ops : List Op) : St :=
  run (init epoch block dsc maxApr minUnbond perBlock accts wl) ops

/-! ### explicit sums -/

/-- units of staking POSITIONS (unbond tokens excluded) held by the distinct accounts of the world
    selected by `q` -/
def positionUnits (s : St) (q : Nat → Bool) : Nat :=
  ((List.range (s.nonce + 1)).map fun n =>
    match s.md n with
    | some (.pos _) => ((s.accts.dedup.filter q).map fun a => s.hold a n).sum
    | _ => 0).sum

/-- stake held by the proxy accounts `P` -/
def proxyHeld (P : List Nat) (s : St) : Nat := positionUnits s (fun a => decide (a ∈ P))

/-- DIRECTLY staked principal: position units held by accounts outside `P` -/
def directPrincipal (P : List Nat) (s : St) : Nat := positionUnits s (fun a => !decide (a ∈ P))

theorem proxyHeld_eq (P : List Nat) (s : St) : proxyHeld P s = (pv s).held P :=
  (held_explicit P (pv s)).symm

theorem directPrincipal_eq (P : List Nat) (s : St) : directPrincipal P s = (pv s).direct P :=
  (direct_explicit P (pv s)).symm

/-! ### what determines `virt` -/

/-- **virt_only_proxy** (one transaction, every operation, all arguments): the proxy-virtual stake
    moves by `virtDelta op` — `+amount` for `stakeFarmThroughProxy`, `new − old` for
    `claimRewardsWithNewValue`, `−position amount` for `unstakeFarmThroughProxy`, 0 for everything
    else — and it can only move when the sender is on the SC whitelist, which no operation changes -/
theorem virt_only_proxy {s s' : St} {op : Op} {o : Out} (h : step s op = some (s', o)) :
    s'.virt = s.virt + virtDelta op ∧ s'.whitelist = s.whitelist ∧
    (s'.virt ≠ s.virt →
      ∃ c ∈ s.whitelist, (∃ orig a adds, op = .stakeProxy c orig a adds) ∨
        (∃ orig nv p, op = .claimNew c orig nv p) ∨ (∃ orig x p, op = .unstakeProxy c orig x p)) := by
  obtain ⟨h1, h2, _⟩ := step_virt h
  refine ⟨h1, h2, fun hne => ?_⟩
  have hcore := (step_core h).2
  cases op <;> simp only [virtDelta] at h1 <;> try (exact absurd (by omega) hne)
  case stakeProxy c orig a adds =>
    simp only [stepCore, stakeProxy, Option.bind_eq_bind, Option.bind_eq_some_iff, req_eq_some] at hcore
    obtain ⟨_, hw, _⟩ := hcore
    exact ⟨_, hw, Or.inl ⟨_, _, _, rfl⟩⟩
  case claimNew c orig nv p =>
    simp only [stepCore, claimNewValue, Option.bind_eq_bind, Option.bind_eq_some_iff, req_eq_some] at hcore
    obtain ⟨_, hw, _⟩ := hcore
    exact ⟨_, hw, Or.inr (Or.inl ⟨_, _, _, rfl⟩)⟩
  case unstakeProxy c orig x p =>
    simp only [stepCore, unstakeProxy, Option.bind_eq_bind, Option.bind_eq_some_iff, req_eq_some] at hcore
    obtain ⟨_, hw, _⟩ := hcore
    exact ⟨_, hw, Or.inr (Or.inr ⟨_, _, _, rfl⟩)⟩

/-- **virt_eq_history**: after any history, `virt` is the net of the successful proxy operations
    (`histSumI virtDelta` adds `virtDelta op` over the transactions that succeeded) -/
theorem virt_eq_history (epoch block dsc maxApr minUnbond perBlock : Nat) (accts wl : List Nat)
    (ops : List Op) :
    (reach epoch block dsc maxApr minUnbond perBlock accts wl ops).virt =
      histSumI virtDelta (init epoch block dsc maxApr minUnbond perBlock accts wl) ops := by
  have h0 : (init epoch block dsc maxApr minUnbond perBlock accts wl).virt = 0 := rfl
  show (run _ ops).virt = _
  rw [run_virt, h0, Int.zero_add]

/-- the SC whitelist of a deployment never changes -/
theorem whitelist_const (epoch block dsc maxApr minUnbond perBlock : Nat) (accts wl : List Nat)
    (ops : List Op) : (reach epoch block dsc maxApr minUnbond perBlock accts wl ops).whitelist = wl :=
  run_whitelist ops

/-- **no_proxy_no_virt**: with an empty SC whitelist there is never any virtual stake -/
theorem no_proxy_no_virt (epoch block dsc maxApr minUnbond perBlock : Nat) (accts : List Nat)
    (ops : List Op) : (reach epoch block dsc maxApr minUnbond perBlock accts [] ops).virt = 0 := by
  suffices h : ∀ (ops : List Op) (s : St), s.whitelist = [] → s.virt = 0 → (run s ops).virt = 0 from
    h ops _ rfl rfl
  intro ops
  induction ops with
  | nil => intro s _ hv; exact hv
  | cons op ops ih =>
    intro s hw hv
    cases hst : step s op with
    | none => rw [run_cons_none ops hst]; exact ih s hw hv
    | some r =>
      obtain ⟨s1, o⟩ := r
      rw [run_cons_some ops hst]
      obtain ⟨_, h2, h3⟩ := virt_only_proxy hst
      refine ih s1 (h2.trans hw) ?_
      by_contra hne
      obtain ⟨c, hc, _⟩ := h3 (by rw [hv]; exact hne)
      rw [hw] at hc
      cases hc

/-- **virt_eq_proxy_held**: if every successful transaction of the history obeys the proxy
    discipline for `P`, the virtual stake is exactly the position units held by the accounts of
    `P` — in particular `0 ≤ virt ≤ supply` -/
theorem virt_eq_proxy_held (epoch block dsc maxApr minUnbond perBlock : Nat) (accts wl : List Nat)
    (P : List Nat) (ops : List Op)
    (hd : discRun P (init epoch block dsc maxApr minUnbond perBlock accts wl) ops = true) :
    let s := reach epoch block dsc maxApr minUnbond perBlock accts wl ops
    s.virt = (proxyHeld P s : Nat) ∧ proxyHeld P s + directPrincipal P s = s.supply := by
  intro s
  have hP : PosInv s := run_posInv ops (posInv_init epoch block dsc maxApr minUnbond perBlock accts wl)
  have hV : VirtOK P s := run_virtOK ops
    (posInv_init epoch block dsc maxApr minUnbond perBlock accts wl)
    (virtOK_init P epoch block dsc maxApr minUnbond perBlock accts wl) hd
  rw [proxyHeld_eq, directPrincipal_eq]
  exact ⟨hV, PosOK.held_add_direct hP P⟩

/-! ### the balance decomposition with every term identified -/

/-- **staking_balance_identified**: after any history that obeys the proxy discipline for `P`,
    the contract's staking-token balance =
      directly staked principal (position units held by accounts outside `P`)
      + Σ units of the outstanding unbond tokens
      + un-accrued capacity (`capacity − accumulated`)
      + accrued-but-unpaid rewards (`reserve`),
    an equation between natural numbers without any ghost -/
theorem staking_balance_identified (epoch block dsc maxApr minUnbond perBlock : Nat)
    (accts wl : List Nat) (P : List Nat) (ops : List Op)
    (hd : discRun P (init epoch block dsc maxApr minUnbond perBlock accts wl) ops = true) :
    let s := reach epoch block dsc maxApr minUnbond perBlock accts wl ops
    s.bal = directPrincipal P s + unbondUnits s + (s.capacity - s.accumulated) + s.reserve := by
  intro s
  have hI : Inv s := run_inv ops (inv_init epoch block dsc maxApr minUnbond perBlock accts wl)
  have hP0 := posInv_init epoch block dsc maxApr minUnbond perBlock accts wl
  have hU : UnbInv s := run_unbInv ops hP0 (unbInv_init epoch block dsc maxApr minUnbond perBlock accts wl)
  obtain ⟨h1, h2⟩ := virt_eq_proxy_held epoch block dsc maxApr minUnbond perBlock accts wl P ops hd
  have h3 := hI.bal_eq
  have h4 := hI.acc_le
  have h5 := hU.explicit
  have h1' : s.virt = (proxyHeld P s : Nat) := h1
  have h2' : proxyHeld P s + directPrincipal P s = s.supply := h2
  omega

/-- the proxy discipline for the empty proxy set holds for every history of a deployment without
    whitelisted contracts -/
theorem discRun_nil (ops : List Op) : ∀ (s : St), s.whitelist = [] → discRun [] s ops = true := by
  induction ops with
  | nil => intro _ _; rfl
  | cons op ops ih =>
    intro s hw
    simp only [discRun]
    cases hst : step s op with
    | none => exact ih s hw
    | some r =>
      obtain ⟨s1, o⟩ := r
      obtain ⟨_, h2, h3⟩ := virt_only_proxy hst
      simp only [Bool.and_eq_true]
      refine ⟨?_, ih s1 (h2.trans hw)⟩
      have hcore := (step_core hst).2
      cases op <;> simp only [disc, List.not_mem_nil, decide_false, decide_true, not_false_eq_true,
        iff_self, true_or]
      case stakeProxy c orig a adds =>
        simp only [stepCore, stakeProxy, Option.bind_eq_bind, Option.bind_eq_some_iff, req_eq_some] at hcore
        obtain ⟨_, hc, _⟩ := hcore
        rw [hw] at hc; cases hc
      case claimNew c orig nv p =>
        simp only [stepCore, claimNewValue, Option.bind_eq_bind, Option.bind_eq_some_iff, req_eq_some] at hcore
        obtain ⟨_, hc, _⟩ := hcore
        rw [hw] at hc; cases hc
      case unstakeProxy c orig x p =>
        simp only [stepCore, unstakeProxy, Option.bind_eq_bind, Option.bind_eq_some_iff, req_eq_some] at hcore
        obtain ⟨_, hc, _⟩ := hcore
        rw [hw] at hc; cases hc

/-- **staking_balance_no_proxy**: a deployment without whitelisted contracts, ANY history:
    balance = farm-token supply + Σ outstanding unbond units + (capacity − accumulated) + reserve,
    and the supply is the sum of the position units held by the accounts (all of it is directly
    staked principal) -/
theorem staking_balance_no_proxy (epoch block dsc maxApr minUnbond perBlock : Nat)
    (accts : List Nat) (ops : List Op) :
    let s := reach epoch block dsc maxApr minUnbond perBlock accts [] ops
    s.bal = s.supply + unbondUnits s + (s.capacity - s.accumulated) + s.reserve ∧
    s.supply = directPrincipal [] s := by
  intro s
  have hd := discRun_nil ops (init epoch block dsc maxApr minUnbond perBlock accts []) rfl
  have h1 := staking_balance_identified epoch block dsc maxApr minUnbond perBlock accts [] [] ops hd
  obtain ⟨h2, h3⟩ := virt_eq_proxy_held epoch block dsc maxApr minUnbond perBlock accts [] [] ops hd
  have hv : s.virt = 0 := no_proxy_no_virt epoch block dsc maxApr minUnbond perBlock accts ops
  have h1' : s.bal = directPrincipal [] s + unbondUnits s + (s.capacity - s.accumulated) + s.reserve := h1
  have h2' : s.virt = (proxyHeld [] s : Nat) := h2
  have h3' : proxyHeld [] s + directPrincipal [] s = s.supply := h3
  omega

/-- **accrued rewards stay backed** (in particular after any admin withdrawal): in every state
    reached under the proxy discipline the balance covers directly staked principal, all
    outstanding unbond amounts AND the whole reserve of accrued-but-unpaid rewards; what is left
    beyond them is exactly the un-accrued capacity, the only thing `withdrawRewards` can take -/
theorem accrued_rewards_backed (epoch block dsc maxApr minUnbond perBlock : Nat)
    (accts wl : List Nat) (P : List Nat) (ops : List Op)
    (hd : discRun P (init epoch block dsc maxApr minUnbond perBlock accts wl) ops = true) :
    let s := reach epoch block dsc maxApr minUnbond perBlock accts wl ops
    directPrincipal P s + unbondUnits s + s.reserve ≤ s.bal ∧
    s.bal - (directPrincipal P s + unbondUnits s + s.reserve) = s.capacity - s.accumulated := by
  intro s
  have := staking_balance_identified epoch block dsc maxApr minUnbond perBlock accts wl P ops hd
  have h : s.bal = directPrincipal P s + unbondUnits s + (s.capacity - s.accumulated) + s.reserve := this
  omega

/-! ### unbond liveness and "exactly once" -/

/-- **unbond_succeeds**: in every state reached under the proxy discipline, on an active
    contract, whoever holds `x > 0` units of an unbond token whose unlock epoch has arrived can
    unbond them: the transaction SUCCEEDS, pays exactly `x` staking tokens (the balance is
    sufficient — a consequence of the invariants, not an assumption) and burns the `x` units -/
theorem unbond_succeeds (epoch block dsc maxApr minUnbond perBlock : Nat)
    (accts wl : List Nat) (P : List Nat) (ops : List Op)
    (hd : discRun P (init epoch block dsc maxApr minUnbond perBlock accts wl) ops = true)
    (c n e x : Nat) :
    let s := reach epoch block dsc maxApr minUnbond perBlock accts wl ops
    s.active = true → s.md n = some (.unbond e) → e ≤ s.epoch → 0 < x → x ≤ s.hold c n →
    x ≤ s.bal ∧
    step s (.unbond c (n, x)) =
      some ({ s with hold := upd2 s.hold c n (s.hold c n - x), bal := s.bal - x,
                     unbondOut := s.unbondOut - (x : Int) }, ⟨0, x, 0⟩) := by
  intro s hact hm he hx hh
  have hP0 := posInv_init epoch block dsc maxApr minUnbond perBlock accts wl
  exact unbond_ok (P := P)
    (run_inv ops (inv_init epoch block dsc maxApr minUnbond perBlock accts wl))
    (run_posInv ops hP0)
    (run_unbInv ops hP0 (unbInv_init epoch block dsc maxApr minUnbond perBlock accts wl))
    (run_virtOK ops hP0 (virtOK_init P epoch block dsc maxApr minUnbond perBlock accts wl) hd)
    hact hm he hx hh

/-- unbond liveness for a deployment without whitelisted contracts: no hypothesis on the history -/
theorem unbond_succeeds_no_proxy (epoch block dsc maxApr minUnbond perBlock : Nat)
    (accts : List Nat) (ops : List Op) (c n e x : Nat) :
    let s := reach epoch block dsc maxApr minUnbond perBlock accts [] ops
    s.active = true → s.md n = some (.unbond e) → e ≤ s.epoch → 0 < x → x ≤ s.hold c n →
    x ≤ s.bal ∧
    step s (.unbond c (n, x)) =
      some ({ s with hold := upd2 s.hold c n (s.hold c n - x), bal := s.bal - x,
                     unbondOut := s.unbondOut - (x : Int) }, ⟨0, x, 0⟩) :=
  unbond_succeeds epoch block dsc maxApr minUnbond perBlock accts [] [] ops
    (discRun_nil ops _ rfl) c n e x

/-- **unbond_once** (any history, no discipline needed): take any reachable state and any unbond
    token `n` that exists in it.  Over every continuation `more` of the history the token keeps
    its unlock epoch, and everything paid out for it by `unbondFarm` plus the units still
    outstanding never exceeds the units outstanding now — a unit of unbonded principal is paid at
    most once (it is burned when it is paid) -/
theorem unbond_once (epoch block dsc maxApr minUnbond perBlock : Nat) (accts wl : List Nat)
    (ops more : List Op) (n e : Nat) :
    let s := reach epoch block dsc maxApr minUnbond perBlock accts wl ops
    s.md n = some (.unbond e) → n ≤ s.nonce →
    (run s more).md n = some (.unbond e) ∧
    ((s.accts.dedup.map fun a => (run s more).hold a n).sum) + histSum (unbondPaidOf n) s more
      ≤ (s.accts.dedup.map fun a => s.hold a n).sum := by
  intro s hm hn
  have hP : PosInv s := run_posInv ops (posInv_init epoch block dsc maxApr minUnbond perBlock accts wl)
  obtain ⟨h1, h2⟩ := run_unbond_token more hP (unbondOf_eq_some.mpr hm) hn
  exact ⟨unbondOf_eq_some.mp h1, h2⟩

/-- **unbonded principal is paid at most once, in full**: a successful unstake (direct or through
    the proxy) in a reachable state mints an unbond token `o.a` of `o.b` units; over EVERY
    continuation of the history the `unbondFarm` payouts for that token add up to at most `o.b` -/
theorem unbond_paid_le_minted (epoch block dsc maxApr minUnbond perBlock : Nat) (accts wl : List Nat)
    (ops more : List Op) (c orig : Nat) (pay : Pay) (x : Option Nat) (s1 : St) (o : Out) :
    let s := reach epoch block dsc maxApr minUnbond perBlock accts wl ops
    c ∈ s.accts → unstakeCore s c orig pay x = some (s1, o) →
    s1.md o.a = some (.unbond (s.epoch + s.minUnbond)) ∧ o.b = x.getD pay.2 ∧
    histSum (unbondPaidOf o.a) s1 more ≤ o.b := by
  intro s hc h
  have hP : PosInv s := run_posInv ops (posInv_init epoch block dsc maxApr minUnbond perBlock accts wl)
  obtain ⟨hP1, hu, hn, ho⟩ := unstakeCore_outst hP hc h
  obtain ⟨_, _, _, _, u5, _, _, _⟩ := unstakeCore_unbond h
  obtain ⟨_, h2⟩ := run_unbond_token more hP1 hu hn
  refine ⟨unbondOf_eq_some.mp hu, u5, ?_⟩
  rw [ho] at h2
  omega

/-- one `unbondFarm` lowers the outstanding units of its token by exactly what it pays -/
theorem unbond_burns_exactly {s s' : St} {c : Nat} {pay : Pay} {o : Out}
    (hI : PosInv s) (h : step s (.unbond c pay) = some (s', o)) :
    o.b = pay.2 ∧
    (s.accts.dedup.map fun a => s'.hold a pay.1).sum + pay.2 =
      (s.accts.dedup.map fun a => s.hold a pay.1).sum := by
  obtain ⟨hc, hcore⟩ := step_core h
  simp only [callerOk, Op.caller, decide_eq_true_eq] at hc
  simp only [stepCore] at hcore
  obtain ⟨_, _, _, _, _, rfl, rfl⟩ := unbondFarm_iff.1 hcore
  refine ⟨rfl, ?_⟩
  have hI' : PosOK (pv s) := hI
  have hd : debit s.hold c [pay] = some (upd2 s.hold c pay.1 (s.hold c pay.1 - pay.2)) :=
    debit_single.2 ⟨by assumption, by assumption, rfl⟩
  have := outst_debit hd (List.mem_dedup.mpr hc) hI'.nodup pay.1
  rw [paidOf_single, if_pos rfl] at this
  exact this

/-! ### the admin ledger -/

/-- **capacity_ledger**: after any history, capacity = Σ top-ups − Σ withdrawals (sums over the
    successful `topUpRewards` / `withdrawRewards` transactions) -/
theorem capacity_ledger (epoch block dsc maxApr minUnbond perBlock : Nat) (accts wl : List Nat)
    (ops : List Op) :
    let s0 := init epoch block dsc maxApr minUnbond perBlock accts wl
    (reach epoch block dsc maxApr minUnbond perBlock accts wl ops).capacity + histSum capDown s0 ops
      = histSum capUp s0 ops := by
  intro s0
  have h := run_capacity ops s0
  have h0 : s0.capacity = 0 := rfl
  rw [h0, Nat.zero_add] at h
  exact h

/-- **withdrawals_le_unaccrued**: over any history the admin has withdrawn at most what was topped
    up minus everything accrued to stakers so far: Σ withdrawals + accumulated ≤ Σ top-ups — the
    admin never takes accrued rewards -/
theorem withdrawals_le_unaccrued (epoch block dsc maxApr minUnbond perBlock : Nat)
    (accts wl : List Nat) (ops : List Op) :
    let s0 := init epoch block dsc maxApr minUnbond perBlock accts wl
    histSum capDown s0 ops + (reach epoch block dsc maxApr minUnbond perBlock accts wl ops).accumulated
      ≤ histSum capUp s0 ops := by
  intro s0
  have h1 := capacity_ledger epoch block dsc maxApr minUnbond perBlock accts wl ops
  have h2 := (run_inv ops (inv_init epoch block dsc maxApr minUnbond perBlock accts wl)).acc_le
  have h1' : (run s0 ops).capacity + histSum capDown s0 ops = histSum capUp s0 ops := h1
  have h2' : (run s0 ops).accumulated ≤ (run s0 ops).capacity := h2
  show histSum capDown s0 ops + (run s0 ops).accumulated ≤ histSum capUp s0 ops
  omega

/-! ### non-vacuity and the necessity of the discipline -/

/-- non-vacuity: a DISCIPLINED history with a metastaking-style proxy (account 101): user 1 stakes
    directly, the proxy registers 500·10¹² for user 2, raises it to 700·10¹² with
    `claimRewardsWithNewValue`; user 1 unstakes 400·10¹².  At that point (`m`) virt = 700·10¹² = the
    proxy's position units, and balance = direct principal + unbond units + un-accrued capacity +
    reserve.  Then the proxy unstakes (paying 300·10¹² in), forwards the unbond token to user 2;
    user 2's unbond is refused one epoch early, honoured at the unlock epoch, refused a second time
    (burned); an over-sized admin withdrawal (40000 > 9900 un-accrued) is refused. -/
example :
    let s0 := init 5 10 1000000000000 2500 2 5000 [1, 2, 101] [101]
    let ops : List Op :=
      [.topUp 30000, .withdraw 100, .stake 1 none 1000000000000000 [],
       .stakeProxy 101 2 500000000000000 [], .advance 3 0, .claim 1 none (1, 1000000000000000),
       .claimNew 101 2 700000000000000 (2, 500000000000000), .advance 1 0,
       .unstake 1 none (3, 400000000000000), .unstakeProxy 101 2 300000000000000 (4, 700000000000000),
       .transfer 101 2 (6, 300000000000000), .advance 0 1, .unbond 2 (6, 300000000000000), .advance 0 1,
       .withdraw 40000, .unbond 2 (6, 300000000000000), .unbond 2 (6, 300000000000000),
       .unbond 1 (5, 400000000000000)]
    let m := run s0 (ops.take 9)
    let u := run s0 (ops.take 14)
    let s := run s0 ops
    discRun [101] s0 ops = true ∧
    m.virt = 700000000000000 ∧ proxyHeld [101] m = 700000000000000 ∧
    directPrincipal [101] m = 600000000000000 ∧ unbondUnits m = 400000000000000 ∧
    m.capacity - m.accumulated = 9900 ∧ m.reserve = 4200 ∧ m.bal = 1000000000014100 ∧
    histSumI virtDelta s0 (ops.take 9) = 700000000000000 ∧
    u.active = true ∧ u.md 6 = some (.unbond 7) ∧ u.epoch = 7 ∧ u.hold 2 6 = 300000000000000 ∧
    histSum (unbondPaidOf 6) s0 ops = 300000000000000 ∧
    histSum capUp s0 ops = 30000 ∧ histSum capDown s0 ops = 100 ∧ s.capacity = 29900 ∧
    s.accumulated = 20000 ∧ s.virt = 0 ∧ s.bal = 600000000012700 := by
  decide

/-- **OBSERVATION (the discipline is necessary; the SC whitelist is a trust assumption of C12).**
    A whitelisted address registers 1000 of virtual stake (no tokens move), leaves through the
    DIRECT `unstakeFarm` — which cannot tell the position from a really staked one — and unbonds:
    it is paid 1000 real tokens out of the admin's capacity.  Afterwards virt = 1000 > supply = 0
    ("directly staked principal" would be −1000) and the balance 4000 no longer covers the
    un-accrued capacity 5000.  The same happens in the Rust code (`unstake_farm_common` /
    `exit_farm_base` read only the position's attributes, which carry no "virtual" mark). -/
theorem undisciplined_proxy_drains_capacity :
    let s0 := init 5 10 1000000000000 2500 0 5000 [1, 101] [101]
    let ops : List Op :=
      [.topUp 5000, .stakeProxy 101 1 1000 [], .unstake 101 none (1, 1000), .unbond 101 (2, 1000)]
    let s := run s0 ops
    discRun [101] s0 ops = false ∧ s.virt = 1000 ∧ s.supply = 0 ∧ unbondUnits s = 0 ∧
    s.reserve = 0 ∧ s.capacity - s.accumulated = 5000 ∧ s.bal = 4000 := by
  decide

end Mx.C12Ledger
