/-
  KLoops — bounded `for` loops of the contracts, as the SOURCE states them, against closed forms
  and the hand-written models (session 4: the translator reads `for x in lo..hi`, `for x in lo..=hi`,
  `for x in &vec`, with `break`, `continue` and `return;`).

  `Gen/KLoops.lean` is regenerated on every run by `bin/gen-kernels`.  A loop becomes an auxiliary,
  structurally recursive definition `<name>_loop` over the LIST of loop values (`List.range' lo
  (hi − lo)` for a range; the vector, as a list of the fields the body reads, for `&vec`); the places
  the body assigns and that live outside the loop are its accumulator.  A storage mapper keyed by the
  loop variable (`remaining_boosted_rewards_to_distribute(week)`) is a function `Nat → Nat`.

  * `merge_weighted_average`  common/modules/token_merge_helper `weighted_average` (loop + `match`)
  * `burn_farm_tokens_from_payments`  common/modules/farm/farm_token (sum, then supply −= sum)
  * `boosted_rewards_total`  farm-boosted-yields `claim_boosted_yields_rewards` (sum of the weekly payments)
  * `collect_weeks`  farm-boosted-yields `collect_undistributed_boosted_rewards` — the model's `Farm.collectWeeks`
  * `is_listed_lock_option`  energy-factory `require_is_listed_lock_option` — the model's `Energy.isListed`

  Every proof is an induction over the list whose step goes through `k_defs` (unfold, monad
  plumbing) and closes with `k_close` / `omega`, so binder renames, commuted operands and swapped
  independent statements in the loop body keep it checking.
-/
import MxModel.Gen.KLoops
import MxModel.Core.Farm
import MxModel.Core.Energy
import MxModel.Lemmas.KTactic

namespace Mx.KLoops
open Mx Mx.Gen

/-! ### weighted average of a data set (token merging) -/

/-- `Σ value·weight` of a data set of (value, weight) pairs -/
def wsum : List (Nat × Nat) → Nat
  | [] => 0
  | (v, w) :: ds => v * w + wsum ds

/-- `Σ weight` -/
def wtot : List (Nat × Nat) → Nat
  | [] => 0
  | (_, w) :: ds => w + wtot ds

/-- the loop of `weighted_average` adds `Σ weight` and `Σ value·weight` to its two accumulators and
    never aborts.  (Accumulators in the translator's canonical order: locals of the function in the
    order of their declaration — `weight_sum`, then `elem_weight_sum`.) -/
theorem merge_weighted_average_loop_eq (ds : List (Nat × Nat)) (e w : Nat) :
    KLoops.merge_weighted_average_loop ds (w, e) = some (w + wtot ds, e + wsum ds) := by
  induction ds generalizing e w with
  | nil => k_defs [KLoops.merge_weighted_average_loop, wsum, wtot, Nat.add_zero]
  | cons d ds ih =>
    obtain ⟨v, wt⟩ := d
    k_defs [KLoops.merge_weighted_average_loop, ih, wsum, wtot]
    try (congr 2 <;> k_close)

/-- source `TokenMergeHelperModule::weighted_average` (the loop, then the `match` on the rounding
    type: `Floor` = index 0, `Ceil` = index 1): `⌊Σvw / Σw⌋` resp. `⌊(Σvw + Σw − 1) / Σw⌋`; it aborts
    exactly when the total weight is zero (division by zero; for `Ceil` on an empty data set already
    the checked `− 1`) -/
theorem merge_weighted_average_eq (ds : List (Nat × Nat)) :
    KLoops.merge_weighted_average 0 ds = (if wtot ds = 0 then none else some (wsum ds / wtot ds)) ∧
    KLoops.merge_weighted_average 1 ds =
      (if wtot ds = 0 then none else some ((wsum ds + wtot ds - 1) / wtot ds)) := by
  constructor
  · k_defs [KLoops.merge_weighted_average, merge_weighted_average_loop_eq, Nat.zero_add]
    try k_solve
  · k_defs [KLoops.merge_weighted_average, merge_weighted_average_loop_eq, Nat.zero_add]
    try k_solve

/-- for two entries the general merge average is the two-point `weightedAvg` of `Core/Arith`
    (what `Props/KMath.weighted_average_eq` ties to common/modules/math) -/
theorem merge_weighted_average_two (v1 w1 v2 w2 : Nat) (h : w1 + w2 ≠ 0) :
    KLoops.merge_weighted_average 0 [(v1, w1), (v2, w2)] = some (weightedAvg v1 w1 v2 w2) := by
  rw [(merge_weighted_average_eq _).1]
  have : wtot [(v1, w1), (v2, w2)] = w1 + w2 := by simp [wtot]
  have h2 : wsum [(v1, w1), (v2, w2)] = v1 * w1 + v2 * w2 := by simp [wsum]
  rw [this, h2, if_neg h]; rfl

/-! ### sums over payments -/

/-- the loop of `burn_farm_tokens_from_payments` adds the sum of the amounts to its accumulator -/
theorem burn_loop_eq (as : List Nat) (t : Nat) :
    KLoops.burn_farm_tokens_from_payments_loop as t = some (t + as.sum) := by
  induction as generalizing t with
  | nil => k_defs [KLoops.burn_farm_tokens_from_payments_loop, List.sum_nil, Nat.add_zero]
  | cons a as ih =>
    k_defs [KLoops.burn_farm_tokens_from_payments_loop, ih, List.sum_cons]
    try (congr 1; k_close)

/-- source `burn_farm_tokens_from_payments`: the farm-token supply decreases by the SUM of the
    burned payments' amounts; aborts exactly when that sum exceeds the supply (checked `-=`) -/
theorem burn_farm_tokens_from_payments_eq (as : List Nat) (supply : Nat) :
    KLoops.burn_farm_tokens_from_payments as supply = sub? supply as.sum := by
  k_defs [KLoops.burn_farm_tokens_from_payments, burn_loop_eq, Nat.zero_add]
  try k_solve

theorem boosted_total_loop_eq (as : List Nat) (t : Nat) :
    KLoops.boosted_rewards_total_loop as t = some (t + as.sum) := by
  induction as generalizing t with
  | nil => k_defs [KLoops.boosted_rewards_total_loop, List.sum_nil, Nat.add_zero]
  | cons a as ih =>
    k_defs [KLoops.boosted_rewards_total_loop, ih, List.sum_cons]
    try (congr 1; k_close)

/-- the boosted reward a claim pays (`claim_boosted_yields_rewards`, after `claim_multi`) is the SUM
    of the per-week payments — no week is dropped or counted twice; never aborts -/
theorem boosted_rewards_total_eq (as : List Nat) :
    KLoops.boosted_rewards_total as = some as.sum := by
  k_defs [KLoops.boosted_rewards_total, boosted_total_loop_eq, Nat.zero_add]

/-! ### `collect_undistributed_boosted_rewards` -/

/-- the loop of `collect_undistributed_boosted_rewards` over the weeks `first, first+1, …` (n of
    them) IS the model's `Farm.collectWeeks`: same remaining-rewards map (each visited week zeroed),
    same undistributed counter -/
theorem collect_weeks_loop_eq (n : Nat) (b : Farm.BSt) (u first : Nat) :
    KLoops.collect_weeks_loop (List.range' first n) (b.remaining, u) =
      some ((Farm.collectWeeks b u first n).1.remaining, (Farm.collectWeeks b u first n).2) := by
  induction n generalizing b u first with
  | zero => k_defs [List.range'_zero, KLoops.collect_weeks_loop, Farm.collectWeeks]
  | succ n ih =>
    have hstep := ih { b with remaining := Weekly.upd b.remaining first 0
                              collW := Weekly.upd b.collW first (b.collW first + b.remaining first) }
                     (u + b.remaining first) (first + 1)
    have hupd : (fun k' => if k' = first then 0 else b.remaining k') = Weekly.upd b.remaining first 0 := rfl
    rw [List.range'_succ]
    k_defs [KLoops.collect_weeks_loop, Farm.collectWeeks, hupd]
    first | exact hstep | (rw [Nat.add_comm]; exact hstep) | (simp only [Nat.add_comm] at hstep ⊢; exact hstep)

/-- the translated loop statement of `collect_undistributed_boosted_rewards` (`for week in
    first..=last`), on the model's boosted state: exactly the `collectWeeks … (last + 1 − first)` the
    model's `collectUndistributed` performs; an inverted window runs zero times -/
theorem collect_weeks_eq (b : Farm.BSt) (u first last : Nat) :
    KLoops.collect_weeks first last b.remaining u =
      some ((Farm.collectWeeks b u first (last + 1 - first)).1.remaining,
            (Farm.collectWeeks b u first (last + 1 - first)).2) := by
  k_defs [KLoops.collect_weeks, collect_weeks_loop_eq]

/-- every successful model `collectUndistributed` that collects something runs the source loop on
    the model's window, and ends with the source loop's remaining map and counter -/
theorem collectUndistributed_runs_source {s s' : Farm.St} {c : Nat}
    (h : Farm.collectUndistributed s c = some s') :
    s' = s ∨ ∃ first last,
      KLoops.collect_weeks first last s.b.remaining s.undist = some (s'.b.remaining, s'.undist) := by
  simp only [Farm.collectUndistributed, Option.bind_eq_bind, Option.bind_eq_some_iff, req_eq_some] at h
  obtain ⟨_, _, W, _, _, _, h⟩ := h
  split at h
  · left; simpa using h.symm
  · right
    refine ⟨s.lastCollect + 1, W - (Weekly.USER_MAX_CLAIM_WEEKS + 1), ?_⟩
    rw [collect_weeks_eq]
    simp only [Option.pure_def, Option.some.injEq] at h
    subst h; rfl

/-! ### `require_is_listed_lock_option` -/

/-- the search loop: the flag is set exactly when some listed option has the requested epochs -/
theorem is_listed_loop_eq (es : List Nat) (ep : Nat) :
    KLoops.is_listed_lock_option_loop ep es () = some (decide (ep ∈ es), ()) := by
  induction es with
  | nil => k_defs [KLoops.is_listed_lock_option_loop]; simp
  | cons e es ih =>
    k_defs [KLoops.is_listed_lock_option_loop, ih]
    by_cases h : e = ep
    · simp [h]
    · have h' : ep ≠ e := fun x => h x.symm
      simp [h, h']

/-- source `require_is_listed_lock_option` (loop with an early `return`, then `sc_panic!`) passes
    exactly when the model's `Energy.isListed` holds for the stored options -/
theorem is_listed_lock_option_eq (opts : List Energy.Opt) (ep : Nat) :
    KLoops.is_listed_lock_option ep (opts.map (·.1)) =
      if Energy.isListed opts ep = true then some () else none := by
  have hm : (ep ∈ opts.map (·.1)) ↔ Energy.isListed opts ep = true := by
    simp only [Energy.isListed, List.any_eq_true, List.mem_map, decide_eq_true_eq]
  k_defs [KLoops.is_listed_lock_option, is_listed_loop_eq]
  by_cases h : ep ∈ opts.map (·.1)
  · have := hm.1 h; simp [h, this]
  · have : ¬ Energy.isListed opts ep = true := fun x => h (hm.2 x); simp [h, this]

/-! non-vacuity -/
example : KLoops.merge_weighted_average 0 [(10, 1), (20, 3)] = some 17 := by decide
example : KLoops.merge_weighted_average 1 [(10, 1), (20, 3)] = some 18 := by decide
example : KLoops.merge_weighted_average 0 [] = none := by decide
example : KLoops.burn_farm_tokens_from_payments [3, 4, 5] 20 = some 8 := by decide
example : KLoops.burn_farm_tokens_from_payments [3, 4, 5] 11 = none := by decide
example : KLoops.boosted_rewards_total [7, 0, 5] = some 12 := by decide
example : (KLoops.collect_weeks 3 5 (fun w => 10 * w) 1).map (fun r => (r.1 3, r.1 5, r.1 6, r.2)) =
    some (0, 0, 60, 121) := by decide
example : (KLoops.collect_weeks 5 3 (fun w => 10 * w) 1).map (fun r => (r.1 3, r.2)) = some (30, 1) := by decide
example : KLoops.is_listed_lock_option 720 [360, 720, 1440] = some () := by decide
example : KLoops.is_listed_lock_option 700 [360, 720, 1440] = none := by decide

end Mx.KLoops
