/-
  KFarmToken — the farm model's position attributes (`Core/Farm.lean`: `Attr.intoPart`,
  `Attr.mergeWith`) compute what the SOURCE of `FarmTokenAttributes`
  (`common/common_structs/src/farm_types.rs`, `common/traits/fixed-supply-token/src/lib.rs`)
  computes: `into_part` (rule of three on the compounded reward) and `merge_with` (index =
  amount-weighted average rounded UP, amounts and compounded rewards add, epoch = max).

  `Gen/KFarmToken.lean` is regenerated on every run by `bin/gen-kernels`; the record fields are
  explicit inputs, the fields a method writes are its outputs (a method returning the record
  writes the fields of `self`).
-/
import MxModel.Gen.KFarmToken
import MxModel.Props.KMath
import MxModel.Core.Farm
import MxModel.Lemmas.KTactic

namespace Mx.KFarmToken
open Mx Mx.Gen Mx.Farm

/-- source `get_total_supply` of the attributes is `current_farm_amount` -/
theorem get_total_supply_eq (amt : Nat) : KFarmToken.get_total_supply amt = some amt := by
  k_defs [KFarmToken.get_total_supply]
  first | rfl | k_solve

/-- source `rule_of_three(current_supply, full_value)`: the full value for the full supply,
    otherwise `⌊full_value · current_supply / total_supply⌋`; aborts exactly on a zero total supply
    with a different part -/
theorem rule_of_three_eq (x full total : Nat) :
    KFarmToken.rule_of_three x full total =
      if x = total then some full else if total = 0 then none else some (full * x / total) := by
  k_defs [KFarmToken.rule_of_three, get_total_supply_eq]
  k_solve

/-- source `rule_of_three_non_zero_result` additionally aborts on a zero result ("Zero amount") -/
theorem rule_of_three_non_zero_result_eq (x full total r : Nat) :
    KFarmToken.rule_of_three_non_zero_result x full total = some r ↔
      KFarmToken.rule_of_three x full total = some r ∧ r ≠ 0 := by
  k_defs [KFarmToken.rule_of_three_non_zero_result]
  cases KFarmToken.rule_of_three x full total with
  | none => simp
  | some v =>
    simp only [Option.bind_some]
    split_ifs <;> simp_all <;> omega

/-- source `into_part(payment_amount)` IS the model's `Attr.intoPart` on the two fields it writes
    (`compounded_reward`, `current_farm_amount`): whole token for the full amount, rule of three
    (floor) otherwise, abort exactly when the model fails (zero-amount token, different part) -/
theorem into_part_eq (a : Attr) (x : Nat) :
    KFarmToken.into_part x a.comp a.amt = (a.intoPart x).map (fun p => (p.comp, p.amt)) := by
  k_defs [KFarmToken.into_part, Attr.intoPart, get_total_supply_eq, rule_of_three_eq]
  k_solve

/-- `into_part` leaves index, entering epoch and original owner alone (the source's literal copies
    them from `self`; the translation does not list them among the written fields) -/
theorem intoPart_frame {a p : Attr} {x : Nat} (h : a.intoPart x = some p) :
    p.rps = a.rps ∧ p.epoch = a.epoch ∧ p.owner = a.owner := by
  simp only [Attr.intoPart] at h
  split at h
  · cases h; exact ⟨rfl, rfl, rfl⟩
  · simp only [Option.bind_eq_bind, Option.bind_eq_some_iff, req_eq_some, Option.pure_def,
      Option.some.injEq] at h
    obtain ⟨_, _, rfl⟩ := h
    exact ⟨rfl, rfl, rfl⟩

/-- source `merge_with(other)` IS the model's `Attr.mergeWith` on the four fields it writes, in
    the order (compounded_reward, current_farm_amount, entering_epoch, reward_per_share); it aborts
    exactly when the model fails (both amounts 0: division by zero in the weighted average) -/
theorem merge_with_eq (a b : Attr) :
    KFarmToken.merge_with a.comp a.amt a.epoch a.rps b.comp b.amt b.epoch b.rps =
      (a.mergeWith b).map (fun m => (m.comp, m.amt, m.epoch, m.rps)) := by
  k_defs [KFarmToken.merge_with, Attr.mergeWith, get_total_supply_eq,
    Mx.KMath.weighted_average_round_up_eq, weightedAvgRoundUp, ceilDiv]
  k_solve

/-- `merge_with` keeps the original owner of the left operand -/
theorem mergeWith_frame {a b m : Attr} (h : a.mergeWith b = some m) : m.owner = a.owner := by
  simp only [Attr.mergeWith, Option.bind_eq_bind, Option.bind_eq_some_iff, req_eq_some,
    Option.pure_def, Option.some.injEq] at h
  obtain ⟨_, _, rfl⟩ := h
  rfl

/-- source `get_initial_farming_tokens` = `current_farm_amount − compounded_reward` (checked) -/
theorem get_initial_farming_tokens_eq (comp amt : Nat) :
    KFarmToken.get_initial_farming_tokens comp amt = if amt < comp then none else some (amt - comp) := by
  k_defs [KFarmToken.get_initial_farming_tokens]
  k_solve

example : KFarmToken.into_part 30 10 100 = some (3, 30) := by decide
example : KFarmToken.into_part 100 10 100 = some (10, 100) := by decide
example : KFarmToken.into_part 5 10 0 = none := by decide
example : KFarmToken.merge_with 1 10 5 100 2 20 7 101 = some (3, 30, 7, 101) := by decide
example : KFarmToken.merge_with 1 0 5 100 2 0 7 101 = none := by decide

end Mx.KFarmToken
