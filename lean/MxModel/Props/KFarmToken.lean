/-
  KFarmToken — the farm model's position attributes (`Core/Farm.lean`: `Attr.intoPart`,
  `Attr.mergeWith`) compute what the SOURCE of `FarmTokenAttributes`
  (`common/common_structs/src/farm_types.rs`, `common/traits/fixed-supply-token/src/lib.rs`)
  computes: `into_part` (rule of three on the compounded reward) and `merge_with` (index =
  amount-weighted average rounded UP, amounts and compounded rewards add, epoch = max).

  `Gen/KFarmToken.lean` is regenerated on every run by `bin/gen-kernels`; the record fields are
  explicit inputs, the fields a method writes are its outputs (a method returning the record
  writes the fields of `self`).
-/
import MxModel.Gen.KFarmToken
import MxModel.Props.KMath
import MxModel.Core.Farm

namespace Mx.KFarmToken
open Mx Mx.Gen Mx.Farm

/-- source `get_total_supply` of the attributes is `current_farm_amount` -/
theorem get_total_supply_eq (amt : Nat) : KFarmToken.get_total_supply amt = some amt := rfl

/-- source `rule_of_three(current_supply, full_value)`: the full value for the full supply,
    otherwise `⌊full_value · current_supply / total_supply⌋`; aborts exactly on a zero total supply
    with a different part -/
theorem rule_of_three_eq (x full total : Nat) :
    KFarmToken.rule_of_three x full total =
      if x = total then some full else if total = 0 then none else some (full * x / total) := by
  by_cases h : x = total
  · simp only [KFarmToken.rule_of_three, KFarmToken.get_total_supply, if_pos h, Option.bind_eq_bind,
      Option.bind_some, Option.pure_def]
  · by_cases h0 : total = 0
    · simp only [KFarmToken.rule_of_three, KFarmToken.get_total_supply, if_neg h, div?, if_pos h0,
        Option.bind_eq_bind, Option.bind_some, Option.pure_def]
    · simp only [KFarmToken.rule_of_three, KFarmToken.get_total_supply, if_neg h, div?, if_neg h0,
        Option.bind_eq_bind, Option.bind_some, Option.pure_def]

/-- source `rule_of_three_non_zero_result` additionally aborts on a zero result ("Zero amount") -/
theorem rule_of_three_non_zero_result_eq (x full total r : Nat) :
    KFarmToken.rule_of_three_non_zero_result x full total = some r ↔
      KFarmToken.rule_of_three x full total = some r ∧ r ≠ 0 := by
  simp only [KFarmToken.rule_of_three_non_zero_result, Option.bind_eq_bind, Option.pure_def]
  cases KFarmToken.rule_of_three x full total with
  | none => simp
  | some v =>
    by_cases hv : v = 0
    · simp only [Option.bind_some, if_pos hv, Option.some.injEq]
      constructor
      · intro h; cases h
      · rintro ⟨rfl, h⟩; exact absurd hv h
    · simp only [Option.bind_some, if_neg hv, Option.some.injEq]
      constructor
      · rintro rfl; exact ⟨rfl, hv⟩
      · rintro ⟨rfl, _⟩; rfl

/-- source `into_part(payment_amount)` IS the model's `Attr.intoPart` on the two fields it writes
    (`compounded_reward`, `current_farm_amount`): whole token for the full amount, rule of three
    (floor) otherwise, abort exactly when the model fails (zero-amount token, different part) -/
theorem into_part_eq (a : Attr) (x : Nat) :
    KFarmToken.into_part x a.comp a.amt = (a.intoPart x).map (fun p => (p.comp, p.amt)) := by
  by_cases h : x = a.amt
  · simp only [KFarmToken.into_part, KFarmToken.get_total_supply, Attr.intoPart, if_pos h,
      Option.bind_eq_bind, Option.bind_some, Option.pure_def, Option.map_some]
  · by_cases h0 : a.amt = 0
    · have h0' : ¬ a.amt ≠ 0 := fun c => c h0
      simp only [KFarmToken.into_part, KFarmToken.get_total_supply, rule_of_three_eq, Attr.intoPart,
        if_neg h, if_pos h0, req, if_neg h0', Option.bind_eq_bind, Option.bind_some,
        Option.pure_def, Option.bind_none, Option.map_none]
    · have h0' : a.amt ≠ 0 := h0
      simp only [KFarmToken.into_part, KFarmToken.get_total_supply, rule_of_three_eq, Attr.intoPart,
        if_neg h, if_neg h0, req, if_pos h0', Option.bind_eq_bind, Option.bind_some,
        Option.pure_def, Option.map_some]

/-- `into_part` leaves index, entering epoch and original owner alone (the source's literal copies
    them from `self`; the translation does not list them among the written fields) -/
theorem intoPart_frame {a p : Attr} {x : Nat} (h : a.intoPart x = some p) :
    p.rps = a.rps ∧ p.epoch = a.epoch ∧ p.owner = a.owner := by
  simp only [Attr.intoPart] at h
  split at h
  · cases h; exact ⟨rfl, rfl, rfl⟩
  · simp only [Option.bind_eq_bind, Option.bind_eq_some_iff, req_eq_some, Option.pure_def,
      Option.some.injEq] at h
    obtain ⟨_, _, rfl⟩ := h
    exact ⟨rfl, rfl, rfl⟩

/-- source `merge_with(other)` IS the model's `Attr.mergeWith` on the four fields it writes, in
    the order (compounded_reward, current_farm_amount, entering_epoch, reward_per_share); it aborts
    exactly when the model fails (both amounts 0: division by zero in the weighted average) -/
theorem merge_with_eq (a b : Attr) :
    KFarmToken.merge_with a.comp a.amt a.epoch a.rps b.comp b.amt b.epoch b.rps =
      (a.mergeWith b).map (fun m => (m.comp, m.amt, m.epoch, m.rps)) := by
  by_cases h : a.amt + b.amt = 0
  · have h' : ¬ a.amt + b.amt ≠ 0 := fun c => c h
    simp only [KFarmToken.merge_with, KFarmToken.get_total_supply, Mx.KMath.weighted_average_round_up_eq,
      Attr.mergeWith, if_pos h, req, if_neg h', Option.bind_eq_bind, Option.bind_some,
      Option.pure_def, Option.bind_none, Option.map_none]
  · have h' : a.amt + b.amt ≠ 0 := h
    simp only [KFarmToken.merge_with, KFarmToken.get_total_supply, Mx.KMath.weighted_average_round_up_eq,
      Attr.mergeWith, if_neg h, req, if_pos h', Option.bind_eq_bind, Option.bind_some,
      Option.pure_def, Option.map_some]

/-- `merge_with` keeps the original owner of the left operand -/
theorem mergeWith_frame {a b m : Attr} (h : a.mergeWith b = some m) : m.owner = a.owner := by
  simp only [Attr.mergeWith, Option.bind_eq_bind, Option.bind_eq_some_iff, req_eq_some,
    Option.pure_def, Option.some.injEq] at h
  obtain ⟨_, _, rfl⟩ := h
  rfl

/-- source `get_initial_farming_tokens` = `current_farm_amount − compounded_reward` (checked) -/
theorem get_initial_farming_tokens_eq (comp amt : Nat) :
    KFarmToken.get_initial_farming_tokens comp amt = if amt < comp then none else some (amt - comp) := by
  by_cases h : comp ≤ amt
  · have h' : ¬ amt < comp := by omega
    simp only [KFarmToken.get_initial_farming_tokens, sub?, if_pos h, if_neg h']
  · have h' : amt < comp := by omega
    simp only [KFarmToken.get_initial_farming_tokens, sub?, if_neg h, if_pos h']

example : KFarmToken.into_part 30 10 100 = some (3, 30) := by decide
example : KFarmToken.into_part 100 10 100 = some (10, 100) := by decide
example : KFarmToken.into_part 5 10 0 = none := by decide
example : KFarmToken.merge_with 1 10 5 100 2 20 7 101 = some (3, 30, 7, 101) := by decide
example : KFarmToken.merge_with 1 0 5 100 2 0 7 101 = none := by decide

end Mx.KFarmToken
