/-
  C03 (fee-destination ledger) — "… In every swap the tokens the caller gives up equal what the
  pool reserve gains plus the special fee (at most in*special/100000), which is burned or
  forwarded to the fee destinations / fees collector and never credited to a user."

  Props/C03.lean states conservation as inequalities on the pair's balance.  Here the cumulative
  sink counters of `Pair.St` (`burn*`, `coll*`, `ext*`; observed on the real contracts through
  the state line) and the per-account wallets of Core/PairLedger.lean (compared with the real
  ESDT balances through the `acct=` entry) enter the statements, and every relation is an
  EQUALITY.  Both swap endpoints, both directions, every fee configuration (switch off,
  collector only, any list of destinations asking for the input token, the output token or a
  third token through a trusted pair, collector + destinations).

  Notation in the doc comments: `d` the swap direction, `charged` what the pair keeps of the
  caller's payment (`a` for fixed input; `get_amount_in`, i.e. payment − refund, for fixed
  output), `fee = ⌊charged·special/M⌋` when the fee switch is on, else 0, Δx = growth of a
  cumulative counter across the transaction.
  Helper lemmas: Lemmas/PairFlow.lean (`SwapAcct`), Lemmas/PairLedgerSwap.lean.
-/
import MxModel.Lemmas.PairLedgerSwap

namespace Mx.C03Ledger
open Mx.Pair Mx.PairLedger

/-- (B1) The exact fee ledger of one successful swap (either endpoint, any arguments) on any
    pair state satisfying the C01 invariant (which holds after every history: `C01.inv_run`):
    * `fee ≤ charged·special/M` and `fee ≤ charged`;
    * input token — `charged` is, to the unit, what the pair's balance gained plus what went to
      the burn address, the fees collector and the trusted pair;
    * the input reserve gained the net input `charged − fee` from the swap itself, plus
      whatever local fee swaps put back (never less);
    * `fee` = Δcollector + Δburned + Δforwarded (input token) + what re-entered the input
      reserve through local fee swaps + dust that stays in the pair as unreserved balance
      (all five terms are genuine differences: no counter decreases, the unreserved balance
      does not shrink);
    * output token — the pair's balance lost exactly the caller's `out` plus what local fee
      swaps bought and burned / forwarded; exactly that left the output reserve too; the
      collector never receives the output token. -/
theorem swap_fee_ledger {s s' : St} {op : Op} {o : Out} (hi : Inv s) (hsw : isSwap op = true)
    (h : step s op = some (s', o)) :
    let d := swapDir op
    let charged := chargedOf op o
    let fee := swapFee s charged
    fee ≤ charged * s.special / M ∧ fee ≤ charged ∧
    s.balIn d + charged =
      s'.balIn d + (s'.burnIn d - s.burnIn d) + (s'.collIn d - s.collIn d) + (s'.extIn d - s.extIn d) ∧
    s.rin d + (charged - fee) ≤ s'.rin d ∧
    fee = (s'.collIn d - s.collIn d) + (s'.burnIn d - s.burnIn d) + (s'.extIn d - s.extIn d) +
          (s'.rin d - (s.rin d + (charged - fee))) +
          ((s'.balIn d - s'.rin d) - (s.balIn d - s.rin d)) ∧
    (s.burnIn d ≤ s'.burnIn d ∧ s.collIn d ≤ s'.collIn d ∧ s.extIn d ≤ s'.extIn d ∧
      s.burnOut d ≤ s'.burnOut d ∧ s.extOut d ≤ s'.extOut d ∧
      s.balIn d - s.rin d ≤ s'.balIn d - s'.rin d ∧ s'.rin d ≤ s'.balIn d) ∧
    s.balOut d = s'.balOut d + o.v1 + (s'.burnOut d - s.burnOut d) + (s'.extOut d - s.extOut d) ∧
    s.rout d - s'.rout d = s.balOut d - s'.balOut d ∧ s'.rout d + o.v1 ≤ s.rout d ∧
    s'.collOut d = s.collOut d := by
  obtain ⟨a, h1, h2⟩ := swap_acct_step hi hsw h
  exact ⟨h2, h1, a.inExact, a.rinGain, a.feeSplit,
    ⟨a.burnInMono, a.collInMono, a.extInMono, a.burnOutMono, a.extOutMono, a.slackMono, a.backedIn⟩,
    a.outExact, a.outReserve, a.outLe, a.collOutEq⟩

/-- (B1, corollary) "the tokens the caller gives up equal what the pool reserve gains plus the
    special fee": `charged = (charged − fee) + fee` with `charged − fee` the reserve gain of the
    swap itself; and with the fee switch off the special fee is 0, nothing reaches any sink,
    the whole payment enters the reserve. -/
theorem swap_charged_eq_reserve_gain_plus_fee {s s' : St} {op : Op} {o : Out} (hi : Inv s)
    (hsw : isSwap op = true) (h : step s op = some (s', o)) :
    let d := swapDir op
    let charged := chargedOf op o
    let fee := swapFee s charged
    charged = (charged - fee) + fee ∧
    (s.feeOn = false → fee = 0 ∧ s'.rin d = s.rin d + charged ∧ s'.balIn d = s.balIn d + charged ∧
      s'.burnIn d = s.burnIn d ∧ s'.collIn d = s.collIn d ∧ s'.extIn d = s.extIn d ∧
      s'.burnOut d = s.burnOut d ∧ s'.extOut d = s.extOut d ∧ s'.balOut d + o.v1 = s.balOut d) := by
  dsimp only
  obtain ⟨_, h2, h3, h4, h5, ⟨m1, m2, m3, m4, m5, m6, m7⟩, h7, _, _, _⟩ := swap_fee_ledger hi hsw h
  have hb : s.rin (swapDir op) ≤ s.balIn (swapDir op) := by
    cases swapDir op
    · exact hi.back1
    · exact hi.back2
  refine ⟨by omega, fun hoff => ?_⟩
  have hz : swapFee s (chargedOf op o) = 0 := by simp [swapFee, hoff]
  obtain ⟨z1, z2⟩ := swap_feezero_step hsw hz h
  rw [hz] at h4 h5 ⊢
  simp only [Nat.sub_zero] at h4 h5
  refine ⟨rfl, ?_, ?_, ?_, ?_, ?_, z1, z2, ?_⟩ <;> omega

/-- (B2) "never credited to a user", one transaction: in a successful swap call by account `i`
    (any ledger state) NO other account's wallet changes, no account appears or disappears,
    and the caller's wallet changes by exactly `−charged` of the input token (which it did
    hold), `+out` of the output token — all of it plain or all of it as LOCKED tokens — and
    nothing else (no LP, no LOCKED input token; a fixed-output refund is already netted in
    `charged = payment − refund`). -/
theorem swap_touches_only_caller {l l' : L} {i : Nat} {op : Op} {o : Out} (hsw : isSwap op = true)
    (h : stepL l (.call i op) = some (l', o)) :
    l'.accts.length = l.accts.length ∧ (∀ j, j ≠ i → l'.accts[j]? = l.accts[j]?) ∧
    ∃ acc acc', l.accts[i]? = some acc ∧ l'.accts[i]? = some acc' ∧
      chargedOf op o ≤ acc.tokIn (swapDir op) ∧
      acc'.tokIn (swapDir op) = acc.tokIn (swapDir op) - chargedOf op o ∧
      acc'.tokOut (swapDir op) = acc.tokOut (swapDir op) + o.plainAmt ∧
      acc'.lkOut (swapDir op) = acc.lkOut (swapDir op) + o.lockedAmt ∧
      acc'.lkIn (swapDir op) = acc.lkIn (swapDir op) ∧ acc'.lp = acc.lp ∧
      o.plainAmt + o.lockedAmt = o.v1 := by
  obtain ⟨h1, h2⟩ := call_touches_only_caller h
  exact ⟨h1, h2, swap_caller_wallet hsw h⟩

/-- (B2') the same for EVERY operation: a call only ever touches its caller's wallet -/
theorem call_touches_only_caller {l l' : L} {i : Nat} {op : Op} {o : Out}
    (h : stepL l (.call i op) = some (l', o)) :
    l'.accts.length = l.accts.length ∧ ∀ j, j ≠ i → l'.accts[j]? = l.accts[j]? :=
  PairLedger.call_touches_only_caller h

/-- (B3) The whole swap on the ledger, after ANY history: let `l` be the ledger after a
    history from a fresh pair and let account `i` swap successfully.  Then
    * all accounts together hold exactly `charged` less of the input token and exactly `out`
      more of the output token (plain + LOCKED), the same LP and the same LOCKED input token;
    * `charged` = gain of the pair contract's own wallet + Δburned + Δcollector + Δforwarded:
      what the accounts lose is in the pair or in a fee sink, to the unit;
    * the special fee (≤ `charged·special/M`) is exactly Δcollector + Δburned + Δforwarded +
      re-entered the reserve + dust in the pair — every unit of it is accounted for outside
      the accounts' wallets: none of it is credited to a user;
    * on the output side the pair's wallet lost exactly `out` + what fee swaps burned / forwarded,
      and simple-lock gained exactly the LOCKED part of `out`. -/
theorem swap_ledger_exact (total special : Nat) (adder : Option Nat) (cap : Nat)
    (funds : List (Nat × Nat)) (ops : List LOp) (i : Nat) (op : Op) (o : Out) (l' : L)
    (hsw : isSwap op = true)
    (h : stepL (runL (initL total special adder cap funds) ops) (.call i op) = some (l', o)) :
    let l := runL (initL total special adder cap funds) ops
    let d := swapDir op
    let charged := chargedOf op o
    let fee := swapFee l.p charged
    sumOf (·.tokIn d) l'.accts + charged = sumOf (·.tokIn d) l.accts ∧
    sumOf (·.tokOut d) l'.accts + sumOf (·.lkOut d) l'.accts =
      sumOf (·.tokOut d) l.accts + sumOf (·.lkOut d) l.accts + o.v1 ∧
    sumOf (·.lkIn d) l'.accts = sumOf (·.lkIn d) l.accts ∧
    sumOf (·.lp) l'.accts = sumOf (·.lp) l.accts ∧
    l.pairIn d + charged = l'.pairIn d + (l'.p.burnIn d - l.p.burnIn d) +
      (l'.p.collIn d - l.p.collIn d) + (l'.p.extIn d - l.p.extIn d) ∧
    fee ≤ charged * l.p.special / M ∧
    fee = (l'.p.collIn d - l.p.collIn d) + (l'.p.burnIn d - l.p.burnIn d) +
          (l'.p.extIn d - l.p.extIn d) + (l'.p.rin d - (l.p.rin d + (charged - fee))) +
          ((l'.pairIn d - l'.p.rin d) - (l.pairIn d - l.p.rin d)) ∧
    l.pairOut d = l'.pairOut d + o.v1 + (l'.p.burnOut d - l.p.burnOut d) +
      (l'.p.extOut d - l.p.extOut d) ∧
    l'.p.slkOut d = l.p.slkOut d + o.lockedAmt ∧ l'.p.slkIn d = l.p.slkIn d := by
  have hl : LInv (runL (initL total special adder cap funds) ops) :=
    runL_inv ops (initL_inv total special adder cap funds)
  generalize runL (initL total special adder cap funds) ops = l at h hl ⊢
  dsimp only
  have hl' : LInv l' := stepL_inv hl h
  obtain ⟨p', _, _, hs, _, _, e1, _⟩ := stepL_call_spec h
  rw [← e1] at hs
  obtain ⟨t1, t2, t3, t4, t5⟩ := swap_accounts_total hsw h
  obtain ⟨f1, _, f3, _, f5, _, f7, _, _, _⟩ := swap_fee_ledger hl.inv hsw hs
  obtain ⟨k1, k2⟩ := swap_slk_step hsw hs
  have hpl := plain_add_locked o
  rw [hl.pairIn, hl'.pairIn, hl.pairOut, hl'.pairOut]
  exact ⟨t1, by omega, t4, t5, f3, f1, f5, f7, k1, k2⟩

/-- non-vacuity of (B1)/(B3): a pool with a collector cut and three destinations (input token:
    burned; output token: local swap, burned; third token: forwarded to the trusted pair), a
    fixed-input swap whose special fee 1000 splits as 500 collector + 166 burned + 166
    forwarded + 166 re-entered the reserve + 2 dust, and a fixed-output swap in the other
    direction delivered as LOCKED tokens. -/
example :
    let l := runL (initL 3000 1000 none 8 [(50000000, 50000000), (3000000, 3000000)])
      [.call 0 (.cfg (.setState .active)), .call 0 (.addLiq 10000000 20000000 1 1),
       .call 0 (.cfg (.addDest .first)), .call 0 (.cfg (.addDest .second)),
       .call 0 (.cfg (.addDest .other)), .call 0 (.cfg (.setCollector 50000)),
       .call 0 (.cfg (.setTrusted true (some ⟨5000000, 7000000, true⟩)))]
    let r := stepL l (.call 1 (.swapIn .ab 100000 1))
    (r.map fun x => (x.1.p.coll1, x.1.p.burn1, x.1.p.ext1, x.1.p.burn2, x.1.p.r1, x.1.pairA)) =
      some (500, 166, 166, 325, 10099166, 10099168) ∧
    swapFee l.p 100000 = 1000 ∧
    (r.map fun x => x.1.accts.map fun a => (a.a, a.b)) =
      some [(40000000, 30000000), (2900000, 3000000 + 192136)] := by
  decide

example :
    let l := runL (initL 300 100 none 8 [(50000000, 50000000), (3000000, 3000000)])
      [.call 0 (.cfg (.setState .active)), .call 0 (.addLiq 10000000 20000000 1 1),
       .call 0 (.cfg (.addDest .second)), .call 0 (.lock true (.setSc .simpleLock)),
       .call 0 (.lock true (.setDeadline 5)), .call 0 (.lock true (.setUnlock 9))]
    let r := stepL l (.call 1 (.swapOut .ba 900000 1000))
    (r.map fun x => (x.2.v1, x.2.v2, x.2.v3, x.2.locked)) = some (1000, 2007, 897993, true) ∧
    (r.map fun x => x.1.accts.map fun a => (a.a, a.b, a.lkA)) =
      some [(40000000, 30000000, 0), (3000000, 3000000 - 2007, 1000)] ∧
    (r.map fun x => (x.1.p.slk1, x.1.p.burn2)) = some (1000, 2) := by
  decide

end Mx.C03Ledger
