/-
  C11 — Boosted rewards (dex/farm, farm-with-locked-rewards), history-level "paid at most once"
  (session 4, closes audit item 7 for the farm world).

  `Farm.paidLog s₀ ops` is a function of the history: one entry `(user, week, amount)` per week
  pool a successful operation paid boosted rewards out of.  The user is the operation's claim user
  (`Farm.claimUser`: original caller of enter / claim / compound / exit / merge, the on-behalf user,
  the recorded owner for `claimRewardsOnBehalf`, the user of `claimBoostedRewards`); week and amount
  are read off the growth of the ghost `paidW week` (Σ boosted rewards paid out of that week's pool).

    * `boosted_log_once`      no (user, week) occurs twice in the log of ANY history;
    * `boosted_log_window`    every entry is for a week `w` with `current − 4 ≤ w < current`, not
                              before the claimer's stored progress, and its amount is positive;
    * `boosted_log_complete`  `paidW w` is exactly the sum of the log — no payment escapes it;
    * `boosted_log_le_pool`   so the logged payments of a week never exceed what was cut into its pool.

  Not proved here: that each logged amount equals the boosted formula (the per-`claim_single`
  statement is `C11.boosted_formula`; lifting it to the log needs the farm analogue of
  `Fees.claimLoop_amounts`).  Lemmas: Lemmas/FarmLog.lean, Lemmas/FarmLogRun.lean.
-/
import MxModel.Props.C11Pool
import MxModel.Lemmas.FarmLogRun

namespace Mx.C11Once
open Mx.Farm

/-- every entry of the log of a history was produced by one of its operations, executed in the
    state reached by the operations before it -/
theorem boosted_log_entries (ops : List Op) : ∀ (s : St) (e : Entry), e ∈ paidLog s ops →
    ∃ ops1 op ops2, ops = ops1 ++ op :: ops2 ∧ e ∈ stepLog (run s ops1) op := by
  induction ops with
  | nil => intro s e h; cases h
  | cons op ops ih =>
    intro s e h
    simp only [paidLog, List.mem_append] at h
    rcases h with h | h
    · exact ⟨[], op, ops, rfl, h⟩
    · obtain ⟨ops1, op', ops2, rfl, he⟩ := ih _ e h
      exact ⟨op :: ops1, op', ops2, rfl, by rw [run_cons]; exact he⟩

/-- **paid at most once.**  In the log of boosted payments of ANY history of a farm, no two entries
    have the same user and week: whatever the sequence of enter / claim / compound / exit / merge /
    claimBoostedRewards / on-behalf operations, energy updates, configuration changes and idle
    weeks, a user is paid out of a given week's pool at most once. -/
theorem boosted_log_once (kind : Kind) (same : Bool) (dsc pb : Nat) (produce : Bool)
    (users : List Nat) (e0 : Nat) (ops : List Op) :
    (paidLog (init kind same dsc pb produce users e0) ops).Pairwise
      (fun e e' => ¬ (e.user = e'.user ∧ e.week = e'.week)) := by
  have := paidLog_once_from ops (s := init kind same dsc pb produce users e0) (pre := [])
    (fun _ h => by cases h) List.Pairwise.nil
  simpa [sameKey] using this

/-- **only the four most recent completed weeks.**  Every entry an operation logs — in any state —
    is a payment to the operation's claim user, of a positive amount, for a week `w` with
    `current_week − 4 ≤ w < current_week` at the time of payment and not before the week of the
    user's stored claim progress. -/
theorem boosted_log_window (s : St) (op : Op) (e : Entry) (h : e ∈ stepLog s op) :
    claimUser s op = some e.user ∧ curWeek s ≤ e.week + 4 ∧ e.week < curWeek s ∧ 0 < e.amount ∧
    ∃ p, s.w.progress e.user = some p ∧ p.week ≤ e.week := by
  obtain ⟨h1, h2, h3, h4⟩ := stepLog_window h
  exact ⟨h1, h2, h3, stepLog_pos h, h4⟩

/-- operations that are not boosted claims log nothing, and no operation moves the boosted ledger
    `paidW` except through its log: after ANY history `paidW w` is exactly the sum of the logged
    amounts for week `w` -/
theorem boosted_log_complete (kind : Kind) (same : Bool) (dsc pb : Nat) (produce : Bool)
    (users : List Nat) (e0 : Nat) (ops : List Op) (w : Nat) :
    (run (init kind same dsc pb produce users e0) ops).b.paidW w =
      logSum (paidLog (init kind same dsc pb produce users e0) ops) w := by
  have := paidLog_sum_from ops (init kind same dsc pb produce users e0) w
  rw [this]
  show 0 + _ = _
  rw [Nat.zero_add]

/-- **the logged payments of a week never exceed its pool**: Σ of the log for week `w` ≤ everything
    that was ever cut into week `w`'s boosted pool (`cutW w`, see `C11Pool.week_paid_le_pool`) -/
theorem boosted_log_le_pool (kind : Kind) (same : Bool) (dsc pb : Nat) (produce : Bool)
    (users : List Nat) (e0 : Nat) (ops : List Op) (w : Nat) :
    logSum (paidLog (init kind same dsc pb produce users e0) ops) w ≤
      (run (init kind same dsc pb produce users e0) ops).b.cutW w := by
  rw [← boosted_log_complete]
  exact (C11Pool.week_paid_le_pool kind same dsc pb produce users e0 ops w).1

/-- the progress-side fact behind `boosted_log_once`, per operation: a successful operation either
    leaves the boosted ledger and every claim progress alone, or touches exactly one user `u` in
    the current week `W` — the ledger moves only for weeks `W−4 ≤ w < W` at or after `u`'s stored
    progress, `u`'s progress ends at week `W` (or is cleared), nobody else's changes, and if the
    ledger moved, `u` is the operation's claim user -/
theorem boosted_step_effect {s s' : St} {op : Op} {o : Out} (h : step s op = some (s', o)) :
    (s'.b.paidW = s.b.paidW ∧ s'.w.progress = s.w.progress) ∨
    ∃ u W, s.week = some W ∧
      (∀ w, s'.b.paidW w ≠ s.b.paidW w →
        claimUser s op = some u ∧ W ≤ w + 4 ∧ w < W ∧ ∃ p, s.w.progress u = some p ∧ p.week ≤ w) ∧
      (∀ w, s.b.paidW w ≤ s'.b.paidW w) ∧
      (∀ p, s'.w.progress u = some p → p.week = W) ∧
      (∀ x, x ≠ u → s'.w.progress x = s.w.progress x) := by
  obtain ⟨_, _, hq | ⟨u, W, hW, eff, hcu⟩⟩ := step_eff h
  · exact Or.inl hq
  · refine Or.inr ⟨u, W, hW, fun w hne => ⟨hcu w hne, eff.paid w hne⟩, eff.mono, ?_, ?_⟩
    · obtain ⟨o', ho, hp⟩ := eff.prog
      have hp' : s'.w.progress = Weekly.upd s.w.progress u o' := hp
      intro p hpp
      rw [hp', Weekly.upd_same] at hpp
      exact ho p hpp
    · obtain ⟨o', ho, hp⟩ := eff.prog
      have hp' : s'.w.progress = Weekly.upd s.w.progress u o' := hp
      intro x hx
      rw [hp', Weekly.upd_other _ _ hx]

/-! ### non-vacuity -/

/-- the corpus history f1 of `Props/C11.lean`: the week-1 pool of 2500 is paid to user 1 in week 2;
    the second `claimBoostedRewards` in the same week logs nothing -/
def exOps : List Op :=
  [.setFactors OWNER ⟨10, 3, 2, 1, 1⟩, .setPct OWNER 2500, .setEnergy 1 1000000 0 1000,
   .enter 1 none 100000000 [], .advance 10 6, .claim 1 none [(1, 100000000)], .advance 10 7,
   .claimBoosted 1 none, .claimBoosted 1 none]

local notation "exInit" => init Kind.mint false 1000000000000 1000 true [1, 2] 0

theorem ex_state : (run exInit exOps).b.paidW 1 = 2500 ∧ (run exInit exOps).b.cutW 1 = 2500 := by
  decide

/-- the log of this history holds exactly 2500 for week 1 — one positive entry exists, and by
    `boosted_log_once` user 1's second claim did not add another one for (1, week 1) -/
example : logSum (paidLog exInit exOps) 1 = 2500 ∧
    ∃ e ∈ paidLog exInit exOps, e.week = 1 ∧ 0 < e.amount := by
  have h0 : (run exInit exOps).b.paidW 1 = logSum (paidLog exInit exOps) 1 :=
    boosted_log_complete Kind.mint false 1000000000000 1000 true [1, 2] 0 exOps 1
  have h : logSum (paidLog exInit exOps) 1 = 2500 := h0.symm.trans ex_state.1
  exact ⟨h, exists_of_logSum_pos (by rw [h]; decide)⟩

end Mx.C11Once
