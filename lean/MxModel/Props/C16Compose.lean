/-
  C16 composed with the MODELS of the proxy-dex's callees — the energy factory (Core/Energy.lean)
  and the farm (Core/Farm.lean, both kinds; `noMint` = farm-with-locked-rewards).

  Props/C16.lean and Props/C16Run.lean quantify over the callees' recorded answers and assume the
  named callee facts `FactoryMergeOK` (the factory's merge / extension returns the sum of the locked
  amounts sent), `FarmExact` and `FarmOK` (a farm creates as many farm tokens as farming tokens
  entered / claimed / merged).  The driver checks them on every recorded answer; here they are
  PROVED from the callee models: whatever state the factory / farm model is in, if the recorded
  answer is what that model returns for the payments the proxy model sends, the fact holds.
  So for the triple (proxy model, factory model, farm model) the C16 theorems need no assumption
  about the callees' amounts any more.

  New content beyond the amounts: the SCHEDULE of a merged / extended locked token (C16, first
  sentence: "… the same unlock schedule").  A merged token is a NEW nonce whose unlock epoch is
  the factory's `token_merging.rs` rule — pairwise amount-weighted average rounded up, then
  `unlock_epoch_to_start_of_month_upper_estimate`.  What is true and proved: the merged token is
  still locked; its epoch is a month start; it is never earlier than the month start of the
  earliest merged epoch and never later than one month after the month start of the latest; and,
  since every epoch the factory model hands out is a month start in every reachable state
  (Lemmas/EnergyAligned.lean), it lies between the earliest and the latest merged epoch
  (`merged_between_inputs`).  So merging never lets locked tokens out before
  the earliest input would have been free — but it DOES shorten the lock of the later inputs
  (not "the same schedule": by design of the factory's merge, see the example at the end).
  An extended token unlocks strictly later than before.

  Caveat: the tied factory model has no `extendLockPeriod(epochs, user)` endpoint (used by
  `increaseProxy…TokenEnergy`); its `extendLock` is `lockTokens` paid with a locked token, which runs
  the same `extend_new_token_period` but on the CALLER's energy entry, so the proxy cannot run it for
  a user.  `Energy.extendPeriodFor` (Lemmas/EnergyMerge.lean) transcribes the endpoint with the
  energy address as a parameter; it equals the tied operation for `user = caller`
  (`extension_is_model_op`) but is itself NOT exercised by a correspondence run.  The farm model has
  one farming token, so "locked tokens go to the base-asset farm, wrapped LP to an LP farm" (the
  farm rejecting a foreign token) stays a hypothesis (`farmIsBase farm = …`).
  Only property theorems live here; lemmas are in Lemmas/{EnergyMerge,FarmAnswers,ProxyDexFactory}.lean.
-/
import MxModel.Lemmas.EnergyMerge
import MxModel.Lemmas.EnergyAligned
import MxModel.Lemmas.FarmAnswers
import MxModel.Lemmas.ProxyDexFactory
import MxModel.Lemmas.ProxyDexMerge
import MxModel.Lemmas.ProxyDexLp

namespace Mx.C16Compose
open Mx.ProxyDex

/-! ### (1) the energy factory model: merge -/

/-- **what the factory model answers to `mergeTokens`**, for every state, caller, original caller
    and payment list: ONE locked token for the SUM of the merged amounts (non-zero), credited to
    the caller; an original caller may only be named by a whitelisted contract. -/
theorem factory_merge_answer {σ σ' : Energy.St} {c orig : Nat} {ps : List (Nat × Nat)}
    {eo : Energy.Out} (h : Energy.mergeTokens σ c orig ps = some (σ', eo)) :
    eo.v2 = (ps.map (·.2)).sum ∧ 0 < eo.v2 ∧ eo.v2 ≤ σ'.bal c eo.v1 ∧ (orig = 0 ∨ c ∈ σ.wl) := by
  obtain ⟨h1, h2, h3, _⟩ := Energy.mergeTokens_answer h
  exact ⟨h1, h2, Energy.mergeTokens_credited h, h3⟩

/-- **schedule of a merged token** (token_merging.rs): every merged token was still locked; the
    answer is still locked, its unlock epoch `unl` is a month start, and for every interval
    `[lo, hi]` containing the unlock epochs of all merged tokens
    `startOfMonth lo ≤ unl ≤ startOfMonth hi + 30`; if `lo`, `hi` are month starts, `lo ≤ unl ≤ hi`:
    never earlier than the earliest input, never later than the latest. -/
theorem merged_schedule {σ σ' : Energy.St} {c orig : Nat} {ps : List (Nat × Nat)}
    {eo : Energy.Out} (h : Energy.mergeTokens σ c orig ps = some (σ', eo)) :
    (∀ p ∈ ps, ∃ u, σ.unlockOf p.1 = some u ∧ σ.epoch < u) ∧
    ∃ unl, σ'.unlockOf eo.v1 = some unl ∧ σ.epoch < unl ∧ unl % 30 = 0 ∧
      ∀ lo hi, (∀ p ∈ ps, ∀ u, σ.unlockOf p.1 = some u → lo ≤ u ∧ u ≤ hi) →
        Energy.startOfMonth lo ≤ unl ∧ unl ≤ Energy.startOfMonth hi + 30 ∧
        (lo % 30 = 0 → hi % 30 = 0 → lo ≤ unl ∧ unl ≤ hi) := by
  obtain ⟨_, _, _, h4, h5, _⟩ := Energy.mergeTokens_answer h
  exact ⟨h4, h5⟩

/-- **schedule of a merged token, in every reachable state of the factory model** (any
    configuration, any history): every unlock epoch the factory ever handed out is a month start
    (`Energy.run_aligned`), so the merged token unlocks NOT BEFORE the earliest and NOT AFTER the
    latest of the merged tokens: if `lo` and `hi` are the unlock epochs of two of the payments and
    bound all of them, `lo ≤ unl ≤ hi`.  In particular merging tokens of one unlock epoch keeps
    that epoch, and no merge can make anything unlockable earlier than its earliest input. -/
theorem merged_between_inputs (cfg : Energy.Cfg) (ops : List Energy.Op) {σ' : Energy.St}
    {c orig : Nat} {ps : List (Nat × Nat)} {eo : Energy.Out}
    (h : Energy.mergeTokens (Energy.run (Energy.init cfg) ops) c orig ps = some (σ', eo)) :
    let σ := Energy.run (Energy.init cfg) ops
    ∃ unl, σ'.unlockOf eo.v1 = some unl ∧ σ.epoch < unl ∧
      ∀ lo hi, (∀ p ∈ ps, ∀ u, σ.unlockOf p.1 = some u → lo ≤ u ∧ u ≤ hi) →
        (∃ p ∈ ps, σ.unlockOf p.1 = some lo) → (∃ p ∈ ps, σ.unlockOf p.1 = some hi) →
        lo ≤ unl ∧ unl ≤ hi := by
  intro σ
  have hal : Energy.MonthAligned σ.nonces := Energy.run_aligned ops (Energy.init_aligned cfg)
  obtain ⟨_, unl, h1, h2, _, hB⟩ := merged_schedule h
  refine ⟨unl, h1, h2, fun lo hi hb hlo hhi => ?_⟩
  obtain ⟨_, _, hlo'⟩ := hlo
  obtain ⟨_, _, hhi'⟩ := hhi
  exact (hB lo hi hb).2.2 (hal.unlockOf hlo') (hal.unlockOf hhi')

/-! ### (2) `FactoryMergeOK` from the factory model -/

/-- `mergeWrappedLpTokens`: the proxy model sends `sentW s l` (the locked parts of the merged
    wrapped LP tokens — `takeWs_sends`); the factory model's answer satisfies `FactoryMergeOK` -/
theorem factoryMergeOK_mergeLp {s : St} {l : List (Nat × Nat)} {t : LkTok}
    {σ σ' : Energy.St} {c orig : Nat} {eo : Energy.Out}
    (hE : Energy.mergeTokens σ c orig (sentW s l) = some (σ', eo)) (hrec : t.amt = eo.v2) :
    FactoryMergeOK s (.mergeLp l t) := by
  have := (factory_merge_answer hE).1
  rw [sentW_sum] at this
  simp [FactoryMergeOK, factoryOKb, hrec, this]

/-- `mergeWrappedFarmTokens`: payments `sentF s l` (the locked tokens behind the merged wrapped
    farm tokens, `takeF_net`) -/
theorem factoryMergeOK_mergeFarm {s : St} {farm : Nat} {l : List (Nat × Nat)} {mf : Nat × Nat}
    {t : LkTok} {rew : Option LkTok} {stray : List LkTok}
    {σ σ' : Energy.St} {c orig : Nat} {eo : Energy.Out}
    (hE : Energy.mergeTokens σ c orig (sentF s l) = some (σ', eo)) (hrec : t.amt = eo.v2) :
    FactoryMergeOK s (.mergeFarm farm l mf t rew stray) := by
  have := (factory_merge_answer hE).1
  rw [sentF_sum] at this
  simp [FactoryMergeOK, factoryOKb, hrec, this]

/-- `addLiquidityProxy` with merging: the new position's locked tokens `(k, ul)` and the locked
    parts of the merged wrapped LP tokens -/
theorem factoryMergeOK_addLiq {s : St} {k la oa lp ul uo : Nat} {a : Nat × Nat}
    {l : List (Nat × Nat)} {t : LkTok} {σ σ' : Energy.St} {c orig : Nat} {eo : Energy.Out}
    (hE : Energy.mergeTokens σ c orig ((k, ul) :: sentW s (a :: l)) = some (σ', eo))
    (hrec : t.amt = eo.v2) :
    FactoryMergeOK s (.addLiq k la oa (a :: l) lp ul uo (some t)) := by
  have := (factory_merge_answer hE).1
  rw [List.map_cons, List.sum_cons, sentW_sum] at this
  simp only [FactoryMergeOK, factoryOKb, hrec, this, beq_self_eq_true]

/-- `enterFarmProxy` with locked tokens and merging -/
theorem factoryMergeOK_enterL {s : St} {farm k a : Nat} {b : Nat × Nat} {l : List (Nat × Nat)}
    {ft mf : Nat × Nat} {rew : Option LkTok} {t : LkTok} {stray : List LkTok}
    {σ σ' : Energy.St} {c orig : Nat} {eo : Energy.Out}
    (hE : Energy.mergeTokens σ c orig ((k, a) :: sentF s (b :: l)) = some (σ', eo))
    (hrec : t.amt = eo.v2) :
    FactoryMergeOK s (.enterL farm k a (b :: l) ft rew (some (mf, t)) stray) := by
  have := (factory_merge_answer hE).1
  rw [List.map_cons, List.sum_cons, sentF_sum] at this
  simp only [FactoryMergeOK, factoryOKb, hrec, this, beq_self_eq_true]

/-- `enterFarmProxy` with a wrapped LP token and merging -/
theorem factoryMergeOK_enterW {s : St} {farm w a : Nat} {b : Nat × Nat} {l : List (Nat × Nat)}
    {ft mf : Nat × Nat} {rew : Option LkTok} {t : LkTok} {stray : List LkTok}
    {σ σ' : Energy.St} {c orig : Nat} {eo : Energy.Out}
    (hE : Energy.mergeTokens σ c orig
            ((kOfW s.aw w, lockedA s.aw w a) :: sentF s (b :: l)) = some (σ', eo))
    (hrec : t.amt = eo.v2) :
    FactoryMergeOK s (.enterW farm w a (b :: l) ft rew (some (mf, t)) stray) := by
  have := (factory_merge_answer hE).1
  rw [List.map_cons, List.sum_cons, sentF_sum] at this
  simp only [FactoryMergeOK, factoryOKb, hrec, this, beq_self_eq_true]

/-- **period extension** (`extendLockPeriod(epochs, user)`, `Energy.extendPeriodFor` — see its
    caveat: the tied factory model has the same code only with the caller's own energy entry,
    `extension_is_model_op`): the SAME amount comes back, credited to the caller, under a nonce that
    unlocks at the requested month start, strictly later than the old epoch and than now; hence
    `FactoryMergeOK` for `increaseProxyPairTokenEnergy` / `increaseProxyFarmTokenEnergy`, and the
    schedule clause for an extended token: it unlocks strictly LATER than before. -/
theorem factoryMergeOK_increase {s : St} {t : LkTok} {σ σ' : Energy.St} {c user n amt ep : Nat}
    {eo : Energy.Out} (hE : Energy.extendPeriodFor σ c user n amt ep = some (σ', eo))
    (hrec : t.amt = eo.v2) :
    (∀ w x, n = kOfW s.aw w → amt = lockedA s.aw w x → FactoryMergeOK s (.incLp w x t)) ∧
    (∀ f x, n = kOfF s.aw s.af f → amt = lockedFA s.aw s.af f x →
      FactoryMergeOK s (.incFarm f x t)) ∧
    eo.v2 ≤ σ'.bal c eo.v1 ∧
    ∃ old, σ.unlockOf n = some old ∧ old < Energy.startOfMonth (σ.epoch + ep) ∧
      σ.epoch < Energy.startOfMonth (σ.epoch + ep) ∧
      σ'.unlockOf eo.v1 = some (Energy.startOfMonth (σ.epoch + ep)) := by
  obtain ⟨h1, _, _, hc, old, h2, h3, h4, h5, _⟩ := Energy.extendPeriodFor_answer hE
  refine ⟨fun w x _ ha => ?_, fun f x _ ha => ?_, by rw [h1]; exact hc, old, h2, h3, h4, h5⟩
  · simp [FactoryMergeOK, factoryOKb, hrec, h1, ha]
  · simp [FactoryMergeOK, factoryOKb, hrec, h1, ha]

/-- the extension a user runs for himself in the tied factory model (`lockTokens` paid with a locked
    token) is the same function with `user = caller` -/
theorem extension_is_model_op (σ : Energy.St) (c n amt ep dest : Nat) (hd : dest = 0 ∨ dest = c) :
    Energy.step σ (.extend c n amt ep dest) = Energy.extendPeriodFor σ c c n amt ep :=
  Energy.extendLock_eq σ c n amt ep dest hd

/-! ### (3) merge of wrapped LP tokens, fully composed -/

/-- **`mergeWrappedLpTokens` ∘ energy factory model.**  Let the merge succeed in the proxy model
    with recorded answer `t`, and let `t` be what the factory model returns when the proxy `c`
    (a whitelisted contract, on behalf of `orig`) sends the locked parts `sentW s l`; let the
    proxy's knowledge of the merged nonces' unlock epochs (`s.unl`) agree with the factory.  Then
    * nothing the merged tokens record is lost: reserved locked tokens `RT`, wrapped LP in user
      hands `C`, the proxy's LP balance and the base+locked supply ledger `net` are unchanged;
    * per locked nonce the proxy's balance moves by exactly what it sent and what it got back, and
      the factory model did credit the answer to the proxy;
    * the new wrapped token records nonce `t.k`, whose unlock epoch `t.unl` the proxy now knows; it
      is in the future, a month start, and for every `[lo, hi]` containing the known unlock epochs
      of the merged tokens `startOfMonth lo ≤ t.unl ≤ startOfMonth hi + 30`, and `lo ≤ t.unl ≤ hi`
      when `lo`, `hi` are month starts. -/
theorem merge_lp_composed {s s' : St} {l : List (Nat × Nat)} {t : LkTok} {o : Out}
    (h : mergeLp s l t = some (s', o))
    {σ σ' : Energy.St} {c orig : Nat} {eo : Energy.Out}
    (hE : Energy.mergeTokens σ c orig (sentW s l) = some (σ', eo))
    (hrec : t.k = eo.v1 ∧ t.amt = eo.v2 ∧ σ'.unlockOf eo.v1 = some t.unl)
    (hknow : ∀ wx ∈ l, σ.unlockOf (kOfW s.aw wx.1) = some (s.unl (kOfW s.aw wx.1))) :
    (RT s' = RT s ∧ C s' = C s ∧ s'.lp = s.lp ∧ s'.net = s.net) ∧
    (∀ κ, s'.lk κ + amtOf κ (sentW s l) = s.lk κ + (if κ = t.k then t.amt else 0)) ∧
    t.amt ≤ σ'.bal c t.k ∧
    (s'.unl t.k = t.unl ∧ σ.epoch < t.unl ∧ t.unl % 30 = 0 ∧
      ∀ lo hi, (∀ wx ∈ l, lo ≤ s.unl (kOfW s.aw wx.1) ∧ s.unl (kOfW s.aw wx.1) ≤ hi) →
        Energy.startOfMonth lo ≤ t.unl ∧ t.unl ≤ Energy.startOfMonth hi + 30 ∧
        (lo % 30 = 0 → hi % 30 = 0 → lo ≤ t.unl ∧ t.unl ≤ hi)) := by
  obtain ⟨hk, ha, hu⟩ := hrec
  have hok : FactoryMergeOK s (.mergeLp l t) := factoryMergeOK_mergeLp hE ha
  have hamt : t.amt = lockedWs s l := by simpa [FactoryMergeOK, factoryOKb] using hok
  obtain ⟨d1, _, d3, d4, d5, _, _, _⟩ := mergeLp_delta h
  obtain ⟨_, _, hcred, _⟩ := factory_merge_answer hE
  obtain ⟨_, unl, hu', hlt, hal, hB⟩ := merged_schedule hE
  rw [hu] at hu'
  simp only [Option.some.injEq] at hu'
  subst hu'
  -- the proxy's own state
  simp only [mergeLp, Option.bind_eq_bind, Option.bind_eq_some_iff, req_eq_some,
    Option.pure_def, Option.some.injEq, Prod.mk.injEq] at h
  obtain ⟨_, _, ⟨s1, sx⟩, h1, rfl, _⟩ := h
  have hs := takeWs_sends h1
  refine ⟨⟨by omega, d3, d4, net_of_scal d5⟩, ?_, ?_, ?_, hlt, hal, ?_⟩
  · intro κ
    have := hs κ
    show (if κ = t.k then s1.lk κ + t.amt else s1.lk κ) + _ = _
    split <;> omega
  · rw [hk, ha]; exact hcred
  · show (if t.k = t.k then t.unl else s1.unl t.k) = t.unl
    rw [if_pos rfl]
  · intro lo hi hb
    refine hB lo hi ?_
    intro p hp u hpu
    simp only [sentW, List.mem_map] at hp
    obtain ⟨wx, hwx, rfl⟩ := hp
    rw [hknow wx hwx] at hpu
    simp only [Option.some.injEq] at hpu
    subst hpu
    exact hb wx hwx

/-! ### (4) `FarmExact` / `FarmOK` from the farm model -/

/-- `enterFarmProxy` with locked tokens, no merging: the proxy mints `a` base asset and enters the
    farm on behalf of the user; the farm model's token is for exactly `a` -/
theorem farmExact_enterL {φ φ' : Farm.St} {proxy : Nat} {user : Option Nat} {fo : Farm.Out}
    {farm k a : Nat} {ft : Nat × Nat} {rew : Option LkTok} {m : Option ((Nat × Nat) × LkTok)}
    {stray : List LkTok} (hfarm : farmIsBase farm = true)
    (hF : Farm.enterFarm φ proxy user a [] = some (φ', fo)) (hrec : ft = (fo.nonce, fo.amt)) :
    FarmExact (.enterL farm k a [] ft rew m stray) := by
  obtain ⟨_, h2, _⟩ := Farm.enterFarm_answer hF
  simp [FarmExact, farmEqb, hfarm, hrec, h2, Farm.paySum]

/-- `enterFarmProxy` with locked tokens and merging: the proxy enters with `a`, then sends the new
    farm token together with the farm tokens `fps` behind the merged wrapped farm tokens (same
    amounts as the wrapped payments) to the farm's `mergeFarmTokens`; the merged farm token is for
    `a + Σ merged` -/
theorem farmExact_enterL_merge {φ φ1 φ2 : Farm.St} {proxy : Nat} {user : Option Nat}
    {fo mo : Farm.Out} {farm k a : Nat} {b : Nat × Nat} {l : List (Nat × Nat)}
    {fps : List (Nat × Nat)} {ft mf : Nat × Nat} {rew : Option LkTok} {t : LkTok}
    {stray : List LkTok} (hfarm : farmIsBase farm = true)
    (hF : Farm.enterFarm φ proxy user a [] = some (φ1, fo))
    (hM : Farm.mergeFarmTokens φ1 proxy user ((fo.nonce, fo.amt) :: fps) = some (φ2, mo))
    (hamts : fps.map (·.2) = (b :: l).map (·.2)) (hrec : mf = (mo.nonce, mo.amt)) :
    FarmExact (.enterL farm k a (b :: l) ft rew (some (mf, t)) stray) := by
  obtain ⟨_, h2, _⟩ := Farm.enterFarm_answer hF
  have h3 := Farm.mergeFarmTokens_answer hM
  have h4 : mo.amt = a + paySum (b :: l) := by
    rw [h3]; simp only [Farm.paySum]; rw [Farm.paySum_eq_sum, hamts, h2]; simp [Farm.paySum, paySum]
  simp only [FarmExact, farmEqb, hfarm, hrec, h4, beq_self_eq_true, Bool.and_self]

/-- `claimRewardsProxy`: the farm model's new position is for exactly the amount claimed with -/
theorem farmExact_claim {φ φ' : Farm.St} {proxy : Nat} {user : Option Nat} {fo : Farm.Out}
    {farm f x fn : Nat} {ft : Nat × Nat} {rew : Option LkTok}
    (hF : Farm.claimRewards φ proxy user [(fn, x)] = some (φ', fo)) (hrec : ft = (fo.nonce, fo.amt)) :
    FarmExact (.claim farm f x ft rew) ∧ FarmOK (.claim farm f x ft rew) := by
  have h := Farm.claimRewards_answer hF
  have hx : fo.amt = x := by rw [h]; simp [Farm.paySum]
  constructor
  · simp [FarmExact, farmEqb, hrec, hx]
  · show x ≤ ft.2
    rw [hrec, hx]

/-- `mergeWrappedFarmTokens`: the farm model's merged token is for the sum of the merged amounts -/
theorem farmExact_mergeFarm {φ φ' : Farm.St} {proxy : Nat} {user : Option Nat} {mo : Farm.Out}
    {farm : Nat} {l fps : List (Nat × Nat)} {mf : Nat × Nat} {t : LkTok} {rew : Option LkTok}
    {stray : List LkTok}
    (hM : Farm.mergeFarmTokens φ proxy user fps = some (φ', mo))
    (hamts : fps.map (·.2) = l.map (·.2)) (hrec : mf = (mo.nonce, mo.amt)) :
    FarmExact (.mergeFarm farm l mf t rew stray) ∧ FarmOK (.mergeFarm farm l mf t rew stray) := by
  have h3 := Farm.mergeFarmTokens_answer hM
  have h4 : mo.amt = paySum l := by rw [h3, Farm.paySum_eq_sum, hamts]; rfl
  constructor
  · simp [FarmExact, farmEqb, hrec, h4]
  · show sumX l ≤ mf.2
    rw [hrec, h4]; exact Nat.le_refl _

/-- `enterFarmProxy` with a wrapped LP token: the LP tokens entered come back as as many farm
    tokens (`FarmOK`, the fact the LP-backing invariant `wrapped_lp_tokens_backed` needs), without
    and with merging -/
theorem farmOK_enterW {φ φ1 : Farm.St} {proxy : Nat} {user : Option Nat} {fo : Farm.Out}
    {farm w a : Nat} {ft : Nat × Nat} {rew : Option LkTok} {stray : List LkTok}
    (hfarm : farmIsBase farm = false)
    (hF : Farm.enterFarm φ proxy user a [] = some (φ1, fo)) (hrec : ft = (fo.nonce, fo.amt)) :
    FarmOK (.enterW farm w a [] ft rew none stray) ∧
    FarmExact (.enterW farm w a [] ft rew none stray) ∧
    ∀ (φ2 : Farm.St) (mo : Farm.Out) (b : Nat × Nat) (l fps : List (Nat × Nat)) (mf : Nat × Nat)
      (t : LkTok),
      Farm.mergeFarmTokens φ1 proxy user ((fo.nonce, fo.amt) :: fps) = some (φ2, mo) →
      fps.map (·.2) = (b :: l).map (·.2) → mf = (mo.nonce, mo.amt) →
      FarmOK (.enterW farm w a (b :: l) ft rew (some (mf, t)) stray) := by
  obtain ⟨_, h2, _⟩ := Farm.enterFarm_answer hF
  have hfa : fo.amt = a := by rw [h2]; simp [Farm.paySum]
  refine ⟨⟨hfarm, fun _ => ?_, fun mf t hm => by cases hm⟩, by simp [FarmExact, farmEqb, hfarm], ?_⟩
  · rw [hrec, hfa]
  · intro φ2 mo b l fps mf t hM hamts hmf
    have h3 := Farm.mergeFarmTokens_answer hM
    have h4 : mo.amt = a + sumX (b :: l) := by
      rw [h3]; simp only [Farm.paySum]; rw [Farm.paySum_eq_sum, hamts, hfa]; rfl
    refine ⟨hfarm, fun hc => (by cases hc), fun mf' t' hm => ?_⟩
    simp only [Option.some.injEq, Prod.mk.injEq] at hm
    obtain ⟨rfl, _⟩ := hm
    rw [hmf, h4]

/-- **`exitFarmProxy` ∘ farm model**: the farming tokens the farm model pays for the position `x`
    are `x` minus the farm's penalty — nothing while the position is `minFarmingEpochs` old,
    `⌊x·penaltyPct/10000⌋` before — so the proxy model's guard `farming ≤ x` is always met, an exit
    of an old enough position is the proxy's no-penalty branch (`x = farming`), and the locked
    tokens the proxy burns for an early exit (`x − farming`) are exactly the farm's penalty. -/
theorem exit_answer {φ φ' : Farm.St} {proxy : Nat} {user : Option Nat} {fo : Farm.Out} {fn x : Nat}
    (hF : Farm.exitFarm φ proxy user fn x = some (φ', fo)) :
    fo.farming ≤ x ∧
    ∃ att, φ.attrs fn = some att ∧ att.epoch ≤ φ.epoch ∧
      (φ.minFarmingEpochs ≤ φ.epoch - att.epoch → fo.farming = x) ∧
      (¬ φ.minFarmingEpochs ≤ φ.epoch - att.epoch →
        x - fo.farming = min x (x * φ.penaltyPct / Farm.MAXPCT)) := by
  obtain ⟨att, h1, h2, h3, h4⟩ := Farm.exitFarm_answer hF
  refine ⟨h4, att, h1, h2, fun hm => ?_, fun hm => ?_⟩
  · rw [h3, if_pos hm]; rfl
  · rw [h3, if_neg hm]
    generalize x * φ.penaltyPct / Farm.MAXPCT = q
    omega

/-! ### non-vacuity -/

/-- the factory world of `Props/C08Attr`: proxy 250 is whitelisted and holds 500 tokens unlocking at
    360 and 400 unlocking at 720 whose energy belongs to users 2 and 3 -/
def factoryBefore : Energy.St :=
  Energy.run (Energy.init { epoch := 5, opts := [(360, 4000), (720, 6000), (1440, 8000)], unbond := 10,
                            burnPct := 5000, minLock := 4, cooldown := 6, users := 3, funds := 1000000 })
    [.cfg (.whitelist 250), .lockVirtual 250 500 360 250 3, .lockVirtual 250 400 720 250 3]

/-- the proxy side: two wrapped LP tokens recording 500 locked @ nonce 1 and 400 @ nonce 2 -/
def proxyBefore : St :=
  run (init 5) [.lock ⟨1, 0, 360⟩, .lock ⟨2, 0, 720⟩,
                .addLiq 1 500 250 [] 250 500 250 none, .addLiq 2 400 200 [] 200 400 200 none]

/-- the hypotheses of `merge_lp_composed` are met by concrete non-trivial states of both models:
    the proxy merges 150 of wrapped LP 1 (locked part ⌊500·150/250⌋ = 300 of nonce 1) with all of
    wrapped LP 2 (400 of nonce 2); the factory model, called by the whitelisted proxy on behalf of
    user 3 with exactly these payments, answers 700 of a NEW nonce 3 unlocking at epoch 570 =
    month-rounded ⌈(360·300 + 720·400)/700⌉ — later than 360, EARLIER than 720 —, and the proxy
    model accepts that answer and knows the epoch afterwards. -/
example :
    sentW proxyBefore [(1, 150), (2, 200)] = [(1, 300), (2, 400)] ∧
    (Energy.mergeTokens factoryBefore 250 3 [(1, 300), (2, 400)]).map
        (fun p => (p.2.v1, p.2.v2, p.1.unlockOf p.2.v1, p.1.bal 250 3)) = some (3, 700, some 570, 700) ∧
    (mergeLp proxyBefore [(1, 150), (2, 200)] ⟨3, 700, 570⟩).map
        (fun p => (p.1.unl 3, p.2.wOut)) = some (570, (3, 350)) ∧
    factoryBefore.unlockOf 1 = some (proxyBefore.unl 1) ∧
    factoryBefore.unlockOf 2 = some (proxyBefore.unl 2) ∧
    FactoryMergeOK proxyBefore (.mergeLp [(1, 150), (2, 200)] ⟨3, 700, 570⟩) := by
  decide

/-- extension on the same states: the proxy sends 300 tokens of nonce 1 (unlock 360) for user 3
    with the 720-epoch option: 300 tokens come back to the proxy, unlocking at
    720 = startOfMonth(5 + 720).  The tied model's `extendLock` moves the CALLER's energy, so the
    proxy — whose own entry is empty — cannot run it for a user's tokens (`none`): this is why
    `extendPeriodFor` had to be transcribed. -/
example :
    (Energy.extendPeriodFor factoryBefore 250 3 1 300 720).map
        (fun p => (p.2.v1, p.2.v2, p.1.unlockOf p.2.v1, p.1.bal 250 2)) = some (2, 300, some 720, 700) ∧
    Energy.extendLock factoryBefore 250 1 300 720 0 = none := by
  decide

/-- a farm-with-locked-rewards model (kind `noMint`) with the proxy (account 7) whitelisted: the
    proxy enters 1000 for user 1, enters 500 more, merges, claims and exits early; the answers
    satisfy the facts proved above (token for 1000; merged token 1500; claim token 1500; early
    exit pays 1500 − ⌊1500·100/10000⌋ = 1485) -/
example :
    let φ0 := Farm.run (Farm.init .noMint false 1000000000000 1000 true [1, 2, 7] 10)
      [.scWhitelist 7]
    ((Farm.enterFarm φ0 7 (some 1) 1000 []).map (fun p => (p.2.nonce, p.2.amt))) = some (1, 1000) ∧
    (let φ1 := Farm.run φ0 [.enter 7 (some 1) 1000 [], .enter 7 (some 1) 500 []]
     ((Farm.mergeFarmTokens φ1 7 (some 1) [(2, 500), (1, 1000)]).map (fun p => (p.2.nonce, p.2.amt)))
       = some (3, 1500) ∧
     (let φ2 := Farm.run φ1 [.merge 7 (some 1) [(2, 500), (1, 1000)], .advance 5 11]
      ((Farm.claimRewards φ2 7 (some 1) [(3, 1500)]).map (fun p => (p.2.nonce, p.2.amt)))
        = some (4, 1500) ∧
      ((Farm.exitFarm φ2 7 (some 1) 3 1500).map (fun p => p.2.farming)) = some 1485)) := by
  decide

end Mx.C16Compose
