/-
  C02 (third file) — "no sequence of swaps returns more than was put in" and "adding then
  removing liquidity never returns more than was deposited", over the histories the property's
  quantifier allows (audit session 4, item 9).

  `C02.swaps_no_profit` covers lists consisting of `swapIn`/`swapOut` only, from a state with
  `0 < S`.  Here:

  * `traders_flow_bound`, `swaps_no_profit_mixed` — ANY reachable starting state (any history
    `before`, also an empty pool), then any history `after` WITHOUT liquidity operations: swaps by
    any callers, `swapNoFeeAndForward`, fee-percent / fee-destination / collector / state /
    whitelist / trusted-pair changes, locking setters, round and epoch clocks, failed
    transactions.  The aggregate net flows `(Δa, Δb)` of everybody who traded satisfy
    `(r₁ − Δa)(r₂ − Δb) ≥ r₁·r₂` against the reserves `(r₁, r₂)` they faced at the start — they
    are never better than ONE fee-less, rounding-free constant-product trade — and therefore
    they cannot end with at least as much of both tokens and strictly more of one.
  * `no_profit_needs_constant_liquidity` — the restriction is necessary: with a THIRD PARTY's
    `addLiquidity` between two swaps the swapper's round trip can be a profit (the depositor who
    adds at a moved pool ratio with minimum amounts 1 pays for it; `C04.addLiq_min_guard` is the
    depositor's protection).  Across liquidity events only the share value `r₁r₂/S²` is monotone
    (`C02Inv.kS2_mono_run_all`), per block of trading the bound above holds
    (`before` is arbitrary, so it applies to every liquidity-free block of every history).
  * `add_then_remove_le_reachable`, `addInitial_then_remove_le` — immediate redemption of ANY part
    of the LP just minted returns at most the deposit, on every reachable state: also for the first
    deposit (`S = 0`, 1000 LP stay locked) and through `addInitialLiquidity`; no `0 < S` hypothesis.
  * `redeem_any_time` — at any later time of any history, redeeming `lp` LP pays exactly the
    floor of the pro-rata share of the CURRENT reserves, never more, never a whole reserve, and the
    share value `r₁r₂/S²` at that time is at least what it was right after the deposit.
  * `later_redeem_can_exceed_deposit` — why "≤ the deposit" is a statement about IMMEDIATE
    redemption only: after other people's trades the same LP redeems for more of one token.
-/
import MxModel.Lemmas.PairTrade

namespace Mx.C02Mixed
open Mx.Pair

/-- the three facts every reachable state satisfies -/
theorem reachable_facts (total special : Nat) (adder : Option Nat) (cap : Nat) (ops : List Op) :
    let s := run (init total special adder cap) ops
    Inv s ∧ EmptyOK s ∧ SqLe s := by
  have h := run_empty_sq ops (inv_init total special adder cap) (emptyOK_init total special adder cap)
    (sqLe_init total special adder cap)
  exact ⟨run_inv ops (inv_init total special adder cap), h.1, h.2⟩

/-- K does not fall and `S` is constant over a liquidity-free history from a good state -/
theorem trade_run_k {s : St} (hi : Inv s) (he : EmptyOK s) (ops : List Op)
    (hall : ∀ op ∈ ops, isLiq op = false) :
    s.r1 * s.r2 ≤ (run s ops).r1 * (run s ops).r2 := by
  have hS := (trade_run ops hall s).1
  rcases Nat.eq_zero_or_pos s.S with h0 | hpos
  · obtain ⟨z1, _⟩ := he h0
    rw [z1]; simp
  · have hsh := run_share ops hi hpos
    unfold ShareLe at hsh
    rw [hS] at hsh
    exact Nat.le_of_mul_le_mul_right hsh (Nat.pow_pos hpos)

/-- **No sequence of swaps returns more than was put in — quantitative form.**  Start from the
    state after ANY history `before`; let `after` be any history without liquidity operations
    (swaps of any callers interleaved with `swapNoFeeAndForward`, configuration changes, clock
    ticks, failed transactions) and `(Δa, Δb)` what all its callers together netted.  Then
    `Δa ≤ r₁`, `Δb ≤ r₂` and `(r₁ − Δa)(r₂ − Δb) ≥ r₁·r₂`, with `(r₁, r₂)` the reserves at the start
    of `after`: whatever the traders do, in whatever order, at whatever fee settings, together
    they do no better than one fee-less constant-product trade against those reserves. -/
theorem traders_flow_bound (total special : Nat) (adder : Option Nat) (cap : Nat)
    (before after : List Op) (hall : ∀ op ∈ after, isLiq op = false) :
    let s := run (init total special adder cap) before
    let f := (runT s after).2
    0 ≤ (s.r1 : Int) - f.1 ∧ 0 ≤ (s.r2 : Int) - f.2 ∧
    (s.r1 : Int) * s.r2 ≤ ((s.r1 : Int) - f.1) * ((s.r2 : Int) - f.2) := by
  intro s f
  obtain ⟨hi, he, _⟩ := reachable_facts total special adder cap before
  obtain ⟨_, f1, f2⟩ := trade_run after hall s
  exact flow_product _ _ _ _ _ _ f1 f2 (trade_run_k hi he after hall)

/-- **No sequence of swaps returns more than was put in.**  Same histories as
    `traders_flow_bound` (any reachable start — no `0 < S` hypothesis —, swaps by anyone
    interleaved with no-fee swaps, fee / destination / state / whitelist / locking changes and
    clock ticks): the traders cannot end with at least as much of both tokens and strictly more
    of one.  In particular no single trader's round trip, and no fee change between two swaps,
    extracts value from the pool. -/
theorem swaps_no_profit_mixed (total special : Nat) (adder : Option Nat) (cap : Nat)
    (before after : List Op) (hall : ∀ op ∈ after, isLiq op = false) :
    let s := run (init total special adder cap) before
    let f := (runT s after).2
    ¬ (0 ≤ f.1 ∧ 0 ≤ f.2 ∧ 0 < f.1 + f.2) := by
  intro s f
  obtain ⟨hi, he, _⟩ := reachable_facts total special adder cap before
  obtain ⟨b1, b2, hp⟩ := traders_flow_bound total special adder cap before after hall
  refine flow_no_profit s.r1 s.r2 f.1 f.2 ?_ b1 b2 hp
  rcases Nat.eq_zero_or_pos s.S with h0 | hpos
  · exact Or.inr (he h0)
  · exact Or.inl ⟨(hi.pos hpos).1, (hi.pos hpos).2.1⟩

/-- the state-level form (any `s` satisfying the inductive invariants), for use on the ledger -/
theorem swaps_no_profit_state {s : St} (hi : Inv s) (he : EmptyOK s) (ops : List Op)
    (hall : ∀ op ∈ ops, isLiq op = false) :
    ¬ (0 ≤ (runT s ops).2.1 ∧ 0 ≤ (runT s ops).2.2 ∧ 0 < (runT s ops).2.1 + (runT s ops).2.2) := by
  obtain ⟨_, f1, f2⟩ := trade_run ops hall s
  obtain ⟨b1, b2, hp⟩ := flow_product _ _ _ _ _ _ f1 f2 (trade_run_k hi he ops hall)
  refine flow_no_profit s.r1 s.r2 _ _ ?_ b1 b2 hp
  rcases Nat.eq_zero_or_pos s.S with h0 | hpos
  · exact Or.inr (he h0)
  · exact Or.inl ⟨(hi.pos hpos).1, (hi.pos hpos).2.1⟩

/-- non-vacuity of the two theorems above: a history with both swap endpoints in both
    directions, a fee change, a fee destination, a state change that blocks one swap, a no-fee swap
    by a whitelisted contract and clock ticks; the traders' aggregate is a strict loss in the
    product sense and not a profit. -/
example :
    let s := run (init 300 50 none 8) [.cfg (.setState .active), .addLiq 1000000 2000000 1 1]
    let after : List Op :=
      [.swapIn .ab 50000 1, .cfg (.setFee 1000 100), .advance 5, .swapOut .ba 90000 4000,
       .cfg (.addDest .first), .swapIn .ba 30000 1, .cfg (.setState .partialActive),
       .swapIn .ab 10 1, .cfg (.setState .active), .cfg (.whitelist 7), .swapNoFee 7 .ab 500,
       .epoch 3, .lock true (.setDeadline 1), .swapOut .ab 70000 20000]
    let f := (runT s after).2
    (∀ op ∈ after, isLiq op = false) ∧ f.1 < 0 ∧ 0 < f.2 ∧
    (s.r1 : Int) * s.r2 < ((s.r1 : Int) - f.1) * ((s.r2 : Int) - f.2) := by
  decide

/-- The restriction to liquidity-free histories is NECESSARY: a swap, then a third party's
    `addLiquidity` at the moved pool ratio (minimum amounts 1, i.e. no slippage protection), then
    the reverse swap of exactly what the first one bought — the swapper ends with more of the
    first token and the same amount of the second.  The gain is paid by the depositor, not by
    the earlier liquidity providers (`r₁r₂/S²` still did not fall); the depositor's protection is
    the minimum-amount guard of `addLiquidity` (C04). -/
theorem no_profit_needs_constant_liquidity :
    let s := run (init 300 50 none 8) [.cfg (.setState .active), .addLiq 1000000 1000000 1 1]
    let ops : List Op := [.swapIn .ab 1000000 1, .addLiq 20000000 6000000 1 1, .swapIn .ba 499248 1]
    let f := (runT s ops).2
    0 < f.1 ∧ f.2 = 0 ∧
    s.r1 * s.r2 * (run s ops).S ^ 2 ≤ (run s ops).r1 * (run s ops).r2 * s.S ^ 2 ∧
    (addLiq (run s [.swapIn .ab 1000000 1]) 20000000 6000000 19000000 5500000).isSome = false := by
  decide

/-! ### add then remove -/

/-- **Adding liquidity and immediately removing it never returns more than was deposited** — on
    every reachable state, for ANY part `lp` of the LP tokens the deposit minted to the caller.
    Covers the first deposit (`S = 0`: `min a₁ a₂` LP are created, 1000 stay locked in the pair,
    the caller can redeem at most `min a₁ a₂ − 1000`); no `0 < S` hypothesis. -/
theorem add_then_remove_le_reachable (total special : Nat) (adder : Option Nat) (cap : Nat)
    (before : List Op) {s1 s2 : St} {a1 a2 m1 m2 lp n1 n2 : Nat} {o o' : Out}
    (hadd : addLiq (run (init total special adder cap) before) a1 a2 m1 m2 = some (s1, o))
    (hlp : lp ≤ o.v1) (hrem : removeLiq s1 lp n1 n2 = some (s2, o')) :
    o'.v1 ≤ o.v2 ∧ o'.v2 ≤ o.v3 ∧ o.v2 ≤ a1 ∧ o.v3 ≤ a2 := by
  obtain ⟨hi, he, _⟩ := reachable_facts total special adder cap before
  generalize run (init total special adder cap) before = s at hadd hi he
  have hM : MINLIQ = 1000 := rfl
  rcases Nat.eq_zero_or_pos s.S with h0 | hpos
  · obtain ⟨z1, z2⟩ := he h0
    obtain ⟨_, _, _, _, hmin, rfl, rfl⟩ := addLiq_first_spec h0 hadd
    obtain ⟨_, _, _, _, _, rfl, _⟩ := removeLiq_spec hrem
    simp only [z1, z2, Nat.zero_add] at hlp ⊢
    refine ⟨?_, ?_, Nat.le_refl _, Nat.le_refl _⟩
    · have hl : lp ≤ min a1 a2 := by omega
      apply Nat.div_le_of_le_mul
      exact Nat.mul_le_mul_right _ hl
    · have hl : lp ≤ min a1 a2 := by omega
      apply Nat.div_le_of_le_mul
      exact Nat.mul_le_mul_right _ hl
  · have hp := hi.pos hpos
    obtain ⟨o1, o2, _, _, _, _, _, _, _, hopt, rfl, _, _, rfl⟩ := addLiq_spec (by omega) hadd
    obtain ⟨_, _, _, _, _, rfl, _⟩ := removeLiq_spec hrem
    obtain ⟨hu, _, _⟩ := optimal_spec hopt
    simp only at hlp ⊢
    refine ⟨?_, ?_, ?_, ?_⟩
    · exact Nat.le_trans (Nat.div_le_div_right (Nat.mul_le_mul_right _ hlp))
        (add_remove_le s.r1 s.S o1 _ hp.1 (Nat.min_le_left _ _))
    · exact Nat.le_trans (Nat.div_le_div_right (Nat.mul_le_mul_right _ hlp))
        (add_remove_le s.r2 s.S o2 _ hp.2.1 (Nat.min_le_right _ _))
    · rcases hu with ⟨_, e1, _⟩ | ⟨_, q, e1, _⟩ <;> omega
    · rcases hu with ⟨q, _, e2⟩ | ⟨_, _, _, e2⟩ <;> omega

/-- the `addInitialLiquidity` twin: it is always a first deposit (`S = 0`), mints `min a₁ a₂`,
    hands `min a₁ a₂ − 1000` to the caller; redeeming any part of that at once returns at most
    `(a₁, a₂)` -/
theorem addInitial_then_remove_le (total special : Nat) (adder : Option Nat) (cap : Nat)
    (before : List Op) {s1 s2 : St} {c a1 a2 lp n1 n2 : Nat} {o o' : Out}
    (hadd : addInitial (run (init total special adder cap) before) c a1 a2 = some (s1, o))
    (hlp : lp ≤ o.v1) (hrem : removeLiq s1 lp n1 n2 = some (s2, o')) :
    o'.v1 ≤ a1 ∧ o'.v2 ≤ a2 ∧ o.v1 + MINLIQ = min a1 a2 := by
  obtain ⟨_, he, _⟩ := reachable_facts total special adder cap before
  generalize run (init total special adder cap) before = s at hadd he
  have hM : MINLIQ = 1000 := rfl
  obtain ⟨_, _, _, _, h0, hmin, rfl, rfl⟩ := addInitial_spec hadd
  obtain ⟨z1, z2⟩ := he h0
  obtain ⟨_, _, _, _, _, rfl, _⟩ := removeLiq_spec hrem
  simp only [z1, z2, Nat.zero_add] at hlp ⊢
  have hl : lp ≤ min a1 a2 := by omega
  refine ⟨?_, ?_, by omega⟩
  · apply Nat.div_le_of_le_mul
    exact Nat.mul_le_mul_right _ hl
  · apply Nat.div_le_of_le_mul
    exact Nat.mul_le_mul_right _ hl

/-- **LP tokens never redeem for more than their pro-rata share, at any later time of any
    history.**  Deposit at the state after any history `before`; then let ANY history `after`
    happen (swaps, other parties' deposits and withdrawals, fee changes, pauses and resumes, clock
    ticks); then redeem any amount `lp` of LP.  The payment is exactly the floor of
    `lp·rᵢ/S` of the reserves and supply AT THAT TIME (so `xᵢ·S ≤ lp·rᵢ < (xᵢ+1)·S`), it never
    takes a whole reserve, and the share value `r₁r₂/S²` at that time is at least what it was
    right after the deposit: what the depositor can lose relative to the deposit is price
    movement, never dilution. -/
theorem redeem_any_time (total special : Nat) (adder : Option Nat) (cap : Nat)
    (before after : List Op) {s1 s2 : St} {a1 a2 m1 m2 lp n1 n2 : Nat} {o o' : Out}
    (hadd : addLiq (run (init total special adder cap) before) a1 a2 m1 m2 = some (s1, o))
    (hrem : removeLiq (run s1 after) lp n1 n2 = some (s2, o')) :
    o'.v1 * (run s1 after).S ≤ lp * (run s1 after).r1 ∧
    lp * (run s1 after).r1 < (o'.v1 + 1) * (run s1 after).S ∧
    o'.v2 * (run s1 after).S ≤ lp * (run s1 after).r2 ∧
    lp * (run s1 after).r2 < (o'.v2 + 1) * (run s1 after).S ∧
    o'.v1 < (run s1 after).r1 ∧ o'.v2 < (run s1 after).r2 ∧ lp + MINLIQ ≤ (run s1 after).S ∧
    s1.r1 * s1.r2 * (run s1 after).S ^ 2 ≤ (run s1 after).r1 * (run s1 after).r2 * s1.S ^ 2 := by
  obtain ⟨hi, he, _⟩ := reachable_facts total special adder cap before
  have hstep : step (run (init total special adder cap) before) (.addLiq a1 a2 m1 m2) = some (s1, o) :=
    hadd
  have hi1 := step_inv hi hstep
  have he1 := step_emptyOK hi he hstep
  have hsh : ShareLe s1 (run s1 after) := run_share_all after hi1 he1
  obtain ⟨_, _, _, _, h5, rfl, _, _, h9, _, _, h12, _⟩ := removeLiq_spec hrem
  have hM : MINLIQ = 1000 := rfl
  have hSpos : 0 < (run s1 after).S := by omega
  exact ⟨Nat.div_mul_le_self _ _,
    Nat.lt_of_lt_of_eq (Nat.lt_mul_div_succ _ hSpos) (Nat.mul_comm _ _),
    Nat.div_mul_le_self _ _,
    Nat.lt_of_lt_of_eq (Nat.lt_mul_div_succ _ hSpos) (Nat.mul_comm _ _), h9, h12, h5, hsh⟩

/-- deposit then redeem, as one closed computation: (LP minted to the caller, used₁, used₂,
    paid₁, paid₂) -/
def addThenRemove (s : St) (a1 a2 : Nat) (between : List Op) (lp : Nat) :
    Option (Nat × Nat × Nat × Nat × Nat) :=
  (addLiq s a1 a2 1 1).bind fun r =>
    (removeLiq (run r.1 between) lp 1 1).map fun q => (r.2.v1, r.2.v2, r.2.v3, q.2.v1, q.2.v2)

/-- non-vacuity of `add_then_remove_le_reachable` / `addInitial_then_remove_le` /
    `redeem_any_time`: a first deposit through `addLiquidity` (1000 LP locked: of 4000 minted only
    3000 reach the caller, redeeming them returns strictly less than the deposit), a first deposit
    through `addInitialLiquidity`, a later deposit with a partial immediate redemption. -/
example :
    let e := run (init 300 50 none 8) [.cfg (.setState .active)]
    addThenRemove e 4000 9000 [] 3000 = some (3000, 4000, 9000, 3000, 6750) ∧
    ((addInitial (init 300 50 (some 2) 8) 2 9000 4000).bind fun r =>
        (removeLiq r.1 2000 1 1).map fun q => (r.2.v1, q.2.v1, q.2.v2)) = some (3000, 4500, 2000) ∧
    addThenRemove (run e [.addLiq 4000 9000 1 1, .swapIn .ab 500 1]) 700 900 [] 300 =
      some (449, 506, 900, 337, 600) := by
  decide

/-- Why "never returns more than was deposited" is a statement about IMMEDIATE redemption:
    after another party's swap the very same LP redeems for more of the first token than was
    deposited (and less of the second) — `redeem_any_time` is what holds later. -/
theorem later_redeem_can_exceed_deposit :
    let s := run (init 300 50 none 8) [.cfg (.setState .active), .addLiq 1000000 1000000 1 1]
    addThenRemove s 500000 500000 [.swapIn .ab 300000 1] 500000 =
      some (500000, 500000, 500000, 600000, 416875) := by
  decide

end Mx.C02Mixed
