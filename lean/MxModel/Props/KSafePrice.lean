/-
  KSafePrice — the safe-price model (`Core/Pair.lean`: `Obs.next`, `SP.update`; `Core/SafePrice.lean`:
  `interp`, `weighted`, `priceOf`) computes what the SOURCE of `dex/pair/src/{safe_price.rs,
  safe_price_view.rs}` computes.

  `Gen/KSafePrice.lean` is regenerated on every run by `bin/gen-kernels` (group `SafePrice`):

    * `compute_new_observation`                         = `Obs.next`   (write side, every reserve change)
    * `update_safe_price` fragment `new_index = …`      = the ring index of `SP.update`
    * `compute_weighted_amounts`                        = `weighted`
    * `price_observation_by_linear_interpolation` (from `let left_weight`)  = `interp`
    * `compute_weighted_price` (from the token dispatch) = `priceOf`

  A `PriceObservation` is the tuple of its fields; the model's `Obs` is
  (`acc1`, `acc2`, `accS`, `w`, `round`) = (first_token_reserve_accumulated,
  second_token_reserve_accumulated, lp_supply_accumulated, weight_accumulated, recording_round).
  The order of a RESULT tuple is fixed by the translator (doc string of bin/gen-kernels): fields of a
  copied-and-updated record alphabetically, fields of a record literal as written.

  Proof style: Lemmas/KTactic.lean (`k_defs`, `k_solve`) — no step names a branch condition or an
  operand order of the generated text.
-/
import MxModel.Gen.KSafePrice
import MxModel.Core.SafePrice
import MxModel.Lemmas.KTactic

namespace Mx.KSafePrice
open Mx Mx.Gen Mx.Pair Mx.SafePrice

/-! ### write side (safe_price.rs) -/

/-- source `compute_new_observation` = model `Obs.next`.  The source's round difference is a checked
    `u64` subtraction: it aborts for a stored observation from the future (never on a chain whose
    rounds grow); otherwise the five fields are the model's.
    Result order (acc1, accS, round, acc2, w) -/
theorem compute_new_observation_eq (o : Obs) (now r1 r2 S : Nat) :
    KSafePrice.compute_new_observation now r1 r2 S o.acc1 o.accS o.round o.acc2 o.w =
      if o.round ≠ 0 ∧ now < o.round then none
      else some ((o.next now r1 r2 S).acc1, (o.next now r1 r2 S).accS, (o.next now r1 r2 S).round,
                 (o.next now r1 r2 S).acc2, (o.next now r1 r2 S).w) := by
  k_defs [KSafePrice.compute_new_observation, Obs.next]
  k_solve

/-- with rounds that do not run backwards the source never aborts -/
theorem compute_new_observation_some (o : Obs) (now r1 r2 S : Nat) (h : o.round ≤ now) :
    KSafePrice.compute_new_observation now r1 r2 S o.acc1 o.accS o.round o.acc2 o.w =
      some ((o.next now r1 r2 S).acc1, (o.next now r1 r2 S).accS, (o.next now r1 r2 S).round,
            (o.next now r1 r2 S).acc2, (o.next now r1 r2 S).w) := by
  rw [compute_new_observation_eq, if_neg (by omega)]

/-- the first observation (default predecessor, round 0) has weight 1 -/
theorem compute_new_observation_first (now r1 r2 S : Nat) :
    KSafePrice.compute_new_observation now r1 r2 S 0 0 0 0 0 = some (r1, S, now, r2, 1) := by
  k_defs [KSafePrice.compute_new_observation]
  k_solve

/-- the ring index `update_safe_price` writes next, in closed form (never aborts) -/
theorem next_observation_index_closed (cur : Nat) :
    KSafePrice.next_observation_index cur = some (cur % 65536 + 1, cur % 65536 + 1) := by
  k_defs [KSafePrice.next_observation_index]
  k_solve

/-- … which is the model's `idx` of `SP.update` for a non-empty buffer: `(current % cap) + 1`
    (capacity = `MAX_OBSERVATIONS` = 65 536) -/
theorem next_observation_index_eq (p : SP) (hcap : p.cap = 65536) :
    KSafePrice.next_observation_index p.cur = some (p.cur % p.cap + 1, p.cur % p.cap + 1) := by
  rw [next_observation_index_closed, hcap]

/-- the index stays inside the ring -/
theorem next_observation_index_range (cur i j : Nat)
    (h : KSafePrice.next_observation_index cur = some (i, j)) : 1 ≤ i ∧ i ≤ 65536 ∧ j = i := by
  rw [next_observation_index_closed] at h
  simp only [Option.some.injEq, Prod.mk.injEq] at h
  omega

/-! ### read side (safe_price_view.rs) -/

/-- source `compute_weighted_amounts(first, last)` IS the model's `weighted`: same aborts (weight
    difference negative or zero, accumulators running backwards), same floors, LP average only
    when the first observation carries an LP accumulator.  Result order (w1, w2, wS) -/
theorem compute_weighted_amounts_eq (f l : Obs) :
    KSafePrice.compute_weighted_amounts f.acc1 f.accS f.acc2 f.w l.acc1 l.accS l.acc2 l.w =
      (weighted f l).map fun wa => (wa.w1, wa.w2, wa.wS) := by
  k_defs [KSafePrice.compute_weighted_amounts, weighted]
  k_solve

/-- the interpolation arithmetic of `price_observation_by_linear_interpolation` IS the model's
    `interp`: weights `(right.round − q, q − left.round)`, abort when the search round lies outside
    `[left.round, right.round]` or both weights are 0.  Result order (acc1, acc2, w, round, accS) -/
theorem interpolate_observation_eq (L R : Obs) (q : Nat) :
    KSafePrice.interpolate_observation L.acc1 L.accS L.round L.acc2 L.w R.acc1 R.accS R.round R.acc2 q =
      (interp L R q).map fun o => (o.acc1, o.acc2, o.w, o.round, o.accS) := by
  k_defs [KSafePrice.interpolate_observation, interp]
  k_solve

/-- `compute_weighted_price`, input = first token: the second token comes out, amount =
    model `priceOf … (some .ab)` (aborts on a zero weighted first reserve) -/
theorem weighted_price_first (wa : WA) (amt first second : Nat) :
    KSafePrice.weighted_price amt first first second wa.w1 wa.w2 =
      (priceOf wa (some .ab) amt).map fun out => (second, 0, out) := by
  k_defs [KSafePrice.weighted_price, priceOf]
  k_solve

/-- input = second token (and not the first): the first token comes out, amount = `priceOf … (some .ba)` -/
theorem weighted_price_second (wa : WA) (amt first second : Nat) (hne : second ≠ first) :
    KSafePrice.weighted_price amt second first second wa.w1 wa.w2 =
      (priceOf wa (some .ba) amt).map fun out => (first, 0, out) := by
  k_defs [KSafePrice.weighted_price, priceOf]
  k_solve

/-- any other token aborts (`ERROR_BAD_INPUT_TOKEN`), as `priceOf … none` -/
theorem weighted_price_other (wa : WA) (amt tok first second : Nat) (h1 : tok ≠ first)
    (h2 : tok ≠ second) :
    KSafePrice.weighted_price amt tok first second wa.w1 wa.w2 = none ∧ priceOf wa none amt = none := by
  refine ⟨?_, rfl⟩
  k_defs [KSafePrice.weighted_price]
  k_solve

/-- the whole `getSafePrice` arithmetic after the two observations have been looked up: the source's
    `compute_weighted_amounts` then `compute_weighted_price` is the model's `weighted` then `priceOf` -/
theorem safe_price_runs_source (f l : Obs) (wa : WA) (amt out first second : Nat)
    (hw : weighted f l = some wa) (hp : priceOf wa (some .ab) amt = some out) :
    KSafePrice.compute_weighted_amounts f.acc1 f.accS f.acc2 f.w l.acc1 l.accS l.acc2 l.w =
      some (wa.w1, wa.w2, wa.wS) ∧
    KSafePrice.weighted_price amt first first second wa.w1 wa.w2 = some (second, 0, out) := by
  refine ⟨?_, ?_⟩
  · rw [compute_weighted_amounts_eq, hw]; rfl
  · rw [weighted_price_first, hp]; rfl

example : KSafePrice.compute_new_observation 15 100 200 50 1000 500 10 2000 7 =
    some (1500, 750, 15, 3000, 12) := by decide
example : KSafePrice.compute_new_observation 5 100 200 50 1000 500 10 2000 7 = none := by decide
example : KSafePrice.next_observation_index 65536 = some (1, 1) := by decide
example : KSafePrice.compute_weighted_amounts 100 0 200 5 400 90 800 8 = some (100, 200, 0) := by decide
example : KSafePrice.compute_weighted_amounts 100 10 200 5 400 100 800 8 = some (100, 200, 30) := by decide
example : KSafePrice.compute_weighted_amounts 100 10 200 5 400 100 800 5 = none := by decide
example : KSafePrice.weighted_price 10 1 1 2 100 300 = some (2, 0, 30) := by decide
example : KSafePrice.weighted_price 10 3 1 2 100 300 = none := by decide

end Mx.KSafePrice
