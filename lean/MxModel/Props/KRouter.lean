/-
  KRouter — the router's registry lookups as the SOURCE writes them
  (`dex/router/src/factory.rs::get_pair`, `dex/router/src/config.rs::check_is_pair_sc`) against the
  hand-written model `Core/Router.lean` (`getPair`, `checkIsPairSc`).

  `Gen/KRouter.lean` is regenerated on every run by `bin/gen-kernels` (group `Router`).  The map
  `pair_map : MapMapper<PairTokens, ManagedAddress>` is a parameter
  `pair_map : Nat → Nat → Option Nat` (first token, second token — the field order of the struct
  DECLARATION `PairTokens`, not of the literal that builds the key); an `Option` local is the pair
  `(otag o, oval o)`; `.unwrap_or_else(ManagedAddress::zero)` is `oval`.

  Property C14: `getPair` looks the pair up in both token orders; pause / resume / setFeeOn / setFeeOff /
  setSwapEnabledByUser / every swap hop start with `check_is_pair_sc`, which accepts an address only
  when the registry entry for the tokens THAT contract reports (in either order) is the address.
-/
import MxModel.Gen.KRouter
import MxModel.Props.C14
import MxModel.Lemmas.KTactic

namespace Mx.KRouter
open Mx Mx.Gen Mx.Router

/-- the model's registry seen as the source's map -/
def mapOf (m : Reg) : Nat → Nat → Option Nat := fun a b => lookup m (a, b)

/-- source `getPair(first, second)` = model `getPair`: the entry for `(first, second)`; when that
    is absent (or the zero address) the entry for `(second, first)`; the zero address when both are
    absent.  It never aborts. -/
theorem get_pair_eq (m : Reg) (a b : Tok) :
    KRouter.get_pair a (mapOf m) b = some (getPair m a b) := by
  unfold KRouter.get_pair getPair mapOf
  cases h1 : lookup m (a, b) <;> cases h2 : lookup m (b, a) <;>
    simp [oval, Option.getD] <;> split <;> simp_all

/-- closed form of the source's `check_is_pair_sc(address)` given the two token ids read from the
    storage of `address`: it passes exactly when the registry entry for `(t1, t2)` — or, ONLY when
    that one is absent, the entry for `(t2, t1)` — is `address` -/
theorem check_is_pair_sc_closed (m : Reg) (t1 t2 : Tok) (a : Addr) :
    KRouter.check_is_pair_sc t1 t2 a (mapOf m) =
      if lookup m (t1, t2) = some a ∨ (lookup m (t1, t2) = none ∧ lookup m (t2, t1) = some a)
      then some () else none := by
  unfold KRouter.check_is_pair_sc mapOf
  cases h1 : lookup m (t1, t2) with
  | none =>
    cases h2 : lookup m (t2, t1) with
    | none => simp [otag, oval, req, h1, h2]
    | some v =>
      by_cases hv : v = a
      · subst hv; simp [otag, oval, req, h1, h2]
      · have hv' : ¬ a = v := fun h => hv h.symm
        simp [otag, oval, req, hv, hv', h1, h2]
  | some v =>
    by_cases hv : v = a
    · subst hv; simp [otag, oval, req, h1]
    · have hv' : ¬ a = v := fun h => hv h.symm
      simp [otag, oval, req, hv, hv', h1]

/-- source `check_is_pair_sc` = model `checkIsPairSc` on every address that IS a pair contract
    (`w a = some p`; the source reads the token ids `p.t1`, `p.t2` from that contract's storage) -/
theorem check_is_pair_sc_eq (m : Reg) (w : Pairs) (a : Addr) (p : PairRec) (hw : w a = some p) :
    KRouter.check_is_pair_sc p.t1 p.t2 a (mapOf m) = checkIsPairSc m w a := by
  rw [check_is_pair_sc_closed]
  unfold checkIsPairSc
  rw [hw]
  cases h1 : lookup m (p.t1, p.t2) with
  | none =>
    cases h2 : lookup m (p.t2, p.t1) with
    | none => simp [req, h1, h2]
    | some v => by_cases hv : v = a <;> simp [req, hv, h1, h2]
  | some v => by_cases hv : v = a <;> simp [req, hv, h1]

/-- every address the model's check accepts passes the source's check with the token ids of the
    contract deployed there -/
theorem model_check_passes_source {m : Reg} {w : Pairs} {a : Addr}
    (h : checkIsPairSc m w a = some ()) :
    ∃ p, w a = some p ∧ KRouter.check_is_pair_sc p.t1 p.t2 a (mapOf m) = some () := by
  cases hw : w a with
  | none => simp [checkIsPairSc, hw] at h
  | some p => exact ⟨p, rfl, by rw [check_is_pair_sc_eq m w a p hw]; exact h⟩

/-- **on every reachable state of the router the SOURCE's `getPair` is order-insensitive**
    (`C14.getPair_symm` carried over to the translated function) -/
theorem source_get_pair_symm (owner self : Addr) (template : Bool) (foreign : List PairRec)
    (funds : Addr → Nat → Nat) (ops : List Op) (a b : Tok) :
    KRouter.get_pair a (mapOf (run (init owner self template foreign funds) ops).pairMap) b =
      KRouter.get_pair b (mapOf (run (init owner self template foreign funds) ops).pairMap) a := by
  rw [get_pair_eq, get_pair_eq, C14.getPair_symm]

/-- **on every reachable state the SOURCE's `check_is_pair_sc`, run on a deployed pair contract,
    accepts exactly the addresses that are registry entries** (`C14.only_registered_iff`) -/
theorem source_check_iff_registered (owner self : Addr) (template : Bool) (foreign : List PairRec)
    (funds : Addr → Nat → Nat) (ops : List Op) (a : Addr) (p : PairRec)
    (hw : (run (init owner self template foreign funds) ops).pairs a = some p) :
    KRouter.check_is_pair_sc p.t1 p.t2 a
        (mapOf (run (init owner self template foreign funds) ops).pairMap) = some () ↔
      a ∈ (run (init owner self template foreign funds) ops).pairMap.map Prod.snd := by
  rw [check_is_pair_sc_eq _ _ a p hw]
  exact C14.only_registered_iff owner self template foreign funds ops a

/-! non-vacuity: a two-entry registry, both orders, an unregistered address, the reverse entry being
    consulted only when the direct one is absent -/
example : KRouter.get_pair 1 (mapOf [((1, 2), 70), ((3, 4), 71)]) 2 = some 70 := by decide
example : KRouter.get_pair 2 (mapOf [((1, 2), 70), ((3, 4), 71)]) 1 = some 70 := by decide
example : KRouter.get_pair 1 (mapOf [((1, 2), 70), ((3, 4), 71)]) 4 = some 0 := by decide
example : KRouter.check_is_pair_sc 1 2 70 (mapOf [((1, 2), 70), ((3, 4), 71)]) = some () := by decide
example : KRouter.check_is_pair_sc 2 1 70 (mapOf [((1, 2), 70), ((3, 4), 71)]) = some () := by decide
example : KRouter.check_is_pair_sc 1 2 71 (mapOf [((1, 2), 70), ((3, 4), 71)]) = none := by decide
example : KRouter.check_is_pair_sc 1 2 70 (mapOf [((1, 2), 99), ((2, 1), 70)]) = none := by decide

end Mx.KRouter
