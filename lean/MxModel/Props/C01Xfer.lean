/-
  C01 (per-account ledger, plain transfers) — "… the LP total supply it reports equals the sum of
  LP tokens held by ALL accounts …" when LP tokens and pool tokens also move between accounts by
  plain ESDT transfers that never touch the pair (`LOp.xfer src dst token amount`).

  Since `LOp` contains `xfer`, every theorem of Props/C01Ledger.lean (`inv_run`,
  `lp_supply_eq_sum_of_holdings`, `locked_minimum_held_by_pair`, `token_conservation`,
  `locked_tokens_backed`, …) already quantifies over histories with arbitrary transfers in
  between the calls.  This file states what a transfer itself does, exactly when it succeeds,
  and that LP tokens obtained by transfer redeem like minted ones.

  The harness op `xfer u_i u_j LP|A|B amount` performs the same transfer on the real ESDT
  balances; the wallets are compared after every transaction (`acct=`).
-/
import MxModel.Lemmas.PairLedgerInv

namespace Mx.C01Xfer
open Mx.Pair Mx.PairLedger

/-- a plain transfer succeeds exactly when the amount is positive, the sender exists and holds
    at least the amount of that token, and the receiver exists — there is no other guard -/
theorem xfer_succeeds_iff (l : L) (src dst : Nat) (t : Tok) (x : Nat) :
    (stepL l (.xfer src dst t x)).isSome = true ↔
      0 < x ∧ dst < l.accts.length ∧ ∃ s, l.accts[src]? = some s ∧ x ≤ s.bal t := by
  constructor
  · intro h
    obtain ⟨⟨l', o⟩, h⟩ := Option.isSome_iff_exists.mp h
    obtain ⟨accts', ha, _⟩ := stepL_xfer_spec h
    obtain ⟨s, s', d, hx, hs, hd, hdst, _⟩ := xferAccts_spec ha
    refine ⟨hx, ?_, s, hs, (debit_spec hd).1⟩
    rcases Nat.lt_or_ge dst l.accts.length with h' | h'
    · exact h'
    · rw [List.getElem?_eq_none_iff.mpr (by simpa using h')] at hdst; simp at hdst
  · rintro ⟨hx, hd, s, hs, hb⟩
    have hdeb : ∃ s', s.debit t x = some s' := by
      cases t <;> simp only [Acct.bal] at hb <;> simp [Acct.debit, sub?, hb]
    obtain ⟨s', hs'⟩ := hdeb
    have hlen : dst < (l.accts.set src s').length := by simpa using hd
    simp [stepL, xferAccts, req, hx, hs, hs', List.getElem?_eq_getElem hlen]

/-- what a successful transfer of `x` units of token `t` from `src` to `dst` does: the pair,
    the pair contract's wallet and the created supply are untouched; no account other than
    `src` and `dst` changes; `src` holds exactly `x` less of `t` and `dst` exactly `x` more,
    every other holding of the two (the other tokens, LOCKED tokens) is unchanged; a transfer
    to oneself changes nothing -/
theorem xfer_effect {l l' : L} {src dst : Nat} {t : Tok} {x : Nat} {o : Out}
    (h : stepL l (.xfer src dst t x) = some (l', o)) :
    l'.p = l.p ∧ l'.pairA = l.pairA ∧ l'.pairB = l.pairB ∧ l'.pairLp = l.pairLp ∧
    l'.supplyA = l.supplyA ∧ l'.supplyB = l.supplyB ∧ l'.accts.length = l.accts.length ∧
    (∀ k, k ≠ src → k ≠ dst → l'.accts[k]? = l.accts[k]?) ∧
    ∃ s d, l.accts[src]? = some s ∧ l.accts[dst]? = some d ∧ 0 < x ∧ x ≤ s.bal t ∧
      (src = dst → l'.accts = l.accts) ∧
      (src ≠ dst → ∃ s' d', l'.accts[src]? = some s' ∧ l'.accts[dst]? = some d' ∧
        s'.bal t = s.bal t - x ∧ d'.bal t = d.bal t + x ∧
        (∀ t', t' ≠ t → s'.bal t' = s.bal t' ∧ d'.bal t' = d.bal t') ∧
        s'.lkA = s.lkA ∧ s'.lkB = s.lkB ∧ d'.lkA = d.lkA ∧ d'.lkB = d.lkB) := by
  obtain ⟨accts', ha, rfl⟩ := stepL_xfer_spec h
  obtain ⟨s, s', d0, hx, hs, hd, hdst, rfl⟩ := xferAccts_spec ha
  obtain ⟨hb, db, d1, d2, d3, d4, d5⟩ := debit_spec hd
  obtain ⟨cb, c1, c2, c3, c4, c5⟩ := credit_spec d0 t x
  refine ⟨rfl, rfl, rfl, rfl, rfl, rfl, by simp, ?_, ?_⟩
  · intro k h1 h2
    simp only [getElem?_set_ne' _ _ (Ne.symm h2), getElem?_set_ne' _ _ (Ne.symm h1)]
  · by_cases e : src = dst
    · subst e
      rw [getElem?_set_self' _ _ _ hs] at hdst
      obtain rfl := Option.some.inj hdst
      refine ⟨s, s, hs, hs, hx, hb, fun _ => ?_, fun hne => absurd rfl hne⟩
      have hback : s'.credit t x = s := by
        cases t <;> simp only [Acct.debit, Option.bind_eq_bind, Option.bind_eq_some_iff,
          sub?_eq_some, Option.pure_def, Option.some.injEq] at hd <;>
          obtain ⟨v, ⟨h1, rfl⟩, rfl⟩ := hd <;>
          simp only [Acct.credit, Nat.sub_add_cancel h1]
      show ((l.accts.set src s').set src (s'.credit t x)) = l.accts
      rw [hback, List.set_set]
      apply List.ext_getElem?
      intro k
      by_cases e : src = k
      · subst e; rw [getElem?_set_self' _ _ _ hs, hs]
      · rw [getElem?_set_ne' _ _ e]
    · rw [getElem?_set_ne' _ _ e] at hdst
      refine ⟨s, d0, hs, hdst, hx, hb, fun h => absurd h e, fun _ => ?_⟩
      refine ⟨s', d0.credit t x, ?_, ?_, db, cb, ?_, d4, d5, c4, c5⟩
      · show ((l.accts.set src s').set dst (d0.credit t x))[src]? = some s'
        rw [getElem?_set_ne' _ _ (Ne.symm e)]
        exact getElem?_set_self' _ _ _ hs
      · show ((l.accts.set src s').set dst (d0.credit t x))[dst]? = some (d0.credit t x)
        have : (l.accts.set src s')[dst]? = some d0 := by rw [getElem?_set_ne' _ _ e]; exact hdst
        exact getElem?_set_self' _ _ _ this
      · intro t' ht'
        cases t <;> cases t' <;> simp only [ne_eq, not_true_eq_false, reduceCtorEq,
          not_false_eq_true, if_true, if_false, Acct.bal] at * <;> omega

/-- a transfer conserves every column total of the ledger: the sums of first-token,
    second-token, LP, LOCKED-first and LOCKED-second holdings over all accounts are unchanged
    (so the supply identities of C01 are insensitive to who holds the tokens) -/
theorem xfer_conserves {l l' : L} {src dst : Nat} {t : Tok} {x : Nat} {o : Out}
    (h : stepL l (.xfer src dst t x) = some (l', o)) :
    sumOf (·.a) l'.accts = sumOf (·.a) l.accts ∧ sumOf (·.b) l'.accts = sumOf (·.b) l.accts ∧
    sumOf (·.lp) l'.accts = sumOf (·.lp) l.accts ∧
    sumOf (·.lkA) l'.accts = sumOf (·.lkA) l.accts ∧
    sumOf (·.lkB) l'.accts = sumOf (·.lkB) l.accts := by
  obtain ⟨accts', ha, rfl⟩ := stepL_xfer_spec h
  obtain ⟨e1, e2, e3, e4, e5, _⟩ := xferAccts_sums ha
  exact ⟨e1, e2, e3, e4, e5⟩

/-- After every history of pair calls, faucet top-ups AND plain transfers of LP / pool tokens
    between any accounts: the LP supply the pair reports is exactly the sum of the LP tokens
    in all accounts' wallets plus the 1000 the pair contract holds once liquidity exists, and
    both pool tokens are conserved across all wallets and sinks.  (Restates the C01Ledger
    theorems for the enlarged operation set; the quantifier `ops : List LOp` now ranges over
    histories containing `LOp.xfer`.) -/
theorem supply_identities_with_transfers (total special : Nat) (adder : Option Nat) (cap : Nat)
    (funds : List (Nat × Nat)) (ops : List LOp) :
    let l := runL (initL total special adder cap funds) ops
    l.p.S = sumOf (·.lp) l.accts + l.pairLp ∧
    (0 < l.p.S → l.pairLp = MINLIQ) ∧ (l.p.S = 0 → l.pairLp = 0) ∧
    l.supplyA = sumOf (·.a) l.accts + l.pairA + l.p.burn1 + l.p.coll1 + l.p.ext1 + l.p.slk1 ∧
    l.supplyB = sumOf (·.b) l.accts + l.pairB + l.p.burn2 + l.p.coll2 + l.p.ext2 + l.p.slk2 := by
  intro l
  have h : LInv l := runL_inv ops (initL_inv total special adder cap funds)
  have h1 := h.pairLp
  refine ⟨h.lpSum, fun hS => ?_, fun hS => ?_, h.consA, h.consB⟩
  · have := h.inv.ownPos hS; omega
  · have := h.inv.ownZero hS; omega

/-- non-vacuity: account 1 never deposits; it receives LP and first-token by plain transfers
    from account 0 and redeems the received LP.  A transfer of more than the sender holds and a
    zero transfer are rejected.  All identities hold with three LP holders' wallets live. -/
example :
    let l0 := runL (initL 300 50 none 8 [(5000000, 5000000), (100, 100), (0, 0)])
      [.call 0 (.cfg (.setState .active)), .call 0 (.addLiq 1000000 2000000 1 1)]
    let l := runL l0
      [.xfer 0 1 .lp 400000, .xfer 0 1 .lp 600000, .xfer 0 2 .lp 0, .xfer 1 2 .lp 150000,
       .xfer 0 1 .a 77, .xfer 1 1 .b 5, .call 1 (.removeLiq 100000 1 1), .xfer 2 0 .lp 50000]
    (l0.accts.map (·.lp)) = [999000, 0, 0] ∧ (l.accts.map (·.lp)) = [649000, 150000, 100000] ∧
    l.p.S = 900000 ∧ l.pairLp = 1000 ∧ sumOf (·.lp) l.accts + 1000 = l.p.S ∧
    (l.accts.map (·.a)) = [3999923, 100177 + 0, 0] ∧ (l.accts.map (·.b)) = [3000000, 200100, 0] ∧
    (stepL l (.xfer 1 0 .lp 150001)).isSome = false ∧ (stepL l (.xfer 1 0 .lp 150000)).isSome = true := by
  decide

end Mx.C01Xfer
