/-
  C10 — Weekly fees: claimers get their energy share once, only for the four most recent
  completed weeks, never more than collected; the total-energy denominator equals the sum of the
  participants' recorded energies decayed to that week.

  Models: Core/Weekly.lean (the shared weekly-rewards-splitting module) and
  Core/FeesCollector.lean (fees collector; the energy factory is an input, see notes/fees.md).
  Ghost state of the model the statements talk about: `s.a.paid w t` (running sum of payments made
  for week `w` in token `t`), `s.a.collected w t` (what was frozen for that week), `s.bal t` (the
  collector's real balance).  Only property theorems here; lemmas are in Lemmas/Weekly*.lean and
  Lemmas/Fees*.lean.
-/
import MxModel.Lemmas.FeesLedger

namespace Mx.C10

open Mx.Weekly Mx.Fees

/-! ### share formula -/

/-- **share formula** (one claimed week).  In `claim_single` for the week `a.p.week`, with the
    user's recorded energy decayed to that week `e` and the week's total energy `E`: nothing is
    paid if `e = 0` or `E = 0`; otherwise the user receives, for every entry `(tok, total)` of
    the week's frozen total rewards, exactly `⌊total · e / E⌋` (entries that round to 0 dropped). -/
theorem share_formula {a a' : ClaimAcc Acc} (h : claimSingle feesRewards a = some a') :
    let e := a.p.energy.getEnergyAmount
    let E := a.g.totalEnergy a.p.week
    a'.rewards = a.rewards ++
      (if e = 0 ∨ E = 0 then [] else sharesOf (a'.g.totalRewards a.p.week) e E) := by
  intro e E
  obtain ⟨r, hr, _, hrew⟩ := claimSingle_spec h
  rw [hrew]
  rcases feesRewards_spec hr with ⟨hz, _, _, rfl⟩ | ⟨he, hE, hr', _⟩
  · simp [e, E, hz]
  · have : ¬ (e = 0 ∨ E = 0) := by simp [e, E, he, hE]
    simp only [this, if_false]
    rw [hr']

/-- every single payment of the collector's reward hook is `⌊total · e / E⌋ > 0` for an entry
    `(tok, total)` of the frozen totals of that week -/
theorem share_formula_pointwise {g g' : Weekly.St} {a a' : Acc} {week e E : Nat}
    {r : List (Tok × Nat)} (h : feesRewards g a week e E = some (g', a', r)) :
    ∀ t p, (t, p) ∈ r → ∃ total, (t, total) ∈ g'.totalRewards week ∧ p = total * e / E ∧ 0 < p :=
  feesRewards_payment h

/-- the energy used for the `k`-th week after the recorded one is the recorded energy decayed by
    `7·k` epochs: `max 0 (amount − 7 · lockedTokens · k)` -/
theorem energy_for_week (p : ClaimProgress) (k : Nat) :
    ((ClaimProgress.advanceWeek^[k]) p).week = p.week + k ∧
    ((ClaimProgress.advanceWeek^[k]) p).energy.getEnergyAmount =
      (p.energy.amount - ((7 * p.energy.totalLocked * k : Nat) : Int)).toNat := by
  rw [ClaimProgress.iterate_advanceWeek]
  exact ⟨rfl, Energy.after_getEnergyAmount _ _⟩

/-! ### once, and only the four most recent completed weeks -/

/-- **claim once.**  After a successful claim in week `W` for `orig`:
    (1) `orig`'s progress is at week `W` (or gone, when `orig` has no energy left);
    (2) the only weeks whose paid-ledger moved are weeks `w` with `W − 4 ≤ w < W` that are not
        before the week of `orig`'s previous progress — in particular a first-time claimer is
        paid nothing; nobody else's progress is touched. -/
theorem claim_once {s s' : Fees.St} {orig W : Nat} {o : Out} (hW : s.week = some W)
    (h : claimCore s orig = some (s', o)) :
    (s'.w.progress orig = none ∨ ∃ e, s'.w.progress orig = some ⟨e, W⟩) ∧
    (∀ u, u ≠ orig → s'.w.progress u = s.w.progress u) ∧
    (∀ w t, s'.a.paid w t ≠ s.a.paid w t →
      W ≤ w + 4 ∧ w < W ∧ ∃ p, s.w.progress orig = some p ∧ p.week ≤ w) :=
  claimCore_once hW h

/-- **never twice.**  Two successful claims for the same user, the second one at any later
    time: the second claim moves the ledger only for weeks `≥` the week of the first claim —
    every week the first claim could have paid (`< W₁`) is out of its reach. -/
theorem never_twice {s1 s1' s2 s2' : Fees.St} {orig W1 : Nat} {o1 o2 : Out}
    (hW1 : s1.week = some W1) (h1 : claimCore s1 orig = some (s1', o1))
    (hsame : s2.w.progress orig = s1'.w.progress orig)
    (h2 : claimCore s2 orig = some (s2', o2)) :
    ∀ w t, s2'.a.paid w t ≠ s2.a.paid w t → W1 ≤ w := by
  intro w t hne
  obtain ⟨W2, hW2⟩ : ∃ W2, s2.week = some W2 := by
    obtain ⟨W, _, hW, _⟩ := claimCore_spec h2; exact ⟨W, hW⟩
  obtain ⟨_, _, p, hp, hle⟩ := (claim_once hW2 h2).2.2 w t hne
  rcases (claim_once hW1 h1).1 with hn | ⟨e, he⟩
  · rw [hsame, hn] at hp; cases hp
  · rw [hsame, he] at hp
    cases hp
    exact hle

/-- at most four weeks are walked by one claim -/
theorem four_weeks_max {σ : Type} {rw : RewardFn σ} {g g' : Weekly.St} {c c' : σ} {user W : Nat}
    {cur : Energy} {r : List (Tok × Nat)} (h : claimMulti rw g c user W cur = some (g', c', r)) :
    ∃ n a0 a, n ≤ 4 ∧ claimLoop rw n a0 = some a ∧ a0.p.week + n = W ∧ r = a.rewards := by
  obtain ⟨g1, a, _, hle, ha, _, _, hr⟩ := claimMulti_spec h
  obtain ⟨hw1, hw2, _⟩ := loop_window _ W hle
  exact ⟨_, _, a, hw2, ha, hw1, hr⟩

/-! ### never more than collected -/

/-- **week sum bound (arithmetic).**  If the energies `e u` the claimers `l` are paid for in one
    week sum to at most the week's total energy `E`, then their shares of `total` sum to at most
    `total` — whatever the amounts. -/
theorem week_sum_bound (l : List Nat) (total E : Nat) (e : Nat → Nat) (h : usum l e ≤ E) :
    usum l (fun u => share total (e u) E) ≤ total :=
  usum_share_le_total l total E e h

/-- the energy user `u` is paid with for week `w` according to its recorded progress -/
def energyFor (g : Weekly.St) (u w : Nat) : Nat :=
  match g.progress u with
  | some p => (p.energy.after (w - p.week)).getEnergyAmount
  | none => 0

/-- **global energy invariant** (the denominator).  After ANY history of the world — deposits,
    claims, energy changes reported by the factory, `updateEnergyForUser`, configuration changes,
    idle periods — the total energy of the last globally updated week equals the sum, over all
    users that ever had progress, of their recorded energies decayed to that week. -/
theorem global_energy_inv (epoch lockEpochs : Nat) (known : List Tok) (contracts whitelist : List Nat)
    (ops : List Op) :
    let s := run (init epoch lockEpochs known contracts whitelist) ops
    s.w.totalEnergy s.w.lastGlobalUpdateWeek =
      usum s.w.users (fun u => energyFor s.w u s.w.lastGlobalUpdateWeek) := by
  intro s
  have hI : GInv s.w := run_GInv ops (init_GInv epoch lockEpochs known contracts whitelist)
  rcases hI with hp | ⟨o, hr⟩
  · rw [hp.energy, hp.noUsers]; rfl
  · rw [hr.l.energy]
    apply usum_congr
    intro u _
    unfold energyFor lotAt
    cases hpu : s.w.progress u with
    | none => simp [Lot.contrib]
    | some p =>
      simp only [Lot.contrib]
      rw [Energy.after_getEnergyAmount, toNat_sub_nat]
      rfl

/-- the same invariant in its full "lots" form (totals of tokens, every bucket, orphan lots):
    see `Mx.Weekly.GInv`; it holds after every history. -/
theorem global_lots_inv (epoch lockEpochs : Nat) (known : List Tok) (contracts whitelist : List Nat)
    (ops : List Op) : GInv (run (init epoch lockEpochs known contracts whitelist) ops).w :=
  run_GInv ops (init_GInv epoch lockEpochs known contracts whitelist)

/-- the invariant is inductive for the shared module itself, for every reward function that
    leaves the module's bookkeeping alone — this is what the farm models reuse -/
theorem global_lots_inv_claimMulti {σ : Type} {rw : RewardFn σ} (hrw : RwFrame rw)
    {g g' : Weekly.St} {c c' : σ} {user W : Nat} {cur : Energy} {r : List (Tok × Nat)}
    (hW : 1 ≤ W) (hI : GInv g) (h : claimMulti rw g c user W cur = some (g', c', r)) : GInv g' :=
  claimMulti_GInv hrw hW hI h

/-- **week sum bound for the running week.**  After any history, if every user were paid for the
    last updated week with its currently recorded energy, the payments out of any amount `total`
    would sum to at most `total`. -/
theorem week_sum_bound_current (epoch lockEpochs : Nat) (known : List Tok)
    (contracts whitelist : List Nat) (ops : List Op) (total : Nat) :
    let s := run (init epoch lockEpochs known contracts whitelist) ops
    usum s.w.users (fun u => share total (energyFor s.w u s.w.lastGlobalUpdateWeek)
      (s.w.totalEnergy s.w.lastGlobalUpdateWeek)) ≤ total := by
  intro s
  apply usum_share_le_total
  exact Nat.le_of_eq (global_energy_inv epoch lockEpochs known contracts whitelist ops).symm

/-- the energy user `u` can still be paid with for week `w`: its recorded energy decayed to `w`
    if its progress has not passed `w` yet, else 0 -/
def claimableEnergy (g : Weekly.St) (u w : Nat) : Nat := eForP g.progress u w

/-- **energy bound for EVERY week.**  After any history and for every week `w` — running,
    completed, or long gone — either no total was recorded for `w` (then nothing is paid for it),
    or the recorded energies, decayed to `w`, of all the users that can still claim `w` sum to at
    most `totalEnergyForWeek(w)`: the hypothesis of `week_sum_bound` always holds. -/
theorem energy_sum_bound (epoch lockEpochs : Nat) (known : List Tok) (contracts whitelist : List Nat)
    (ops : List Op) (w : Nat) :
    let s := run (init epoch lockEpochs known contracts whitelist) ops
    s.w.totalEnergy w = 0 ∨
      usum s.w.users (fun u => claimableEnergy s.w u w) ≤ s.w.totalEnergy w :=
  (run_WInv ops (init_WInv epoch lockEpochs known contracts whitelist)).2 w

/-- **week sum bound for every week.**  After any history, for every week `w` and every amount
    `total`: the shares `⌊total · e_u(w) / E(w)⌋` of all users that can still claim week `w`
    sum to at most `total`.  (Together with `claim_once` — a claimer is paid for `w` once and
    then drops out of this sum — no week can pay out more than its total.) -/
theorem week_sum_bound_all_weeks (epoch lockEpochs : Nat) (known : List Tok)
    (contracts whitelist : List Nat) (ops : List Op) (w total : Nat) :
    let s := run (init epoch lockEpochs known contracts whitelist) ops
    usum s.w.users (fun u => share total (claimableEnergy s.w u w) (s.w.totalEnergy w)) ≤ total :=
  (run_WInv ops (init_WInv epoch lockEpochs known contracts whitelist)).2.shares_le w total

/-- **never more than collected.**  After ANY history, for every week `w` and token `t`, the
    running sum of all payments made for week `w` in token `t` is at most what was frozen for that
    week (`collected`, the content of `totalRewardsForWeek(w)` when it was first claimed — which is
    what had been deposited for `w`).  In fact the stronger ledger relation holds: payments so far
    plus the shares of everybody who can still claim the week stay within the frozen total. -/
theorem week_sum_bound_history (epoch lockEpochs : Nat) (known : List Tok)
    (contracts whitelist : List Nat) (ops : List Op) (w : Nat) (t : Tok) :
    let s := run (init epoch lockEpochs known contracts whitelist) ops
    s.a.paid w t + usum s.w.users
        (fun u => share (s.a.collected w t) (claimableEnergy s.w u w) (s.w.totalEnergy w)) ≤
      s.a.collected w t :=
  (run_AllInv ops (init_AllInv epoch lockEpochs known contracts whitelist)).l.ledger w t

/-- corollary in the property's words: the sum paid out for a week never exceeds what was
    collected for it -/
theorem paid_le_collected (epoch lockEpochs : Nat) (known : List Tok)
    (contracts whitelist : List Nat) (ops : List Op) (w : Nat) (t : Tok) :
    (run (init epoch lockEpochs known contracts whitelist) ops).a.paid w t ≤
      (run (init epoch lockEpochs known contracts whitelist) ops).a.collected w t :=
  (run_AllInv ops (init_AllInv epoch lockEpochs known contracts whitelist)).l.paid_le w t

/-! ### the collector can pay -/

/-- **conservation.**  After any history, for every non-locked token: the collector's balance
    plus everything ever paid out equals everything ever deposited (still accumulating or
    already frozen), summed over the weeks up to now. -/
theorem collector_conservation (epoch lockEpochs : Nat) (known : List Tok)
    (contracts whitelist : List Nat) (ops : List Op) (t : Tok) (ht : t ≠ lockedTok) (K : Nat) :
    let s := run (init epoch lockEpochs known contracts whitelist) ops
    curWeek s < K → s.bal t + paidAll s t K = owedAll s t K := by
  intro s hK
  exact (run_BalInv ops (init_BalInv epoch lockEpochs known contracts whitelist)).bal t ht K hK

/-- **collector solvent.**  After ANY history, the balance of every non-locked token covers
    everything still unclaimed: the fees accumulating for the running weeks plus the unpaid
    remainder of every frozen week (it is in fact equal to it, see `collector_conservation`). -/
theorem collector_solvent (epoch lockEpochs : Nat) (known : List Tok)
    (contracts whitelist : List Nat) (ops : List Op) (t : Tok) (ht : t ≠ lockedTok) (K : Nat) :
    let s := run (init epoch lockEpochs known contracts whitelist) ops
    curWeek s < K →
    usum (List.range K) (fun w => s.a.accumulated w t + (s.a.collected w t - s.a.paid w t)) ≤ s.bal t := by
  intro s hK
  have h := collector_conservation epoch lockEpochs known contracts whitelist ops t ht K hK
  exact unclaimed_le_bal s t K
    (fun w => paid_le_collected epoch lockEpochs known contracts whitelist ops w t) h

/-- a failed transaction leaves the state untouched (atomicity as modelled) -/
theorem failed_tx_no_effect (s : Fees.St) (op : Op) (h : step s op = none) : run s [op] = s := by
  simp [run, h]

/-! ### non-vacuity -/

/-- a concrete history: two users with energy register in week 1, fees arrive, a week passes, the
    first user claims: it is paid its quarter of the week's fees, the total energy of the new
    week is the decayed sum, the ledger moved, the balance covers the rest.  (Kept short: kernel
    evaluation of the function-valued state grows quickly with the number of claims.) -/
example :
    let e1 : Energy := ⟨7000, 5, 10⟩
    let e2 : Energy := ⟨21000, 5, 10⟩
    let s := run (init 5 1440 [1, 2] [101] [201])
      [.setEnergy 1 e1, .setEnergy 2 e2, .claim 1 none, .claim 2 none, .deposit 101 1 0 1000,
       .advance 7, .claim 1 none]
    s.w.lastGlobalUpdateWeek = 2 ∧ s.w.totalEnergy 1 = 28000 ∧ s.w.totalEnergy 2 = 27860 ∧
    s.a.paid 1 1 = 250 ∧ s.a.collected 1 1 = 1000 ∧ s.bal 1 = 750 ∧ s.w.users = [1, 2] := by
  decide

end Mx.C10
