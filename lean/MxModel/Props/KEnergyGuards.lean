/-
  KEnergyGuards — the HEADS of the energy-factory endpoints (the `require_not_paused` switch of the
  framework's pause module, the `require_is_listed_lock_option` check, the whitelist / amount checks
  in front of the arithmetic) as the SOURCE writes them, against the guards of `Core/Energy.lean`.

  Generated definitions (`Gen/KEnergyFactory.lean`, group `EnergyFactory` of kernels.json), each the
  run of statements from the start of the endpoint body up to the first statement that touches the
  payment / the caller:

    * `lock_guard`           `lockTokens`                       not paused, listed option
    * `unlock_guard`         `unlockTokens`                     not paused
    * `extend_guard`         `extendLockPeriod` (proxy-dex)     not paused, listed option, caller whitelisted
    * `unlock_early_guard`   `unlockEarly`                      not paused
    * `reduce_guard`         `reduceLockPeriod`                 not paused, listed option
    * `reduce_common_guard`  `reduce_lock_period_common`        not paused
    * `merge_guard`          `mergeTokens`                      not paused
    * `lock_virtual_guard`   `lockVirtual`                      not paused, base asset, amount > 0, listed option

  `self.require_not_paused()` is a method of `multiversx_sc_modules::pause` (outside /repo); the
  translator inlines its quoted body (`require!(!paused_status)`), so DROPPING the call from an
  endpoint changes the generated definition.  `require_is_listed_lock_option` is passed in as an
  opaque callee and instantiated here with its own translation (`Gen/KLoops.is_listed_lock_option`).

  Properties: C19 (pause switch gates every fund-moving endpoint of the factory), C09 (only listed
  lock options).
-/
import MxModel.Gen.KEnergyFactory
import MxModel.Core.Energy
import MxModel.Props.KLoops
import MxModel.Lemmas.KTactic

namespace Mx.KEnergyGuards
open Mx Mx.Gen Mx.Energy

/-- the translated `require_is_listed_lock_option` on the stored options, in the shape the guard
    fragments expect of their opaque callee (`Nat → Option Nat`, the value is ignored) -/
def listedSrc (opts : List Opt) : Nat → Option Nat :=
  fun e => (KLoops.is_listed_lock_option e (opts.map (·.1))).map (fun _ => 0)

theorem listedSrc_eq (opts : List Opt) (e : Nat) :
    listedSrc opts e = if isListed opts e = true then some 0 else none := by
  unfold listedSrc
  rw [KLoops.is_listed_lock_option_eq]
  split <;> rfl

/-! ### closed forms of the eight heads -/

/-- head of `lockTokens`: passes exactly when the factory is not paused and the lock period is a
    listed option -/
theorem lock_guard_eq (paused : Bool) (opts : List Opt) (e : Nat) :
    KEnergyFactory.lock_guard e paused (listedSrc opts) =
      if paused = false ∧ isListed opts e = true then some () else none := by
  k_defs [KEnergyFactory.lock_guard, listedSrc_eq]
  cases paused <;> cases isListed opts e <;> simp

/-- heads of `unlockTokens`, `unlockEarly`, `reduce_lock_period_common`, `mergeTokens`: the pause
    switch alone -/
theorem pause_only_guards_eq (paused : Bool) :
    KEnergyFactory.unlock_guard paused = (if paused = false then some () else none) ∧
    KEnergyFactory.unlock_early_guard paused = (if paused = false then some () else none) ∧
    KEnergyFactory.reduce_common_guard paused = (if paused = false then some () else none) ∧
    KEnergyFactory.merge_guard paused = (if paused = false then some () else none) := by
  refine ⟨?_, ?_, ?_, ?_⟩
  · k_defs [KEnergyFactory.unlock_guard] <;> try (cases paused <;> simp)
  · k_defs [KEnergyFactory.unlock_early_guard] <;> try (cases paused <;> simp)
  · k_defs [KEnergyFactory.reduce_common_guard] <;> try (cases paused <;> simp)
  · k_defs [KEnergyFactory.merge_guard] <;> try (cases paused <;> simp)

/-- head of `extendLockPeriod`: not paused, listed option, caller in the token-transfer whitelist -/
theorem extend_guard_eq (c e : Nat) (paused wl : Bool) (opts : List Opt) :
    KEnergyFactory.extend_guard c e paused (listedSrc opts) wl =
      if paused = false ∧ isListed opts e = true ∧ wl = true then some () else none := by
  k_defs [KEnergyFactory.extend_guard, listedSrc_eq]
  cases paused <;> cases isListed opts e <;> cases wl <;> simp

/-- head of `reduceLockPeriod`: not paused and the NEW period is a listed option -/
theorem reduce_guard_eq (paused : Bool) (opts : List Opt) (e : Nat) :
    KEnergyFactory.reduce_guard e paused (listedSrc opts) =
      if paused = false ∧ isListed opts e = true then some () else none := by
  k_defs [KEnergyFactory.reduce_guard, listedSrc_eq]
  cases paused <;> cases isListed opts e <;> simp

/-- head of `lockVirtual`: not paused, the token is the base asset, a positive amount, a listed option -/
theorem lock_virtual_guard_eq (amt e : Nat) (base paused : Bool) (opts : List Opt) :
    KEnergyFactory.lock_virtual_guard amt base e paused (listedSrc opts) =
      if paused = false ∧ base = true ∧ 0 < amt ∧ isListed opts e = true then some () else none := by
  k_defs [KEnergyFactory.lock_virtual_guard, listedSrc_eq]
  cases paused <;> cases base <;> cases isListed opts e <;> by_cases h : 0 < amt <;> simp [h]

/-! ### the pause switch gates every endpoint (C19) -/

/-- **paused factory: the head of every one of the eight endpoints aborts, for ALL arguments, all
    stored options and whatever the listed-option check would answer** -/
theorem source_heads_block_when_paused (amt c e : Nat) (b wl : Bool) (f : Nat → Option Nat) :
    KEnergyFactory.lock_guard e true f = none ∧
    KEnergyFactory.unlock_guard true = none ∧
    KEnergyFactory.extend_guard c e true f wl = none ∧
    KEnergyFactory.unlock_early_guard true = none ∧
    KEnergyFactory.reduce_guard e true f = none ∧
    KEnergyFactory.reduce_common_guard true = none ∧
    KEnergyFactory.merge_guard true = none ∧
    KEnergyFactory.lock_virtual_guard amt b e true f = none := by
  refine ⟨?_, ?_, ?_, ?_, ?_, ?_, ?_, ?_⟩
  -- (`cases f e`: the pause check need not be the FIRST statement of the head)
  · k_defs [KEnergyFactory.lock_guard] <;> try (cases f e <;> simp)
  · k_defs [KEnergyFactory.unlock_guard]
  · k_defs [KEnergyFactory.extend_guard] <;> try (cases f e <;> simp)
  · k_defs [KEnergyFactory.unlock_early_guard]
  · k_defs [KEnergyFactory.reduce_guard] <;> try (cases f e <;> simp)
  · k_defs [KEnergyFactory.reduce_common_guard]
  · k_defs [KEnergyFactory.merge_guard]
  · k_defs [KEnergyFactory.lock_virtual_guard] <;> try (cases f e <;> simp)

/-- **an unlisted lock period is refused by `lockTokens`, `extendLockPeriod`, `reduceLockPeriod` and
    `lockVirtual` whatever the other inputs are (C09)** -/
theorem source_heads_block_unlisted (amt c e : Nat) (b p wl : Bool) (opts : List Opt)
    (h : isListed opts e = false) :
    KEnergyFactory.lock_guard e p (listedSrc opts) = none ∧
    KEnergyFactory.extend_guard c e p (listedSrc opts) wl = none ∧
    KEnergyFactory.reduce_guard e p (listedSrc opts) = none ∧
    KEnergyFactory.lock_virtual_guard amt b e p (listedSrc opts) = none := by
  rw [lock_guard_eq, extend_guard_eq, reduce_guard_eq, lock_virtual_guard_eq]
  simp [h]

/-! ### every step the model accepts passed the source's head -/

private theorem head_req {α : Type} {c : Prop} [Decidable c] {f : Unit → Option α} {x : α}
    (h : (req c).bind f = some x) : c ∧ f () = some x := by
  unfold req at h
  split at h
  · exact ⟨‹c›, h⟩
  · cases h

/-- a successful model `lockTokens` passed the source's head of `lockTokens` -/
theorem lockTokens_passes_head {s s' : St} {c amt epochs dest : Nat} {o : Out}
    (h : lockTokens s c amt epochs dest = some (s', o)) :
    KEnergyFactory.lock_guard epochs s.paused (listedSrc s.opts) = some () := by
  unfold lockTokens at h
  simp only [Option.bind_eq_bind] at h
  obtain ⟨hp, h⟩ := head_req h
  obtain ⟨_, h⟩ := head_req h
  obtain ⟨hl, _⟩ := head_req h
  rw [lock_guard_eq, if_pos ⟨hp, hl⟩]

/-- a successful model `extendLock` (the `lockTokens` endpoint paid with a locked token) passed the
    same head -/
theorem extendLock_passes_head {s s' : St} {c n amt epochs dest : Nat} {o : Out}
    (h : extendLock s c n amt epochs dest = some (s', o)) :
    KEnergyFactory.lock_guard epochs s.paused (listedSrc s.opts) = some () := by
  unfold extendLock at h
  simp only [Option.bind_eq_bind] at h
  obtain ⟨hp, h⟩ := head_req h
  obtain ⟨_, h⟩ := head_req h
  obtain ⟨hl, _⟩ := head_req h
  rw [lock_guard_eq, if_pos ⟨hp, hl⟩]

theorem unlockTokens_passes_head {s s' : St} {c : Nat} {ps : List (Nat × Nat)} {o : Out}
    (h : unlockTokens s c ps = some (s', o)) :
    KEnergyFactory.unlock_guard s.paused = some () := by
  unfold unlockTokens at h
  simp only [Option.bind_eq_bind] at h
  obtain ⟨hp, _⟩ := head_req h
  rw [(pause_only_guards_eq _).1, if_pos hp]

theorem unlockEarly_passes_head {s s' : St} {c n amt : Nat} {o : Out}
    (h : unlockEarly s c n amt = some (s', o)) :
    KEnergyFactory.unlock_early_guard s.paused = some () ∧
    KEnergyFactory.reduce_common_guard s.paused = some () := by
  unfold unlockEarly at h
  simp only [Option.bind_eq_bind] at h
  obtain ⟨hp, _⟩ := head_req h
  rw [(pause_only_guards_eq _).2.1, (pause_only_guards_eq _).2.2.1, if_pos hp]
  exact ⟨rfl, rfl⟩

theorem reduceLock_passes_head {s s' : St} {c n amt epochs : Nat} {o : Out}
    (h : reduceLock s c n amt epochs = some (s', o)) :
    KEnergyFactory.reduce_guard epochs s.paused (listedSrc s.opts) = some () ∧
    KEnergyFactory.reduce_common_guard s.paused = some () := by
  unfold reduceLock at h
  simp only [Option.bind_eq_bind] at h
  obtain ⟨hp, h⟩ := head_req h
  obtain ⟨_, h⟩ := head_req h
  obtain ⟨hl, _⟩ := head_req h
  rw [reduce_guard_eq, if_pos ⟨hp, hl⟩, (pause_only_guards_eq _).2.2.1, if_pos hp]
  exact ⟨rfl, rfl⟩

theorem mergeTokens_passes_head {s s' : St} {c orig : Nat} {ps : List (Nat × Nat)} {o : Out}
    (h : mergeTokens s c orig ps = some (s', o)) :
    KEnergyFactory.merge_guard s.paused = some () := by
  cases ps with
  | nil => simp [mergeTokens] at h
  | cons p rest =>
    obtain ⟨n1, a1⟩ := p
    unfold mergeTokens at h
    simp only [Option.bind_eq_bind] at h
    obtain ⟨hp, _⟩ := head_req h
    rw [(pause_only_guards_eq _).2.2.2, if_pos hp]

/-- a successful model `lockVirtual` passed the source's head (the model only ever locks the base
    asset, hence `true` for the token test) -/
theorem lockVirtual_passes_head {s s' : St} {c amt epochs dest eaddr : Nat} {o : Out}
    (h : lockVirtual s c amt epochs dest eaddr = some (s', o)) :
    KEnergyFactory.lock_virtual_guard amt true epochs s.paused (listedSrc s.opts) = some () := by
  unfold lockVirtual at h
  simp only [Option.bind_eq_bind] at h
  obtain ⟨hp, h⟩ := head_req h
  obtain ⟨ha, h⟩ := head_req h
  obtain ⟨_, h⟩ := head_req h
  obtain ⟨hl, _⟩ := head_req h
  rw [lock_virtual_guard_eq, if_pos ⟨hp, rfl, ha, hl⟩]

/-! non-vacuity: heads passing and aborting on concrete inputs -/
example : KEnergyFactory.lock_guard 720 false (listedSrc [(360, 4000), (720, 6000)]) = some () := by decide
example : KEnergyFactory.lock_guard 720 true (listedSrc [(360, 4000), (720, 6000)]) = none := by decide
example : KEnergyFactory.lock_guard 700 false (listedSrc [(360, 4000), (720, 6000)]) = none := by decide
example : KEnergyFactory.extend_guard 7 360 false (listedSrc [(360, 4000)]) true = some () := by decide
example : KEnergyFactory.extend_guard 7 360 false (listedSrc [(360, 4000)]) false = none := by decide
example : KEnergyFactory.lock_virtual_guard 5 true 360 false (listedSrc [(360, 4000)]) = some () := by decide
example : KEnergyFactory.lock_virtual_guard 0 true 360 false (listedSrc [(360, 4000)]) = none := by decide
example : KEnergyFactory.merge_guard false = some () := by decide

end Mx.KEnergyGuards
