/-
  KBoosted — the boosted-yields model (`Core/Farm.lean` and its farm-staking copy in
  `Core/Staking.lean`: `boostedAmount`, the guards of `boostedRewards`, `BCfg.factorsForWeek`,
  `BCfg.update`, `collectUndistributed`) computes what the SOURCE of
  `energy-integration/farm-boosted-yields/src/{lib.rs, boosted_yields_factors.rs}` computes.

  `Gen/KBoosted.lean` is regenerated on every run by `bin/gen-kernels` (group `Boosted`):

    * `user_boosted_reward`        fragment of `FarmBoostedYieldsWrapper::get_user_rewards_for_week`
                                   from `let max_rewards` to `let user_reward = cmp::min(…)`
    * `user_boosted_reward_gate0`, `user_boosted_reward_gate`   the two early-return guards before it
                                   (0 = "returns no reward", 1 = "goes on")
    * `factors_slot_for_week`      `BoostedYieldsConfig::get_factors_for_week` — the ring slot it reads
    * `config_week_diff`           `BoostedYieldsConfig::update` — the clamped week difference
    * `collect_window`             `collect_undistributed_boosted_rewards` — first / last week collected

  Property C11 (per-week formula, single payment, bounded by the week's pool) rests on the first
  four; C05's late-config finding F6 lives in `factors_slot_for_week` / `config_week_diff`.
-/
import MxModel.Gen.KBoosted
import MxModel.Core.Farm
import MxModel.Core.Staking
import MxModel.Props.KWeek
import MxModel.Lemmas.KTactic

namespace Mx.KBoosted
open Mx Mx.Gen

/-! ### the reward formula -/

/-- source formula = farm model `boostedAmount`:
    `min(maxF·R·f/F, (R·cE·e/E + R·cF·f/F)/(cE+cF))`, every division rounded down; the source
    aborts exactly on a zero week supply, zero total energy or zero constant sum (the first two are
    excluded by the guard before, the third is the model's `req (cE + cF ≠ 0)`) -/
theorem user_boosted_reward_eq (fa : Farm.Factors) (R f F e E : Nat) :
    KBoosted.user_boosted_reward f e fa.maxF fa.cE fa.cF F E R =
      if F = 0 ∨ E = 0 ∨ fa.cE + fa.cF = 0 then none else some (Farm.boostedAmount fa R f F e E) := by
  k_defs [KBoosted.user_boosted_reward, Farm.boostedAmount]
  k_solve

/-- the same for the farm-staking copy of the model -/
theorem user_boosted_reward_staking_eq (x : Staking.Factors) (R f F e E : Nat) :
    KBoosted.user_boosted_reward f e x.maxF x.cE x.cF F E R =
      if F = 0 ∨ E = 0 ∨ x.cE + x.cF = 0 then none else some (Staking.boostedAmount x R f F e E) := by
  k_defs [KBoosted.user_boosted_reward, Staking.boostedAmount]
  k_solve

/-- the two model copies of the formula agree -/
theorem boostedAmount_models_agree (fa : Farm.Factors) (R f F e E : Nat) :
    Staking.boostedAmount ⟨fa.maxF, fa.cE, fa.cF, fa.minE, fa.minF⟩ R f F e E =
      Farm.boostedAmount fa R f F e E := rfl

/-- the reward never exceeds the `max_rewards_factor` bound nor the blended share -/
theorem user_boosted_reward_le (f e maxF cE cF F E R u : Nat)
    (h : KBoosted.user_boosted_reward f e maxF cE cF F E R = some u) :
    u ≤ maxF * R * f / F ∧ u ≤ (R * cE * e / E + R * cF * f / F) / (cE + cF) := by
  have h' := user_boosted_reward_eq ⟨maxF, cE, cF, 0, 0⟩ R f F e E
  simp only [] at h'
  rw [h'] at h
  split at h
  · cases h
  · simp only [Option.some.injEq, Farm.boostedAmount] at h
    subst h
    exact ⟨Nat.min_le_left _ _, Nat.min_le_right _ _⟩

/-- first guard: no reward without total energy or without a recorded farm supply for the week
    (the model's `if totalEnergy = 0 ∨ F = 0 then some (g, c, [])`) -/
theorem user_boosted_reward_gate0_eq (F E : Nat) :
    KBoosted.user_boosted_reward_gate0 F E = some (if E = 0 ∨ F = 0 then 0 else 1) := by
  k_defs [KBoosted.user_boosted_reward_gate0]
  k_solve

/-- second guard: no reward below the week's minimum energy or minimum farm amount
    (the model's `if energy < fa.minE ∨ userFarm < fa.minF`) -/
theorem user_boosted_reward_gate_eq (fa : Farm.Factors) (f e : Nat) :
    KBoosted.user_boosted_reward_gate f e fa.minE fa.minF =
      some (if e < fa.minE ∨ f < fa.minF then 0 else 1) := by
  k_defs [KBoosted.user_boosted_reward_gate]
  k_solve

/-! ### the factors ring -/

/-- source `get_factors_for_week` reads ring slot `4 − (last_update_week − week)`, only for the four
    weeks before `last_update_week` — composed with the slot read it IS the farm model's
    `factorsForWeek` -/
theorem factors_slot_for_week_eq (c : Farm.BCfg) (week : Nat) :
    (KBoosted.factors_slot_for_week week c.lastUpdateWeek).bind (fun i => c.ring[i]?) =
      c.factorsForWeek week := by
  have hR : Farm.RING = 5 := rfl
  k_defs [KBoosted.factors_slot_for_week, Farm.BCfg.factorsForWeek, hR]
  k_solve

/-- the same for the farm-staking copy -/
theorem factors_slot_for_week_staking_eq (c : Staking.BCfg) (week : Nat) :
    (KBoosted.factors_slot_for_week week c.lastUpdateWeek).bind (fun i => c.f[i]?) =
      c.factorsForWeek week := by
  k_defs [KBoosted.factors_slot_for_week, Staking.BCfg.factorsForWeek]
  k_solve

/-- closed form of the slot: aborts for the current / a future week and for weeks five or more
    back ("Invalid config week") -/
theorem factors_slot_for_week_closed (week last : Nat) :
    KBoosted.factors_slot_for_week week last =
      if last ≤ week ∨ last - week ≥ 5 then none else some (4 - (last - week)) := by
  k_defs [KBoosted.factors_slot_for_week]
  k_solve

/-- the clamped week difference of `BoostedYieldsConfig::update`: aborts when the current week lies
    before `last_update_week`, otherwise `min(current − last, 5)` — the model's `d` in `BCfg.update` -/
theorem config_week_diff_eq (last W : Nat) :
    KBoosted.config_week_diff last W = if W < last then none else some (min (W - last) 5) := by
  k_defs [KBoosted.config_week_diff]
  k_solve

/-- a successful model `BCfg.update` passed the source's week check, and the number of slots it
    shifts is the source's clamped difference -/
theorem update_runs_source {c c' : Farm.BCfg} {W : Nat} {new : Option Farm.Factors}
    (h : c.update W new = some c') :
    KBoosted.config_week_diff c.lastUpdateWeek W = some (min (W - c.lastUpdateWeek) Farm.RING) := by
  have hR : Farm.RING = 5 := rfl
  simp only [Farm.BCfg.update, Option.bind_eq_bind, Option.bind_eq_some_iff, req_eq_some] at h
  obtain ⟨_, hle, _⟩ := h
  rw [config_week_diff_eq, hR, if_neg (by omega)]

/-- … and for the farm-staking copy -/
theorem update_runs_source_staking {c c' : Staking.BCfg} {W : Nat} {new : Option Staking.Factors}
    (h : c.update W new = some c') :
    KBoosted.config_week_diff c.lastUpdateWeek W = some (min (W - c.lastUpdateWeek) 5) := by
  simp only [Staking.BCfg.update, Option.bind_eq_bind, Option.bind_eq_some_iff, req_eq_some] at h
  obtain ⟨_, hle, _⟩ := h
  rw [config_week_diff_eq, if_neg (by omega)]

/-! ### `collectUndistributedBoostedRewards` -/

/-- the weeks collected: from `last_collect_week + 1` to `current_week − 5`, only once the current
    week exceeds 5 (and the week clock has started) — the `first` / `last` of the model's
    `collectUndistributed` -/
theorem collect_window_eq (epoch firstWeek lastCollect : Nat) :
    KBoosted.collect_window epoch firstWeek lastCollect =
      (Weekly.weekOf epoch firstWeek).bind fun W =>
        if Weekly.USER_MAX_CLAIM_WEEKS + 1 < W
        then some (lastCollect + 1, W - (Weekly.USER_MAX_CLAIM_WEEKS + 1)) else none := by
  have hU : Weekly.USER_MAX_CLAIM_WEEKS = 4 := rfl
  k_defs [KBoosted.collect_window, Mx.KWeek.get_current_week_eq, hU]
  cases Weekly.weekOf epoch firstWeek <;> k_solve

example : KBoosted.user_boosted_reward 100 50 10 3 2 1000 500 400 = some 40 := by decide
example : KBoosted.user_boosted_reward 100 50 1 3 2 1000 500 400 = some 40 := by decide
example : KBoosted.user_boosted_reward 100 50 10 0 0 1000 500 400 = none := by decide
example : KBoosted.factors_slot_for_week 7 8 = some 3 := by decide
example : KBoosted.factors_slot_for_week 3 8 = none := by decide
example : KBoosted.factors_slot_for_week 8 8 = none := by decide
example : KBoosted.config_week_diff 8 20 = some 5 := by decide
example : KBoosted.config_week_diff 8 7 = none := by decide

end Mx.KBoosted
