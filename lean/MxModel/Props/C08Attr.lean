/-
  C08 beyond `Op.WF` — energy equals the time-weighted sum of the locked tokens ATTRIBUTED to the
  account, for every operation, every caller, every argument.

  Statement (C08): "for every account, the energy entry reported by the energy factory equals the
  sum over the locked tokens attributed to it of amount·(unlock_epoch − current_epoch) … and its
  locked-token total equals the sum of those amounts, after any sequence of lock, extend, merge,
  reduce, unlock, early unlock and its cancellation, LKMEX transfer, wrap/unwrap, reward locking
  and epoch advance.  Tokens sitting in escrow give energy to nobody."

  `Props/C08.lean` proves this with "attributed to it" read as "held by it", under `Op.WF` (user
  callers only, no merge for another account, no `lockVirtual` with energy address ≠ destination).
  Here attribution is an explicit ledger `attr c ops : account → nonce → Int`, maintained by ONE
  rule that mentions balances only (Lemmas/EnergyAttrStep, `attrStep`):

      the change of the HOLDER's real balance row in a transaction is booked on the
      ENERGY ADDRESS of that transaction                                   (`Op.parties`)

  where holder = energy address = the caller / destination for every operation except
  `mergeTokens(original_caller)` (holder = calling contract, energy address = original caller) and
  `lockVirtual(dest, energy_address)` (holder = dest).  The ledger is signed: once a whitelisted
  proxy has separated holding from attribution, the holder can spend those tokens and the energy is
  taken from the holder's own entry (energy.rs never looks at who a token was attributed to) — see
  `proxy_separates_energy_from_tokens` for the concrete history.

  The only scope condition left is `Op.NoEsc`: the account whose tokens move is not one of the four
  escrow contracts (factory, token-unstake, lkmex-transfer, wrapper) — their code has no path that
  calls these endpoints; what they do is part of the modelled operations.  Contract callers
  (whitelisted proxies / farms at any address), merges for another account and `lockVirtual` with
  any energy address are all covered.

  `sumEZ g now 1 ns` = Σ_n g(n)·(unlock_n − now), `sumTZ g 1 ns` = Σ_n g(n) over a signed row;
  `sumE`/`sumT` are the same sums over a balance row (Props/C08).  Only property theorems here;
  lemmas in Lemmas/EnergyAttr{Sum,Link,Step,Hold}.lean.
-/
import MxModel.Lemmas.EnergyAttrHold

namespace Mx.C08Attr
open Mx.Energy

/-- C08 in the attributed form, at full strength: after EVERY history from a freshly deployed
    world in which no escrow contract is the account whose tokens move — contract callers,
    whitelisted merges for another account and `lockVirtual` with a foreign energy address
    included — and for EVERY account `a` (users and contracts alike), `getEnergyEntryForUser(a)` =
    (Σ amount·(unlock − now), Σ amount) over the locked tokens attributed to `a` by the ledger,
    depleted to the current epoch -/
theorem energy_attr_inv (c : Cfg) (ops : List Op) (hw : ∀ op ∈ ops, op.NoEsc) (a : Nat) :
    let s := run (init c) ops
    (s.view a).E = sumEZ (attr c ops a) s.epoch 1 s.nonces ∧
    ((s.view a).T : Int) = sumTZ (attr c ops a) 1 s.nonces ∧
    (s.view a).last = s.epoch := by
  intro s
  have h := (runA_ainv ops (init_ainv c) hw).track a
  rw [runA_init_fst] at h
  exact h

/-- one transaction preserves the attributed invariant: any operation, any caller, any arguments,
    any option set; the ledger moves by the rule above -/
theorem energy_attr_inv_step {s s' : St} {A : Nat → Nat → Int} {op : Op} {o : Out}
    (hi : AInv s A) (hw : op.NoEsc) (h : step s op = some (s', o)) :
    AInv s' (attrStep A s s' op) :=
  step_ainv hi hw h

/-- which operations can make holder ≠ attributed account: exactly `mergeTokens` with an original
    caller other than the caller, and `lockVirtual` with an energy address other than the
    destination (both gated by the SC whitelist, see `merge_for_other_needs_whitelist`) -/
theorem separating_ops (op : Op) :
    op.Plain ↔ (match op with
      | .merge c orig _ => orig = 0 ∨ orig = c
      | .lockVirtual _ _ _ d ea => ea = d
      | _ => True) :=
  plain_iff op

/-- … and every other operation leaves `attributed − held` of every ordinary account (every
    account except the four escrow contracts) exactly as it was, nonce by nonce -/
theorem attribution_follows_holding_step {s s' : St} {A : Nat → Nat → Int} {op : Op} {o : Out}
    (hw : op.NoEsc) (hp : op.Plain) (h : step s op = some (s', o)) (a n : Nat) (ha : ¬ IsEsc a) :
    attrStep A s s' op a n - (s'.bal a n : Int) = A a n - (s.bal a n : Int) :=
  step_div hw hp h a n ha

/-- the two separating arguments are reserved to whitelisted contracts: a caller that is not on
    the SC whitelist cannot merge for another account, nor call `lockVirtual` at all -/
theorem merge_for_other_needs_whitelist {s s' : St} {c orig : Nat} {ps : List (Nat × Nat)} {o : Out}
    (h : step s (.merge c orig ps) = some (s', o)) : orig = 0 ∨ c ∈ s.wl := by
  cases ps with
  | nil => simp [step, mergeTokens] at h
  | cons p rest =>
    obtain ⟨n1, a1⟩ := p
    simp only [step, mergeTokens, Option.bind_eq_bind, Option.bind_eq_some_iff, req_eq_some] at h
    obtain ⟨_, _, _, _, _, hwl, _⟩ := h
    exact hwl

theorem lockVirtual_needs_whitelist {s s' : St} {c amt ep d ea : Nat} {o : Out}
    (h : step s (.lockVirtual c amt ep d ea) = some (s', o)) : c ∈ s.wl := by
  simp only [step, lockVirtual, Option.bind_eq_bind, Option.bind_eq_some_iff, req_eq_some] at h
  obtain ⟨_, _, _, _, _, _, _, _, _, hwl, _⟩ := h
  exact hwl

/-- histories without the two separating arguments (ordinary users, and also contracts acting for
    themselves): attribution = holding.  Every account other than the four escrow contracts is
    attributed exactly the locked tokens it holds, and the escrow contracts are attributed nothing -/
theorem attr_eq_holdings (c : Cfg) (ops : List Op) (hw : ∀ op ∈ ops, op.NoEsc)
    (hp : ∀ op ∈ ops, op.Plain) (a n : Nat) :
    let s := run (init c) ops
    (¬ IsEsc a → attr c ops a n = (s.bal a n : Int)) ∧ (IsEsc a → attr c ops a n = 0) := by
  intro s
  have h := runA_agree ops (init_agree c) hw hp
  rw [runA_init_fst] at h
  exact ⟨fun ha => h.user a ha n, fun ha => h.esc a ha n⟩

/-- … hence the held form of C08 for EVERY account that is not an escrow contract (users below
    `SCBASE` and any contract address acting for itself), without `Op.WF` -/
theorem energy_inv_all (c : Cfg) (ops : List Op) (hw : ∀ op ∈ ops, op.NoEsc)
    (hp : ∀ op ∈ ops, op.Plain) (a : Nat) (ha : ¬ IsEsc a) :
    let s := run (init c) ops
    (s.view a).E = sumE (s.bal a) s.epoch 1 s.nonces ∧
    (s.view a).T = sumT (s.bal a) 1 s.nonces ∧
    (s.view a).last = s.epoch := by
  intro s
  have ht := energy_attr_inv c ops hw a
  have hg : attr c ops a = fun n => ((run (init c) ops).bal a n : Int) :=
    funext fun n => (attr_eq_holdings c ops hw hp a n).1 ha
  rw [hg] at ht
  exact tracksZ_cast.mp ht

/-- the theorem of Props/C08 (`energy_inv`, under `Op.WF`) is the special case -/
theorem energy_inv_of_WF (c : Cfg) (ops : List Op) (hw : ∀ op ∈ ops, op.WF) (a : Nat)
    (ha : a < SCBASE) :
    let s := run (init c) ops
    (s.view a).E = sumE (s.bal a) s.epoch 1 s.nonces ∧
    (s.view a).T = sumT (s.bal a) 1 s.nonces ∧
    (s.view a).last = s.epoch := by
  refine energy_inv_all c ops (fun op h => WF_noEsc (hw op h)) (fun op h => WF_plain (hw op h)) a ?_
  intro he
  have f1 : FACTORY = 200 := rfl
  have f2 : UNSTAKE = 201 := rfl
  have f3 : TRANSFER = 202 := rfl
  have f4 : WRAPPER = 203 := rfl
  have f5 : SCBASE = 200 := rfl
  rcases he with h1 | h1 | h1 | h1 <;> omega

/-- the escrow clause as a conservation law, for EVERY history (separating arguments included):
    nonce by nonce, the total attributed to all accounts equals the total held by accounts other
    than the four escrow contracts.  So whatever sits in token-unstake (unbonding), lkmex-transfer
    (pending transfer), the wrapper (wrapped) or the factory (residual unit) is attributed to — and
    therefore, by `energy_attr_inv`, gives energy to — nobody.  `N` bounds the account addresses
    the history names (`Op.Below N`); the sums run over the accounts `0 … N−1`. -/
theorem escrow_attributed_to_nobody (c : Cfg) (ops : List Op) (N : Nat)
    (hw : ∀ op ∈ ops, op.NoEsc) (hb : ∀ op ∈ ops, op.Below N) (n : Nat) :
    let s := run (init c) ops
    sumAcc (fun a => attr c ops a n) N =
      sumAcc (fun a => if IsEsc a then 0 else (s.bal a n : Int)) N := by
  intro s
  have h := runA_cons (N := N) (n := n) ops (init_cons c N n) hw hb
  rw [runA_init_fst] at h
  exact h

/-- … summed up over the nonces: the locked-token totals of all entries together are exactly the
    locked tokens held outside the four escrow contracts, and the energies of all entries together
    are exactly their time-weighted sum — for EVERY history (separating arguments included).
    Escrowed tokens (unbonding, pending transfer, wrapped, factory residue) appear in neither. -/
theorem total_energy_excludes_escrow (c : Cfg) (ops : List Op) (N : Nat)
    (hw : ∀ op ∈ ops, op.NoEsc) (hb : ∀ op ∈ ops, op.Below N) :
    let s := run (init c) ops
    let outside : Nat → Int := fun n => sumAcc (fun a => if IsEsc a then 0 else (s.bal a n : Int)) N
    sumAcc (fun a => ((s.view a).T : Int)) N = sumTZ outside 1 s.nonces ∧
    sumAcc (fun a => (s.view a).E) N = sumEZ outside s.epoch 1 s.nonces := by
  intro s outside
  have hT : (fun a => ((s.view a).T : Int)) = fun a => sumTZ (attr c ops a) 1 s.nonces :=
    funext fun a => (energy_attr_inv c ops hw a).2.1
  have hE : (fun a => (s.view a).E) = fun a => sumEZ (attr c ops a) s.epoch 1 s.nonces :=
    funext fun a => (energy_attr_inv c ops hw a).1
  have ho : (fun n => sumAcc (fun a => attr c ops a n) N) = outside :=
    funext fun n => escrow_attributed_to_nobody c ops N hw hb n
  rw [hT, hE, sumAcc_sumTZ, sumAcc_sumEZ, ho]
  exact ⟨rfl, rfl⟩

/-- tokens sitting in escrow give energy to nobody, entry by entry: when attribution = holding
    the four escrow contracts report the zero entry -/
theorem escrow_gives_nothing_all (c : Cfg) (ops : List Op) (hw : ∀ op ∈ ops, op.NoEsc)
    (hp : ∀ op ∈ ops, op.Plain) (a : Nat) (ha : IsEsc a) :
    let s := run (init c) ops
    (s.view a).E = 0 ∧ (s.view a).T = 0 ∧ (s.view a).last = s.epoch := by
  intro s
  obtain ⟨h1, h2, h3⟩ := energy_attr_inv c ops hw a
  have hz : ∀ m, 1 ≤ m → attr c ops a m = 0 := fun m _ => (attr_eq_holdings c ops hw hp a m).2 ha
  rw [sumEZ_zero _ _ _ _ hz] at h1
  rw [sumTZ_zero _ _ _ hz] at h2
  exact ⟨h1, by exact_mod_cast h2, h3⟩

/-- non-vacuity of the attributed theorems: a whitelisted proxy at a CONTRACT address (250) holds
    reward tokens locked for users 2 and 3 (`lockVirtual` with energy address ≠ destination),
    merges two nonces on behalf of user 3 (`mergeTokens` with an original caller; rounded up to the
    month), user 1 locks, transfers (withdrawn after expiry of the other nonce) and unlocks early.
    Every op is `NoEsc`; three of them are not `Plain`.  The ledger (signed, non-trivial) and the
    reported entries: user 3 is attributed 400@360 + 100@720 + 700@570 but holds 700/100/0, the
    proxy holds 200@360 + 700@570 and is attributed nothing. -/
example :
    let c : Cfg := { epoch := 5, opts := [(360, 4000), (720, 6000), (1440, 8000)], unbond := 10,
                     burnPct := 5000, minLock := 4, cooldown := 6, users := 3, funds := 1000000 }
    let ops : List Op :=
      [.cfg (.whitelist 250), .lockVirtual 250 500 360 250 2, .lockVirtual 250 400 720 250 3,
       .lock 3 700 360 0, .merge 250 3 [(1, 300), (2, 400)], .lock 1 1000 720 0, .advance 400,
       .lockFunds 1 3 [(2, 100)], .unlockEarly 1 2 300, .advance 420, .withdraw 3 1]
    let s := run (init c) ops
    (∀ op ∈ ops, op.NoEsc) ∧ (∀ op ∈ ops, op.Below 300) ∧ ¬ (∀ op ∈ ops, op.Plain) ∧
    s.nonces = [360, 720, 570] ∧ s.epoch = 420 ∧
    (s.view 3).E = 111000 ∧ (s.view 3).T = 1200 ∧ (s.view 2).E = -30000 ∧ (s.view 250).T = 0 ∧
    attr c ops 3 1 = 400 ∧ attr c ops 3 2 = 100 ∧ attr c ops 3 3 = 700 ∧ attr c ops 2 1 = 500 ∧
    attr c ops 250 1 = 0 ∧ s.bal 250 1 = 200 ∧ s.bal 250 3 = 700 ∧ s.bal 3 1 = 700 ∧
    s.bal UNSTAKE 2 = 300 := by
  decide

/-- why the ledger has to be signed (and why `Op.WF` excluded the proxy arguments): a whitelisted
    contract (9) locks 500 reward tokens with destination user 1 and energy address user 2; user 1,
    who also holds 1000 tokens of its own, sends the 500 to early unlock.  energy.rs deducts the
    energy from user 1's entry.  Result: user 2 keeps energy 500·(360−5) for tokens that now sit in
    token-unstake's escrow, and user 1 reports less energy (537 500) than its own 1000 tokens are
    worth (715 000): neither the held form of C08 nor "tokens in escrow give energy to nobody"
    holds for this history — by design of the trusted `energy_address` argument; the attributed
    form does (user 1 is attributed −500 of nonce 1). -/
theorem proxy_separates_energy_from_tokens :
    let c : Cfg := { epoch := 5, opts := [(360, 4000), (720, 6000), (1440, 8000)], unbond := 10,
                     burnPct := 5000, minLock := 4, cooldown := 6, users := 3, funds := 1000000 }
    let ops : List Op :=
      [.cfg (.whitelist 9), .lockVirtual 9 500 360 1 2, .lock 1 1000 720 0, .unlockEarly 1 1 500]
    let s := run (init c) ops
    (∀ op ∈ ops, op.NoEsc) ∧
    s.bal 2 1 = 0 ∧ s.bal 2 2 = 0 ∧ (s.view 2).E = 177500 ∧ (s.view 2).T = 500 ∧
    s.bal UNSTAKE 1 = 500 ∧
    s.bal 1 1 = 0 ∧ s.bal 1 2 = 1000 ∧ (s.view 1).E = 537500 ∧ (s.view 1).T = 500 ∧
    sumE (s.bal 1) s.epoch 1 s.nonces = 715000 ∧
    attr c ops 1 1 = -500 ∧ attr c ops 1 2 = 1000 ∧ attr c ops 2 1 = 500 := by
  decide

end Mx.C08Attr
