/-
  KWeekly — the shared weekly-rewards-splitting model (`Core/Weekly.lean`) computes what the SOURCE of
  `energy-integration/common-modules/weekly-rewards-splitting/src/{locked_token_buckets.rs,
  global_info.rs, base_impl.rs, lib.rs}` computes.

  `Gen/KWeekly.lean` is regenerated on every run by `bin/gen-kernels`.  Whole functions:
  `get_bucket_id_for_energy` (an `Option`: (0, 0) = `None`, (1, id) = `Some(id)`),
  `get_surplus_for_energy`, `ClaimProgress::advance_week`, `advance_multiple_weeks`.  Fragments (the
  arithmetic cores of functions whose loops / mapper plumbing are outside the translated subset):
  one iteration of the bucket shift, the deplete epoch of the stored previous energy, the four-case
  update of the week's locked tokens, the update of the week's total energy, the cleared week, the
  share of one reward entry, the week counting of `claim_multi`.
-/
import MxModel.Gen.KWeekly
import MxModel.Props.KEnergy
import MxModel.Props.KMath
import MxModel.Core.Weekly
import MxModel.Lemmas.KTactic
import Mathlib.Tactic.SplitIfs

namespace Mx.KWeekly
open Mx Mx.Gen Mx.Weekly

/-! ### buckets -/

/-- the (tag, payload) reading of the model's `bucketIdFor` -/
theorem bucketIdFor_tag (first : Nat) (e : Energy) :
    (match bucketIdFor first e with
      | none => (0, 0)
      | some id => (1, id)) =
      if e.totalLocked = 0 then (0, 0) else if e.getEnergyAmount = 0 then (0, 0)
      else (1, e.getEnergyAmount / e.totalLocked / 7 + first) := by
  have hE : EPOCHS_IN_WEEK = 7 := rfl
  simp only [bucketIdFor, hE]
  split_ifs <;> rfl

/-- source `get_bucket_id_for_energy` = model `bucketIdFor`: `None` without tokens or without
    positive energy, else `Some(⌊⌊energy / tokens⌋ / 7⌋ + first_bucket_id)`; never aborts -/
theorem get_bucket_id_for_energy_eq (first : Nat) (e : Energy) :
    KWeekly.get_bucket_id_for_energy e.amount e.totalLocked first =
      some (match bucketIdFor first e with
            | none => (0, 0)
            | some id => (1, id)) := by
  rw [bucketIdFor_tag]
  k_defs [KWeekly.get_bucket_id_for_energy, Mx.KEnergy.weekly_get_energy_amount_eq]
  k_solve

/-- source `get_surplus_for_energy` = model `surplusFor`: `energy mod (tokens · 7)`, 0 without
    tokens; never aborts -/
theorem get_surplus_for_energy_eq (e : Energy) :
    KWeekly.get_surplus_for_energy e.amount e.totalLocked = some (surplusFor e) := by
  have hE : EPOCHS_IN_WEEK = 7 := rfl
  k_defs [KWeekly.get_surplus_for_energy, surplusFor, hE, Mx.KEnergy.weekly_get_energy_amount_eq]
  k_solve

/-- one iteration of the loop of `shift_buckets_and_update_tokens_energy` IS the model's
    `shiftOnce` on the running totals: `tokens −= bucket.tokens` (checked), then
    `energy := safe_sub(energy, tokens · 7 + bucket.surplus)` with the ALREADY reduced tokens.
    Result order (energy_amount, total_tokens) -/
theorem shift_one_bucket_eq (g : St) (t : Totals) :
    KWeekly.shift_one_bucket (g.buckets g.firstBucketId).surplus (g.buckets g.firstBucketId).tokens
        t.energy t.tokens =
      (shiftOnce g t).map fun r => (r.2.energy, r.2.tokens) := by
  have hE : EPOCHS_IN_WEEK = 7 := rfl
  k_defs [KWeekly.shift_one_bucket, shiftOnce, hE, Mx.KMath.safe_sub_eq, safeSub]
  k_solve

/-! ### global totals -/

/-- the epoch to which `update_global_amounts_for_current_week` depletes the stored previous
    energy: `last_update_epoch + (current_week − last_active_week) · 7`; the `usize` subtraction
    underflows when time ran backwards (the model's guard `lastActive ≤ W`) -/
theorem deplete_end_epoch_eq (last W lastActive : Nat) :
    KWeekly.deplete_end_epoch last W lastActive =
      if W < lastActive then none else some (last + (W - lastActive) * 7) := by
  k_defs [KWeekly.deplete_end_epoch]
  k_solve

/-- the model's `depletedPrev` is the source's `Energy::deplete` at the source's deplete epoch -/
theorem depletedPrev_runs_source (prev : Energy) (W lastActive : Nat) (h : lastActive ≤ W)
    (hne : W ≠ lastActive) :
    ∃ ep, KWeekly.deplete_end_epoch prev.lastUpdateEpoch W lastActive = some ep ∧
      KEnergy.deplete ep prev.amount prev.lastUpdateEpoch prev.totalLocked =
        some ((depletedPrev prev W lastActive).amount, (depletedPrev prev W lastActive).lastUpdateEpoch) ∧
      (depletedPrev prev W lastActive).totalLocked = prev.totalLocked := by
  have hE : EPOCHS_IN_WEEK = 7 := rfl
  refine ⟨prev.lastUpdateEpoch + (W - lastActive) * 7, ?_, ?_, ?_⟩
  · rw [deplete_end_epoch_eq, if_neg (by omega)]
  · simp only [depletedPrev, if_pos hne, hE]
    exact Mx.KEnergy.weekly_deplete_eq prev _
  · simp only [depletedPrev, if_pos hne]
    exact Mx.KEnergy.weekly_deplete_frame prev _

/-- the four-case update of `totalLockedTokensForWeek(current_week)` IS the model's
    `updateTotalTokens` (add first, then the checked subtraction) -/
theorem total_tokens_update_eq (g : St) (W : Nat) (bp : BucketPair) (depPrev cur : Energy) :
    KWeekly.total_tokens_update depPrev.totalLocked cur.totalLocked bp.prev.isSome bp.cur.isSome
        (g.totalLocked W) =
      (updateTotalTokens g W bp depPrev cur).map fun g' => g'.totalLocked W := by
  obtain ⟨p, c⟩ := bp
  cases p <;> cases c <;> simp only [Option.isSome_some, Option.isSome_none] <;>
    k_defs [KWeekly.total_tokens_update, updateTotalTokens, upd_same] <;> k_solve

/-- the update of `totalEnergyForWeek(current_week)` IS the model's `updateTotalEnergy`:
    subtract the (depleted) previous energy first (checked), then add the current one -/
theorem total_energy_update_eq (g : St) (W : Nat) (depPrev cur : Energy) :
    KWeekly.total_energy_update depPrev.amount cur.amount (g.totalEnergy W) =
      (updateTotalEnergy g W depPrev cur).map fun g' => g'.totalEnergy W := by
  k_defs [KWeekly.total_energy_update, updateTotalEnergy, Mx.KEnergy.weekly_get_energy_amount_eq,
    upd_same]
  k_solve

/-- the week whose entries `perform_weekly_update` clears: `current − 4 − 1` (the model's
    `W − USER_MAX_CLAIM_WEEKS − 1`), computed only for `current > 5` -/
theorem inaccessible_week_eq (W : Nat) (h : USER_MAX_CLAIM_WEEKS + 1 < W) :
    KWeekly.inaccessible_week W = some (W - USER_MAX_CLAIM_WEEKS - 1) := by
  have hU : USER_MAX_CLAIM_WEEKS = 4 := rfl
  rw [hU] at h ⊢
  k_defs [KWeekly.inaccessible_week]
  k_solve

/-! ### rewards and claim progress -/

/-- the share of one weekly reward entry = model `share`: `⌊amount · energy / total_energy⌋`
    (the caller returns early when either energy is 0, so the division never aborts there) -/
theorem user_reward_share_eq (amount energy total : Nat) :
    KWeekly.user_reward_share energy total amount =
      if total = 0 then none else some (share amount energy total) := by
  k_defs [KWeekly.user_reward_share, share]
  k_solve

/-- source `ClaimProgress::advance_week` = model `advanceWeek`: the entry is depleted by 7 epochs
    from its own `last_update_epoch`, the week grows by one.
    Result order (energy.amount, energy.last_update_epoch, week) -/
theorem advance_week_eq (p : ClaimProgress) :
    KWeekly.advance_week p.energy.amount p.energy.lastUpdateEpoch p.energy.totalLocked p.week =
      some (p.advanceWeek.energy.amount, p.advanceWeek.energy.lastUpdateEpoch, p.advanceWeek.week) := by
  have hE : EPOCHS_IN_WEEK = 7 := rfl
  k_defs [KWeekly.advance_week, Mx.KEnergy.weekly_deplete_eq, ClaimProgress.advanceWeek, hE]
  try k_solve

/-- source `advance_multiple_weeks(n)` = model `advanceMultipleWeeks n` -/
theorem advance_multiple_weeks_eq (p : ClaimProgress) (n : Nat) :
    KWeekly.advance_multiple_weeks n p.energy.amount p.energy.lastUpdateEpoch p.energy.totalLocked
        p.week =
      some ((p.advanceMultipleWeeks n).energy.amount, (p.advanceMultipleWeeks n).energy.lastUpdateEpoch,
            (p.advanceMultipleWeeks n).week) := by
  have hE : EPOCHS_IN_WEEK = 7 := rfl
  k_defs [KWeekly.advance_multiple_weeks, Mx.KEnergy.weekly_deplete_eq,
    ClaimProgress.advanceMultipleWeeks, hE]
  try k_solve

/-- advancing never changes the locked tokens of the recorded energy -/
theorem advance_frame (p : ClaimProgress) (n : Nat) :
    p.advanceWeek.energy.totalLocked = p.energy.totalLocked ∧
    (p.advanceMultipleWeeks n).energy.totalLocked = p.energy.totalLocked :=
  ⟨Mx.KEnergy.weekly_deplete_frame _ _, Mx.KEnergy.weekly_deplete_frame _ _⟩

/-- the week counting of `claim_multi`: `total = current − progress.week` (aborts when the progress
    is ahead — the model's `req (p0.week ≤ W)`), the progress skips the weeks beyond the last
    four, at most four weeks are claimed — exactly the model's `p1` and `min totalWeeks 4` -/
theorem weeks_to_claim_eq (p0 : ClaimProgress) (W : Nat) (h : p0.week ≤ W) :
    KWeekly.weeks_to_claim p0.energy.amount p0.energy.lastUpdateEpoch p0.energy.totalLocked p0.week W =
      some (min (W - p0.week) USER_MAX_CLAIM_WEEKS,
        (if USER_MAX_CLAIM_WEEKS < W - p0.week
          then p0.advanceMultipleWeeks (W - p0.week - USER_MAX_CLAIM_WEEKS) else p0).energy.amount,
        (if USER_MAX_CLAIM_WEEKS < W - p0.week
          then p0.advanceMultipleWeeks (W - p0.week - USER_MAX_CLAIM_WEEKS) else p0).energy.lastUpdateEpoch,
        (if USER_MAX_CLAIM_WEEKS < W - p0.week
          then p0.advanceMultipleWeeks (W - p0.week - USER_MAX_CLAIM_WEEKS) else p0).week) := by
  have hU : USER_MAX_CLAIM_WEEKS = 4 := rfl
  rw [hU]
  k_defs [KWeekly.weeks_to_claim, advance_multiple_weeks_eq]
  k_solve

/-- `claim_multi` aborts when the stored progress is ahead of the current week -/
theorem weeks_to_claim_aborts (a : Int) (l t w W : Nat) (h : W < w) :
    KWeekly.weeks_to_claim a l t w W = none := by
  k_defs [KWeekly.weeks_to_claim]
  k_solve

example : KWeekly.get_bucket_id_for_energy 700 10 3 = some (1, 13) := by decide
example : KWeekly.get_bucket_id_for_energy (-5) 10 3 = some (0, 0) := by decide
example : KWeekly.get_surplus_for_energy 705 10 = some 5 := by decide
example : KWeekly.shift_one_bucket 5 10 1000 30 = some (855, 20) := by decide
example : KWeekly.total_tokens_update 7 5 true true 10 = some 8 := by decide
example : KWeekly.weeks_to_claim 1000 10 5 2 9 = some (4, 895, 31, 5) := by decide

end Mx.KWeekly
