/-
  KWeek — the model's week arithmetic (`Core/Weekly.lean` `weekOf`, used by the farm, staking and
  fees-collector models through `St.week`) computes what the SOURCE of
  `energy-integration/common-modules/week-timekeeping/src/lib.rs` computes.

  `Gen/KWeek.lean` is regenerated on every run by `bin/gen-kernels`.
-/
import MxModel.Gen.KWeek
import MxModel.Lemmas.KTactic
import MxModel.Core.Weekly
import MxModel.Core.Farm

namespace Mx.KWeek
open Mx Mx.Gen Mx.Weekly

/-- source `get_week_for_epoch` IS the model's `weekOf`: it aborts exactly before the first week
    ("Week 0 is not a valid week"), otherwise `(epoch − first) / 7 + 1` -/
theorem get_week_for_epoch_eq (epoch first : Nat) :
    KWeek.get_week_for_epoch epoch first = weekOf epoch first := by
  have hE : EPOCHS_IN_WEEK = 7 := rfl
  k_defs [KWeek.get_week_for_epoch, weekOf, hE]
  k_solve

/-- source `get_current_week` (view `getCurrentWeek`) IS `weekOf` at the block epoch -/
theorem get_current_week_eq (epoch first : Nat) :
    KWeek.get_current_week epoch first = weekOf epoch first := by
  k_defs [KWeek.get_current_week, get_week_for_epoch_eq]
  try (cases weekOf epoch first <;> k_solve)

/-- on a farm model state the source's current week is the model's `St.week` -/
theorem get_current_week_farm (s : Farm.St) :
    KWeek.get_current_week s.epoch s.firstWeekStart = s.week :=
  get_current_week_eq _ _

/-- source `get_start_epoch_for_week`: aborts for week 0, otherwise `first + (week − 1) · 7` -/
theorem get_start_epoch_for_week_eq (week first : Nat) :
    KWeek.get_start_epoch_for_week week first =
      if week = 0 then none else some (first + (week - 1) * 7) := by
  k_defs [KWeek.get_start_epoch_for_week]
  k_solve

/-- source `get_end_epoch_for_week`: the last epoch of the week, `first + week · 7 − 1` -/
theorem get_end_epoch_for_week_eq (week first : Nat) :
    KWeek.get_end_epoch_for_week week first =
      if week = 0 then none else some (first + week * 7 - 1) := by
  k_defs [KWeek.get_end_epoch_for_week, get_start_epoch_for_week_eq]
  k_solve

/-- the week function and the week bounds are consistent: every epoch of week `w` (between the
    source's start and end epoch of `w`) is mapped to `w` by the source's `get_week_for_epoch` -/
theorem week_of_epoch_in_week (w first e a b : Nat)
    (ha : KWeek.get_start_epoch_for_week w first = some a)
    (hb : KWeek.get_end_epoch_for_week w first = some b) (h1 : a ≤ e) (h2 : e ≤ b) :
    KWeek.get_week_for_epoch e first = some w := by
  rw [get_start_epoch_for_week_eq] at ha
  rw [get_end_epoch_for_week_eq] at hb
  by_cases h : w = 0
  · rw [if_pos h] at ha; cases ha
  · rw [if_neg h, Option.some.injEq] at ha hb
    subst ha hb
    have hE : EPOCHS_IN_WEEK = 7 := rfl
    have hf : first ≤ e := by omega
    rw [get_week_for_epoch_eq]
    simp only [weekOf, req, if_pos hf, hE, Option.bind_eq_bind, Option.bind_some, Option.pure_def,
      Option.some.injEq]
    omega

example : KWeek.get_week_for_epoch 20 10 = some 2 := by decide
example : KWeek.get_week_for_epoch 9 10 = none := by decide
example : KWeek.get_start_epoch_for_week 2 10 = some 17 := by decide
example : KWeek.get_end_epoch_for_week 2 10 = some 23 := by decide

end Mx.KWeek
