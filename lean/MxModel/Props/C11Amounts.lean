/-
  C11 — Boosted rewards (dex/farm, farm-with-locked-rewards): EVERY logged payment is the formula,
  and the denominator of a closed week (session 4, closes the "amount at log level" and the
  "denominator at close" items left open by Props/C11Once.lean).

  1. AMOUNTS.  `Farm.paidLog` (Lemmas/FarmLogRun.lean, a function of the history) has one entry
     `(user, week, amount)` per week pool a successful operation paid out of.
       * `boosted_log_amount`       every entry of an operation's log: `amount` is
            min ⌊maxF·R·f/F⌋ ⌊(⌊R·cE·e/E⌋ + ⌊R·cF·f/F⌋)/(cE+cF)⌋
         with R = the week's frozen pool (`totalRewardsForWeek(week)` after the operation),
         f = the user's total farm position BEFORE the operation, F = `farmSupplyForWeek(week)`,
         e = the user's recorded energy decayed to that week, E = `totalEnergyForWeek(week)`, and the
         factors in force for that week (the stored 5-slot ring shifted to the current week); the user
         is at or above both minima and E, F ≠ 0.  Holds in EVERY state (no invariant needed);
       * `boosted_log_amount_run`   the same for every entry of the log of every history from `init`;
       * `boosted_step_amounts`     the exact ledger equation behind it, for ALL weeks and ALL operations:
         `paidW' w = paidW w + duePay …` — and operations without claim user do not move `paidW`;
       * `boosted_log_absent_below_min`  below a minimum (or with E = 0 or F = 0) NOTHING is logged for
         the week and its ledger does not move;
       * `factors_in_force_ring`, `frozen_pool_le_cut`, `frozen_pool_eq_cut`  (reachable states) the factors
         are the ring's entry for the week, and the frozen pool R of a claimable week is EXACTLY what was
         cut into the week: `R = cutW week` ("the boosted share accumulated that week").
  2. DENOMINATOR.  `denominator_at_close`: for as long as a week is claimable, the farm's
     `totalEnergyForWeek(w)` equals Σ over all participants of their recorded energy decayed to `w`,
     taken at the last moment `w` was the running global week (`Farm.closeSum`, a function of the
     history); `closed_week_frozen`: afterwards it never changes (only cleared, five weeks later).

  Lemmas: Lemmas/FarmLogAmt.lean, FarmLogAmtOps.lean, FarmClose.lean, FarmFrozen.lean (+ WeeklyClose.lean).
-/
import MxModel.Props.C11Once
import MxModel.Lemmas.FarmFrozen

namespace Mx.C11Amounts
open Mx.Farm

/-! ### 1. amounts -/

/-- `boostedAmount` IS the formula of the property -/
theorem boostedAmount_eq (fa : Factors) (R f F e E : Nat) :
    boostedAmount fa R f F e E =
      min (fa.maxF * R * f / F) ((R * fa.cE * e / E + R * fa.cF * f / F) / (fa.cE + fa.cF)) := rfl

/-- **every logged payment is the formula.**  In ANY state `s`, for any operation `op` and any entry
    `(user, week, amount)` the operation adds to the paid log: with `fa` the factors in force for `week`
    (stored ring shifted to the current week), `p` the user's stored claim progress (not after `week`),
    `R` the week's frozen pool — `totalRewardsForWeek(week) = [(tok, R)]` after the operation —,
    `f = userTotalFarmPosition(user)` BEFORE the operation, `F = farmSupplyForWeek(week)`,
    `e` = the progress energy decayed to `week`, `E = totalEnergyForWeek(week)`:
    `amount = min ⌊maxF·R·f/F⌋ ⌊(⌊R·cE·e/E⌋ + ⌊R·cF·f/F⌋)/(cE+cF)⌋`, and `E ≠ 0`, `F ≠ 0`,
    `e ≥ minE`, `f ≥ minF`, `R ≠ 0` (nothing is logged otherwise). -/
theorem boosted_log_amount (s : St) (op : Op) (e : Entry) (h : e ∈ stepLog s op) :
    ∃ fa p tok R,
      factorsInForce s e.week = some fa ∧
      s.w.progress e.user = some p ∧ p.week ≤ e.week ∧
      (next s op).w.totalRewards e.week = [(tok, R)] ∧ R ≠ 0 ∧
      s.w.totalEnergy e.week ≠ 0 ∧ s.b.farmSupplyWeek e.week ≠ 0 ∧
      fa.minE ≤ entryE p e.week ∧ fa.minF ≤ s.userTotal e.user ∧
      e.amount =
        min (fa.maxF * R * s.userTotal e.user / s.b.farmSupplyWeek e.week)
          ((R * fa.cE * entryE p e.week / s.w.totalEnergy e.week +
            R * fa.cF * s.userTotal e.user / s.b.farmSupplyWeek e.week) / (fa.cE + fa.cF)) := by
  have hamt := stepLog_amount h
  have hpos := stepLog_pos h
  have hne : duePay s e.user e.week (rOf ((next s op).w.totalRewards e.week)) ≠ 0 := by omega
  obtain ⟨W, p, fa, _, hp, hple, _, _, hfa, hE, hF, hme, hmf, heq⟩ := duePay_pos hne
  have hb : boostedAmount fa (rOf ((next s op).w.totalRewards e.week)) (s.userTotal e.user)
      (s.b.farmSupplyWeek e.week) (entryE p e.week) (s.w.totalEnergy e.week) ≠ 0 := by
    rw [← heq]; exact hne
  have hR := boostedAmount_R_pos hb
  obtain ⟨tok, R, hl⟩ := rOf_pos hR
  rw [hl, rOf_single] at heq hR
  exact ⟨fa, p, tok, R, hfa, hp, hple, hl, hR, hE, hF, hme, hmf, by rw [hamt, hl, rOf_single, heq]; rfl⟩

/-- **every logged payment of every history is the formula**: each entry of the paid log of a
    history from a freshly deployed farm was produced by an operation `op` of the history, executed
    in the state `s` reached by the operations before it, and satisfies the statement of
    `boosted_log_amount` there. -/
theorem boosted_log_amount_run (kind : Kind) (same : Bool) (dsc pb : Nat) (produce : Bool)
    (users : List Nat) (e0 : Nat) (ops : List Op) (e : Entry)
    (h : e ∈ paidLog (init kind same dsc pb produce users e0) ops) :
    ∃ ops1 op ops2, ops = ops1 ++ op :: ops2 ∧
      let s := run (init kind same dsc pb produce users e0) ops1
      e ∈ stepLog s op ∧
      ∃ fa p tok R,
        factorsInForce s e.week = some fa ∧
        s.w.progress e.user = some p ∧ p.week ≤ e.week ∧
        (next s op).w.totalRewards e.week = [(tok, R)] ∧ R ≠ 0 ∧
        s.w.totalEnergy e.week ≠ 0 ∧ s.b.farmSupplyWeek e.week ≠ 0 ∧
        fa.minE ≤ entryE p e.week ∧ fa.minF ≤ s.userTotal e.user ∧
        e.amount =
          min (fa.maxF * R * s.userTotal e.user / s.b.farmSupplyWeek e.week)
            ((R * fa.cE * entryE p e.week / s.w.totalEnergy e.week +
              R * fa.cF * s.userTotal e.user / s.b.farmSupplyWeek e.week) / (fa.cE + fa.cF)) := by
  obtain ⟨ops1, op, ops2, hsplit, he⟩ := C11Once.boosted_log_entries ops _ e h
  exact ⟨ops1, op, ops2, hsplit, he, boosted_log_amount _ op e he⟩

/-- **the exact ledger equation, for all weeks and all operations.**  A successful operation whose
    boosted claim runs for `u` raises `paidW w` — for EVERY week `w` — by exactly `duePay s u w R_w`
    (0 outside `current − 4 ≤ w < current`, before `u`'s stored progress week, without total energy or
    recorded supply, below a minimum; else the formula on the pre-state's cells and the week's frozen
    pool `R_w` after the operation); an operation without claim user leaves `paidW` alone. -/
theorem boosted_step_amounts {s s' : St} {op : Op} {o : Out} (h : step s op = some (s', o)) :
    (∀ u, claimUser s op = some u →
      ∀ w, s'.b.paidW w = s.b.paidW w + duePay s u w (rOf (s'.w.totalRewards w))) ∧
    (claimUser s op = none → s'.b.paidW = s.b.paidW) :=
  ⟨fun _ hu => step_amt h hu, step_paid_of_no_claimUser h⟩

/-- **zero below the minima.**  If the claim user's recorded energy decayed to week `w` is below the
    week's minimum energy, or his total farm position is below the week's minimum position (or the
    week has no total energy / no recorded farm supply), then the operation logs NOTHING for week `w`
    and the week's boosted ledger does not move. -/
theorem boosted_log_absent_below_min {s s' : St} {op : Op} {o : Out} {u w : Nat} {fa : Factors}
    {p : Weekly.ClaimProgress} (h : step s op = some (s', o)) (hu : claimUser s op = some u)
    (hfa : factorsInForce s w = some fa) (hp : s.w.progress u = some p)
    (hb : s.w.totalEnergy w = 0 ∨ s.b.farmSupplyWeek w = 0 ∨ entryE p w < fa.minE ∨
      s.userTotal u < fa.minF) :
    s'.b.paidW w = s.b.paidW w ∧ ∀ e ∈ stepLog s op, e.week ≠ w := by
  have hz : ∀ R, duePay s u w R = 0 := fun R => duePay_zero_of_below hfa hp hb
  refine ⟨by rw [step_amt h hu w, hz]; rfl, stepLog_none_of_duePay_zero hu (hz _)⟩

/-- **the factors in force are the ring's entry for the week** (reachable states; the hypotheses are
    those of `Farm.reachable_paidInv`: distinct accounts, every `setBoostedYieldsFactors` of the
    history installs `cE + cF ≠ 0`): for a week of the claim window the factors used by the formula
    are `BCfg.facFor week` of the STORED config — shifting the 5-slot ring to the current week does
    not change them. -/
theorem factors_in_force_ring (kind : Kind) (same : Bool) (dsc pb : Nat) (produce : Bool)
    (users : List Nat) (e0 : Nat) (hnd : users.Nodup) (ops : List Op) (hg : GoodOps ops) (W w : Nat) :
    let s := run (init kind same dsc pb produce users e0) ops
    s.week = some W → w < W → W < w + 5 → factorsInForce s w = facAt s.b.cfg w := by
  intro s hW h1 h2
  exact factorsInForce_facAt (reachable_paidInv kind same dsc pb produce users e0 hnd ops hg W hW) h1 h2

/-- **the frozen pool is what was cut into the week** (reachable states, same hypotheses): for a
    week `w` of the claim window frozen with pool `R`, `R` plus what is still accumulated for `w` plus
    what was collected from it as undistributed is exactly `cutW w`; in particular `R ≤ cutW w`,
    and `remaining w + paidW w = R`. -/
theorem frozen_pool_le_cut (kind : Kind) (same : Bool) (dsc pb : Nat) (produce : Bool)
    (users : List Nat) (e0 : Nat) (hnd : users.Nodup) (ops : List Op) (hg : GoodOps ops)
    (W w tok R : Nat) :
    let s := run (init kind same dsc pb produce users e0) ops
    s.week = some W → W ≤ w + 4 → s.w.totalRewards w = [(tok, R)] →
      tok = REW ∧ s.b.remaining w + s.b.paidW w = R ∧
      R + s.b.accum w + s.b.collW w = s.b.cutW w := by
  intro s hW hw hfr
  have hP := reachable_paidInv kind same dsc pb produce users e0 hnd ops hg W hW
  have hshape : (pmv s).TR w = [] ∨ ∃ R', (pmv s).TR w = [(REW, R')] := hP.rel.shape w hw
  have htr : (pmv s).TR w = [(tok, R)] := hfr
  have htok : tok = REW := by
    rcases hshape with h0 | ⟨R', h1⟩
    · rw [h0] at htr; cases htr
    · rw [h1] at htr
      simp only [List.cons.injEq, Prod.mk.injEq, and_true] at htr
      exact htr.1.symm
  subst htok
  have h1 : s.b.remaining w + s.b.paidW w = R := hP.rel.frozen w R hw htr
  have h2 : s.b.accum w + s.b.remaining w + s.b.paidW w + s.b.collW w = s.b.cutW w :=
    C11Pool.week_pool_life_cycle kind same dsc pb produce users e0 ops w
  exact ⟨rfl, h1, by omega⟩

/-- **R is the boosted share accumulated that week** (reachable states, same hypotheses): for a
    week `w ≥ 1` of the claim window (`current − 4 ≤ w < current`) frozen with pool `R`, `R` is EXACTLY
    `cutW w` — everything `take_reward_slice` ever cut into week `w`'s pool: nothing is left in the
    accumulator of a frozen week (`Farm.AccInv`) and no week of the window has been collected
    (`Farm.MarkInv`).  So the `R` of `boosted_log_amount` is the boosted share accumulated in `week`. -/
theorem frozen_pool_eq_cut (kind : Kind) (same : Bool) (dsc pb : Nat) (produce : Bool)
    (users : List Nat) (e0 : Nat) (hnd : users.Nodup) (ops : List Op) (hg : GoodOps ops)
    (W w tok R : Nat) :
    let s := run (init kind same dsc pb produce users e0) ops
    s.week = some W → 1 ≤ w → w < W → W ≤ w + 4 → s.w.totalRewards w = [(tok, R)] →
      R = s.b.cutW w := by
  intro s hW h1 hlt h4 hfr
  have hcut : R + s.b.accum w + s.b.collW w = s.b.cutW w :=
    (frozen_pool_le_cut kind same dsc pb produce users e0 hnd ops hg W w tok R hW h4 hfr).2.2
  have hacc : s.b.accum w = 0 :=
    (reachable_accInv kind same dsc pb produce users e0 ops W hW).acc w hlt h4 (by rw [hfr]; simp)
  have hWc : W = curWeek s := week_curWeek hW
  have hmark : s.lastCollect = 0 ∨ s.lastCollect + 5 ≤ curWeek s :=
    reachable_markInv kind same dsc pb produce users e0 ops
  have hcoll : s.b.collW w = 0 :=
    C11Pool.uncollected_above_marker kind same dsc pb produce users e0 ops w
      (show s.lastCollect < w by omega)
  omega

/-! ### 2. the denominator -/

/-- **denominator at close.**  After ANY history of a farm and for every week `w` that has not been
    cleared (in particular every claimable week: `lastGlobalUpdateWeek ≤ w + 4`), the stored
    `totalEnergyForWeek(w)` — the `E` of the boosted formula — equals `closeSum`: the sum over ALL
    participants of their recorded energies decayed to week `w`, as recorded in the last state of the
    history in which `w` was the running global week (0 if the farm's weekly module was never touched
    during `w`).  Equality, not `≤`. -/
theorem denominator_at_close (kind : Kind) (same : Bool) (dsc pb : Nat) (produce : Bool)
    (users : List Nat) (e0 : Nat) (ops : List Op) (w : Nat) :
    let s0 := init kind same dsc pb produce users e0
    let s := run s0 ops
    s.w.lastGlobalUpdateWeek ≤ w + 4 → s.w.totalEnergy w = closeSum w s0 ops 0 := by
  intro s0 s hle
  have hx : s.w.totalEnergy w = closeSum w s0 ops 0 ∨
      (s.w.totalEnergy w = 0 ∧ w + 4 < s.w.lastGlobalUpdateWeek) :=
    closeSum_exact_from w ops (init_winv kind same dsc pb produce users e0)
      (init_CloseInv kind same dsc pb produce users e0 w)
  rcases hx with h | ⟨_, h⟩
  · exact h
  · exact absurd hle (by omega)

/-- the same without the side condition: equal, or cleared (possible only once the global week is
    at least `w + 5`, when nobody can claim `w` any more) -/
theorem denominator_at_close_or_cleared (kind : Kind) (same : Bool) (dsc pb : Nat) (produce : Bool)
    (users : List Nat) (e0 : Nat) (ops : List Op) (w : Nat) :
    let s0 := init kind same dsc pb produce users e0
    let s := run s0 ops
    s.w.totalEnergy w = closeSum w s0 ops 0 ∨
      (s.w.totalEnergy w = 0 ∧ w + 4 < s.w.lastGlobalUpdateWeek) :=
  closeSum_exact_from w ops (init_winv kind same dsc pb produce users e0)
    (init_CloseInv kind same dsc pb produce users e0 w)

/-- while `w` IS the running global week the sum is over the current records (this is the value
    `closeSum` remembers when the week is left) -/
theorem denominator_running_week (kind : Kind) (same : Bool) (dsc pb : Nat) (produce : Bool)
    (users : List Nat) (e0 : Nat) (ops : List Op) :
    let s := run (init kind same dsc pb produce users e0) ops
    s.w.totalEnergy s.w.lastGlobalUpdateWeek = Weekly.recordedSum s.w s.w.lastGlobalUpdateWeek :=
  (reachable_winv kind same dsc pb produce users e0 ops).1.energy_eq

/-- **a closed week's denominator is frozen.**  After ANY history, whatever the next operation
    (all 28 operation kinds, all arguments): the global week never moves back, and every week other
    than the (new) global week keeps its total energy — except week `lastGlobalUpdateWeek − 5`, which
    is cleared. -/
theorem closed_week_frozen (kind : Kind) (same : Bool) (dsc pb : Nat) (produce : Bool)
    (users : List Nat) (e0 : Nat) (ops : List Op) (op : Op) :
    let s := run (init kind same dsc pb produce users e0) ops
    let s' := next s op
    s.w.lastGlobalUpdateWeek ≤ s'.w.lastGlobalUpdateWeek ∧
    ∀ w, w ≠ s'.w.lastGlobalUpdateWeek →
      s'.w.totalEnergy w = s.w.totalEnergy w ∨
        (s'.w.totalEnergy w = 0 ∧ w + 5 = s'.w.lastGlobalUpdateWeek) := by
  intro s s'
  have hE := next_EStep (reachable_winv kind same dsc pb produce users e0 ops) op
  exact ⟨hE.mono, hE.frame⟩

/-- the denominator a logged payment was computed with is not moved by the paying operation: after
    ANY history, for every entry the next operation logs, `totalEnergyForWeek(week)` is the same
    before and after the operation (so the `E` of `boosted_log_amount` is also the stored value
    afterwards — the one `denominator_at_close` identifies) -/
theorem boosted_log_denominator_kept (kind : Kind) (same : Bool) (dsc pb : Nat) (produce : Bool)
    (users : List Nat) (e0 : Nat) (ops : List Op) (op : Op) (e : Entry) :
    let s := run (init kind same dsc pb produce users e0) ops
    e ∈ stepLog s op → (next s op).w.totalEnergy e.week = s.w.totalEnergy e.week := by
  intro s he
  exact stepLog_energy_kept (reachable_winv kind same dsc pb produce users e0 ops) he

/-! ### non-vacuity -/

/-- two users with equal positions and different energies; the week-1 pool of 2500 is claimed in
    week 2 by user 1 (873), then by user 2 (1626); user 1's second claim logs nothing -/
def exOps : List Op :=
  [.setFactors OWNER ⟨10, 3, 2, 1, 1⟩, .setPct OWNER 2500, .setEnergy 1 1000000 0 1000,
   .setEnergy 2 3000000 0 1000, .enter 1 none 100000000 [], .enter 2 none 100000000 [],
   .advance 10 6, .claim 1 none [(1, 100000000)], .advance 10 7, .claimBoosted 1 none,
   .claimBoosted 2 none, .claimBoosted 1 none]

local notation "exInit" => init Kind.mint false 1000000000000 1000 true [1, 2] 0

/-- the state before user 1's boosted claim (week 2) and what is due to him for week 1 -/
theorem ex_before :
    let s := run exInit (exOps.take 9)
    s.week = some 2 ∧ s.b.paidW 1 = 0 ∧
    factorsInForce s 1 = some ⟨10, 3, 2, 1, 1⟩ ∧ s.userTotal 1 = 100000000 ∧
    s.b.farmSupplyWeek 1 = 200000000 ∧ s.w.totalEnergy 1 = 3994000 ∧
    (s.w.progress 1).map (fun p => (p.week, entryE p 1)) = some (1, 994000) ∧
    (next s (.claimBoosted 1 none)).b.paidW 1 = 873 ∧
    (next s (.claimBoosted 1 none)).w.totalRewards 1 = [(REW, 2500)] := by
  decide

/-- non-vacuity of `boosted_log_amount`: user 1's `claimBoostedRewards` in week 2 logs an entry for
    week 1 with a positive amount — and by `boosted_log_amount` that amount is
    `min ⌊10·2500·10⁸/(2·10⁸)⌋ ⌊(⌊2500·3·994000/3994000⌋ + ⌊2500·2·10⁸/(2·10⁸)⌋)/5⌋ = 873` -/
example : ∃ e ∈ stepLog (run exInit (exOps.take 9)) (.claimBoosted 1 none),
    e.week = 1 ∧ e.user = 1 ∧ e.amount = 873 ∧
    873 = min (10 * 2500 * 100000000 / 200000000)
      ((2500 * 3 * 994000 / 3994000 + 2500 * 2 * 100000000 / 200000000) / (3 + 2)) := by
  obtain ⟨_, h0, _, _, _, _, _, h1, _⟩ := ex_before
  have hsum := stepLog_sum (run exInit (exOps.take 9)) (.claimBoosted 1 none) 1
  rw [h1, h0, Nat.zero_add] at hsum
  obtain ⟨e, he, hw, _⟩ := exists_of_logSum_pos (l := stepLog _ _) (w := 1) (by rw [← hsum]; decide)
  have hu := (stepLog_window he).1
  simp only [claimUser, Option.getD_none, Option.some.injEq] at hu
  refine ⟨e, he, hw, hu.symm, ?_, by decide⟩
  have : e.amount = (next (run exInit (exOps.take 9)) (.claimBoosted 1 none)).b.paidW e.week -
      (run exInit (exOps.take 9)).b.paidW e.week := by
    obtain ⟨u, r, hcu, hs, hm⟩ := stepLog_cases he
    rw [next_of_some hs]
    exact (mem_entriesOf hm).2.2.2
  rw [this, hw, h1, h0]

theorem ex_state :
    let s := run exInit exOps
    s.b.paidW 1 = 2499 ∧ s.b.cutW 1 = 2500 ∧ s.w.lastGlobalUpdateWeek = 2 ∧
    s.w.totalEnergy 1 = 3994000 ∧ Weekly.recordedSum s.w 1 = 3986000 := by
  decide

/-- non-vacuity of `frozen_pool_eq_cut`: after the history week 1 (claim window of week 2) is frozen
    with `R = 2500`, and that is everything that was cut into its pool -/
example : (run exInit exOps).week = some 2 ∧ (run exInit exOps).w.totalRewards 1 = [(REW, 2500)] ∧
    (run exInit exOps).b.cutW 1 = 2500 := by
  have h1 : (run exInit exOps).week = some 2 ∧ (run exInit exOps).w.totalRewards 1 = [(REW, 2500)] := by
    decide
  refine ⟨h1.1, h1.2, ?_⟩
  exact (frozen_pool_eq_cut Kind.mint false 1000000000000 1000 true [1, 2] 0 (by decide) exOps
    (goodOps_of_all (by decide)) 2 1 REW 2500 h1.1 (by decide) (by decide) (by decide) h1.2).symm

/-- non-vacuity of the history-level theorems: the log of the whole history holds 873 + 1626 = 2499
    for week 1 (of a pool of 2500) -/
example : logSum (paidLog exInit exOps) 1 = 2499 ∧
    ∃ e ∈ paidLog exInit exOps, e.week = 1 ∧ 0 < e.amount := by
  have h0 : (run exInit exOps).b.paidW 1 = logSum (paidLog exInit exOps) 1 :=
    C11Once.boosted_log_complete Kind.mint false 1000000000000 1000 true [1, 2] 0 exOps 1
  have h : logSum (paidLog exInit exOps) 1 = 2499 := h0.symm.trans ex_state.1
  exact ⟨h, exists_of_logSum_pos (by rw [h]; decide)⟩

/-- non-vacuity of `denominator_at_close`: week 1 was closed with Σ = 994000 + 3000000, although the
    CURRENT records decayed to week 1 sum to 3986000 only (both users' records were replaced by
    their week-2 energies when they claimed) -/
example : closeSum 1 exInit exOps 0 = 3994000 ∧
    Weekly.recordedSum (run exInit exOps).w 1 ≠ (run exInit exOps).w.totalEnergy 1 := by
  obtain ⟨_, _, h3, h4, h5⟩ := ex_state
  have h := denominator_at_close Kind.mint false 1000000000000 1000 true [1, 2] 0 exOps 1
  simp only [h3] at h
  exact ⟨(h (by decide)).symm.trans h4, by rw [h4, h5]; decide⟩

end Mx.C11Amounts
