/-
  C09 — the base-asset supply of `base_supply_delta` tied to real balances.

  Statement (C09): "Locking burns the base asset and issues locked tokens 1:1; … the penalty is
  split between burn and the fees collector by the configured percentage, so base-asset supply can
  grow only through unlocks of previously burned amounts and reward emission."

  `Props/C09.lean` (`base_supply_delta`) relates the ghost counter `baseSupply` to the mint / burn
  counters.  Here the counter is shown to BE the sum of the base-asset balances the model's token
  effects maintain (`s.base a`: users, any caller, token-unstake — the only contract that ever
  holds base tokens), so the two ledgers become theorems about Σ balances.  The harness computes
  `bs` exactly so (Σ of the real ESDT balances of every user, every contract, owner and farm,
  w_energy.rs `snapshot`) and the correspondence run compares it, every per-account balance
  (`u<i>=<base>/…`, `un=…/<base>`) and all the counters used below (`bs ci pp pb co mu me bl bc vl`)
  after every transaction.

  `sumN f N` = Σ_{a < N} f a.  `N` is any bound on the addresses in play: above the `users` funded
  accounts, above token-unstake, and above every caller of `unlockTokens` / `claimUnlockedTokens`
  in the history (`Op.PayeeBelow N`; nobody else is ever paid base tokens).
-/
import MxModel.Lemmas.EnergyBase

namespace Mx.C09Supply
open Mx.Energy

/-- after every history the supply counter is exactly the sum of all base-asset balances, and no
    address beyond the bound holds any -/
theorem supply_is_sum_of_balances (c : Cfg) (ops : List Op) (N : Nat) (hu : c.users < N)
    (hU : UNSTAKE < N) (hw : ∀ op ∈ ops, op.PayeeBelow N) :
    let s := run (init c) ops
    s.baseSupply = sumN s.base N ∧ (∀ a, N ≤ a → s.base a = 0) ∧
    s.baseInit = sumN (init c).base N := by
  intro s
  have h := run_binv ops (init_binv c hu) hU hw
  exact ⟨h.sum, h.out, h.binit.trans (init_binv c hu).sum⟩

/-- one transaction keeps "counter = Σ balances" (any operation, any arguments) -/
theorem supply_is_sum_step {s s' : St} {op : Op} {o : Out} {N B : Nat} (hi : BaseInv s N B)
    (hU : UNSTAKE < N) (hw : op.PayeeBelow N) (h : step s op = some (s', o)) : BaseInv s' N B :=
  step_binv hi hU hw h

/-- C09's supply clause about the SUM OF BALANCES, for every history:
    (1) Σ balances now + burned by lock + burned by cancelled unbonding
          = Σ balances at deployment + minted by unlock + minted by early unlock;
    (2) Σ balances now + locked tokens in circulation + penalties pending in the unbond queue
          + penalties burned + penalties burned-and-counted by the fees collector
          = Σ balances at deployment + reward emission (`lockVirtual`, which mints no base asset);
    (3) hence Σ balances never exceeds the initial supply plus reward emission, and what was
        burned at lock and not yet unlocked is exactly the locked supply still outstanding:
        the base supply can grow only through unlocks of previously burned amounts and emission. -/
theorem base_balances_ledger (c : Cfg) (hb : c.burnPct ≤ MAXPCT) (ops : List Op) (N : Nat)
    (hu : c.users < N) (hU : UNSTAKE < N) (hw : ∀ op ∈ ops, op.PayeeBelow N) :
    let s := run (init c) ops
    let now := sumN s.base N
    let start := sumN (init c).base N
    now + s.burnLock + s.burnCancel = start + s.mintUnlock + s.mintEarly ∧
    now + s.circ + s.pendingPenalty + s.penBurned + s.collected = start + s.virtLocked ∧
    now ≤ start + s.virtLocked ∧ start = c.users * c.funds := by
  intro s now start
  obtain ⟨h1, _, h3⟩ := supply_is_sum_of_balances c ops N hu hU hw
  obtain ⟨⟨l, cv⟩, _⟩ : SInv (run (init c) ops) := run_sinv ops (init_sinv c hb)
  have hs : sumN (init c).base N = c.users * c.funds := ((init_binv c hu).sum).symm
  have aux : ∀ (x y bs bi : Nat), bs = x → bi = y →
      bs + s.burnLock + s.burnCancel = bi + s.mintUnlock + s.mintEarly →
      bs + s.circ + s.pendingPenalty + s.penBurned + s.collected = bi + s.virtLocked →
      x + s.burnLock + s.burnCancel = y + s.mintUnlock + s.mintEarly ∧
      x + s.circ + s.pendingPenalty + s.penBurned + s.collected = y + s.virtLocked ∧
      x ≤ y + s.virtLocked := by
    intro x y bs bi e1 e2 a b
    subst e1 e2
    exact ⟨a, b, by omega⟩
  obtain ⟨r1, r2, r3⟩ := aux _ _ _ _ h1 h3 l cv
  exact ⟨r1, r2, r3, hs⟩

/-- non-vacuity: the history of Props/C09's example (lock, early unlock, failed and successful
    claim, reduction, second early unlock, cancelled unbonding) with a third-party caller; the sum
    of the balances of the accounts 0…204 is the counter, token-unstake still holds the remainder of a pending early unlock,
    and the two ledgers hold with non-zero entries everywhere -/
example :
    let c : Cfg := { epoch := 5, opts := [(360, 4000), (720, 6000), (1440, 8000)], unbond := 10,
                     burnPct := 2500, minLock := 4, cooldown := 6, users := 2, funds := 1000000 }
    let ops : List Op :=
      [.lock 1 100000 1440 0, .cfg (.whitelist 9), .lockVirtual 9 777 360 2 2, .advance 545,
       .unlockEarly 1 1 10000, .claim 1, .advance 555, .claim 1, .reduce 1 1 20000 360,
       .unlockEarly 1 1 5000, .cancel 1, .unlockEarly 1 1 4000, .advance 1440, .unlock 1 [(1, 1000)]]
    let s := run (init c) ops
    (∀ op ∈ ops, op.PayeeBelow 205) ∧
    s.baseSupply = 1905931 ∧ s.base 1 = 904514 ∧ s.base 2 = 1000000 ∧ s.base UNSTAKE = 1417 ∧
    s.base 1 + s.base 2 + s.base UNSTAKE = s.baseSupply ∧
    s.burnLock = 100000 ∧ s.burnCancel = 1771 ∧ s.mintUnlock = 1000 ∧ s.mintEarly = 6702 ∧
    s.virtLocked = 777 ∧ s.pendingPenalty = 2583 := by
  decide

end Mx.C09Supply
