/-
  C15 composed with the MODELS of the metastaking proxy's callees: the pair with its safe-price
  views (Core/Pair.lean, Core/SafePrice.lean) and the staking farm (Core/Staking.lean).

  Statement (C15): "… the staked value it registers is the pool's safe price of the position, not
  the spot price", and "… an unbond token for exactly the staking-token amount obtained from the
  removed liquidity".
  In Props/C15.lean the value `r.safe` and the pair's two payments are unconstrained arguments
  ("callee answers"); `stake_value_is_safe_price` only says `toStaking = r.safe`.  Here the answer
  is tied to the callee models:
  * farm-staking-proxy's `get_lp_tokens_safe_price(lp)` calls the pair's
    `updateAndGetTokensForGivenPositionWithSafePrice(lp)` (external_contracts_interactions.rs) =
    `SafePrice.updateAndGetPosition` = `getLpTokensSafePriceByDefaultOffset`, and keeps the amount
    of the staking token (`safeValue`).  For every reachable pair state that is
    `⌊lp · avg r / avg S⌋` with the averages of the START-OF-ROUND reserves and LP supply over the
    last `min(now − oldest, 600)` rounds (`safe_value_is_twap`, from C13) — a function of the ghost
    log only, not of the current reserves;
  * hence operations executed in the current round (a swap of any size, liquidity moves) do not
    change the value the proxy registers in that same round (`safe_value_same_round`,
    `stake_value_not_movable_within_round`), while they do move the spot valuation
    `getTokensForGivenPosition` (separation example at the end);
  * the unbond amount is the pair model's pro-rata payout `⌊lp · r / S⌋` of the removed LP
    (`unbond_is_pool_share`: proxy ∘ pair ∘ staking farm);
  * `RespPos` for `claim` is discharged against `Staking.claimNewValue` (`claim_amount_from_staking_model`).
  Only property theorems live here.
-/
import MxModel.Props.C13
import MxModel.Lemmas.PairSpec
import MxModel.Lemmas.DualYieldStaking
import MxModel.Lemmas.DualYieldLife

namespace Mx.C15Compose
open Mx.DualYield

/-- what `get_lp_tokens_safe_price(lp)` of the proxy obtains from the pair in state `p`: the pair's
    `updateAndGetTokensForGivenPositionWithSafePrice(lp)`, of which the proxy keeps the
    staking-token side (`first`: the staking token is the pair's first token) -/
def safeValue (p : Pair.St) (first : Bool) (lp : Nat) : Option Nat :=
  (SafePrice.updateAndGetPosition p lp).map fun r => if first then r.1 else r.2

/-- the spot valuation the proxy does NOT use: `getTokensForGivenPosition(lp)` -/
def spotValue (p : Pair.St) (first : Bool) (lp : Nat) : Nat :=
  if first then (Pair.viewTokensForPosition p lp).1 else (Pair.viewTokensForPosition p lp).2

/-- the start-of-round log of the staking-token side -/
def lSide (first : Bool) (log : SafePrice.Log) : Nat → Nat :=
  if first then SafePrice.l1 log else SafePrice.l2 log

/-! ### the registered value is the TWAP valuation -/

/-- **the value the proxy asks for is the TWAP valuation.**  In every reachable state of the pair
    model (any history, any ring capacity) whose oldest retained observation is from an earlier
    round, the answer to the proxy's safe-price call for `lp` LP tokens is
    `⌊lp · avg r / avg S⌋`: `avg` = floor average, over the window
    `(now − min(now − oldest, 600), now]`, of the reserve of the staking token resp. the LP supply
    that were in effect at the START of each round (`G.log`, C13). -/
theorem safe_value_is_twap (t sp : Nat) (ad : Option Nat) (cap : Nat) (hc : 1 ≤ cap)
    (ops : List Pair.Op) (old : Pair.Obs) (first : Bool) (lp : Nat) :
    let g := SafePrice.grun (SafePrice.ginit t sp ad cap) ops
    SafePrice.oldest g.s.sp = some old → old.round < g.s.round →
      safeValue g.s first lp =
        some (lp * SafePrice.avg (lSide first g.log)
                (g.s.round - min (g.s.round - old.round) 600) g.s.round /
              SafePrice.avg (SafePrice.lS g.log)
                (g.s.round - min (g.s.round - old.round) 600) g.s.round) := by
  intro g hold hlt
  have hv := (C13.offset_views g.s 0 0 none lp).2.2.2.2.2.2 old hold (Nat.le_of_lt hlt)
  have he := C13.safe_price_eq t sp ad cap hc ops old
    (g.s.round - min (g.s.round - old.round) 600) g.s.round lp hold (by omega) (by omega)
    (Nat.le_refl _)
  unfold safeValue SafePrice.updateAndGetPosition
  rw [hv.2, he.2.2]
  cases first <;> rfl

/-- **`stakeFarmTokens` registers the TWAP valuation.**  If the recorded safe-price answer is the
    one the pair model gives for the LP amount `a` of the position staked, the value the proxy hands
    to the staking farm as `staked_token_amount` is that TWAP valuation (and not 0). -/
theorem stake_registers_twap (t sp : Nat) (ad : Option Nat) (cap : Nat) (hc : 1 ≤ cap)
    (ops : List Pair.Op) (old : Pair.Obs) (first : Bool)
    {s s' : St} {c lpN a : Nat} {auth : Bool} {ms : List (Nat × Nat)} {r : StakeResp} {o : Out}
    (h : stake s c auth lpN a ms r = some (s', o)) :
    let g := SafePrice.grun (SafePrice.ginit t sp ad cap) ops
    SafePrice.oldest g.s.sp = some old → old.round < g.s.round →
    safeValue g.s first a = some r.safe →
      o.toStaking =
        a * SafePrice.avg (lSide first g.log)
              (g.s.round - min (g.s.round - old.round) 600) g.s.round /
            SafePrice.avg (SafePrice.lS g.log)
              (g.s.round - min (g.s.round - old.round) 600) g.s.round ∧ o.toStaking ≠ 0 := by
  intro g hold hlt hrec
  obtain ⟨q, _, _, _, hsafe, _, rfl⟩ := stake_spec h
  have := safe_value_is_twap t sp ad cap hc ops old first a hold hlt
  rw [hrec] at this
  simp only [Option.some.injEq] at this
  exact ⟨this, hsafe⟩

/-- **`claimDualYield` re-registers the TWAP valuation** of the LP part of the position claimed with
    (`o.lpReleased` = the `into_part` of the LP-farm amount) as the new farming amount. -/
theorem claim_registers_twap (t sp : Nat) (ad : Option Nat) (cap : Nat) (hc : 1 ≤ cap)
    (ops : List Pair.Op) (old : Pair.Obs) (first : Bool)
    {s s' : St} {c d x : Nat} {auth : Bool} {r : ClaimResp} {o : Out}
    (h : claim s c auth d x r = some (s', o)) :
    let g := SafePrice.grun (SafePrice.ginit t sp ad cap) ops
    SafePrice.oldest g.s.sp = some old → old.round < g.s.round →
    safeValue g.s first o.lpReleased = some r.safe →
      o.toStaking =
        o.lpReleased * SafePrice.avg (lSide first g.log)
              (g.s.round - min (g.s.round - old.round) 600) g.s.round /
            SafePrice.avg (SafePrice.lS g.log)
              (g.s.round - min (g.s.round - old.round) 600) g.s.round ∧ o.toStaking ≠ 0 := by
  intro g hold hlt hrec
  obtain ⟨s1, p, _, _, hsafe, _, rfl⟩ := claim_spec h
  have := safe_value_is_twap t sp ad cap hc ops old first p hold hlt
  rw [hrec] at this
  simp only [Option.some.injEq] at this
  exact ⟨this, hsafe⟩

/-! ### manipulation resistance within a round -/

private theorem avg_congr (f' f : Nat → Nat) (a b : Nat) (h : ∀ k, k ≤ b → f' k = f k) :
    SafePrice.avg f' a b = SafePrice.avg f a b := by
  unfold SafePrice.avg
  rw [SafePrice.rsum_congr f' f (fun k _ hk => h k hk)]

/-- **operations of the current round do not move the registered value.**  Take any reachable pair
    state and any further operations `mid` that leave the round unchanged (swaps of any size,
    liquidity added or removed, fee configuration, … — everything but the clock).  If the
    default-offset window is the same before and after (it is whenever the retained observations
    span at least 600 rounds before and after, or the oldest observation is not overwritten), the
    safe value the proxy would register is the same before and after `mid`. -/
theorem safe_value_same_round (t sp : Nat) (ad : Option Nat) (cap : Nat) (hc : 1 ≤ cap)
    (ops mid : List Pair.Op) (old old' : Pair.Obs) (first : Bool) (lp : Nat) :
    let g := SafePrice.grun (SafePrice.ginit t sp ad cap) ops
    let g' := SafePrice.grun (SafePrice.ginit t sp ad cap) (ops ++ mid)
    g'.s.round = g.s.round →
    SafePrice.oldest g.s.sp = some old → SafePrice.oldest g'.s.sp = some old' →
    old.round < g.s.round → old'.round < g.s.round →
    min (g.s.round - old'.round) 600 = min (g.s.round - old.round) 600 →
      safeValue g'.s first lp = safeValue g.s first lp := by
  intro g g' hr hold hold' hlt hlt' hwin
  have h1 := safe_value_is_twap t sp ad cap hc ops old first lp hold hlt
  have h2 := safe_value_is_twap t sp ad cap hc (ops ++ mid) old' first lp hold' (by rw [hr]; exact hlt')
  have hlog : ∀ k, k ≤ g.s.round → g'.log k = g.log k := by
    intro k hk
    show (SafePrice.grun _ (ops ++ mid)).log k = _
    rw [SafePrice.grun_append]
    exact SafePrice.grun_log_stable mid _ hk
  have hS := avg_congr (SafePrice.lS g'.log) (SafePrice.lS g.log)
    (g.s.round - min (g.s.round - old.round) 600) g.s.round
    (fun k hk => by show (g'.log k).S = (g.log k).S; rw [hlog k hk])
  have hX := avg_congr (lSide first g'.log) (lSide first g.log)
    (g.s.round - min (g.s.round - old.round) 600) g.s.round
    (fun k hk => by
      cases first
      · show (g'.log k).r2 = (g.log k).r2; rw [hlog k hk]
      · show (g'.log k).r1 = (g.log k).r1; rw [hlog k hk])
  rw [h1, h2]
  show some (lp * SafePrice.avg (lSide first g'.log)
                (g'.s.round - min (g'.s.round - old'.round) 600) g'.s.round /
              SafePrice.avg (SafePrice.lS g'.log)
                (g'.s.round - min (g'.s.round - old'.round) 600) g'.s.round) = _
  rw [hr, hwin, hX, hS]

/-- … so a trade placed in the round of the stake cannot change what `stakeFarmTokens` registers:
    if the stake succeeds with the pair model's answer taken BEFORE the same-round operations `mid`,
    the answer taken AFTER them is the same number, hence so is `staked_token_amount`. -/
theorem stake_value_not_movable_within_round (t sp : Nat) (ad : Option Nat) (cap : Nat)
    (hc : 1 ≤ cap) (ops mid : List Pair.Op) (old old' : Pair.Obs) (first : Bool)
    {s s' : St} {c lpN a : Nat} {auth : Bool} {ms : List (Nat × Nat)} {r : StakeResp} {o : Out}
    (h : stake s c auth lpN a ms r = some (s', o)) :
    let g := SafePrice.grun (SafePrice.ginit t sp ad cap) ops
    let g' := SafePrice.grun (SafePrice.ginit t sp ad cap) (ops ++ mid)
    g'.s.round = g.s.round →
    SafePrice.oldest g.s.sp = some old → SafePrice.oldest g'.s.sp = some old' →
    old.round < g.s.round → old'.round < g.s.round →
    min (g.s.round - old'.round) 600 = min (g.s.round - old.round) 600 →
    safeValue g.s first a = some r.safe →
      safeValue g'.s first a = some o.toStaking := by
  intro g g' hr hold hold' hlt hlt' hwin hrec
  obtain ⟨q, _, _, _, _, _, rfl⟩ := stake_spec h
  rw [safe_value_same_round t sp ad cap hc ops mid old old' first a hr hold hold' hlt hlt' hwin]
  exact hrec

/-! ### unstake: the unbond amount is the pair's payout for the removed liquidity -/

/-- **unbond = the pool's payout, composed with the pair AND the staking model.**  Let
    `unstakeFarmTokens` succeed in the proxy model; let the pair's two payments in the answer be
    what the pair model pays for removing the LP tokens the LP farm returned (`r.lpOut`, with the
    caller's slippage bounds `m1`, `m2`), and the unbond token the one the staking model creates for
    the staking tokens the proxy passes on.  Then the unbond token is for exactly the pro-rata share
    `⌊lpOut · reserve / supply⌋` of the staking token's reserve at the moment of the exit (the
    pool's spot share — NOT the safe-price value registered at stake time), and the caller receives
    the pro-rata share of the other token. -/
theorem unbond_is_pool_share {s s' : St} {c d x : Nat} {r : UnstakeResp} {o : Out}
    (h : unstake s c d x r = some (s', o))
    {p p' : Pair.St} {m1 m2 : Nat} {po : Pair.Out} (first : Bool)
    (hp : Pair.removeLiq p r.lpOut m1 m2 = some (p', po))
    (hpair : r.stk = (if first then po.v1 else po.v2) ∧ r.other = (if first then po.v2 else po.v1))
    {σ σ' : Staking.St} {proxy : Nat} {pay : Staking.Pay} {so : Staking.Out}
    (hst : Staking.unstakeProxy σ proxy c o.toStaking pay = some (σ', so))
    (hrec : r.unA = so.b) :
    o.unA = (if first then r.lpOut * p.r1 / p.S else r.lpOut * p.r2 / p.S) ∧
    o.o1 = (if first then r.lpOut * p.r2 / p.S else r.lpOut * p.r1 / p.S) ∧
    0 < o.unA ∧ r.lpOut + Pair.MINLIQ ≤ p.S := by
  obtain ⟨s1, q, _, _, rfl⟩ := unstake_spec h
  obtain ⟨_, _, _, _, hmin, hpo, hv1, _, _, hv2, _⟩ := Pair.removeLiq_spec hp
  obtain ⟨_, _, _, _, hb, _⟩ := Staking.unstakeCore_unbond (Staking.unstakeProxy_spec hst).2
  simp only [Option.getD_some] at hb
  have hun : r.unA = r.stk := by rw [hrec, hb]
  subst hpo
  refine ⟨?_, ?_, ?_, hmin⟩
  · show r.unA = _
    rw [hun, hpair.1]
  · show r.other = _
    rw [hpair.2]
  · show 0 < r.unA
    rw [hun, hpair.1]; cases first
    · exact hv2
    · exact hv1

/-! ### claim: `RespPos` from the staking model -/

/-- `claimRewardsWithNewValue(new_farming_amount)`: the staking model's new position is for
    exactly the new amount, which it refuses when zero -/
theorem claimNewValue_amount {σ σ' : Staking.St} {proxy orig nv : Nat} {pay : Staking.Pay}
    {so : Staking.Out} (hst : Staking.claimNewValue σ proxy orig nv pay = some (σ', so)) :
    so.b = nv ∧ 0 < nv ∧ proxy ∈ σ.whitelist := by
  obtain ⟨hw, hcore⟩ := Staking.claimNewValue_spec hst
  simp only [Staking.claimCore, Option.bind_eq_bind, Option.bind_eq_some_iff] at hcore
  obtain ⟨m, _, hfin⟩ := hcore
  simp only [Staking.claimFinish, Option.bind_eq_bind, Option.bind_eq_some_iff, req_eq_some,
    Option.pure_def, Option.some.injEq, Prod.mk.injEq, Option.getD_some] at hfin
  obtain ⟨_, _, _, _, _, _, _, hpos, _, _, _, _, _, rfl⟩ := hfin
  exact ⟨rfl, hpos, hw⟩

/-- **`RespPos` for `claimDualYield`, composed with the staking model.**  Let `claimDualYield`
    succeed in the proxy model and let the staking-farm token in the answer be the one the staking
    model creates when the proxy calls `claimRewardsWithNewValue(o.toStaking)` with the released
    staking-farm position.  Then the new dual-yield token is minted for exactly the re-registered
    safe-price value, never for 0: the callee hypothesis of `C15.no_zero_supply` holds. -/
theorem claim_amount_from_staking_model {s s' : St} {c d x : Nat} {auth : Bool} {r : ClaimResp}
    {o : Out} (h : claim s c auth d x r = some (s', o))
    {σ σ' : Staking.St} {proxy : Nat} {pay : Staking.Pay} {so : Staking.Out}
    (hst : Staking.claimNewValue σ proxy c o.toStaking pay = some (σ', so)) (hrec : r.stA = so.b) :
    r.stA = r.safe ∧ o.dyA = r.safe ∧ r.stA ≠ 0 ∧ RespPos (.claim c auth d x r) := by
  obtain ⟨s1, p, _, _, hsafe, _, rfl⟩ := claim_spec h
  obtain ⟨hb, _, _⟩ := claimNewValue_amount hst
  have hA : r.stA = r.safe := by rw [hrec, hb]
  have hne : r.stA ≠ 0 := by rw [hA]; exact hsafe
  exact ⟨hA, hA, hne, hne⟩

/-! ### non-vacuity and the separation example -/

/-- a pool history: liquidity 10⁶ / 2·10⁶, a trade in round 3, one in round 100, now round 700 -/
def poolHist : List Pair.Op :=
  [.cfg (.setState .active), .addLiq 1000000 2000000 1 1, .advance 3, .swapIn .ab 10000 1,
   .advance 100, .swapIn .ba 5000 1, .advance 700]

/-- a large trade placed in round 700, the round of the stake: it buys the first token with
    800 000 of the second (the staking token in the repo's deployments: `first = false`) -/
def attack : List Pair.Op := [.swapIn .ba 800000 1]

/-- **separation of safe and spot valuation.**  Before the trade both valuations of 100 000 LP
    tokens agree (198 525 staking tokens: the reserves did not move for 600 rounds).  The trade of
    round 700 raises the SPOT valuation of the position to 278 525 staking tokens (+40 %); the
    value the pair model answers to the proxy stays 198 525 and only starts to drift in the next
    round (198 659 in round 701).  The hypotheses of `safe_value_same_round` hold on this history
    (same round, oldest observation 3 before and after), and the proxy model, fed with the pair
    model's answer, registers 198 525 with the staking farm — not 278 525. -/
example :
    let p := Pair.run (Pair.init 300 50 none 65536) poolHist
    let p' := Pair.run (Pair.init 300 50 none 65536) (poolHist ++ attack)
    safeValue p false 100000 = some 198525 ∧ spotValue p false 100000 = 198525 ∧
    safeValue p' false 100000 = some 198525 ∧ spotValue p' false 100000 = 278525 ∧
    safeValue (Pair.run p' [.advance 701]) false 100000 = some 198659 ∧
    p'.round = p.round ∧ (SafePrice.oldest p.sp).map (·.round) = some 3 ∧
    (SafePrice.oldest p'.sp).map (·.round) = some 3 ∧
    (stake init 2 true 7 100000 [] ⟨198525, 1, 198525, 0, 0, 0, 0⟩).map (·.2.toStaking)
      = some 198525 := by
  decide

/-- the hypotheses of `unbond_is_pool_share` and `claim_amount_from_staking_model` are met by
    concrete states: the pair model pays (100 746, 198 525) for 100 000 LP; the staking model
    (history of `Props/C15Run`) re-registers position (2, 500·10¹²) at 700·10¹² for the proxy 101 -/
example :
    (Pair.removeLiq (Pair.run (Pair.init 300 50 none 65536) poolHist) 100000 1 1).map
        (fun q => (q.2.v1, q.2.v2)) = some (100746, 198525) ∧
    (Staking.claimNewValue
        (Staking.run (Staking.init 5 10 1000000000000 2500 2 5000 [1, 2, 101] [101])
          [.topUp 30000, .withdraw 100, .stake 1 none 1000000000000000 [],
           .stakeProxy 101 2 500000000000000 [], .advance 3 0])
        101 2 700000000000000 (2, 500000000000000)).map (fun q => q.2.b) = some 700000000000000 := by
  decide

end Mx.C15Compose
