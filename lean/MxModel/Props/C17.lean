/-
  C17 — Price discovery: phase rules, penalty schedule, pro-rata redemption, price floor.

  Statement: deposits, withdrawals and redemptions are accepted only in their phases, phases
  only advance with block height, the withdrawal penalty follows the documented
  linear-then-fixed schedule and stays in the pool, and the tracked balances equal the
  contract's real holdings throughout the deposit/withdraw phases.  In the redeem phase each
  redeem token pays floor(opposite_pool*amount/total_redeem_supply) exactly once, so total
  payouts never exceed the pool; a launched-token deposit or any withdrawal that would leave
  the price below the configured minimum is rejected.

  Model: Core/PriceDiscovery.lean.  `(s.side t).bal` = tracked pool of token `t`, `.real` = the
  contract's real balance, `.sup` = reported redeem-token supply of nonce `t`, `.h u` = redeem
  tokens of user `u`, `.paid` = cumulative `redeem` payouts out of pool `t`.
  Only property theorems live in this file; helper lemmas are in Lemmas/Pd*.lean.
-/
import MxModel.Lemmas.PdInv

namespace Mx.C17
open Mx.PD

/-! ### phases -/

/-- `getCurrentPhase` is the documented piecewise function of the block: Idle before `start`,
    then `d1` blocks NoPenalty, `d2` blocks LinearIncreasingPenalty, `d3` blocks
    OnlyWithdrawFixedPenalty, then Redeem for ever.  A duration of 0 makes the interval empty
    (the phase is skipped); nothing else depends on the durations. -/
theorem phase_fn (c : Cfg) (b : Nat) :
    (b < c.start → c.phaseAt b = .idle) ∧
    (c.start ≤ b → b < c.start + c.d1 → c.phaseAt b = .noPenalty) ∧
    (c.start + c.d1 ≤ b → b < c.start + c.d1 + c.d2 →
      c.phaseAt b = .linear (c.pmin +
        (if 1 < c.d2 then (c.pmax - c.pmin) * (b - (c.start + c.d1)) / (c.d2 - 1) else 0))) ∧
    (c.start + c.d1 + c.d2 ≤ b → b < c.start + c.d1 + c.d2 + c.d3 →
      c.phaseAt b = .fixed c.pfix) ∧
    (c.start + c.d1 + c.d2 + c.d3 ≤ b → c.phaseAt b = .redeem) :=
  ⟨phaseAt_idle, phaseAt_noPenalty, phaseAt_linear, phaseAt_fixed, phaseAt_redeem⟩

/-- a later block is never in an earlier phase -/
theorem phase_mono (c : Cfg) {b b' : Nat} (h : b ≤ b') :
    (c.phaseAt b).rank ≤ (c.phaseAt b').rank :=
  rank_mono c h

/-- along any history the configuration is constant and the block only grows, hence the
    phase only advances -/
theorem phase_only_advances (s : St) (ops : List Op) :
    (run s ops).cfg = s.cfg ∧ s.block ≤ (run s ops).block ∧
    s.phase.rank ≤ (run s ops).phase.rank := by
  obtain ⟨h1, _, h3⟩ := run_cfg ops s
  refine ⟨h1, h3, ?_⟩
  show (s.cfg.phaseAt s.block).rank ≤ ((run s ops).cfg.phaseAt (run s ops).block).rank
  rw [h1]
  exact rank_mono _ h3

/-- the redeem phase is absorbing -/
theorem redeem_phase_forever (s : St) (ops : List Op) (h : s.phase = .redeem) :
    (run s ops).phase = .redeem := by
  obtain ⟨h1, _, h3⟩ := run_cfg ops s
  have : s.cfg.e3 ≤ s.block := (phase_redeem_iff _ _).1 h
  show (run s ops).cfg.phaseAt (run s ops).block = .redeem
  rw [h1]
  exact (phase_redeem_iff _ _).2 (by omega)

/-! ### penalty schedule -/

/-- the penalty percentage as a function of the block: 0 outside the two penalty phases,
    `min + ⌊(max − min)·passed/(dur − 1)⌋` in the linear phase (just `min` when the phase lasts
    a single block), the fixed percentage afterwards -/
theorem penalty_schedule (c : Cfg) (b : Nat) :
    (c.phaseAt b).pct =
      if b < c.start + c.d1 then 0
      else if b < c.start + c.d1 + c.d2 then
        c.pmin + (if 1 < c.d2 then (c.pmax - c.pmin) * (b - (c.start + c.d1)) / (c.d2 - 1) else 0)
      else if b < c.start + c.d1 + c.d2 + c.d3 then c.pfix
      else 0 := by
  rcases phaseAt_cases c b with ⟨h, e⟩ | ⟨h1, h2, e⟩ | ⟨h1, h2, e⟩ | ⟨h1, h2, e⟩ | ⟨h, e⟩ <;>
    rw [e] <;> simp only [Phase.pct, Cfg.linearPct, Cfg.e1, Cfg.e2, Cfg.e3] at *
  all_goals (repeat' split)
  all_goals first | rfl | omega

/-- within the linear phase the penalty never decreases from one block to a later one -/
theorem penalty_monotone (c : Cfg) {b b' : Nat}
    (h1 : c.start + c.d1 ≤ b) (h : b ≤ b') (h2 : b' < c.start + c.d1 + c.d2) :
    (c.phaseAt b).pct ≤ (c.phaseAt b').pct := by
  rw [phaseAt_linear h1 (by show b < c.start + c.d1 + c.d2; omega),
    phaseAt_linear (by show c.start + c.d1 ≤ b'; omega) h2]
  exact linearPct_mono c (by omega)

/-- within the linear phase the penalty stays within `[min, max]`, starts at `min`, and (when
    the phase lasts more than one block) ends exactly at `max` -/
theorem penalty_within_range (c : Cfg) (hc : c.pmin ≤ c.pmax) {b : Nat}
    (h1 : c.start + c.d1 ≤ b) (h2 : b < c.start + c.d1 + c.d2) :
    c.pmin ≤ (c.phaseAt b).pct ∧ (c.phaseAt b).pct ≤ c.pmax ∧
    (b = c.start + c.d1 → (c.phaseAt b).pct = c.pmin) ∧
    (1 < c.d2 → b = c.start + c.d1 + c.d2 - 1 → (c.phaseAt b).pct = c.pmax) ∧
    (c.d2 = 1 → (c.phaseAt b).pct = c.pmin) := by
  rw [phaseAt_linear h1 h2]
  simp only [Phase.pct]
  have e1 : c.e1 = c.start + c.d1 := rfl
  refine ⟨linearPct_ge_min c _, linearPct_le_max c hc (by omega), ?_, ?_, ?_⟩
  · intro hb; rw [hb, e1, Nat.sub_self]; exact linearPct_first c
  · intro hd hb
    have : b - c.e1 = c.d2 - 1 := by omega
    rw [this]; exact linearPct_last c hc hd
  · intro hd; exact linearPct_dur_one c _ (by omega)

/-- with a valid configuration every penalty is below 100 %, so a withdrawal always returns
    something -/
theorem penalty_below_full (c : Cfg) (hc : c.ok) (b : Nat) : (c.phaseAt b).pct < MAXP := by
  obtain ⟨h1, h2, h3, _⟩ := hc
  have hM : 0 < MAXP := by decide
  rcases phaseAt_cases c b with ⟨h, e⟩ | ⟨ha, hb, e⟩ | ⟨ha, hb, e⟩ | ⟨ha, hb, e⟩ | ⟨h, e⟩ <;>
    rw [e] <;> simp only [Phase.pct]
  · exact hM
  · exact hM
  · have := linearPct_le_max c h1 (p := b - c.e1) (by unfold Cfg.e1 Cfg.e2 at *; omega)
    omega
  · exact h3
  · exact hM

/-! ### phase gating -/

/-- each operation is accepted only in its phases: deposit in NoPenalty / Linear, withdraw
    in every phase but Idle and Redeem, redeem in Redeem only (phases spelled out as block
    ranges) -/
theorem op_phase_gate {s s' : St} {op : Op} {o : Out} (h : step s op = some (s', o)) :
    (∀ c t a, op = .deposit c t a →
        s.cfg.start ≤ s.block ∧ s.block < s.cfg.start + s.cfg.d1 + s.cfg.d2) ∧
    (∀ c t a, op = .withdraw c t a →
        s.cfg.start ≤ s.block ∧ s.block < s.cfg.start + s.cfg.d1 + s.cfg.d2 + s.cfg.d3) ∧
    (∀ c t a, op = .redeem c t a →
        s.cfg.start + s.cfg.d1 + s.cfg.d2 + s.cfg.d3 ≤ s.block) := by
  refine ⟨?_, ?_, ?_⟩ <;> intro c t a e <;> subst e
  · obtain ⟨_, _, _, hp, _⟩ := deposit_spec h
    exact (depositAllowed_iff _ _).1 hp
  · obtain ⟨_, _, _, _, hp, _⟩ := withdraw_spec h
    exact (withdrawAllowed_iff _ _).1 hp
  · obtain ⟨_, _, _, hp, _⟩ := redeem_spec h
    exact (redeemAllowed_iff _ _).1 hp

/-- the same in terms of the phase the view reports -/
theorem op_phase_gate_view {s s' : St} {op : Op} {o : Out} (h : step s op = some (s', o)) :
    (∀ c t a, op = .deposit c t a → s.phase = .noPenalty ∨ ∃ p, s.phase = .linear p) ∧
    (∀ c t a, op = .withdraw c t a → s.phase ≠ .idle ∧ s.phase ≠ .redeem) ∧
    (∀ c t a, op = .redeem c t a → s.phase = .redeem) := by
  refine ⟨?_, ?_, ?_⟩ <;> intro c t a e <;> subst e
  · obtain ⟨_, _, _, hp, _⟩ := deposit_spec h
    revert hp; cases s.phase <;> simp [Phase.depositAllowed]
  · obtain ⟨_, _, _, _, hp, _⟩ := withdraw_spec h
    revert hp; cases s.phase <;> simp [Phase.withdrawAllowed]
  · obtain ⟨_, _, _, hp, _⟩ := redeem_spec h
    revert hp; cases s.phase <;> simp [Phase.redeemAllowed]

/-! ### the penalty stays in the pool -/

/-- a withdrawal of `amt` redeem tokens burns all of them (supply − amt), charges
    `pen = ⌊amt·pct/10^13⌋`, and moves exactly `amt − pen` out of the tracked pool, out of the
    real balance and into the caller's wallet: the penalty stays in the pool.  The other
    pool is untouched. -/
theorem penalty_stays {s s' : St} {c : Nat} {t : Tok} {amt : Nat} {o : Out}
    (h : withdraw s c t amt = some (s', o)) :
    o.v2 = amt * s.phase.pct / MAXP ∧ o.v1 + o.v2 = amt ∧
    (s'.side t).bal + o.v1 = (s.side t).bal ∧
    (s'.side t).real + o.v1 = (s.side t).real ∧
    (s'.side t).w c = (s.side t).w c + o.v1 ∧
    (s'.side t).sup + amt = (s.side t).sup ∧
    (s'.side t).h c + amt = (s.side t).h c ∧
    s'.side t.other = s.side t.other := by
  obtain ⟨p, pen, _, _, _, hpen, hle, hh, hs, hb, hr, _, _, rfl, rfl⟩ := withdraw_spec h
  subst hpen
  refine ⟨rfl, ?_, ?_, ?_, ?_, ?_, ?_, ?_⟩ <;>
    simp only [side_setSide, side_setSide_other, wdSide, upd_same] <;> omega

/-! ### tracked balances = real holdings -/

/-- after every history, for both tokens: tracked pool = real balance + what `redeem` has paid
    out of it; and as long as the redeem phase has not begun the two are simply equal -/
theorem tracked_eq_real (cfg : Cfg) (n fL fA : Nat) (ops : List Op) (t : Tok) :
    let s := run (init cfg n fL fA) ops
    (s.side t).real + (s.side t).paid = (s.side t).bal ∧
    (s.block < cfg.start + cfg.d1 + cfg.d2 + cfg.d3 → (s.side t).real = (s.side t).bal) := by
  intro s
  have hi : SideInv s t := run_inv ops (inv_init cfg n fL fA) t
  have hc : s.cfg = cfg := (run_cfg ops (init cfg n fL fA)).1
  refine ⟨hi.real_paid, fun hb => ?_⟩
  have := hi.pre_redeem (by show s.block < s.cfg.e3; rw [hc]; exact hb)
  have := hi.real_paid
  omega

/-- the reported redeem-token supply is exactly what users hold plus what was handed in
    through `redeem` (whose burn deliberately leaves the supply unchanged) -/
theorem supply_eq_circulating (cfg : Cfg) (n fL fA : Nat) (ops : List Op) (t : Tok) :
    let s := run (init cfg n fL fA) ops
    sumU s.n (s.side t).h + (s.side t).red = (s.side t).sup :=
  (run_inv ops (inv_init cfg n fL fA) t).sup_eq

/-! ### redemption -/

/-- `redeem` of `amt` tokens of side `t` pays `⌊opposite_pool·amt/supply⌋` of the opposite
    token — to the caller, wrapped 1:1 into LOCKED tokens before the unlock epoch — and takes
    it out of the real balance only: pools and supplies stay frozen -/
theorem redeem_formula {s s' : St} {c : Nat} {t : Tok} {amt : Nat} {o : Out}
    (h : redeem s c t amt = some (s', o)) :
    o.v1 = (s.side t.other).bal * amt / (s.side t).sup ∧
    (s'.side t.other).real + o.v1 = (s.side t.other).real ∧
    (s'.side t.other).paid = (s.side t.other).paid + o.v1 ∧
    (if s.epoch < s.cfg.unlock then (s'.side t.other).k c = (s.side t.other).k c + o.v1
     else (s'.side t.other).w c = (s.side t.other).w c + o.v1) ∧
    (∀ t', (s'.side t').bal = (s.side t').bal ∧ (s'.side t').sup = (s.side t').sup) := by
  obtain ⟨b, _, _, _, _, _, hb, hr, rfl, rfl⟩ := redeem_spec h
  refine ⟨hb, ?_, ?_, ?_, ?_⟩
  · simp; omega
  · simp
  · by_cases hl : s.epoch < s.cfg.unlock <;> simp [hl, rdSideY]
  · intro t'
    by_cases ht : t' = t
    · subst ht; simp [rdSideX]
    · rw [side_of_ne ht]; simp

/-- redeemed tokens are gone: the caller's holding drops by `amt`, nobody else's moves,
    the tokens are recorded as handed in -/
theorem redeem_once {s s' : St} {c : Nat} {t : Tok} {amt : Nat} {o : Out}
    (h : redeem s c t amt = some (s', o)) :
    (s'.side t).h c + amt = (s.side t).h c ∧
    (∀ u, u ≠ c → (s'.side t).h u = (s.side t).h u) ∧
    (s'.side t.other).h = (s.side t.other).h ∧
    (s'.side t).red = (s.side t).red + amt := by
  obtain ⟨b, _, _, _, hh, _, _, _, _, rfl⟩ := redeem_spec h
  refine ⟨?_, ?_, ?_, ?_⟩
  · simp [rdSideX]; omega
  · intro u hu; simp [rdSideX, upd_ne _ _ hu]
  · simp
  · simp [rdSideX]

/-- once the redeem phase has begun nothing creates redeem tokens and nothing moves the pools
    or the supplies: every redeem token can only ever be handed in, once -/
theorem redeem_phase_frozen {s s' : St} {op : Op} {o : Out}
    (hp : s.cfg.start + s.cfg.d1 + s.cfg.d2 + s.cfg.d3 ≤ s.block)
    (h : step s op = some (s', o)) (t : Tok) :
    (s'.side t).bal = (s.side t).bal ∧ (s'.side t).sup = (s.side t).sup ∧
    ∀ u, (s'.side t).h u ≤ (s.side t).h u := by
  have g := op_phase_gate h
  rcases step_cases h with ⟨c, t1, a, e, _⟩ | ⟨c, t1, a, e, _⟩ | ⟨c, t1, a, rfl, h⟩ |
      ⟨b, _, _, rfl, _⟩ | ⟨e, _, _, rfl, _⟩
  · have := g.1 c t1 a e; omega
  · have := g.2.1 c t1 a e; omega
  · obtain ⟨b, _, _, _, hh, _, _, _, _, rfl⟩ := redeem_spec h
    by_cases ht : t = t1
    · subst ht
      refine ⟨by simp [rdSideX], by simp [rdSideX], fun u => ?_⟩
      by_cases hu : u = c
      · subst hu; simp [rdSideX]
      · simp [rdSideX, upd_ne _ _ hu]
    · rw [side_of_ne ht]; simp
  · exact ⟨rfl, rfl, fun _ => Nat.le_refl _⟩
  · exact ⟨rfl, rfl, fun _ => Nat.le_refl _⟩

/-- the ghost counter `paid` is exactly the sum of the payouts of the successful `redeem`
    calls of the history -/
theorem paid_is_sum_of_redemptions (cfg : Cfg) (n fL fA : Nat) (ops : List Op) (t : Tok) :
    ((run (init cfg n fL fA) ops).side t).paid = payouts t (init cfg n fL fA) ops := by
  rw [paid_eq_payouts]
  simp [init, Side.init, St.side]
  cases t <;> rfl

/-- after every history, the sum of everything `redeem` ever paid out of a pool is at most
    that pool -/
theorem redeem_sum_le_pool (cfg : Cfg) (n fL fA : Nat) (ops : List Op) (t : Tok) :
    payouts t (init cfg n fL fA) ops ≤ ((run (init cfg n fL fA) ops).side t).bal := by
  rw [← paid_is_sum_of_redemptions]
  exact (run_inv ops (inv_init cfg n fL fA)).paid_le_bal t

/-- …and the real balance always suffices to pay it: `redeem` never fails for lack of funds -/
theorem redeem_always_funded (cfg : Cfg) (n fL fA : Nat) (ops : List Op) (t : Tok) (amt : Nat) :
    let s := run (init cfg n fL fA) ops
    amt ≤ sumU s.n (s.side t).h → (s.side t).sup ≠ 0 →
    (s.side t.other).bal * amt / (s.side t).sup ≤ (s.side t.other).real := by
  intro s hamt hsup
  have hi : Inv s := run_inv ops (inv_init cfg n fL fA)
  have i := hi t
  have j := hi t.other
  -- paid·sup ≤ bal·red and amt + red ≤ sup  ⇒  ⌊bal·amt/sup⌋ + paid ≤ bal
  have h1 : amt + (s.side t).red ≤ (s.side t).sup := by have := i.sup_eq; omega
  have h2 := i.paid_prod
  have h3 : (s.side t.other).bal * amt / (s.side t).sup * (s.side t).sup
      ≤ (s.side t.other).bal * amt := Nat.div_mul_le_self _ _
  have h4 : ((s.side t.other).bal * amt / (s.side t).sup + (s.side t.other).paid)
      * (s.side t).sup ≤ (s.side t.other).bal * (s.side t).sup := by
    rw [Nat.add_mul]
    calc _ ≤ (s.side t.other).bal * amt + (s.side t.other).bal * (s.side t).red :=
          Nat.add_le_add h3 h2
      _ = (s.side t.other).bal * (amt + (s.side t).red) := (Nat.mul_add _ _ _).symm
      _ ≤ _ := Nat.mul_le_mul_left _ h1
  have h5 := Nat.le_of_mul_le_mul_right h4 (by omega)
  have := j.real_paid
  omega

/-! ### price floor -/

/-- a successful launched-token deposit leaves the price either 0 (fewer accepted tokens than
    one price unit buys — the documented exemption) or at least the minimum -/
theorem price_floor_deposit {s s' : St} {c : Nat} {amt : Nat} {o : Out}
    (h : deposit s c .launched amt = some (s', o)) :
    ∃ p, s'.price = some p ∧ p = (s.bal .accepted) * s.cfg.prec / (s.bal .launched + amt) ∧
      (p = 0 ∨ s.cfg.minPrice ≤ p) := by
  obtain ⟨p, _, _, _, _, hp, hmin, _, rfl⟩ := deposit_spec h
  refine ⟨p, hp, ?_, ?_⟩
  · rw [price_def, priceOf_eq_some] at hp
    simpa [St.bal, St.side, St.setSide, depSide] using hp.2
  · rcases hmin with h | h | h
    · exact .inl h
    · exact .inr h
    · cases h

/-- a launched-token deposit that would leave a non-zero price below the minimum is rejected -/
theorem price_floor_deposit_rejects (s : St) (c amt : Nat)
    (h0 : 0 < (s.bal .accepted) * s.cfg.prec / (s.bal .launched + amt))
    (h1 : (s.bal .accepted) * s.cfg.prec / (s.bal .launched + amt) < s.cfg.minPrice) :
    deposit s c .launched amt = none := by
  cases hd : deposit s c .launched amt with
  | none => rfl
  | some r =>
    obtain ⟨s', o⟩ := r
    obtain ⟨p, _, hp, hor⟩ := price_floor_deposit hd
    omega

/-- every successful withdrawal (of either token) leaves the price at or above the minimum -/
theorem price_floor_withdraw {s s' : St} {c : Nat} {t : Tok} {amt : Nat} {o : Out}
    (h : withdraw s c t amt = some (s', o)) :
    ∃ p, s'.price = some p ∧ p = (s'.bal .accepted) * s.cfg.prec / (s'.bal .launched) ∧
      0 < s'.bal .launched ∧ s.cfg.minPrice ≤ p := by
  obtain ⟨p, pen, _, _, _, _, _, _, _, _, _, hp, hmin, _, rfl⟩ := withdraw_spec h
  refine ⟨p, hp, ?_, ?_, hmin⟩
  · rw [price_def, priceOf_eq_some] at hp
    simpa using hp.2
  · rw [price_def, priceOf_eq_some] at hp
    exact hp.1

/-- a withdrawal that would leave the price below the minimum (or the launched pool empty)
    is rejected; `l'`, `a'` are the pools the withdrawal would leave behind -/
theorem price_floor_withdraw_rejects (s : St) (c : Nat) (t : Tok) (amt : Nat)
    (h : let wd := amt - amt * s.phase.pct / MAXP
         let l' := if t = .launched then s.bal .launched - wd else s.bal .launched
         let a' := if t = .accepted then s.bal .accepted - wd else s.bal .accepted
         l' = 0 ∨ a' * s.cfg.prec / l' < s.cfg.minPrice) :
    withdraw s c t amt = none := by
  cases hd : withdraw s c t amt with
  | none => rfl
  | some r =>
    obtain ⟨s', o⟩ := r
    exfalso
    obtain ⟨p, hp, hpe, hl, hmin⟩ := price_floor_withdraw hd
    obtain ⟨_, pen, _, _, _, hpen, _, _, _, _, _, _, _, _, rfl⟩ := withdraw_spec hd
    subst hpen
    cases t <;> simp [St.bal, St.side, St.setSide, wdSide] at h hpe hl <;> omega

/-- accepted-token deposits are exempt from the price check, as coded: they only need the
    launched pool to be non-empty (the first deposit has to be launched tokens) -/
theorem accepted_deposit_only_needs_launched {s s' : St} {c : Nat} {amt : Nat} {o : Out}
    (h : deposit s c .accepted amt = some (s', o)) :
    0 < s.bal .launched ∧ s'.bal .launched = s.bal .launched ∧
    s'.bal .accepted = s.bal .accepted + amt := by
  obtain ⟨p, _, _, _, _, hp, _, _, rfl⟩ := deposit_spec h
  rw [price_def, priceOf_eq_some] at hp
  refine ⟨?_, ?_, ?_⟩
  · simpa [St.bal, St.side, St.setSide] using hp.1
  · simp [St.bal, St.side, St.setSide]
  · simp [St.bal, St.side, St.setSide, depSide]

/-! ### atomicity, non-vacuity -/

/-- a failed transaction leaves the state untouched (atomicity as modelled) -/
theorem failed_tx_no_effect (s : St) (op : Op) (h : step s op = none) : run s [op] = s := by
  simp [run, h]

/-- the configuration used in the non-vacuity examples: start 2, phases of 1 / 3 / 1 blocks,
    penalty 10 % … 50 %, fixed 25 %, min price 0.5 with 6 decimals, unlock epoch 5 -/
def exCfg : Cfg := ⟨2, 1, 3, 1, 1000000000000, 5000000000000, 2500000000000, 500000, 1000000, 5⟩

/-- non-vacuity: a concrete history runs through every phase — deposits of both tokens,
    withdrawals with linear (30 %) and fixed penalties, redemptions of both sides by two users —
    and ends with payouts made, penalties retained and the pools not exhausted -/
example :
    let s := run (init exCfg 2 1000000 1000000)
      [.advance 2, .deposit 1 .launched 1000, .deposit 2 .accepted 900, .advance 4,
       .withdraw 2 .accepted 100, .deposit 1 .accepted 50, .advance 6, .withdraw 2 .accepted 100,
       .advance 7, .redeem 2 .accepted 700, .redeem 1 .launched 1000, .redeem 1 .accepted 50]
    exCfg.ok ∧ s.phase = .redeem ∧ s.A.bal = 805 ∧ s.A.sup = 750 ∧ s.L.paid = 999 ∧
    s.A.paid = 805 ∧ s.L.real = 1 ∧ s.A.real = 0 ∧ s.L.k 2 = 933 ∧ s.L.k 1 = 66 ∧ s.A.k 1 = 805 := by
  decide

/-- non-vacuity of the price floor: the same launched deposit is accepted when it leaves the
    price at the minimum and rejected one unit above -/
example :
    let s := run (init exCfg 2 1000000 1000000)
      [.advance 2, .deposit 1 .launched 1000, .deposit 2 .accepted 900]
    (deposit s 1 .launched 800).isSome = true ∧ (deposit s 1 .launched 801).isSome = false ∧
    (withdraw s 2 .accepted 400).isSome = true ∧ (withdraw s 2 .accepted 401).isSome = false := by
  decide

end Mx.C17
