/-
  C19 — the BRIDGE between the hand-written access TABLE (`Core/Access.lean`: endpoint ↦ class, guard,
  required state — the thing the exhaustive access matrix compares with the real contracts) and the
  EXECUTABLE contract models (`Pair.step`, `Farm.step`, `Staking.step`, `Energy.step`, `Router.step` — the
  things the correspondence runs tie to the real contracts and `Props/C19Models.lean` proves gating
  theorems about).  Without this file table and models could drift apart silently.

  Per model:
  * `…Endpoint : Op → Option (…name…)` — which row(s) of the table an operation of the model is
    (decided by the constructor and, where the table has `@variant` rows, by the one argument / state
    field that selects the variant: an original caller is named or not, an adder is configured or not,
    the caller is the owner or not).  Operations that are no contract call (clock, plain ESDT transfer,
    the world's energy mock) have no endpoint.
  * `…GuardHolds : St → Op → Guard → Prop` — the MODEL-side reading of a table guard for the caller the
    operation carries (whitelist membership, hub authorisation, the model's admin account, the adder…).
    Where a model operation carries no caller (pair `cfg`, staking setters, `Energy.cfg`; audit item 3)
    a restricted guard is read as `True` and the doc comment says so: nothing is claimed there.
  * `…_step_allowed` — THE BRIDGE (sound direction): whenever `step s op` succeeds, every table row of the
    operation exists (`lookup` finds it), its guard holds for the operation's caller in `s`, and its state
    requirement `stateOk row.st (status of s)` holds.  Contrapositive = clause (a) of the task: if the table
    refuses the state, `step s op = none` (`…_table_state_blocks`).
  * `…_class_agreement` — the classifications `…UserFundsOp` of `Props/C19Models.lean` against the table's
    `Class` column, exactly, with the exceptions spelled out.
  * `…_state_tight` — the other direction for the state column, by witnesses: for every state the table
    allows for a state-gated row there is a reachable model state with that status in which an operation
    of that row succeeds, so the table does not allow more than the model, and the model does not demand
    more than the table.

  Everything about the finite table is kernel evaluation (`decide +kernel`); the connection to `step`
  reuses the spec / gating lemmas of `Lemmas/AccessModels*.lean`.
-/
import MxModel.Props.C19Models
import MxModel.Core.Access

namespace Mx.C19Bridge
open Mx.Access Mx.C19Models

/-- the row of the table, as data: `some (class, guard, state requirement)` -/
def row (c : Contract) (e : String) : Option (Class × Guard × StateReq) :=
  (lookup c e).map fun ent => (ent.cls, ent.guard, ent.st)

theorem row_some {c : Contract} {e : String} {x : Class × Guard × StateReq} (h : row c e = some x) :
    ∃ ent, lookup c e = some ent ∧ ent.cls = x.1 ∧ ent.guard = x.2.1 ∧ ent.st = x.2.2 := by
  unfold row at h
  cases hl : lookup c e with
  | none => rw [hl] at h; cases h
  | some ent =>
    rw [hl] at h
    simp only [Option.map_some, Option.some.injEq] at h
    subst h
    exact ⟨ent, rfl, rfl, rfl, rfl⟩

/-- what "an operation is allowed by the table" means on the model side: the row exists, the model-side
    reading `G` of its guard holds, and the state requirement is met by the contract state `cs` -/
def Allowed (c : Contract) (e : String) (G : Guard → Prop) (cs : CState) : Prop :=
  ∃ ent, lookup c e = some ent ∧ G ent.guard ∧ stateOk ent.st cs = true

theorem allowed_of_row {c : Contract} {e : String} {G : Guard → Prop} {cs : CState}
    (x : Class × Guard × StateReq) (h : row c e = some x) (hg : G x.2.1) (hs : stateOk x.2.2 cs = true) :
    Allowed c e G cs := by
  obtain ⟨ent, hl, _, h2, h3⟩ := row_some h
  exact ⟨ent, hl, h2 ▸ hg, h3 ▸ hs⟩

/-- `Allowed` refuses a state the table refuses -/
theorem not_allowed_of_state {c : Contract} {e : String} {G : Guard → Prop} {cs : CState} {ent : Entry}
    (hl : lookup c e = some ent) (hs : stateOk ent.st cs = false) : ¬ Allowed c e G cs := by
  rintro ⟨ent', hl', _, hs'⟩
  rw [hl] at hl'; cases hl'
  rw [hs] at hs'; cases hs'

/-- the row is a configuration endpoint guarded by a permission mask, callable in every state -/
def isPermCfg : Option (Class × Guard × StateReq) → Bool
  | some (.config, .perm _, .any) => true
  | _ => false

theorem isPermCfg_some {x : Option (Class × Guard × StateReq)} (h : isPermCfg x = true) :
    ∃ m, x = some (.config, .perm m, .any) := by
  match x, h with
  | some (.config, .perm m, .any), _ => exact ⟨m, rfl⟩

/-! ## pair -/

section pair
open Mx.Pair

/-- the pair model's status flag as the table's contract state -/
def pairCState : Pair.Status → CState
  | .inactive => .inactive | .active => .active | .partialActive => .partialActive

/-- the table row of an operation of the pair model.  `addInitial` is the row `addInitialLiquidity@adder`
    when an initial-liquidity adder is configured, `addInitialLiquidity` otherwise; `cfg (setState st)` is
    `pause` / `resume` / `setStateActiveNoSwaps`; `addDest` / `removeDest` are the pair's one endpoint
    `setFeeOn(enabled, address, token)`; `advance` / `epoch` (block round, epoch) are no contract call. -/
def pairEndpoint (s : Pair.St) : Pair.Op → Option String
  | .addInitial .. => some (if s.adder = none then "addInitialLiquidity" else "addInitialLiquidity@adder")
  | .addLiq .. => some "addLiquidity"
  | .removeLiq .. => some "removeLiquidity"
  | .swapIn .. => some "swapTokensFixedInput"
  | .swapOut .. => some "swapTokensFixedOutput"
  | .swapNoFee .. => some "swapNoFeeAndForward"
  | .buyback .. => some "removeLiquidityAndBuyBackAndBurnToken"
  | .cfg (.setFee ..) => some "setFeePercents"
  | .cfg (.addDest _) | .cfg (.removeDest _) => some "setFeeOn"
  | .cfg (.setCollector _) => some "setupFeesCollector"
  | .cfg (.setState .inactive) => some "pause"
  | .cfg (.setState .active) => some "resume"
  | .cfg (.setState .partialActive) => some "setStateActiveNoSwaps"
  | .cfg (.whitelist _) => some "whitelist"
  | .cfg (.removeWhitelist _) => some "removeWhitelist"
  | .cfg (.setTrusted _ (some _)) => some "addTrustedSwapPair"
  | .cfg (.setTrusted _ none) => some "removeTrustedSwapPair"
  | .lock _ (.setDeadline _) => some "setLockingDeadlineEpoch"
  | .lock _ (.setUnlock _) => some "setUnlockEpoch"
  | .lock _ (.setSc _) => some "setLockingScAddress"
  | .advance _ | .epoch _ => none

/-- model-side reading of a table guard for the caller a pair operation carries.  `adder`: the caller of
    `addInitial` is the configured adder; `whitelisted`: the caller of the two contract-only operations is on
    the pair's whitelist; a permission mask: the `owner` flag of the locking setters (= the outcome of
    `require_caller_has_owner_permissions`).  The `cfg …` operations of the pair model carry NO caller (the
    pair world applies them as the router / owner): a permission guard is read as `True` for them — nothing
    is claimed (their authorisation is checked on the real contract by the access matrix). -/
def pairGuardHolds (s : Pair.St) (op : Pair.Op) (g : Guard) : Prop :=
  match g, op with
  | .anyone, _ => True
  | .adder, .addInitial c _ _ => s.adder = some c
  | .whitelisted, .swapNoFee c _ _ => c ∈ s.wl
  | .whitelisted, .buyback c _ _ => c ∈ s.wl
  | .perm _, .lock ow _ => ow = true
  | .perm _, .cfg _ => True
  | _, _ => False

/-- **bridge, pair.**  Whenever an operation of the pair model succeeds, its table row exists, the row's
    guard holds for the caller the operation carries, and the row's state requirement is met by the pair's
    status: `Pair.step` never succeeds where the access table says "not callable". -/
theorem pair_step_allowed (s : Pair.St) (op : Pair.Op) (r : Pair.St × Pair.Out) (e : String)
    (he : pairEndpoint s op = some e) (h : Pair.step s op = some r) :
    Allowed .pair e (pairGuardHolds s op) (pairCState s.status) := by
  cases op with
  | addInitial c a1 a2 =>
    obtain ⟨h1, _, h3⟩ := addInitial_state h
    simp only [pairEndpoint, Option.some.injEq] at he
    rcases h3 with h3 | h3
    · rw [h3] at he; simp only [if_true] at he; subst he
      exact allowed_of_row (.bootstrap, .anyone, .inactiveOnly) (by decide +kernel) trivial (by rw [h1]; rfl)
    · rw [h3] at he; simp only [reduceCtorEq, if_false] at he; subst he
      exact allowed_of_row (.bootstrap, .adder, .inactiveOnly) (by decide +kernel) h3 (by rw [h1]; rfl)
  | addLiq a1 a2 m1 m2 =>
    simp only [pairEndpoint, Option.some.injEq] at he; subst he
    refine allowed_of_row (.userFunds, .anyone, .activeOrPartial) (by decide +kernel) trivial ?_
    rcases addLiq_state h with h1 | h1 <;> rw [h1] <;> rfl
  | removeLiq lp m1 m2 =>
    simp only [pairEndpoint, Option.some.injEq] at he; subst he
    refine allowed_of_row (.userFunds, .anyone, .activeOrPartial) (by decide +kernel) trivial ?_
    rcases removeLiq_state h with h1 | h1 <;> rw [h1] <;> rfl
  | swapIn d a m =>
    simp only [pairEndpoint, Option.some.injEq] at he; subst he
    exact allowed_of_row (.userFunds, .anyone, .active) (by decide +kernel) trivial
      (by rw [swapIn_active h]; rfl)
  | swapOut d mx o =>
    simp only [pairEndpoint, Option.some.injEq] at he; subst he
    exact allowed_of_row (.userFunds, .anyone, .active) (by decide +kernel) trivial
      (by rw [swapOut_active h]; rfl)
  | swapNoFee c d a =>
    simp only [pairEndpoint, Option.some.injEq] at he; subst he
    exact allowed_of_row (.contractOnly, .whitelisted, .active) (by decide +kernel) (swapNoFee_active h).2
      (by rw [(swapNoFee_active h).1]; rfl)
  | buyback c lp w =>
    simp only [pairEndpoint, Option.some.injEq] at he; subst he
    exact allowed_of_row (.contractOnly, .whitelisted, .any) (by decide +kernel) (buyback_wl h) rfl
  | cfg o =>
    have key : ∀ n : String, isPermCfg (row .pair n) = true →
        Allowed .pair n (pairGuardHolds s (.cfg o)) (pairCState s.status) := by
      intro n hn
      obtain ⟨m, hm⟩ := isPermCfg_some hn
      exact allowed_of_row (.config, .perm m, .any) hm trivial rfl
    cases o with
    | setFee t sp => simp only [pairEndpoint, Option.some.injEq] at he; subst he; exact key _ (by decide +kernel)
    | addDest w => simp only [pairEndpoint, Option.some.injEq] at he; subst he; exact key _ (by decide +kernel)
    | removeDest i => simp only [pairEndpoint, Option.some.injEq] at he; subst he; exact key _ (by decide +kernel)
    | setCollector c => simp only [pairEndpoint, Option.some.injEq] at he; subst he; exact key _ (by decide +kernel)
    | setState st =>
      cases st <;> (simp only [pairEndpoint, Option.some.injEq] at he; subst he; exact key _ (by decide +kernel))
    | whitelist c => simp only [pairEndpoint, Option.some.injEq] at he; subst he; exact key _ (by decide +kernel)
    | removeWhitelist c => simp only [pairEndpoint, Option.some.injEq] at he; subst he; exact key _ (by decide +kernel)
    | setTrusted f x =>
      cases x <;> (simp only [pairEndpoint, Option.some.injEq] at he; subst he; exact key _ (by decide +kernel))
  | advance rd => simp [pairEndpoint] at he
  | lock ow l =>
    have how : ow = true := (pair_contract_ops_need_role s _ r h).2.2 ow l rfl
    cases l <;>
    · simp only [pairEndpoint, Option.some.injEq] at he; subst he
      exact allowed_of_row (.config, gOwner, .any) (by decide +kernel) how rfl
  | epoch ep => simp [pairEndpoint] at he

/-- clause (a), pair: if the table's state requirement of the operation's row is NOT met by the pair's status,
    the operation fails — for all arguments -/
theorem pair_table_state_blocks (s : Pair.St) (op : Pair.Op) (e : String) (ent : Entry)
    (he : pairEndpoint s op = some e) (hl : lookup .pair e = some ent)
    (hs : stateOk ent.st (pairCState s.status) = false) : Pair.step s op = none := by
  cases hstep : Pair.step s op with
  | none => rfl
  | some r => exact absurd (pair_step_allowed s op r e he hstep) (not_allowed_of_state hl hs)

/-- the class column of a row -/
def clsOf (c : Contract) (e : String) : Option Class := (lookup c e).map (·.cls)

/-- the bootstrap operation of the pair model -/
def pairBootstrapOp : Pair.Op → Bool
  | .addInitial .. => true
  | _ => false

/-- the contract-only operations of the pair model -/
def pairContractOp : Pair.Op → Bool
  | .swapNoFee .. | .buyback .. => true
  | _ => false

/-- closes `clsOf .pair "name" = some (if … then … else …)` once the operation is a constructor application -/
local macro "pcls" : tactic =>
  `(tactic| (simp only [pairBootstrapOp, pairContractOp, pairUserFundsOp, ↓reduceIte, Bool.false_eq_true]
             decide +kernel))

/-- **class agreement, pair.**  The table's class of the row of every operation of the pair model that has a
    row: `addInitial` ↦ `bootstrap`; `swapNoFee`, `buyback` ↦ `contractOnly`; the other members of
    `C19Models.pairUserFundsOp` (add / remove liquidity, the two user swaps) ↦ `userFunds`; everything else
    (`cfg …`, `lock …`) ↦ `config`.  So the gated list `pairUserFundsOp` is EXACTLY the pair's `userFunds` rows
    plus the contract-only no-fee swap (`pairUserFundsOp swapNoFee = true`, class `contractOnly`, state
    requirement Active), and the one `userFunds`-like operation outside it is the bootstrap deposit (class
    `bootstrap`, state requirement Inactive). -/
theorem pair_class_agreement (s : Pair.St) (op : Pair.Op) (e : String) (he : pairEndpoint s op = some e) :
    clsOf .pair e = some (if pairBootstrapOp op then Class.bootstrap else if pairContractOp op then .contractOnly
      else if pairUserFundsOp op then .userFunds else .config) := by
  cases op with
  | addInitial c a1 a2 =>
    simp only [pairEndpoint, Option.some.injEq] at he; subst he
    split <;> pcls
  | cfg o =>
    cases o with
    | setState st => cases st <;> (simp only [pairEndpoint, Option.some.injEq] at he; subst he; pcls)
    | setTrusted f x => cases x <;> (simp only [pairEndpoint, Option.some.injEq] at he; subst he; pcls)
    | _ => simp only [pairEndpoint, Option.some.injEq] at he; subst he; pcls
  | lock ow l => cases l <;> (simp only [pairEndpoint, Option.some.injEq] at he; subst he; pcls)
  | advance _ => simp [pairEndpoint] at he
  | epoch _ => simp [pairEndpoint] at he
  | _ => simp only [pairEndpoint, Option.some.injEq] at he; subst he; pcls

/-- … and every `userFunds` / `bootstrap` / `contractOnly` row of the pair table IS modelled: it is the row of
    some operation of the pair model (no fund-moving pair endpoint is missing from the model) -/
theorem pair_fund_rows_modelled :
    ∀ ent ∈ pairTable, ent.cls = .userFunds ∨ ent.cls = .bootstrap ∨ ent.cls = .contractOnly →
      ent.name ∈ ["addInitialLiquidity", "addInitialLiquidity@adder", "addLiquidity", "removeLiquidity",
        "swapTokensFixedInput", "swapTokensFixedOutput", "swapNoFeeAndForward",
        "removeLiquidityAndBuyBackAndBurnToken"] := by decide +kernel

/-- witnesses for `pair_state_tight`: (configured adder, history from a fresh pair, operation) -/
def pairWitnesses : List (Option Nat × List Pair.Op × Pair.Op) :=
  let boot : List Pair.Op := [.addInitial 1 1000000 2000000, .cfg (.whitelist 7)]
  [ (none, [], .addInitial 1 1000000 2000000), (some 1, [], .addInitial 1 1000000 2000000),
    (none, boot, .addLiq 5000 10000 1 1), (none, boot ++ [.cfg (.setState .active)], .addLiq 5000 10000 1 1),
    (none, boot, .removeLiq 5000 1 1), (none, boot ++ [.cfg (.setState .active)], .removeLiq 5000 1 1),
    (none, boot ++ [.cfg (.setState .active)], .swapIn .ab 1000 1),
    (none, boot ++ [.cfg (.setState .active)], .swapOut .ba 90000 500),
    (none, boot ++ [.cfg (.setState .active)], .swapNoFee 7 .ab 1000),
    (none, boot, .buyback 7 5000 .first), (none, boot ++ [.cfg (.setState .active)], .buyback 7 5000 .first),
    (none, boot ++ [.cfg (.setState .inactive)], .buyback 7 5000 .first) ]

set_option maxRecDepth 100000 in
/-- **state column, other direction (pair).**  For every fund-moving row of the pair table (`userFunds`,
    `bootstrap`, `contractOnly`) and every contract state the table ALLOWS for it, there is a state of the pair
    model reachable from a fresh pair, with that status, in which an operation of that row succeeds.  Together
    with `pair_step_allowed`: the set of statuses in which the model lets the endpoint succeed is exactly the
    set the table allows — the table is neither stricter nor laxer than the model. -/
theorem pair_state_tight :
    ∀ ent ∈ pairTable, ent.cls = .userFunds ∨ ent.cls = .bootstrap ∨ ent.cls = .contractOnly →
      ∀ cs ∈ CState.all, stateOk ent.st cs = true →
        ∃ w ∈ pairWitnesses,
          pairEndpoint (Pair.run (Pair.init 300 50 w.1 8) w.2.1) w.2.2 = some ent.name ∧
          pairCState (Pair.run (Pair.init 300 50 w.1 8) w.2.1).status = cs ∧
          (Pair.step (Pair.run (Pair.init 300 50 w.1 8) w.2.1) w.2.2).isSome = true := by
  decide +kernel

end pair

/-! ## farm (dex/farm = kind `mint` = table `farm`; farm-with-locked-rewards = kind `noMint` = table `fwlr`) -/

section farm
open Mx.Farm

/-- which table a farm of kind `k` is compared with -/
def farmC : Farm.Kind → Contract
  | .mint => .farm | .noMint => .fwlr

/-- the farm model's kill switch as the table's contract state -/
def farmCState (active : Bool) : CState := if active then .active else .inactive

/-- the table row of an operation of the farm model (contract, endpoint).  An operation naming an original
    caller is the `@orig` row; `claimBoosted c (some u)` with `u ≠ c` is `claimBoostedRewards@other`; the three
    `hub…` operations are the permissions hub's own endpoints; `transfer` (plain ESDT transfer), `setEnergy`
    (the world's energy-factory mock), `advance`, `bad` (a malformed call) are no endpoint. -/
def farmEndpoint (k : Farm.Kind) : Farm.Op → Option (Contract × String)
  | .enter _ none .. => some (farmC k, "enterFarm")
  | .enter _ (some _) .. => some (farmC k, "enterFarm@orig")
  | .enterOB .. => some (farmC k, "enterFarmOnBehalf")
  | .claim _ none _ => some (farmC k, "claimRewards")
  | .claim _ (some _) _ => some (farmC k, "claimRewards@orig")
  | .claimOB .. => some (farmC k, "claimRewardsOnBehalf")
  | .compound _ none _ => some (farmC k, "compoundRewards")
  | .compound _ (some _) _ => some (farmC k, "compoundRewards@orig")
  | .exit _ none .. => some (farmC k, "exitFarm")
  | .exit _ (some _) .. => some (farmC k, "exitFarm@orig")
  | .merge _ none _ => some (farmC k, "mergeFarmTokens")
  | .merge _ (some _) _ => some (farmC k, "mergeFarmTokens@orig")
  | .claimBoosted _ none => some (farmC k, "claimBoostedRewards")
  | .claimBoosted c (some u) =>
      some (farmC k, if u = c then "claimBoostedRewards" else "claimBoostedRewards@other")
  | .updateEnergy _ => some (farmC k, "updateEnergyForUser")
  | .setPerBlock .. => some (farmC k, "setPerBlockRewardAmount")
  | .startProduce _ => some (farmC k, "startProduceRewards")
  | .endProduce _ => some (farmC k, "endProduceRewards")
  | .setPct .. => some (farmC k, "setBoostedYieldsRewardsPercentage")
  | .setFactors .. => some (farmC k, "setBoostedYieldsFactors")
  | .collect _ => some (farmC k, "collectUndistributedBoostedRewards")
  | .pause _ => some (farmC k, "pause")
  | .resume _ => some (farmC k, "resume")
  | .setPenalty .. => some (farmC k, "set_penalty_percent")
  | .setMinEpochs .. => some (farmC k, "set_minimum_farming_epochs")
  | .hubWhitelist .. => some (.hub, "whitelist")
  | .hubRemove .. => some (.hub, "removeWhitelist")
  | .hubBlacklist _ => some (.hub, "blacklist")
  | .scWhitelist _ => some (farmC k, "addSCAddressToWhitelist")
  | .scUnwhitelist _ => some (farmC k, "removeSCAddressFromWhitelist")
  | .transfer .. | .setEnergy .. | .advance .. | .bad => none

/-- model-side reading of a table guard for the caller a farm operation carries.  `whitelisted`: the caller of
    an operation naming an original caller is on the farm's contract whitelist; `hubAgent`: the user named by
    `enterOB` — resp. the ONE owner recorded by every position paid into `claimOB` — whitelisted the caller in
    the permissions hub and the caller is not blacklisted; `scOwner` / a permission mask: the caller is the
    model's admin account (`isAdmin`: the farm world's owner, who holds OWNER|ADMIN|PAUSE and is the contract
    owner — the model does not distinguish the three bits); `nobody`: never.  `scWhitelist`, `scUnwhitelist`,
    `hubBlacklist` carry NO caller in the model (applied by the world as the owner): a restricted guard is read
    as `True` for them — nothing is claimed. -/
def farmGuardHolds (s : Farm.St) (op : Farm.Op) (g : Guard) : Prop :=
  match g, op with
  | .anyone, _ => True
  | .whitelisted, .enter c (some _) .. | .whitelisted, .claim c (some _) _
  | .whitelisted, .compound c (some _) _ | .whitelisted, .exit c (some _) ..
  | .whitelisted, .merge c (some _) _ => c ∈ s.scWl
  | .hubAgent, .enterOB c u _ _ => c ∉ s.hubBl ∧ (u, c) ∈ s.hubWl
  | .hubAgent, .claimOB c pays =>
      ∃ u, (∀ p ∈ pays, ∃ att, s.attrs p.1 = some att ∧ att.owner = u) ∧ c ∉ s.hubBl ∧ (u, c) ∈ s.hubWl
  | .scOwner, .scWhitelist _ | .scOwner, .scUnwhitelist _ | .scOwner, .hubBlacklist _ => True
  | .scOwner, o | .perm _, o =>
      match farmAdminCaller o with
      | some c => s.isAdmin c = true
      | none => False
  | _, _ => False

/-- both farm kinds have the row -/
local macro "frow" : tactic => `(tactic| (generalize Farm.St.kind _ = k; cases k <;> decide +kernel))

/-- **bridge, farm (both kinds).**  Whenever an operation of the farm model succeeds, its table row exists in
    the table of the farm's kind (so `compoundRewards` never succeeds in a farm-with-locked-rewards, whose table
    has no such row), the row's guard holds for the operation's caller, and the row's state requirement is met
    by the kill switch. -/
theorem farm_step_allowed (s : Farm.St) (op : Farm.Op) (r : Farm.St × Farm.Out) (c : Contract) (e : String)
    (he : farmEndpoint s.kind op = some (c, e)) (h : Farm.step s op = some r) :
    Allowed c e (farmGuardHolds s op) (farmCState s.active) := by
  obtain ⟨s', o⟩ := r
  have hact := step_active h
  have hst : s.active = true → stateOk .active (farmCState s.active) = true := by
    intro ha; rw [ha]; rfl
  have adm : ∀ (n : String) (g : Guard) (ca : Nat), farmAdminCaller op = some ca →
      (g = .scOwner ∨ ∃ m, g = .perm m) → row (farmC s.kind) n = some (.config, g, .any) →
      Allowed (farmC s.kind) n (farmGuardHolds s op) (farmCState s.active) := by
    intro n g ca hca hg hrow
    have hadm := farm_admin_needs_role s op ca (s', o) hca h
    refine allowed_of_row (.config, g, .any) hrow ?_ rfl
    rcases hg with rfl | ⟨m, rfl⟩
    · cases op <;> simp only [farmGuardHolds, hca] <;> exact hadm
    · cases op <;> simp only [farmGuardHolds, hca] <;> exact hadm
  cases op with
  | enter ca og a ex =>
    cases og with
    | none =>
      simp only [farmEndpoint, Option.some.injEq, Prod.mk.injEq] at he; obtain ⟨rfl, rfl⟩ := he
      exact allowed_of_row (.userFunds, .anyone, .active) (by frow) trivial (hst hact)
    | some og =>
      simp only [farmEndpoint, Option.some.injEq, Prod.mk.injEq] at he; obtain ⟨rfl, rfl⟩ := he
      exact allowed_of_row (.onBehalf, .whitelisted, .active) (by frow)
        (farm_orig_caller_needs_whitelist s _ ca og _ (Or.inl ⟨_, _, rfl⟩) h) (hst hact)
  | enterOB ca u a ex =>
    simp only [farmEndpoint, Option.some.injEq, Prod.mk.injEq] at he; obtain ⟨rfl, rfl⟩ := he
    exact allowed_of_row (.onBehalf, .hubAgent, .active) (by frow)
      (farm_enter_on_behalf s s' ca u a ex o h).1 (hst hact)
  | claim ca og p =>
    cases og with
    | none =>
      simp only [farmEndpoint, Option.some.injEq, Prod.mk.injEq] at he; obtain ⟨rfl, rfl⟩ := he
      exact allowed_of_row (.userFunds, .anyone, .active) (by frow) trivial (hst hact)
    | some og =>
      simp only [farmEndpoint, Option.some.injEq, Prod.mk.injEq] at he; obtain ⟨rfl, rfl⟩ := he
      exact allowed_of_row (.onBehalf, .whitelisted, .active) (by frow)
        (farm_orig_caller_needs_whitelist s _ ca og _ (Or.inr (Or.inl ⟨_, rfl⟩)) h) (hst hact)
  | claimOB ca p =>
    simp only [farmEndpoint, Option.some.injEq, Prod.mk.injEq] at he; obtain ⟨rfl, rfl⟩ := he
    obtain ⟨u, h1, _, h3, _⟩ := farm_claim_on_behalf s s' ca p o h
    exact allowed_of_row (.onBehalf, .hubAgent, .active) (by frow) ⟨u, h1, h3.1, h3.2⟩ (hst hact)
  | compound ca og p =>
    have hk : s.kind = .mint := (compoundRewards_spec (known_some h).2).1
    cases og with
    | none =>
      simp only [farmEndpoint, Option.some.injEq, Prod.mk.injEq] at he; obtain ⟨rfl, rfl⟩ := he
      rw [hk]
      exact allowed_of_row (.userFunds, .anyone, .active) (by decide +kernel) trivial (hst hact)
    | some og =>
      simp only [farmEndpoint, Option.some.injEq, Prod.mk.injEq] at he; obtain ⟨rfl, rfl⟩ := he
      rw [hk]
      exact allowed_of_row (.onBehalf, .whitelisted, .active) (by decide +kernel)
        (farm_orig_caller_needs_whitelist s _ ca og _ (Or.inr (Or.inr (Or.inl ⟨_, rfl⟩))) h) (hst hact)
  | exit ca og n a =>
    cases og with
    | none =>
      simp only [farmEndpoint, Option.some.injEq, Prod.mk.injEq] at he; obtain ⟨rfl, rfl⟩ := he
      exact allowed_of_row (.userFunds, .anyone, .active) (by frow) trivial (hst hact)
    | some og =>
      simp only [farmEndpoint, Option.some.injEq, Prod.mk.injEq] at he; obtain ⟨rfl, rfl⟩ := he
      exact allowed_of_row (.onBehalf, .whitelisted, .active) (by frow)
        (farm_orig_caller_needs_whitelist s _ ca og _ (Or.inr (Or.inr (Or.inr (Or.inl ⟨_, _, rfl⟩)))) h)
        (hst hact)
  | merge ca og p =>
    cases og with
    | none =>
      simp only [farmEndpoint, Option.some.injEq, Prod.mk.injEq] at he; obtain ⟨rfl, rfl⟩ := he
      exact allowed_of_row (.userFunds, .anyone, .active) (by frow) trivial (hst hact)
    | some og =>
      simp only [farmEndpoint, Option.some.injEq, Prod.mk.injEq] at he; obtain ⟨rfl, rfl⟩ := he
      exact allowed_of_row (.onBehalf, .whitelisted, .active) (by frow)
        (farm_orig_caller_needs_whitelist s _ ca og _ (Or.inr (Or.inr (Or.inr (Or.inr ⟨_, rfl⟩)))) h)
        (hst hact)
  | claimBoosted ca ou =>
    cases ou with
    | none =>
      simp only [farmEndpoint, Option.some.injEq, Prod.mk.injEq] at he; obtain ⟨rfl, rfl⟩ := he
      exact allowed_of_row (.userFunds, .anyone, .active) (by frow) trivial (hst hact)
    | some u =>
      have hu : u = ca := farm_claim_boosted_only_self s ca u _ h
      simp only [farmEndpoint, hu, if_true, Option.some.injEq, Prod.mk.injEq] at he; obtain ⟨rfl, rfl⟩ := he
      exact allowed_of_row (.userFunds, .anyone, .active) (by frow) trivial (hst hact)
  | transfer a b n x => simp [farmEndpoint] at he
  | setEnergy u a l t => simp [farmEndpoint] at he
  | updateEnergy u =>
    simp only [farmEndpoint, Option.some.injEq, Prod.mk.injEq] at he; obtain ⟨rfl, rfl⟩ := he
    exact allowed_of_row (.open_, .anyone, .any) (by frow) trivial rfl
  | setPerBlock ca x =>
    simp only [farmEndpoint, Option.some.injEq, Prod.mk.injEq] at he; obtain ⟨rfl, rfl⟩ := he
    exact adm _ gAdmin ca rfl (Or.inr ⟨_, rfl⟩) (by frow)
  | startProduce ca =>
    simp only [farmEndpoint, Option.some.injEq, Prod.mk.injEq] at he; obtain ⟨rfl, rfl⟩ := he
    exact adm _ gAdmin ca rfl (Or.inr ⟨_, rfl⟩) (by frow)
  | endProduce ca =>
    simp only [farmEndpoint, Option.some.injEq, Prod.mk.injEq] at he; obtain ⟨rfl, rfl⟩ := he
    exact adm _ gAdmin ca rfl (Or.inr ⟨_, rfl⟩) (by frow)
  | setPct ca x =>
    simp only [farmEndpoint, Option.some.injEq, Prod.mk.injEq] at he; obtain ⟨rfl, rfl⟩ := he
    exact adm _ gAdmin ca rfl (Or.inr ⟨_, rfl⟩) (by frow)
  | setFactors ca x =>
    simp only [farmEndpoint, Option.some.injEq, Prod.mk.injEq] at he; obtain ⟨rfl, rfl⟩ := he
    exact adm _ gAdmin ca rfl (Or.inr ⟨_, rfl⟩) (by frow)
  | collect ca =>
    simp only [farmEndpoint, Option.some.injEq, Prod.mk.injEq] at he; obtain ⟨rfl, rfl⟩ := he
    exact adm _ gAdmin ca rfl (Or.inr ⟨_, rfl⟩) (by frow)
  | pause ca =>
    simp only [farmEndpoint, Option.some.injEq, Prod.mk.injEq] at he; obtain ⟨rfl, rfl⟩ := he
    exact adm _ gPause ca rfl (Or.inr ⟨_, rfl⟩) (by frow)
  | resume ca =>
    simp only [farmEndpoint, Option.some.injEq, Prod.mk.injEq] at he; obtain ⟨rfl, rfl⟩ := he
    exact adm _ gPause ca rfl (Or.inr ⟨_, rfl⟩) (by frow)
  | setPenalty ca x =>
    simp only [farmEndpoint, Option.some.injEq, Prod.mk.injEq] at he; obtain ⟨rfl, rfl⟩ := he
    exact adm _ .scOwner ca rfl (Or.inl rfl) (by frow)
  | setMinEpochs ca x =>
    simp only [farmEndpoint, Option.some.injEq, Prod.mk.injEq] at he; obtain ⟨rfl, rfl⟩ := he
    exact adm _ gAdmin ca rfl (Or.inr ⟨_, rfl⟩) (by frow)
  | hubWhitelist u a =>
    simp only [farmEndpoint, Option.some.injEq, Prod.mk.injEq] at he; obtain ⟨rfl, rfl⟩ := he
    exact allowed_of_row (.open_, .anyone, .any) (by decide +kernel) trivial rfl
  | hubRemove u a =>
    simp only [farmEndpoint, Option.some.injEq, Prod.mk.injEq] at he; obtain ⟨rfl, rfl⟩ := he
    exact allowed_of_row (.open_, .anyone, .any) (by decide +kernel) trivial rfl
  | hubBlacklist a =>
    simp only [farmEndpoint, Option.some.injEq, Prod.mk.injEq] at he; obtain ⟨rfl, rfl⟩ := he
    exact allowed_of_row (.config, .scOwner, .any) (by decide +kernel) trivial rfl
  | scWhitelist a =>
    simp only [farmEndpoint, Option.some.injEq, Prod.mk.injEq] at he; obtain ⟨rfl, rfl⟩ := he
    exact allowed_of_row (.config, .scOwner, .any) (by frow) trivial rfl
  | scUnwhitelist a =>
    simp only [farmEndpoint, Option.some.injEq, Prod.mk.injEq] at he; obtain ⟨rfl, rfl⟩ := he
    exact allowed_of_row (.config, .scOwner, .any) (by frow) trivial rfl
  | advance b ep => simp [farmEndpoint] at he
  | bad => simp [farmEndpoint] at he

/-- clause (a), farm: if the table's state requirement of the operation's row is NOT met by the kill switch, the
    operation fails — for every caller and all arguments, both kinds -/
theorem farm_table_state_blocks (s : Farm.St) (op : Farm.Op) (c : Contract) (e : String) (ent : Entry)
    (he : farmEndpoint s.kind op = some (c, e)) (hl : lookup c e = some ent)
    (hs : stateOk ent.st (farmCState s.active) = false) : Farm.step s op = none := by
  cases hstep : Farm.step s op with
  | none => rfl
  | some r => exact absurd (farm_step_allowed s op r c e he hstep) (not_allowed_of_state hl hs)

/-- an operation whose row is guarded by `nobody` (`claimBoostedRewards` for ANOTHER user) never succeeds, and
    an operation whose row does not exist in the table of the farm's kind (`compoundRewards` in a
    farm-with-locked-rewards) never succeeds -/
theorem farm_no_row_no_success (s : Farm.St) (op : Farm.Op) (c : Contract) (e : String)
    (he : farmEndpoint s.kind op = some (c, e))
    (hn : lookup c e = none ∨ ∃ ent, lookup c e = some ent ∧ ent.guard = .nobody) : Farm.step s op = none := by
  cases hstep : Farm.step s op with
  | none => rfl
  | some r =>
    obtain ⟨ent, hl, hg, _⟩ := farm_step_allowed s op r c e he hstep
    rcases hn with hn | ⟨ent', hl', hg'⟩
    · rw [hn] at hl; cases hl
    · rw [hl] at hl'; cases hl'
      rw [hg'] at hg
      cases op <;> simp [farmGuardHolds] at hg

/-- non-vacuity of `farm_no_row_no_success`: both situations occur (the rows are what the statement says) -/
example :
    farmEndpoint .noMint (.compound 1 none [(1, 5)]) = some (.fwlr, "compoundRewards") ∧
    lookup .fwlr "compoundRewards" = none ∧
    farmEndpoint .mint (.claimBoosted 1 (some 2)) = some (.farm, "claimBoostedRewards@other") ∧
    (lookup .farm "claimBoostedRewards@other").map (·.guard) = some .nobody := by decide +kernel

/-- closes `clsOf (farmC k) "name" = …` for both kinds -/
local macro "fcls" : tactic =>
  `(tactic| (simp only [farmUserFundsOp, ↓reduceIte, Bool.false_eq_true]
             first | decide +kernel | (generalize Farm.St.kind _ = k; cases k <;> decide +kernel)))

/-- **class agreement, farm.**  For every operation of the farm model whose row exists in the table of the
    farm's kind: the operation is in `C19Models.farmUserFundsOp` (the list `farm_paused_blocks_funds` gates)
    IF AND ONLY IF the table's class of its row is `userFunds` or `onBehalf`. -/
theorem farm_class_agreement (k : Farm.Kind) (op : Farm.Op) (c : Contract) (e : String) (cl : Class)
    (he : farmEndpoint k op = some (c, e)) (hc : clsOf c e = some cl) :
    (farmUserFundsOp op = true ↔ (cl = .userFunds ∨ cl = .onBehalf)) := by
  have fin : ∀ (b : Bool) (n : String),
      (∀ k', clsOf (farmC k') n = none ∨ (clsOf (farmC k') n).map (fun x => decide (x = .userFunds ∨ x = .onBehalf)) = some b) →
      c = farmC k → e = n → (b = true ↔ (cl = .userFunds ∨ cl = .onBehalf)) := by
    intro b n hn hc' he'
    subst hc' he'
    rcases hn k with h0 | h0
    · rw [h0] at hc; cases hc
    · rw [hc] at h0
      simp only [Option.map_some, Option.some.injEq] at h0
      rw [← h0]; simp
  cases op with
  | enter ca og a ex =>
    cases og <;> (simp only [farmEndpoint, Option.some.injEq, Prod.mk.injEq] at he
                  exact fin true _ (by intro k'; cases k' <;> decide +kernel) he.1.symm he.2.symm)
  | claim ca og p =>
    cases og <;> (simp only [farmEndpoint, Option.some.injEq, Prod.mk.injEq] at he
                  exact fin true _ (by intro k'; cases k' <;> decide +kernel) he.1.symm he.2.symm)
  | compound ca og p =>
    cases og <;> (simp only [farmEndpoint, Option.some.injEq, Prod.mk.injEq] at he
                  exact fin true _ (by intro k'; cases k' <;> decide +kernel) he.1.symm he.2.symm)
  | exit ca og n a =>
    cases og <;> (simp only [farmEndpoint, Option.some.injEq, Prod.mk.injEq] at he
                  exact fin true _ (by intro k'; cases k' <;> decide +kernel) he.1.symm he.2.symm)
  | merge ca og p =>
    cases og <;> (simp only [farmEndpoint, Option.some.injEq, Prod.mk.injEq] at he
                  exact fin true _ (by intro k'; cases k' <;> decide +kernel) he.1.symm he.2.symm)
  | claimBoosted ca ou =>
    cases ou with
    | none =>
      simp only [farmEndpoint, Option.some.injEq, Prod.mk.injEq] at he
      exact fin true _ (by intro k'; cases k' <;> decide +kernel) he.1.symm he.2.symm
    | some u =>
      simp only [farmEndpoint, Option.some.injEq, Prod.mk.injEq] at he
      by_cases hu : u = ca
      · rw [if_pos hu] at he
        exact fin true _ (by intro k'; cases k' <;> decide +kernel) he.1.symm he.2.symm
      · rw [if_neg hu] at he
        exact fin true _ (by intro k'; cases k' <;> decide +kernel) he.1.symm he.2.symm
  | enterOB ca u a ex =>
    simp only [farmEndpoint, Option.some.injEq, Prod.mk.injEq] at he
    exact fin true _ (by intro k'; cases k' <;> decide +kernel) he.1.symm he.2.symm
  | claimOB ca p =>
    simp only [farmEndpoint, Option.some.injEq, Prod.mk.injEq] at he
    exact fin true _ (by intro k'; cases k' <;> decide +kernel) he.1.symm he.2.symm
  | hubWhitelist u a =>
    simp only [farmEndpoint, Option.some.injEq, Prod.mk.injEq] at he; obtain ⟨rfl, rfl⟩ := he
    have : cl = .open_ := by
      have h0 : clsOf .hub "whitelist" = some Class.open_ := by decide +kernel
      rw [h0] at hc; cases hc; rfl
    subst this; simp [farmUserFundsOp]
  | hubRemove u a =>
    simp only [farmEndpoint, Option.some.injEq, Prod.mk.injEq] at he; obtain ⟨rfl, rfl⟩ := he
    have : cl = .open_ := by
      have h0 : clsOf .hub "removeWhitelist" = some Class.open_ := by decide +kernel
      rw [h0] at hc; cases hc; rfl
    subst this; simp [farmUserFundsOp]
  | hubBlacklist a =>
    simp only [farmEndpoint, Option.some.injEq, Prod.mk.injEq] at he; obtain ⟨rfl, rfl⟩ := he
    have : cl = .config := by
      have h0 : clsOf .hub "blacklist" = some Class.config := by decide +kernel
      rw [h0] at hc; cases hc; rfl
    subst this; simp [farmUserFundsOp]
  | transfer a b n x => simp [farmEndpoint] at he
  | setEnergy u a l t => simp [farmEndpoint] at he
  | advance b ep => simp [farmEndpoint] at he
  | bad => simp [farmEndpoint] at he
  | _ =>
    simp only [farmEndpoint, Option.some.injEq, Prod.mk.injEq] at he
    exact fin false _ (by intro k'; cases k' <;> decide +kernel) he.1.symm he.2.symm

end farm

/-! ## farm-staking -/

section staking
open Mx.Staking

/-- the table row of an operation of the staking model (contract, endpoint).  `calc false …` is
    `calculateRewardsForGivenPosition` sent as a TRANSACTION (the row's guard is `nobody`: `require_queried`);
    `calc true …` is the VM query, which is no transaction and has no row; `transfer`, `setEnergy`, `advance`
    are no endpoint. -/
def stakingEndpoint : Staking.Op → Option (Contract × String)
  | .stake _ none .. => some (.staking, "stakeFarm")
  | .stake _ (some _) .. => some (.staking, "stakeFarm@orig")
  | .stakeProxy .. => some (.staking, "stakeFarmThroughProxy")
  | .stakeBehalf .. => some (.staking, "stakeFarmOnBehalf")
  | .claim _ none _ => some (.staking, "claimRewards")
  | .claim _ (some _) _ => some (.staking, "claimRewards@orig")
  | .claimNew .. => some (.staking, "claimRewardsWithNewValue")
  | .claimBehalf .. => some (.staking, "claimRewardsOnBehalf")
  | .compound .. => some (.staking, "compoundRewards")
  | .unstake _ none _ => some (.staking, "unstakeFarm")
  | .unstake _ (some _) _ => some (.staking, "unstakeFarm@orig")
  | .unstakeProxy .. => some (.staking, "unstakeFarmThroughProxy")
  | .unbond .. => some (.staking, "unbondFarm")
  | .merge .. => some (.staking, "mergeFarmTokens")
  | .claimBoosted _ none => some (.staking, "claimBoostedRewards")
  | .claimBoosted c (some u) =>
      some (.staking, if u = c then "claimBoostedRewards" else "claimBoostedRewards@other")
  | .calc false .. => some (.staking, "calculateRewardsForGivenPosition")
  | .calc true .. => none
  | .updateEnergy _ => some (.staking, "updateEnergyForUser")
  | .topUp _ => some (.staking, "topUpRewards")
  | .withdraw _ => some (.staking, "withdrawRewards")
  | .setMaxApr _ => some (.staking, "setMaxApr")
  | .setPerBlock _ => some (.staking, "setPerBlockRewardAmount")
  | .startProduce => some (.staking, "startProduceRewards")
  | .endProduce => some (.staking, "endProduceRewards")
  | .setMinUnbond _ => some (.staking, "setMinUnbondEpochs")
  | .setBoostedPct _ => some (.staking, "setBoostedYieldsRewardsPercentage")
  | .setFactors _ => some (.staking, "setBoostedYieldsFactors")
  | .collectUndistributed => some (.staking, "collectUndistributedBoostedRewards")
  | .pause => some (.staking, "pause")
  | .resume => some (.staking, "resume")
  | .hubWhitelist .. => some (.hub, "whitelist")
  | .hubRemove .. => some (.hub, "removeWhitelist")
  | .transfer .. | .setEnergy .. | .advance .. => none

/-- the admin operations of the staking model: they carry NO caller (the staking world applies them as the
    owner; audit item 3) -/
def stakingCallerless : Staking.Op → Bool
  | .topUp _ | .withdraw _ | .setMaxApr _ | .setPerBlock _ | .startProduce | .endProduce | .setMinUnbond _
  | .setBoostedPct _ | .setFactors _ | .collectUndistributed | .pause | .resume => true
  | _ => false

/-- model-side reading of a table guard for the caller a staking operation carries.  `whitelisted`: the caller
    of a proxy endpoint or of an operation naming an original caller is on the contract whitelist; `hubAgent`:
    the user named by `stakeBehalf` — resp. the ONE owner recorded by every position paid into `claimBehalf` —
    authorised the caller in the permissions hub (the staking world's hub has no blacklist); `nobody`: never.
    A permission mask is read as `True` for the caller-less admin operations — nothing is claimed there. -/
def stakingGuardHolds (s : Staking.St) (op : Staking.Op) (g : Guard) : Prop :=
  match g, op with
  | .anyone, _ => True
  | .whitelisted, .stakeProxy c .. | .whitelisted, .claimNew c .. | .whitelisted, .unstakeProxy c ..
  | .whitelisted, .stake c (some _) .. | .whitelisted, .claim c (some _) _
  | .whitelisted, .unstake c (some _) _ => c ∈ s.whitelist
  | .hubAgent, .stakeBehalf c u _ _ => (u, c) ∈ s.hub
  | .hubAgent, .claimBehalf c pays =>
      ∃ u, (∀ p ∈ pays, ∃ a, posOf s.md p.1 = some a ∧ a.owner = u) ∧ (u, c) ∈ s.hub
  | .perm _, o => stakingCallerless o = true
  | _, _ => False

/-- **bridge, staking.**  Whenever an operation of the staking model succeeds, its table row exists, the row's
    guard holds for the operation's caller, and the row's state requirement is met by the kill switch. -/
theorem staking_step_allowed (s : Staking.St) (op : Staking.Op) (r : Staking.St × Staking.Out) (c : Contract)
    (e : String) (he : stakingEndpoint op = some (c, e)) (h : Staking.step s op = some r) :
    Allowed c e (stakingGuardHolds s op) (farmCState s.active) := by
  have hst : s.active = true → stateOk .active (farmCState s.active) = true := by
    intro ha; rw [ha]; rfl
  have hact : stakingUserFundsOp op = true → s.active = true := fun hf => staking_funds_need_active s op r hf h
  have hwl := staking_contract_ops_need_whitelist s op
  cases op with
  | stake ca og a ads =>
    cases og with
    | none =>
      simp only [stakingEndpoint, Option.some.injEq, Prod.mk.injEq] at he; obtain ⟨rfl, rfl⟩ := he
      exact allowed_of_row (.userFunds, .anyone, .active) (by decide +kernel) trivial (hst (hact rfl))
    | some og =>
      simp only [stakingEndpoint, Option.some.injEq, Prod.mk.injEq] at he; obtain ⟨rfl, rfl⟩ := he
      exact allowed_of_row (.onBehalf, .whitelisted, .active) (by decide +kernel)
        (hwl ca r (Or.inr (Or.inr (Or.inr (Or.inl ⟨_, _, _, rfl⟩)))) h) (hst (hact rfl))
  | stakeProxy ca og a ads =>
    simp only [stakingEndpoint, Option.some.injEq, Prod.mk.injEq] at he; obtain ⟨rfl, rfl⟩ := he
    exact allowed_of_row (.onBehalf, .whitelisted, .active) (by decide +kernel)
      (hwl ca r (Or.inl ⟨_, _, _, rfl⟩) h) (hst (hact rfl))
  | stakeBehalf ca u a ads =>
    simp only [stakingEndpoint, Option.some.injEq, Prod.mk.injEq] at he; obtain ⟨rfl, rfl⟩ := he
    exact allowed_of_row (.onBehalf, .hubAgent, .active) (by decide +kernel)
      (staking_stake_on_behalf s ca u a ads r h).1 (hst (hact rfl))
  | claim ca og p =>
    cases og with
    | none =>
      simp only [stakingEndpoint, Option.some.injEq, Prod.mk.injEq] at he; obtain ⟨rfl, rfl⟩ := he
      exact allowed_of_row (.userFunds, .anyone, .active) (by decide +kernel) trivial (hst (hact rfl))
    | some og =>
      simp only [stakingEndpoint, Option.some.injEq, Prod.mk.injEq] at he; obtain ⟨rfl, rfl⟩ := he
      exact allowed_of_row (.onBehalf, .whitelisted, .active) (by decide +kernel)
        (hwl ca r (Or.inr (Or.inr (Or.inr (Or.inr (Or.inl ⟨_, _, rfl⟩))))) h) (hst (hact rfl))
  | claimNew ca og nv p =>
    simp only [stakingEndpoint, Option.some.injEq, Prod.mk.injEq] at he; obtain ⟨rfl, rfl⟩ := he
    exact allowed_of_row (.onBehalf, .whitelisted, .active) (by decide +kernel)
      (hwl ca r (Or.inr (Or.inl ⟨_, _, _, rfl⟩)) h) (hst (hact rfl))
  | claimBehalf ca ps =>
    simp only [stakingEndpoint, Option.some.injEq, Prod.mk.injEq] at he; obtain ⟨rfl, rfl⟩ := he
    obtain ⟨s', o⟩ := r
    obtain ⟨u, _, _, h3, h4, _⟩ := staking_claim_on_behalf s s' ca ps o h
    exact allowed_of_row (.onBehalf, .hubAgent, .active) (by decide +kernel) ⟨u, h3, h4⟩ (hst (hact rfl))
  | compound ca ps =>
    simp only [stakingEndpoint, Option.some.injEq, Prod.mk.injEq] at he; obtain ⟨rfl, rfl⟩ := he
    exact allowed_of_row (.userFunds, .anyone, .active) (by decide +kernel) trivial (hst (hact rfl))
  | unstake ca og p =>
    cases og with
    | none =>
      simp only [stakingEndpoint, Option.some.injEq, Prod.mk.injEq] at he; obtain ⟨rfl, rfl⟩ := he
      exact allowed_of_row (.userFunds, .anyone, .active) (by decide +kernel) trivial (hst (hact rfl))
    | some og =>
      simp only [stakingEndpoint, Option.some.injEq, Prod.mk.injEq] at he; obtain ⟨rfl, rfl⟩ := he
      exact allowed_of_row (.onBehalf, .whitelisted, .active) (by decide +kernel)
        (hwl ca r (Or.inr (Or.inr (Or.inr (Or.inr (Or.inr ⟨_, _, rfl⟩))))) h) (hst (hact rfl))
  | unstakeProxy ca og x p =>
    simp only [stakingEndpoint, Option.some.injEq, Prod.mk.injEq] at he; obtain ⟨rfl, rfl⟩ := he
    exact allowed_of_row (.onBehalf, .whitelisted, .active) (by decide +kernel)
      (hwl ca r (Or.inr (Or.inr (Or.inl ⟨_, _, _, rfl⟩))) h) (hst (hact rfl))
  | unbond ca p =>
    simp only [stakingEndpoint, Option.some.injEq, Prod.mk.injEq] at he; obtain ⟨rfl, rfl⟩ := he
    exact allowed_of_row (.userFunds, .anyone, .active) (by decide +kernel) trivial (hst (hact rfl))
  | merge ca ps =>
    simp only [stakingEndpoint, Option.some.injEq, Prod.mk.injEq] at he; obtain ⟨rfl, rfl⟩ := he
    exact allowed_of_row (.userFunds, .anyone, .active) (by decide +kernel) trivial (hst (hact rfl))
  | claimBoosted ca ou =>
    cases ou with
    | none =>
      simp only [stakingEndpoint, Option.some.injEq, Prod.mk.injEq] at he; obtain ⟨rfl, rfl⟩ := he
      exact allowed_of_row (.userFunds, .anyone, .active) (by decide +kernel) trivial (hst (hact rfl))
    | some u =>
      have hu : u = ca := by
        rcases (claimBoostedRewards_needs (step_some h).2).2 with h0 | h0
        · cases h0
        · exact Option.some.inj h0
      simp only [stakingEndpoint, hu, if_true, Option.some.injEq, Prod.mk.injEq] at he; obtain ⟨rfl, rfl⟩ := he
      exact allowed_of_row (.userFunds, .anyone, .active) (by decide +kernel) trivial (hst (hact rfl))
  | «calc» q a t =>
    cases q with
    | true => simp [stakingEndpoint] at he
    | false =>
      exfalso
      have h2 := (step_some h).2
      simp [stepCore, calcRewards, req] at h2
  | transfer a b p => simp [stakingEndpoint] at he
  | setEnergy u a l => simp [stakingEndpoint] at he
  | updateEnergy u =>
    simp only [stakingEndpoint, Option.some.injEq, Prod.mk.injEq] at he; obtain ⟨rfl, rfl⟩ := he
    exact allowed_of_row (.open_, .anyone, .any) (by decide +kernel) trivial rfl
  | topUp x =>
    simp only [stakingEndpoint, Option.some.injEq, Prod.mk.injEq] at he; obtain ⟨rfl, rfl⟩ := he
    exact allowed_of_row (.config, gAdmin, .any) (by decide +kernel) rfl rfl
  | withdraw x =>
    simp only [stakingEndpoint, Option.some.injEq, Prod.mk.injEq] at he; obtain ⟨rfl, rfl⟩ := he
    exact allowed_of_row (.config, gAdmin, .any) (by decide +kernel) rfl rfl
  | setMaxApr x =>
    simp only [stakingEndpoint, Option.some.injEq, Prod.mk.injEq] at he; obtain ⟨rfl, rfl⟩ := he
    exact allowed_of_row (.config, gAdmin, .any) (by decide +kernel) rfl rfl
  | setPerBlock x =>
    simp only [stakingEndpoint, Option.some.injEq, Prod.mk.injEq] at he; obtain ⟨rfl, rfl⟩ := he
    exact allowed_of_row (.config, gAdmin, .any) (by decide +kernel) rfl rfl
  | startProduce =>
    simp only [stakingEndpoint, Option.some.injEq, Prod.mk.injEq] at he; obtain ⟨rfl, rfl⟩ := he
    exact allowed_of_row (.config, gAdmin, .any) (by decide +kernel) rfl rfl
  | endProduce =>
    simp only [stakingEndpoint, Option.some.injEq, Prod.mk.injEq] at he; obtain ⟨rfl, rfl⟩ := he
    exact allowed_of_row (.config, gAdmin, .any) (by decide +kernel) rfl rfl
  | setMinUnbond x =>
    simp only [stakingEndpoint, Option.some.injEq, Prod.mk.injEq] at he; obtain ⟨rfl, rfl⟩ := he
    exact allowed_of_row (.config, gAdmin, .any) (by decide +kernel) rfl rfl
  | setBoostedPct x =>
    simp only [stakingEndpoint, Option.some.injEq, Prod.mk.injEq] at he; obtain ⟨rfl, rfl⟩ := he
    exact allowed_of_row (.config, gAdmin, .any) (by decide +kernel) rfl rfl
  | setFactors x =>
    simp only [stakingEndpoint, Option.some.injEq, Prod.mk.injEq] at he; obtain ⟨rfl, rfl⟩ := he
    exact allowed_of_row (.config, gAdmin, .any) (by decide +kernel) rfl rfl
  | collectUndistributed =>
    simp only [stakingEndpoint, Option.some.injEq, Prod.mk.injEq] at he; obtain ⟨rfl, rfl⟩ := he
    exact allowed_of_row (.config, gAdmin, .any) (by decide +kernel) rfl rfl
  | pause =>
    simp only [stakingEndpoint, Option.some.injEq, Prod.mk.injEq] at he; obtain ⟨rfl, rfl⟩ := he
    exact allowed_of_row (.config, gPause, .any) (by decide +kernel) rfl rfl
  | resume =>
    simp only [stakingEndpoint, Option.some.injEq, Prod.mk.injEq] at he; obtain ⟨rfl, rfl⟩ := he
    exact allowed_of_row (.config, gPause, .any) (by decide +kernel) rfl rfl
  | hubWhitelist u a =>
    simp only [stakingEndpoint, Option.some.injEq, Prod.mk.injEq] at he; obtain ⟨rfl, rfl⟩ := he
    exact allowed_of_row (.open_, .anyone, .any) (by decide +kernel) trivial rfl
  | hubRemove u a =>
    simp only [stakingEndpoint, Option.some.injEq, Prod.mk.injEq] at he; obtain ⟨rfl, rfl⟩ := he
    exact allowed_of_row (.open_, .anyone, .any) (by decide +kernel) trivial rfl
  | advance b ep => simp [stakingEndpoint] at he

/-- clause (a), staking: if the table's state requirement of the operation's row is NOT met by the kill switch,
    the operation fails — for every caller and all arguments -/
theorem staking_table_state_blocks (s : Staking.St) (op : Staking.Op) (c : Contract) (e : String) (ent : Entry)
    (he : stakingEndpoint op = some (c, e)) (hl : lookup c e = some ent)
    (hs : stateOk ent.st (farmCState s.active) = false) : Staking.step s op = none := by
  cases hstep : Staking.step s op with
  | none => rfl
  | some r => exact absurd (staking_step_allowed s op r c e he hstep) (not_allowed_of_state hl hs)

/-- **class agreement, staking.**  For every operation of the staking model that has a row: the operation is in
    `C19Models.stakingUserFundsOp` (the list `staking_paused_blocks_funds` gates) IF AND ONLY IF the table's class
    of its row is `userFunds` or `onBehalf`.  (`topUpRewards` / `withdrawRewards` move reward tokens but are
    class `config`, guard ADMIN, state `any` in the table, and un-gated in the model: both sides agree that the
    admin can fund and de-fund a paused farm.) -/
theorem staking_class_agreement (op : Staking.Op) (c : Contract) (e : String)
    (he : stakingEndpoint op = some (c, e)) :
    (clsOf c e).map (fun x => decide (x = .userFunds ∨ x = .onBehalf)) = some (stakingUserFundsOp op) := by
  cases op with
  | stake ca og a ads =>
    cases og <;> (simp only [stakingEndpoint, Option.some.injEq, Prod.mk.injEq] at he; obtain ⟨rfl, rfl⟩ := he
                  simp only [stakingUserFundsOp]; decide +kernel)
  | claim ca og p =>
    cases og <;> (simp only [stakingEndpoint, Option.some.injEq, Prod.mk.injEq] at he; obtain ⟨rfl, rfl⟩ := he
                  simp only [stakingUserFundsOp]; decide +kernel)
  | unstake ca og p =>
    cases og <;> (simp only [stakingEndpoint, Option.some.injEq, Prod.mk.injEq] at he; obtain ⟨rfl, rfl⟩ := he
                  simp only [stakingUserFundsOp]; decide +kernel)
  | claimBoosted ca ou =>
    cases ou with
    | none =>
      simp only [stakingEndpoint, Option.some.injEq, Prod.mk.injEq] at he; obtain ⟨rfl, rfl⟩ := he
      simp only [stakingUserFundsOp]; decide +kernel
    | some u =>
      simp only [stakingEndpoint, Option.some.injEq, Prod.mk.injEq] at he; obtain ⟨rfl, rfl⟩ := he
      simp only [stakingUserFundsOp]; split <;> decide +kernel
  | «calc» q a t =>
    cases q with
    | true => simp [stakingEndpoint] at he
    | false =>
      simp only [stakingEndpoint, Option.some.injEq, Prod.mk.injEq] at he; obtain ⟨rfl, rfl⟩ := he
      simp only [stakingUserFundsOp]; decide +kernel
  | transfer a b p => simp [stakingEndpoint] at he
  | setEnergy u a l => simp [stakingEndpoint] at he
  | advance b ep => simp [stakingEndpoint] at he
  | _ =>
    simp only [stakingEndpoint, Option.some.injEq, Prod.mk.injEq] at he; obtain ⟨rfl, rfl⟩ := he
    simp only [stakingUserFundsOp]; decide +kernel

end staking

/-! ## energy factory world (energy factory + token-unstake + lkmex-transfer + locked-token wrapper) -/

section energy
open Mx.Energy

/-- the energy factory's pause flag as the table's contract state -/
def energyCState (paused : Bool) : CState := if paused then .inactive else .active

/-- the table rows an operation of the energy world passes through, in call order (contract, endpoint).  The
    satellite contracts' endpoints call back into the factory: `cancel` = token-unstake `cancelUnbond` →
    factory `revertUnstake`; `lockFunds` / `withdraw` / `cancelTransfer` = lkmex-transfer → factory
    `setUserEnergyAfterLockedTokenTransfer`; `wrap` / `unwrap` = the locked-token wrapper (not a contract of the
    table) → the same factory endpoint.  `extend` is `lockTokens` paid with locked tokens.  `merge c orig …` is the
    `@orig` row iff an original caller is named (`orig ≠ 0`).  `cfg (setBurnPct _)` is token-unstake's
    `setFeesBurnPercentage`.  `xferWrapped` (plain ESDT transfer) and `advance` pass through no endpoint. -/
def energyPath : Energy.Op → List (Contract × String)
  | .lock .. | .extend .. => [(.energy, "lockTokens")]
  | .unlock .. => [(.energy, "unlockTokens")]
  | .merge _ orig _ => [(.energy, if orig = 0 then "mergeTokens" else "mergeTokens@orig")]
  | .unlockEarly .. => [(.energy, "unlockEarly")]
  | .reduce .. => [(.energy, "reduceLockPeriod")]
  | .lockVirtual .. => [(.energy, "lockVirtual")]
  | .claim _ => [(.unstake, "claimUnlockedTokens")]
  | .cancel _ => [(.unstake, "cancelUnbond"), (.energy, "revertUnstake")]
  | .lockFunds .. => [(.lkmex, "lockFunds"), (.energy, "setUserEnergyAfterLockedTokenTransfer")]
  | .withdraw .. => [(.lkmex, "withdraw"), (.energy, "setUserEnergyAfterLockedTokenTransfer")]
  | .cancelTransfer .. => [(.lkmex, "cancelTransfer"), (.energy, "setUserEnergyAfterLockedTokenTransfer")]
  | .wrap .. | .unwrap .. => [(.energy, "setUserEnergyAfterLockedTokenTransfer")]
  | .cfg (.addOptions _) => [(.energy, "addLockOptions")]
  | .cfg (.setBurnPct _) => [(.unstake, "setFeesBurnPercentage")]
  | .cfg (.pause true) => [(.energy, "pause")]
  | .cfg (.pause false) => [(.energy, "unpause")]
  | .cfg (.whitelist _) => [(.energy, "addSCAddressToWhitelist")]
  | .cfg (.unwhitelist _) => [(.energy, "removeSCAddressFromWhitelist")]
  | .xferWrapped .. | .advance _ => []

/-- model-side reading of a table guard for the caller an energy-world operation carries.  `whitelisted`: the
    caller of `lockVirtual`, and of `mergeTokens` naming an original caller, is on the factory's contract
    whitelist; for the call-back rows (`revertUnstake`, `setUserEnergyAfterLockedTokenTransfer`) the caller is the
    satellite contract itself, which the model hard-wires as configured (token-unstake address / token-transfer
    whitelist) — read as `True`.  `cfg …` and `cancelTransfer` carry NO caller (applied by the world as the
    owner / lkmex admin): a restricted guard is read as `True` — nothing is claimed there. -/
def energyGuardHolds (s : Energy.St) (op : Energy.Op) (g : Guard) : Prop :=
  match g, op with
  | .anyone, _ => True
  | .whitelisted, .lockVirtual c .. => c ∈ s.wl
  | .whitelisted, .merge c _ _ => c ∈ s.wl
  | .whitelisted, .cancel _ | .whitelisted, .lockFunds .. | .whitelisted, .withdraw ..
  | .whitelisted, .cancelTransfer .. | .whitelisted, .wrap .. | .whitelisted, .unwrap .. => True
  | .scOwner, .cfg _ => True
  | .perm _, .cancelTransfer .. => True
  | _, _ => False

/-- **bridge, energy world.**  Whenever an operation of the energy-world model succeeds, EVERY table row on its
    path exists, the row's guard holds for the operation's caller, and the row's state requirement is met by the
    factory's pause flag (token-unstake and lkmex-transfer have no kill switch: their rows require no state; the
    factory rows the satellites call back into require the factory unpaused). -/
theorem energy_step_allowed (s : Energy.St) (op : Energy.Op) (r : Energy.St × Energy.Out)
    (h : Energy.step s op = some r) :
    ∀ ce ∈ energyPath op, Allowed ce.1 ce.2 (energyGuardHolds s op) (energyCState s.paused) := by
  have hst : s.paused = false → stateOk .active (energyCState s.paused) = true := by
    intro ha; rw [ha]; rfl
  have cbw : ∀ {G : Guard → Prop}, G .whitelisted → s.paused = false →
      Allowed .energy "setUserEnergyAfterLockedTokenTransfer" G (energyCState s.paused) :=
    fun hg hp => allowed_of_row (.contractOnly, .whitelisted, .active) (by decide +kernel) hg (hst hp)
  intro ce hce
  cases op with
  | lock c amt ep d =>
    simp only [energyPath, List.mem_singleton] at hce; subst hce
    exact allowed_of_row (.userFunds, .anyone, .active) (by decide +kernel) trivial (hst (lockTokens_unpaused h))
  | extend c n amt ep d =>
    simp only [energyPath, List.mem_singleton] at hce; subst hce
    exact allowed_of_row (.userFunds, .anyone, .active) (by decide +kernel) trivial (hst (extendLock_unpaused h))
  | unlock c ps =>
    simp only [energyPath, List.mem_singleton] at hce; subst hce
    exact allowed_of_row (.userFunds, .anyone, .active) (by decide +kernel) trivial (hst (unlockTokens_unpaused h))
  | merge c orig ps =>
    simp only [energyPath, List.mem_singleton] at hce; subst hce
    obtain ⟨hp, hw⟩ := mergeTokens_unpaused h
    by_cases ho : orig = 0
    · simp only [ho, if_true]
      exact allowed_of_row (.userFunds, .anyone, .active) (by decide +kernel) trivial (hst hp)
    · simp only [ho, if_false]
      refine allowed_of_row (.onBehalf, .whitelisted, .active) (by decide +kernel) ?_ (hst hp)
      rcases hw with hw | hw
      · exact absurd hw ho
      · exact hw
  | unlockEarly c n amt =>
    simp only [energyPath, List.mem_singleton] at hce; subst hce
    exact allowed_of_row (.userFunds, .anyone, .active) (by decide +kernel) trivial (hst (unlockEarly_unpaused h))
  | reduce c n amt ep =>
    simp only [energyPath, List.mem_singleton] at hce; subst hce
    exact allowed_of_row (.userFunds, .anyone, .active) (by decide +kernel) trivial (hst (reduceLock_unpaused h))
  | lockVirtual c amt ep d ea =>
    simp only [energyPath, List.mem_singleton] at hce; subst hce
    exact allowed_of_row (.contractOnly, .whitelisted, .active) (by decide +kernel) (lockVirtual_unpaused h).2
      (hst (lockVirtual_unpaused h).1)
  | claim c =>
    simp only [energyPath, List.mem_singleton] at hce; subst hce
    exact allowed_of_row (.userFunds, .anyone, .any) (by decide +kernel) trivial rfl
  | cancel c =>
    simp only [energyPath, List.mem_cons, List.not_mem_nil, or_false] at hce
    rcases hce with rfl | rfl
    · exact allowed_of_row (.userFunds, .anyone, .any) (by decide +kernel) trivial rfl
    · exact allowed_of_row (.contractOnly, .whitelisted, .active) (by decide +kernel) trivial
        (hst (cancelUnbond_unpaused h))
  | lockFunds c rc ps =>
    simp only [energyPath, List.mem_cons, List.not_mem_nil, or_false] at hce
    rcases hce with rfl | rfl
    · exact allowed_of_row (.userFunds, .anyone, .any) (by decide +kernel) trivial rfl
    · exact cbw trivial (lockFunds_unpaused h)
  | withdraw c sd =>
    simp only [energyPath, List.mem_cons, List.not_mem_nil, or_false] at hce
    rcases hce with rfl | rfl
    · exact allowed_of_row (.userFunds, .anyone, .any) (by decide +kernel) trivial rfl
    · exact cbw trivial (withdraw_unpaused h)
  | cancelTransfer sd rc =>
    simp only [energyPath, List.mem_cons, List.not_mem_nil, or_false] at hce
    rcases hce with rfl | rfl
    · exact allowed_of_row (.config, gAdmin, .any) (by decide +kernel) trivial rfl
    · exact cbw trivial (cancelTransfer_unpaused h)
  | wrap c n amt =>
    simp only [energyPath, List.mem_singleton] at hce; subst hce
    exact cbw trivial (wrap_unpaused h)
  | unwrap c wn amt =>
    simp only [energyPath, List.mem_singleton] at hce; subst hce
    exact cbw trivial (unwrap_unpaused h)
  | xferWrapped c tt wn amt => simp [energyPath] at hce
  | cfg o =>
    cases o with
    | addOptions n =>
      simp only [energyPath, List.mem_singleton] at hce; subst hce
      exact allowed_of_row (.config, .scOwner, .any) (by decide +kernel) trivial rfl
    | setBurnPct n =>
      simp only [energyPath, List.mem_singleton] at hce; subst hce
      exact allowed_of_row (.config, .scOwner, .any) (by decide +kernel) trivial rfl
    | pause b =>
      cases b <;>
      · simp only [energyPath, List.mem_singleton] at hce; subst hce
        exact allowed_of_row (.config, .scOwner, .any) (by decide +kernel) trivial rfl
    | whitelist n =>
      simp only [energyPath, List.mem_singleton] at hce; subst hce
      exact allowed_of_row (.config, .scOwner, .any) (by decide +kernel) trivial rfl
    | unwhitelist n =>
      simp only [energyPath, List.mem_singleton] at hce; subst hce
      exact allowed_of_row (.config, .scOwner, .any) (by decide +kernel) trivial rfl
  | advance ep => simp [energyPath] at hce

/-- clause (a), energy world: if the state requirement of ANY row on the operation's path is not met by the
    factory's pause flag, the operation fails — for every caller and all arguments -/
theorem energy_table_state_blocks (s : Energy.St) (op : Energy.Op) (ce : Contract × String) (ent : Access.Entry)
    (hce : ce ∈ energyPath op) (hl : lookup ce.1 ce.2 = some ent)
    (hs : stateOk ent.st (energyCState s.paused) = false) : Energy.step s op = none := by
  cases hstep : Energy.step s op with
  | none => rfl
  | some r => exact absurd (energy_step_allowed s op r hstep ce hce) (not_allowed_of_state hl hs)

/-- **class agreement, energy world.**  An operation is in `C19Models.energyUserFundsOp` (the list
    `energy_paused_blocks_funds` gates) IF AND ONLY IF its path contains an energy-FACTORY row of class
    `userFunds`, `onBehalf` or `contractOnly` (all of which require the factory unpaused).  The one fund-moving
    user operation outside the list, `claim`, passes through token-unstake's `claimUnlockedTokens` only, which
    is class `userFunds` with state requirement `any` in the table (token-unstake has no kill switch). -/
theorem energy_class_agreement (op : Energy.Op) :
    (energyPath op).any (fun ce => decide (ce.1 = Contract.energy ∧
        (clsOf ce.1 ce.2 = some .userFunds ∨ clsOf ce.1 ce.2 = some .onBehalf ∨
         clsOf ce.1 ce.2 = some .contractOnly))) = energyUserFundsOp op := by
  cases op with
  | merge c orig ps =>
    simp only [energyPath, energyUserFundsOp]; split <;> decide +kernel
  | cfg o =>
    cases o with
    | pause b => cases b <;> (simp only [energyPath, energyUserFundsOp]; decide +kernel)
    | _ => simp only [energyPath, energyUserFundsOp]; decide +kernel
  | _ => simp only [energyPath, energyUserFundsOp]; decide +kernel

end energy

/-! ## router (its own endpoints, and the users' direct calls to the pairs it deployed) -/

section router
open Mx.Router

/-- the router's `state` flag as the table's contract state -/
def routerCState (active : Bool) : CState := if active then .active else .inactive

/-- the router-table row of an operation of the router world.  `createPair` is the owner's row `createPair`
    when the caller is the router's owner and the open row `createPair@enabled` otherwise, and likewise
    `issueLp` ↦ `issueLpToken` / `issueLpToken@enabled` (the temporary-owner rule of `issueLpToken` — while the
    creator's entry is live the caller must be that creator, the router owner included — is finer than the
    table's two rows; it is `C14Admin.issue_caller_rule`); `enablePlain` (`setSwapEnabledByUser` paid with a plain
    token) is the same endpoint as `enableByUser`; `advanceBlock` (block nonce) and `bareNext` (harness
    environment flag) are no endpoint.  The users' direct
    calls to pair contracts have no ROUTER row (see `routerPairRow`); `lock` / `unlock` (simple-lock) and
    `advance` have none. -/
def routerEndpoint (s : Router.St) : Router.Op → Option String
  | .createPair c .. => some (if c = s.owner then "createPair" else "createPair@enabled")
  | .removePair .. => some "removePair"
  | .setCreation .. => some "setPairCreationEnabled"
  | .setTemplate _ => some "setPairTemplateAddress"
  | .pause .. => some "pause"
  | .resume .. => some "resume"
  | .setFeeOn .. => some "setFeeOn"
  | .setFeeOff .. => some "setFeeOff"
  | .multi .. => some "multiPairSwap"
  | .configEnable .. => some "configEnableByUserParameters"
  | .addCommon .. => some "addCommonTokensForUserPairs"
  | .removeCommon .. => some "removeCommonTokensForUserPairs"
  | .enableByUser .. | .enablePlain .. => some "setSwapEnabledByUser"
  | .setTmpPeriod .. => some "setTemporaryOwnerPeriod"
  | .clearTmp _ => some "clearPairTemporaryOwnerStorage"
  | .issueLp c _ => some (if c = s.owner then "issueLpToken" else "issueLpToken@enabled")
  | .setLocalRoles .. => some "setLocalRoles"
  | .upgradePair .. => some "upgradePair"
  | .addInitial .. | .addLiq .. | .removeLiq .. | .swapIn .. | .swapOut .. | .lock .. | .unlock ..
  | .advance _ | .advanceBlock _ | .bareNext _ => none

/-- model-side reading of a table guard for the caller a router operation carries: `scOwner` / `storedOwner`
    (the model keeps ONE owner: account owner = `owner` storage cell = deployer): the caller is `s.owner`;
    `adder`: the caller of `setSwapEnabledByUser` is the target pair's initial-liquidity adder -/
def routerGuardHolds (s : Router.St) (op : Router.Op) (g : Guard) : Prop :=
  match g, op with
  | .anyone, _ => True
  | .storedOwner, .createPair c .. => c = s.owner
  | .storedOwner, .issueLp c _ => c = s.owner
  | .scOwner, o =>
      match routerAdminCaller o with
      | some c => c = s.owner
      | none => False
  | .adder, .enableByUser c a _ _ => ∃ p, s.pairs a = some p ∧ p.st.adder = some c
  | _, _ => False

/-- **bridge, router.**  Whenever one of the router's own endpoints succeeds in the model, its table row exists,
    the row's guard holds for the caller, and the row's state requirement is met by the router's `state` flag. -/
theorem router_step_allowed (s : Router.St) (op : Router.Op) (r : Router.St × Router.Out) (e : String)
    (he : routerEndpoint s op = some e) (h : Router.step s op = some r) :
    Allowed .router e (routerGuardHolds s op) (routerCState s.active) := by
  obtain ⟨s', o⟩ := r
  have hst : s.active = true → stateOk .active (routerCState s.active) = true := by
    intro ha; rw [ha]; rfl
  have own : ∀ c, routerAdminCaller op = some c → c = s.owner :=
    fun c hc => router_admin_needs_owner s op c (s', o) hc h
  cases op with
  | createPair c t1 t2 ad f =>
    obtain ⟨_, h1, h2, _⟩ := createPair_spec h
    simp only [routerEndpoint, Option.some.injEq] at he
    by_cases hc : c = s.owner
    · rw [if_pos hc] at he; subst he
      exact allowed_of_row (.config, .storedOwner, .active) (by decide +kernel) hc (hst h1)
    · rw [if_neg hc] at he; subst he
      exact allowed_of_row (.open_, .anyone, .active) (by decide +kernel) trivial (hst h1)
  | removePair c t1 t2 =>
    simp only [routerEndpoint, Option.some.injEq] at he; subst he
    exact allowed_of_row (.config, .scOwner, .active) (by decide +kernel) (own c rfl) (hst (removePair_spec h).2.1)
  | setCreation c b =>
    simp only [routerEndpoint, Option.some.injEq] at he; subst he
    exact allowed_of_row (.config, .scOwner, .any) (by decide +kernel) (own c rfl) rfl
  | setTemplate c =>
    simp only [routerEndpoint, Option.some.injEq] at he; subst he
    exact allowed_of_row (.config, .scOwner, .any) (by decide +kernel) (own c rfl) rfl
  | pause c a =>
    simp only [routerEndpoint, Option.some.injEq] at he; subst he
    exact allowed_of_row (.config, .scOwner, .any) (by decide +kernel) (own c rfl) rfl
  | resume c a =>
    simp only [routerEndpoint, Option.some.injEq] at he; subst he
    exact allowed_of_row (.config, .scOwner, .any) (by decide +kernel) (own c rfl) rfl
  | setFeeOn c a tok =>
    simp only [routerEndpoint, Option.some.injEq] at he; subst he
    exact allowed_of_row (.config, .scOwner, .active) (by decide +kernel) (own c rfl) (hst (setFeeOn_spec h).2.1)
  | setFeeOff c a i tok =>
    simp only [routerEndpoint, Option.some.injEq] at he; subst he
    exact allowed_of_row (.config, .scOwner, .active) (by decide +kernel) (own c rfl) (hst (setFeeOff_spec h).2.1)
  | multi c tok amt hops =>
    simp only [routerEndpoint, Option.some.injEq] at he; subst he
    obtain ⟨_, h1, _⟩ := multiPairSwap_spec h
    exact allowed_of_row (.userFunds, .anyone, .active) (by decide +kernel) trivial (hst h1)
  | configEnable c cm lk mv mp =>
    simp only [routerEndpoint, Option.some.injEq] at he; subst he
    exact allowed_of_row (.config, .scOwner, .any) (by decide +kernel) (own c rfl) rfl
  | addCommon c toks =>
    simp only [routerEndpoint, Option.some.injEq] at he; subst he
    exact allowed_of_row (.config, .scOwner, .any) (by decide +kernel) (own c rfl) rfl
  | removeCommon c toks =>
    simp only [routerEndpoint, Option.some.injEq] at he; subst he
    exact allowed_of_row (.config, .scOwner, .any) (by decide +kernel) (own c rfl) rfl
  | enableByUser c a k amt =>
    simp only [routerEndpoint, Option.some.injEq] at he; subst he
    obtain ⟨_, _, h3, _, p, _, _, hp, _, _, _, _, _, _, _, had, _⟩ := enableByUser_spec h
    exact allowed_of_row (.bootstrap, .adder, .active) (by decide +kernel) ⟨p, hp, had⟩ (hst h3)
  | enablePlain c a tok amt => simp [Router.step, enablePlain] at h
  | setTmpPeriod c n =>
    simp only [routerEndpoint, Option.some.injEq] at he; subst he
    exact allowed_of_row (.config, .scOwner, .any) (by decide +kernel) (own c rfl) rfl
  | clearTmp c =>
    simp only [routerEndpoint, Option.some.injEq] at he; subst he
    exact allowed_of_row (.config, .scOwner, .any) (by decide +kernel) (own c rfl) rfl
  | issueLp c a =>
    obtain ⟨h1, _⟩ := issueLp_spec h
    simp only [routerEndpoint, Option.some.injEq] at he
    by_cases hc : c = s.owner
    · rw [if_pos hc] at he; subst he
      exact allowed_of_row (.config, .storedOwner, .active) (by decide +kernel) hc (hst h1)
    · rw [if_neg hc] at he; subst he
      exact allowed_of_row (.open_, .anyone, .active) (by decide +kernel) trivial (hst h1)
  | setLocalRoles c a =>
    simp only [routerEndpoint, Option.some.injEq] at he; subst he
    exact allowed_of_row (.open_, .anyone, .active) (by decide +kernel) trivial (hst (setLocalRoles_spec (c := c) h).1)
  | upgradePair c t1 t2 =>
    simp only [routerEndpoint, Option.some.injEq] at he; subst he
    exact allowed_of_row (.config, .scOwner, .active) (by decide +kernel) (own c rfl) (hst (upgradePair_spec h).2.1)
  | advanceBlock n => simp [routerEndpoint] at he
  | bareNext b => simp [routerEndpoint] at he
  | addInitial u a a1 a2 => simp [routerEndpoint] at he
  | addLiq u a a1 a2 m1 m2 => simp [routerEndpoint] at he
  | removeLiq u a lp m1 m2 => simp [routerEndpoint] at he
  | swapIn u a ti x tout m => simp [routerEndpoint] at he
  | swapOut u a ti mx tout out => simp [routerEndpoint] at he
  | lock u coll orig amt unl => simp [routerEndpoint] at he
  | unlock u k amt => simp [routerEndpoint] at he
  | advance ep => simp [routerEndpoint] at he

/-- clause (a), router: if the table's state requirement of the operation's row is NOT met by the router's
    `state` flag, the operation fails — for every caller and all arguments -/
theorem router_table_state_blocks (s : Router.St) (op : Router.Op) (e : String) (ent : Entry)
    (he : routerEndpoint s op = some e) (hl : lookup .router e = some ent)
    (hs : stateOk ent.st (routerCState s.active) = false) : Router.step s op = none := by
  cases hstep : Router.step s op with
  | none => rfl
  | some r => exact absurd (router_step_allowed s op r e he hstep) (not_allowed_of_state hl hs)

/-- a user's direct call to pair contract `a` in the router world: the target and the PAIR-table row (the row
    of `addInitial` depends on whether the pair `p` has a configured adder, as in `pairEndpoint`) -/
def routerPairRow (p : Pair.St) : Router.Op → Option (Router.Addr × String)
  | .addInitial _ a .. => some (a, if p.adder = none then "addInitialLiquidity" else "addInitialLiquidity@adder")
  | .addLiq _ a .. => some (a, "addLiquidity")
  | .removeLiq _ a .. => some (a, "removeLiquidity")
  | .swapIn _ a .. => some (a, "swapTokensFixedInput")
  | .swapOut _ a .. => some (a, "swapTokensFixedOutput")
  | _ => none

/-- the address a direct pair call is sent to -/
def routerPairTarget : Router.Op → Option Router.Addr
  | .addInitial _ a .. | .addLiq _ a .. | .removeLiq _ a .. | .swapIn _ a .. | .swapOut _ a .. => some a
  | _ => none

/-- **bridge, the users' direct pair calls in the composed world.**  Whenever a user's add-initial / add / remove
    liquidity or swap addressed to pair contract `a` succeeds, that pair exists, and the PAIR table's row of the
    call exists, its guard holds (the bootstrap caller is the configured adder when there is one) and its state
    requirement is met by THAT pair's status. -/
theorem router_pair_call_allowed (s : Router.St) (op : Router.Op) (r : Router.St × Router.Out) (a : Router.Addr)
    (ha : routerPairTarget op = some a) (h : Router.step s op = some r) :
    ∃ p, s.pairs a = some p ∧ ∃ e, routerPairRow p.st op = some (a, e) ∧
      Allowed .pair e (fun g => g = .anyone ∨ (g = .adder ∧ ∃ u a1 a2, op = .addInitial u a a1 a2 ∧ p.st.adder = some u))
        (pairCState p.st.status) := by
  cases op <;> simp only [routerPairTarget, Option.some.injEq, reduceCtorEq] at ha <;> subst ha
  · rename_i u a a1 a2
    obtain ⟨p, hp, h1, _, h3⟩ := addInitial_pair h
    refine ⟨p, hp, _, rfl, ?_⟩
    rcases h3 with h3 | h3
    · rw [h3]; simp only [if_true]
      exact allowed_of_row (.bootstrap, .anyone, .inactiveOnly) (by decide +kernel) (Or.inl rfl) (by rw [h1]; rfl)
    · rw [h3]; simp only [reduceCtorEq, if_false]
      exact allowed_of_row (.bootstrap, .adder, .inactiveOnly) (by decide +kernel)
        (Or.inr ⟨rfl, _, _, _, rfl, rfl⟩) (by rw [h1]; rfl)
  · obtain ⟨p, hp, h1⟩ := addLiq_pair h
    refine ⟨p, hp, _, rfl, allowed_of_row (.userFunds, .anyone, .activeOrPartial) (by decide +kernel) (Or.inl rfl) ?_⟩
    rcases h1 with h1 | h1 <;> rw [h1] <;> rfl
  · obtain ⟨p, hp, h1⟩ := removeLiq_pair h
    refine ⟨p, hp, _, rfl, allowed_of_row (.userFunds, .anyone, .activeOrPartial) (by decide +kernel) (Or.inl rfl) ?_⟩
    rcases h1 with h1 | h1 <;> rw [h1] <;> rfl
  · obtain ⟨p, hp, h1⟩ := swapIn_pair h
    exact ⟨p, hp, _, rfl, allowed_of_row (.userFunds, .anyone, .active) (by decide +kernel) (Or.inl rfl)
      (by rw [h1]; rfl)⟩
  · obtain ⟨p, hp, h1⟩ := swapOut_pair h
    exact ⟨p, hp, _, rfl, allowed_of_row (.userFunds, .anyone, .active) (by decide +kernel) (Or.inl rfl)
      (by rw [h1]; rfl)⟩

end router

/-! ## guard agreement with the ROLES of the matrix world (clause (c)) and non-vacuity -/

section roles

/-- the row exists, its guard is restricted, a privileged role of the matrix world's deployment passes it (`owner`,
    who holds OWNER|PAUSE and owns the contract, or `admin`, who holds ADMIN), and no unprivileged role (plain user,
    whitelisted contract, hub agent, revoked agent, blacklisted agent) does -/
def privilegedOnly (c : Contract) (e : String) : Bool :=
  match lookup c e with
  | some ent => ent.guard.restricted && (guardOk c ent.guard .owner || guardOk c ent.guard .admin) &&
      [Role.user, .wsc, .agent, .revoked, .blacklisted].all (fun r => !guardOk c ent.guard r)
  | none => false

/-- **guard agreement, farm admin operations.**  The farm model checks ONE thing for its ten configuration / admin
    operations: the caller is the admin account (`isAdmin`; `farm_admin_needs_role`).  The table's rows of exactly
    these operations (guards ADMIN, PAUSE, `#[only_owner]`) are all restricted, are passed by a privileged role of
    the matrix world and by no unprivileged role: model and table agree on "privileged only".  The model is
    COARSER than the table: its one admin account holds OWNER|ADMIN|PAUSE (the farm world deploys the farm with the
    owner in the `admins` list), whereas in the matrix world `owner` (OWNER|PAUSE, contract owner) and `admin`
    (ADMIN) are different accounts — `farm_admin_rows_split` shows that no single role of the matrix world passes
    all ten rows (the real contract's owner cannot call an ADMIN-only endpoint unless it is also listed as admin;
    the matrix world checks that, `C19.admin_needs_role`; the farm model cannot express it). -/
theorem farm_admin_guard_agreement (k : Farm.Kind) (op : Farm.Op) (ca : Nat) (c : Contract) (e : String)
    (hca : farmAdminCaller op = some ca) (he : farmEndpoint k op = some (c, e)) : privilegedOnly c e = true := by
  cases op <;> simp only [farmAdminCaller, reduceCtorEq] at hca <;>
    (simp only [farmEndpoint, Option.some.injEq, Prod.mk.injEq] at he; obtain ⟨rfl, rfl⟩ := he
     cases k <;> decide +kernel)

/-- the split the farm model does not see: in the matrix world's deployment the ADMIN-only rows are passed by `admin`
    and NOT by `owner`; the `#[only_owner]` and PAUSE rows by `owner` and NOT by `admin` -/
theorem farm_admin_rows_split :
    ∀ c ∈ [Contract.farm, .fwlr],
      (∀ e ∈ ["setPerBlockRewardAmount", "startProduceRewards", "endProduceRewards",
              "setBoostedYieldsRewardsPercentage", "setBoostedYieldsFactors", "collectUndistributedBoostedRewards",
              "set_minimum_farming_epochs"], allowed c e .admin .active = true ∧ allowed c e .owner .active = false) ∧
      (∀ e ∈ ["pause", "resume", "set_penalty_percent"],
        allowed c e .owner .active = true ∧ allowed c e .admin .active = false) := by decide +kernel

/-- **guard agreement, router owner operations.**  Every operation for which the router model checks
    `caller = owner` (`router_admin_needs_owner`, `setTemporaryOwnerPeriod` / `clearPairTemporaryOwnerStorage` /
    `upgradePair` included), and `createPair` / `issueLpToken` by the owner, is a row guarded by the contract
    owner / the stored owner in the table: restricted, passed by the `owner` role, by no unprivileged role. -/
theorem router_admin_guard_agreement (s : Router.St) (op : Router.Op) (ca : Router.Addr) (e : String)
    (hca : routerAdminCaller op = some ca ∨ (∃ t1 t2 ad f, op = .createPair s.owner t1 t2 ad f) ∨
           ∃ a, op = .issueLp s.owner a)
    (he : routerEndpoint s op = some e) : privilegedOnly .router e = true := by
  rcases hca with hca | ⟨t1, t2, ad, f, rfl⟩ | ⟨a, rfl⟩
  · cases op <;> simp only [routerAdminCaller, reduceCtorEq] at hca <;>
      (simp only [routerEndpoint, Option.some.injEq] at he; subst he; decide +kernel)
  · simp only [routerEndpoint, if_true, Option.some.injEq] at he; subst he; decide +kernel
  · simp only [routerEndpoint, if_true, Option.some.injEq] at he; subst he; decide +kernel

/-- **guard agreement, the pair's locking setters.**  The pair model's `lock owner …` operations succeed only with
    `owner = true` (`pair_contract_ops_need_role`); their rows are guarded by the OWNER permission in the table:
    restricted, passed by the `owner` role (the router's owner holds OWNER on every pair), by no unprivileged role. -/
theorem pair_lock_guard_agreement (s : Pair.St) (ow : Bool) (l : Pair.LockOp) (e : String)
    (he : pairEndpoint s (.lock ow l) = some e) : privilegedOnly .pair e = true := by
  cases l <;> (simp only [pairEndpoint, Option.some.injEq] at he; subst he; decide +kernel)

/-- **on-behalf rows, both readings agree.**  The rows the models read as "the user authorised the caller in the
    permissions hub and the caller is not blacklisted" (`hubAgent`) are passed, in the matrix world's hub history,
    by the authorised `agent` and by nobody else — not by the revoked agent, the blacklisted agent, a plain user,
    a whitelisted contract or the owner; the rows read as "caller on the contract whitelist" (`whitelisted`) are
    passed by the whitelisted contract `wsc` only. -/
theorem on_behalf_guard_roles :
    ∀ c ∈ [Contract.farm, .fwlr, .staking, .energy], ∀ ent ∈ table c, ent.cls = .onBehalf →
      (ent.guard = .hubAgent ∧ ∀ r ∈ Role.all, guardOk c ent.guard r = decide (r = .agent)) ∨
      (ent.guard = .whitelisted ∧ ∀ r ∈ Role.all, guardOk c ent.guard r = decide (r = .wsc)) ∨
      (ent.guard = .nobody) := by decide +kernel

end roles

section nonvacuity

/-- non-vacuity (pair): in a reachable PartialActive pair `addLiquidity` succeeds and has a row (hypotheses of
    `pair_step_allowed`), while the row of `swapTokensFixedInput` refuses the state (hypotheses of
    `pair_table_state_blocks`) -/
example :
    let s := Pair.run (Pair.init 300 50 none 8) [.addInitial 1 1000000 2000000]
    (Pair.step s (.addLiq 5000 10000 1 1)).isSome = true ∧
    pairEndpoint s (.addLiq 5000 10000 1 1) = some "addLiquidity" ∧
    pairEndpoint s (.swapIn .ab 1000 1) = some "swapTokensFixedInput" ∧
    ((lookup .pair "swapTokensFixedInput").map fun ent => stateOk ent.st (pairCState s.status)) = some false := by
  decide +kernel

/-- non-vacuity (farm, locked-rewards kind): an authorised agent's `claimRewardsOnBehalf` succeeds and has a row;
    after the owner's `pause` the row's state requirement is refused (and the call fails), while rows with state
    requirement `any` (`setPerBlockRewardAmount`) still succeed — the table's `any` is not laxer than the model -/
example :
    let s := Farm.run (Farm.init .noMint false 1000000000000 1000 true [1, 2, 3] 0)
      [.enter 1 none 100000000 [], .hubWhitelist 1 2, .transfer 1 2 1 100000000, .advance 10 6]
    let p := Farm.run s [.pause Farm.OWNER]
    (Farm.step s (.claimOB 2 [(1, 100000000)])).isSome = true ∧
    farmEndpoint s.kind (.claimOB 2 [(1, 100000000)]) = some (.fwlr, "claimRewardsOnBehalf") ∧
    ((lookup .fwlr "claimRewardsOnBehalf").map fun ent => stateOk ent.st (farmCState p.active)) = some false ∧
    Farm.step p (.claimOB 2 [(1, 100000000)]) = none ∧
    (Farm.step p (.setPerBlock Farm.OWNER 500)).isSome = true ∧
    ((lookup .fwlr "setPerBlockRewardAmount").map fun ent => stateOk ent.st (farmCState p.active)) = some true := by
  decide +kernel

/-- non-vacuity (staking): the same for `claimRewardsOnBehalf`; `topUpRewards` (state `any`) succeeds while paused -/
example :
    let s := Staking.run (Staking.init 0 0 10000000000000000000 2500 10 100 [1, 2, 3, 101] [101])
      [.topUp 1000000, .stake 1 none 1000000000000 [], .hubWhitelist 1 2, .transfer 1 2 (1, 1000000000000),
       .advance 10 0]
    let p := Staking.run s [.pause]
    (Staking.step s (.claimBehalf 2 [(1, 1000000000000)])).isSome = true ∧
    stakingEndpoint (.claimBehalf 2 [(1, 1000000000000)]) = some (.staking, "claimRewardsOnBehalf") ∧
    ((lookup .staking "claimRewardsOnBehalf").map fun ent => stateOk ent.st (farmCState p.active)) = some false ∧
    Staking.step p (.claimBehalf 2 [(1, 1000000000000)]) = none ∧
    (Staking.step p (.topUp 5)).isSome = true := by
  decide +kernel

/-- non-vacuity (energy world): `unlockEarly` succeeds unpaused; paused, the factory row refuses; token-unstake's
    `cancelUnbond` row itself allows every state but the factory row on its path (`revertUnstake`) refuses, and the
    model's `cancel` fails; `claimUnlockedTokens` (no factory row on its path) succeeds while the factory is paused -/
example :
    let s := Energy.run (Energy.init ⟨100, [(360, 4000), (720, 6000), (1440, 8000)], 10, 5000, 2, 3, 3, 1000000⟩)
      [.lock 1 1000 360 0]
    let q := Energy.run s [.unlockEarly 1 1 100, .advance 111, .unlockEarly 1 1 100, .cfg (.pause true)]
    (Energy.step s (.unlockEarly 1 1 100)).isSome = true ∧
    energyPath (.cancel 1) = [(.unstake, "cancelUnbond"), (.energy, "revertUnstake")] ∧
    ((lookup .unstake "cancelUnbond").map fun ent => stateOk ent.st (energyCState q.paused)) = some true ∧
    ((lookup .energy "revertUnstake").map fun ent => stateOk ent.st (energyCState q.paused)) = some false ∧
    Energy.step q (.cancel 1) = none ∧
    (Energy.step (Energy.run q [.cfg (.pause false)]) (.cancel 1)).isSome = true ∧
    (Energy.step q (.claim 1)).isSome = true := by
  decide +kernel

/-- non-vacuity (router world): a multi-hop swap and a user's direct swap succeed on an Active router / pair and
    have rows; with the router paused the `multiPairSwap` row refuses the state and the call fails, while the
    owner's `setPairCreationEnabled` (state `any`) still succeeds and the direct swap on the (still Active) pair
    is unaffected — the router's pause is not a pair's pause, in the table and in the model alike -/
example :
    let funds : Router.Addr → Nat → Nat := fun a t => if a ≤ 100 ∧ 1 ≤ t ∧ t ≤ 3 then 1000000000000 else 0
    let s := Router.run (Router.init 100 200 true [] funds)
      [.createPair 100 1 2 0 (some (300, 50)), .addInitial 1 1000 1000000 2000000, .resume 100 1000]
    let p := Router.run s [.pause 100 200]
    (Router.step s (.multi 2 1 10000 [⟨1000, .fixedIn, 2, 1⟩])).isSome = true ∧
    routerEndpoint s (.multi 2 1 10000 [⟨1000, .fixedIn, 2, 1⟩]) = some "multiPairSwap" ∧
    ((lookup .router "multiPairSwap").map fun ent => stateOk ent.st (routerCState p.active)) = some false ∧
    Router.step p (.multi 2 1 10000 [⟨1000, .fixedIn, 2, 1⟩]) = none ∧
    (Router.step p (.setCreation 100 true)).isSome = true ∧
    routerPairTarget (.swapIn 2 1000 1 10000 2 1) = some 1000 ∧
    (Router.step p (.swapIn 2 1000 1 10000 2 1)).isSome = true := by
  decide +kernel

end nonvacuity

end Mx.C19Bridge
