/-
  C12 — Staking pays only from capacity, within the APR cap, and honours unbonding.

  Statement: staking rewards come only from capacity the admin topped up: accrued rewards never
  exceed capacity, accrual per block never exceeds supply·maxAPR/(10000·blocks_per_year), and the
  contract's staking-token balance always equals directly staked principal plus outstanding
  unbond amounts plus un-accrued capacity plus accrued-but-unpaid rewards.  Unstaked principal
  can be withdrawn in full exactly once the unbond period has elapsed and never before, and the
  admin can withdraw only capacity that has not yet been accrued to stakers.

  Model: Core/Staking.lean (`bal` = real staking-token balance of the contract, `virt` = stake
  entered through the proxy endpoints without tokens moving, `unbondOut` = outstanding unbond
  amounts).  Only property theorems live in this file; helper lemmas are in Lemmas/Staking*.lean.
-/
import MxModel.Lemmas.StakingGate

namespace Mx.C12
open Mx.Staking

/-- the state reached from a fresh deployment (any configuration) by any history -/
abbrev reach (epoch block dsc maxApr minUnbond perBlock : Nat) (accts wl : List Nat)
    (ops : List Op) : St :=
  run (init epoch block dsc maxApr minUnbond perBlock accts wl) ops

/-- one transaction preserves the accounting invariant (any operation, any arguments) -/
theorem inv_step {s s' : St} {op : Op} {o : Out} (hi : Inv s) (h : step s op = some (s', o)) :
    Inv s' :=
  step_inv hi h

/-- every state reachable by any history satisfies the accounting invariant -/
theorem inv_run (epoch block dsc maxApr minUnbond perBlock : Nat) (accts wl : List Nat)
    (ops : List Op) : Inv (reach epoch block dsc maxApr minUnbond perBlock accts wl ops) :=
  run_inv ops (inv_init epoch block dsc maxApr minUnbond perBlock accts wl)

/-- accrued rewards never exceed the capacity the admin topped up, after any history -/
theorem accrued_le_capacity (epoch block dsc maxApr minUnbond perBlock : Nat) (accts wl : List Nat)
    (ops : List Op) :
    (reach epoch block dsc maxApr minUnbond perBlock accts wl ops).accumulated ≤
      (reach epoch block dsc maxApr minUnbond perBlock accts wl ops).capacity :=
  (inv_run epoch block dsc maxApr minUnbond perBlock accts wl ops).acc_le

/-- what ONE transaction can accrue: never negative, and at most
    `min(perBlock·Δ (0 while production is off), ⌊⌊supply·maxApr/10000⌋/blocksPerYear⌋·Δ,
    capacity − accumulated)` with `Δ = block − lastRewardBlock`, all read from the state BEFORE
    the transaction (so a rate / APR / percentage change never applies retroactively) -/
theorem accrual_bound {s s' : St} {op : Op} {o : Out} (h : step s op = some (s', o)) :
    s.accumulated ≤ s'.accumulated ∧
    s'.accumulated - s.accumulated ≤
      min (min (if s.produce then s.perBlock * (s.block - s.lastBlock) else 0)
               (s.supply * s.maxApr / MAX_PERCENT / BLOCKS_IN_YEAR * (s.block - s.lastBlock)))
          (s.capacity - s.accumulated) :=
  eff_accrual_bound (step_eff h)

/-- the APR clause per block: over `Δ` blocks a transaction accrues at most `Δ` times the
    per-block bound `supply·maxApr/(10000·blocks_per_year)` (floored twice, as the code does) -/
theorem accrual_le_apr_per_block {s s' : St} {op : Op} {o : Out} (h : step s op = some (s', o)) :
    s'.accumulated - s.accumulated ≤
      s.supply * s.maxApr / 10000 / 5256000 * (s.block - s.lastBlock) :=
  Nat.le_trans (accrual_bound h).2 (Nat.le_trans (Nat.min_le_left _ _) (Nat.min_le_right _ _))

/-- the balance decomposition, after any history:
    balance = (supply − proxy-virtual stake) + outstanding unbond amounts
              + (capacity − accumulated) + reserve -/
theorem staking_balance (epoch block dsc maxApr minUnbond perBlock : Nat) (accts wl : List Nat)
    (ops : List Op) :
    let s := reach epoch block dsc maxApr minUnbond perBlock accts wl ops
    (s.bal : Int) = ((s.supply : Int) - s.virt) + s.unbondOut + ((s.capacity - s.accumulated : Nat) : Int)
      + s.reserve := by
  intro s
  have h : Inv s := inv_run epoch block dsc maxApr minUnbond perBlock accts wl ops
  have h1 := h.bal_eq
  have h2 := h.acc_le
  omega

/-- accrued-but-unpaid rewards: the reserve is exactly what was accrued minus what was paid
    (base and boosted, paid out or compounded), after any history -/
theorem reserve_is_accrued_minus_paid (epoch block dsc maxApr minUnbond perBlock : Nat)
    (accts wl : List Nat) (ops : List Op) :
    let s := reach epoch block dsc maxApr minUnbond perBlock accts wl ops
    s.reserve + (s.paidBase + s.paidBoosted) = s.accumulated := by
  intro s
  have h : Inv s := inv_run epoch block dsc maxApr minUnbond perBlock accts wl ops
  have h1 := h.res_eq
  omega

/-- rewards come only from capacity: everything ever paid is covered by the capacity -/
theorem paid_le_capacity (epoch block dsc maxApr minUnbond perBlock : Nat)
    (accts wl : List Nat) (ops : List Op) :
    let s := reach epoch block dsc maxApr minUnbond perBlock accts wl ops
    s.paidBase + s.paidBoosted ≤ s.capacity := by
  intro s
  have h : Inv s := inv_run epoch block dsc maxApr minUnbond perBlock accts wl ops
  have h1 := h.res_eq
  have h2 := h.acc_le
  omega

/-- the unbond gate: `unbondFarm` succeeds exactly when (contract active, the caller holds the
    unbond tokens, the contract holds the staking tokens and) the unlock epoch has been reached —
    never before; it pays exactly the amount sent and burns those unbond tokens, so the same
    principal cannot be withdrawn twice -/
theorem unbond_gate {s s' : St} {c : Nat} {pay : Pay} {o : Out} :
    unbondFarm s c pay = some (s', o) ↔
      0 < pay.2 ∧ pay.2 ≤ s.hold c pay.1 ∧ s.active = true ∧
      (∃ unlock, s.md pay.1 = some (.unbond unlock) ∧ unlock ≤ s.epoch) ∧ pay.2 ≤ s.bal ∧
      o = ⟨0, pay.2, 0⟩ ∧
      s' = { s with hold := upd2 s.hold c pay.1 (s.hold c pay.1 - pay.2), bal := s.bal - pay.2,
                    unbondOut := s.unbondOut - (pay.2 : Int) } :=
  unbondFarm_iff

/-- never before: while the epoch is below the unlock epoch of the token, unbonding fails -/
theorem unbond_too_early_fails {s : St} {c : Nat} {pay : Pay} {unlock : Nat}
    (hm : s.md pay.1 = some (.unbond unlock)) (h : s.epoch < unlock) :
    unbondFarm s c pay = none := by
  cases hr : unbondFarm s c pay with
  | none => rfl
  | some r =>
    obtain ⟨s', o⟩ := r
    obtain ⟨_, _, _, ⟨u, hu, hle⟩, _⟩ := unbond_gate.1 hr
    rw [hm] at hu
    simp only [Option.some.injEq, Meta.unbond.injEq] at hu
    omega

/-- the unbond period: a successful unstake mints an unbond token of exactly the principal taken
    out (through the proxy: of the staking tokens paid in) that unlocks `minUnbondEpochs` later -/
theorem unstake_mints_unbond {s s' : St} {c orig : Nat} {pay : Pay} {x : Option Nat} {o : Out}
    (h : unstakeCore s c orig pay x = some (s', o)) :
    s'.md (s.nonce + 1) = some (.unbond (s.epoch + s.minUnbond)) ∧
    s'.hold c (s.nonce + 1) = x.getD pay.2 ∧ o.a = s.nonce + 1 ∧ o.b = x.getD pay.2 ∧
    s'.supply + pay.2 = s.supply := by
  obtain ⟨_, h2, h3, h4, h5, _, h7, _⟩ := unstakeCore_unbond h
  exact ⟨h2, h3, h4, h5, by omega⟩

/-- the admin can withdraw only capacity that has not been accrued: rewards are settled up to
    the current block FIRST, and the amount fits into `capacity − accumulated` after settling -/
theorem withdraw_bound {s s' : St} {x : Nat} {o : Out} (h : withdraw s x = some (s', o)) :
    s'.accumulated = s.accumulated + genTot s ∧ x ≤ s.capacity - s'.accumulated ∧
    s'.accumulated ≤ s'.capacity ∧ s'.capacity = s.capacity - x := by
  obtain ⟨h1, h2, h3, _⟩ := withdraw_spec h
  exact ⟨h1, by omega, by omega, h3⟩

/-- a failed transaction leaves the state untouched (atomicity as modelled) -/
theorem failed_tx_no_effect (s : St) (op : Op) (h : step s op = none) : run s [op] = s := by
  simp [run, h]

/-- non-vacuity: a concrete history in which the capacity is exhausted, a user unstakes, the
    unbond is refused one epoch early and honoured at the unlock epoch -/
example :
    let s0 := init 5 10 1000000000000 2500 2 5000 [1, 2, 101] [101]
    let ops : List Op :=
      [.topUp 20000, .stake 1 none 1000000000000000 [], .advance 3 0, .claim 1 none (1, 1000000000000000),
       .advance 10 0, .unstake 1 none (2, 400000000000000), .advance 0 1, .unbond 1 (3, 400000000000000),
       .advance 0 1, .unbond 1 (3, 400000000000000)]
    let s := run s0 ops
    s.accumulated = 20000 ∧ s.capacity = 20000 ∧ s.paidBase = 17000 ∧ s.unbondOut = 0 ∧
    s.supply = 600000000000000 ∧ s.bal = 600000000003000 ∧ s.epoch = 7 ∧
    (run s0 (ops.take 8)).unbondOut = 400000000000000 := by
  decide

end Mx.C12
