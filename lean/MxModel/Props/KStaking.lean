/-
  KStaking — the farm-staking model (`Core/Staking.lean`) computes what the SOURCE of
  `farm-staking/farm-staking/src/{base_impl_wrapper.rs, custom_rewards.rs}` computes:

    * `get_amount_apr_bounded`                         = `aprPerBlock`
    * `FarmStakingWrapper::mint_per_block_rewards`     = `mintOf` (the APR bound), `lastBlock := max`
    * `FarmStakingWrapper::generate_aggregated_rewards` = `generate` (capacity cap, boosted cut through
      the shared `take_reward_slice`, index increment)
    * `calculate_base_farm_rewards` / `calculate_rewards` = `baseReward` (+ boosted)
    * the reward-capacity arithmetic of `withdrawRewards` / `topUpRewards`, `setMinUnbondEpochs`

  `Gen/KStaking.lean` is regenerated on every run by `bin/gen-kernels`.
-/
import MxModel.Gen.KStaking
import MxModel.Props.KFarmDex
import MxModel.Lemmas.StakingSpec

namespace Mx.KStaking
open Mx Mx.Gen Mx.Staking

/-- source `get_amount_apr_bounded` = model `aprPerBlock`: `⌊⌊amount · maxApr / 10000⌋ / 5256000⌋`,
    never aborts -/
theorem get_amount_apr_bounded_eq (amount maxApr : Nat) :
    KStaking.get_amount_apr_bounded amount maxApr = some (aprPerBlock amount maxApr) := by
  have hP : MAX_PERCENT = 10000 := rfl
  have hB : BLOCKS_IN_YEAR = 5256000 := rfl
  have h1 : ¬ (10000 = 0) := by omega
  have h2 : ¬ (5256000 = 0) := by omega
  simp only [KStaking.get_amount_apr_bounded, aprPerBlock, hP, hB, div?, if_neg h1, if_neg h2,
    Option.bind_eq_bind, Option.bind_some]

/-- source `FarmStakingWrapper::mint_per_block_rewards` = model `mintOf` — the per-block amount
    capped by the APR bound on the STORED supply — and `last_reward_block_nonce := max last block`;
    never aborts.  Result (minted, last_reward_block_nonce) -/
theorem mint_per_block_rewards_eq (block supply last maxApr perBlock : Nat) (produce : Bool) :
    KStaking.mint_per_block_rewards block supply last maxApr perBlock produce =
      some (mintOf block last perBlock produce supply maxApr, max last block) := by
  by_cases h : block ≤ last
  · have hmax : max last block = last := Nat.max_eq_left h
    simp only [KStaking.mint_per_block_rewards, mintOf, if_pos h, hmax, Option.pure_def]
  · have hle : last ≤ block := by omega
    have hmax : max last block = block := Nat.max_eq_right hle
    simp only [KStaking.mint_per_block_rewards, mintOf, hmax,
      Mx.KFarm.calculate_per_block_rewards_eq, get_amount_apr_bounded_eq, h, false_or, sub?,
      if_pos hle, Option.bind_eq_bind, Option.bind_some, Option.pure_def]
    cases produce <;> rfl

/-- on a model state the source mints the model's `mintAmount` -/
theorem mint_per_block_rewards_state (s : St) :
    KStaking.mint_per_block_rewards s.block s.supply s.lastBlock s.maxApr s.perBlock s.produce =
      some (mintAmount s, max s.lastBlock s.block) :=
  mint_per_block_rewards_eq _ _ _ _ _ _

/-- source `calculate_base_farm_rewards` = model `baseReward`; aborts exactly when the index moved
    and the division safety constant is 0 -/
theorem calculate_base_farm_rewards_eq (c : Cache) (dsc amt : Nat) (t : Attrs) :
    KStaking.calculate_base_farm_rewards amt t.rps dsc c.rps =
      if t.rps < c.rps ∧ dsc = 0 then none else some (baseReward c dsc amt t) := by
  by_cases h : t.rps < c.rps
  · have hle : t.rps ≤ c.rps := by omega
    by_cases hd : dsc = 0
    · simp only [KStaking.calculate_base_farm_rewards, gt_iff_lt, if_pos h, sub?, if_pos hle, div?,
        if_pos hd, if_pos (And.intro h hd), Option.bind_eq_bind, Option.bind_some]
    · have hn : ¬ (t.rps < c.rps ∧ dsc = 0) := fun c' => hd c'.2
      simp only [KStaking.calculate_base_farm_rewards, baseReward, gt_iff_lt, if_pos h, sub?,
        if_pos hle, div?, if_neg hd, if_neg hn, Option.bind_eq_bind, Option.bind_some]
  · have hn : ¬ (t.rps < c.rps ∧ dsc = 0) := fun c' => h c'.1
    simp only [KStaking.calculate_base_farm_rewards, baseReward, gt_iff_lt, if_neg h, if_neg hn,
      Option.pure_def]

/-- source `FarmStakingWrapper::calculate_rewards` = base reward + boosted claim -/
theorem calculate_rewards_eq (c : Cache) (dsc amt boosted : Nat) (t : Attrs) (hd : dsc ≠ 0) :
    KStaking.calculate_rewards amt t.rps dsc c.rps boosted = some (baseReward c dsc amt t + boosted) := by
  have hn : ¬ (t.rps < c.rps ∧ dsc = 0) := fun c' => hd c'.2
  simp only [KStaking.calculate_rewards, calculate_base_farm_rewards_eq, if_neg hn,
    Option.bind_eq_bind, Option.bind_some, Option.pure_def]

/-- source `FarmStakingWrapper::generate_aggregated_rewards` in closed form, in the model's terms:
    it aborts when `accumulated > capacity`; `tot = min(minted, capacity − accumulated)`; for
    `tot = 0` only `last_reward_block_nonce` moves; otherwise the shared `take_reward_slice` splits
    `tot`.  Result (accumulated_rewards, accumulated_rewards_for_week(current), last_reward_block_nonce,
    reward_per_share, reward_reserve) -/
theorem generate_aggregated_rewards_eq (dsc csupply rps reserve accd acc epoch block pct supply first
    last maxApr perBlock : Nat) (produce : Bool) (cap : Nat) :
    KStaking.generate_aggregated_rewards dsc csupply rps reserve accd acc epoch block pct supply first
        last maxApr perBlock produce cap =
      if cap < accd then none
      else if genTotOf block last perBlock produce supply maxApr cap accd = 0 then
        some (accd, acc, max last block, rps, reserve)
      else
        (KFarmDex.take_reward_slice (genTotOf block last perBlock produce supply maxApr cap accd) acc
            epoch pct first).bind fun r =>
          some (accd + genTotOf block last perBlock produce supply maxApr cap accd, r.2.2, max last block,
                rps + rpsInc dsc r.1 csupply,
                reserve + genTotOf block last perBlock produce supply maxApr cap accd) := by
  by_cases hc : cap < accd
  · have hc' : ¬ accd ≤ cap := by omega
    simp only [KStaking.generate_aggregated_rewards, sub?, if_neg hc', if_pos hc, Option.bind_eq_bind,
      Option.bind_none]
  · have hc' : accd ≤ cap := by omega
    simp only [KStaking.generate_aggregated_rewards, sub?, if_pos hc', if_neg hc,
      mint_per_block_rewards_eq, Option.bind_eq_bind, Option.bind_some, Option.pure_def]
    have hg : Nat.min (mintOf block last perBlock produce supply maxApr) (cap - accd) =
        genTotOf block last perBlock produce supply maxApr cap accd := rfl
    rw [hg]
    generalize genTotOf block last perBlock produce supply maxApr cap accd = tot
    by_cases h0 : tot = 0
    · simp only [if_pos h0]
    · simp only [if_neg h0]
      cases KFarmDex.take_reward_slice tot acc epoch pct first with
      | none => rfl
      | some r =>
        obtain ⟨base, cut, acc'⟩ := r
        by_cases hs : csupply = 0
        · have hs' : ¬ csupply > 0 := by omega
          simp only [Option.bind_some, if_neg hs', rpsInc, if_pos hs, Nat.add_zero]
        · have hs' : csupply > 0 := by omega
          simp only [Option.bind_some, if_pos hs', rpsInc, if_neg hs, div?]

/-- MAIN: a successful model `generate` (after the first week started) is a successful run of the
    source's `FarmStakingWrapper::generate_aggregated_rewards` on the same cache and storage cells:
    same new `accumulated_rewards`, `last_reward_block_nonce`, index and reserve; the current week's
    boosted accumulator grows by the model's cut -/
theorem generate_runs_source {s s' : St} {c c' : Cache} (h : generate s c = some (s', c'))
    (hw : s.firstWeek ≤ s.epoch) (acc : Nat) :
    KStaking.generate_aggregated_rewards s.dsc c.supply c.rps c.reserve s.accumulated acc s.epoch
        s.block s.boostedPct s.supply s.firstWeek s.lastBlock s.maxApr s.perBlock s.produce
        s.capacity =
      some (s'.accumulated, acc + genCut s (genTot s), s'.lastBlock, c'.rps, c'.reserve) ∧
    s'.b.accumulated s.week = s.b.accumulated s.week + genCut s (genTot s) := by
  obtain ⟨hcap, hcut, rfl, rfl⟩ := generate_spec h
  have hP : MAX_PERCENT = 10000 := rfl
  refine ⟨?_, by simp only [genSt, Weekly.upd_same]⟩
  rw [generate_aggregated_rewards_eq, if_neg (by omega)]
  have hT : genTotOf s.block s.lastBlock s.perBlock s.produce s.supply s.maxApr s.capacity
      s.accumulated = genTot s := rfl
  rw [hT]
  have hcdef : genCut s (genTot s) = genTot s * s.boostedPct / 10000 := rfl
  rw [hcdef] at hcut ⊢
  by_cases h0 : genTot s = 0
  · rw [if_pos h0]
    simp only [genSt, genCache, h0, rpsInc, Nat.zero_sub, Nat.zero_mul, Nat.zero_div, Nat.add_zero,
      ite_self]
  · rw [if_neg h0, Mx.KFarmDex.take_reward_slice_eq]
    by_cases hz : s.boostedPct = 0 ∨ genTot s * s.boostedPct / 10000 = 0
    · have hz' : genTot s * s.boostedPct / 10000 = 0 := by
        rcases hz with hz | hz
        · rw [hz, Nat.mul_zero, Nat.zero_div]
        · exact hz
      rw [if_pos hz]
      simp only [Option.bind_some, genSt, genCache, genCut, cutOf, hP, hz', Nat.add_zero, Nat.sub_zero]
    · have h2 : ¬ (s.epoch < s.firstWeek ∨ genTot s < genTot s * s.boostedPct / 10000) := by omega
      rw [if_neg hz, if_neg h2]
      simp only [Option.bind_some, genSt, genCache, genCut, cutOf, hP]

/-- the source aborts when more has been accumulated than the capacity holds (the model's first guard) -/
theorem generate_aggregated_rewards_over_capacity (dsc csupply rps reserve accd acc epoch block pct
    supply first last maxApr perBlock : Nat) (produce : Bool) (cap : Nat) (h : cap < accd) :
    KStaking.generate_aggregated_rewards dsc csupply rps reserve accd acc epoch block pct supply first
        last maxApr perBlock produce cap = none := by
  rw [generate_aggregated_rewards_eq, if_pos h]

/-- the capacity arithmetic of `withdrawRewards` (after settling): the amount must not exceed
    `capacity − accumulated`, then the capacity shrinks — exactly the model's `withdraw` guards -/
theorem withdraw_rewards_check_eq (accd cap x : Nat) :
    KStaking.withdraw_rewards_check accd cap x =
      (sub? cap accd).bind fun remaining => (req (x ≤ remaining)).bind fun _ => sub? cap x := by
  simp only [KStaking.withdraw_rewards_check, Option.bind_eq_bind, ge_iff_le, Option.pure_def]
  cases hsub : sub? cap accd with
  | none => rfl
  | some r =>
    rw [sub?_eq_some] at hsub
    obtain ⟨_, rfl⟩ := hsub
    by_cases hx : x ≤ cap - accd
    · have hx' : x ≤ cap := by omega
      simp only [Option.bind_some, req, if_pos hx, if_pos hx', sub?]
    · simp only [Option.bind_some, req, if_neg hx, Option.bind_none]

/-- `topUpRewards` adds the payment to the capacity -/
theorem top_up_rewards_update_eq (x cap : Nat) :
    KStaking.top_up_rewards_update x cap = some (cap + x) := rfl

/-- `setMinUnbondEpochs` accepts exactly the values up to `MAX_MIN_UNBOND_EPOCHS` and stores them -/
theorem try_set_min_unbond_epochs_eq (e : Nat) :
    KStaking.try_set_min_unbond_epochs e = if e ≤ MAX_MIN_UNBOND_EPOCHS then some e else none := by
  have hM : MAX_MIN_UNBOND_EPOCHS = 30 := rfl
  by_cases h : e ≤ 30
  · simp only [KStaking.try_set_min_unbond_epochs, hM, req, if_pos h, Option.bind_eq_bind,
      Option.bind_some, Option.pure_def]
  · simp only [KStaking.try_set_min_unbond_epochs, hM, req, if_neg h, Option.bind_eq_bind,
      Option.bind_none]

example : KStaking.get_amount_apr_bounded 1000000000000 2500 = some 47564 := by decide
example : KStaking.mint_per_block_rewards 110 1000000000000 100 2500 50000 true = some (475640, 110) := by
  decide
example : KStaking.withdraw_rewards_check 40 100 61 = none := by decide
example : KStaking.withdraw_rewards_check 40 100 60 = some 40 := by decide

end Mx.KStaking
