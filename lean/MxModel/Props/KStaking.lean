/-
  KStaking — the farm-staking model (`Core/Staking.lean`) computes what the SOURCE of
  `farm-staking/farm-staking/src/{base_impl_wrapper.rs, custom_rewards.rs}` computes:

    * `get_amount_apr_bounded`                         = `aprPerBlock`
    * `FarmStakingWrapper::mint_per_block_rewards`     = `mintOf` (the APR bound), `lastBlock := max`
    * `FarmStakingWrapper::generate_aggregated_rewards` = `generate` (capacity cap, boosted cut through
      the shared `take_reward_slice`, index increment)
    * `calculate_base_farm_rewards` / `calculate_rewards` = `baseReward` (+ boosted)
    * the reward-capacity arithmetic of `withdrawRewards` / `topUpRewards`, `setMinUnbondEpochs`

  `Gen/KStaking.lean` is regenerated on every run by `bin/gen-kernels`.
-/
import MxModel.Gen.KStaking
import MxModel.Props.KFarmDex
import MxModel.Lemmas.StakingSpec
import MxModel.Lemmas.KTactic

namespace Mx.KStaking
open Mx Mx.Gen Mx.Staking

/-- source `get_amount_apr_bounded` = model `aprPerBlock`: `⌊⌊amount · maxApr / 10000⌋ / 5256000⌋`,
    never aborts -/
theorem get_amount_apr_bounded_eq (amount maxApr : Nat) :
    KStaking.get_amount_apr_bounded amount maxApr = some (aprPerBlock amount maxApr) := by
  have hP : MAX_PERCENT = 10000 := rfl
  have hB : BLOCKS_IN_YEAR = 5256000 := rfl
  k_defs [KStaking.get_amount_apr_bounded, aprPerBlock, hP, hB]
  try k_solve

/-- source `FarmStakingWrapper::mint_per_block_rewards` = model `mintOf` — the per-block amount
    capped by the APR bound on the STORED supply — and `last_reward_block_nonce := max last block`;
    never aborts.  Result (minted, last_reward_block_nonce) -/
theorem mint_per_block_rewards_eq (block supply last maxApr perBlock : Nat) (produce : Bool) :
    KStaking.mint_per_block_rewards block supply last maxApr perBlock produce =
      some (mintOf block last perBlock produce supply maxApr, max last block) := by
  k_defs [KStaking.mint_per_block_rewards, mintOf, Mx.KFarm.calculate_per_block_rewards_eq,
    get_amount_apr_bounded_eq]
  cases produce <;> k_solve

/-- on a model state the source mints the model's `mintAmount` -/
theorem mint_per_block_rewards_state (s : St) :
    KStaking.mint_per_block_rewards s.block s.supply s.lastBlock s.maxApr s.perBlock s.produce =
      some (mintAmount s, max s.lastBlock s.block) :=
  mint_per_block_rewards_eq _ _ _ _ _ _

/-- source `calculate_base_farm_rewards` = model `baseReward`; aborts exactly when the index moved
    and the division safety constant is 0 -/
theorem calculate_base_farm_rewards_eq (c : Cache) (dsc amt : Nat) (t : Attrs) :
    KStaking.calculate_base_farm_rewards amt t.rps dsc c.rps =
      if t.rps < c.rps ∧ dsc = 0 then none else some (baseReward c dsc amt t) := by
  k_defs [KStaking.calculate_base_farm_rewards, baseReward]
  k_solve

/-- source `FarmStakingWrapper::calculate_rewards` = base reward + boosted claim -/
theorem calculate_rewards_eq (c : Cache) (dsc amt boosted : Nat) (t : Attrs) (hd : dsc ≠ 0) :
    KStaking.calculate_rewards amt t.rps dsc c.rps boosted = some (baseReward c dsc amt t + boosted) := by
  k_defs [KStaking.calculate_rewards, calculate_base_farm_rewards_eq]
  k_solve

/-- source `FarmStakingWrapper::generate_aggregated_rewards` in closed form, in the model's terms:
    it aborts when `accumulated > capacity`; `tot = min(minted, capacity − accumulated)`; for
    `tot = 0` only `last_reward_block_nonce` moves; otherwise the shared `take_reward_slice` splits
    `tot`.  Result (accumulated_rewards, accumulated_rewards_for_week(current), last_reward_block_nonce,
    reward_per_share, reward_reserve) -/
theorem generate_aggregated_rewards_eq (dsc csupply rps reserve accd acc epoch block pct supply first
    last maxApr perBlock : Nat) (produce : Bool) (cap : Nat) :
    KStaking.generate_aggregated_rewards dsc csupply rps reserve accd acc epoch block pct supply first
        last maxApr perBlock produce cap =
      if cap < accd then none
      else if genTotOf block last perBlock produce supply maxApr cap accd = 0 then
        some (accd, acc, max last block, rps, reserve)
      else
        (KFarmDex.take_reward_slice (genTotOf block last perBlock produce supply maxApr cap accd) acc
            epoch pct first).bind fun r =>
          some (accd + genTotOf block last perBlock produce supply maxApr cap accd, r.2.2, max last block,
                rps + rpsInc dsc r.1 csupply,
                reserve + genTotOf block last perBlock produce supply maxApr cap accd) := by
  k_defs [KStaking.generate_aggregated_rewards, mint_per_block_rewards_eq, genTotOf, rpsInc,
    Mx.KFarmDex.take_reward_slice_eq]
  generalize mintOf block last perBlock produce supply maxApr = m
  k_solve

/-- MAIN: a successful model `generate` (after the first week started) is a successful run of the
    source's `FarmStakingWrapper::generate_aggregated_rewards` on the same cache and storage cells:
    same new `accumulated_rewards`, `last_reward_block_nonce`, index and reserve; the current week's
    boosted accumulator grows by the model's cut -/
theorem generate_runs_source {s s' : St} {c c' : Cache} (h : generate s c = some (s', c'))
    (hw : s.firstWeek ≤ s.epoch) (acc : Nat) :
    KStaking.generate_aggregated_rewards s.dsc c.supply c.rps c.reserve s.accumulated acc s.epoch
        s.block s.boostedPct s.supply s.firstWeek s.lastBlock s.maxApr s.perBlock s.produce
        s.capacity =
      some (s'.accumulated, acc + genCut s (genTot s), s'.lastBlock, c'.rps, c'.reserve) ∧
    s'.b.accumulated s.week = s.b.accumulated s.week + genCut s (genTot s) := by
  obtain ⟨hcap, hcut, rfl, rfl⟩ := generate_spec h
  have hP : MAX_PERCENT = 10000 := rfl
  refine ⟨?_, by simp only [genSt, Weekly.upd_same]⟩
  rw [generate_aggregated_rewards_eq, if_neg (by omega)]
  have hT : genTotOf s.block s.lastBlock s.perBlock s.produce s.supply s.maxApr s.capacity
      s.accumulated = genTot s := rfl
  rw [hT]
  have hcdef : genCut s (genTot s) = genTot s * s.boostedPct / 10000 := rfl
  rw [hcdef] at hcut ⊢
  by_cases h0 : genTot s = 0
  · rw [if_pos h0]
    simp only [genSt, genCache, h0, rpsInc, Nat.zero_sub, Nat.zero_mul, Nat.zero_div, Nat.add_zero,
      ite_self]
  · rw [if_neg h0, Mx.KFarmDex.take_reward_slice_eq]
    by_cases hz : s.boostedPct = 0 ∨ genTot s * s.boostedPct / 10000 = 0
    · have hz' : genTot s * s.boostedPct / 10000 = 0 := by
        rcases hz with hz | hz
        · rw [hz, Nat.mul_zero, Nat.zero_div]
        · exact hz
      rw [if_pos hz]
      simp only [Option.bind_some, genSt, genCache, genCut, cutOf, hP, hz', Nat.add_zero, Nat.sub_zero]
    · have h2 : ¬ (s.epoch < s.firstWeek ∨ genTot s < genTot s * s.boostedPct / 10000) := by omega
      rw [if_neg hz, if_neg h2]
      simp only [Option.bind_some, genSt, genCache, genCut, cutOf, hP]

/-- the source aborts when more has been accumulated than the capacity holds (the model's first guard) -/
theorem generate_aggregated_rewards_over_capacity (dsc csupply rps reserve accd acc epoch block pct
    supply first last maxApr perBlock : Nat) (produce : Bool) (cap : Nat) (h : cap < accd) :
    KStaking.generate_aggregated_rewards dsc csupply rps reserve accd acc epoch block pct supply first
        last maxApr perBlock produce cap = none := by
  rw [generate_aggregated_rewards_eq, if_pos h]

/-- the capacity arithmetic of `withdrawRewards` (after settling): the amount must not exceed
    `capacity − accumulated`, then the capacity shrinks — exactly the model's `withdraw` guards -/
theorem withdraw_rewards_check_eq (accd cap x : Nat) :
    KStaking.withdraw_rewards_check accd cap x =
      (sub? cap accd).bind fun remaining => (req (x ≤ remaining)).bind fun _ => sub? cap x := by
  k_defs [KStaking.withdraw_rewards_check]
  k_solve

/-- `topUpRewards` adds the payment to the capacity -/
theorem top_up_rewards_update_eq (x cap : Nat) :
    KStaking.top_up_rewards_update x cap = some (cap + x) := by
  k_defs [KStaking.top_up_rewards_update]
  try k_solve

/-- `setMinUnbondEpochs` accepts exactly the values up to `MAX_MIN_UNBOND_EPOCHS` and stores them -/
theorem try_set_min_unbond_epochs_eq (e : Nat) :
    KStaking.try_set_min_unbond_epochs e = if e ≤ MAX_MIN_UNBOND_EPOCHS then some e else none := by
  have hM : MAX_MIN_UNBOND_EPOCHS = 30 := rfl
  k_defs [KStaking.try_set_min_unbond_epochs, hM]
  try k_solve

/-! ### unbonding and `claimRewardsWithNewValue` -/

/-- the unbond token created by `unstakeFarm` unlocks at `current_epoch + min_unbond_epochs`
    (the `.unbond (epoch + minUnbond)` metadata the model's `unstakeCore` writes) -/
theorem unbond_unlock_epoch_eq (s : St) :
    KStaking.unbond_unlock_epoch s.epoch s.minUnbond = some (s.epoch + s.minUnbond) := by
  k_defs [KStaking.unbond_unlock_epoch]
  try k_solve

/-- `unbondFarm` pays only once the unlock epoch has been reached (the model's `req (unlock ≤ s.epoch)`) -/
theorem unbond_guard_eq (unlock now : Nat) :
    KStaking.unbond_guard unlock now = if unlock ≤ now then some () else none := by
  k_defs [KStaking.unbond_guard]
  k_solve

/-- a successful model `unbondFarm` passes the source guard on the token's stored unlock epoch -/
theorem unbondFarm_runs_source {s s' : St} {caller : Nat} {pay : Pay} {o : Out}
    (h : unbondFarm s caller pay = some (s', o)) :
    ∃ unlock, unbondOf s.md pay.1 = some unlock ∧ KStaking.unbond_guard unlock s.epoch = some () := by
  simp only [unbondFarm, Option.bind_eq_bind, Option.bind_eq_some_iff, req_eq_some] at h
  obtain ⟨_, _, _, _, unlock, hu, _, hle, _⟩ := h
  exact ⟨unlock, hu, by rw [unbond_guard_eq, if_pos hle]⟩

/-- the adjustment of `claimRewardsWithNewValue`: supply and the user's total position both lose the
    old amount (checked) and gain the new one — the model's `newSupply` / `newUserTotal` on the two
    cells.  Result (farm_token_supply, userTotalFarmPosition(orig)) -/
theorem new_value_adjust_eq (ut : Nat → Nat) (orig supply amount nv : Nat) :
    KStaking.new_value_adjust supply nv (ut orig) amount =
      (newSupply supply amount (some nv)).bind fun s' =>
        (newUserTotal ut orig amount (some nv)).map fun ut' => (s', ut' orig) := by
  have hu : ∀ v : Nat, Weekly.upd ut orig v orig = v := fun v => by simp [Weekly.upd]
  k_defs [KStaking.new_value_adjust, newSupply, newUserTotal]
  repeat' (first | k_unfold | split)
  all_goals try simp only [hu]
  all_goals k_close

example : KStaking.get_amount_apr_bounded 1000000000000 2500 = some 47564 := by decide
example : KStaking.mint_per_block_rewards 110 1000000000000 100 2500 50000 true = some (475640, 110) := by
  decide
example : KStaking.withdraw_rewards_check 40 100 61 = none := by decide
example : KStaking.withdraw_rewards_check 40 100 60 = some 40 := by decide

end Mx.KStaking
