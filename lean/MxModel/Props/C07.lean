/-
  C07 — Position tokens: supply = Σ; split / merge create no value; owner totals exact
  (dex/farm, dex/farm-with-locked-rewards; farm-staking has its own file).

  Model: Core/Farm.lean — `Attr` = `FarmTokenAttributes`, `Attr.intoPart` = `into_part`
  (rule of three, floor), `Attr.mergeWith` = `merge_with` (weighted average rounded UP).
-/
import MxModel.Lemmas.FarmArith
import MxModel.Lemmas.FarmPos
import MxModel.Lemmas.FarmPot

namespace Mx.C07
open Mx Mx.Farm

/-- **merge_amounts.**  Merging adds principal and compounded amounts exactly; the epoch is the later
    one, the owner of the result is taken from the left operand (the endpoints overwrite it with the
    acting user). -/
theorem merge_amounts {a b m : Attr} (h : a.mergeWith b = some m) :
    m.amt = a.amt + b.amt ∧ m.comp = a.comp + b.comp ∧ m.epoch = max a.epoch b.epoch := by
  obtain ⟨_, h1, h2, h3, _, _⟩ := mergeWith_spec h
  exact ⟨h1, h2, h3⟩

/-- **merge_index_ceil.**  The merged entry index is the amount-weighted average rounded UP:
    `rps_m·(a1+a2) ≥ rps1·a1 + rps2·a2` and `< … + (a1+a2)`. -/
theorem merge_index_ceil {a b m : Attr} (h : a.mergeWith b = some m) :
    a.rps * a.amt + b.rps * b.amt ≤ m.rps * (a.amt + b.amt) ∧
    m.rps * (a.amt + b.amt) < a.rps * a.amt + b.rps * b.amt + (a.amt + b.amt) :=
  Farm.merge_index_ceil h

/-- **merge_no_gain.**  For EVERY future index `R` the un-rounded entitlement `amount·(R − entry)` of
    the merged position is at most the sum of the parts' entitlements: merging creates no value. -/
theorem merge_no_gain {a b m : Attr} (h : a.mergeWith b = some m) (R : Nat) :
    m.amt * (R - m.rps) ≤ a.amt * (R - a.rps) + b.amt * (R - b.rps) :=
  Farm.merge_no_gain h R

/-- the merged index lies between the parts' indexes (never above the current index if both parts are not) -/
theorem merge_index_between {a b m : Attr} (h : a.mergeWith b = some m) :
    min a.rps b.rps ≤ m.rps ∧ m.rps ≤ max a.rps b.rps := by
  obtain ⟨hw, _, _, _, _, hr⟩ := mergeWith_spec h
  rw [hr]
  exact ⟨wavgUp_ge_min _ _ _ _ hw, wavgUp_le_max _ _ _ _ _ hw (Nat.le_max_left _ _) (Nat.le_max_right _ _)⟩

/-- **split_principal / split_index_unchanged.**  A part of a position has exactly the paid amount as
    principal and keeps entry index, epoch and owner; its compounded amount is the floor share. -/
theorem split_principal {a p : Attr} {x : Nat} (h : a.intoPart x = some p) :
    p.amt = x ∧ p.rps = a.rps ∧ p.epoch = a.epoch ∧ p.owner = a.owner ∧
    p.comp = (if x = a.amt then a.comp else a.comp * x / a.amt) := by
  obtain ⟨h1, h2, h3, h4, h5, _⟩ := intoPart_spec h
  exact ⟨h1, h2, h3, h4, h5⟩

/-- **split_compounded_floor.**  However a position is cut into parts (any number of non-zero
    payments within its amount), the parts' compounded amounts sum to at most the whole. -/
theorem split_compounded_floor {a : Attr} {xs : List Nat} {ps : List Attr}
    (h : List.Forall₂ (fun x p => a.intoPart x = some p) xs ps) (hnz : ∀ x ∈ xs, x ≠ 0)
    (hs : xs.sum ≤ a.amt) : (ps.map (·.comp)).sum ≤ a.comp :=
  split_compounded_floor_list h hnz hs

/-- splitting then re-merging the two halves of a position gives back principal exactly, never more
    compounded amount, and the same entry index -/
theorem split_merge_roundtrip {a p q m : Attr} {x y : Nat} (hp : a.intoPart x = some p)
    (hq : a.intoPart y = some q) (hxy : x + y = a.amt) (hx : x ≠ 0) (hy : y ≠ 0)
    (hm : p.mergeWith q = some m) : m.amt = a.amt ∧ m.comp ≤ a.comp ∧ m.rps = a.rps := by
  obtain ⟨p1, p2, _, _, _, _⟩ := intoPart_spec hp
  obtain ⟨q1, q2, _, _, _, _⟩ := intoPart_spec hq
  obtain ⟨hw, m1, m2, _, _, m5⟩ := mergeWith_spec hm
  have hc := Farm.split_compounded_floor hp hq (by omega) hx hy
  refine ⟨by omega, by omega, ?_⟩
  have hb := wavgUp_bounds p.rps p.amt q.rps q.amt hw
  rw [← m5, p2, q2] at hb
  have hpos : 0 < p.amt + q.amt := by omega
  obtain ⟨h1, h2⟩ := hb
  have e : a.rps * p.amt + a.rps * q.amt = a.rps * (p.amt + q.amt) := by ring
  rw [e] at h1 h2
  have l1 : a.rps ≤ m.rps := Nat.le_of_mul_le_mul_right h1 hpos
  have l2 : m.rps * (p.amt + q.amt) < (a.rps + 1) * (p.amt + q.amt) := by
    calc m.rps * (p.amt + q.amt) < a.rps * (p.amt + q.amt) + (p.amt + q.amt) := h2
      _ = (a.rps + 1) * (p.amt + q.amt) := by ring
  have l3 : m.rps < a.rps + 1 := Nat.lt_of_mul_lt_mul_right l2
  omega

/-- one operation (any operation, any arguments, any caller) keeps the position invariant -/
theorem pos_step {s s' : St} {op : Op} {o : Out} (hI : PosInv s) (h : step s op = some (s', o)) : PosInv s' :=
  step_posInv hI h

/-- **supply_eq_sum.**  After every history — enters with and without merging, claims, compounds,
    full and partial exits, merges, on-behalf operations, position transfers between accounts — the
    reported farm-token supply equals the sum, over all accounts and all nonces, of the outstanding
    position amounts. -/
theorem supply_eq_sum (kind : Kind) (same : Bool) (dsc pb : Nat) (produce : Bool) (users : List Nat)
    (e0 : Nat) (hnd : users.Nodup) (ops : List Op) :
    let s := run (init kind same dsc pb produce users e0) ops
    s.supply = ((List.range (s.lastNonce + 1)).map fun n => (s.users.map fun u => s.hold u n).sum).sum :=
  (reachable_posInv kind same dsc pb produce users e0 hnd ops).sup

/-- **owner_totals.**  After every history, for EVERY address `o`: the tracked total farm position of
    `o` equals the sum of the outstanding positions whose recorded original owner is `o` — also after
    positions were transferred and then claimed / exited / merged / entered-with by the receiver. -/
theorem owner_totals (kind : Kind) (same : Bool) (dsc pb : Nat) (produce : Bool) (users : List Nat)
    (e0 : Nat) (hnd : users.Nodup) (ops : List Op) (o : Nat) :
    let s := run (init kind same dsc pb produce users e0) ops
    s.userTotal o = ((List.range (s.lastNonce + 1)).map fun n =>
      if (s.attrs n).map (·.owner) = some o then (s.users.map fun u => s.hold u n).sum else 0).sum :=
  (reachable_posInv kind same dsc pb produce users e0 hnd ops).own o

/-- position tokens only exist for nonces that were created, with attributes, in known accounts -/
theorem positions_wellformed (kind : Kind) (same : Bool) (dsc pb : Nat) (produce : Bool) (users : List Nat)
    (e0 : Nat) (hnd : users.Nodup) (ops : List Op) (u n : Nat) :
    let s := run (init kind same dsc pb produce users e0) ops
    s.hold u n ≠ 0 → u ∈ s.users ∧ n ≤ s.lastNonce ∧ (s.attrs n).isSome :=
  (reachable_posInv kind same dsc pb produce users e0 hnd ops).dom u n

/-- **merge_no_gain_nary.**  The n-ary form, for the whole payment list of `mergeFarmTokens` / `claim` /
    `exit` with several payments (`(nonce, amount)` pairs, in the order sent): the merged position has
    exactly the sum of the paid amounts as principal, and for EVERY future index `R` its un-rounded
    entitlement is at most the sum of what the paid parts could claim at their own entry indexes —
    stated with plain list sums over the stored attributes, no ghost. -/
theorem merge_no_gain_nary {s : St} {pays : List (Nat × Nat)} {m : Attr} (h : mergeAll s pays = some m)
    (R : Nat) :
    m.amt = (pays.map (·.2)).sum ∧
    m.amt * (R - m.rps) ≤
      (pays.map fun p => p.2 * (R - (match s.attrs p.1 with | some a => a.rps | none => 0))).sum := by
  have e1 := mergeAll_amt h
  have e2 := mergeAll_pot R h
  have s1 : ∀ l : List (Nat × Nat), paySum l = (l.map (·.2)).sum := by
    intro l; induction l with
    | nil => rfl
    | cons p r ih => obtain ⟨n, a⟩ := p; simp only [paySum, List.map_cons, List.sum_cons, ih]
  have s2 : ∀ l : List (Nat × Nat), payPot s.attrs R l =
      (l.map fun p => p.2 * (R - (match s.attrs p.1 with | some a => a.rps | none => 0))).sum := by
    intro l; induction l with
    | nil => rfl
    | cons p r ih =>
      obtain ⟨n, a⟩ := p
      have e : rpsA s.attrs n = (match s.attrs n with | some a => a.rps | none => 0) := by
        unfold rpsA; cases s.attrs n <;> rfl
      simp only [payPot, List.map_cons, List.sum_cons, ih, e]
  rw [s1] at e1; rw [s2] at e2
  exact ⟨e1, e2⟩

/-- every payment of a successful n-ary merge names a stored position (so the `none => 0` branch of
    `merge_no_gain_nary` is never taken) -/
theorem merge_nary_payments_exist : ∀ (pays : List (Nat × Nat)) {s : St} {base m : Attr},
    mergeParts s base pays = some m → ∀ p ∈ pays, (s.attrs p.1).isSome := by
  intro pays
  induction pays with
  | nil => intro s base m _ p hp; cases hp
  | cons q rest ih =>
    intro s base m h p hp
    obtain ⟨n, a⟩ := q
    simp only [mergeParts, Option.bind_eq_bind, Option.bind_eq_some_iff] at h
    obtain ⟨att, hat, part, _, m1, _, h2⟩ := h
    rcases List.mem_cons.mp hp with rfl | hp
    · simp only [hat, Option.isSome_some]
    · exact ih h2 p hp

/-- non-vacuity: three positions with three different entry indexes merged at once -/
example :
    let s := run (init .mint false 7 10 true [1] 0)
      [.enter 1 none 30 [], .advance 5 0, .enter 1 none 20 [], .advance 9 0, .enter 1 none 11 []]
    (mergeAll s [(1, 30), (2, 20), (3, 11)]).map (fun m => m.amt) = some 61 ∧
    (s.attrs 1).map (·.rps) ≠ (s.attrs 2).map (·.rps) ∧ (s.attrs 2).map (·.rps) ≠ (s.attrs 3).map (·.rps) := by
  decide

/-- non-vacuity of the invariants: a transfer followed by a claim of the receiver moves the total -/
example :
    let s := run (init .mint false 7 10 true [1, 2] 0)
      [.enter 1 none 30 [], .advance 5 0, .transfer 1 2 1 10, .claim 2 none [(1, 10)], .exit 1 none 1 5]
    s.supply = 25 ∧ s.userTotal 1 = 15 ∧ s.userTotal 2 = 10 ∧ s.hold 1 1 = 15 ∧ s.hold 2 2 = 10 := by decide

/-- non-vacuity: distinct entry indexes and a small `dsc`, so that the ceiling differs from the floor -/
example :
    (Attr.mergeWith ⟨10, 0, 0, 3, 1⟩ ⟨11, 0, 0, 4, 1⟩).map (fun m => (m.rps, m.amt)) = some (11, 7) ∧
    (10 * 3 + 11 * 4) / 7 = 10 := by decide

end Mx.C07
