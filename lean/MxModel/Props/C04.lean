/-
  C04 — Liquidity minted / redeemed strictly pro rata; the first deposit locks a floor.
  `Out` of `addLiq` = (LP to the caller, used₁, used₂); the refunds are `a₁−used₁`, `a₂−used₂`.
  `Out` of `removeLiq` = (x₁, x₂).
-/
import MxModel.Lemmas.PairK

namespace Mx.C04
open Mx.Pair

/-- the deposit actually used is at the pool's ratio, fits the payment, uses one side in
    full, respects the caller's minimums — and is the LARGEST such deposit: any exactly
    proportional `(x₁,x₂)` (`x₁·r₂ = x₂·r₁`) that fits the payment is component-wise ≤ it -/
theorem addLiq_optimal {s s' : St} {a1 a2 m1 m2 : Nat} {o : Out} (hi : Inv s) (hS : 0 < s.S)
    (h : addLiq s a1 a2 m1 m2 = some (s', o)) :
    o.v2 ≤ a1 ∧ o.v3 ≤ a2 ∧ m1 ≤ o.v2 ∧ m2 ≤ o.v3 ∧
    ((o.v2 = a1 ∧ o.v3 = a1 * s.r2 / s.r1) ∨ (o.v3 = a2 ∧ o.v2 = a2 * s.r1 / s.r2)) ∧
    (∀ x1 x2, x1 ≤ a1 → x2 ≤ a2 → x1 * s.r2 = x2 * s.r1 → x1 ≤ o.v2 ∧ x2 ≤ o.v3) := by
  have hp := hi.pos hS
  obtain ⟨o1, o2, _, _, _, _, _, _, _, hopt, rfl, _, _, _⟩ := addLiq_spec (by omega) h
  obtain ⟨hcase, hm1, hm2⟩ := optimal_spec hopt
  simp only [quote] at hcase
  rcases hcase with ⟨c1, rfl, rfl⟩ | ⟨c1, c2, rfl, rfl⟩
  · refine ⟨Nat.le_refl _, c1, hm1, hm2, Or.inl ⟨rfl, rfl⟩, ?_⟩
    intro x1 x2 hx1 hx2 hxe
    refine ⟨hx1, ?_⟩
    rw [Nat.le_div_iff_mul_le hp.1, ← hxe]
    exact Nat.mul_le_mul_right _ hx1
  · refine ⟨c2, Nat.le_refl _, hm1, hm2, Or.inr ⟨rfl, rfl⟩, ?_⟩
    intro x1 x2 hx1 hx2 hxe
    refine ⟨?_, hx2⟩
    rw [Nat.le_div_iff_mul_le hp.2.1, hxe]
    exact Nat.mul_le_mul_right _ hx2

/-- mints exactly `min(⌊used₁·S/r₁⌋, ⌊used₂·S/r₂⌋) > 0`; reserves, supply and real balances
    grow by exactly the used amounts / the minted LP (so the unused remainder was refunded) -/
theorem addLiq_mint {s s' : St} {a1 a2 m1 m2 : Nat} {o : Out} (hS : 0 < s.S)
    (h : addLiq s a1 a2 m1 m2 = some (s', o)) :
    o.v1 = min (o.v2 * s.S / s.r1) (o.v3 * s.S / s.r2) ∧ 0 < o.v1 ∧
    s'.S = s.S + o.v1 ∧ s'.r1 = s.r1 + o.v2 ∧ s'.r2 = s.r2 + o.v3 ∧
    s'.bal1 = s.bal1 + o.v2 ∧ s'.bal2 = s.bal2 + o.v3 ∧ s'.lpCirc = s.lpCirc + o.v1 := by
  obtain ⟨o1, o2, _, _, _, _, _, _, _, _, rfl, h9, _, rfl⟩ := addLiq_spec (by omega) h
  exact ⟨rfl, h9, rfl, rfl, rfl, rfl, rfl, rfl⟩

/-- fails if either used amount would be below the caller's minimum -/
theorem addLiq_min_guard (s : St) (a1 a2 m1 m2 : Nat) (hS : 0 < s.S)
    (hlow : ∀ o1 o2, optimal s a1 a2 1 1 = some (o1, o2) → o1 < m1 ∨ o2 < m2) :
    addLiq s a1 a2 m1 m2 = none := by
  cases h : addLiq s a1 a2 m1 m2 with
  | none => rfl
  | some r =>
    obtain ⟨s', o⟩ := r
    obtain ⟨o1, o2, g1, g2, _, _, _, _, _, hopt, _⟩ := addLiq_spec (by omega) h
    obtain ⟨hcase, hm1, hm2⟩ := optimal_spec hopt
    have : optimal s a1 a2 1 1 = some (o1, o2) := by
      simp only [optimal, Option.bind_eq_bind, Option.bind_eq_some_iff, req_eq_some,
        Option.pure_def, Option.some.injEq, Prod.mk.injEq] at hopt ⊢
      obtain ⟨p, hp, _, _, _, _, e⟩ := hopt
      exact ⟨p, hp, (), by obtain ⟨rfl, rfl⟩ := e; omega, (), by obtain ⟨rfl, rfl⟩ := e; omega, e⟩
    rcases hlow o1 o2 this with c | c <;> omega

/-- removing liquidity pays exactly `(⌊lp·r₁/S⌋, ⌊lp·r₂/S⌋)`, both positive, both below the
    reserve, both at least the caller's minimums, burns the LP, and needs `S ≥ lp + 1000` -/
theorem removeLiq_pays {s s' : St} {lp m1 m2 : Nat} {o : Out}
    (h : removeLiq s lp m1 m2 = some (s', o)) :
    o.v1 = lp * s.r1 / s.S ∧ o.v2 = lp * s.r2 / s.S ∧ 0 < o.v1 ∧ 0 < o.v2 ∧
    o.v1 < s.r1 ∧ o.v2 < s.r2 ∧ m1 ≤ o.v1 ∧ m2 ≤ o.v2 ∧ lp + MINLIQ ≤ s.S ∧
    s'.S = s.S - lp ∧ s'.r1 = s.r1 - o.v1 ∧ s'.r2 = s.r2 - o.v2 ∧
    s'.bal1 = s.bal1 - o.v1 ∧ s'.bal2 = s.bal2 - o.v2 ∧ s'.lpCirc = s.lpCirc - lp := by
  obtain ⟨_, _, _, _, h5, rfl, h7, h8, h9, h10, h11, h12, _, _, _, rfl⟩ := removeLiq_spec h
  exact ⟨rfl, rfl, h7, h10, h9, h12, h8, h11, h5, rfl, rfl, rfl, rfl, rfl, rfl⟩

/-- …and fails below the caller's minimums -/
theorem removeLiq_rejects_below_min (s : St) (lp m1 m2 : Nat)
    (hlow : lp * s.r1 / s.S < m1 ∨ lp * s.r2 / s.S < m2) : removeLiq s lp m1 m2 = none := by
  cases h : removeLiq s lp m1 m2 with
  | none => rfl
  | some r =>
    obtain ⟨s', o⟩ := r
    obtain ⟨_, _, _, _, _, rfl, _, h8, _, _, h11, _⟩ := removeLiq_spec h
    simp only at h8 h11
    omega

/-- the first deposit (through `addLiquidity` or `addInitialLiquidity`) mints `min a₁ a₂`,
    requires it to exceed 1000, and gives the depositor all but the 1000 units the pair keeps -/
theorem first_deposit {s s' : St} {a1 a2 m1 m2 : Nat} {o : Out} (hS : s.S = 0)
    (h : addLiq s a1 a2 m1 m2 = some (s', o)) :
    MINLIQ < min a1 a2 ∧ s'.S = min a1 a2 ∧ o.v1 = min a1 a2 - MINLIQ ∧
    s'.lpOwn = s.lpOwn + MINLIQ := by
  obtain ⟨_, _, _, _, h5, rfl, rfl⟩ := addLiq_first_spec hS h
  exact ⟨h5, rfl, rfl, rfl⟩

theorem first_deposit_initial {s s' : St} {c a1 a2 : Nat} {o : Out}
    (h : addInitial s c a1 a2 = some (s', o)) :
    (s.adder = none ∨ s.adder = some c) ∧ s.S = 0 ∧ MINLIQ < min a1 a2 ∧ s'.S = min a1 a2 ∧
    o.v1 = min a1 a2 - MINLIQ ∧ s'.lpOwn = s.lpOwn + MINLIQ := by
  obtain ⟨h1, _, _, _, h5, h6, rfl, rfl⟩ := addInitial_spec h
  exact ⟨h1, h5, h6, rfl, rfl, rfl⟩

/-- the floor is permanent: in every state reachable by any history, once liquidity exists
    the pair itself holds exactly the 1000 locked LP units, the supply is at least 1000 and
    both reserves are positive — no operation sequence can empty the pool -/
theorem locked_forever (total special : Nat) (adder : Option Nat) (cap : Nat)
    (before after : List Op) (h : 0 < (run (init total special adder cap) before).S) :
    let s := run (init total special adder cap) (before ++ after)
    s.lpOwn = MINLIQ ∧ MINLIQ ≤ s.S ∧ 0 < s.r1 ∧ 0 < s.r2 := by
  intro s
  have hi := run_inv before (inv_init total special adder cap)
  have hS : 0 < s.S := by
    show 0 < (run _ (before ++ after)).S
    rw [run_append]
    exact run_S_pos after hi h
  have hi' : Inv s := run_inv (before ++ after) (inv_init total special adder cap)
  have hp := hi'.pos hS
  exact ⟨hi'.ownPos hS, hp.2.2, hp.1, hp.2.1⟩

/-- non-vacuity: both first-deposit paths and a skewed later deposit on concrete pools -/
example :
    let s0 := run (init 300 50 none 8) [.cfg (.setState .active), .addLiq 5000 7000 1 1]
    let s1 := run (init 300 50 (some 2) 8) [.addInitial 2 9000 4000]
    s0.S = 5000 ∧ s0.lpOwn = 1000 ∧ s1.S = 4000 ∧ s1.lpOwn = 1000 ∧
    (addLiq s0 100 1000 1 1).isSome ∧ (addLiq s0 1000 100 1 1).isSome ∧
    (removeLiq s0 4000 1 1).isSome ∧ (removeLiq s0 4001 1 1).isNone := by
  decide

end Mx.C04
