/-
  C11 — Boosted rewards (farm-staking): the PAID LOG of a history, and every logged amount is the
  boosted formula (session 4; the staking port of Props/C11Once.lean + the amount part of
  Props/C10Once.lean).

  `Staking.paidLog s₀ ops` is a function of the history (no model field): one entry
  `(user, week, amount)` per week pool a successful operation paid boosted rewards out of.  The
  user is the operation's `claimerOf` (original caller of stake / claim / unstake and their proxy
  variants, the on-behalf user, the recorded owner for `claimRewardsOnBehalf`, the caller of
  compound / merge / claimBoostedRewards); week and amount are read off the growth of the ghost
  `b.paid week`.

    * `staking_log_entries`    every entry was produced by one operation of the history;
    * `staking_log_once`       no (user, week) occurs twice in the log of ANY history;
    * `staking_log_window`     every entry is for a week `w` with `current − 4 ≤ w < current`, not
                               before the claimer's stored progress, and its amount is positive;
    * `staking_log_complete`   `paid w` is exactly the sum of the log — no payment escapes it;
    * `staking_log_le_pool`    the logged payments of a week never exceed the week's frozen pool;
    * `staking_log_amount`     every entry's amount is
                               `min ⌊maxF·R·f/F⌋ ⌊(⌊R·cE·e/E⌋ + ⌊R·cF·f/F⌋)/(cE+cF)⌋`
                               with the factors in force for that week, `R` the week's frozen pool,
                               `f` the user's total position BEFORE the operation, `F` the week's
                               recorded farm supply, `e` the user's stored progress energy decayed
                               to that week, `E` the week's total energy — and none is logged below
                               the minimum energy / minimum position or without totals;
    * `staking_paid_exact`     the exact per-operation characterisation of `paid` for EVERY week.

    * `staking_pool_frozen`    the frozen pool the formula reads (`totalRewardsForWeek(w)`) is the
                               ghost pool `collected w` of `staking_log_le_pool`, in every history.

  Lemmas: Lemmas/StakingLog.lean, Lemmas/StakingLogAmount.lean, Lemmas/StakingLogPool.lean.
-/
import MxModel.Lemmas.StakingLogPool
import MxModel.Lemmas.StakingPool

namespace Mx.C11StakingAmounts
open Mx.Staking
open Mx.Weekly (eForP)

/-- every entry of the log of a history (started in ANY state) was produced by one of its
    operations, executed in the state reached by the operations before it -/
theorem staking_log_entries (s : St) (ops : List Op) (e : Entry) (h : e ∈ paidLog s ops) :
    ∃ ops1 op ops2, ops = ops1 ++ op :: ops2 ∧ e ∈ stepLog (run s ops1) op :=
  paidLog_entries ops s e h

/-- **paid at most once.**  In the log of boosted payments of ANY history of a staking farm, no two
    entries have the same user and week: whatever the sequence of stake / claim / compound /
    unstake / merge / claimBoostedRewards / proxy and on-behalf operations, energy updates,
    configuration changes, collections of undistributed rewards and idle weeks, a user is paid out
    of a given week's pool at most once. -/
theorem staking_log_once (epoch block dsc maxApr minUnbond perBlock : Nat) (accts wl : List Nat)
    (ops : List Op) :
    (paidLog (init epoch block dsc maxApr minUnbond perBlock accts wl) ops).Pairwise
      (fun e e' => ¬ (e.user = e'.user ∧ e.week = e'.week)) := by
  have := paidLog_once_from ops (s := init epoch block dsc maxApr minUnbond perBlock accts wl)
    (pre := []) (fun _ h => by cases h) List.Pairwise.nil
  simpa [sameKey] using this

/-- **only the four most recent completed weeks.**  Every entry an operation logs — in any state —
    is a payment to the operation's claimer, of a positive amount, for a week `w` with
    `current_week − 4 ≤ w < current_week` at the time of payment, and the claimer has a stored claim
    progress that is not after `w`. -/
theorem staking_log_window (s : St) (op : Op) (e : Entry) (h : e ∈ stepLog s op) :
    claimerOf s op = some e.user ∧ s.week ≤ e.week + 4 ∧ e.week < s.week ∧ 0 < e.amount ∧
    ∃ p, s.w.progress e.user = some p ∧ p.week ≤ e.week := by
  obtain ⟨h1, h2, h3, h4⟩ := stepLog_window h
  exact ⟨h1, h2, h3, stepLog_pos h, h4⟩

/-- operations without a boosted claim log nothing, and no operation moves the boosted ledger `paid`
    except through its log: after ANY history `paid w` (Σ boosted rewards paid out of week `w`'s
    pool) is exactly the sum of the logged amounts for week `w` -/
theorem staking_log_complete (epoch block dsc maxApr minUnbond perBlock : Nat) (accts wl : List Nat)
    (ops : List Op) (w : Nat) :
    (run (init epoch block dsc maxApr minUnbond perBlock accts wl) ops).b.paid w =
      logSum (paidLog (init epoch block dsc maxApr minUnbond perBlock accts wl) ops) w := by
  have := paidLog_sum_from ops (init epoch block dsc maxApr minUnbond perBlock accts wl) w
  rw [this]
  show 0 + _ = _
  rw [Nat.zero_add]

/-- the same from ANY state: along a history `paid w` grows by exactly the logged amounts for `w` -/
theorem staking_log_complete_from (s : St) (ops : List Op) (w : Nat) :
    (run s ops).b.paid w = s.b.paid w + logSum (paidLog s ops) w :=
  paidLog_sum_from ops s w

/-- **the sum paid for a week never exceeds R**: Σ of the log for week `w` plus what is still
    distributable for `w` is at most the week's frozen pool `collected w` (everything that was
    moved from the week's accumulated boosted share into its pool) -/
theorem staking_log_le_pool (epoch block dsc maxApr minUnbond perBlock : Nat) (accts wl : List Nat)
    (ops : List Op) (w : Nat) :
    logSum (paidLog (init epoch block dsc maxApr minUnbond perBlock accts wl) ops) w +
        (run (init epoch block dsc maxApr minUnbond perBlock accts wl) ops).b.remaining w ≤
      (run (init epoch block dsc maxApr minUnbond perBlock accts wl) ops).b.collected w := by
  rw [← staking_log_complete]
  have h : PoolOK (run (init epoch block dsc maxApr minUnbond perBlock accts wl) ops).b :=
    run_pool ops PoolOK.init
  have := h w
  omega

/-- **every logged amount is the boosted formula** (per operation, ANY state `s`).  An entry
    `(u, w, amount)` logged by `op` in `s` satisfies
    `amount = min ⌊maxF·R·f/F⌋ ⌊(⌊R·cE·eU/E⌋ + ⌊R·cF·f/F⌋)/(cE+cF)⌋` where
      * `fa = (maxF, cE, cF, minE, minF)` are the factors in force for week `w` (the stored
        configuration updated to the current week, read at `w`),
      * `R` is the frozen pool of week `w` (`totalRewardsForWeek(w)`) after the operation,
      * `f = userTotalFarmPosition(u)` BEFORE the operation,
      * `F = farmSupplyForWeek(w)`, `E = totalEnergyForWeek(w)` as stored before the operation,
      * `eU` is `u`'s stored claim-progress energy decayed to week `w`;
    and `E ≠ 0`, `F ≠ 0`, `R ≠ 0`, `minE ≤ eU`, `minF ≤ f`: nothing is logged (= nothing is paid,
    by `staking_log_complete`) below the configured minimum energy or minimum position. -/
theorem staking_log_amount_step (s : St) (op : Op) (e : Entry) (h : e ∈ stepLog s op) :
    ∃ fa, facOf s.b.cfg s.week e.week = some fa ∧
      e.amount = boostedAmount fa (rOf ((next s op).w.totalRewards e.week)) (s.userTotal e.user)
        (s.b.farmSupply e.week) (eForP s.w.progress e.user e.week) (s.w.totalEnergy e.week) ∧
      s.w.totalEnergy e.week ≠ 0 ∧ s.b.farmSupply e.week ≠ 0 ∧
      fa.minE ≤ eForP s.w.progress e.user e.week ∧ fa.minF ≤ s.userTotal e.user ∧
      rOf ((next s op).w.totalRewards e.week) ≠ 0 :=
  stepLog_amount h

/-- **the frozen pool is the ghost pool**, in every history from a freshly deployed staking farm:
    for every week `w`, `totalRewardsForWeek(w)` is empty or is the single entry `(0, collected w)`
    — the `R` the reward hook reads is exactly what was moved from the week's accumulated boosted
    share into its pool (`collected w`, the bound of `staking_log_le_pool`) -/
theorem staking_pool_frozen (epoch block dsc maxApr minUnbond perBlock : Nat) (accts wl : List Nat)
    (ops : List Op) (w : Nat) :
    let s := run (init epoch block dsc maxApr minUnbond perBlock accts wl) ops
    s.w.totalRewards w = [] ∨ s.w.totalRewards w = [(0, s.b.collected w)] := by
  intro s
  have hF : Frozen s := run_frozen ops (Frozen.init epoch block dsc maxApr minUnbond perBlock accts wl)
  rcases hF w with ⟨e, _⟩ | e
  · exact Or.inl e
  · exact Or.inr e

/-- **every logged amount is the boosted formula** (history level).  For every history from a
    freshly deployed staking farm and every entry `e` of its paid log there is the operation `op`
    that produced it, executed in the state `s` reached by the operations before it, whose claimer
    is `e.user`, and `e.amount = min ⌊maxF·R·f/F⌋ ⌊(⌊R·cE·eU/E⌋ + ⌊R·cF·f/F⌋)/(cE+cF)⌋` with
    the factors in force for `e.week` in `s`, `R = collected e.week` the week's pool right after
    `op` (non-zero), `f` the user's total position in `s` (BEFORE `op`), `F` / `E` the week's
    recorded farm supply / total energy in `s` (non-zero), `eU` the user's stored progress energy in
    `s` decayed to `e.week`; and the user reaches the minimum energy and the minimum position. -/
theorem staking_log_amount (epoch block dsc maxApr minUnbond perBlock : Nat) (accts wl : List Nat)
    (ops : List Op) (e : Entry)
    (h : e ∈ paidLog (init epoch block dsc maxApr minUnbond perBlock accts wl) ops) :
    ∃ ops1 op ops2, ops = ops1 ++ op :: ops2 ∧
      ∃ s, s = run (init epoch block dsc maxApr minUnbond perBlock accts wl) ops1 ∧
      claimerOf s op = some e.user ∧
      ∃ fa, facOf s.b.cfg s.week e.week = some fa ∧
        e.amount = boostedAmount fa ((next s op).b.collected e.week) (s.userTotal e.user)
          (s.b.farmSupply e.week) (eForP s.w.progress e.user e.week) (s.w.totalEnergy e.week) ∧
        (next s op).b.collected e.week ≠ 0 ∧
        s.w.totalEnergy e.week ≠ 0 ∧ s.b.farmSupply e.week ≠ 0 ∧
        fa.minE ≤ eForP s.w.progress e.user e.week ∧ fa.minF ≤ s.userTotal e.user := by
  obtain ⟨ops1, op, ops2, hops, he⟩ := paidLog_entries ops _ e h
  have hF : Frozen (run (init epoch block dsc maxApr minUnbond perBlock accts wl) ops1) :=
    run_frozen ops1 (Frozen.init epoch block dsc maxApr minUnbond perBlock accts wl)
  obtain ⟨fa, h1, h2, h3, h4, h5, h6, h7⟩ := stepLog_amount_collected hF he
  exact ⟨ops1, op, ops2, hops, _, rfl, (stepLog_window he).1, fa, h1, h2, h7, h3, h4, h5, h6⟩

/-- **the exact per-operation characterisation of the boosted ledger**, for every successful
    operation (any arguments, any state) and EVERY week `w`:
      * if the operation has a claimer `u` and `w` is in `u`'s claim window (`u` has a stored
        progress not after `w`, `current − 4 ≤ w < current`), `paid w` grows by exactly
        `payOf …` = 0 when the week has no total energy or no recorded farm supply, when there is
        no boosted configuration, or when `u` is below the minimum energy or minimum position of
        the week's factors — and the boosted formula otherwise (`dueOf`);
      * in every other case `paid w` does not move. -/
theorem staking_paid_exact {s s' : St} {op : Op} {o : Out} (h : step s op = some (s', o)) (w : Nat) :
    (∀ u, claimerOf s op = some u → InWindow (s.w.progress u) s.week w →
      s'.b.paid w = s.b.paid w +
        payOf (facOf s.b.cfg s.week w) (rOf (s'.w.totalRewards w)) (s.userTotal u)
          (s.b.farmSupply w) (eForP s.w.progress u w) (s.w.totalEnergy w)) ∧
    ((∀ u, claimerOf s op = some u → ¬ InWindow (s.w.progress u) s.week w) →
      s'.b.paid w = s.b.paid w) :=
  step_paid_exact h w

/-- zero below the minima, at the level of the operation: a claimer whose stored energy for the week
    is below the week's minimum energy, or whose total position is below the minimum position, is
    paid nothing for that week by ANY operation -/
theorem staking_zero_below_minimum {s s' : St} {op : Op} {o : Out} (h : step s op = some (s', o))
    {u w : Nat} (hu : claimerOf s op = some u) {fa : Factors}
    (hfa : facOf s.b.cfg s.week w = some fa)
    (hmin : eForP s.w.progress u w < fa.minE ∨ s.userTotal u < fa.minF) :
    s'.b.paid w = s.b.paid w := by
  by_cases hin : InWindow (s.w.progress u) s.week w
  · rw [(step_paid_exact h w).1 u hu hin]
    simp [dueOf, payOf, hfa, hmin]
  · refine (step_paid_exact h w).2 fun u' hu' => ?_
    rw [hu] at hu'
    cases hu'
    exact hin

/-! ### non-vacuity -/

/-- the example history of `Props/C11StakingOnce.lean`: two users with energy stake in week 1 (pool
    12500); in week 2 user 1's `claim` pays 6250 = half the pool for week 1; the same user's next
    `claimBoosted` succeeds and logs nothing -/
def exPre : List Op :=
  [.topUp 100000000, .setBoostedPct 2500, .setFactors ⟨10, 3, 2, 1, 1⟩, .setEnergy 1 10000 100,
   .setEnergy 2 10000 100, .stake 1 none 100000000000 [], .stake 2 none 100000000000 [],
   .advance 10 0, .claimBoosted 1 none, .advance 1 7]

def exClaim : Op := .claim 1 none (1, 100000000000)

def exOps : List Op := exPre ++ [exClaim, .claimBoosted 1 none]

local notation "exInit" => init 5 10 1000000000000 1000000 5 5000 [1, 2, 101] [101]

set_option maxRecDepth 8000 in
theorem ex_state : (run exInit exOps).b.paid 1 = 6250 ∧ (run exInit exOps).b.collected 1 = 12500 := by
  decide

set_option maxRecDepth 8000 in
theorem ex_step : (run exInit exPre).b.paid 1 = 0 ∧ (next (run exInit exPre) exClaim).b.paid 1 = 6250 ∧
    (run exInit exPre).week = 2 ∧ (run exInit exPre).userTotal 1 = 100000000000 ∧
    (run exInit exPre).b.farmSupply 1 = 200000000000 ∧
    facOf (run exInit exPre).b.cfg 2 1 = some ⟨10, 3, 2, 1, 1⟩ ∧
    (next (run exInit exPre) exClaim).w.totalRewards 1 = [(0, 12500)] ∧
    (next (run exInit exPre) exClaim).b.collected 1 = 12500 ∧
    dueOf (run exInit exPre) 1 1 12500 = 6250 := by
  decide

/-- the log of this history holds exactly 6250 for week 1 (of a pool of 12500) — one positive entry
    exists, and by `staking_log_once` user 1's second claim did not add another one for
    (user 1, week 1) -/
example : logSum (paidLog exInit exOps) 1 = 6250 ∧
    (∃ e ∈ paidLog exInit exOps, e.week = 1 ∧ 0 < e.amount) ∧
    logSum (paidLog exInit exOps) 1 ≤ (run exInit exOps).b.collected 1 := by
  have h0 : (run exInit exOps).b.paid 1 = logSum (paidLog exInit exOps) 1 :=
    staking_log_complete 5 10 1000000000000 1000000 5 5000 [1, 2, 101] [101] exOps 1
  have h : logSum (paidLog exInit exOps) 1 = 6250 := h0.symm.trans ex_state.1
  refine ⟨h, exists_of_logSum_pos (by rw [h]; decide), ?_⟩
  rw [h, ex_state.2]
  decide

/-- the hypotheses of `staking_log_amount_step` are met: user 1's `claim` in week 2 logs an entry
    for week 1 whose amount 6250 is the boosted formula on the factors (10, 3, 2, 1, 1), the frozen
    pool 12500 (= the ghost `collected 1`, as `staking_pool_frozen` says), the position 10¹¹ of a
    farm supply of 2·10¹¹ -/
example : (∃ e ∈ stepLog (run exInit exPre) exClaim, e.user = 1 ∧ e.week = 1 ∧ e.amount = 6250 ∧
    e.amount = boostedAmount ⟨10, 3, 2, 1, 1⟩ 12500 100000000000 200000000000
      (eForP (run exInit exPre).w.progress 1 1) ((run exInit exPre).w.totalEnergy 1)) ∧
    rOf ((next (run exInit exPre) exClaim).w.totalRewards 1) =
      (next (run exInit exPre) exClaim).b.collected 1 := by
  obtain ⟨hp0, hp1, hwk, hut, hfs, hfac, htr, hcol, _⟩ := ex_step
  refine ⟨?_, by rw [htr, hcol]; rfl⟩
  have hsum := stepLog_sum (run exInit exPre) exClaim 1
  rw [hp0, hp1] at hsum
  obtain ⟨e, he, hw, _⟩ := exists_of_logSum_pos (l := stepLog (run exInit exPre) exClaim) (w := 1)
    (by omega)
  obtain ⟨hcu, _⟩ := stepLog_window he
  have hu : e.user = 1 := by
    have : claimerOf (run exInit exPre) exClaim = some 1 := rfl
    rw [this] at hcu
    exact (Option.some.inj hcu).symm
  obtain ⟨fa, h1, h2, _⟩ := staking_log_amount_step _ _ e he
  rw [hw, hwk, hfac] at h1
  cases h1
  rw [hw, hu, htr, hut, hfs] at h2
  -- the entry's amount is also the growth of `paid 1`
  obtain ⟨u', r, _, hs, hm⟩ := stepLog_cases he
  obtain ⟨_, _, _, hamt⟩ := mem_entriesOf hm
  rw [hw, ← next_of_some hs, hp0, hp1] at hamt
  exact ⟨e, he, hu, hw, hamt, h2⟩

end Mx.C11StakingAmounts
