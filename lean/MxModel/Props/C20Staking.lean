/-
  C20 (farm-staking clause) — quotes equal execution: `calculateRewardsForGivenPosition` versus
  `claimRewards`.

  In any state, what the reward view returns for a position (amount + attributes) is exactly what
  `claimRewards` pays for that position in that same state to its recorded original owner: the base
  reward at the index after settling plus the owner's pending boosted rewards (repo commit da24d8b;
  before it the view passed the zero address and omitted the boosted part — finding F3).  The view
  is only callable as a VM query and its settlement is discarded.

  Model: Core/Staking.lean (`calcRewards`, `claimCore`).  Only property theorems live here.
-/
import MxModel.Lemmas.StakingFactors

namespace Mx.C20Staking
open Mx.Staking

/-- whatever `claimRewards` delivers is what the view promised: same state, the position's own
    attributes, claimed for its recorded owner -/
theorem quote_eq_exec {s s' st : St} {c : Nat} {p : Pay} {first : Attrs} {q : Nat} {o : Out}
    (hf : posOf s.md p.1 = some first)
    (hq : calcRewards s true p.2 first = some (st, q))
    (hx : claimCore s c first.owner [p] none = some (s', o)) : o.c = q := by
  obtain ⟨p', first', tok, r, merged, hp, hf', ht, hr, ho, _⟩ := claimCore_reward hx
  simp only [List.head?_cons, Option.some.injEq] at hp
  subst hp
  rw [hf] at hf'
  simp only [Option.some.injEq] at hf'
  subst hf'
  simp only [calcRewards, Option.bind_eq_bind, Option.bind_eq_some_iff, req_eq_some,
    Option.pure_def, Option.some.injEq, Prod.mk.injEq] at hq
  obtain ⟨_, _, ⟨s1, c1⟩, hg, r', hr', _, rfl⟩ := hq
  obtain ⟨_, _, rfl, rfl⟩ := generate_spec hg
  simp only [genSt_userTotal] at hr' hr
  rw [hr] at hr'
  simp only [Option.some.injEq] at hr'
  subst hr'
  rw [ho]
  have e := (intoPart_spec ht).1
  -- the new index and constant of the claim are those the view computed with
  have hrps : s'.rps = (genCache s s.cache).rps ∧ s'.dsc = s.dsc := by
    simp only [claimCore, Option.bind_eq_bind, Option.bind_eq_some_iff] at hx
    obtain ⟨m, hm, hx⟩ := hx
    obtain ⟨_, _, _, _, _, _, _, _, _, _, _, _, _, e1, e2⟩ := claimBase_reward hm
    simp only [claimFinish, Option.bind_eq_bind, Option.bind_eq_some_iff, req_eq_some,
      sub?_eq_some, Option.pure_def, Option.some.injEq, Prod.mk.injEq] at hx
    obtain ⟨res1, _, sup1, _, ut2, _, _, _, w2, _, bal1, _, rfl, _⟩ := hx
    simp only [e1, e2, genSt_dsc]
    exact ⟨trivial, trivial⟩
  rw [hrps.1, hrps.2, e]
  rfl

/-- an execution never succeeds where its quote refuses: if the claim goes through, the view
    (asked as a query, with the position's attributes) returns a value -/
theorem exec_implies_quote {s s' : St} {c : Nat} {p : Pay} {first : Attrs} {o : Out}
    (hf : posOf s.md p.1 = some first)
    (hx : claimCore s c first.owner [p] none = some (s', o)) :
    ∃ st q, calcRewards s true p.2 first = some (st, q) := by
  obtain ⟨p', first', tok, r, merged, hp, hf', ht, hr, _⟩ := claimCore_reward hx
  simp only [List.head?_cons, Option.some.injEq] at hp
  subst hp
  rw [hf] at hf'
  simp only [Option.some.injEq] at hf'
  subst hf'
  have hi : s.accumulated ≤ s.capacity ∧ genCut s (genTot s) ≤ genTot s := by
    simp only [claimCore, Option.bind_eq_bind, Option.bind_eq_some_iff] at hx
    obtain ⟨m, hm, _⟩ := hx
    obtain ⟨h1, h2, _⟩ := claimBase_spec hm
    exact ⟨h1, h2⟩
  have hg : generate s s.cache = some (genSt s, genCache s s.cache) := by
    have e1 : req (s.accumulated ≤ s.capacity) = some () := req_true hi.1
    have e2 : req (genCut s (genTot s) ≤ genTot s) = some () := req_true hi.2
    simp only [generate, e1, e2, Option.bind_eq_bind, Option.bind_some, Option.pure_def]
    rfl
  simp only [genSt_userTotal] at hr
  refine ⟨(({ genSt s with w := r.1, b := r.2.1 } : St).flush (genCache s s.cache)),
    baseReward (genCache s s.cache) s.dsc p.2 first + r.2.2, ?_⟩
  simp only [calcRewards, Option.bind_eq_bind, hg, Option.bind_some, genSt_userTotal, hr,
    Option.pure_def]
  rw [req_true trivial]
  rfl

/-- the view is only callable by the contract itself (a VM query): any other caller fails -/
theorem reward_view_query_only (s : St) (amt : Nat) (t : Attrs) : calcRewards s false amt t = none := by
  simp [calcRewards, req]

/-- quoting never changes state: the query's settlement is discarded -/
theorem view_pure {s s' : St} {q : Bool} {amt : Nat} {t : Attrs} {o : Out}
    (h : step s (.calc q amt t) = some (s', o)) : s' = s := by
  simp only [step, stepCore, Option.bind_eq_bind, Option.bind_eq_some_iff, Option.map_eq_some_iff,
    Prod.mk.injEq] at h
  obtain ⟨_, _, _, _, rfl, _⟩ := h
  rfl

/-- non-vacuity (the F3 regression history): with a boosted week pending the view promises
    base 41250 + boosted 12500 and the claim pays exactly that -/
example :
    let s := run (init 5 10 1000000000000 1000000 5 5000 [1, 2, 101] [101])
      [.topUp 100000000, .setBoostedPct 2500, .setFactors ⟨10, 3, 2, 1, 1⟩, .setEnergy 1 10000 100,
       .stake 1 none 100000000000 [], .advance 10 0, .claimBoosted 1 none, .advance 1 7]
    (calcRewards s true 100000000000 ⟨0, 0, 100000000000, 1⟩).map (·.2) = some 53750 ∧
    (claimCore s 1 1 [(1, 100000000000)] none).map (·.2.c) = some 53750 := by
  decide

end Mx.C20Staking
