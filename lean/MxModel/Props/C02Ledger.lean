/-
  C02 measured in WALLET BALANCES (per-account ledger, Core/PairLedger.lean) — "no sequence of
  swaps returns more than was put in", audit session 4 item 9.

  `walletA l` / `walletB l` = the first / second pool token in the hands of ALL accounts, plain
  or as LOCKED tokens (the `acct=` columns `a + lkA`, `b + lkB`, compared with the real ESDT
  balances after every transaction of the correspondence run).

  A trading history of the ledger = calls by ANY accounts of ANY non-liquidity operation (both
  swap endpoints, `swapNoFeeAndForward`, every configuration change, both clocks), plain
  transfers of pool / LP tokens between accounts, and failed transactions; no faucet (it
  creates tokens) and no add / remove / buy-back (see `C02Mixed.no_profit_needs_constant_liquidity`
  for why those must be excluded).
-/
import MxModel.Lemmas.PairLedgerTrade
import MxModel.Props.C02Mixed

namespace Mx.C02Ledger
open Mx.Pair Mx.PairLedger

/-- **Wallet form, quantitative.**  After any ledger history `before` (anything: liquidity by
    anyone, faucet, transfers) let a trading history `after` happen.  With `(ΔA, ΔB)` the change
    of what all accounts together hold of the two pool tokens (plain + LOCKED) and `(r₁, r₂)` the
    reserves at the start of `after`: `ΔA ≤ r₁`, `ΔB ≤ r₂`, `(r₁ − ΔA)(r₂ − ΔB) ≥ r₁·r₂`, and the
    LP supply is unchanged. -/
theorem wallets_flow_bound (total special : Nat) (adder : Option Nat) (cap : Nat)
    (funds : List (Nat × Nat)) (before after : List LOp)
    (hall : ∀ op ∈ after, isTradeL op = true) :
    let l := runL (initL total special adder cap funds) before
    let l' := runL l after
    let dA : Int := (walletA l' : Int) - walletA l
    let dB : Int := (walletB l' : Int) - walletB l
    l'.p.S = l.p.S ∧ 0 ≤ (l.p.r1 : Int) - dA ∧ 0 ≤ (l.p.r2 : Int) - dB ∧
    (l.p.r1 : Int) * l.p.r2 ≤ ((l.p.r1 : Int) - dA) * ((l.p.r2 : Int) - dB) := by
  intro l l' dA dB
  obtain ⟨eS, f1, f2⟩ := runL_trade after hall l
  obtain ⟨pops, hp⟩ : ∃ pops, l.p = run (init total special adder cap) pops := ⟨_, runL_p before _⟩
  obtain ⟨hi, he, _⟩ := Mx.C02Mixed.reachable_facts total special adder cap pops
  rw [← hp] at hi he
  have hk : l.p.r1 * l.p.r2 ≤ l'.p.r1 * l'.p.r2 := by
    show _ ≤ (runL l after).p.r1 * (runL l after).p.r2
    rw [runL_p after l]
    exact Mx.C02Mixed.trade_run_k hi he _ (pairOps_trade after hall l)
  obtain ⟨b1, b2, hprod⟩ := flow_product _ _ _ _ dA dB f1 f2 hk
  exact ⟨eS, b1, b2, hprod⟩

/-- **Wallet form: no sequence of swaps returns more than was put in.**  Over any trading
    history after any ledger history, the accounts TOGETHER cannot end up holding at least as
    much of both pool tokens (plain + LOCKED) and strictly more of one: whatever one account
    gains another account or the same account paid, the rest went to the reserves and the fee
    sinks.  In particular a single account trading alone (the others idle) cannot profit from any
    sequence of its own swaps, at any fee settings, with any admin changes in between. -/
theorem wallets_no_profit (total special : Nat) (adder : Option Nat) (cap : Nat)
    (funds : List (Nat × Nat)) (before after : List LOp)
    (hall : ∀ op ∈ after, isTradeL op = true) :
    let l := runL (initL total special adder cap funds) before
    let l' := runL l after
    ¬ (walletA l ≤ walletA l' ∧ walletB l ≤ walletB l' ∧
       walletA l + walletB l < walletA l' + walletB l') := by
  intro l l'
  obtain ⟨_, b1, b2, hprod⟩ := wallets_flow_bound total special adder cap funds before after hall
  obtain ⟨pops, hp⟩ : ∃ pops, l.p = run (init total special adder cap) pops := ⟨_, runL_p before _⟩
  obtain ⟨hi, he, _⟩ := Mx.C02Mixed.reachable_facts total special adder cap pops
  rw [← hp] at hi he
  have hr : (0 < l.p.r1 ∧ 0 < l.p.r2) ∨ (l.p.r1 = 0 ∧ l.p.r2 = 0) := by
    rcases Nat.eq_zero_or_pos l.p.S with h0 | hpos
    · exact Or.inr (he h0)
    · exact Or.inl ⟨(hi.pos hpos).1, (hi.pos hpos).2.1⟩
  have := flow_no_profit l.p.r1 l.p.r2 _ _ hr b1 b2 hprod
  intro ⟨g1, g2, g3⟩
  apply this
  simp only [l, l'] at g1 g2 g3
  refine ⟨?_, ?_, ?_⟩ <;> omega

/-- non-vacuity: three accounts; after liquidity by account 0, accounts 1 and 2 trade against
    each other's price moves with a fee change, a LOCKED output, a transfer of pool tokens between
    them and a rejected call in between; together they lose first token and gain second, never
    both. -/
example :
    let l := runL (initL 300 50 none 8 [(5000000, 5000000), (3000000, 3000000), (100000, 100000)])
      [.call 0 (.cfg (.setState .active)), .call 0 (.addLiq 1000000 2000000 1 1)]
    let after : List LOp :=
      [.call 1 (.swapIn .ab 100000 1), .call 0 (.cfg (.setFee 1000 100)), .call 0 (.advance 4),
       .call 0 (.lock true (.setSc .simpleLock)), .call 0 (.lock true (.setDeadline 2)),
       .call 0 (.lock true (.setUnlock 7)), .call 2 (.swapOut .ba 90000 4000),
       .xfer 1 2 .b 50000, .call 2 (.swapIn .ba 120000 1), .call 2 (.swapIn .ab 10 99999999),
       .call 0 (.epoch 3), .call 1 (.swapOut .ab 300000 50000)]
    let l' := runL l after
    (∀ op ∈ after, isTradeL op = true) ∧
    walletA l' < walletA l ∧ walletB l < walletB l' ∧ 0 < sumOf (·.lkA) l'.accts ∧
    (l.p.r1 : Int) * l.p.r2 <
      ((l.p.r1 : Int) - ((walletA l' : Int) - walletA l)) * ((l.p.r2 : Int) - ((walletB l' : Int) - walletB l)) := by
  decide

end Mx.C02Ledger
