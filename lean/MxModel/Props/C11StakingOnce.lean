/-
  C11 (farm-staking side), history level — "… it is paid at most once.  The sum paid for a week never
  exceeds R, and whatever is left after the four-week claim window can be collected exactly once as
  undistributed rewards."

  Props/C11Staking.lean has the per-call facts (formula, pool bound, what one
  `collectUndistributedBoostedRewards` does).  This file closes the history-level gap
  (notes/audit-session3.md item 6) WITHOUT any new ghost field:

  (A) paid at most once: a pool debit (`b.paid w` changes) happens only inside the boosted claim of
      ONE user (`claimerOf`), only for weeks in that user's claim window
      `progress.week ≤ w < current ≤ w + 4`, and moves the user's progress past `w`; progress only
      moves forward; hence along ANY history at most one operation debits week `w` for user `u`.
  (B) collected at most once: only `collectUndistributed` moves the marker `lastCollectWeek` or the
      undistributed total; the marker never decreases; a collected week is ≥ 5 weeks old, outside
      every later claim window, so its pool stays empty and its `paid` frozen for ever; the marker
      crosses each week at most once, taking at most `collected − paid` of it.
  (C) the boosted claim inside stake / claim-with-new-value / unstake is computed from the position
      recorded BEFORE the operation.

  Model: Core/Staking.lean.  Helpers: Lemmas/StakingOnce.lean.  Only property theorems live here.
-/
import MxModel.Lemmas.StakingOnce

namespace Mx.C11StakingOnce
open Mx.Staking
open Mx.Weekly (upd)

/-! ## (A) paid at most once -/

/-- gating of a payment, for EVERY operation and all arguments: if a successful transaction changes
    what was paid for week `w`, then it ran the boosted claim of exactly one user `u`
    (`claimerOf`), `u` had a stored claim progress `p` that had not passed `w`, `w` is a completed
    week among the last four, `paid(w)` grew, and afterwards `u`'s progress is cleared or stands at
    the current week — i.e. beyond `w` -/
theorem paid_gate {s s' : St} {op : Op} {o : Out} (h : step s op = some (s', o)) {w : Nat}
    (hne : s'.b.paid w ≠ s.b.paid w) :
    ∃ u p, claimerOf s op = some u ∧ s.w.progress u = some p ∧ p.week ≤ w ∧ w < s.week ∧
      s.week ≤ w + 4 ∧ s.b.paid w < s'.b.paid w ∧ s'.week = s.week ∧
      (s'.w.progress u = none ∨ ∃ p', s'.w.progress u = some p' ∧ p'.week = s.week) :=
  (step_fx h).paid_gate hne

/-- the same for the distributable rest of a week's pool: apart from the undistributed collection,
    `remaining(w)`, `paid(w)` and the frozen pool `collected(w)` are only written for weeks in the
    claimer's window -/
theorem pool_gate {s s' : St} {op : Op} {o : Out} (h : step s op = some (s', o))
    (hop : op ≠ .collectUndistributed) {w : Nat}
    (hne : s'.b.paid w ≠ s.b.paid w ∨ s'.b.remaining w ≠ s.b.remaining w ∨
      s'.b.collected w ≠ s.b.collected w) :
    ∃ u p, claimerOf s op = some u ∧ s.w.progress u = some p ∧ p.week ≤ w ∧ w < s.week ∧
      s.week ≤ w + 4 := by
  cases step_fx h with
  | claim u hc hx =>
    by_cases hin : InWindow (s.w.progress u) s.week w
    · obtain ⟨p, hp, h1, h2, h3⟩ := hin
      exact ⟨u, p, hc, hp, h1, h2, h3⟩
    · obtain ⟨e1, e2, e3⟩ := hx.pools w hin
      rcases hne with h' | h' | h'
      · exact absurd e1 h'
      · exact absurd e2 h'
      · exact absurd e3 h'
  | collect hop' _ => exact absurd hop' hop
  | quiet _ hx =>
    rcases hne with h' | h' | h'
    · exact absurd (congrFun hx.paid w) h'
    · exact absurd (congrFun hx.rem w) h'
    · exact absurd (congrFun hx.coll w) h'

/-- claim progress only moves forward, for every operation and every user: a successful
    transaction leaves a user's stored progress alone, clears it, or sets it to the current week;
    and the current week never decreases -/
theorem progress_forward {s s' : St} {op : Op} {o : Out} (h : step s op = some (s', o)) (v : Nat) :
    (s'.w.progress v = s.w.progress v ∨ s'.w.progress v = none ∨
      ∃ p, s'.w.progress v = some p ∧ p.week = s.week) ∧ s.week ≤ s'.week :=
  ⟨(step_fx h).progress v, (step_fx h).week_le⟩

/-- **paid at most once** (general form): from ANY state and along ANY history, at most one
    operation debits the pool of week `w` through a boosted claim of user `u` -/
theorem paid_once_from (s : St) (ops : List Op) (u w : Nat) : debits s ops u w ≤ 1 :=
  debits_le_one u w ops s

/-- **paid at most once**: for every deployment, every history, every user and every week, the
    boosted reward of that user for that week is paid (the week's pool is debited by a claim of
    that user) at most once -/
theorem paid_once (epoch block dsc maxApr minUnbond perBlock : Nat) (accts wl : List Nat)
    (ops : List Op) (u w : Nat) :
    debits (init epoch block dsc maxApr minUnbond perBlock accts wl) ops u w ≤ 1 :=
  debits_le_one u w ops _

/-- once an operation has run `u`'s boosted claim in week `W`, NO later operation of any history
    pays `u` anything for a week before `W` -/
theorem claimed_weeks_closed {s s1 : St} {op : Op} {o : Out} (h : step s op = some (s1, o)) {u : Nat}
    (hu : claimerOf s op = some u) (ops : List Op) {w : Nat} (hw : w < s.week) :
    debits s1 ops u w = 0 :=
  closed_debits ops ((step_fx h).claimer_closes hu hw)

/-- two successive successful boosted claims of the same user: the second pays nothing for the
    weeks the first covered (every week before the week of the first claim) -/
theorem second_claim_pays_nothing {s s1 s2 : St} {op1 op2 : Op} {o1 o2 : Out} {u : Nat}
    (h1 : step s op1 = some (s1, o1)) (hu1 : claimerOf s op1 = some u)
    (h2 : step s1 op2 = some (s2, o2)) (hu2 : claimerOf s1 op2 = some u) {w : Nat} (hw : w < s.week) :
    s2.b.paid w = s1.b.paid w := by
  have hcl : Closed s1 u w := (step_fx h1).claimer_closes hu1 hw
  by_contra hne
  obtain ⟨u', p, hc, hp, hle, _⟩ := paid_gate h2 hne
  rw [hu2] at hc
  cases hc
  have := hcl.2 p hp
  omega

set_option maxRecDepth 8000 in
/-- non-vacuity of (A): two users with energy stake in week 1 (pool 12500); in week 2 user 1's
    `claim` is THE operation that debits week 1 for user 1 (6250 = half the pool); the same user's
    next `claimBoosted` succeeds but pays nothing more — one debit of (user 1, week 1) in the whole
    history, none for user 2 who never claimed -/
example :
    let s0 := init 5 10 1000000000000 1000000 5 5000 [1, 2, 101] [101]
    let pre : List Op :=
      [.topUp 100000000, .setBoostedPct 2500, .setFactors ⟨10, 3, 2, 1, 1⟩, .setEnergy 1 10000 100,
       .setEnergy 2 10000 100, .stake 1 none 100000000000 [], .stake 2 none 100000000000 [],
       .advance 10 0, .claimBoosted 1 none, .advance 1 7]
    let ops := pre ++ [.claim 1 none (1, 100000000000), .claimBoosted 1 none]
    let s := run s0 pre
    let s1 := run s0 (pre ++ [.claim 1 none (1, 100000000000)])
    let s2 := run s0 ops
    debits s0 ops 1 1 = 1 ∧ debits s0 ops 2 1 = 0 ∧
    (step s (.claim 1 none (1, 100000000000))).isSome = true ∧
    claimerOf s (.claim 1 none (1, 100000000000)) = some 1 ∧
    s.b.paid 1 = 0 ∧ s1.b.paid 1 = 6250 ∧ s.week = 2 ∧
    (s.w.progress 1).map (·.week) = some 1 ∧ (s1.w.progress 1).map (·.week) = some 2 ∧
    (step s1 (.claimBoosted 1 none)).isSome = true ∧ s2.b.paid 1 = 6250 ∧ s2.paidBoosted = 6250 := by
  decide

/-! ## (B) collected at most once -/

/-- the collection marker and the undistributed total under EVERY operation: the marker never
    decreases; only `collectUndistributed` moves it or changes the undistributed total; when it
    moves from `L` to `L'` the total grows by exactly `Σ_{L < k ≤ L'} remaining(k)`, those weeks are
    at least five weeks old and their `remaining` becomes 0, no other week's `remaining` changes,
    and `paid` / `collected` are untouched -/
theorem marker_step {s s' : St} {op : Op} {o : Out} (h : step s op = some (s', o)) :
    s.lastCollectWeek ≤ s'.lastCollectWeek ∧
    (op ≠ .collectUndistributed →
      s'.lastCollectWeek = s.lastCollectWeek ∧ s'.undistributed = s.undistributed) ∧
    s'.undistributed = s.undistributed +
      ((List.range (s'.lastCollectWeek - s.lastCollectWeek)).map
        fun i => s.b.remaining (s.lastCollectWeek + 1 + i)).sum ∧
    (∀ k, s.lastCollectWeek < k → k ≤ s'.lastCollectWeek → s'.b.remaining k = 0 ∧ k + 5 ≤ s.week) ∧
    (op = .collectUndistributed → ∀ k, ¬(s.lastCollectWeek < k ∧ k ≤ s'.lastCollectWeek) →
      s'.b.remaining k = s.b.remaining k) ∧
    (op = .collectUndistributed → s'.b.paid = s.b.paid ∧ s'.b.collected = s.b.collected) :=
  (step_fx h).marker

/-- in every reachable state: the marker is 0 (nothing collected yet) or at least five weeks behind
    the current week, and the pool of every collected week is empty -/
theorem collected_inv (epoch block dsc maxApr minUnbond perBlock : Nat) (accts wl : List Nat)
    (ops : List Op) :
    let s := run (init epoch block dsc maxApr minUnbond perBlock accts wl) ops
    (s.lastCollectWeek = 0 ∨ s.lastCollectWeek + 5 ≤ s.week) ∧
    ∀ w, 1 ≤ w → w ≤ s.lastCollectWeek → s.b.remaining w = 0 := by
  intro s
  have h : CollInv s := run_collInv ops (collInv_init epoch block dsc maxApr minUnbond perBlock accts wl)
  exact ⟨h.marker, h.zero⟩

/-- a collected week is closed for good: in every reachable state `s`, for a week `w` at or below
    the marker, EVERY continuation of the history leaves `paid(w)` and the frozen pool as they are
    and `remaining(w)` at 0 — nothing is paid for `w` after its leftover was collected, and nothing
    is left to collect a second time -/
theorem collected_week_frozen (epoch block dsc maxApr minUnbond perBlock : Nat) (accts wl : List Nat)
    (ops more : List Op) (w : Nat) :
    let s := run (init epoch block dsc maxApr minUnbond perBlock accts wl) ops
    1 ≤ w → w ≤ s.lastCollectWeek →
    (run s more).b.paid w = s.b.paid w ∧ (run s more).b.remaining w = 0 ∧
      (run s more).b.collected w = s.b.collected w ∧ w ≤ (run s more).lastCollectWeek := by
  intro s h1 h2
  exact run_collected_frozen h1 more
    (run_collInv ops (collInv_init epoch block dsc maxApr minUnbond perBlock accts wl)) h2

/-- **collected at most once**: for every deployment and every history, the collection marker
    crosses a given week (that week's leftover is moved to the undistributed total) at most once -/
theorem collected_once (epoch block dsc maxApr minUnbond perBlock : Nat) (accts wl : List Nat)
    (ops : List Op) (w : Nat) :
    crossings (init epoch block dsc maxApr minUnbond perBlock accts wl) ops w ≤ 1 :=
  crossings_le_one w ops _

/-- general form: from ANY state -/
theorem collected_once_from (s : St) (ops : List Op) (w : Nat) : crossings s ops w ≤ 1 :=
  crossings_le_one w ops s

/-- what is taken for a week when it is collected, in every reachable state: for each week `k` the
    marker crosses, the amount moved to the undistributed total is `remaining(k)`, which is at most
    the week's pool minus everything paid for it (`collected(k) − paid(k)`), and `k` is outside the
    four-week claim window -/
theorem collected_amount_bound (epoch block dsc maxApr minUnbond perBlock : Nat) (accts wl : List Nat)
    (ops : List Op) (op : Op) (s' : St) (o : Out) :
    let s := run (init epoch block dsc maxApr minUnbond perBlock accts wl) ops
    step s op = some (s', o) →
    s'.undistributed = s.undistributed +
      ((List.range (s'.lastCollectWeek - s.lastCollectWeek)).map
        fun i => s.b.remaining (s.lastCollectWeek + 1 + i)).sum ∧
    ∀ k, s.lastCollectWeek < k → k ≤ s'.lastCollectWeek →
      s.b.remaining k ≤ s.b.collected k - s.b.paid k ∧ s'.b.remaining k = 0 ∧ k + 5 ≤ s.week := by
  intro s h
  have hp : PoolOK s.b := run_pool ops (by
    show PoolOK (init epoch block dsc maxApr minUnbond perBlock accts wl).b
    exact PoolOK.init)
  obtain ⟨_, _, h3, h4, _⟩ := marker_step h
  refine ⟨h3, fun k k1 k2 => ?_⟩
  obtain ⟨a1, a2⟩ := h4 k k1 k2
  have := hp k
  exact ⟨by omega, a1, a2⟩

set_option maxRecDepth 8000 in
/-- non-vacuity of (B): the history above continued to week 8; `collectUndistributed` moves the
    marker from 0 to 3 and takes the 6250 that user 2 never claimed for week 1 (= collected − paid);
    a second call changes nothing; user 2's late claim in week 8 gets nothing for the collected
    week: each of the weeks 1..3 is crossed exactly once, week 4 not yet -/
example :
    let s0 := init 5 10 1000000000000 1000000 5 5000 [1, 2, 101] [101]
    let ops : List Op :=
      [.topUp 100000000, .setBoostedPct 2500, .setFactors ⟨10, 3, 2, 1, 1⟩, .setEnergy 1 10000 100,
       .setEnergy 2 10000 100, .stake 1 none 100000000000 [], .stake 2 none 100000000000 [],
       .advance 10 0, .claimBoosted 1 none, .advance 1 7,
       .claim 1 none (1, 100000000000), .claimBoosted 1 none, .advance 1 42, .collectUndistributed,
       .collectUndistributed, .claimBoosted 2 none]
    let s := run s0 ops
    debits s0 ops 1 1 = 1 ∧ debits s0 ops 2 1 = 0 ∧
    crossings s0 ops 1 = 1 ∧ crossings s0 ops 2 = 1 ∧ crossings s0 ops 3 = 1 ∧ crossings s0 ops 4 = 0 ∧
    s.b.collected 1 = 12500 ∧ s.b.paid 1 = 6250 ∧ s.b.remaining 1 = 0 ∧ s.undistributed = 6250 ∧
    s.lastCollectWeek = 3 ∧ s.week = 8 ∧ (s.w.progress 2).map (·.week) = some 8 := by
  decide

/-! ## (C) the boosted claim uses the position recorded before the operation -/

/-- stake (all three endpoints run `stakeCore`): whatever amount is staked, by whichever caller,
    with whichever additional farm tokens, virtually or not — the boosted reward paid out and the
    pools debited are the same: they are computed from `userTotalFarmPosition(orig)` BEFORE the
    stake is added -/
theorem stake_uses_old_position {s s1 s2 : St} {c1 c2 orig a1 a2 : Nat} {v1 v2 : Bool}
    {adds1 adds2 : List Pay} {o1 o2 : Out}
    (h1 : stakeCore s c1 orig a1 v1 adds1 = some (s1, o1))
    (h2 : stakeCore s c2 orig a2 v2 adds2 = some (s2, o2)) :
    o1.c = o2.c ∧ s1.b.paid = s2.b.paid ∧ s1.b.remaining = s2.b.remaining ∧
      s1.paidBoosted = s2.paidBoosted := by
  obtain ⟨r1, hr1, e1, e2, e3, _, e5⟩ := stakeCore_boosted h1
  obtain ⟨r2, hr2, f1, f2, f3, _, f5⟩ := stakeCore_boosted h2
  have : r1 = r2 := Option.some.inj (hr1.symm.trans hr2)
  subst this
  exact ⟨e1.trans f1.symm, e2.trans f2.symm, e3.trans f3.symm, e5.trans f5.symm⟩

/-- the same at transaction level for `stakeFarm`: two different stakes from the same state -/
theorem stake_step_uses_old_position {s s1 s2 : St} {c a1 a2 : Nat} {adds1 adds2 : List Pay}
    {o1 o2 : Out}
    (h1 : step s (.stake c none a1 adds1) = some (s1, o1))
    (h2 : step s (.stake c none a2 adds2) = some (s2, o2)) :
    o1.c = o2.c ∧ s1.b.paid = s2.b.paid ∧ s1.b.remaining = s2.b.remaining ∧
      s1.paidBoosted = s2.paidBoosted := by
  simp only [step, stepCore, stakeFarm, Option.bind_eq_bind, Option.bind_eq_some_iff] at h1 h2
  obtain ⟨_, _, h1⟩ := h1
  obtain ⟨_, _, h2⟩ := h2
  exact stake_uses_old_position h1 h2

/-- claim with a new farming amount (`claimRewardsWithNewValue`) / plain claim: whatever new value
    is installed and whichever position is sent, the boosted amount paid and the pools debited are
    the same — computed from `userTotalFarmPosition(orig)` BEFORE the new value replaces the old -/
theorem claim_uses_old_position {s s1 s2 : St} {c1 c2 orig : Nat} {pays1 pays2 : List Pay}
    {nv1 nv2 : Option Nat} {o1 o2 : Out}
    (h1 : claimCore s c1 orig pays1 nv1 = some (s1, o1))
    (h2 : claimCore s c2 orig pays2 nv2 = some (s2, o2)) :
    s1.b.paid = s2.b.paid ∧ s1.b.remaining = s2.b.remaining ∧ s1.paidBoosted = s2.paidBoosted := by
  obtain ⟨r1, hr1, e2, e3, _, e5⟩ := claimCore_boosted h1
  obtain ⟨r2, hr2, f2, f3, _, f5⟩ := claimCore_boosted h2
  have : r1 = r2 := Option.some.inj (hr1.symm.trans hr2)
  subst this
  exact ⟨e2.trans f2.symm, e3.trans f3.symm, e5.trans f5.symm⟩

/-- unstake: whichever position and amount is unstaked (directly or through the proxy), the
    boosted amount paid and the pools debited are the same — computed from
    `userTotalFarmPosition(orig)` BEFORE the unstaked amount is removed -/
theorem unstake_uses_old_position {s s1 s2 : St} {c1 c2 orig : Nat} {pay1 pay2 : Pay}
    {x1 x2 : Option Nat} {o1 o2 : Out}
    (h1 : unstakeCore s c1 orig pay1 x1 = some (s1, o1))
    (h2 : unstakeCore s c2 orig pay2 x2 = some (s2, o2)) :
    s1.b.paid = s2.b.paid ∧ s1.b.remaining = s2.b.remaining ∧ s1.paidBoosted = s2.paidBoosted := by
  obtain ⟨r1, hr1, e2, e3, _, e5⟩ := unstakeCore_boosted h1
  obtain ⟨r2, hr2, f2, f3, _, f5⟩ := unstakeCore_boosted h2
  have : r1 = r2 := Option.some.inj (hr1.symm.trans hr2)
  subst this
  exact ⟨e2.trans f2.symm, e3.trans f3.symm, e5.trans f5.symm⟩
set_option maxRecDepth 8000 in
/-- non-vacuity of (C): in week 2, with week 1 unclaimed, staking 5 or staking 7000 pays user 1 the
    same boosted 6250 and debits the same pool -/
example :
    let s0 := init 5 10 1000000000000 1000000 5 5000 [1, 2, 101] [101]
    let s := run s0
      [.topUp 100000000, .setBoostedPct 2500, .setFactors ⟨10, 3, 2, 1, 1⟩, .setEnergy 1 10000 100,
       .setEnergy 2 10000 100, .stake 1 none 100000000000 [], .stake 2 none 100000000000 [],
       .advance 10 0, .claimBoosted 1 none, .advance 1 7]
    ∃ s1 o1 s2 o2, step s (.stake 1 none 5 []) = some (s1, o1) ∧
      step s (.stake 1 none 7000 []) = some (s2, o2) ∧ o1.c = 6250 ∧ o2.c = 6250 ∧
      s1.b.paid 1 = 6250 ∧ s2.b.paid 1 = 6250 ∧ s1.supply ≠ s2.supply := by
  refine ⟨_, _, _, _, rfl, rfl, ?_⟩
  decide

end Mx.C11StakingOnce
