/-
  C19 on the EXECUTABLE contract models — only authorised callers configure or act for others;
  paused means no fund moves.

  Statement (properties.jsonl C19): configuration and admin endpoints succeed only for callers holding
  the required role (owner, admin, pauser, whitelisted contract, router for pairs); acting on behalf
  of another user requires a whitelisted contract caller or the user's explicit, non-blacklisted
  authorisation in the permissions hub, and rewards claimed on behalf go to the position owner.
  While a pair, farm, staking or energy contract is paused or inactive no user operation that moves
  funds succeeds, and a partially active pair accepts liquidity but no swaps.

  `Props/C19.lean` proves this about the hand-written access TABLE.  This file proves it about the
  state machines `Mx.Pair.step`, `Mx.Farm.step` (kinds `mint` = dex/farm, `noMint` =
  farm-with-locked-rewards), `Mx.Staking.step`, `Mx.Energy.step`, `Mx.Router.step` — the models the
  correspondence runs tie to the real contracts — for ALL states and ALL arguments.  Per model:
  `…UserFundsOp : Op → Bool` lists the user operations that move funds; `…_paused_blocks_funds` says
  each of them returns `none` while the kill switch is off; the operations that are NOT gated are
  listed, with the reason, in the doc comment of the classification.
  Only property theorems (and the classifications they talk about) live here; helper lemmas are in
  Lemmas/AccessModels{Pair,Farm,Staking,Energy,Router}.lean.
-/
import MxModel.Lemmas.AccessModelsPair
import MxModel.Lemmas.AccessModelsFarm
import MxModel.Lemmas.AccessModelsStaking
import MxModel.Lemmas.AccessModelsEnergy
import MxModel.Lemmas.AccessModelsRouter

namespace Mx.C19Models

/-! ## pair (dex/pair) -/

section pair
open Mx.Pair

/-- the pair's user operations that move funds and that the state check gates.
    NOT in the list (checked against dex/pair/src):
    * `addInitial` — the bootstrap deposit REQUIRES the pair to be Inactive (`initial_liq.rs`:
      `!is_state_active`) and the LP supply to be zero; it is the one call that takes a fresh pair out
      of Inactive (to PartialActive).  On a pair that holds liquidity it always fails
      (`pair_bootstrap_only_fresh`), so it cannot be used on a pair the owner paused.
    * `buyback` = `removeLiquidityAndBuyBackAndBurnToken` — `remove_liq.rs` checks the whitelist only,
      no state check: a whitelisted CONTRACT (the fees collector path) removes liquidity from an
      Inactive pair (`pair_buyback_not_gated` exhibits it).  Contract-to-contract, not a user operation.
    * `cfg …`, `lock …` — configuration (router / owner); `advance`, `epoch` — block round / epoch. -/
def pairUserFundsOp : Pair.Op → Bool
  | .addLiq .. | .removeLiq .. | .swapIn .. | .swapOut .. | .swapNoFee .. => true
  | _ => false

/-- the swap operations (user swaps and the whitelisted no-fee swap) -/
def pairSwapOp : Pair.Op → Bool
  | .swapIn .. | .swapOut .. | .swapNoFee .. => true
  | _ => false

/-- **paused pair**: in EVERY state whose status is Inactive, every gated operation — add / remove
    liquidity, both user swaps, the no-fee swap — fails, whatever the arguments -/
theorem pair_paused_blocks_funds (s : Pair.St) (op : Pair.Op) (hp : s.status = .inactive)
    (hf : pairUserFundsOp op = true) : Pair.step s op = none := by
  cases hs : Pair.step s op with
  | none => rfl
  | some r =>
    exfalso
    cases op <;> simp only [pairUserFundsOp] at hf <;> try cases hf
    · have := addLiq_state hs; rw [hp] at this; rcases this with h | h <;> cases h
    · have := removeLiq_state hs; rw [hp] at this; rcases this with h | h <;> cases h
    · have := swapIn_active hs; rw [hp] at this; cases this
    · have := swapOut_active hs; rw [hp] at this; cases this
    · have := (swapNoFee_active hs).1; rw [hp] at this; cases this

/-- **partially active pair, negative side**: in EVERY state that is not Active (so in particular
    PartialActive) every swap — fixed input, fixed output, no-fee — fails -/
theorem pair_partial_blocks_swaps (s : Pair.St) (op : Pair.Op) (hp : s.status ≠ .active)
    (hf : pairSwapOp op = true) : Pair.step s op = none := by
  cases hs : Pair.step s op with
  | none => rfl
  | some r =>
    exfalso
    cases op <;> simp only [pairSwapOp] at hf <;> try cases hf
    · exact hp (swapIn_active hs)
    · exact hp (swapOut_active hs)
    · exact hp (swapNoFee_active hs).1

/-- **partially active pair, positive side (the guard)**: the state check of `addLiquidity` /
    `removeLiquidity` is exactly "not Inactive" — a successful call implies Active or PartialActive,
    and nothing more about the state flag is required (`pair_partial_accepts_liquidity` shows both
    succeeding in a reachable PartialActive state) -/
theorem pair_liquidity_guard (s : Pair.St) (op : Pair.Op) (r : Pair.St × Pair.Out)
    (hop : (∃ a1 a2 m1 m2, op = .addLiq a1 a2 m1 m2) ∨ (∃ lp m1 m2, op = .removeLiq lp m1 m2))
    (h : Pair.step s op = some r) : s.status ≠ .inactive := by
  rcases hop with ⟨a1, a2, m1, m2, rfl⟩ | ⟨lp, m1, m2, rfl⟩
  · have := addLiq_state h
    intro hi; rw [hi] at this; rcases this with h | h <;> cases h
  · have := removeLiq_state h
    intro hi; rw [hi] at this; rcases this with h | h <;> cases h

/-- positive side, witnessed: after the bootstrap deposit a fresh pair is PartialActive (reachable
    from `init` by user operations only); there `addLiquidity` and `removeLiquidity` succeed and
    every swap fails — also for a whitelisted contract -/
example :
    let s := Pair.run (Pair.init 300 50 none 8) [.addInitial 1 1000000 2000000, .cfg (.whitelist 7)]
    s.status = .partialActive ∧
    (Pair.step s (.addLiq 5000 10000 1 1)).isSome = true ∧
    (Pair.step s (.removeLiq 5000 1 1)).isSome = true ∧
    Pair.step s (.swapIn .ab 1000 1) = none ∧ Pair.step s (.swapOut .ba 90000 500) = none ∧
    Pair.step s (.swapNoFee 7 .ab 1000) = none ∧
    -- the very same calls succeed once the pair is Active
    (Pair.step (Pair.run s [.cfg (.setState .active)]) (.swapIn .ab 1000 1)).isSome = true ∧
    (Pair.step (Pair.run s [.cfg (.setState .active)]) (.swapNoFee 7 .ab 1000)).isSome = true := by
  decide

/-- the bootstrap deposit works only on an Inactive pair without liquidity, and only for the
    configured initial-liquidity adder when there is one (role gating of `addInitialLiquidity`) -/
theorem pair_bootstrap_only_fresh (s : Pair.St) (c a1 a2 : Nat) (r : Pair.St × Pair.Out)
    (h : Pair.step s (.addInitial c a1 a2) = some r) :
    s.status = .inactive ∧ s.S = 0 ∧ (s.adder = none ∨ s.adder = some c) :=
  addInitial_state h

/-- `removeLiquidityAndBuyBackAndBurnToken` is deliberately NOT gated by the state (as in
    `remove_liq.rs`): on a paused pair with liquidity a whitelisted contract's call succeeds, while a
    user's `removeLiquidity` of the same LP amount fails -/
theorem pair_buyback_not_gated :
    let s := Pair.run (Pair.init 300 50 none 8)
      [.cfg (.setState .active), .addLiq 1000000 2000000 1 1, .cfg (.whitelist 7),
       .cfg (.setState .inactive)]
    s.status = .inactive ∧ (Pair.step s (.buyback 7 5000 .first)).isSome = true ∧
    Pair.step s (.removeLiq 5000 1 1) = none ∧ Pair.step s (.buyback 8 5000 .first) = none := by
  decide

/-- **role gating on the pair model.**  The contract-only operations succeed only for a caller on
    the pair's whitelist; the locking setters only with owner permissions (`lock owner …`: the
    argument is the outcome of `require_caller_has_owner_permissions`).  The `cfg …` operations of
    the pair model carry no caller (the pair world applies them as the router/owner; their
    authorisation is covered by the access-matrix world and, for pause/resume through the router, by
    `router_admin_needs_owner` below). -/
theorem pair_contract_ops_need_role (s : Pair.St) (op : Pair.Op) (r : Pair.St × Pair.Out)
    (h : Pair.step s op = some r) :
    (∀ c d a, op = .swapNoFee c d a → c ∈ s.wl) ∧
    (∀ c lp w, op = .buyback c lp w → c ∈ s.wl) ∧
    (∀ ow l, op = .lock ow l → ow = true) := by
  refine ⟨?_, ?_, ?_⟩
  · rintro c d a rfl; exact (swapNoFee_active h).2
  · rintro c lp w rfl; exact buyback_wl h
  · rintro ow l rfl
    simp only [Pair.step, Option.map_eq_some_iff] at h
    obtain ⟨s1, h1, _⟩ := h
    exact (lockCfg_spec h1).1

/-- **run-level corollary (pair).**  Take ANY state `s` of a pair that holds liquidity (`S ≠ 0`; every
    pair does after its first deposit, and the supply never returns to 0).  After the owner's `pause`
    (`cfg (setState inactive)`), and after ANY further history `mid` that contains no state-setting call
    (`pause` / `resume` / `setStateActiveNoSwaps`), the pair is still Inactive and every gated operation
    AND the bootstrap deposit fail — so between a pause and the next resume no successful operation is
    a user operation that moves funds -/
theorem pair_no_funds_between_pause_and_resume (s : Pair.St) (mid : List Pair.Op) (op : Pair.Op)
    (hS : s.S ≠ 0) (hmid : ∀ x ∈ mid, isSetState x = false)
    (hf : pairUserFundsOp op = true ∨ ∃ c a1 a2, op = .addInitial c a1 a2) :
    (Pair.run s (.cfg (.setState .inactive) :: mid)).status = .inactive ∧
    Pair.step (Pair.run s (.cfg (.setState .inactive) :: mid)) op = none := by
  have h0 : PausedLiq (Pair.run s [.cfg (.setState .inactive)]) := ⟨rfl, hS⟩
  have hrun : Pair.run s (.cfg (.setState .inactive) :: mid)
      = Pair.run (Pair.run s [.cfg (.setState .inactive)]) mid := rfl
  have hp := run_keeps_paused mid h0 hmid
  rw [hrun]
  refine ⟨hp.1, ?_⟩
  rcases hf with hf | ⟨c, a1, a2, rfl⟩
  · exact pair_paused_blocks_funds _ _ hp.1 hf
  · cases hs : Pair.step (Pair.run (Pair.run s [.cfg (.setState .inactive)]) mid) (.addInitial c a1 a2) with
    | none => rfl
    | some r => exact absurd (addInitial_state hs).2.1 hp.2

/-- non-vacuity: a concrete pool is paused, the whitelisted contract and the clock act in between
    (its buy-back succeeds), and the users' calls fail until the resume -/
example :
    let s := Pair.run (Pair.init 300 50 none 8)
      [.cfg (.setState .active), .addLiq 1000000 2000000 1 1, .cfg (.whitelist 7)]
    let mid : List Pair.Op := [.buyback 7 5000 .first, .advance 3, .swapIn .ab 1000 1, .cfg (.addDest .second)]
    s.S ≠ 0 ∧ mid.all (fun x => isSetState x = false) = true ∧
    (Pair.step s (.swapIn .ab 1000 1)).isSome = true ∧
    Pair.step (Pair.run s (.cfg (.setState .inactive) :: mid)) (.swapIn .ab 1000 1) = none ∧
    (Pair.step (Pair.run s (.cfg (.setState .inactive) :: mid ++ [.cfg (.setState .active)]))
      (.swapIn .ab 1000 1)).isSome = true := by
  decide

end pair

/-! ## farm (dex/farm = kind `mint`, farm-with-locked-rewards = kind `noMint`) -/

section farm
open Mx.Farm

/-- the farm's user operations that move funds (farming tokens in / out, rewards out, position
    tokens burned and re-minted).  All eight are gated by `state == Active`.
    NOT in the list:
    * `transfer` — a plain ESDT transfer of a position token between two accounts; the farm contract
      is not called, nothing can gate it;
    * `setEnergy` (the world's energy-factory mock) and `updateEnergy` (`updateEnergyForUser`: anyone
      may call it, it only refreshes the weekly energy snapshot, no token moves);
    * admin operations `setPerBlock startProduce endProduce setPct setFactors collect pause resume
      setPenalty setMinEpochs` — role-gated instead (`farm_admin_needs_role`);
    * `hubWhitelist hubRemove hubBlacklist scWhitelist scUnwhitelist` — the permissions hub's / the
      sc-whitelist's own state (the harness applies them as the user resp. the owner);
    * `advance`, `bad` (a malformed call, always fails). -/
def farmUserFundsOp : Farm.Op → Bool
  | .enter .. | .enterOB .. | .claim .. | .claimOB .. | .compound .. | .exit .. | .merge ..
  | .claimBoosted .. => true
  | _ => false

/-- **paused farm**: in EVERY state with the kill switch off, every user operation that moves funds —
    enter, enter on behalf, claim, claim on behalf, compound, exit, merge (finding F2, repaired),
    claimBoostedRewards — fails, for every caller (also a whitelisted contract naming an original
    caller) and all arguments; both farm kinds -/
theorem farm_paused_blocks_funds (s : Farm.St) (op : Farm.Op) (hp : s.active = false)
    (hf : farmUserFundsOp op = true) : Farm.step s op = none := by
  cases hs : Farm.step s op with
  | none => rfl
  | some r =>
    exfalso
    obtain ⟨s', o⟩ := r
    have := step_active hs
    cases op <;> simp only [farmUserFundsOp] at hf <;> try cases hf
    all_goals (simp only at this; rw [hp] at this; cases this)

/-- the farm's configuration / admin operations and the caller they name -/
def farmAdminCaller : Farm.Op → Option Nat
  | .setPerBlock c _ | .startProduce c | .endProduce c | .setPct c _ | .setFactors c _ | .collect c
  | .pause c | .resume c | .setPenalty c _ | .setMinEpochs c _ => some c
  | _ => none

/-- **role gating (farm)**: every configuration / admin operation — reward rate, start / end of
    production, boosted percentage and factors, collecting undistributed rewards, pause, resume,
    penalty, minimum farming epochs — succeeds only if its caller holds the admin role the model
    records (`isAdmin`) -/
theorem farm_admin_needs_role (s : Farm.St) (op : Farm.Op) (c : Nat) (r : Farm.St × Farm.Out)
    (hc : farmAdminCaller op = some c) (h : Farm.step s op = some r) : s.isAdmin c = true := by
  obtain ⟨s', o⟩ := r
  cases op <;> simp only [farmAdminCaller, Option.some.injEq, reduceCtorEq] at hc <;> subst hc
  · exact (setPerBlock_admin (noOut_some h)).1
  · exact (startProduce_admin (noOut_some h)).1
  · exact (endProduce_admin (noOut_some h)).1
  · exact (setPct_admin (noOut_some h)).1
  · exact (setFactors_admin (noOut_some h)).1
  · exact (collectUndistributed_admin (noOut_some h)).1
  · exact (setActive_admin (noOut_some h)).1
  · exact (setActive_admin (noOut_some h)).1
  · exact (setPenalty_admin (noOut_some h)).1
  · exact (setMinEpochs_admin (noOut_some h)).1

/-- **acting for another user through the `opt_orig_caller` argument**: enter / claim / compound / exit /
    merge naming an original caller `orig` succeed only if the CALLER is on the farm's contract
    whitelist (`scWhitelistAddresses`) -/
theorem farm_orig_caller_needs_whitelist (s : Farm.St) (op : Farm.Op) (c orig : Nat)
    (r : Farm.St × Farm.Out)
    (hop : (∃ a e, op = .enter c (some orig) a e) ∨ (∃ p, op = .claim c (some orig) p) ∨
           (∃ p, op = .compound c (some orig) p) ∨ (∃ n a, op = .exit c (some orig) n a) ∨
           (∃ p, op = .merge c (some orig) p))
    (h : Farm.step s op = some r) : c ∈ s.scWl := by
  have key : ∀ {o : Nat}, origCaller s c (some orig) = some o → c ∈ s.scWl := by
    intro o ho
    rcases origCaller_spec ho with ⟨h1, _⟩ | ⟨_, h2⟩
    · cases h1
    · exact h2
  rcases hop with ⟨a, e, rfl⟩ | ⟨p, rfl⟩ | ⟨p, rfl⟩ | ⟨n, a, rfl⟩ | ⟨p, rfl⟩
  · obtain ⟨_, h⟩ := known_some h
    obtain ⟨_, ho, _⟩ := enterFarm_spec h
    exact key ho
  · obtain ⟨_, h⟩ := known_some h
    obtain ⟨_, ho, _⟩ := claimRewards_spec h
    exact key ho
  · obtain ⟨_, h⟩ := known_some h
    obtain ⟨_, _, ho, _⟩ := compoundRewards_spec h
    exact key ho
  · obtain ⟨_, h⟩ := known_some h
    obtain ⟨_, _, ho⟩ := exitFarm_needs h
    exact key ho
  · obtain ⟨_, h⟩ := known_some h
    obtain ⟨_, _, ho⟩ := mergeFarmTokens_needs h
    exact key ho

/-- `claimBoostedRewards(user)` for ANOTHER user never succeeds (`allowExternalClaim` has no setter) -/
theorem farm_claim_boosted_only_self (s : Farm.St) (c u : Nat) (r : Farm.St × Farm.Out)
    (h : Farm.step s (.claimBoosted c (some u)) = some r) : u = c := by
  obtain ⟨_, h⟩ := known_some h
  exact (claimBoostedRewards_needs h).2

/-- **`enterFarmOnBehalf(user)`**: success implies that `user` whitelisted the caller in the
    permissions hub and the caller is not blacklisted, that every additional position token paid in
    records `user` as its owner, and that the operation IS `enter_farm` run with `user` as original
    caller (`enterCore … user …`: the boosted reward claimed and paid is `user`'s, the position is
    created with `owner := user`), the caller only supplying the tokens and receiving the position -/
theorem farm_enter_on_behalf (s s' : Farm.St) (c u amt : Nat) (extra : List (Nat × Nat)) (o : Farm.Out)
    (h : Farm.step s (.enterOB c u amt extra) = some (s', o)) :
    (c ∉ s.hubBl ∧ (u, c) ∈ s.hubWl) ∧ allOwnedBy s u extra = true ∧
    enterCore s c u c amt extra = some (s', o) := by
  obtain ⟨_, h⟩ := known_some h
  obtain ⟨h1, h2, h3⟩ := enterFarmOnBehalf_spec h
  exact ⟨(hubAllows_iff s u c).mp h1, h2, h3⟩

/-- **`claimRewardsOnBehalf`**: success implies there is ONE account `u` recorded as original owner by
    every position token paid in, `u` whitelisted the caller in the permissions hub, the caller is not
    blacklisted, and the operation IS `claim_rewards` run for `u` (`claimCore … u …`: base reward of
    the position + the boosted reward of `u`'s own weekly entitlement, paid by `payReward … u`).
    The model has no wallet ledger, so `Out` carries no payee field; what the model does record
    about the payee is proved in `farm_claim_on_behalf_pays_owner`. -/
theorem farm_claim_on_behalf (s s' : Farm.St) (c : Nat) (pays : List (Nat × Nat)) (o : Farm.Out)
    (h : Farm.step s (.claimOB c pays) = some (s', o)) :
    ∃ u, (∀ p ∈ pays, ∃ att, s.attrs p.1 = some att ∧ att.owner = u) ∧ pays ≠ [] ∧
      (c ∉ s.hubBl ∧ (u, c) ∈ s.hubWl) ∧ claimCore s c u pays false = some (s', o) := by
  obtain ⟨_, h⟩ := known_some h
  obtain ⟨u, hu, ha, hc⟩ := claimRewardsOnBehalf_spec h
  obtain ⟨hne, hall⟩ := claimOwner_all pays hu
  exact ⟨u, hall, hne, (hubAllows_iff s u c).mp ha, hc⟩

/-- **rewards claimed on behalf go to the position owner (what the farm model records).**  After a
    successful `claimRewardsOnBehalf` by `c`, with `u` the owner recorded in the payments:
    `Out.rew = Out.base + Out.boosted` where `Out.boosted` is the result of `claimBoostedYields … u`
    (u's weekly entitlement); the new position `Out.nonce` records `u` as original owner (amount
    `Out.amt`); and the payout is `payReward … u …`: NO energy entry other than `u`'s changes — in a
    locked-rewards farm the payout is a virtual lock, so the locked reward's energy is credited to
    `u` and never to the caller.  (`Out` has no payee field and the model no wallet ledger; that the
    wallet that grows is `u`'s is checked on the real contract by the access-matrix oracle
    `on_behalf_rules` / `rew=owner`.) -/
theorem farm_claim_on_behalf_pays_owner (s s' : Farm.St) (c : Nat) (pays : List (Nat × Nat))
    (o : Farm.Out) (h : Farm.step s (.claimOB c pays) = some (s', o)) :
    ∃ u, (∀ p ∈ pays, ∃ att, s.attrs p.1 = some att ∧ att.owner = u) ∧
      (∀ x, x ≠ u → s'.energy x = s.energy x) ∧
      (∃ att, s'.attrs o.nonce = some att ∧ att.owner = u ∧ att.amt = o.amt) ∧
      o.rew = o.base + o.boosted ∧ ∃ s1 s2, claimBoostedYields s1 u = some (s2, o.boosted) := by
  obtain ⟨u, hall, _, _, hc⟩ := farm_claim_on_behalf s s' c pays o h
  obtain ⟨h1, h2, h3, h4⟩ := claimCore_payee hc
  exact ⟨u, hall, h1, h2, h3, h4⟩

/-- non-vacuity (locked-rewards farm): user 1 enters, authorises account 2 and hands it the position;
    2 claims on behalf: reward 10000 > 0, user 1's energy entry changes, account 2's does not, the new
    position records 1 as owner; a blacklisted or un-authorised caller fails -/
example :
    let s := Farm.run (Farm.init .noMint false 1000000000000 1000 true [1, 2, 3] 0)
      [.enter 1 none 100000000 [], .hubWhitelist 1 2, .transfer 1 2 1 100000000, .advance 10 6]
    ((Farm.step s (.claimOB 2 [(1, 100000000)])).map fun r =>
        (r.2.rew, (r.1.attrs r.2.nonce).map (·.owner), (r.1.energy 1).map (·.totalLocked),
         (r.1.energy 2).map (·.totalLocked))) = some (10000, some 1, some 10000, none) ∧
    Farm.step (Farm.run s [.hubBlacklist 2]) (.claimOB 2 [(1, 100000000)]) = none ∧
    Farm.step (Farm.run s [.hubRemove 1 2]) (.claimOB 2 [(1, 100000000)]) = none ∧
    Farm.step (Farm.run s [.transfer 2 3 1 100000000]) (.claimOB 3 [(1, 100000000)]) = none := by
  decide

/-- **run-level corollary (farm).**  From ANY state, after an admin's `pause` and ANY further history
    `mid` that contains no `resume` (successful or not, by anybody), the farm is still paused and every
    user operation that moves funds fails — between a pause and the next resume no successful
    operation is a user operation that moves funds -/
theorem farm_no_funds_between_pause_and_resume (s : Farm.St) (c : Nat) (mid : List Farm.Op)
    (op : Farm.Op) (hadm : s.isAdmin c = true) (hmid : ∀ x ∈ mid, isResume x = false)
    (hf : farmUserFundsOp op = true) :
    (Farm.run s (.pause c :: mid)).active = false ∧
    Farm.step (Farm.run s (.pause c :: mid)) op = none := by
  have hstep : Farm.step s (.pause c) = some ({ s with active := false }, {}) := by
    simp [Farm.step, noOut, setActive, req, hadm]
  have hrun : Farm.run s (.pause c :: mid) = Farm.run { s with active := false } mid := by
    simp only [Farm.run, List.foldl_cons, hstep]
  have hp := run_keeps_inactive mid (s := { s with active := false }) rfl hmid
  rw [hrun]
  exact ⟨hp, farm_paused_blocks_funds _ _ hp hf⟩

/-- … and the `resume` that ends the interval needs the admin role as well: while paused, a `resume`
    by a non-admin fails, so a user cannot end the pause -/
theorem farm_resume_needs_admin (s : Farm.St) (c : Nat) (hc : s.isAdmin c = false) :
    Farm.step s (.resume c) = none := by
  cases hs : Farm.step s (.resume c) with
  | none => rfl
  | some r =>
    have := farm_admin_needs_role s (.resume c) c r rfl hs
    rw [hc] at this; cases this

/-- non-vacuity (both kinds): a farm with a staked position and a pending reward is paused by the
    owner; hub, clock and admin operations happen in between; a user's `resume`, and claim,
    exit, enter and merge of the position holder fail until the owner resumes, then succeed -/
example :
    ∀ k ∈ [Kind.mint, Kind.noMint],
    let s := Farm.run (Farm.init k false 1000000000000 1000 true [1, 2] 0)
      [.enter 1 none 100000000 [], .advance 10 6]
    let mid : List Farm.Op := [.hubWhitelist 1 2, .advance 20 7, .setPerBlock OWNER 500]
    s.isAdmin OWNER = true ∧ mid.all (fun x => !isResume x) = true ∧
    (Farm.step s (.claim 1 none [(1, 100000000)])).isSome = true ∧
    Farm.step (Farm.run s (.pause OWNER :: mid)) (.claim 1 none [(1, 100000000)]) = none ∧
    Farm.step (Farm.run s (.pause OWNER :: mid)) (.exit 1 none 1 100000000) = none ∧
    Farm.step (Farm.run s (.pause OWNER :: mid)) (.enter 1 none 5 []) = none ∧
    Farm.step (Farm.run s (.pause OWNER :: mid)) (.resume 2) = none ∧
    (Farm.step (Farm.run s (.pause OWNER :: mid ++ [.resume OWNER])) (.exit 1 none 1 100000000)).isSome = true := by
  decide

end farm

/-! ## farm-staking -/

section staking
open Mx.Staking

/-- the staking farm's user operations that move funds; all twelve are gated by `state == Active`
    (the proxy variants `stakeProxy claimNew unstakeProxy` and `unbond` included).
    NOT in the list:
    * `calc` — the reward view (`calculateRewardsForGivenPosition`), read-only;
    * `transfer` — a plain ESDT transfer of position tokens, the contract is not called;
    * `setEnergy` (energy-factory mock), `updateEnergy` (`updateEnergyForUser`, moves no tokens);
    * `topUp`, `withdraw` — ADMIN operations (`topUpRewards` / `withdrawRewards` have no state check in
      custom_rewards.rs: the admin can fund and de-fund a paused farm; notes/access.md "Readings");
    * the setters `setMaxApr setPerBlock startProduce endProduce setMinUnbond setBoostedPct setFactors
      collectUndistributed pause resume` — admin operations; in THIS model they carry no caller
      (the staking world applies them as the owner), so their role gating is not stated here: it is
      covered by the access-matrix world (`C19.admin_needs_role`) and, for the shared farm modules,
      by `farm_admin_needs_role`;
    * `hubWhitelist hubRemove` (the permissions hub's own state), `advance`. -/
def stakingUserFundsOp : Staking.Op → Bool
  | .stake .. | .stakeProxy .. | .stakeBehalf .. | .claim .. | .claimNew .. | .claimBehalf ..
  | .compound .. | .unstake .. | .unstakeProxy .. | .unbond .. | .merge .. | .claimBoosted .. => true
  | _ => false

/-- what a successful fund-moving step of the staking farm implies -/
theorem staking_funds_need_active (s : Staking.St) (op : Staking.Op) (r : Staking.St × Staking.Out)
    (hf : stakingUserFundsOp op = true) (h : Staking.step s op = some r) : s.active = true := by
  obtain ⟨_, h⟩ := step_some h
  cases op <;> simp only [stakingUserFundsOp] at hf <;> try cases hf
  · rcases stakeFarm_spec h with ⟨_, h⟩ | ⟨_, _, _, h⟩ <;> exact stakeCore_needs_active h
  · exact stakeCore_needs_active (stakeProxy_spec h).2
  · exact stakeCore_needs_active (stakeOnBehalf_spec h).2.2
  · rcases claimRewards_spec h with ⟨_, h⟩ | ⟨_, _, _, h⟩ <;> exact claimCore_needs_active h
  · exact claimCore_needs_active (claimNewValue_spec h).2
  · obtain ⟨_, _, _, _, _, h⟩ := claimOnBehalf_spec h
    exact claimCore_needs_active h
  · exact compound_needs_active h
  · rcases unstakeFarm_spec h with ⟨_, h⟩ | ⟨_, _, _, h⟩ <;> exact unstakeCore_needs_active h
  · exact unstakeCore_needs_active (unstakeProxy_spec h).2
  · exact unbondFarm_needs_active h
  · exact mergeTokens_needs_active h
  · exact (claimBoostedRewards_needs h).1

/-- **paused staking farm**: in EVERY state with the kill switch off, every user operation that
    moves funds — stake (plain, through the proxy, on behalf), claim (plain, with new value, on
    behalf), compound, unstake (plain, through the proxy), unbond, merge, claimBoostedRewards —
    fails, for every caller and all arguments -/
theorem staking_paused_blocks_funds (s : Staking.St) (op : Staking.Op) (hp : s.active = false)
    (hf : stakingUserFundsOp op = true) : Staking.step s op = none := by
  cases hs : Staking.step s op with
  | none => rfl
  | some r =>
    have := staking_funds_need_active s op r hf hs
    rw [hp] at this; cases this

/-- **contract-only / original-caller rules (staking)**: the proxy endpoints
    (`stakeFarmThroughProxy`, `claimRewardsWithNewValue`, `unstakeFarmThroughProxy`) and every call
    that names an original caller succeed only for a caller on the contract whitelist -/
theorem staking_contract_ops_need_whitelist (s : Staking.St) (op : Staking.Op) (c : Nat)
    (r : Staking.St × Staking.Out)
    (hop : (∃ o a ads, op = .stakeProxy c o a ads) ∨ (∃ o nv p, op = .claimNew c o nv p) ∨
           (∃ o x p, op = .unstakeProxy c o x p) ∨ (∃ o a ads, op = .stake c (some o) a ads) ∨
           (∃ o p, op = .claim c (some o) p) ∨ (∃ o p, op = .unstake c (some o) p))
    (h : Staking.step s op = some r) : c ∈ s.whitelist := by
  obtain ⟨_, h⟩ := step_some h
  rcases hop with ⟨o, a, ads, rfl⟩ | ⟨o, nv, p, rfl⟩ | ⟨o, x, p, rfl⟩ | ⟨o, a, ads, rfl⟩ |
    ⟨o, p, rfl⟩ | ⟨o, p, rfl⟩
  · exact (stakeProxy_spec h).1
  · exact (claimNewValue_spec h).1
  · exact (unstakeProxy_spec h).1
  · have h' : stakeFarm s c (some o) a ads = some r := h
    rcases stakeFarm_spec h' with ⟨h0, _⟩ | ⟨_, _, hw, _⟩
    · cases h0
    · exact hw
  · have h' : claimRewards s c (some o) p = some r := h
    rcases claimRewards_spec h' with ⟨h0, _⟩ | ⟨_, _, hw, _⟩
    · cases h0
    · exact hw
  · have h' : unstakeFarm s c (some o) p = some r := h
    rcases unstakeFarm_spec h' with ⟨h0, _⟩ | ⟨_, _, hw, _⟩
    · cases h0
    · exact hw

/-- **`stakeFarmOnBehalf(user)`**: success implies `user` authorised the caller in the permissions
    hub (the staking world's hub has no blacklist: `s.hub` holds exactly the pairs for which the hub
    answers `isWhitelisted`), every additional position token records `user` as owner, and the
    operation IS `stake` run for `user` (owner of the new position, boosted reward `o.c` of `user`'s
    weekly entitlement) -/
theorem staking_stake_on_behalf (s : Staking.St) (c u amt : Nat) (adds : List Staking.Pay)
    (r : Staking.St × Staking.Out) (h : Staking.step s (.stakeBehalf c u amt adds) = some r) :
    (u, c) ∈ s.hub ∧ (∀ p ∈ adds, ∃ a, posOf s.md p.1 = some a ∧ a.owner = u) ∧
    stakeCore s c u amt false adds = some r := by
  obtain ⟨_, h⟩ := step_some h
  obtain ⟨h1, h2, h3⟩ := stakeOnBehalf_spec h
  exact ⟨h1, allOwnedBy_all adds h2, h3⟩

/-- **`claimRewardsOnBehalf`, rewards to the owner**: success implies there is ONE non-zero account
    `u` recorded as owner by every position token paid in, `u` authorised the caller in the hub, and
    the claim is computed for `u`: the reward reported in `Out.c` is `base + boosted` where `boosted`
    is the result of `claimBoostedYields … u` (u's weekly entitlement, u's energy — not the
    caller's), the new position `Out.a` records `u` as owner and is handed to the caller.  (The
    model keeps no wallet ledger, so `Out` has no payee field; the harness oracle `payout_recipient`
    checks on the real contract that the wallet that moves by `Out.c` is `u`'s.) -/
theorem staking_claim_on_behalf (s s' : Staking.St) (c : Nat) (pays : List Staking.Pay)
    (o : Staking.Out) (h : Staking.step s (.claimBehalf c pays) = some (s', o)) :
    ∃ u, u ≠ 0 ∧ pays ≠ [] ∧ (∀ p ∈ pays, ∃ a, posOf s.md p.1 = some a ∧ a.owner = u) ∧
      (u, c) ∈ s.hub ∧
      ∃ m : ClaimMid, claimBase s c u pays = some m ∧
        claimBoostedYields m.s1 u (m.s1.userTotal u) = some (m.w1, m.b1, m.boosted) ∧
        o.c = m.base + m.boosted ∧ m.merged.owner = u ∧
        s'.md o.a = some (.pos m.merged) ∧ s'.hold c o.a = m.merged.amount := by
  obtain ⟨_, h⟩ := step_some h
  obtain ⟨u, h1, h2, h3, h4, h5⟩ := claimOnBehalf_spec h
  exact ⟨u, h1, h2, h3, h4, claimCore_payee h5⟩

/-- non-vacuity: user 1 stakes, authorises account 2, hands it the position; 2 claims on behalf
    (reward 1000 reported, new position owned by 1, held by 2); an unauthorised account 3 fails;
    after `pause` the authorised claim fails as well -/
example :
    let s := Staking.run (Staking.init 0 0 10000000000000000000 2500 10 100 [1, 2, 3, 101] [101])
      [.topUp 1000000, .stake 1 none 1000000000000 [], .hubWhitelist 1 2, .transfer 1 2 (1, 1000000000000),
       .advance 10 0]
    ((Staking.step s (.claimBehalf 2 [(1, 1000000000000)])).map fun r =>
        (r.2.c, posOf r.1.md r.2.a |>.map (·.owner), r.1.hold 2 r.2.a)) = some (1000, some 1, 1000000000000) ∧
    (Staking.step (Staking.run s [.transfer 2 3 (1, 1000000000000)]) (.claimBehalf 3 [(1, 1000000000000)])) = none ∧
    (Staking.step (Staking.run s [.pause]) (.claimBehalf 2 [(1, 1000000000000)])) = none ∧
    (Staking.step (Staking.run s [.pause]) (.unstake 2 none (1, 1000000000000))) = none ∧
    (Staking.step (Staking.run s [.pause, .resume]) (.claimBehalf 2 [(1, 1000000000000)])).isSome = true := by
  decide

end staking

/-! ## energy factory (with token-unstake, lkmex-transfer, locked-token wrapper) -/

section energy
open Mx.Energy

/-- the operations of the energy world that need the energy FACTORY unpaused: every factory endpoint
    that moves tokens or energy (`lock`, `extend`, `unlock`, `merge`, `unlockEarly`, `reduce`,
    `lockVirtual`) and every endpoint of the satellite contracts that calls back into the factory
    (`cancel` = token-unstake `cancelUnbond` → `revertUnstake`; `lockFunds`, `withdraw`,
    `cancelTransfer` = lkmex-transfer → `setUserEnergyAfterLockedTokenTransfer`; `wrap`, `unwrap`).
    NOT in the list:
    * `claim` = token-unstake `claimUnlockedTokens` — token-unstake has no kill switch and this
      endpoint does not call the factory (it pays out base tokens already minted at `unlockEarly`);
    * `xferWrapped` — a plain ESDT transfer of wrapped tokens, no contract is called;
    * `cfg …` — configuration (owner); `advance`. -/
def energyUserFundsOp : Energy.Op → Bool
  | .lock .. | .extend .. | .unlock .. | .merge .. | .unlockEarly .. | .reduce .. | .lockVirtual ..
  | .cancel .. | .lockFunds .. | .withdraw .. | .cancelTransfer .. | .wrap .. | .unwrap .. => true
  | _ => false

/-- **paused energy factory**: in EVERY state with `paused = true`, every operation of the list fails,
    for every caller and all arguments -/
theorem energy_paused_blocks_funds (s : Energy.St) (op : Energy.Op) (hp : s.paused = true)
    (hf : energyUserFundsOp op = true) : Energy.step s op = none := by
  cases hs : Energy.step s op with
  | none => rfl
  | some r =>
    exfalso
    have key : s.paused = false → False := fun h => by rw [hp] at h; cases h
    cases op <;> simp only [energyUserFundsOp] at hf <;> try cases hf
    · exact key (lockTokens_unpaused hs)
    · exact key (extendLock_unpaused hs)
    · exact key (unlockTokens_unpaused hs)
    · exact key (mergeTokens_unpaused hs).1
    · exact key (unlockEarly_unpaused hs)
    · exact key (reduceLock_unpaused hs)
    · exact key (lockVirtual_unpaused hs).1
    · exact key (cancelUnbond_unpaused hs)
    · exact key (lockFunds_unpaused hs)
    · exact key (withdraw_unpaused hs)
    · exact key (cancelTransfer_unpaused hs)
    · exact key (wrap_unpaused hs)
    · exact key (unwrap_unpaused hs)

/-- **whitelisted-contract rules (energy factory)**: `lockVirtual` succeeds only for a caller on the
    factory's contract whitelist, and `mergeTokens` naming an original caller likewise -/
theorem energy_contract_ops_need_whitelist (s : Energy.St) (r : Energy.St × Energy.Out) :
    (∀ c amt ep d ea, Energy.step s (.lockVirtual c amt ep d ea) = some r → c ∈ s.wl) ∧
    (∀ c orig ps, orig ≠ 0 → Energy.step s (.merge c orig ps) = some r → c ∈ s.wl) := by
  refine ⟨fun c amt ep d ea h => (lockVirtual_unpaused h).2, fun c orig ps ho h => ?_⟩
  rcases (mergeTokens_unpaused h).2 with h0 | hw
  · exact absurd h0 ho
  · exact hw

/-- non-vacuity: a user locks, the owner pauses the factory: extending, unlocking early, wrapping and
    a whitelisted contract's `lockVirtual` fail; after un-pausing they succeed -/
example :
    let s := Energy.run (Energy.init ⟨100, [(360, 4000), (720, 6000), (1440, 8000)], 10, 5000, 2, 3, 3, 1000000⟩)
      [.cfg (.whitelist 300), .lock 1 1000 360 0]
    let p := Energy.run s [.cfg (.pause true)]
    p.paused = true ∧
    (Energy.step s (.unlockEarly 1 1 100)).isSome = true ∧ Energy.step p (.unlockEarly 1 1 100) = none ∧
    (Energy.step s (.wrap 1 1 100)).isSome = true ∧ Energy.step p (.wrap 1 1 100) = none ∧
    (Energy.step s (.lockVirtual 300 50 360 2 2)).isSome = true ∧
    Energy.step p (.lockVirtual 300 50 360 2 2) = none ∧ Energy.step s (.lockVirtual 301 50 360 2 2) = none ∧
    (Energy.step (Energy.run p [.cfg (.pause false)]) (.unlockEarly 1 1 100)).isSome = true := by
  decide

end energy

/-! ## router (with the pairs it deployed and the users' direct calls to them) -/

section router
open Mx.Router

/-- the router's configuration / admin operations and the caller they name.  (`createPair` is open
    to everybody once the owner enabled pair creation — `router_create_pair_role` — and
    `setSwapEnabledByUser` is the bootstrap operation reserved to the pair's initial liquidity adder,
    `C14.enable_by_user_requires`.) -/
def routerAdminCaller : Router.Op → Option Router.Addr
  | .removePair c _ _ | .setCreation c _ | .setTemplate c | .pause c _ | .resume c _ | .setFeeOn c _ _
  | .setFeeOff c _ _ _ | .configEnable c _ _ _ _ | .addCommon c _ | .removeCommon c _
  | .setTmpPeriod c _ | .clearTmp c | .upgradePair c _ _ => some c
  | _ => none

/-- **role gating (router)**: removing a pair, enabling pair creation, setting the template,
    pausing / resuming a pair or the router itself, switching a pair's fee destinations, and the
    three enable-by-user configuration calls, and — `setTemporaryOwnerPeriod`,
    `clearPairTemporaryOwnerStorage`, `upgradePair` — succeed only for the router's owner -/
theorem router_admin_needs_owner (s : Router.St) (op : Router.Op) (c : Router.Addr)
    (r : Router.St × Router.Out) (hc : routerAdminCaller op = some c)
    (h : Router.step s op = some r) : c = s.owner := by
  obtain ⟨s', o⟩ := r
  cases op <;> simp only [routerAdminCaller, Option.some.injEq, reduceCtorEq] at hc <;> subst hc
  · exact (removePair_spec h).1
  · exact (setCreation_frame h).1
  · exact (setTemplate_frame h).1
  · exact (setState_spec h).1
  · exact (setState_spec h).1
  · exact (setFeeOn_spec h).1
  · exact (setFeeOff_spec h).1
  · exact (configEnable_spec h).1
  · exact (addCommon_spec h).1
  · exact (removeCommon_spec h).1
  · exact (setTmpPeriod_spec h).1
  · exact (clearTmp_spec h).1
  · exact (upgradePair_spec h).1

/-- `createPair` succeeds only for the owner unless the owner enabled public pair creation -/
theorem router_create_pair_role (s : Router.St) (c : Router.Addr) (t1 t2 : Router.Tok)
    (ad : Router.Addr) (f : Option (Nat × Nat)) (r : Router.St × Router.Out)
    (h : Router.step s (.createPair c t1 t2 ad f) = some r) :
    c = s.owner ∨ s.creationEnabled = true := by
  obtain ⟨s', o⟩ := r
  obtain ⟨_, _, h2, _⟩ := createPair_spec h
  exact h2

/-- **paused router**: while the router itself is paused, its user operations — the multi-hop swap,
    `setSwapEnabledByUser`, `createPair` — fail for everybody -/
theorem router_paused_blocks (s : Router.St) (hp : s.active = false) :
    (∀ c tok amt hops, Router.step s (.multi c tok amt hops) = none) ∧
    (∀ c a k amt, Router.step s (.enableByUser c a k amt) = none) ∧
    (∀ c t1 t2 ad f, Router.step s (.createPair c t1 t2 ad f) = none) := by
  have key : s.active = true → False := fun h => by rw [hp] at h; cases h
  refine ⟨fun c tok amt hops => ?_, fun c a k amt => ?_, fun c t1 t2 ad f => ?_⟩
  · cases hs : Router.step s (.multi c tok amt hops) with
    | none => rfl
    | some r =>
      obtain ⟨s', o⟩ := r
      obtain ⟨_, h1, _⟩ := multiPairSwap_spec hs
      exact (key h1).elim
  · cases hs : Router.step s (.enableByUser c a k amt) with
    | none => rfl
    | some r =>
      obtain ⟨s', o⟩ := r
      exact (key (enableByUser_spec hs).2.2.1).elim
  · cases hs : Router.step s (.createPair c t1 t2 ad f) with
    | none => rfl
    | some r =>
      obtain ⟨s', o⟩ := r
      obtain ⟨_, h1, _⟩ := createPair_spec hs
      exact (key h1).elim

/-- a user's direct fund-moving call addressed to pair `a` -/
def routerPairFundsOp (a : Router.Addr) : Router.Op → Bool
  | .addInitial _ x .. | .addLiq _ x .. | .removeLiq _ x .. | .swapIn _ x .. | .swapOut _ x .. => x == a
  | _ => false

/-- **paused pair in the composed world**: if pair contract `a` is Inactive and holds liquidity
    (`Paused` = what the owner's `pause a` leaves), every user's add / remove liquidity, swap and
    bootstrap deposit addressed to `a` fails -/
theorem router_paused_pair_blocks_funds (s : Router.St) (a : Router.Addr) (op : Router.Op)
    (hpa : Paused s.pairs a) (hf : routerPairFundsOp a op = true) : Router.step s op = none := by
  obtain ⟨p, hp, hst, hS⟩ := hpa
  cases hs : Router.step s op with
  | none => rfl
  | some r =>
    exfalso
    cases op <;> simp only [routerPairFundsOp, beq_iff_eq, reduceCtorEq] at hf <;> try cases hf
    · obtain ⟨q, hq, _, h0, _⟩ := addInitial_pair hs
      rw [hp] at hq; cases hq; exact hS h0
    · obtain ⟨q, hq, h1⟩ := addLiq_pair hs
      rw [hp] at hq; cases hq; rw [hst] at h1; rcases h1 with h | h <;> cases h
    · obtain ⟨q, hq, h1⟩ := removeLiq_pair hs
      rw [hp] at hq; cases hq; rw [hst] at h1; rcases h1 with h | h <;> cases h
    · obtain ⟨q, hq, h1⟩ := swapIn_pair hs
      rw [hp] at hq; cases hq; rw [hst] at h1; cases h1
    · obtain ⟨q, hq, h1⟩ := swapOut_pair hs
      rw [hp] at hq; cases hq; rw [hst] at h1; cases h1

/-- **run-level corollary (router world, with real callers).**  In every history from a fresh
    deployment: once a registered pair `a` is paused (Inactive, with liquidity), then after ANY
    continuation `more` — any operations by any callers, `setSwapEnabledByUser` and other callers'
    `resume` attempts included — that does not contain the OWNER's `resume a`, every user's
    fund-moving call addressed to `a` still fails: between the owner's pause and the owner's resume no
    successful operation is a user operation that moves funds of that pair -/
theorem router_no_funds_between_pause_and_resume (owner self : Router.Addr) (template : Bool)
    (foreign : List PairRec) (funds : Router.Addr → Nat → Nat) (ops more : List Router.Op)
    (a : Router.Addr) (op : Router.Op)
    (hreg : a ∈ (Router.run (Router.init owner self template foreign funds) ops).pairMap.map Prod.snd)
    (hpa : Paused (Router.run (Router.init owner self template foreign funds) ops).pairs a)
    (hno : Router.Op.resume owner a ∉ more) (hf : routerPairFundsOp a op = true) :
    Router.step (Router.run (Router.run (Router.init owner self template foreign funds) ops) more) op
      = none := by
  have hi := run_inv ops (inv_init owner self template foreign funds)
  obtain ⟨e, he, rfl⟩ := List.mem_map.mp hreg
  have hp : Paused (Router.run (Router.run (Router.init owner self template foreign funds) ops) more).pairs e.2 := by
    refine run_paused more (hi.lt e he).2 hpa ?_
    rw [run_owner]
    exact hno
  exact router_paused_pair_blocks_funds _ _ _ hp hf

end router

end Mx.C19Models
