/-
  KPdBook — the BOOKKEEPING lines of price-discovery `deposit` and `withdraw`
  (dex/price-discovery/src/lib.rs) as the SOURCE writes them, against `Core/PriceDiscovery.lean`
  (property C17: the pool balances and the redeem-token supply move by exactly the deposited /
  withdrawn amounts, on the side of the token that was paid).

  Generated (`Gen/KPd.lean`):
    * `deposit_bookkeeping`   from `let accepted_token_id = …` to the price check: the `if / else if /
                              else sc_panic!` that picks (redeem nonce, balance mapper) and the
                              `increase_balance` (a helper of the crate, inlined) on the mapper picked
    * `withdraw_bookkeeping`  from the `match payment_nonce` that picks (refund token, balance mapper)
                              to the price check: `burn_redeem_token` (inlined, two levels),
                              the penalty arithmetic, `decrease_balance` on the mapper picked
  A storage mapper chosen by a branch is a NAME for the mapper inside that branch; the places written
  (`accepted_token_balance`, `launched_token_balance`, `totalCirculatingSupply(nonce)`) are returned
  next to the fragment's own result.
-/
import MxModel.Props.KPd

namespace Mx.KPdBook
open Mx Mx.Gen Mx.PD

/-- closed form of the deposit bookkeeping: a payment in the accepted token mints redeem nonce 2
    and adds the amount to `accepted_token_balance` ONLY; a payment in the launched token mints
    nonce 1 and adds it to `launched_token_balance` ONLY; any other token aborts.
    Result (redeem nonce, accepted balance, launched balance).  The two configured token ids are
    distinct (required by `init`). -/
theorem deposit_bookkeeping_eq (balA idA balL idL amt tok : Nat) (hne : idA ≠ idL) :
    KPd.deposit_bookkeeping balA idA balL idL amt tok =
      if tok = idA then some (2, balA + amt, balL)
      else if tok = idL then some (1, balA, balL + amt) else none := by
  -- (`init` requires the two token ids to differ; with equal ids the ORDER of the two tests would matter)
  have hne' : ¬ idL = idA := fun x => hne x.symm
  k_defs [KPd.deposit_bookkeeping] <;>
    (by_cases h1 : tok = idA <;> by_cases h2 : tok = idL <;> simp_all)

/-- token id of a side, given the two configured ids -/
def idOf (idA idL : Nat) : Tok → Nat
  | .accepted => idA
  | .launched => idL

/-- balance of a side after a change of side `t` to `v` -/
def balAfter (s : St) (t u : Tok) (v : Nat) : Nat := if u = t then v else (s.side u).bal

/-- **every deposit the model accepts does the source's bookkeeping**: with distinct token ids, the
    source — run on the model's two pool balances and the id of the deposited side — mints the
    nonce the model reports (`o.v2`) and yields exactly the model's two pool balances afterwards -/
theorem deposit_runs_source_bookkeeping {s s' : St} {c : Nat} {t : Tok} {amt : Nat} {o : Out}
    (idA idL : Nat) (hne : idA ≠ idL) (h : deposit s c t amt = some (s', o)) :
    KPd.deposit_bookkeeping s.A.bal idA s.L.bal idL amt (idOf idA idL t) =
      some (o.v2, s'.A.bal, s'.L.bal) := by
  obtain ⟨_, _, _, _, _, _, _, rfl, rfl⟩ := deposit_spec h
  rw [deposit_bookkeeping_eq _ _ _ _ _ _ hne]
  cases t
  · have : ¬ idL = idA := fun x => hne x.symm
    simp [idOf, this, St.setSide, St.side, depSide, Tok.nonce]
  · simp [idOf, St.setSide, St.side, depSide, Tok.nonce]

/-- closed form of the withdraw bookkeeping for a phase `ph`: redeem nonce 1 refunds the launched
    token and decreases `launched_token_balance` ONLY, nonce 2 the accepted one; the supply of the
    nonce loses the whole paid amount; the refund is `amount − ⌊amount·pct/10^13⌋`; every
    subtraction is checked; any other nonce aborts.
    Result (refund token, refund amount, accepted balance, launched balance, supply of the nonce). -/
theorem withdraw_bookkeeping_eq (ph : Phase) (balA idA balL idL amt nonce sup : Nat) :
    KPd.withdraw_bookkeeping balA idA balL idL amt nonce ph.rank ph.pct sup =
      (sub? sup amt).bind fun sup' =>
      (sub? amt (amt * ph.pct / MAXP)).bind fun wd =>
        if nonce = 1 then (sub? balL wd).map fun b => (idL, wd, balA, b, sup')
        else if nonce = 2 then (sub? balA wd).map fun b => (idA, wd, b, balL, sup')
        else none := by
  have hM : MAXP = 10000000000000 := rfl
  -- (no reliance on the ORDER of the `match` arms: the scrutinee is fixed first)
  by_cases h1 : nonce = 1
  · subst h1
    k_defs [KPd.withdraw_bookkeeping, KPd.get_penalty_percentage_eq, hM]
    k_solve
  · by_cases h2 : nonce = 2
    · subst h2
      k_defs [KPd.withdraw_bookkeeping, KPd.get_penalty_percentage_eq, hM]
      k_solve
    · unfold KPd.withdraw_bookkeeping
      split
      all_goals first
        | (exfalso; omega)
        | (k_defs [h1, h2]; k_solve)

/-- **every withdrawal the model accepts does the source's bookkeeping**: refund token = the side
    handed in, refund amount = the model's `o.v1`, and the two pool balances and the redeem supply
    of that side afterwards are the model's -/
theorem withdraw_runs_source_bookkeeping {s s' : St} {c : Nat} {t : Tok} {amt : Nat} {o : Out}
    (idA idL : Nat) (h : withdraw s c t amt = some (s', o)) :
    KPd.withdraw_bookkeeping s.A.bal idA s.L.bal idL amt t.nonce s.phase.rank s.phase.pct
        (s.side t).sup =
      some (idOf idA idL t, o.v1, s'.A.bal, s'.L.bal, (s'.side t).sup) := by
  obtain ⟨_, pen, _, _, _, hpen, hle, _, hsup, hbal, _, _, _, rfl, rfl⟩ := withdraw_spec h
  rw [withdraw_bookkeeping_eq]
  subst hpen
  cases t <;>
    simp [sub?, hsup, hle, hbal, idOf, St.setSide, St.side, wdSide, Tok.nonce] <;>
    simp_all [St.side]

example : KPd.deposit_bookkeeping 100 7 200 8 50 7 = some (2, 150, 200) := by decide
example : KPd.deposit_bookkeeping 100 7 200 8 50 8 = some (1, 100, 250) := by decide
example : KPd.deposit_bookkeeping 100 7 200 8 50 9 = none := by decide
-- linear-penalty phase (index 2) with 10 %: 1000 redeem tokens of nonce 1 refund 900 launched tokens
example : KPd.withdraw_bookkeeping 5000 7 6000 8 1000 1 2 1000000000000 3000 =
    some (8, 900, 5000, 5100, 2000) := by decide
example : KPd.withdraw_bookkeeping 5000 7 6000 8 1000 2 1 0 3000 = some (7, 1000, 4000, 6000, 2000) := by decide
example : KPd.withdraw_bookkeeping 5000 7 6000 8 1000 3 1 0 3000 = none := by decide
example : KPd.withdraw_bookkeeping 5000 7 6000 8 1000 1 1 0 999 = none := by decide

end Mx.KPdBook
