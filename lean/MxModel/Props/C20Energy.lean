/-
  C20 (energy-factory part) — `getPenaltyAmount(amount, prevLockEpochs, newLockEpochs)` versus
  what `unlockEarly` and `reduceLockPeriod` actually charge in the same state.  The view is
  `Mx.Energy.penaltyAmount s.opts` (a pure function of the lock options); on the real code the
  harness quotes then executes in the same state (clause `quote_eq_exec.penalty`).
-/
import MxModel.Props.C09

namespace Mx.C20
open Mx.Energy

/-- early unlock charges exactly what `getPenaltyAmount(amount, remaining, 0)` quotes in that
    state, and releases `amount − quote` into the unbond queue -/
theorem penalty_quote_eq_unlockEarly {s s' : St} {c n amt : Nat} {o : Out} (hc : c ≠ UNSTAKE)
    (h : unlockEarly s c n amt = some (s', o)) :
    ∃ u, s.unlockOf n = some u ∧ s.epoch < u ∧
      penaltyAmount s.opts amt (u - s.epoch) 0 = some o.v1 ∧ o.v2 = amt - o.v1 := by
  obtain ⟨u, h1, h2, h3, _, h5, _⟩ := Mx.C09.early_unlock_exact hc h
  exact ⟨u, h1, h2, h3, h5⟩

/-- a lock reduction charges exactly what `getPenaltyAmount(amount, remaining, newEpochs)`
    quotes in that state (with the month-normalised new period the endpoint itself computes) -/
theorem penalty_quote_eq_reduceLock {s s' : St} {c n amt epochs : Nat} {o : Out}
    (h : reduceLock s c n amt epochs = some (s', o)) :
    ∃ u newEp, s.unlockOf n = some u ∧ s.epoch < u ∧
      newEp + (s.epoch + epochs) % MONTH = epochs ∧
      penaltyAmount s.opts amt (u - s.epoch) newEp = some o.v3 ∧ o.v2 = amt - o.v3 := by
  obtain ⟨u, newEp, _, h2, h3, h4, _, h6, _, h8⟩ := Mx.C09.reduce_exact h
  exact ⟨u, newEp, h2, h3, h4, h6, h8⟩

/-- an early unlock never succeeds where the quote refuses: the operation's success implies the
    view answers for the same arguments -/
theorem unlockEarly_implies_quote {s s' : St} {c n amt : Nat} {o : Out} (hc : c ≠ UNSTAKE)
    (h : unlockEarly s c n amt = some (s', o)) :
    ∃ u q, s.unlockOf n = some u ∧ penaltyAmount s.opts amt (u - s.epoch) 0 = some q := by
  obtain ⟨u, h1, _, h3, _⟩ := Mx.C09.early_unlock_exact hc h
  exact ⟨u, o.v1, h1, h3⟩

end Mx.C20
