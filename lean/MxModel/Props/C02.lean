/-
  C02 — LP share value never decreases (K/S² monotone); no round-trip profit.

  `ShareLe s s'` is `r₁r₂/S² ≤ r₁'r₂'/S'²` cross-multiplied.  Only property theorems here.
-/
import MxModel.Lemmas.PairK

namespace Mx.C02
open Mx.Pair

/-- every successful operation on a pool with liquidity (any op, amount, fee setting incl. 0,
    fee routing incl. local fee swaps) leaves `r₁r₂/S²` at least as large -/
theorem kS2_mono_step {s s' : St} {op : Op} {o : Out} (hi : Inv s) (hS : 0 < s.S)
    (h : step s op = some (s', o)) :
    s.r1 * s.r2 * s'.S ^ 2 ≤ s'.r1 * s'.r2 * s.S ^ 2 :=
  step_share hi hS h

/-- …and therefore over any history -/
theorem kS2_mono_run (total special : Nat) (adder : Option Nat) (cap : Nat)
    (before after : List Op) (h : 0 < (run (init total special adder cap) before).S) :
    let s := run (init total special adder cap) before
    let s' := run (init total special adder cap) (before ++ after)
    s.r1 * s.r2 * s'.S ^ 2 ≤ s'.r1 * s'.r2 * s.S ^ 2 := by
  intro s s'
  have hi : Inv s := run_inv before (inv_init total special adder cap)
  have : s' = run s after := run_append _ _ _
  rw [this]
  exact run_share after hi h

/-- the base case: the first deposit creates share value out of nothing and mints
    `min a₁ a₂` LP, so `S'² ≤ r₁'r₂'` (each LP unit is backed by at least one unit of K^½) -/
theorem first_deposit_share {s s' : St} {a1 a2 m1 m2 : Nat} {o : Out} (hi : Inv s) (hS : s.S = 0)
    (h0 : s.r1 = 0 ∧ s.r2 = 0) (h : addLiq s a1 a2 m1 m2 = some (s', o)) :
    s'.S ^ 2 ≤ s'.r1 * s'.r2 := by
  obtain ⟨_, _, _, _, _, _, rfl⟩ := addLiq_first_spec hS h
  simp only [h0.1, h0.2, Nat.zero_add, Nat.pow_two]
  exact Nat.mul_le_mul (Nat.min_le_left _ _) (Nat.min_le_right _ _)

/-- the contract's own K check can never reject a well-formed fixed-input swap: for the
    documented output formula and any fee kept out of the reserve up to the total fee
    (`fee·M ≤ a·total`), the product of the reserves does not fall — rounding alone protects
    the pool at fee 0 -/
theorem swapIn_k_formula (total a rin rout fee : Nat) (ht : total ≤ M)
    (hfee : fee * M ≤ a * total) (ho : amountOut total a rin rout ≤ rout) :
    rin * rout ≤ (rin + (a - fee)) * (rout - amountOut total a rin rout) :=
  swapIn_k total a rin rout fee ht hfee ho

/-- …and likewise never a well-formed fixed-output swap: the `+1` in the charge covers any
    fee up to the total fee -/
theorem swapOut_k_formula (total out rin rout fee : Nat) (ht : total < M) (ho : out < rout)
    (hfee : fee * M ≤ amountIn total out rin rout * total) :
    rin * rout ≤ (rin + (amountIn total out rin rout - fee)) * (rout - out) :=
  swapOut_k total out rin rout fee ht ho hfee

/-- no sequence of swaps returns more than was put in: over any history consisting of swaps
    only (by any callers), what the swappers net of each token is bounded by what the reserves
    lose, and they cannot end with at least as much of both tokens and strictly more of one -/
theorem swaps_no_profit {s : St} (hi : Inv s) (hS : 0 < s.S) (ops : List Op)
    (hall : ∀ op ∈ ops, isSwap op = true) :
    ¬ (0 ≤ (runFlow s ops).2.1 ∧ 0 ≤ (runFlow s ops).2.2 ∧
       0 < (runFlow s ops).2.1 + (runFlow s ops).2.2) := by
  intro hg
  obtain ⟨f1, f2⟩ := swap_flow_run ops hall s
  rw [runFlow_fst] at f1 f2
  have hsh := run_share ops hi hS
  have hS' : (run s ops).S = s.S := by
    clear hsh f1 f2 hg
    induction ops generalizing s with
    | nil => rfl
    | cons op ops ih =>
      have hop := hall op (List.mem_cons_self ..)
      have hrest : ∀ op' ∈ ops, isSwap op' = true := fun o' ho' => hall o' (List.mem_cons_of_mem _ ho')
      simp only [run, List.foldl_cons]
      cases hst : step s op with
      | none => exact ih hi hS hrest
      | some r =>
        obtain ⟨s1, o⟩ := r
        have e : s1.S = s.S := by
          cases op <;> simp only [isSwap] at hop <;> try contradiction
          case swapIn d a m =>
            simp only [step] at hst
            obtain ⟨s3, _, _, _, _, _, _, _, _, _, _, _, _, h12, _, rfl⟩ := swapIn_spec hst
            have := h12.same.1
            cases d <;> simpa [swapMid, St.touch, St.setR, St.setBal] using this
          case swapOut d mx out =>
            simp only [step] at hst
            obtain ⟨s3, _, _, _, _, _, _, _, _, _, _, _, _, h12, _, rfl⟩ := swapOut_spec hst
            have := h12.same.1
            cases d <;> simpa [swapMid, St.touch, St.setR, St.setBal] using this
        have := ih (step_inv hi hst) (by omega) hrest
        simpa [run, e] using this
  unfold ShareLe at hsh
  rw [hS'] at hsh
  have hk : s.r1 * s.r2 ≤ (run s ops).r1 * (run s ops).r2 :=
    Nat.le_of_mul_le_mul_right hsh (Nat.pow_pos hS)
  have hp := hi.pos hS
  obtain ⟨g1, g2, g3⟩ := hg
  have l1 : (run s ops).r1 ≤ s.r1 := by omega
  have l2 : (run s ops).r2 ≤ s.r2 := by omega
  rcases Nat.lt_or_ge (run s ops).r1 s.r1 with c | c
  · have : (run s ops).r1 * (run s ops).r2 < s.r1 * s.r2 :=
      Nat.lt_of_lt_of_le (Nat.mul_lt_mul_of_lt_of_le c l2 hp.2.1) (Nat.le_refl _)
    omega
  · have c2 : (run s ops).r2 < s.r2 := by omega
    have : (run s ops).r1 * (run s ops).r2 < s.r1 * s.r2 :=
      Nat.mul_lt_mul_of_le_of_lt l1 c2 hp.1
    omega

/-- adding liquidity and immediately removing the LP just minted never returns more than
    was deposited, of either token -/
theorem add_then_remove_le {s s1 s2 : St} {a1 a2 m1 m2 n1 n2 : Nat} {o o' : Out}
    (hi : Inv s) (hS : 0 < s.S)
    (hadd : addLiq s a1 a2 m1 m2 = some (s1, o))
    (hrem : removeLiq s1 o.v1 n1 n2 = some (s2, o')) :
    o'.v1 ≤ o.v2 ∧ o'.v2 ≤ o.v3 := by
  have hp := hi.pos hS
  obtain ⟨o1, o2, _, _, _, _, _, _, _, _, rfl, _, _, rfl⟩ := addLiq_spec (by omega) hadd
  obtain ⟨_, _, _, _, _, rfl, _⟩ := removeLiq_spec hrem
  simp only [St.touch]
  exact ⟨add_remove_le s.r1 s.S o1 _ hp.1 (Nat.min_le_left _ _),
         add_remove_le s.r2 s.S o2 _ hp.2.1 (Nat.min_le_right _ _)⟩

/-- non-vacuity: a traded pool where the share value strictly grew -/
example :
    let s0 := run (init 300 50 none 8) [.cfg (.setState .active), .addLiq 1000000 2000000 1 1]
    let s1 := run s0 [.swapIn .ab 50000 1, .swapOut .ba 90000 4000, .removeLiq 7000 1 1]
    0 < s0.S ∧ s0.r1 * s0.r2 * s1.S ^ 2 < s1.r1 * s1.r2 * s0.S ^ 2 := by
  decide

end Mx.C02
