/-
  KEnergyFactory — the model's month normalisation and early-unlock penalty (`Core/Energy.lean`:
  `startOfMonth`, `pctPartial`, `penaltyAmount`) compute what the SOURCE of
  `locked-asset/energy-factory/src/{lock_options.rs, unlock_with_penalty.rs}` computes.

  `Gen/KEnergyFactory.lean` is regenerated on every run by `bin/gen-kernels`.  The source functions
  call `calculate_penalty_percentage_full_unlock` (a loop over the stored lock options, outside the
  translated subset); the translation takes it as a function parameter, instantiated here with the
  model's `pctFull opts` (bracket search + `linear_interpolation`).  Under that instantiation the
  source functions ARE the model functions: same result, same aborts.
-/
import MxModel.Gen.KEnergyFactory
import MxModel.Core.Energy
import MxModel.Props.KMath

namespace Mx.KEnergyFactory
open Mx Mx.Gen Mx.Energy

/-- source `unlock_epoch_to_start_of_month` = model `startOfMonth`; it never aborts (the modulus
    is the constant 30 and the remainder never exceeds the epoch) -/
theorem unlock_epoch_to_start_of_month_eq (e : Nat) :
    KEnergyFactory.unlock_epoch_to_start_of_month e = some (startOfMonth e) := by
  have hM : MONTH = 30 := rfl
  have h1 : ¬ (30 = 0) := by omega
  have h2 : e % 30 ≤ e := Nat.mod_le e 30
  simp only [KEnergyFactory.unlock_epoch_to_start_of_month, startOfMonth, hM, mod?, sub?, if_neg h1,
    if_pos h2, Option.bind_eq_bind, Option.bind_some]

/-- the result is a month boundary not after the epoch, less than a month before it -/
theorem unlock_epoch_to_start_of_month_spec (e m : Nat)
    (h : KEnergyFactory.unlock_epoch_to_start_of_month e = some m) :
    m % 30 = 0 ∧ m ≤ e ∧ e < m + 30 := by
  rw [unlock_epoch_to_start_of_month_eq, Option.some.injEq] at h
  subst h
  have hM : MONTH = 30 := rfl
  simp only [startOfMonth, hM]
  omega

/-- source `calculate_penalty_percentage_partial_unlock`, for ANY full-unlock percentage function
    `f`: it aborts when `f` aborts on either argument, when the new percentage exceeds the previous
    one (checked `u64` subtraction), when it exceeds 100 % or equals it (division by zero);
    otherwise `(pp − pn) · 10000 / (10000 − pn)` -/
theorem partial_unlock_generic (f : Nat → Option Nat) (prev new pp pn : Nat)
    (hp : f prev = some pp) (hn : f new = some pn) :
    KEnergyFactory.calculate_penalty_percentage_partial_unlock prev new f =
      if pp < pn ∨ 10000 ≤ pn then none else some ((pp - pn) * 10000 / (10000 - pn)) := by
  simp only [KEnergyFactory.calculate_penalty_percentage_partial_unlock, hp, hn, sub?, div?,
    Option.bind_eq_bind, Option.bind_some]
  by_cases h1 : pn ≤ pp
  · by_cases h2 : pn ≤ 10000
    · by_cases h3 : 10000 - pn = 0
      · have h : pp < pn ∨ 10000 ≤ pn := by omega
        simp only [if_pos h1, if_pos h2, if_pos h3, if_pos h, Option.bind_some]
      · have h : ¬ (pp < pn ∨ 10000 ≤ pn) := by omega
        simp only [if_pos h1, if_pos h2, if_neg h3, if_neg h, Option.bind_some]
    · have h : pp < pn ∨ 10000 ≤ pn := by omega
      simp only [if_pos h1, if_neg h2, if_pos h, Option.bind_some, Option.bind_none]
  · have h : pp < pn ∨ 10000 ≤ pn := by omega
    simp only [if_neg h1, if_pos h, Option.bind_none]

/-- source `calculate_penalty_percentage_partial_unlock` (with the model's full-unlock percentage
    for the stored options) IS the model's `pctPartial` -/
theorem partial_unlock_eq (opts : List Opt) (prev new : Nat) :
    KEnergyFactory.calculate_penalty_percentage_partial_unlock prev new (pctFull opts) =
      pctPartial opts prev new := by
  have hX : MAXPCT = 10000 := rfl
  simp only [KEnergyFactory.calculate_penalty_percentage_partial_unlock, pctPartial, hX,
    Option.bind_eq_bind, Option.pure_def]
  cases pctFull opts prev with
  | none => rfl
  | some pp =>
    cases pctFull opts new with
    | none => rfl
    | some pn =>
      simp only [Option.bind_some, sub?, div?]
      by_cases h1 : pn ≤ pp
      · by_cases h2 : pn ≤ 10000
        · by_cases h3 : 10000 - pn = 0
          · have h4 : ¬ (10000 - pn ≠ 0) := by omega
            simp only [if_pos h1, if_pos h2, if_pos h3, Option.bind_some, req, if_neg h4,
              Option.bind_none]
          · have h4 : 10000 - pn ≠ 0 := h3
            simp only [if_pos h1, if_pos h2, if_neg h3, Option.bind_some, req, if_pos h4]
        · simp only [if_pos h1, if_neg h2, Option.bind_some, Option.bind_none]
      · simp only [if_neg h1, Option.bind_none]

/-- source `calculate_penalty_amount` = view `getPenaltyAmount` (with the model's full-unlock
    percentage) IS the model's `penaltyAmount`: same guards (`prev > 0`, `new < prev`; an empty
    option list aborts inside the percentage function), full-unlock percentage for `new = 0`,
    partial otherwise, `amount · pct / 10000` rounded down -/
theorem calculate_penalty_amount_eq (opts : List Opt) (amt prev new : Nat) :
    KEnergyFactory.calculate_penalty_amount amt prev new (pctFull opts) =
      penaltyAmount opts amt prev new := by
  have hX : MAXPCT = 10000 := rfl
  have h0 : ¬ (10000 = 0) := by omega
  simp only [KEnergyFactory.calculate_penalty_amount, penaltyAmount, partial_unlock_eq, hX, div?,
    if_neg h0, gt_iff_lt, Option.bind_eq_bind, Option.pure_def]
  by_cases h1 : 0 < prev
  · by_cases h2 : new < prev
    · simp only [req, if_pos h1, if_pos h2, Option.bind_some]
      by_cases ho : opts = []
      · subst ho
        have hne : ¬ (([] : List Opt) ≠ []) := fun c => c rfl
        simp only [if_neg hne, Option.bind_none]
        by_cases hn : new = 0
        · simp only [if_pos hn, pctFull, pctFrom, Option.bind_none]
        · simp only [if_neg hn, pctPartial, pctFull, pctFrom, Option.bind_eq_bind, Option.bind_none]
      · have hne : opts ≠ [] := ho
        simp only [if_pos hne, Option.bind_some]
    · simp only [req, if_pos h1, if_neg h2, Option.bind_some, Option.bind_none]
  · simp only [req, if_neg h1, Option.bind_none]

/-- the new lock period of `reduceLockPeriod` (unlock_with_penalty.rs: `lock_epochs −
    (tentative − start_of_month(tentative))` with `tentative = current + lock_epochs`) is the model's
    `epochs − (now + epochs) % 30` used by `reduceLock` -/
theorem reduce_new_lock_epochs_eq (now epochs m : Nat)
    (h : KEnergyFactory.unlock_epoch_to_start_of_month (now + epochs) = some m) :
    (now + epochs) - m = (now + epochs) % MONTH := by
  rw [unlock_epoch_to_start_of_month_eq, Option.some.injEq] at h
  subst h
  have hM : MONTH = 30 := rfl
  simp only [startOfMonth, hM]
  omega

/-- every percentage the model's bracket search returns for a remaining period beyond the bracket
    start (`e0 < rem`; reachable calls have `0 = e0 < rem`) is a successful run of the source's
    `linear_interpolation` on a bracket `a < rem ≤ b` whose upper end is a stored option: the
    interpolation never divides by zero there, so the model's unguarded `linInterp` is the source's -/
theorem pctFrom_runs_linear_interpolation (opts : List Opt) (e0 p0 rem p : Nat) (h0 : e0 < rem)
    (h : pctFrom e0 p0 opts rem = some p) :
    ∃ a pa b pb, a < rem ∧ rem ≤ b ∧ (b, pb) ∈ opts ∧
      KMath.linear_interpolation a b rem pa pb = some p := by
  induction opts generalizing e0 p0 with
  | nil => simp only [pctFrom] at h; cases h
  | cons o rest ih =>
    obtain ⟨e1, p1⟩ := o
    simp only [pctFrom] at h
    by_cases hle : rem ≤ e1
    · rw [if_pos hle, Option.some.injEq] at h
      refine ⟨e0, p0, e1, p1, h0, hle, List.mem_cons_self, ?_⟩
      rw [Mx.KMath.linear_interpolation_some e0 e1 rem p0 p1 (by omega) hle (by omega), h]
    · rw [if_neg hle] at h
      obtain ⟨a, pa, b, pb, h1, h2, h3, h4⟩ := ih e1 p1 (by omega) h
      exact ⟨a, pa, b, pb, h1, h2, List.mem_cons_of_mem _ h3, h4⟩

example : KEnergyFactory.unlock_epoch_to_start_of_month 95 = some 90 := by decide
example : KEnergyFactory.calculate_penalty_amount 1000 360 0 (pctFull [(360, 4000), (720, 6000)]) =
    some 400 := by decide
example : KEnergyFactory.calculate_penalty_amount 1000 720 360 (pctFull [(360, 4000), (720, 6000)]) =
    some 333 := by decide
example : KEnergyFactory.calculate_penalty_amount 1000 721 0 (pctFull [(360, 4000), (720, 6000)]) =
    none := by decide

end Mx.KEnergyFactory
