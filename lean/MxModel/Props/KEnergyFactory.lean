/-
  KEnergyFactory — the model's month normalisation and early-unlock penalty (`Core/Energy.lean`:
  `startOfMonth`, `pctPartial`, `penaltyAmount`) compute what the SOURCE of
  `locked-asset/energy-factory/src/{lock_options.rs, unlock_with_penalty.rs}` computes.

  `Gen/KEnergyFactory.lean` is regenerated on every run by `bin/gen-kernels`.  The source functions
  call `calculate_penalty_percentage_full_unlock` (a loop over the stored lock options, outside the
  translated subset); the translation takes it as a function parameter, instantiated here with the
  model's `pctFull opts` (bracket search + `linear_interpolation`).  Under that instantiation the
  source functions ARE the model functions: same result, same aborts.
-/
import MxModel.Gen.KEnergyFactory
import MxModel.Core.Energy
import MxModel.Props.KMath
import MxModel.Lemmas.KTactic

namespace Mx.KEnergyFactory
open Mx Mx.Gen Mx.Energy

/-- source `unlock_epoch_to_start_of_month` = model `startOfMonth`; it never aborts (the modulus
    is the constant 30 and the remainder never exceeds the epoch) -/
theorem unlock_epoch_to_start_of_month_eq (e : Nat) :
    KEnergyFactory.unlock_epoch_to_start_of_month e = some (startOfMonth e) := by
  have hM : MONTH = 30 := rfl
  k_defs [KEnergyFactory.unlock_epoch_to_start_of_month, startOfMonth, hM]
  k_solve

/-- the result is a month boundary not after the epoch, less than a month before it -/
theorem unlock_epoch_to_start_of_month_spec (e m : Nat)
    (h : KEnergyFactory.unlock_epoch_to_start_of_month e = some m) :
    m % 30 = 0 ∧ m ≤ e ∧ e < m + 30 := by
  rw [unlock_epoch_to_start_of_month_eq, Option.some.injEq] at h
  subst h
  have hM : MONTH = 30 := rfl
  simp only [startOfMonth, hM]
  omega

/-- source `calculate_penalty_percentage_partial_unlock`, for ANY full-unlock percentage function
    `f`: it aborts when `f` aborts on either argument, when the new percentage exceeds the previous
    one (checked `u64` subtraction), when it exceeds 100 % or equals it (division by zero);
    otherwise `(pp − pn) · 10000 / (10000 − pn)` -/
theorem partial_unlock_generic (f : Nat → Option Nat) (prev new pp pn : Nat)
    (hp : f prev = some pp) (hn : f new = some pn) :
    KEnergyFactory.calculate_penalty_percentage_partial_unlock prev new f =
      if pp < pn ∨ 10000 ≤ pn then none else some ((pp - pn) * 10000 / (10000 - pn)) := by
  k_defs [KEnergyFactory.calculate_penalty_percentage_partial_unlock, hp, hn]
  k_solve

/-- source `calculate_penalty_percentage_partial_unlock` (with the model's full-unlock percentage
    for the stored options) IS the model's `pctPartial` -/
theorem partial_unlock_eq (opts : List Opt) (prev new : Nat) :
    KEnergyFactory.calculate_penalty_percentage_partial_unlock prev new (pctFull opts) =
      pctPartial opts prev new := by
  have hX : MAXPCT = 10000 := rfl
  k_defs [KEnergyFactory.calculate_penalty_percentage_partial_unlock, pctPartial, hX]
  cases pctFull opts prev <;> cases pctFull opts new <;> k_solve

/-- source `calculate_penalty_amount` = view `getPenaltyAmount` (with the model's full-unlock
    percentage) IS the model's `penaltyAmount`: same guards (`prev > 0`, `new < prev`; an empty
    option list aborts inside the percentage function), full-unlock percentage for `new = 0`,
    partial otherwise, `amount · pct / 10000` rounded down -/
theorem calculate_penalty_amount_eq (opts : List Opt) (amt prev new : Nat) :
    KEnergyFactory.calculate_penalty_amount amt prev new (pctFull opts) =
      penaltyAmount opts amt prev new := by
  have hX : MAXPCT = 10000 := rfl
  k_defs [KEnergyFactory.calculate_penalty_amount, penaltyAmount, partial_unlock_eq, hX]
  by_cases ho : opts = []
  · subst ho
    simp only [pctPartial, pctFull, pctFrom]
    k_solve
  · cases pctFull opts prev <;> cases pctPartial opts prev new <;> k_solve

/-- the new lock period of `reduceLockPeriod` (unlock_with_penalty.rs: `lock_epochs −
    (tentative − start_of_month(tentative))` with `tentative = current + lock_epochs`) is the model's
    `epochs − (now + epochs) % 30` used by `reduceLock` -/
theorem reduce_new_lock_epochs_eq (now epochs m : Nat)
    (h : KEnergyFactory.unlock_epoch_to_start_of_month (now + epochs) = some m) :
    (now + epochs) - m = (now + epochs) % MONTH := by
  rw [unlock_epoch_to_start_of_month_eq, Option.some.injEq] at h
  subst h
  have hM : MONTH = 30 := rfl
  simp only [startOfMonth, hM]
  omega

/-- every percentage the model's bracket search returns for a remaining period beyond the bracket
    start (`e0 < rem`; reachable calls have `0 = e0 < rem`) is a successful run of the source's
    `linear_interpolation` on a bracket `a < rem ≤ b` whose upper end is a stored option: the
    interpolation never divides by zero there, so the model's unguarded `linInterp` is the source's -/
theorem pctFrom_runs_linear_interpolation (opts : List Opt) (e0 p0 rem p : Nat) (h0 : e0 < rem)
    (h : pctFrom e0 p0 opts rem = some p) :
    ∃ a pa b pb, a < rem ∧ rem ≤ b ∧ (b, pb) ∈ opts ∧
      KMath.linear_interpolation a b rem pa pb = some p := by
  induction opts generalizing e0 p0 with
  | nil => simp only [pctFrom] at h; cases h
  | cons o rest ih =>
    obtain ⟨e1, p1⟩ := o
    simp only [pctFrom] at h
    by_cases hle : rem ≤ e1
    · rw [if_pos hle, Option.some.injEq] at h
      refine ⟨e0, p0, e1, p1, h0, hle, List.mem_cons_self, ?_⟩
      rw [Mx.KMath.linear_interpolation_some e0 e1 rem p0 p1 (by omega) hle (by omega), h]
    · rw [if_neg hle] at h
      obtain ⟨a, pa, b, pb, h1, h2, h3, h4⟩ := ih e1 p1 (by omega) h
      exact ⟨a, pa, b, pb, h1, h2, List.mem_cons_of_mem _ h3, h4⟩

/-! ### unlock epochs of `lockTokens` / `lockVirtual` / `extendLockPeriod` -/

/-- the unlock epoch of `lockTokens`: `start_of_month(current + lock_epochs)`, which must lie
    strictly after the current epoch — the model's `unlock` and its guard `s.epoch < unlock` -/
theorem lock_unlock_epoch_eq (now epochs : Nat) :
    KEnergyFactory.lock_unlock_epoch now epochs =
      if now < startOfMonth (now + epochs) then some (startOfMonth (now + epochs)) else none := by
  k_defs [KEnergyFactory.lock_unlock_epoch, unlock_epoch_to_start_of_month_eq]
  k_solve

/-- `lockVirtual` computes the same unlock epoch under the same guard -/
theorem lock_virtual_unlock_epoch_eq (now epochs : Nat) :
    KEnergyFactory.lock_virtual_unlock_epoch now epochs =
      if now < startOfMonth (now + epochs) then some (startOfMonth (now + epochs)) else none := by
  k_defs [KEnergyFactory.lock_virtual_unlock_epoch, unlock_epoch_to_start_of_month_eq]
  k_solve

/-- … and so does `extendLockPeriod` -/
theorem extend_unlock_epoch_eq (now epochs : Nat) :
    KEnergyFactory.extend_unlock_epoch now epochs =
      if now < startOfMonth (now + epochs) then some (startOfMonth (now + epochs)) else none := by
  k_defs [KEnergyFactory.extend_unlock_epoch, unlock_epoch_to_start_of_month_eq]
  k_solve

/-- extending must move the unlock epoch strictly forward (the model's `req (old < unlock)`) -/
theorem extend_epoch_guard_eq (old new : Nat) :
    KEnergyFactory.extend_epoch_guard old new = if old < new then some () else none := by
  k_defs [KEnergyFactory.extend_epoch_guard]
  k_solve

/-- a successful model `lockTokens` / `lockVirtual` / `extendLock` passed the source's unlock-epoch
    computation with the model's `startOfMonth (epoch + epochs)` -/
theorem lockTokens_runs_source {s s' : St} {c amt epochs dest : Nat} {o : Out}
    (h : lockTokens s c amt epochs dest = some (s', o)) :
    KEnergyFactory.lock_unlock_epoch s.epoch epochs = some (startOfMonth (s.epoch + epochs)) := by
  simp only [lockTokens, Option.bind_eq_bind, Option.bind_eq_some_iff, req_eq_some] at h
  obtain ⟨_, _, _, _, _, _, _, hu, _⟩ := h
  rw [lock_unlock_epoch_eq, if_pos hu]

theorem lockVirtual_runs_source {s s' : St} {c amt epochs dest eaddr : Nat} {o : Out}
    (h : lockVirtual s c amt epochs dest eaddr = some (s', o)) :
    KEnergyFactory.lock_virtual_unlock_epoch s.epoch epochs =
      some (startOfMonth (s.epoch + epochs)) := by
  simp only [lockVirtual, Option.bind_eq_bind, Option.bind_eq_some_iff, req_eq_some] at h
  obtain ⟨_, _, _, _, _, _, _, _, _, _, _, hu, _⟩ := h
  rw [lock_virtual_unlock_epoch_eq, if_pos hu]

theorem extendLock_runs_source {s s' : St} {c n amt epochs dest : Nat} {o : Out}
    (h : extendLock s c n amt epochs dest = some (s', o)) :
    KEnergyFactory.extend_unlock_epoch s.epoch epochs = some (startOfMonth (s.epoch + epochs)) ∧
    ∃ old, s.unlockOf n = some old ∧
      KEnergyFactory.extend_epoch_guard old (startOfMonth (s.epoch + epochs)) = some () := by
  simp only [extendLock, Option.bind_eq_bind, Option.bind_eq_some_iff, req_eq_some] at h
  obtain ⟨_, _, _, _, _, _, _, hu, _, _, old, hold, _, _, _, hlt, _⟩ := h
  refine ⟨by rw [extend_unlock_epoch_eq, if_pos hu], old, hold, ?_⟩
  rw [extend_epoch_guard_eq, if_pos hlt]

/-! ### `reduceLockPeriod` / `unlockEarly` (reduce_lock_period_common) -/

/-- only a token that is still locked can be reduced / unlocked early -/
theorem reduce_unlockable_guard_eq (unlock now : Nat) :
    KEnergyFactory.reduce_unlockable_guard unlock now = if now < unlock then some () else none := by
  k_defs [KEnergyFactory.reduce_unlockable_guard]
  k_solve

/-- the new lock period of `reduceLockPeriod`: `lock_epochs − ((current + lock_epochs) mod 30)`
    (checked) — the model's `newEpochs ← sub? epochs ((s.epoch + epochs) % MONTH)` -/
theorem reduce_new_lock_epochs_src_eq (now epochs : Nat) :
    KEnergyFactory.reduce_new_lock_epochs now epochs = sub? epochs ((now + epochs) % MONTH) := by
  have hM : MONTH = 30 := rfl
  k_defs [KEnergyFactory.reduce_new_lock_epochs, unlock_epoch_to_start_of_month_eq, startOfMonth, hM]
  k_solve

/-- the remaining lock period and the guard "the new period is shorter":
    `prev = unlock − current` (checked), `new < prev` -/
theorem reduce_prev_lock_epochs_eq (unlock now new : Nat) :
    KEnergyFactory.reduce_prev_lock_epochs unlock now new =
      if unlock < now ∨ unlock - now ≤ new then none else some (unlock - now) := by
  k_defs [KEnergyFactory.reduce_prev_lock_epochs]
  k_solve

/-- the penalty is taken off the unlocked amount and must leave something:
    `amount > penalty`, result `amount − penalty` (the model's `req (pen < amt)`, `amt − pen`) -/
theorem reduce_apply_penalty_eq (pen amt : Nat) :
    KEnergyFactory.reduce_apply_penalty pen amt = if pen < amt then some (amt - pen) else none := by
  k_defs [KEnergyFactory.reduce_apply_penalty]
  k_solve

/-- `reduceLockPeriod` after the common part: the new unlock epoch is `current + new_lock_epochs`,
    the penalty sent on is `paid − re-locked` -/
theorem reduce_relock_eq (now paid newEpochs x relocked : Nat) :
    KEnergyFactory.reduce_relock now paid newEpochs x relocked =
      if paid < relocked then none else some (now + newEpochs, paid - relocked) := by
  k_defs [KEnergyFactory.reduce_relock]
  k_solve

/-- … and `paid − penalty` of the old locked tokens are burned (the penalty part travels on to
    token-unstake as locked tokens) -/
theorem reduce_burn_amount_eq (paid pen : Nat) :
    KEnergyFactory.reduce_burn_amount paid pen = if paid < pen then none else some (paid - pen) := by
  k_defs [KEnergyFactory.reduce_burn_amount]
  k_solve

/-- a successful model `reduceLock` runs the source's arithmetic: new lock period, previous period
    with its guard, penalty (through `calculate_penalty_amount` with the model's percentage
    function), amount left, new unlock epoch and penalty forwarded -/
theorem reduceLock_runs_source {s s' : St} {c n amt epochs : Nat} {o : Out}
    (h : reduceLock s c n amt epochs = some (s', o)) :
    ∃ unlock newEpochs,
      s.unlockOf n = some unlock ∧
      KEnergyFactory.reduce_unlockable_guard unlock s.epoch = some () ∧
      KEnergyFactory.reduce_new_lock_epochs s.epoch epochs = some newEpochs ∧
      KEnergyFactory.reduce_prev_lock_epochs unlock s.epoch newEpochs = some (unlock - s.epoch) ∧
      KEnergyFactory.calculate_penalty_amount amt (unlock - s.epoch) newEpochs (pctFull s.opts) =
        some o.v3 ∧
      KEnergyFactory.reduce_apply_penalty o.v3 amt = some o.v2 ∧
      KEnergyFactory.reduce_relock s.epoch amt newEpochs 0 o.v2 = some (s.epoch + newEpochs, o.v3) := by
  simp only [reduceLock, Option.bind_eq_bind, Option.bind_eq_some_iff, req_eq_some,
    Option.pure_def, Option.some.injEq, Prod.mk.injEq] at h
  obtain ⟨_, _, _, _, _, _, unlock, hun, _, _, _, hlt, newEpochs, hnew, _, hprev, _, _, pen, hpen,
    _, hpos, _, hpa, _, _, _, _, _, rfl⟩ := h
  refine ⟨unlock, newEpochs, hun, ?_, ?_, ?_, ?_, ?_, ?_⟩
  · rw [reduce_unlockable_guard_eq, if_pos hlt]
  · rw [reduce_new_lock_epochs_src_eq, hnew]
  · rw [reduce_prev_lock_epochs_eq, if_neg (by omega)]
  · rw [calculate_penalty_amount_eq, hpen]
  · rw [reduce_apply_penalty_eq, if_pos hpa]
  · have e2 : amt - (amt - pen) = pen := by omega
    have e3 : ¬ amt < amt - pen := by omega
    simp only [reduce_relock_eq, e2, if_neg e3]

/-- a successful model `unlockEarly` runs the same common part with new period 0: full-unlock
    penalty, `amount − penalty` base tokens go to token-unstake -/
theorem unlockEarly_runs_source {s s' : St} {c n amt : Nat} {o : Out}
    (h : unlockEarly s c n amt = some (s', o)) :
    ∃ unlock,
      s.unlockOf n = some unlock ∧
      KEnergyFactory.reduce_unlockable_guard unlock s.epoch = some () ∧
      KEnergyFactory.reduce_prev_lock_epochs unlock s.epoch 0 = some (unlock - s.epoch) ∧
      KEnergyFactory.calculate_penalty_amount amt (unlock - s.epoch) 0 (pctFull s.opts) = some o.v1 ∧
      KEnergyFactory.reduce_apply_penalty o.v1 amt = some o.v2 := by
  simp only [unlockEarly, Option.bind_eq_bind, Option.bind_eq_some_iff, req_eq_some,
    Option.pure_def, Option.some.injEq, Prod.mk.injEq] at h
  obtain ⟨_, _, unlock, hun, _, _, _, hlt, _, _, pen, hpen, _, _, _, hpa, _, _, _, rfl⟩ := h
  refine ⟨unlock, hun, ?_, ?_, ?_, ?_⟩
  · rw [reduce_unlockable_guard_eq, if_pos hlt]
  · rw [reduce_prev_lock_epochs_eq, if_neg (by omega)]
  · rw [calculate_penalty_amount_eq, hpen]
  · rw [reduce_apply_penalty_eq, if_pos hpa]

example : KEnergyFactory.unlock_epoch_to_start_of_month 95 = some 90 := by decide
example : KEnergyFactory.lock_unlock_epoch 100 360 = some 450 := by decide
example : KEnergyFactory.lock_unlock_epoch 100 10 = none := by decide
example : KEnergyFactory.reduce_new_lock_epochs 100 360 = some 350 := by decide
example : KEnergyFactory.calculate_penalty_amount 1000 360 0 (pctFull [(360, 4000), (720, 6000)]) =
    some 400 := by decide
example : KEnergyFactory.calculate_penalty_amount 1000 720 360 (pctFull [(360, 4000), (720, 6000)]) =
    some 333 := by decide
example : KEnergyFactory.calculate_penalty_amount 1000 721 0 (pctFull [(360, 4000), (720, 6000)]) =
    none := by decide

end Mx.KEnergyFactory
