/-
  C20 (farm-staking clause, second file) — `calculateRewardsForGivenPosition` versus every
  operation that pays the position's reward, for an ARBITRARY claimer.

  What the Rust has (farm-staking/src/lib.rs): exactly ONE reward view,
  `calculateRewardsForGivenPosition(amount, attributes)`.  It has NO `user` argument (the dex/farm
  view has one) and evaluates the boosted part for `attributes.original_owner`.  There is no
  separate view for `unstakeFarm` or `compoundRewards`; both pay / compound the same reward
  formula, so the one view is also their quote (theorems below).  The amount of the unbond token
  and the unbond epoch have no view.

  Results
  * `quote_vs_claim_any_claimer` — the exact relation for ANY claimer `orig` (own claim, through
    a whitelisted contract, on behalf, with new value; any further merged payments):
    quote = base + boosted(recorded owner), paid = base + boosted(orig), with the SAME base part.
  * hence quote = paid whenever the boosted rewards are claimed for the recorded owner
    (`quote_eq_exec_owner` and the endpoint corollaries, incl. `claimRewardsOnBehalf`), and
    whenever holder and owner have equal pending boosted rewards.
  * `received_position_quote_differs` — a FINDING, not excused by any theorem: for a position
    received by transfer and claimed by its holder, the quote and the payment differ (27500 vs
    36666 in the history `corpus/staking/c20_quote_received_position_staking.ops`; the real
    contract gives the same two numbers).  C20 "in any state the quote is exactly what executing
    delivers" therefore fails on farm-staking for received positions: the view cannot know who
    will claim.
  * `quote_eq_unstake`, `quote_eq_compound` (+ exec ⇒ quote): the view is also the quote of
    `unstakeFarm` / `compoundRewards` by the recorded owner.
  * `view_settlement_is_claim_settlement` — the value the view returns in `s` is computed on the
    view's OWN settlement of `s` (`generate_aggregated_rewards` on a fresh cache), and that
    settlement is cell for cell the one `claimRewards` performs when executed directly in `s`
    (index, last reward block, accumulated, budgets, reserve before the payout): no intermediate
    settled state is needed for quote = execution.
-/
import MxModel.Lemmas.StakingView

namespace Mx.C20Staking2
open Mx.Staking

/-- **quote versus claim, any claimer.**  In any state: if the view answers `q` for position `p`
    (its attributes `first`) and `claimRewards` — in any variant: caller `c`, boosted rewards claimed
    for `orig`, further payments `rest` merged, optional new value — succeeds in that same state
    paying `o.c`, then both are the same base reward plus a boosted part; the view's boosted part is
    that of the recorded owner, the claim's that of `orig`. -/
theorem quote_vs_claim_any_claimer {s s' st : St} {c orig : Nat} {p : Pay} {rest : List Pay}
    {nv : Option Nat} {first : Attrs} {q : Nat} {o : Out}
    (hf : posOf s.md p.1 = some first)
    (hq : calcRewards s true p.2 first = some (st, q))
    (hx : claimCore s c orig (p :: rest) nv = some (s', o)) :
    ∃ rOwner rOrig,
      claimBoostedYields (genSt s) first.owner (s.userTotal first.owner) = some rOwner ∧
      claimBoostedYields (genSt s) orig (s.userTotal orig) = some rOrig ∧
      q = baseReward (genCache s s.cache) s.dsc p.2 first + rOwner.2.2 ∧
      o.c = baseReward (genCache s s.cache) s.dsc p.2 first + rOrig.2.2 ∧
      o.c + rOwner.2.2 = q + rOrig.2.2 := by
  obtain ⟨_, _, rO, hrO, rfl, _⟩ := calcRewards_eq_some.mp hq
  obtain ⟨p', first', r, hp, hf', _, _, hr, hc, _⟩ := claimCore_pays hx
  simp only [List.head?_cons, Option.some.injEq] at hp
  subst hp
  rw [hf] at hf'
  simp only [Option.some.injEq] at hf'
  subst hf'
  exact ⟨rO, r, hrO, hr, rfl, hc, by rw [hc]; omega⟩

/-- **quote = execution when the boosted rewards are claimed for the recorded owner** (any caller,
    any merged payments, with or without new value) -/
theorem quote_eq_exec_owner {s s' st : St} {c : Nat} {p : Pay} {rest : List Pay}
    {nv : Option Nat} {first : Attrs} {q : Nat} {o : Out}
    (hf : posOf s.md p.1 = some first)
    (hq : calcRewards s true p.2 first = some (st, q))
    (hx : claimCore s c first.owner (p :: rest) nv = some (s', o)) : o.c = q := by
  obtain ⟨rO, r, h1, h2, h3, h4, _⟩ := quote_vs_claim_any_claimer hf hq hx
  rw [h1] at h2
  simp only [Option.some.injEq] at h2
  subst h2
  rw [h3, h4]

/-- …and such an execution never succeeds where the quote refuses -/
theorem exec_implies_quote_owner {s s' : St} {c : Nat} {p : Pay} {rest : List Pay}
    {nv : Option Nat} {first : Attrs} {o : Out}
    (hf : posOf s.md p.1 = some first)
    (hx : claimCore s c first.owner (p :: rest) nv = some (s', o)) :
    ∃ st, calcRewards s true p.2 first = some (st, o.c) := by
  obtain ⟨p', first', r, hp, hf', h1, h2, hr, hc, _⟩ := claimCore_pays hx
  simp only [List.head?_cons, Option.some.injEq] at hp
  subst hp
  rw [hf] at hf'
  simp only [Option.some.injEq] at hf'
  subst hf'
  exact ⟨viewSt s r, calcRewards_eq_some.mpr ⟨h1, h2, r, hr, hc, rfl⟩⟩

/-- `claimRewardsOnBehalf` (any authorised caller, any number of payments): the rewards go to the
    recorded owner and are exactly the quote of the first payment -/
theorem quote_eq_exec_on_behalf {s s' st : St} {c : Nat} {p : Pay} {rest : List Pay}
    {first : Attrs} {q : Nat} {o : Out}
    (hf : posOf s.md p.1 = some first)
    (hq : calcRewards s true p.2 first = some (st, q))
    (hx : claimOnBehalf s c (p :: rest) = some (s', o)) : o.c = q := by
  simp only [claimOnBehalf, claimOwner, Option.bind_eq_bind, Option.bind_eq_some_iff, req_eq_some,
    Option.pure_def, Option.some.injEq, List.head?_cons] at hx
  obtain ⟨user, ⟨p', rfl, a, ha, _, _, _, _, rfl⟩, _, _, hx⟩ := hx
  rw [hf] at ha
  simp only [Option.some.injEq] at ha
  subst ha
  exact quote_eq_exec_owner hf hq hx

/-- `claimRewards` through a whitelisted contract that passes the recorded owner as original
    caller, and `claimRewardsWithNewValue` likewise: exactly the quote -/
theorem quote_eq_exec_whitelisted {s s' st : St} {c : Nat} {p : Pay} {first : Attrs} {q : Nat} {o : Out}
    (hf : posOf s.md p.1 = some first)
    (hq : calcRewards s true p.2 first = some (st, q)) :
    (claimRewards s c (some first.owner) p = some (s', o) → o.c = q) ∧
    (∀ nv, claimNewValue s c first.owner nv p = some (s', o) → o.c = q) := by
  constructor
  · intro hx
    simp only [claimRewards, Option.bind_eq_bind, Option.bind_eq_some_iff, req_eq_some] at hx
    obtain ⟨_, _, hx⟩ := hx
    exact quote_eq_exec_owner hf hq hx
  · intro nv hx
    simp only [claimNewValue, Option.bind_eq_bind, Option.bind_eq_some_iff, req_eq_some] at hx
    obtain ⟨_, _, hx⟩ := hx
    exact quote_eq_exec_owner hf hq hx

/-- the statement C20 asks for on farm-staking, for every claimer: whoever claims position `p`
    is paid what the view quoted for it in the same state -/
def quote_eq_exec_any_claimer_full : Prop :=
  ∀ (s s' st : St) (c : Nat) (p : Pay) (first : Attrs) (q : Nat) (o : Out),
    posOf s.md p.1 = some first → calcRewards s true p.2 first = some (st, q) →
    claimRewards s c none p = some (s', o) → o.c = q

/-- the history of `corpus/staking/c20_quote_received_position_staking.ops`: u1 (no energy) stakes,
    u2 (energy) stakes, a boosted week passes, u1 transfers his position to u2 -/
def receivedOps : List Op :=
  [.topUp 100000000, .setBoostedPct 2500, .setFactors ⟨10, 3, 2, 1, 1⟩, .setEnergy 2 10000 100,
   .stake 1 none 100000000000 [], .stake 2 none 50000000000 [], .advance 10 0,
   .claimBoosted 1 none, .claimBoosted 2 none, .advance 1 7, .transfer 1 2 (1, 100000000000)]

set_option maxRecDepth 8000 in
/-- **FINDING — the full statement is false.**  In the reachable state after `receivedOps` the
    view quotes 27500 for position 1 (recorded owner u1, no pending boosted rewards) while
    `claimRewards` by its holder u2 in that same state pays 36666 (u2's own pending boosted rewards
    are added).  The real contract returns the same two numbers (replay of the corpus file). -/
theorem received_position_quote_differs : ¬ quote_eq_exec_any_claimer_full := by
  intro h
  have key :
      let s := run (init 5 10 1000000000000 1000000 5 5000 [1, 2, 101] [101]) receivedOps
      posOf s.md 1 = some ⟨0, 0, 100000000000, 1⟩ ∧
      (calcRewards s true 100000000000 ⟨0, 0, 100000000000, 1⟩).map (·.2) = some 27500 ∧
      (claimRewards s 2 none (1, 100000000000)).map (·.2.c) = some 36666 := by decide
  obtain ⟨k1, k2, k3⟩ := key
  simp only [Option.map_eq_some_iff] at k2 k3
  obtain ⟨⟨st, q⟩, hq, hq2⟩ := k2
  obtain ⟨⟨s', o⟩, hx, ho⟩ := k3
  have := h _ s' st 2 (1, 100000000000) _ q o k1 hq hx
  simp only at ho hq2 this
  omega

/-- what IS proved about any claimer: `claimRewards` by an arbitrary account `c` pays the quote
    corrected by the difference of the two boosted claims (partial form of
    `quote_eq_exec_any_claimer_full`; missing — and false in general — is
    `boosted(c) = boosted(owner)`) -/
theorem quote_eq_exec_any_claimer_partial {s s' st : St} {c : Nat} {p : Pay} {first : Attrs}
    {q : Nat} {o : Out}
    (hf : posOf s.md p.1 = some first)
    (hq : calcRewards s true p.2 first = some (st, q))
    (hx : claimRewards s c none p = some (s', o)) :
    ∃ rOwner rC,
      claimBoostedYields (genSt s) first.owner (s.userTotal first.owner) = some rOwner ∧
      claimBoostedYields (genSt s) c (s.userTotal c) = some rC ∧
      o.c + rOwner.2.2 = q + rC.2.2 ∧ (rC.2.2 = rOwner.2.2 → o.c = q) := by
  simp only [claimRewards] at hx
  obtain ⟨rO, r, h1, h2, _, _, h5⟩ := quote_vs_claim_any_claimer hf hq hx
  exact ⟨rO, r, h1, h2, h5, fun e => by omega⟩

/-! ### the same view is the quote of `unstakeFarm` and `compoundRewards` -/

/-- `unstakeFarm` (own call, through a whitelisted contract, or `unstakeFarmThroughProxy`) with the
    boosted rewards claimed for the recorded owner pays exactly the quote as its reward part -/
theorem quote_eq_unstake {s s' st : St} {c : Nat} {p : Pay} {x : Option Nat} {first : Attrs}
    {q : Nat} {o : Out}
    (hf : posOf s.md p.1 = some first)
    (hq : calcRewards s true p.2 first = some (st, q))
    (hx : unstakeCore s c first.owner p x = some (s', o)) : o.c = q := by
  obtain ⟨_, _, rO, hrO, rfl, _⟩ := calcRewards_eq_some.mp hq
  obtain ⟨first', r, hf', _, _, hr, hc⟩ := unstakeCore_pays hx
  rw [hf] at hf'
  simp only [Option.some.injEq] at hf'
  subst hf'
  rw [hrO] at hr
  simp only [Option.some.injEq] at hr
  subst hr
  exact hc

/-- an unstake never succeeds where the quote refuses -/
theorem unstake_implies_quote {s s' : St} {c : Nat} {p : Pay} {x : Option Nat} {first : Attrs} {o : Out}
    (hf : posOf s.md p.1 = some first)
    (hx : unstakeCore s c first.owner p x = some (s', o)) :
    ∃ st, calcRewards s true p.2 first = some (st, o.c) := by
  obtain ⟨first', r, hf', h1, h2, hr, hc⟩ := unstakeCore_pays hx
  rw [hf] at hf'
  simp only [Option.some.injEq] at hf'
  subst hf'
  exact ⟨viewSt s r, calcRewards_eq_some.mpr ⟨h1, h2, r, hr, hc, rfl⟩⟩

/-- `compoundRewards` by the recorded owner compounds exactly the quote of the first payment -/
theorem quote_eq_compound {s s' st : St} {p : Pay} {rest : List Pay} {first : Attrs} {q : Nat} {o : Out}
    (hf : posOf s.md p.1 = some first)
    (hq : calcRewards s true p.2 first = some (st, q))
    (hx : compound s first.owner (p :: rest) = some (s', o)) : o.c = q := by
  obtain ⟨_, _, rO, hrO, rfl, _⟩ := calcRewards_eq_some.mp hq
  obtain ⟨p', first', r, hp, hf', _, _, hr, hc⟩ := compound_pays hx
  simp only [List.head?_cons, Option.some.injEq] at hp
  subst hp
  rw [hf] at hf'
  simp only [Option.some.injEq] at hf'
  subst hf'
  rw [hrO] at hr
  simp only [Option.some.injEq] at hr
  subst hr
  exact hc

/-- a compound never succeeds where the quote refuses -/
theorem compound_implies_quote {s s' : St} {p : Pay} {rest : List Pay} {first : Attrs} {o : Out}
    (hf : posOf s.md p.1 = some first)
    (hx : compound s first.owner (p :: rest) = some (s', o)) :
    ∃ st, calcRewards s true p.2 first = some (st, o.c) := by
  obtain ⟨p', first', r, hp, hf', h1, h2, hr, hc⟩ := compound_pays hx
  simp only [List.head?_cons, Option.some.injEq] at hp
  subst hp
  rw [hf] at hf'
  simp only [Option.some.injEq] at hf'
  subst hf'
  exact ⟨viewSt s r, calcRewards_eq_some.mpr ⟨h1, h2, r, hr, hc, rfl⟩⟩

/-! ### the view settles exactly like the operation -/

/-- **the view's internal settlement is the operation's own.**  The real view runs
    `generate_aggregated_rewards` on a cache before computing the quote (in the VM of the test
    framework the query even commits it); `st` is the state that settlement produces from `s`.
    If `claimRewards` (any variant, any claimer) is executed DIRECTLY in `s` — not in `st` — its own
    settlement produces cell for cell the same values: reward index, last reward block,
    accumulated rewards, the base and boosted budgets, and the reserve from which the payout is
    then subtracted.  Together with `quote_eq_exec_owner` (the quote computed on `st`'s cells is
    what the claim in `s` pays) no intermediate settled state is involved in quote = execution. -/
theorem view_settlement_is_claim_settlement {s s' st : St} {c orig : Nat} {p : Pay}
    {rest : List Pay} {nv : Option Nat} {t : Attrs} {amt q : Nat} {o : Out}
    (hq : calcRewards s true amt t = some (st, q))
    (hx : claimCore s c orig (p :: rest) nv = some (s', o)) :
    st.rps = s'.rps ∧ st.lastBlock = s'.lastBlock ∧ st.accumulated = s'.accumulated ∧
    st.baseBudget = s'.baseBudget ∧ st.boostedBudget = s'.boostedBudget ∧
    st.reserve = s'.reserve + o.c := by
  obtain ⟨_, _, rO, _, _, rfl⟩ := calcRewards_eq_some.mp hq
  obtain ⟨_, _, _, _, _, _, _, _, _, e1, e2, e3, e4, e5, e6⟩ := claimCore_pays hx
  exact ⟨e1.symm, e2.symm, e3.symm, e5.symm, e6.symm, e4.symm⟩

set_option maxRecDepth 8000 in
/-- non-vacuity (same history, plus u1 authorising u2 in the permissions hub): with a boosted week
    pending, the view for u2's own position is 22916 and `unstakeFarm` / `compoundRewards` by u2 pay /
    compound exactly that; the view for the received position 1 is 27500 and `claimRewardsOnBehalf`
    by its holder u2 (rewards to the recorded owner u1) pays exactly that -/
example :
    let s := run (init 5 10 1000000000000 1000000 5 5000 [1, 2, 101] [101])
      (receivedOps ++ [.hubWhitelist 1 2])
    (calcRewards s true 50000000000 ⟨0, 0, 50000000000, 2⟩).map (·.2) = some 22916 ∧
    (unstakeFarm s 2 none (2, 50000000000)).map (·.2.c) = some 22916 ∧
    (compound s 2 [(2, 50000000000)]).map (·.2.c) = some 22916 ∧
    (calcRewards s true 100000000000 ⟨0, 0, 100000000000, 1⟩).map (·.2) = some 27500 ∧
    (claimOnBehalf s 2 [(1, 100000000000)]).map (·.2.c) = some 27500 := by
  decide

set_option maxRecDepth 8000 in
/-- **why quoting must not change state** (farm-staking twin of `C20Farm2.committed_view_breaks_next_quote`):
    in the same reachable state, u2's own position is quoted 22916; had the view's settlement been
    committed (the state `st` the model's view returns next to the amount — what `execute_query` does
    in the test VM), the same quote and the claim would both be 13750: the pending boosted week is
    consumed by the query without being paid.  So the view must be compared with the operation
    executed in the SAME state (`view_settlement_is_claim_settlement`), never after it. -/
theorem committed_view_breaks_next_quote :
    let s := run (init 5 10 1000000000000 1000000 5 5000 [1, 2, 101] [101]) receivedOps
    let t : Attrs := ⟨0, 0, 50000000000, 2⟩
    (calcRewards s true 50000000000 t).map (·.2) = some 22916 ∧
    (claimRewards s 2 none (2, 50000000000)).map (·.2.c) = some 22916 ∧
    ((calcRewards s true 50000000000 t).bind fun r =>
        (calcRewards r.1 true 50000000000 t).map (·.2)) = some 13750 ∧
    ((calcRewards s true 50000000000 t).bind fun r =>
        (claimRewards r.1 2 none (2, 50000000000)).map (·.2.c)) = some 13750 := by
  decide

end Mx.C20Staking2
