/-
  KPenalty — the option search of the early-unlock penalty
  (`locked-asset/energy-factory/src/penalty.rs::calculate_penalty_percentage_full_unlock`) as the
  SOURCE writes it, against `Energy.pctFull` of `Core/Energy.lean` (property C09).

  Generated (`Gen/KEnergyFactory.lean`): `penalty_percentage_full_unlock` and its loop
  `penalty_percentage_full_unlock_loop`.  The stored `ArrayVec<LockOption, 10>` is read through
  `lock_options_len` and the two index functions `lock_options_lock_epochs`,
  `lock_options_penalty_start_percentage` (`get_unchecked(i)` = element `i`); the helper
  `get_lock_options` (non-empty check) is inlined; `prev_option = *prev_option_temp` copies field by field.

  Proved here: on every non-empty table with positive, strictly increasing lock periods (`Chain 0`)
  the source function equals the model's `pctFull` for every remaining period
  (`penalty_full_unlock_all`: induction relating the index loop to the model's list recursion), hence
  `calculate_penalty_amount` with the source's own percentage function is the model's `penaltyAmount`
  (`penalty_amount_whole_source`).  The one-, two- and three-entry tables are also proved directly by
  unfolding (`penalty_full_unlock_partial_one/two/three`; the deployed configuration has three options).
-/
import MxModel.Gen.KEnergyFactory
import MxModel.Core.Energy
import MxModel.Props.KMath
import MxModel.Props.KEnergyFactory
import MxModel.Lemmas.KTactic

namespace Mx.KPenalty
open Mx Mx.Gen Mx.Energy

/-- field `lock_epochs` of entry `i` of a table (0 beyond the end — never read by the source) -/
def epochsAt (opts : List Opt) (i : Nat) : Nat := (opts.getD i (0, 0)).1
/-- field `penalty_start_percentage` of entry `i` -/
def pctAt (opts : List Opt) (i : Nat) : Nat := (opts.getD i (0, 0)).2

/-- the source function run on a stored table -/
def srcPct (opts : List Opt) (rem : Nat) : Option Nat :=
  KEnergyFactory.penalty_percentage_full_unlock rem opts.length (epochsAt opts) (pctAt opts)

/-- an empty table aborts ("no lock options available") -/
theorem srcPct_empty (rem : Nat) : srcPct [] rem = none := by
  simp [srcPct, KEnergyFactory.penalty_percentage_full_unlock, req]

/-- one option `(e, p)`: interpolation from (0, 0 %) to (e, p); beyond `e` it aborts -/
theorem penalty_full_unlock_partial_one (e p rem : Nat) (h : 0 < e) :
    srcPct [(e, p)] rem = pctFull [(e, p)] rem := by
  have hE0 : epochsAt [(e, p)] 0 = e := rfl
  have hP0 : pctAt [(e, p)] 0 = p := rfl
  simp only [srcPct, pctFull, pctFrom, KEnergyFactory.penalty_percentage_full_unlock,
    List.length_cons, List.length_nil]
  k_defs [KMath.linear_interpolation_eq, hE0, hP0, Nat.zero_add]
  repeat' (first | k_unfold | split)
  all_goals first | rfl | omega | (simp_all <;> omega)

/-- two options: for EVERY remaining period the source equals the model (first segment from (0, 0 %),
    second segment between the two options, abort beyond the last) -/
theorem penalty_full_unlock_partial_two (e1 p1 e2 p2 rem : Nat) (h1 : 0 < e1) (h2 : e1 < e2) :
    srcPct [(e1, p1), (e2, p2)] rem = pctFull [(e1, p1), (e2, p2)] rem := by
  have hE0 : epochsAt [(e1, p1), (e2, p2)] 0 = e1 := rfl
  have hE1 : epochsAt [(e1, p1), (e2, p2)] 1 = e2 := rfl
  have hP0 : pctAt [(e1, p1), (e2, p2)] 0 = p1 := rfl
  have hP1 : pctAt [(e1, p1), (e2, p2)] 1 = p2 := rfl
  simp only [srcPct, pctFull, pctFrom, KEnergyFactory.penalty_percentage_full_unlock,
    List.length_cons, List.length_nil]
  k_defs [KMath.linear_interpolation_eq, KEnergyFactory.penalty_percentage_full_unlock_loop, List.range',
    hE0, hE1, hP0, hP1, Nat.zero_add]
  repeat' (first | k_unfold | split)
  all_goals first | rfl | omega | (simp_all <;> omega)

/-- three options (the shape of the deployed table): for EVERY remaining period the source equals the
    model — the loop runs over the two candidate segments, the first whose bounds enclose `rem` wins -/
theorem penalty_full_unlock_partial_three (e1 p1 e2 p2 e3 p3 rem : Nat)
    (h1 : 0 < e1) (h2 : e1 < e2) (h3 : e2 < e3) :
    srcPct [(e1, p1), (e2, p2), (e3, p3)] rem = pctFull [(e1, p1), (e2, p2), (e3, p3)] rem := by
  have hE0 : epochsAt [(e1, p1), (e2, p2), (e3, p3)] 0 = e1 := rfl
  have hE1 : epochsAt [(e1, p1), (e2, p2), (e3, p3)] 1 = e2 := rfl
  have hE2 : epochsAt [(e1, p1), (e2, p2), (e3, p3)] 2 = e3 := rfl
  have hP0 : pctAt [(e1, p1), (e2, p2), (e3, p3)] 0 = p1 := rfl
  have hP1 : pctAt [(e1, p1), (e2, p2), (e3, p3)] 1 = p2 := rfl
  have hP2 : pctAt [(e1, p1), (e2, p2), (e3, p3)] 2 = p3 := rfl
  simp only [srcPct, pctFull, pctFrom, KEnergyFactory.penalty_percentage_full_unlock,
    List.length_cons, List.length_nil]
  k_defs [KMath.linear_interpolation_eq, KEnergyFactory.penalty_percentage_full_unlock_loop, List.range',
    hE0, hE1, hE2, hP0, hP1, hP2, Nat.zero_add]
  repeat' (first | k_unfold | split)
  all_goals first | rfl | omega | (simp_all <;> omega)

/-! ### every table length -/

/-- strictly increasing chain of lock periods starting above `e0` -/
def Chain (e0 : Nat) : List Opt → Prop
  | [] => True
  | o :: rest => e0 < o.1 ∧ Chain o.1 rest

/-- the search loop followed by the interpolation, started at index `k` on the suffix `(ek, pk) :: rest` -/
theorem loop_then_interp (rem : Nat) (E P : Nat → Nat) :
    ∀ (rest : List Opt) (k ek pk : Nat),
      (∀ j, j ≤ rest.length → E (k + j) = (((ek, pk) :: rest).getD j (0, 0)).1) →
      (∀ j, j ≤ rest.length → P (k + j) = (((ek, pk) :: rest).getD j (0, 0)).2) →
      Chain ek rest → ek < rem →
      (KEnergyFactory.penalty_percentage_full_unlock_loop rem E P (List.range' k rest.length) (0, 0, 0, 0)).bind
        (fun r => KMath.linear_interpolation r.1 r.2.2.1 rem r.2.1 r.2.2.2) = pctFrom ek pk rest rem := by
  intro rest
  induction rest with
  | nil =>
    intro k ek pk _ _ _ hr
    have : KMath.linear_interpolation 0 0 rem 0 0 = none := by
      rw [KMath.linear_interpolation_eq]; simp
    simp [KEnergyFactory.penalty_percentage_full_unlock_loop, List.range', pctFrom, this]
  | cons o rest ih =>
    intro k ek pk hE hP hc hr
    obtain ⟨e1, p1⟩ := o
    obtain ⟨h01, hc'⟩ := hc
    have hEk : E k = ek := by simpa using hE 0 (Nat.zero_le _)
    have hPk : P k = pk := by simpa using hP 0 (Nat.zero_le _)
    have hE1 : E (k + 1) = e1 := by simpa using hE 1 (by simp)
    have hP1 : P (k + 1) = p1 := by simpa using hP 1 (by simp)
    simp only [List.length_cons, List.range'_succ, KEnergyFactory.penalty_percentage_full_unlock_loop,
      hEk, hPk, hE1, hP1, pctFrom]
    by_cases hle : rem ≤ e1
    · have h1 : ek ≤ rem := Nat.le_of_lt hr
      simp [hle, h1, KMath.linear_interpolation_eq]
      omega
    · have h1 : ek ≤ rem := Nat.le_of_lt hr
      simp only [hle, and_false, if_false]
      have := ih (k + 1) e1 p1
        (fun j hj => by rw [Nat.add_assoc, Nat.add_comm 1 j]; simpa using hE (j + 1) (by simp; omega))
        (fun j hj => by rw [Nat.add_assoc, Nat.add_comm 1 j]; simpa using hP (j + 1) (by simp; omega))
        hc' (by omega)
      simpa using this

/-- the model finds nothing exactly when every option lies below `rem` -/
theorem pctFrom_none_of_all_lt (rem : Nat) :
    ∀ (L : List Opt) (e0 p0 : Nat), (∀ x ∈ L, x.1 < rem) → pctFrom e0 p0 L rem = none := by
  intro L
  induction L with
  | nil => intros; rfl
  | cons o rest ih =>
    intro e0 p0 h
    obtain ⟨e1, p1⟩ := o
    have h1 : e1 < rem := h (e1, p1) (by simp)
    have : ¬ rem ≤ e1 := by omega
    simp only [pctFrom, this, if_false]
    exact ih e1 p1 (fun x hx => h x (by simp [hx]))

/-- lock period of the last entry -/
def lastE (L : List Opt) : Nat := (L.getD (L.length - 1) (0, 0)).1

/-- in a chain every entry is at most the last one -/
theorem chain_le_last : ∀ (L : List Opt) (e0 : Nat), Chain e0 L → ∀ x ∈ L, x.1 ≤ lastE L := by
  intro L
  induction L with
  | nil => intro _ _ x hx; cases hx
  | cons o rest ih =>
    intro e0 hc x hx
    obtain ⟨_, hc'⟩ := hc
    cases rest with
    | nil =>
      simp at hx; subst hx; simp [lastE]
    | cons o' r' =>
      have hl : lastE (o :: o' :: r') = lastE (o' :: r') := by simp [lastE]
      rw [hl]
      have ho' : o'.1 ≤ lastE (o' :: r') := ih o.1 hc' o' (by simp)
      rcases List.mem_cons.1 hx with rfl | hx'
      · have := hc'.1; omega
      · exact ih o.1 hc' x hx'


/-- **the option search of the early-unlock penalty, every table length**: on a non-empty table whose
    lock periods are positive and strictly increasing the source's
    `calculate_penalty_percentage_full_unlock` IS the model's `pctFull`, for every remaining period
    (including the abort beyond the last option) -/
theorem penalty_full_unlock_all (opts : List Opt) (rem : Nat) (hne : opts ≠ []) (hs : Chain 0 opts) :
    srcPct opts rem = pctFull opts rem := by
  cases opts with
  | nil => exact absurd rfl hne
  | cons o rest =>
    obtain ⟨e1, p1⟩ := o
    obtain ⟨h0, hc⟩ := hs
    have hE : ∀ j, j ≤ rest.length → epochsAt ((e1, p1) :: rest) (0 + j) = (((e1, p1) :: rest).getD j (0, 0)).1 := by
      intro j _; simp [epochsAt]
    have hP : ∀ j, j ≤ rest.length → pctAt ((e1, p1) :: rest) (0 + j) = (((e1, p1) :: rest).getD j (0, 0)).2 := by
      intro j _; simp [pctAt]
    have hE0 : epochsAt ((e1, p1) :: rest) 0 = e1 := rfl
    have hP0 : pctAt ((e1, p1) :: rest) 0 = p1 := rfl
    have hlast : epochsAt ((e1, p1) :: rest) rest.length = lastE ((e1, p1) :: rest) := by
      simp [epochsAt, lastE]
    have hloop := loop_then_interp rem (epochsAt ((e1, p1) :: rest)) (pctAt ((e1, p1) :: rest)) rest 0 e1 p1 hE hP hc
    have hsub : sub? (rest.length + 1) 1 = some rest.length := by simp [sub?]
    by_cases hg : rem ≤ lastE ((e1, p1) :: rest)
    · have hg' : rem ≤ epochsAt ((e1, p1) :: rest) rest.length := hlast ▸ hg
      by_cases hb : 0 < rest.length ∧ e1 < rem
      · -- the search branch
        have := hloop hb.2
        simp [srcPct, KEnergyFactory.penalty_percentage_full_unlock, hsub, hE0, hP0, req, hg', hb.1, hb.2,
          pctFull, pctFrom, show ¬ rem ≤ e1 by omega]
        simpa [Option.bind] using this
      · -- below (or at) the first option, or a single option
        have hr : rem ≤ e1 := by
          by_cases hl : 0 < rest.length
          · have : ¬ e1 < rem := fun x => hb ⟨hl, x⟩; omega
          · have : rest = [] := List.length_eq_zero_iff.1 (by omega)
            subst this; simpa [lastE] using hg
        have hb' : ¬ (0 < rest.length ∧ e1 < rem) := hb
        simp [srcPct, KEnergyFactory.penalty_percentage_full_unlock, hsub, hE0, hP0, req, hg', hb',
          pctFull, pctFrom, hr, KMath.linear_interpolation_eq]
        omega
    · -- beyond the last option: both abort
      have hg' : ¬ rem ≤ epochsAt ((e1, p1) :: rest) rest.length := hlast ▸ hg
      have hall : ∀ x ∈ ((e1, p1) :: rest), x.1 < rem := fun x hx => by
        have := chain_le_last ((e1, p1) :: rest) 0 ⟨h0, hc⟩ x hx; omega
      simp [srcPct, KEnergyFactory.penalty_percentage_full_unlock, hsub, req, hg', pctFull,
        pctFrom_none_of_all_lt rem _ 0 0 hall]

/-- **end to end, every table**: `calculate_penalty_amount` (the view `getPenaltyAmount`, the penalty of
    `unlockEarly` / `reduceLockPeriod`) fed with the SOURCE's own percentage function — no opaque
    callee left — is the model's `penaltyAmount`, for every amount, every pair of remaining periods
    and every non-empty table with positive, strictly increasing lock periods -/
theorem penalty_amount_whole_source (opts : List Opt) (amt prev new : Nat) (hne : opts ≠ [])
    (hs : Chain 0 opts) :
    KEnergyFactory.calculate_penalty_amount amt prev new (srcPct opts) = penaltyAmount opts amt prev new := by
  have hf : srcPct opts = pctFull opts := funext fun rem => penalty_full_unlock_all opts rem hne hs
  rw [hf, KEnergyFactory.calculate_penalty_amount_eq]

/-- **end to end for a three-option table**: `calculate_penalty_amount` (the view `getPenaltyAmount`,
    the penalty of `unlockEarly` / `reduceLockPeriod`) fed with the SOURCE's own percentage function —
    no opaque callee left — is the model's `penaltyAmount`, for every amount and every pair of
    remaining periods -/
theorem penalty_amount_whole_source_three (e1 p1 e2 p2 e3 p3 amt prev new : Nat)
    (h1 : 0 < e1) (h2 : e1 < e2) (h3 : e2 < e3) :
    KEnergyFactory.calculate_penalty_amount amt prev new (srcPct [(e1, p1), (e2, p2), (e3, p3)]) =
      penaltyAmount [(e1, p1), (e2, p2), (e3, p3)] amt prev new := by
  have hf : srcPct [(e1, p1), (e2, p2), (e3, p3)] = pctFull [(e1, p1), (e2, p2), (e3, p3)] :=
    funext fun rem => penalty_full_unlock_partial_three e1 p1 e2 p2 e3 p3 rem h1 h2 h3
  rw [hf, KEnergyFactory.calculate_penalty_amount_eq]

-- the deployed table satisfies the hypothesis of `penalty_full_unlock_all` (non-vacuity), so:
example : Chain 0 [(360, 4000), (720, 6000), (1440, 8000)] := by simp [Chain]
example (rem : Nat) : srcPct [(360, 4000), (720, 6000), (1440, 8000)] rem =
    pctFull [(360, 4000), (720, 6000), (1440, 8000)] rem :=
  penalty_full_unlock_all _ rem (by simp) (by simp [Chain])
example : srcPct [(360, 4000), (720, 6000), (1440, 8000)] 540 = some 5000 := by decide
example : srcPct [(360, 4000), (720, 6000), (1440, 8000)] 540 =
    pctFull [(360, 4000), (720, 6000), (1440, 8000)] 540 := by decide
example : srcPct [(360, 4000), (720, 6000), (1440, 8000)] 180 = some 2000 := by decide
example : srcPct [(360, 4000), (720, 6000), (1440, 8000)] 1441 = none := by decide
example : srcPct [(360, 4000), (720, 6000), (1440, 8000), (2000, 9000)] 1720 = some 8500 := by decide

end Mx.KPenalty
