/-
  C05 — Farm reward accounting is exact and principal is fully backed (dex/farm = kind `mint`,
  dex/farm-with-locked-rewards = kind `noMint`; farm-staking has its own file).

  Statement: the reward reserve the contract reports equals rewards generated so far minus rewards
  paid out (for reward-minting farms: equals the contract's reward-token balance) and covers all
  claimable base rewards plus all not-yet-claimed boosted pools; the farming tokens held equal the
  reported farm-token supply; no legitimate call fails because an internal counter would go negative.

  Model: Core/Farm.lean.  Ghost fields the statements talk about: `generated` (Σ emissions),
  `paid = paidBase + paidBoosted` (Σ rewards paid or locked or compounded), `balFarming`/`balReward`
  (the contract's real balances: principal part / reward part; with farming = reward token the one
  real balance is their sum).  `StorageCache` is modelled as read-at-start / write-back-on-drop.
  Only property theorems here; lemmas are in Lemmas/Farm*.lean.
-/
import MxModel.Lemmas.FarmAcct
import MxModel.Lemmas.FarmSafe

namespace Mx.C05
open Mx.Farm

/-- one operation (any operation, any arguments) keeps the accounting invariant -/
theorem acct_step {s s' : St} {op : Op} {o : Out} (hA : Acct s) (h : step s op = some (s', o)) : Acct s' :=
  step_acct hA h

/-- **reserve_exact.**  After every history on a freshly deployed farm of either kind, with any
    division-safety constant, rate and configuration changes along the way:
    `reward_reserve = generated − paid`. -/
theorem reserve_exact (kind : Kind) (same : Bool) (dsc pb : Nat) (produce : Bool) (users : List Nat)
    (e0 : Nat) (ops : List Op) :
    let s := run (init kind same dsc pb produce users e0) ops
    s.reserve = s.generated - s.paid ∧ s.paid ≤ s.generated ∧ s.paid = s.paidBase + s.paidBoosted := by
  intro s
  have h := run_acct ops (init_acct kind same dsc pb produce users e0)
  have h1 : s.reserve + s.paid = s.generated := h.res
  have h2 : s.paid = s.paidBase + s.paidBoosted := h.split
  exact ⟨by omega, by omega, h2⟩

/-- **reserve_is_balance.**  In a reward-minting farm the reward part of the contract's balance is
    exactly the reported reserve (with farming ≠ reward token this is the whole reward-token balance;
    with farming = reward token the single real balance is `supply + reserve`, see `principal_backed`).
    A locked-rewards farm never holds reward tokens. -/
theorem reserve_is_balance (kind : Kind) (same : Bool) (dsc pb : Nat) (produce : Bool) (users : List Nat)
    (e0 : Nat) (ops : List Op) :
    let s := run (init kind same dsc pb produce users e0) ops
    (kind = .mint → s.balReward = s.reserve) ∧ (kind = .noMint → s.balReward = 0) := by
  intro s
  have h := run_acct ops (init_acct kind same dsc pb produce users e0)
  have hk : s.kind = kind := by
    show (run (init kind same dsc pb produce users e0) ops).kind = kind
    exact run_kind ops _
  exact ⟨fun hm => h.bal (hk.trans hm), fun hn => h.balN (hk.trans hn)⟩

/-- **principal_backed.**  The farming tokens held for positions always equal the reported
    farm-token supply: every position's principal is there to be withdrawn. -/
theorem principal_backed (kind : Kind) (same : Bool) (dsc pb : Nat) (produce : Bool) (users : List Nat)
    (e0 : Nat) (ops : List Op) :
    (run (init kind same dsc pb produce users e0) ops).balFarming =
      (run (init kind same dsc pb produce users e0) ops).supply :=
  (run_acct ops (init_acct kind same dsc pb produce users e0)).prin

/-- the real single-token balance of a farm whose farming token is its reward token -/
theorem same_token_balance (same : Bool) (dsc pb : Nat) (produce : Bool) (users : List Nat)
    (e0 : Nat) (ops : List Op) :
    let s := run (init .mint same dsc pb produce users e0) ops
    s.balFarming + s.balReward = s.supply + s.reserve := by
  intro s
  have h := run_acct ops (init_acct .mint same dsc pb produce users e0)
  have hk : s.kind = .mint := run_kind ops _
  have h1 : s.balReward = s.reserve := h.bal hk
  have h2 : s.balFarming = s.supply := h.prin
  omega

/-- **no_underflow (supply).**  In every reachable state, whoever holds `a > 0` of a position can
    take it out: `a ≤ farm_token_supply`, so the checked subtraction of `exitFarm` cannot fail. -/
theorem no_underflow_supply (kind : Kind) (same : Bool) (dsc pb : Nat) (produce : Bool) (users : List Nat)
    (e0 : Nat) (hnd : users.Nodup) (ops : List Op) (u n a : Nat) :
    let s := run (init kind same dsc pb produce users e0) ops
    a ≠ 0 → a ≤ s.hold u n → a ≤ s.supply ∧ a ≤ s.balFarming := by
  intro s ha h
  have hP := reachable_posInv kind same dsc pb produce users e0 hnd ops
  have hA := run_acct ops (init_acct kind same dsc pb produce users e0)
  have h1 : a ≤ s.supply := held_le_supply hP ha h
  have h2 : s.balFarming = s.supply := hA.prin
  exact ⟨h1, by omega⟩

/-- **no_underflow (owner total).**  … and out of the recorded owner's tracked total: the saturating
    `decrease_user_farm_position` never actually saturates, whoever the acting account is. -/
theorem no_underflow_owner_total (kind : Kind) (same : Bool) (dsc pb : Nat) (produce : Bool)
    (users : List Nat) (e0 : Nat) (hnd : users.Nodup) (ops : List Op) (u n a : Nat) (att : Attr) :
    let s := run (init kind same dsc pb produce users e0) ops
    a ≠ 0 → a ≤ s.hold u n → s.attrs n = some att → a ≤ s.userTotal att.owner := by
  intro s ha h hat
  exact held_le_ownerTotal (reachable_posInv kind same dsc pb produce users e0 hnd ops) ha h hat

/-- a failed transaction leaves the state untouched (atomicity as modelled) -/
theorem failed_tx_no_effect (s : St) (op : Op) (h : step s op = none) : run s [op] = s := by
  simp [run, h]

/-- non-vacuity: the history of corpus/farm/f1_claim_boosted.ops (boosted 25 %, one week of 10
    blocks, `claimBoostedRewards` in the second week) — every counter of the invariant is live -/
example :
    let s := run (init .mint false 1000000000000 1000 true [1, 2] 0)
      [.setFactors OWNER ⟨10, 3, 2, 1, 1⟩, .setPct OWNER 2500, .setEnergy 1 1000000 0 1000,
       .enter 1 none 100000000 [], .advance 10 6, .claim 1 none [(1, 100000000)], .advance 10 7,
       .claimBoosted 1 none]
    s.reserve = 0 ∧ s.generated = 10000 ∧ s.paid = 10000 ∧ s.paidBoosted = 2500 ∧
      s.balReward = 0 ∧ s.balFarming = 100000000 ∧ s.supply = 100000000 := by decide

end Mx.C05
