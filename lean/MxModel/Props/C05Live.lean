/-
  C05 (farm, farm-with-locked-rewards), last clause — LIVENESS of every plain user call:

    "… every position's principal is withdrawable and no legitimate enter/claim/exit/merge fails because an
     internal counter would go negative."

  Props/C05Budget.lean proves it for `exitFarm` (`no_underflow_full_holds`, all histories) and for
  `claimRewards` of ONE payment under `GoodOps`.  Here, for EVERY history of the farm model (both kinds;
  `GoodOps` discharged through `run_filter_good`, as for exit) and for the plain calls of a holder / user
  (no `opt_orig_caller`, no on-behalf variant):

  * `claim_always_succeeds`      — `claimRewards` with ANY non-empty list of payments the caller can pay
                                   (the first is claimed, the others merged in);
  * `enter_always_succeeds`      — `enterFarm` with a non-zero amount and any list of additional positions;
  * `merge_always_succeeds`      — `mergeFarmTokens`;
  * `compound_always_succeeds`   — `compoundRewards` where the contract allows it (dex/farm only, farming token
                                   = reward token: `require!(farming_token_id == reward_token_id)`);
                                   `compound_succeeds_of_config` (same, on the state's configuration cells),
                                   `compound_fails_elsewhere` (everywhere else it always fails);
  * `claimBoosted_always_succeeds` — `claimBoostedRewards` for oneself with a recorded farm position;
  * `exit_always_succeeds`       — `exitFarm` (restated from C05Budget at the level of `step`);
  * `no_legit_call_fails`        — the combined statement over the readable call-side guard `legit`;
  * `legit_of_succeeds`, `plain_call_succeeds_iff` — the guard list is EXACT: in every reachable state a plain
                                   user call of these six kinds succeeds if and only if `legit` holds.

  Every hypothesis is a condition on the CALL: the caller is a known account, the contract is active
  (not paused by the owner), the entered amount is non-zero, the payments are `payable` — non-zero amounts
  covered IN ORDER by what the caller holds of each nonce (the same nonce may be paid twice) —, the list is
  non-empty where the endpoint needs a first payment, the caller of `claimBoostedRewards` has a recorded
  `userTotalFarmPosition`.  None is a condition on an internal counter: all guards and checked
  subtractions inside (reserve − reward, the stored reserve − boosted of `claim_only_boosted_payment`,
  reward balance − reward, the weekly pools, the weekly module's energy bookkeeping, `into_part` /
  `merge_with` divisions, the week lookup, `lockVirtual`'s period, `update_energy_and_progress`) are discharged
  from the invariants `Acct`, `PosInv`, `PotInv`, `PoolInv`, `XInv`, `PaidInv`, `WInv`, `WeekPos`, which hold in
  every reachable state (`reachable_good`).

  Hypotheses of the run-level theorems: `users.Nodup` (distinct accounts) and `dsc ≠ 0`.
  Model: Core/Farm.lean.  Lemmas: Lemmas/FarmLiveAll.lean (on top of FarmLive / FarmWeekLive / FarmCover).
-/
import MxModel.Lemmas.FarmLivePlain
import MxModel.Lemmas.FarmSameTok
import MxModel.Props.C05Budget

namespace Mx.C05Live
open Mx.Farm Mx.Farm.Plain

/-- **every reachable state satisfies all the farm invariants** (`Good` bundles `Acct`, `PosInv`, `PotInv`,
    `PoolInv`, `XInv`, `dsc ≠ 0`, `PaidInv` in the current week, `WInv`, `WeekPos`) — for ALL histories:
    a `setBoostedYieldsFactors` with `cE + cF = 0` is a failed call (repair of F7), so the history equals its
    `GoodOps` part (`run_filter_good`). -/
theorem reachable_good (kind : Kind) (same : Bool) (dsc pb : Nat) (produce : Bool) (users : List Nat)
    (e0 : Nat) (hnd : users.Nodup) (hd : dsc ≠ 0) (ops : List Op) :
    ∃ W, (run (init kind same dsc pb produce users e0) ops).week = some W ∧
      Good (run (init kind same dsc pb produce users e0) ops) W := by
  rw [Mx.C05Budget.run_filter_good]
  have hg : GoodOps (ops.filter goodOp) :=
    goodOps_of_all (List.all_eq_true.mpr fun x hx => (List.mem_filter.mp hx).2)
  generalize ops.filter goodOp = ops' at hg
  obtain ⟨hA, hP, hK, hI, hdsc⟩ := reachable_invs kind same dsc pb produce users e0 hnd ops'
  have hWP := reachable_weekPos kind same dsc pb produce users e0 hnd ops'
  obtain ⟨W, hW⟩ := hWP.week
  exact ⟨W, hW, hA, hP, hK, hI, reachable_xinv kind same dsc pb produce users e0 ops',
    by rw [hdsc]; exact hd, reachable_paidInv kind same dsc pb produce users e0 hnd ops' hg W hW,
    reachable_winv kind same dsc pb produce users e0 ops', hWP⟩

/-- whoever can pay a non-empty list of position payments is a known account -/
theorem payer_known {s : St} {W u : Nat} {pays : List (Nat × Nat)} (hG : Good s W) (hne : pays ≠ [])
    (hpay : payable (s.hold u) pays = true) : u ∈ s.users := by
  cases pays with
  | nil => exact absurd rfl hne
  | cons p rest =>
    obtain ⟨n, a⟩ := p
    obtain ⟨ha, hle, _⟩ := payable_cons.mp hpay
    exact (hG.pos.dom u n (by omega)).1

/-! ### the five endpoints -/

/-- **claim_always_succeeds** (all histories, any number of payments).  In every reachable state of an
    active farm, `claimRewards` by `u` with a non-empty list of position payments `u` can pay — amounts
    non-zero and covered, in order, by what `u` holds; the first payment is the claimed position, the others
    are merged into the new token — succeeds.  No internal counter, guard or checked subtraction can fail. -/
theorem claim_always_succeeds (kind : Kind) (same : Bool) (dsc pb : Nat) (produce : Bool)
    (users : List Nat) (e0 : Nat) (hnd : users.Nodup) (hd : dsc ≠ 0) (ops : List Op)
    (u : Nat) (pays : List (Nat × Nat)) :
    let s := run (init kind same dsc pb produce users e0) ops
    s.active = true → pays ≠ [] → payable (s.hold u) pays = true →
      (step s (.claim u none pays)).isSome = true := by
  intro s hact hne hpay
  obtain ⟨W, _, hG⟩ := reachable_good kind same dsc pb produce users e0 hnd hd ops
  have hu := payer_known hG hne hpay
  show (if u ∈ s.users then claimRewards s u none pays else none).isSome = true
  rw [if_pos hu]
  cases pays with
  | nil => exact absurd rfl hne
  | cons p rest =>
    obtain ⟨n, a⟩ := p
    exact claimCore_ok (cmp := false) hG hact hpay (fun h => by cases h)

/-- **enter_always_succeeds.**  In every reachable state of an active farm, `enterFarm` by a known account
    `u` with a non-zero amount `amt` of the farming token and any list `extra` of additional position
    payments `u` can pay (possibly empty; they are merged into the new position) succeeds.
    Remaining guards, all on the call: `u` known, contract active, `amt ≠ 0`, `extra` payable. -/
theorem enter_always_succeeds (kind : Kind) (same : Bool) (dsc pb : Nat) (produce : Bool)
    (users : List Nat) (e0 : Nat) (hnd : users.Nodup) (hd : dsc ≠ 0) (ops : List Op)
    (u amt : Nat) (extra : List (Nat × Nat)) :
    let s := run (init kind same dsc pb produce users e0) ops
    u ∈ s.users → s.active = true → amt ≠ 0 → payable (s.hold u) extra = true →
      (step s (.enter u none amt extra)).isSome = true := by
  intro s hu hact hamt hpay
  obtain ⟨W, _, hG⟩ := reachable_good kind same dsc pb produce users e0 hnd hd ops
  show (if u ∈ s.users then enterFarm s u none amt extra else none).isSome = true
  rw [if_pos hu]
  exact enterCore_ok hG hact hamt hpay

/-- **merge_always_succeeds.**  In every reachable state of an active farm, `mergeFarmTokens` by `u` with a
    non-empty list of position payments `u` can pay succeeds (one payment is allowed: it re-mints the
    position with `u` as recorded owner). -/
theorem merge_always_succeeds (kind : Kind) (same : Bool) (dsc pb : Nat) (produce : Bool)
    (users : List Nat) (e0 : Nat) (hnd : users.Nodup) (hd : dsc ≠ 0) (ops : List Op)
    (u : Nat) (pays : List (Nat × Nat)) :
    let s := run (init kind same dsc pb produce users e0) ops
    s.active = true → pays ≠ [] → payable (s.hold u) pays = true →
      (step s (.merge u none pays)).isSome = true := by
  intro s hact hne hpay
  obtain ⟨W, _, hG⟩ := reachable_good kind same dsc pb produce users e0 hnd hd ops
  have hu := payer_known hG hne hpay
  show (if u ∈ s.users then mergeFarmTokens s u none pays else none).isSome = true
  rw [if_pos hu]
  exact mergeFarmTokens_ok hG hact hne hpay

/-- **compound succeeds wherever the contract allows it** (stated on the reached state's configuration
    cells `kind`, `sameTok`, which never change: `run_kind`, `run_sameTok`).  `compoundRewards` exists only in dex/farm (kind `mint`) and requires the
    farming token to be the reward token (`require!(farming_token_id == reward_token_id)`,
    farm_base_impl/compound_rewards.rs; `sameTok` is that deployment constant).  In every reachable state of
    such a farm, when active, compounding with a non-empty list of payments the caller can pay succeeds —
    including the move of the reward into the farming balance and the final `update_energy_and_progress`. -/
theorem compound_succeeds_of_config (kind : Kind) (same : Bool) (dsc pb : Nat) (produce : Bool)
    (users : List Nat) (e0 : Nat) (hnd : users.Nodup) (hd : dsc ≠ 0) (ops : List Op)
    (u : Nat) (pays : List (Nat × Nat)) :
    let s := run (init kind same dsc pb produce users e0) ops
    s.kind = .mint → s.sameTok = true →
    s.active = true → pays ≠ [] → payable (s.hold u) pays = true →
      (step s (.compound u none pays)).isSome = true := by
  intro s hk hst hact hne hpay
  obtain ⟨W, _, hG⟩ := reachable_good kind same dsc pb produce users e0 hnd hd ops
  have hu := payer_known hG hne hpay
  show (if u ∈ s.users then compoundRewards s u none pays else none).isSome = true
  rw [if_pos hu]
  cases pays with
  | nil => exact absurd rfl hne
  | cons p rest =>
    obtain ⟨n, a⟩ := p
    unfold compoundRewards
    refine isSome_bind (a := ()) (req_ok hk) ?_
    refine isSome_bind (a := u) rfl ?_
    exact claimCore_ok (cmp := true) hG hact hpay (fun _ => ⟨hst, hk⟩)

/-- **compound_always_succeeds.**  In every reachable state of a dex/farm deployed with farming token =
    reward token (`init .mint true …`; the two deployment constants never change), when active,
    `compoundRewards` with a non-empty list of payments the caller can pay succeeds. -/
theorem compound_always_succeeds (dsc pb : Nat) (produce : Bool)
    (users : List Nat) (e0 : Nat) (hnd : users.Nodup) (hd : dsc ≠ 0) (ops : List Op)
    (u : Nat) (pays : List (Nat × Nat)) :
    let s := run (init .mint true dsc pb produce users e0) ops
    s.active = true → pays ≠ [] → payable (s.hold u) pays = true →
      (step s (.compound u none pays)).isSome = true :=
  compound_succeeds_of_config .mint true dsc pb produce users e0 hnd hd ops u pays
    (run_kind ops _) (run_sameTok ops _)

/-- … and nowhere else: in a farm-with-locked-rewards, or when the farming token is not the reward token,
    every `compoundRewards` fails (the endpoint does not exist / `ERROR_DIFFERENT_TOKEN_IDS`) -/
theorem compound_fails_elsewhere (kind : Kind) (same : Bool) (dsc pb : Nat) (produce : Bool)
    (users : List Nat) (e0 : Nat) (ops : List Op) (c : Nat) (o : Option Nat) (pays : List (Nat × Nat))
    (h : kind = .noMint ∨ same = false) :
    step (run (init kind same dsc pb produce users e0) ops) (.compound c o pays) = none := by
  generalize hs : run (init kind same dsc pb produce users e0) ops = s
  have hk : s.kind = kind := by rw [← hs]; exact run_kind ops _
  have hst : s.sameTok = same := by rw [← hs]; exact run_sameTok ops _
  cases hr : step s (.compound c o pays) with
  | none => rfl
  | some r =>
    exfalso
    have hr' : known s c (compoundRewards s c o pays) = some r := hr
    unfold known at hr'
    split at hr'
    · unfold compoundRewards at hr'
      replace hr' := bpeel hr'; obtain ⟨_, hkm, hr'⟩ := hr'
      replace hr' := bpeel hr'; obtain ⟨orig, _, hr'⟩ := hr'
      obtain ⟨_, _, _, h4⟩ := claimCore_guards hr'
      have hkm' : s.kind = .mint := (req_eq_some _).mp hkm
      rcases h with h | h
      · rw [hk, h] at hkm'; cases hkm'
      · have := h4 rfl
        rw [hst, h] at this; cases this
    · cases hr'

/-- **claimBoosted_always_succeeds.**  In every reachable state of an active farm, `claimBoostedRewards` by a
    known account `u` for itself (`opt_user` absent or `u`) succeeds as soon as `u` has a recorded farm
    position (`userTotalFarmPosition(u)` non-empty — the endpoint's own `require!`; a foreign user is refused
    because `allowExternalClaim` cannot be set). -/
theorem claimBoosted_always_succeeds (kind : Kind) (same : Bool) (dsc pb : Nat) (produce : Bool)
    (users : List Nat) (e0 : Nat) (hnd : users.Nodup) (hd : dsc ≠ 0) (ops : List Op)
    (u : Nat) (opt : Option Nat) :
    let s := run (init kind same dsc pb produce users e0) ops
    u ∈ s.users → s.active = true → opt.getD u = u → s.userTotal u ≠ 0 →
      (step s (.claimBoosted u opt)).isSome = true := by
  intro s hu hact ho htot
  obtain ⟨W, _, hG⟩ := reachable_good kind same dsc pb produce users e0 hnd hd ops
  show (if u ∈ s.users then claimBoostedRewards s u opt else none).isSome = true
  rw [if_pos hu]
  have h := claimBoostedRewards_ok hG hact htot
  cases opt with
  | none => exact h
  | some v =>
    have hv : v = u := ho
    subst hv
    exact h

/-- **exit_always_succeeds** at the level of `step` (from `C05Budget.no_underflow_full_holds`): whoever holds
    `a > 0` of position `n` in an active farm can exit with it -/
theorem exit_always_succeeds (kind : Kind) (same : Bool) (dsc pb : Nat) (produce : Bool)
    (users : List Nat) (e0 : Nat) (hnd : users.Nodup) (hd : dsc ≠ 0) (ops : List Op) (u n a : Nat) :
    let s := run (init kind same dsc pb produce users e0) ops
    s.active = true → payable (s.hold u) [(n, a)] = true →
      (step s (.exit u none n a)).isSome = true := by
  intro s hact hpay
  obtain ⟨W, _, hG⟩ := reachable_good kind same dsc pb produce users e0 hnd hd ops
  have hu := payer_known hG (by simp) hpay
  obtain ⟨ha, hle, _⟩ := payable_cons.mp hpay
  show (if u ∈ s.users then exitFarm s u none n a else none).isSome = true
  rw [if_pos hu]
  exact Mx.C05Budget.no_underflow_full_holds kind same dsc pb produce users e0 ops hnd hd u n a hu hact ha hle

/-! ### the combined statement -/

/-- **the call-side guard of a plain user call** (the caller acts for itself: no `opt_orig_caller`, no
    on-behalf endpoint).  Readable list of everything a caller has to get right:
    * the caller is a known account and the contract is active (not paused);
    * `enterFarm`: the farming-token amount is non-zero, the additional positions are `payable`;
    * `claimRewards`, `mergeFarmTokens`: at least one payment, the payments are `payable`;
    * `compoundRewards`: the same, in a minting farm whose farming token is the reward token;
    * `exitFarm`: the single payment is `payable` (non-zero, at most what the caller holds);
    * `claimBoostedRewards`: for oneself, with a recorded farm position.
    Every other op kind (admin calls, whitelisted-contract calls with `opt_orig_caller`, …) is not covered. -/
def legit (s : St) : Op → Bool
  | .enter c none amt extra =>
      decide (c ∈ s.users) && s.active && (amt != 0) && payable (s.hold c) extra
  | .claim c none pays =>
      decide (c ∈ s.users) && s.active && !pays.isEmpty && payable (s.hold c) pays
  | .compound c none pays =>
      decide (c ∈ s.users) && s.active && decide (s.kind = .mint) && s.sameTok &&
        !pays.isEmpty && payable (s.hold c) pays
  | .exit c none n a =>
      decide (c ∈ s.users) && s.active && payable (s.hold c) [(n, a)]
  | .merge c none pays =>
      decide (c ∈ s.users) && s.active && !pays.isEmpty && payable (s.hold c) pays
  | .claimBoosted c u =>
      decide (c ∈ s.users) && s.active && decide (u.getD c = c) && (s.userTotal c != 0)
  | _ => false

/-- `!l.isEmpty` means `l ≠ []` -/
theorem ne_nil_of_not_isEmpty {α : Type} {l : List α} (h : (!l.isEmpty) = true) : l ≠ [] := by
  intro hl; subst hl; simp at h

/-- **no_legit_call_fails.**  For every reachable state of the farm (either kind, every history) and every
    operation whose call-side guard `legit` holds, the operation SUCCEEDS: no legitimate
    enter / claim / compound / exit / merge / claimBoostedRewards fails because an internal counter would go
    negative — or for any other internal reason. -/
theorem no_legit_call_fails (kind : Kind) (same : Bool) (dsc pb : Nat) (produce : Bool)
    (users : List Nat) (e0 : Nat) (hnd : users.Nodup) (hd : dsc ≠ 0) (ops : List Op) (op : Op) :
    let s := run (init kind same dsc pb produce users e0) ops
    legit s op = true → (step s op).isSome = true := by
  intro s hl
  cases op with
  | enter c o amt extra =>
    cases o with
    | some x => simp [legit] at hl
    | none =>
      simp only [legit, Bool.and_eq_true, decide_eq_true_eq, bne_iff_ne, ne_eq] at hl
      obtain ⟨⟨⟨hu, hact⟩, hamt⟩, hpay⟩ := hl
      exact enter_always_succeeds kind same dsc pb produce users e0 hnd hd ops c amt extra hu hact hamt hpay
  | claim c o pays =>
    cases o with
    | some x => simp [legit] at hl
    | none =>
      simp only [legit, Bool.and_eq_true, decide_eq_true_eq] at hl
      obtain ⟨⟨⟨_, hact⟩, hne⟩, hpay⟩ := hl
      exact claim_always_succeeds kind same dsc pb produce users e0 hnd hd ops c pays hact
        (ne_nil_of_not_isEmpty hne) hpay
  | compound c o pays =>
    cases o with
    | some x => simp [legit] at hl
    | none =>
      simp only [legit, Bool.and_eq_true, decide_eq_true_eq] at hl
      obtain ⟨⟨⟨⟨⟨_, hact⟩, hk⟩, hst⟩, hne⟩, hpay⟩ := hl
      exact compound_succeeds_of_config kind same dsc pb produce users e0 hnd hd ops c pays hk hst hact
        (ne_nil_of_not_isEmpty hne) hpay
  | exit c o n a =>
    cases o with
    | some x => simp [legit] at hl
    | none =>
      simp only [legit, Bool.and_eq_true, decide_eq_true_eq] at hl
      obtain ⟨⟨_, hact⟩, hpay⟩ := hl
      exact exit_always_succeeds kind same dsc pb produce users e0 hnd hd ops c n a hact hpay
  | merge c o pays =>
    cases o with
    | some x => simp [legit] at hl
    | none =>
      simp only [legit, Bool.and_eq_true, decide_eq_true_eq] at hl
      obtain ⟨⟨⟨_, hact⟩, hne⟩, hpay⟩ := hl
      exact merge_always_succeeds kind same dsc pb produce users e0 hnd hd ops c pays hact
        (ne_nil_of_not_isEmpty hne) hpay
  | claimBoosted c u =>
    simp only [legit, Bool.and_eq_true, decide_eq_true_eq, bne_iff_ne, ne_eq] at hl
    obtain ⟨⟨⟨hu, hact⟩, ho⟩, htot⟩ := hl
    exact claimBoosted_always_succeeds kind same dsc pb produce users e0 hnd hd ops c u hu hact ho htot
  | _ => simp [legit] at hl

/-! ### the guard list is exact -/

/-- the six kinds of plain user calls `legit` talks about -/
def plain : Op → Bool
  | .enter _ none _ _ | .claim _ none _ | .compound _ none _ | .exit _ none _ _ | .merge _ none _
  | .claimBoosted _ _ => true
  | _ => false

/-- `known`: only accounts of the world act -/
theorem step_known {s : St} {c : Nat} {r : Option (St × Out)} (h : (known s c r).isSome = true) :
    c ∈ s.users ∧ r.isSome = true := by
  unfold known at h
  split at h
  · exact ⟨‹_›, h⟩
  · cases h

/-- **nothing in `legit` is superfluous**: in ANY state, a plain user call that succeeds satisfied its
    call-side guard (each conjunct of `legit` is a `require!` / a payment the VM would refuse). -/
theorem legit_of_succeeds (s : St) (op : Op) (hp : plain op = true)
    (h : (step s op).isSome = true) : legit s op = true := by
  cases op with
  | enter c o amt extra =>
    cases o with
    | some x => simp [plain] at hp
    | none =>
      obtain ⟨hu, h⟩ := step_known h
      obtain ⟨r, hr⟩ := Option.isSome_iff_exists.mp h
      obtain ⟨h1, h2, h3⟩ := enterCore_guards_p (show enterCore s c c c amt extra = some r from hr)
      simp only [legit, Bool.and_eq_true, decide_eq_true_eq, bne_iff_ne, ne_eq]
      exact ⟨⟨⟨hu, h3⟩, h1⟩, h2⟩
  | claim c o pays =>
    cases o with
    | some x => simp [plain] at hp
    | none =>
      obtain ⟨hu, h⟩ := step_known h
      obtain ⟨r, hr⟩ := Option.isSome_iff_exists.mp h
      obtain ⟨h1, h2, h3, _⟩ := claimCore_guards (show claimCore s c c pays false = some r from hr)
      simp only [legit, Bool.and_eq_true, decide_eq_true_eq]
      refine ⟨⟨⟨hu, h3⟩, ?_⟩, h2⟩
      cases pays with
      | nil => exact absurd rfl h1
      | cons _ _ => rfl
  | compound c o pays =>
    cases o with
    | some x => simp [plain] at hp
    | none =>
      obtain ⟨hu, h⟩ := step_known h
      obtain ⟨r, hr⟩ := Option.isSome_iff_exists.mp h
      have hr' : compoundRewards s c none pays = some r := hr
      unfold compoundRewards at hr'
      replace hr' := bpeel hr'; obtain ⟨_, hk, hr'⟩ := hr'
      obtain ⟨h1, h2, h3, h4⟩ := claimCore_guards (show claimCore s c c pays true = some r from hr')
      simp only [legit, Bool.and_eq_true, decide_eq_true_eq]
      refine ⟨⟨⟨⟨⟨hu, h3⟩, (req_eq_some _).mp hk⟩, h4 rfl⟩, ?_⟩, h2⟩
      cases pays with
      | nil => exact absurd rfl h1
      | cons _ _ => rfl
  | exit c o n a =>
    cases o with
    | some x => simp [plain] at hp
    | none =>
      obtain ⟨hu, h⟩ := step_known h
      obtain ⟨r, hr⟩ := Option.isSome_iff_exists.mp h
      obtain ⟨h1, h2⟩ := exitFarm_guards_p hr
      simp only [legit, Bool.and_eq_true, decide_eq_true_eq]
      exact ⟨⟨hu, h2⟩, h1⟩
  | merge c o pays =>
    cases o with
    | some x => simp [plain] at hp
    | none =>
      obtain ⟨hu, h⟩ := step_known h
      obtain ⟨r, hr⟩ := Option.isSome_iff_exists.mp h
      obtain ⟨h1, h2, h3⟩ := mergeFarmTokens_guards hr
      simp only [legit, Bool.and_eq_true, decide_eq_true_eq]
      refine ⟨⟨⟨hu, h1⟩, ?_⟩, h3⟩
      cases pays with
      | nil => exact absurd rfl h2
      | cons _ _ => rfl
  | claimBoosted c u =>
    obtain ⟨hu, h⟩ := step_known h
    obtain ⟨r, hr⟩ := Option.isSome_iff_exists.mp h
    obtain ⟨h1, h2, h3⟩ := claimBoostedRewards_guards_p hr
    simp only [legit, Bool.and_eq_true, decide_eq_true_eq, bne_iff_ne, ne_eq]
    exact ⟨⟨⟨hu, h3⟩, h1⟩, h2⟩
  | _ => simp [plain] at hp

/-- **a plain user call succeeds exactly when its call-side guard holds**, in every reachable state of the
    farm: `legit` is the complete and irredundant list of reasons for which an enter / claim / compound /
    exit / merge / claimBoostedRewards of a user acting for itself can fail. -/
theorem plain_call_succeeds_iff (kind : Kind) (same : Bool) (dsc pb : Nat) (produce : Bool)
    (users : List Nat) (e0 : Nat) (hnd : users.Nodup) (hd : dsc ≠ 0) (ops : List Op) (op : Op) :
    let s := run (init kind same dsc pb produce users e0) ops
    plain op = true → ((step s op).isSome = true ↔ legit s op = true) :=
  fun hp => ⟨legit_of_succeeds _ op hp,
    no_legit_call_fails kind same dsc pb produce users e0 hnd hd ops op⟩

/-! ### non-vacuity -/

/-- the history of the examples: boosted factors and a 25 % boosted cut; users 1 and 2 (energy 1 : 3) enter
    1000 and 3000 and farm through week 1 (10 blocks: week 1's boosted pool is 2500); user 1 re-mints its
    position by a claim (nonce 3), user 2 SENDS 500 of its position (nonce 2) to user 1; then week 2 begins:
    week 1's pool is pending (not yet frozen, nobody has claimed it) and user 1 holds a received position
    whose recorded owner is user 2. -/
def liveOps : List Op :=
  [.setFactors OWNER ⟨10, 3, 2, 1, 1⟩, .setPct OWNER 2500, .setEnergy 1 1000000 0 1000,
   .setEnergy 2 3000000 0 1000, .enter 1 none 1000 [], .enter 2 none 3000 [], .advance 10 6,
   .claim 1 none [(1, 1000)], .transfer 2 1 2 500, .advance 20 7]

def liveState : St := run (init .mint true 1000000000000 1000 true [1, 2] 0) liveOps

/-- non-vacuity of `no_legit_call_fails` and of the five endpoint theorems (closed, by `decide`): in
    `liveState` — week 2, week 1's boosted pool of 2500 pending, user 1 holding its own position 3 (1000) and
    500 of the received position 2 — `legit` holds for an enter with a received position merged in, a claim
    and a compound with two payments, a merge, an exit with the received position, and user 2's
    `claimBoostedRewards`; each succeeds and pays the pending boosted share (623 of user 1, 1876 of user 2).
    `legit` is false for an overdrawn payment list (501 of nonce 2; 300 + 201 of nonce 2) — and true for
    300 + 200, the same nonce paid twice. -/
example :
    let s := liveState
    s.week = some 2 ∧ s.b.accum 1 = 2500 ∧ s.hold 1 3 = 1000 ∧ s.hold 1 2 = 500 ∧
    (s.attrs 2).map (·.owner) = some 2 ∧ s.userTotal 1 = 1000 ∧ s.userTotal 2 = 3000 ∧
    legit s (.enter 1 none 7 [(2, 500)]) = true ∧
    legit s (.claim 1 none [(3, 1000), (2, 200)]) = true ∧
    legit s (.compound 1 none [(3, 1000), (2, 200)]) = true ∧
    legit s (.merge 1 none [(3, 400), (2, 500)]) = true ∧
    legit s (.exit 1 none 2 500) = true ∧
    legit s (.claimBoosted 2 none) = true ∧
    legit s (.claim 1 none [(2, 300), (2, 200)]) = true ∧
    legit s (.claim 1 none [(3, 1000), (2, 501)]) = false ∧
    legit s (.claim 1 none [(2, 300), (2, 201)]) = false ∧
    legit s (.claimBoosted 2 (some 1)) = false := by
  decide

/-- … and what the calls do there (the model computes; the theorems above say they cannot fail):
    `(new nonce, amount, reward)` of enter / claim / compound / merge, the boosted reward of
    `claimBoostedRewards`, `(reward, farming tokens)` of the exit -/
example :
    let s := liveState
    (step s (.enter 1 none 7 [(2, 500)])).map (fun r => (r.2.nonce, r.2.amt, r.2.rew)) = some (4, 507, 623) ∧
    (step s (.claim 1 none [(3, 1000), (2, 200)])).map (fun r => (r.2.nonce, r.2.amt, r.2.rew)) =
      some (4, 1200, 2498) ∧
    (step s (.compound 1 none [(3, 1000), (2, 200)])).map (fun r => (r.2.nonce, r.2.amt, r.2.rew)) =
      some (4, 3698, 2498) ∧
    (step s (.merge 1 none [(3, 400), (2, 500)])).map (fun r => (r.2.nonce, r.2.amt, r.2.rew)) =
      some (4, 900, 623) ∧
    (step s (.claimBoosted 2 none)).map (fun r => r.2.rew) = some 1876 ∧
    (step s (.exit 1 none 2 500)).map (fun r => (r.2.rew, r.2.farming)) = some (2498, 500) ∧
    (step s (.claim 1 none [(3, 1000), (2, 501)])).isSome = false := by
  decide

end Mx.C05Live
