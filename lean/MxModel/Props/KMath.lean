/-
  KMath — the model's shared arithmetic (`Core/Arith.lean`) computes what the SOURCE of
  `common/modules/math/src/lib.rs` computes.

  `Gen/KMath.lean` is regenerated on every run by `bin/gen-kernels` from the Rust text; the
  theorems below are re-checked against whatever the source says now.  Each one gives the EXACT
  abort condition of the source function and, outside it, the model function it equals:

  * `linear_interpolation`      = `linInterp`            (aborts outside `[min_in, max_in]` and on
                                                          `min_in = max_in`: division by zero)
  * `weighted_average`          = `weightedAvg`          (aborts on a zero weight sum)
  * `weighted_average_round_up` = `weightedAvgRoundUp`   (aborts on a zero weight sum)
  * `safe_sub`                  = truncated subtraction  (never aborts)
-/
import MxModel.Gen.KMath
import MxModel.Lemmas.KTactic

namespace Mx.KMath
open Mx Mx.Gen

/-- source `linear_interpolation` = model `linInterp`; the source aborts exactly when the input
    lies outside `[min_in, max_in]` ("Invalid values") or the interval is degenerate
    (`max_in = min_in`, `BigUint` division by zero) -/
theorem linear_interpolation_eq (minIn maxIn curIn minOut maxOut : Nat) :
    KMath.linear_interpolation minIn maxIn curIn minOut maxOut =
      if curIn < minIn ∨ maxIn < curIn ∨ maxIn = minIn then none
      else some (linInterp minIn maxIn curIn minOut maxOut) := by
  k_defs [KMath.linear_interpolation, linInterp]
  k_solve

/-- inside a proper interval the source returns the model's interpolation -/
theorem linear_interpolation_some (minIn maxIn curIn minOut maxOut : Nat)
    (h1 : minIn ≤ curIn) (h2 : curIn ≤ maxIn) (h3 : minIn < maxIn) :
    KMath.linear_interpolation minIn maxIn curIn minOut maxOut =
      some (linInterp minIn maxIn curIn minOut maxOut) := by
  rw [linear_interpolation_eq, if_neg (by omega)]

/-- the source aborts on an input outside the interval -/
theorem linear_interpolation_out_of_range (minIn maxIn curIn minOut maxOut : Nat)
    (h : curIn < minIn ∨ maxIn < curIn) :
    KMath.linear_interpolation minIn maxIn curIn minOut maxOut = none := by
  rw [linear_interpolation_eq, if_pos (by omega)]

/-- source `weighted_average` = model `weightedAvg` (floor); aborts exactly on a zero weight sum -/
theorem weighted_average_eq (v1 w1 v2 w2 : Nat) :
    KMath.weighted_average v1 w1 v2 w2 =
      if w1 + w2 = 0 then none else some (weightedAvg v1 w1 v2 w2) := by
  k_defs [KMath.weighted_average, weightedAvg]
  k_solve

/-- source `weighted_average_round_up` = model `weightedAvgRoundUp` (ceiling); aborts exactly on a
    zero weight sum (the `- 1` underflows: both the weighted sum and the weight sum are 0) -/
theorem weighted_average_round_up_eq (v1 w1 v2 w2 : Nat) :
    KMath.weighted_average_round_up v1 w1 v2 w2 =
      if w1 + w2 = 0 then none else some (weightedAvgRoundUp v1 w1 v2 w2) := by
  k_defs [KMath.weighted_average_round_up, weightedAvgRoundUp, ceilDiv]
  k_solve

/-- source `safe_sub` is truncated subtraction (`Nat` subtraction) and never aborts -/
theorem safe_sub_eq (a b : Nat) : KMath.safe_sub a b = some (a - b) := by
  k_defs [KMath.safe_sub]
  k_solve

/-- the ceiling average is the floor average or one more (rounding direction of the two source
    functions differs by at most one unit) -/
theorem round_up_ge_floor (v1 w1 v2 w2 r u : Nat)
    (hr : KMath.weighted_average v1 w1 v2 w2 = some r)
    (hu : KMath.weighted_average_round_up v1 w1 v2 w2 = some u) : r ≤ u ∧ u ≤ r + 1 := by
  rw [weighted_average_eq] at hr
  rw [weighted_average_round_up_eq] at hu
  by_cases h : w1 + w2 = 0
  · rw [if_pos h] at hr; cases hr
  · rw [if_neg h, Option.some.injEq] at hr hu
    subst hr hu
    simp only [weightedAvg, weightedAvgRoundUp, ceilDiv]
    generalize v1 * w1 + v2 * w2 = x
    generalize hw : w1 + w2 = w at h
    have hpos : 0 < w := by omega
    constructor
    · exact Nat.div_le_div_right (by omega)
    · have : (x + w - 1) / w ≤ (x + w) / w := Nat.div_le_div_right (by omega)
      rw [Nat.add_div_right x hpos] at this
      exact this

example : KMath.linear_interpolation 10 20 15 100 200 = some 150 := by decide
example : KMath.linear_interpolation 10 10 10 100 200 = none := by decide
example : KMath.weighted_average_round_up 1 1 2 1 = some 2 := by decide
example : KMath.weighted_average 1 1 2 1 = some 1 := by decide
example : KMath.safe_sub 3 5 = some 0 := by decide

end Mx.KMath
