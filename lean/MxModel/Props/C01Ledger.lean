/-
  C01 (per-account ledger) — "… the LP total supply it reports equals the sum of LP tokens held
  by all accounts (including the permanently locked minimum liquidity) …", and the pool tokens
  are conserved across every wallet.

  Model: Core/PairLedger.lean = Core/Pair.lean + the ESDT wallet of every account that calls
  the pair (`L.accts`), the pair contract's own wallet kept by transfer book-keeping
  (`L.pairA / pairB / pairLp`) and everything ever handed to the accounts (`L.supplyA / supplyB`).
  The wallets are compared with the REAL ESDT balances after every transaction of the
  correspondence run (`acct=` entry of the state line, harness `w_pair`).

  Every theorem quantifies over ALL histories of ledger operations (`LOp.call i op`: account
  `i` calls the pair with any operation and any arguments; `LOp.xfer src dst token x`: a plain
  ESDT transfer of LP / pool tokens between two accounts, no contract involved — see
  Props/C01Xfer.lean; `LOp.fund`: the test faucet) from a freshly deployed pair and any initial
  endowment.  Helper lemmas: Lemmas/PairFlow.lean,
  Lemmas/PairStepFlow.lean, Lemmas/PairLedgerInv.lean.
-/
import MxModel.Lemmas.PairLedgerInv

namespace Mx.C01Ledger
open Mx.Pair Mx.PairLedger

/-- one ledger operation preserves the ledger invariant (any caller, operation, arguments) -/
theorem inv_step {l l' : L} {op : LOp} {o : Out} (hi : LInv l) (h : stepL l op = some (l', o)) :
    LInv l' :=
  stepL_inv hi h

/-- the ledger invariant holds after every history -/
theorem inv_run (total special : Nat) (adder : Option Nat) (cap : Nat) (funds : List (Nat × Nat))
    (ops : List LOp) : LInv (runL (initL total special adder cap funds) ops) :=
  runL_inv ops (initL_inv total special adder cap funds)

/-- (1) After every history the LP supply the pair reports is EXACTLY the sum of the LP tokens
    in all accounts' wallets plus the LP tokens the pair contract itself holds (the locked
    minimum liquidity) — no LP token exists outside these wallets and none is counted twice.
    It also equals the model's minted-minus-burned counter `lpCirc`. -/
theorem lp_supply_eq_sum_of_holdings (total special : Nat) (adder : Option Nat) (cap : Nat)
    (funds : List (Nat × Nat)) (ops : List LOp) :
    let l := runL (initL total special adder cap funds) ops
    l.p.S = sumOf (·.lp) l.accts + l.pairLp ∧ l.p.S = l.p.lpCirc := by
  have h := inv_run total special adder cap funds ops
  exact ⟨h.lpSum, h.inv.supply⟩

/-- (2a) After every history: once the pool has liquidity the pair contract's own LP wallet
    holds exactly the 1000 units of minimum liquidity (so at least 1000), and before that it
    holds nothing; in particular no account can ever withdraw them. -/
theorem locked_minimum_held_by_pair (total special : Nat) (adder : Option Nat) (cap : Nat)
    (funds : List (Nat × Nat)) (ops : List LOp) :
    let l := runL (initL total special adder cap funds) ops
    (0 < l.p.S → l.pairLp = MINLIQ ∧ sumOf (·.lp) l.accts + MINLIQ = l.p.S) ∧
    (l.p.S = 0 → l.pairLp = 0 ∧ sumOf (·.lp) l.accts = 0) := by
  intro l
  have h : LInv l := inv_run total special adder cap funds ops
  have h1 := h.pairLp
  have h2 := h.lpSum
  refine ⟨fun hS => ?_, fun hS => ?_⟩
  · have := h.inv.ownPos hS
    exact ⟨by omega, by omega⟩
  · have := h.inv.ownZero hS
    exact ⟨by omega, by omega⟩

/-- (2b) The pair contract's own LP wallet never decreases: whatever happens after a history
    `before`, it holds at least what it held then. -/
theorem pair_lp_never_decreases (total special : Nat) (adder : Option Nat) (cap : Nat)
    (funds : List (Nat × Nat)) (before after : List LOp) :
    (runL (initL total special adder cap funds) before).pairLp ≤
    (runL (initL total special adder cap funds) (before ++ after)).pairLp := by
  rw [runL_append]
  exact runL_pairLp_mono after (inv_run total special adder cap funds before)

/-- (2c) Once liquidity exists it exists forever, and from then on the pair holds its 1000
    locked LP units after every later transaction. -/
theorem locked_minimum_forever (total special : Nat) (adder : Option Nat) (cap : Nat)
    (funds : List (Nat × Nat)) (before after : List LOp)
    (h : 0 < (runL (initL total special adder cap funds) before).p.S) :
    let l := runL (initL total special adder cap funds) (before ++ after)
    0 < l.p.S ∧ l.pairLp = MINLIQ := by
  intro l
  have hb := inv_run total special adder cap funds before
  have hS : 0 < l.p.S := by
    show 0 < (runL _ (before ++ after)).p.S
    rw [runL_append, runL_p]
    exact run_S_pos _ hb.inv h
  exact ⟨hS, ((locked_minimum_held_by_pair total special adder cap funds (before ++ after)).1 hS).1⟩

/-- (3) Conservation of both pool tokens across ALL wallets, after every history: everything
    ever handed to the accounts (initial endowment + faucet) is, to the unit, in some account's
    wallet, in the pair contract's wallet, burned, in the fees collector, forwarded to a
    trusted pair, or held by simple-lock as the backing of LOCKED tokens.  Nothing appears
    from nowhere and nothing vanishes. -/
theorem token_conservation (total special : Nat) (adder : Option Nat) (cap : Nat)
    (funds : List (Nat × Nat)) (ops : List LOp) :
    let l := runL (initL total special adder cap funds) ops
    l.supplyA = sumOf (·.a) l.accts + l.pairA + l.p.burn1 + l.p.coll1 + l.p.ext1 + l.p.slk1 ∧
    l.supplyB = sumOf (·.b) l.accts + l.pairB + l.p.burn2 + l.p.coll2 + l.p.ext2 + l.p.slk2 := by
  have h := inv_run total special adder cap funds ops
  exact ⟨h.consA, h.consB⟩

/-- (3') The supply side of (3): a call of the pair never creates pool tokens — only the
    faucet does, and by exactly the amount it hands out. -/
theorem calls_create_nothing {l l' : L} {i : Nat} {op : Op} {o : Out}
    (h : stepL l (.call i op) = some (l', o)) : l'.supplyA = l.supplyA ∧ l'.supplyB = l.supplyB := by
  obtain ⟨_, _, _, _, _, _, _, _, _, _, _, e6, e7⟩ := stepL_call_spec h
  exact ⟨e6, e7⟩

/-- (4) The pair contract's wallet as kept by transfer book-keeping (received from callers −
    sent to callers − moved to the sinks) coincides after every history with the balances the
    pair model debits and credits itself (`bal1/bal2/lpOwn`); hence C01's backing statement
    `reserve ≤ balance` is a statement about the ledger's pair wallet. -/
theorem pair_wallet_eq_model_balances (total special : Nat) (adder : Option Nat) (cap : Nat)
    (funds : List (Nat × Nat)) (ops : List LOp) :
    let l := runL (initL total special adder cap funds) ops
    l.pairA = l.p.bal1 ∧ l.pairB = l.p.bal2 ∧ l.pairLp = l.p.lpOwn ∧
    l.p.r1 ≤ l.pairA ∧ l.p.r2 ≤ l.pairB := by
  have h := inv_run total special adder cap funds ops
  refine ⟨h.pairA, h.pairB, h.pairLp, ?_, ?_⟩
  · rw [h.pairA]; exact h.inv.back1
  · rw [h.pairB]; exact h.inv.back2

/-- (5) After every history the LOCKED tokens in the accounts' wallets (per wrapped pool
    token) equal simple-lock's holdings of that pool token: every LOCKED token any account
    holds is backed 1:1. -/
theorem locked_tokens_backed (total special : Nat) (adder : Option Nat) (cap : Nat)
    (funds : List (Nat × Nat)) (ops : List LOp) :
    let l := runL (initL total special adder cap funds) ops
    sumOf (·.lkA) l.accts = l.p.slk1 ∧ sumOf (·.lkB) l.accts = l.p.slk2 := by
  have h := inv_run total special adder cap funds ops
  exact ⟨h.lkA, h.lkB⟩

/-- The pair inside the ledger is a pair reachable by `Pair.run` (so every theorem of
    Props/C01–C04 about `run (init …) ops` applies to it): a ledger history differs from a pair
    history only in that calls whose caller cannot pay are failed transactions. -/
theorem ledger_pair_reachable (total special : Nat) (adder : Option Nat) (cap : Nat)
    (funds : List (Nat × Nat)) (ops : List LOp) :
    ∃ pops : List Op, (runL (initL total special adder cap funds) ops).p =
      run (init total special adder cap) pops :=
  ⟨_, runL_p ops _⟩

/-- A ledger call fails only if the pair rejects the operation, the account does not exist, or
    the caller's wallet is short of what the call sends (all real failure modes). -/
theorem call_succeeds {l : L} {i : Nat} {op : Op} {p' : St} {o : Out} {acc : Acct}
    (hs : step l.p op = some (p', o)) (ha : l.accts[i]? = some acc)
    (h1 : (move op o).payA ≤ acc.a) (h2 : (move op o).payB ≤ acc.b)
    (h3 : (move op o).payLp ≤ acc.lp) : (stepL l (.call i op)).isSome = true := by
  have := pay_isSome h1 h2 h3
  obtain ⟨acc', hp⟩ := Option.isSome_iff_exists.mp this
  simp [stepL, hs, ha, hp]

/-- non-vacuity: three accounts, a history with liquidity added by two of them, fee routing to
    the burn address / the collector, a LOCKED swap output, a removal, a faucet top-up and a
    call rejected because the caller holds no LP; all ledger columns are live. -/
example :
    let l := runL (initL 300 50 none 8 [(5000000, 5000000), (3000000, 3000000), (100, 100)])
      [.call 2 (.cfg (.setState .active)), .call 0 (.addLiq 1000000 2000000 1 1),
       .call 2 (.cfg (.addDest .first)), .call 2 (.cfg (.addDest .second)),
       .call 2 (.cfg (.setCollector 50000)), .call 2 (.advance 3),
       .call 2 (.lock true (.setSc .simpleLock)), .call 2 (.lock true (.setDeadline 2)),
       .call 2 (.lock true (.setUnlock 7)), .call 1 (.addLiq 500000 1000000 1 1),
       .call 1 (.swapIn .ab 100000 1), .call 2 (.epoch 2), .call 0 (.swapOut .ba 500000 1000),
       .call 2 (.removeLiq 5000 1 1), .fund 2 true 7000, .call 0 (.removeLiq 5000 1 1)]
    l.p.S = 1495000 ∧ l.pairLp = 1000 ∧ (l.accts.map (·.lp)) = [994000, 500000, 0] ∧
    0 < l.p.burn1 ∧ 0 < l.p.coll1 ∧ 0 < l.p.slk2 ∧ (l.accts.map (·.lkB)) = [0, l.p.slk2, 0] ∧
    l.supplyA = 8000100 + 6900 ∧ l.p.r1 < l.pairA := by
  decide

end Mx.C01Ledger
