/-
  C19, clause "rewards claimed on behalf go to the position owner" — on WALLETS.

  `Props/C19Models.lean` states the clause on what the wallet-less farm model records (the owner's
  entitlement, the recorded owner of the new position, the energy entry).  This file states it on the
  per-account wallet ledger `Core/FarmLedger.lean` (farm model + every account's wallet of the farming
  token and of the token rewards are paid in: the reward token for dex/farm, the LOCKED reward tokens
  for farm-with-locked-rewards), whose wallets are compared with the REAL ESDT balances of every user
  after every transaction of the correspondence runs (`rw=` entry of the farm world's state line).

  Receivers, as the Rust sends the payments (dex/farm/src/{lib,external_interaction}.rs and
  dex/farm-with-locked-rewards/src/{lib,external_interaction}.rs agree):
    claimRewardsOnBehalf  rewards → recorded OWNER of the positions, new position → caller
    enterFarmOnBehalf     boosted rewards → the USER acted for,      new position → caller
    claimRewards / exitFarm / enterFarm / mergeFarmTokens, also when a whitelisted contract names an
                          original caller: rewards (and farming tokens) → the CALLER contract; only the
                          ENERGY / weekly entitlement is the original caller's
    compoundRewards       nothing is sent; claimBoostedRewards → the user (= caller).

  All step theorems hold for EVERY ledger state (no invariant needed), all callers and arguments; the
  conservation theorems for every history from `initL` (hypothesis: the accounts are distinct).
-/
import MxModel.Lemmas.FarmLedgerInv

namespace Mx.C19Wallets
open Mx.Farm Mx.FarmLedger

/-! ## (a) on-behalf operations -/

/-- **Rewards claimed on behalf go to the position owner's WALLET.**  In any ledger state, a successful
    `claimRewardsOnBehalf` by `c` with position payments `pays`: there is ONE account `u` recorded as
    original owner by every position paid in; `u` authorised `c` in the permissions hub and `c` is not
    blacklisted; `u`'s reward wallet grows by exactly the claim's reward `Out.rew`; NO other reward
    wallet changes — in particular the caller's (when `c ≠ u`) — and no farming-token wallet changes;
    the new position token (`Out.nonce`, amount `Out.amt`) records `u` as original owner (it is
    created in the CALLER's account: `createToken … caller` in `Farm.claimCore`, see the example). -/
theorem claim_on_behalf_credits_owner_wallet (l l' : L) (c : Nat) (pays : List (Nat × Nat)) (o : Out)
    (h : stepL l (.op (.claimOB c pays)) = some (l', o)) :
    ∃ u, (∀ p ∈ pays, ∃ att, l.f.attrs p.1 = some att ∧ att.owner = u) ∧ pays ≠ [] ∧
      (c ∉ l.f.hubBl ∧ (u, c) ∈ l.f.hubWl) ∧
      l'.w.rew u = l.w.rew u + o.rew ∧
      (∀ j, j ≠ u → l'.w.rew j = l.w.rew j) ∧
      (∀ j, l'.w.farming j = l.w.farming j) ∧
      (∃ att, l'.f.attrs o.nonce = some att ∧ att.owner = u ∧ att.amt = o.amt) := by
  obtain ⟨hs, _, _, _, hfar, hrw⟩ := stepL_op_spec h
  obtain ⟨_, hs'⟩ := known_some hs
  obtain ⟨u, hu, ha, hc⟩ := claimRewardsOnBehalf_spec hs'
  obtain ⟨hne, hall⟩ := claimOwner_all pays hu
  obtain ⟨_, hnew, _⟩ := claimCore_payee hc
  have hm : moveF l.f (.claimOB c pays) o = ⟨c, 0, 0, u, o.rew⟩ := by simp [moveF, hu]
  rw [hm] at hfar hrw
  refine ⟨u, hall, hne, (hubAllows_iff l.f u c).mp ha, ?_, ?_, ?_, hnew⟩
  · have := hrw u
    simp at this; exact this
  · intro j hj
    have := hrw j
    simp [hj] at this; exact this
  · intro j
    have := hfar j
    simp at this; exact this

/-- non-vacuity (both contracts): user 1 enters, authorises account 2 in the hub and hands it the position; 10 blocks later
    2 claims on behalf: the reward 10000 lands in user 1's wallet, account 2's reward wallet stays empty, the new position
    (nonce 2, recorded owner 1) is in account 2's account; without the authorisation the call fails -/
example :
    ∀ k ∈ [Kind.mint, Kind.noMint],
    let l := runL (initL k false 1000000000000 1000 true [1, 2, 3] 0)
      [.fund 1 100000000, .op (.enter 1 none 100000000 []), .op (.hubWhitelist 1 2),
       .op (.transfer 1 2 1 100000000), .op (.advance 10 6)]
    ((stepL l (.op (.claimOB 2 [(1, 100000000)]))).map fun r => (r.2.rew, r.2.nonce, r.1.w.rew 1, r.1.w.rew 2))
      = some (10000, 2, 10000, 0) ∧
    ((stepL l (.op (.claimOB 2 [(1, 100000000)]))).map fun r =>
        (r.1.f.hold 2 r.2.nonce, ((r.1.f.attrs r.2.nonce).map (·.owner)).getD 0)) = some (100000000, 1) ∧
    (stepL (runL l [.op (.hubRemove 1 2)]) (.op (.claimOB 2 [(1, 100000000)]))).isNone = true := by
  decide


/-- **`enterFarmOnBehalf`**: in any ledger state, a successful call by `c` for user `u ≠ c` with `amt`
    farming tokens: `u` authorised `c` (hub, not blacklisted); the CALLER pays the `amt` farming tokens
    out of its own wallet (it must hold them) and receives no reward; the boosted reward `Out.rew` is
    credited to the USER's reward wallet; no third account's wallet changes. -/
theorem enter_on_behalf_wallets (l l' : L) (c u amt : Nat) (extra : List (Nat × Nat)) (o : Out)
    (h : stepL l (.op (.enterOB c u amt extra)) = some (l', o)) (hcu : c ≠ u) :
    (c ∉ l.f.hubBl ∧ (u, c) ∈ l.f.hubWl) ∧
    amt ≤ l.w.getF (sameCol l.f) c ∧
    l'.w.getF (sameCol l.f) c + amt = l.w.getF (sameCol l.f) c ∧
    l'.w.rew u = l.w.rew u + o.rew ∧
    (sameCol l.f = false → l'.w.rew c = l.w.rew c) ∧
    (∀ j, j ≠ c → j ≠ u → l'.w.rew j = l.w.rew j ∧ l'.w.farming j = l.w.farming j) := by
  obtain ⟨hs, hle, _, _, hfar, hrw⟩ := stepL_op_spec h
  obtain ⟨_, hs'⟩ := known_some hs
  obtain ⟨ha, _, _⟩ := enterFarmOnBehalf_spec hs'
  have hle' : amt ≤ l.w.getF (sameCol l.f) c := hle
  have huc : u ≠ c := fun e => hcu e.symm
  have hm : moveF l.f (.enterOB c u amt extra) o = ⟨c, amt, 0, u, o.rew⟩ := rfl
  rw [hm] at hfar hrw
  refine ⟨(hubAllows_iff l.f u c).mp ha, hle', ?_, ?_, ?_, ?_⟩
  · cases hsame : sameCol l.f
    · have := hfar c
      simp [hsame] at this
      simp only [hsame, Wal.getF, Bool.false_eq_true, if_false] at hle' ⊢
      omega
    · have := hrw c
      simp [hsame, hcu] at this
      simp only [hsame, Wal.getF, if_true] at hle' ⊢
      omega
  · have := hrw u
    simp [huc] at this; exact this
  · intro hsame
    have := hrw c
    simp [hsame, hcu] at this; exact this
  · intro j hjc hju
    have h1 := hrw j
    have h2 := hfar j
    simp [hjc, hju] at h1 h2
    exact ⟨h1, h2⟩

/-! ## (b) plain endpoints, also through a whitelisted contract naming an original caller -/

/-- **`claimRewards` pays the CALLER** — also when the caller is a whitelisted contract that names an
    original caller (`opt = some orig`, which requires `c ∈ scWhitelistAddresses`): the reward
    `Out.rew` (base reward of the position + the ORIGINAL caller's boosted entitlement) is credited to
    the caller's wallet, the original caller's wallet — like everybody else's — does not change. -/
theorem claim_pays_caller (l l' : L) (c : Nat) (opt : Option Nat) (pays : List (Nat × Nat)) (o : Out)
    (h : stepL l (.op (.claim c opt pays)) = some (l', o)) :
    (∀ orig, opt = some orig → c ∈ l.f.scWl) ∧
    l'.w.rew c = l.w.rew c + o.rew ∧
    (∀ j, j ≠ c → l'.w.rew j = l.w.rew j) ∧
    (∀ j, l'.w.farming j = l.w.farming j) := by
  obtain ⟨hs, _, _, _, hfar, hrw⟩ := stepL_op_spec h
  obtain ⟨_, hs'⟩ := known_some hs
  obtain ⟨orig, ho, _⟩ := claimRewards_spec hs'
  have hm : moveF l.f (.claim c opt pays) o = ⟨c, 0, 0, c, o.rew⟩ := rfl
  rw [hm] at hfar hrw
  refine ⟨?_, ?_, ?_, ?_⟩
  · intro x hx
    rcases origCaller_spec ho with ⟨h1, _⟩ | ⟨_, h2⟩
    · rw [hx] at h1; cases h1
    · exact h2
  · have := hrw c
    simp at this; exact this
  · intro j hj
    have := hrw j
    simp [hj] at this; exact this
  · intro j
    have := hfar j
    simp at this; exact this

/-- non-vacuity (both contracts): contract account 3 is whitelisted by the owner, holds user 1's position and claims naming
    1 as original caller: the reward 10000 is paid to the CONTRACT's wallet, user 1's wallet stays empty — in the
    locked-rewards farm the LOCKED tokens go to the contract while the ENERGY of the lock is credited to user 1
    (`lock_virtual(…, destination = caller, energy_address = orig_caller)`); a non-whitelisted caller naming an original
    caller fails -/
example :
    ∀ k ∈ [Kind.mint, Kind.noMint],
    let l := runL (initL k false 1000000000000 1000 true [1, 2, 3] 0)
      [.fund 1 100000000, .op (.enter 1 none 100000000 []), .op (.scWhitelist 3),
       .op (.transfer 1 3 1 100000000), .op (.advance 10 6)]
    ((stepL l (.op (.claim 3 (some 1) [(1, 100000000)]))).map fun r =>
        (r.2.rew, r.1.w.rew 1, r.1.w.rew 3, ((r.1.f.energy 1).map (·.totalLocked)).getD 0,
         ((r.1.f.energy 3).map (·.totalLocked)).getD 0))
      = some (10000, 0, 10000, if k = .noMint then 10000 else 0, 0) ∧
    (stepL (runL l [.op (.scUnwhitelist 3)]) (.op (.claim 3 (some 1) [(1, 100000000)]))).isNone = true := by
  decide


/-- **`mergeFarmTokens` / `claimBoostedRewards` pay the caller** (merge: also with an original caller
    named by a whitelisted contract; claimBoostedRewards: the only allowed `user` is the caller) -/
theorem merge_and_claim_boosted_pay_caller (l l' : L) (c : Nat) (op : Op) (o : Out)
    (hop : (∃ opt pays, op = .merge c opt pays) ∨ (∃ u, op = .claimBoosted c u))
    (h : stepL l (.op op) = some (l', o)) :
    l'.w.rew c = l.w.rew c + o.rew ∧
    (∀ j, j ≠ c → l'.w.rew j = l.w.rew j) ∧
    (∀ j, l'.w.farming j = l.w.farming j) := by
  obtain ⟨hs, _, _, _, hfar, hrw⟩ := stepL_op_spec h
  rcases hop with ⟨opt, pays, rfl⟩ | ⟨u, rfl⟩
  · have hm : moveF l.f (.merge c opt pays) o = ⟨c, 0, 0, c, o.rew⟩ := rfl
    rw [hm] at hfar hrw
    refine ⟨?_, fun j hj => ?_, fun j => ?_⟩
    · have := hrw c
      simp at this; exact this
    · have := hrw j
      simp [hj] at this; exact this
    · have := hfar j
      simp at this; exact this
  · obtain ⟨_, hs'⟩ := known_some hs
    have hu := (claimBoostedRewards_needs hs').2
    have hm : moveF l.f (.claimBoosted c u) o = ⟨c, 0, 0, c, o.rew⟩ := by simp [moveF, hu]
    rw [hm] at hfar hrw
    refine ⟨?_, fun j hj => ?_, fun j => ?_⟩
    · have := hrw c
      simp at this; exact this
    · have := hrw j
      simp [hj] at this; exact this
    · have := hfar j
      simp at this; exact this

/-- **`exitFarm` pays the caller** (separate farming / reward tokens; also through a whitelisted
    contract): the caller's farming-token wallet grows by the principal paid out `Out.farming`, its
    reward wallet by `Out.rew`; nobody else's wallet changes. -/
theorem exit_pays_caller (l l' : L) (c : Nat) (opt : Option Nat) (n a : Nat) (o : Out)
    (h : stepL l (.op (.exit c opt n a)) = some (l', o)) (hsep : sameCol l.f = false) :
    (∀ orig, opt = some orig → c ∈ l.f.scWl) ∧
    l'.w.farming c = l.w.farming c + o.farming ∧ l'.w.rew c = l.w.rew c + o.rew ∧
    (∀ j, j ≠ c → l'.w.rew j = l.w.rew j ∧ l'.w.farming j = l.w.farming j) := by
  obtain ⟨hs, _, _, _, hfar, hrw⟩ := stepL_op_spec h
  obtain ⟨_, hs'⟩ := known_some hs
  obtain ⟨_, orig, ho⟩ := exitFarm_needs hs'
  have hm : moveF l.f (.exit c opt n a) o = ⟨c, 0, o.farming, c, o.rew⟩ := rfl
  rw [hm] at hfar hrw
  refine ⟨?_, ?_, ?_, ?_⟩
  · intro x hx
    rcases origCaller_spec ho with ⟨h1, _⟩ | ⟨_, h2⟩
    · rw [hx] at h1; cases h1
    · exact h2
  · have := hfar c
    simp [hsep] at this; exact this
  · have := hrw c
    simp [hsep] at this; exact this
  · intro j hj
    have h1 := hrw j
    have h2 := hfar j
    simp [hsep, hj] at h1 h2
    exact ⟨h1, h2⟩

/-- **`enterFarm`** (separate tokens; also through a whitelisted contract): the caller pays the `amt`
    farming tokens and receives the boosted reward `Out.rew` of the ORIGINAL caller's entitlement;
    nobody else's wallet changes. -/
theorem enter_wallets (l l' : L) (c : Nat) (opt : Option Nat) (amt : Nat) (extra : List (Nat × Nat)) (o : Out)
    (h : stepL l (.op (.enter c opt amt extra)) = some (l', o)) (hsep : sameCol l.f = false) :
    amt ≤ l.w.farming c ∧ l'.w.farming c + amt = l.w.farming c ∧ l'.w.rew c = l.w.rew c + o.rew ∧
    (∀ j, j ≠ c → l'.w.rew j = l.w.rew j ∧ l'.w.farming j = l.w.farming j) := by
  obtain ⟨hs, hle, _, _, hfar, hrw⟩ := stepL_op_spec h
  have hm : moveF l.f (.enter c opt amt extra) o = ⟨c, amt, 0, c, o.rew⟩ := rfl
  rw [hm] at hfar hrw hle
  have hle' : amt ≤ l.w.farming c := by
    have := hle
    simp [hsep, Wal.getF] at this; exact this
  refine ⟨hle', ?_, ?_, ?_⟩
  · have := hfar c
    simp [hsep] at this; omega
  · have := hrw c
    simp [hsep] at this; exact this
  · intro j hj
    have h1 := hrw j
    have h2 := hfar j
    simp [hsep, hj] at h1 h2
    exact ⟨h1, h2⟩

/-- **`compoundRewards` sends nothing**: no wallet changes (the reward stays in the farm as principal) -/
theorem compound_moves_no_wallet (l l' : L) (c : Nat) (opt : Option Nat) (pays : List (Nat × Nat)) (o : Out)
    (h : stepL l (.op (.compound c opt pays)) = some (l', o)) :
    (∀ j, l'.w.rew j = l.w.rew j) ∧ (∀ j, l'.w.farming j = l.w.farming j) := by
  obtain ⟨_, _, _, _, hfar, hrw⟩ := stepL_op_spec h
  have hm : moveF l.f (.compound c opt pays) o = ⟨c, 0, 0, 0, 0⟩ := rfl
  rw [hm] at hfar hrw
  refine ⟨fun j => ?_, fun j => ?_⟩
  · have := hrw j
    simp at this; exact this
  · have := hfar j
    simp at this; exact this

/-! ## (c) conservation -/

/-- **An operation touches only its parties.**  In any ledger state, after a successful operation, an
    account that is neither the caller nor the receiver of the reward payment (`moveF`) has exactly the
    wallets it had; the faucet total does not change (a call creates no tokens in a wallet). -/
theorem call_touches_only_parties (l l' : L) (op : Op) (o : Out) (h : stepL l (.op op) = some (l', o))
    (j : Nat) (h1 : j ≠ (moveF l.f op o).payer) (h2 : j ≠ (moveF l.f op o).rewTo) :
    l'.w.rew j = l.w.rew j ∧ l'.w.farming j = l.w.farming j ∧ l'.funded = l.funded := by
  obtain ⟨_, _, hfd, _, hfar, hrw⟩ := stepL_op_spec h
  have e1 := hrw j
  have e2 := hfar j
  simp [h1, h2] at e1 e2
  exact ⟨e1, e2, hfd⟩

/-- the conservation invariant holds after every history -/
theorem inv_run (kind : Kind) (sameTok : Bool) (dsc perBlock : Nat) (produce : Bool) (users : List Nat)
    (e0 : Nat) (hnd : users.Nodup) (ops : List LOp) :
    LInv (runL (initL kind sameTok dsc perBlock produce users e0) ops) :=
  runL_inv ops (initL_inv kind sameTok dsc perBlock produce users e0 hnd)

/-- **Reward wallets = what the farm paid** (farming token ≠ reward token, both contracts).  After every
    history: the reward-token holdings of all accounts (dex/farm: the reward token; locked-rewards farm:
    their LOCKED tokens) plus what was sent outside the world equal the farm's cumulative `paid`
    counter `= generated − reward_reserve`; for dex/farm, wallets + the farm's own reward balance is
    exactly everything ever generated: reward tokens enter the world by generation only and reach
    wallets by payments only. -/
theorem reward_wallets_eq_paid (kind : Kind) (sameTok : Bool) (dsc perBlock : Nat) (produce : Bool)
    (users : List Nat) (e0 : Nat) (hnd : users.Nodup) (ops : List LOp) :
    let l := runL (initL kind sameTok dsc perBlock produce users e0) ops
    sameCol l.f = false →
      sumU l.f.users l.w.rew + l.outside = l.f.paid ∧
      sumU l.f.users l.w.rew + l.outside + l.f.reserve = l.f.generated ∧
      (l.f.kind = .mint → sumU l.f.users l.w.rew + l.outside + l.f.balReward = l.f.generated) := by
  intro l hsame
  have hI : LInv l := inv_run kind sameTok dsc perBlock produce users e0 hnd ops
  have hr := hI.rew hsame
  have ha := hI.acct
  refine ⟨hr, ?_, fun hk => ?_⟩
  · have := ha.res; omega
  · have := ha.res; have := ha.bal hk; omega

/-- **Farming tokens are conserved** (farming token ≠ reward token).  After every history: what the
    accounts hold + the farm's farming balance (= the farm-token supply, C05) + the burned exit penalties
    = what the faucet handed out. -/
theorem farming_tokens_conserved (kind : Kind) (sameTok : Bool) (dsc perBlock : Nat) (produce : Bool)
    (users : List Nat) (e0 : Nat) (hnd : users.Nodup) (ops : List LOp) :
    let l := runL (initL kind sameTok dsc perBlock produce users e0) ops
    sameCol l.f = false →
      sumU l.f.users l.w.farming + l.f.balFarming + l.f.penaltyBurned = l.funded ∧
      l.f.balFarming = l.f.supply := by
  intro l hsame
  have hI : LInv l := inv_run kind sameTok dsc perBlock produce users e0 hnd ops
  have hr := hI.rew hsame
  have ht := hI.total
  exact ⟨by omega, hI.acct.prin⟩

/-- **One token** (dex/farm whose farming token is its reward token).  After every history: the wallets
    + what left the world + the farm's whole balance of the token + the burned penalties = what the
    faucet handed out + everything ever generated. -/
theorem single_token_conserved (kind : Kind) (sameTok : Bool) (dsc perBlock : Nat) (produce : Bool)
    (users : List Nat) (e0 : Nat) (hnd : users.Nodup) (ops : List LOp) :
    let l := runL (initL kind sameTok dsc perBlock produce users e0) ops
    sameCol l.f = true →
      sumU l.f.users l.w.rew + l.outside + (l.f.balFarming + l.f.balReward) + l.f.penaltyBurned
        = l.funded + l.f.generated ∧ (∀ u, l.w.farming u = 0) := by
  intro l hsame
  have hI : LInv l := inv_run kind sameTok dsc perBlock produce users e0 hnd ops
  have hk : l.f.kind = .mint := by
    simp only [sameCol, Bool.and_eq_true, decide_eq_true_eq] at hsame
    exact hsame.2
  have hz : sumU l.f.users l.w.farming = 0 := by
    unfold sumU; exact PV.sum_map_zero (fun u _ => hI.unused hsame u)
  have ht := hI.total
  have := hI.acct.res
  have := hI.acct.bal hk
  exact ⟨by omega, hI.unused hsame⟩

/-- non-vacuity of the conservation theorems: a 16-step history on dex/farm, farm-with-locked-rewards and dex/farm with
    farming = reward token — faucet top-ups, an `enter` rejected because the wallet is short, an on-behalf claim and enter,
    an exit with penalty (10000 burned), a compound (succeeds in the one-token farm only): every column is live and the
    three balances hold with non-zero terms -/
example :
    ∀ c ∈ [(Kind.mint, false), (Kind.noMint, false), (Kind.mint, true)],
    let l := runL (initL c.1 c.2 1000000000000 1000 true [1, 2, 3] 0)
      [.fund 1 100000000, .op (.enter 1 none 100000000 []), .op (.hubWhitelist 1 2),
       .op (.transfer 1 2 1 100000000), .op (.advance 10 6), .op (.claimOB 2 [(1, 100000000)]),
       .op (.enter 3 none 5 []), .fund 3 1000000, .op (.enter 3 none 1000000 []), .op (.advance 20 6),
       .op (.exit 3 none 3 1000000), .op (.enterOB 2 1 70 []), .fund 2 50, .fund 2 70, .op (.enterOB 2 1 70 []),
       .op (.compound 2 none [(2, 100000000)])]
    ([1, 2, 3].map l.w.rew, [1, 2, 3].map l.w.farming) =
      (if c.2 then ([10000, 0, 990099], [0, 0, 0]) else ([10000, 0, 99], [0, 0, 990000])) ∧
    (l.f.paid, l.f.generated, l.f.balFarming) =
      (if c.2 then (19999, 20000, 100009970) else (10099, 20000, 100000070)) ∧
    (l.f.penaltyBurned, l.funded, l.outside, l.f.lastNonce) = (10000, 101000070, 0, if c.2 then 5 else 4) := by
  decide


/-- The farm inside the ledger is a farm reachable by `Farm.run` (every theorem of the farm world about
    `run (init …) ops` applies to it): a ledger history differs from a farm history only in that calls
    whose caller cannot pay the farming tokens are failed transactions. -/
theorem ledger_farm_reachable (kind : Kind) (sameTok : Bool) (dsc perBlock : Nat) (produce : Bool)
    (users : List Nat) (e0 : Nat) (ops : List LOp) :
    ∃ fops : List Op, (runL (initL kind sameTok dsc perBlock produce users e0) ops).f =
      Farm.run (Farm.init kind sameTok dsc perBlock produce users e0) fops :=
  ⟨_, runL_f ops _⟩

/-- A ledger call fails only if the farm rejects the operation or the caller's wallet is short of the
    farming tokens it sends. -/
theorem call_succeeds (l : L) (op : Op) (s' : St) (o : Out) (hs : step l.f op = some (s', o))
    (hle : (moveF l.f op o).payFarming ≤ l.w.getF (sameCol l.f) (moveF l.f op o).payer) :
    (stepL l (.op op)).isSome = true := by
  simp [stepL, applyMove, hs, sub?, hle]

end Mx.C19Wallets
