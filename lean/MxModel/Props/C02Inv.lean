/-
  C02 (second file) — the base case of "LP share value never decreases" made part of the
  reachable invariant, so that no theorem needs the side hypothesis "`r₁ = r₂ = 0` when `S = 0`".

  * `empty_pool_has_empty_reserves`: in every state any history can reach, `S = 0 → r₁ = r₂ = 0`.
  * `first_deposit_share_reachable` / `first_deposit_share_initial`: the first deposit through
    `addLiquidity` resp. `addInitialLiquidity` on ANY reachable state gives `S'² ≤ r₁'·r₂'`
    (the `h0` hypothesis of `C02.first_deposit_share` is discharged; `addInitial` twin added).
  * `share_backed_run`: `S² ≤ r₁·r₂` in every reachable state — each LP unit is always backed by at
    least one unit of `√K` (base case + `kS2_mono` composed over the whole history).
  * `kS2_mono_run_all`: K/S² monotonicity between ANY two points of ANY history, without the
    `0 < S` hypothesis of `C02.kS2_mono_run`.
-/
import MxModel.Lemmas.PairEmpty

namespace Mx.C02Inv
open Mx.Pair

/-- in every state reachable by any history from a freshly deployed pair, a pool without LP
    supply has both reserves equal to 0 (nothing can be put into or left in the reserves except
    through a first deposit, and the last 1000 LP can never be removed) -/
theorem empty_pool_has_empty_reserves (total special : Nat) (adder : Option Nat) (cap : Nat)
    (ops : List Op) :
    let s := run (init total special adder cap) ops
    s.S = 0 → s.r1 = 0 ∧ s.r2 = 0 :=
  (run_empty_sq ops (inv_init total special adder cap) (emptyOK_init total special adder cap)
    (sqLe_init total special adder cap)).1

/-- the first `addLiquidity` on any reachable empty pool mints `min a₁ a₂` LP against reserves
    `(a₁, a₂)`: `S'² ≤ r₁'·r₂'` — `C02.first_deposit_share` without its hypothesis on the reserves -/
theorem first_deposit_share_reachable (total special : Nat) (adder : Option Nat) (cap : Nat)
    (ops : List Op) {s' : St} {a1 a2 m1 m2 : Nat} {o : Out}
    (hS : (run (init total special adder cap) ops).S = 0)
    (h : addLiq (run (init total special adder cap) ops) a1 a2 m1 m2 = some (s', o)) :
    s'.S ^ 2 ≤ s'.r1 * s'.r2 ∧ s'.S = min a1 a2 ∧ s'.r1 = a1 ∧ s'.r2 = a2 := by
  obtain ⟨h1, h2⟩ := empty_pool_has_empty_reserves total special adder cap ops hS
  obtain ⟨_, _, _, _, _, _, rfl⟩ := addLiq_first_spec hS h
  refine ⟨?_, rfl, by simp [h1], by simp [h2]⟩
  simp only [h1, h2, Nat.zero_add]
  exact min_sq_le a1 a2

/-- the `addInitialLiquidity` twin (it can only ever be the first deposit: it requires `S = 0`) -/
theorem first_deposit_share_initial (total special : Nat) (adder : Option Nat) (cap : Nat)
    (ops : List Op) {s' : St} {c a1 a2 : Nat} {o : Out}
    (h : addInitial (run (init total special adder cap) ops) c a1 a2 = some (s', o)) :
    s'.S ^ 2 ≤ s'.r1 * s'.r2 ∧ s'.S = min a1 a2 ∧ s'.r1 = a1 ∧ s'.r2 = a2 := by
  obtain ⟨_, _, _, _, hS, _, _, rfl⟩ := addInitial_spec h
  obtain ⟨h1, h2⟩ := empty_pool_has_empty_reserves total special adder cap ops hS
  refine ⟨?_, rfl, by simp [h1], by simp [h2]⟩
  simp only [h1, h2, Nat.zero_add]
  exact min_sq_le a1 a2

/-- in every state reachable by any history, `S² ≤ r₁·r₂`: every LP unit in existence is backed
    by at least one unit of `√(r₁r₂)` — the first deposit establishes it, every later operation
    (any kind, any fee setting) can only improve `r₁r₂/S²` -/
theorem share_backed_run (total special : Nat) (adder : Option Nat) (cap : Nat) (ops : List Op) :
    let s := run (init total special adder cap) ops
    s.S ^ 2 ≤ s.r1 * s.r2 :=
  (run_empty_sq ops (inv_init total special adder cap) (emptyOK_init total special adder cap)
    (sqLe_init total special adder cap)).2

/-- K/S² monotonicity between any two points of any history, with NO side hypothesis
    (`C02.kS2_mono_run` asks for `0 < S` at the earlier point; on an empty pool the earlier
    `r₁r₂` is 0, which is what `empty_pool_has_empty_reserves` provides) -/
theorem kS2_mono_run_all (total special : Nat) (adder : Option Nat) (cap : Nat)
    (before after : List Op) :
    let s := run (init total special adder cap) before
    let s' := run (init total special adder cap) (before ++ after)
    s.r1 * s.r2 * s'.S ^ 2 ≤ s'.r1 * s'.r2 * s.S ^ 2 := by
  intro s s'
  have hi : Inv s := run_inv before (inv_init total special adder cap)
  have he : EmptyOK s :=
    (run_empty_sq before (inv_init total special adder cap) (emptyOK_init total special adder cap)
      (sqLe_init total special adder cap)).1
  have : s' = run s after := run_append _ _ _
  rw [this]
  exact run_share_all after hi he

/-- non-vacuity: failed swaps / removals on the empty pool leave it empty; both first-deposit paths
    then start at `S² ≤ r₁r₂`, and trading makes the inequality strict -/
example :
    let e := run (init 300 50 none 8) [.cfg (.setState .active), .swapIn .ab 1000 1, .removeLiq 5 1 1]
    let s0 := run e [.addLiq 4000 9000 1 1]
    let s1 := run (init 300 50 (some 2) 8) [.addInitial 2 9000 4000]
    let s2 := run s0 [.swapIn .ab 500 1, .addLiq 700 700 1 1, .removeLiq 300 1 1]
    e.S = 0 ∧ e.r1 = 0 ∧ e.r2 = 0 ∧
    s0.S = 4000 ∧ s0.S ^ 2 ≤ s0.r1 * s0.r2 ∧ s1.S = 4000 ∧ s1.S ^ 2 ≤ s1.r1 * s1.r2 ∧
    s2.S ^ 2 < s2.r1 * s2.r2 ∧ s0.r1 * s0.r2 * s2.S ^ 2 < s2.r1 * s2.r2 * s0.S ^ 2 := by
  decide

end Mx.C02Inv
