/-
  C09 — Locking is 1:1 and time-locked; early exit costs exactly the documented penalty.

  Statement: locking burns the base asset and issues locked tokens 1:1; unlocking at or after the
  unlock epoch returns the base asset 1:1 and is impossible earlier except through the penalty
  path.  Early unlock or lock reduction charges exactly amount·p/10000 where p is the linear
  interpolation between configured lock options of the remaining time (for a reduction
  (p_old − p_new)/(1 − p_new)), monotone in remaining time and never above the largest option; the
  remainder is released only after the unbond period and the penalty is split between burn and the
  fees collector by the configured percentage, so base-asset supply can grow only through unlocks
  of previously burned amounts and reward emission.

  Model: Core/Energy.lean.  `pctFull opts rem` = `calculate_penalty_percentage_full_unlock`,
  `pctPartial` = `…_partial_unlock`, `penaltyAmount` = the view `getPenaltyAmount`,
  `linInterp e0 e1 r p0 p1 = ⌊(p0·(e1−r) + p1·(r−e0))/(e1−e0)⌋`.  `Admissible opts` = what
  `addLockOptions` accepts (sorted, epochs strictly increasing and ≥ 360, percentages strictly
  increasing and ≤ 10000).  Only property theorems live in this file.
-/
import MxModel.Lemmas.EnergyOptsRun

namespace Mx.C09
open Mx.Energy

/-! ### 1:1 and time-locked -/

/-- `lockTokens` with the base asset: the option must be listed, the caller's `amt` base tokens are
    burned (balance and supply fall by `amt`), the destination receives exactly `amt` locked tokens
    of the nonce whose unlock epoch is `startOfMonth(now + option)`, which is in the future -/
theorem lock_1to1 {s s' : St} {c amt epochs dest : Nat} {o : Out}
    (hd : (if dest = 0 then c else dest) < SCBASE)
    (h : lockTokens s c amt epochs dest = some (s', o)) :
    isListed s.opts epochs = true ∧ s.epoch < startOfMonth (s.epoch + epochs) ∧
    o.v2 = amt ∧ s'.unlockOf o.v1 = some (startOfMonth (s.epoch + epochs)) ∧
    s'.bal (if dest = 0 then c else dest) o.v1 = s.bal (if dest = 0 then c else dest) o.v1 + amt ∧
    s'.base c + amt = s.base c ∧ s'.baseSupply + amt = s.baseSupply := by
  obtain ⟨_, h2, h3, _, rfl, h6, h7, h8, h9, _, _⟩ := lockTokens_effect hd h
  exact ⟨h2, h3, rfl, h6, h7, h8, h9⟩

/-- `unlockTokens`: every token paid has reached its unlock epoch, and the caller receives exactly
    the sum of the amounts in freshly minted base asset -/
theorem unlock_1to1 {s s' : St} {c : Nat} {ps : List (Nat × Nat)} {o : Out}
    (h : unlockTokens s c ps = some (s', o)) :
    (∀ p ∈ ps, ∃ u, s.unlockOf p.1 = some u ∧ u ≤ s.epoch) ∧
    o.v1 = paySum ps ∧ s'.base c = s.base c + paySum ps ∧
    s'.baseSupply = s.baseSupply + paySum ps := by
  obtain ⟨_, _, hall, rfl, hb, _, hs, _, _⟩ := unlockTokens_spec h
  refine ⟨fun p hp => ?_, rfl, hb, hs⟩
  obtain ⟨u, h1, h2, _⟩ := hall p hp
  exact ⟨u, h1, h2⟩

/-- unlocking is impossible before the unlock epoch: if any token in the payment is still locked
    the whole transaction fails (the only earlier exit is the penalty path below) -/
theorem unlock_requires_epoch {s : St} {c : Nat} {ps : List (Nat × Nat)} {n amt u : Nat}
    (hm : (n, amt) ∈ ps) (hu : s.unlockOf n = some u) (hlt : s.epoch < u) :
    unlockTokens s c ps = none :=
  unlock_fails_early hm hu hlt

/-! ### the penalty percentage -/

/-- below the shortest option the percentage interpolates between `(0, 0)` and that option -/
theorem penalty_full_first {e1 p1 : Nat} {rest : List Opt} {rem : Nat} (h : rem ≤ e1) :
    pctFull ((e1, p1) :: rest) rem = some (linInterp 0 e1 rem 0 p1) := by
  simp [pctFull, pctFrom_cons, h]

/-- between two consecutive options `(ea, pa)`, `(eb, pb)` with `ea < rem ≤ eb` the percentage is
    `⌊(pa·(eb − rem) + pb·(rem − ea))/(eb − ea)⌋` — the documented linear interpolation on the
    bracketing options, nothing else -/
theorem penalty_full {pre post : List Opt} {ea pa eb pb rem : Nat}
    (ha : Admissible (pre ++ (ea, pa) :: (eb, pb) :: post)) (h1 : ea < rem) (h2 : rem ≤ eb) :
    pctFull (pre ++ (ea, pa) :: (eb, pb) :: post) rem =
      some ((pa * (eb - rem) + pb * (rem - ea)) / (eb - ea)) :=
  pctFrom_bracket ha.wchain h1 h2

/-- the percentage is defined exactly up to the longest option -/
theorem penalty_defined {opts : List Opt} (ha : Admissible opts) (rem : Nat) :
    (∃ p, pctFull opts rem = some p) ↔ rem ≤ lastEp 0 opts :=
  ⟨fun ⟨_, h⟩ => pctFrom_le_of_some ha.wchain h, fun h => pctFrom_some_of_le ha.ne_nil h⟩

/-- monotone in the remaining time -/
theorem penalty_mono {opts : List Opt} {r r' p p' : Nat} (ha : Admissible opts) (hr : r ≤ r')
    (h : pctFull opts r = some p) (h' : pctFull opts r' = some p') : p ≤ p' :=
  pctFull_mono ha hr h h'

/-- never above the largest option, which is at most 100 % -/
theorem penalty_le_max {opts : List Opt} {rem p : Nat} (ha : Admissible opts)
    (h : pctFull opts rem = some p) : p ≤ lastPct 0 opts ∧ lastPct 0 opts ≤ MAXPCT :=
  pctFull_le_max ha h

/-- exactly the configured percentage at a configured option -/
theorem penalty_at_option {opts : List Opt} {e p : Nat} (ha : Admissible opts) (hm : (e, p) ∈ opts) :
    pctFull opts e = some p :=
  pctFrom_at ha.wchain hm

/-- lock reduction: for every admissible option set and every `new < prev` within the longest
    option, the percentage is `⌊(p_old − p_new)·10000/(10000 − p_new)⌋`; the subtraction cannot
    underflow (`p_new ≤ p_old`) and the divisor is never zero (`p_new < 10000`) -/
theorem reduce_pct {opts : List Opt} {prev new pp pn : Nat} (ha : Admissible opts) (hn : new < prev)
    (h1 : pctFull opts prev = some pp) (h2 : pctFull opts new = some pn) :
    pn ≤ pp ∧ pn < MAXPCT ∧
    pctPartial opts prev new = some ((pp - pn) * MAXPCT / (MAXPCT - pn)) ∧
    (pp - pn) * MAXPCT / (MAXPCT - pn) ≤ MAXPCT := by
  obtain ⟨a, b, c⟩ := pctPartial_defined ha hn h1 h2
  exact ⟨a, b, c, pctPartial_le a ((pctFull_le_max ha h1).1.trans (pctFull_le_max ha h1).2) b⟩

/-- whatever `addLockOptions` stores is admissible (also the very first call, made by `init`) -/
theorem add_options_admissible {s s' : St} {new : List Opt}
    (hold : s.opts = [] ∨ Admissible s.opts) (h : cfg s (.addOptions new) = some s') :
    Admissible s'.opts :=
  (addOptions_admissible hold h).1

/-- the stored options are admissible after every history (only `addLockOptions` writes them), so
    every penalty theorem above applies in every reachable state -/
theorem options_admissible_forever (c : Cfg) (hc : Admissible c.opts) (ops : List Op) :
    Admissible (run (init c) ops).opts :=
  run_opts ops hc

/-- hence in every reachable state `getPenaltyAmount` for a lock reduction is total on its domain:
    for `0 < new < prev ≤ longest option` it returns `⌊amt·⌊(p_old − p_new)·10000/(10000 − p_new)⌋/10000⌋`
    — no underflow, no division by zero, whatever options the owner configured along the way -/
theorem reduce_quote_total (c : Cfg) (hc : Admissible c.opts) (ops : List Op) (amt prev new : Nat)
    (h0 : 0 < new) (hn : new < prev) (hp : prev ≤ lastEp 0 (run (init c) ops).opts) :
    ∃ pp pn, pctFull (run (init c) ops).opts prev = some pp ∧
      pctFull (run (init c) ops).opts new = some pn ∧ pn ≤ pp ∧ pn < MAXPCT ∧
      penaltyAmount (run (init c) ops).opts amt prev new =
        some (amt * ((pp - pn) * MAXPCT / (MAXPCT - pn)) / MAXPCT) := by
  have ha := options_admissible_forever c hc ops
  generalize (run (init c) ops).opts = opts at *
  obtain ⟨pp, h1⟩ := (penalty_defined ha prev).mpr hp
  obtain ⟨pn, h2⟩ := (penalty_defined ha new).mpr (by omega)
  obtain ⟨a, b, cc, _⟩ := reduce_pct ha hn h1 h2
  refine ⟨pp, pn, h1, h2, a, b, ?_⟩
  have e1 : req (0 < prev) = some () := by rw [req_eq_some]; omega
  have e2 : req (new < prev) = some () := by rw [req_eq_some]; exact hn
  have e3 : req (opts ≠ []) = some () := by rw [req_eq_some]; exact ha.ne_nil
  have e4 : ¬ new = 0 := by omega
  simp [penaltyAmount, e1, e2, e3, e4, cc]

/-! ### the penalty amount, the unbond queue, the split -/

/-- the view `getPenaltyAmount(amount, prev, new)` = `⌊amount · pct / 10000⌋` with the full
    percentage of `prev` for `new = 0` and the reduction percentage otherwise -/
theorem penalty_amount {opts : List Opt} {amt prev new pen : Nat}
    (h : penaltyAmount opts amt prev new = some pen) :
    0 < prev ∧ new < prev ∧
    ∃ pct, (if new = 0 then pctFull opts prev else pctPartial opts prev new) = some pct ∧
      pen = amt * pct / MAXPCT := by
  obtain ⟨a, b, _, c⟩ := penaltyAmount_spec h
  exact ⟨a, b, c⟩

/-- early unlock: only for tokens still locked, charges exactly the quoted penalty for the
    remaining time, the penalty is strictly less than the amount (otherwise the call fails), the
    caller receives nothing now — `amount − penalty` base tokens are minted into the unbond escrow
    under an entry that matures `unbond` epochs later -/
theorem early_unlock_exact {s s' : St} {c n amt : Nat} {o : Out} (hc : c ≠ UNSTAKE)
    (h : unlockEarly s c n amt = some (s', o)) :
    ∃ u, s.unlockOf n = some u ∧ s.epoch < u ∧
      penaltyAmount s.opts amt (u - s.epoch) 0 = some o.v1 ∧ o.v1 < amt ∧ o.v2 = amt - o.v1 ∧
      s'.queue c = s.queue c ++ [⟨s.epoch + s.unbond, n, amt, amt - o.v1⟩] ∧
      s'.base c = s.base c ∧ s'.base UNSTAKE = s.base UNSTAKE + (amt - o.v1) ∧
      s'.baseSupply = s.baseSupply + (amt - o.v1) := by
  obtain ⟨u, pen, _, hu, hlt, _, hp, _, hl, rfl, hq, _, hb, hbo, hs, _, _⟩ := unlockEarly_spec h
  exact ⟨u, hu, hlt, hp, hl, rfl, hq, hbo c hc, hb, hs⟩

/-- lock reduction: only to a listed option that really shortens the lock, charges exactly the
    quoted penalty `getPenaltyAmount(amount, remaining, new)`, strictly less than the amount, and
    re-locks the rest -/
theorem reduce_exact {s s' : St} {c n amt epochs : Nat} {o : Out}
    (h : reduceLock s c n amt epochs = some (s', o)) :
    ∃ u newEp, isListed s.opts epochs = true ∧ s.unlockOf n = some u ∧ s.epoch < u ∧
      newEp + (s.epoch + epochs) % MONTH = epochs ∧ newEp < u - s.epoch ∧
      penaltyAmount s.opts amt (u - s.epoch) newEp = some o.v3 ∧ o.v3 < amt ∧ o.v2 = amt - o.v3 := by
  obtain ⟨u, pen, newEp, _, hl, hu, hlt, _, hn, hlt2, hp, _, hl2, ho2, ho3, _, _, _⟩ := reduceLock_spec h
  rw [ho3]
  exact ⟨u, newEp, hl, hu, hlt, hn, hlt2, hp, hl2, by rw [ho2]⟩

/-- `penalty_amount < amount`: whenever the percentage is below 100 % something is left -/
theorem penalty_lt_amount {amt pct : Nat} (ha : 0 < amt) (hp : pct < MAXPCT) :
    amt * pct / MAXPCT < amt :=
  penalty_lt_of_pct_lt ha hp

/-- the unbond gate: `claimUnlockedTokens` pays out a FIFO prefix of the caller's queue, every
    entry of which has matured (`now ≥ entry.unlock`), at most 20 per call, and pays exactly the sum
    of their unlocked amounts -/
theorem unbond_gate {s s' : St} {c : Nat} {o : Out} (hc : c ≠ UNSTAKE)
    (h : claimUnlocked s c = some (s', o)) :
    ∃ claimed, claimed ≠ [] ∧ s.queue c = claimed ++ s'.queue c ∧ claimed.length ≤ MAXCLAIM ∧
      (∀ e ∈ claimed, e.unlock ≤ s.epoch) ∧
      o.v1 = (claimed.map (·.unlocked)).sum ∧ s'.base c = s.base c + (claimed.map (·.unlocked)).sum ∧
      s'.baseSupply = s.baseSupply := by
  obtain ⟨h1, h2, rfl, h4, h5, _, _⟩ := claimUnlocked_spec hc h
  exact ⟨_, h1, h2, claimable_length _ _, claimable_all _ _, rfl, h4, h5⟩

/-- … and nothing can be claimed while the oldest entry is still unbonding -/
theorem unbond_gate_closed {s : St} {c : Nat} {e : UEntry} {rest : List UEntry}
    (hq : s.queue c = e :: rest) (hlt : s.epoch < e.unlock) : claimUnlocked s c = none :=
  claim_fails_unripe hq hlt

/-- the penalty of a reduction is split `burn = ⌊pen·b/10000⌋`, `collector = pen − burn`, and the
    two parts add up to the penalty -/
theorem penalty_split_reduce {s s' : St} {c n amt epochs : Nat} {o : Out} (hb : s.burnPct ≤ MAXPCT)
    (h : reduceLock s c n amt epochs = some (s', o)) :
    s'.penBurned = s.penBurned + o.v3 * s.burnPct / MAXPCT ∧
    s'.collected = s.collected + (o.v3 - o.v3 * s.burnPct / MAXPCT) ∧
    (s'.penBurned - s.penBurned) + (s'.collected - s.collected) = o.v3 := by
  obtain ⟨u, pen, newEp, _, _, _, _, _, _, _, _, _, _, _, ho3, h1, h2, _⟩ := reduceLock_spec h
  rw [ho3]
  refine ⟨h1, h2, ?_⟩
  have hburn : pen * s.burnPct / MAXPCT ≤ pen := by
    apply Nat.div_le_of_le_mul
    rw [Nat.mul_comm]
    exact Nat.mul_le_mul_right _ hb
  rw [h1, h2]
  generalize pen * s.burnPct / MAXPCT = b at *
  omega

/-- the penalties of the entries paid out by a claim are split the same way, entry by entry -/
theorem penalty_split_claim {s s' : St} {c : Nat} {o : Out} (hc : c ≠ UNSTAKE)
    (h : claimUnlocked s c = some (s', o)) :
    ∃ claimed, s.queue c = claimed ++ s'.queue c ∧
      s'.penBurned = s.penBurned + (claimed.map (fun q => (q.locked - q.unlocked) * s.burnPct / MAXPCT)).sum ∧
      s'.collected = s.collected + (claimed.map (fun q => (q.locked - q.unlocked) -
        (q.locked - q.unlocked) * s.burnPct / MAXPCT)).sum := by
  obtain ⟨_, h2, _, _, _, h6, h7⟩ := claimUnlocked_spec hc h
  exact ⟨_, h2, h6, h7⟩

/-! ### supply -/

/-- over any history whatsoever (no well-formedness needed): base supply = initial + minted by
    unlock + minted by early unlock − burned by lock − burned by cancel; and
    base supply + locked tokens in circulation + penalties pending + penalties destroyed
    = initial supply + reward emission (`lockVirtual`).  Hence the base supply can grow only through
    unlocks of previously burned amounts and reward emission: it never exceeds initial + emission. -/
theorem base_supply_delta (c : Cfg) (hb : c.burnPct ≤ MAXPCT) (ops : List Op) :
    let s := run (init c) ops
    s.baseSupply + s.burnLock + s.burnCancel = s.baseInit + s.mintUnlock + s.mintEarly ∧
    s.baseSupply + s.circ + s.pendingPenalty + s.penBurned + s.collected = s.baseInit + s.virtLocked ∧
    s.baseSupply ≤ s.baseInit + s.virtLocked := by
  intro s
  have h : SInv s := run_sinv ops (init_sinv c hb)
  obtain ⟨⟨l, cv⟩, _⟩ := h
  exact ⟨l, cv, by omega⟩

/-- one transaction keeps both ledgers (any operation, any arguments) -/
theorem supply_step {s s' : St} {op : Op} {o : Out} (hi : SInv s) (h : step s op = some (s', o)) :
    SInv s' :=
  step_sinv hi h

/-- a failed transaction leaves the state untouched (atomicity as modelled) -/
theorem failed_tx_no_effect (s : St) (op : Op) (h : step s op = none) : run s [op] = s := by
  simp [run, h]

/-- non-vacuity: the repository's option set is admissible, and a concrete history runs through
    lock, early unlock with an interpolated penalty, an unsuccessful and a successful claim, a
    reduction with a burn/collector split and a cancelled unbonding -/
example : Admissible [(360, 4000), (720, 6000), (1440, 8000)] :=
  ⟨by decide, by decide, by decide, by decide, by decide, by decide, by decide, by decide, trivial⟩

example :
    let s := run (init { epoch := 5, opts := [(360, 4000), (720, 6000), (1440, 8000)], unbond := 10,
                         burnPct := 2500, minLock := 4, cooldown := 6, users := 2, funds := 1000000 })
      [.lock 1 100000 1440 0, .advance 545, .unlockEarly 1 1 10000, .claim 1, .advance 555, .claim 1,
       .reduce 1 1 20000 360, .unlockEarly 1 1 5000, .cancel 1]
    pctFull s.opts 895 = some 6486 ∧ s.base 1 = 903514 ∧ s.penBurned = 1621 + 2128 ∧
    s.collected = 4865 + 6384 ∧ s.pendingPenalty = 0 ∧ s.baseSupply = 1903514 ∧ s.burnCancel = 1771 ∧
    s.queue 1 = [] ∧ s.nonces = [1440, 900] ∧ s.bal 1 2 = 11488 := by
  decide

end Mx.C09
