/-
  C07 (farm-staking side), the HISTORY-LEVEL clauses — supply = sum; owner totals exact.

  Statement (properties.jsonl C07): "The farm-token supply always equals the sum of all
  outstanding position amounts; … Each user's tracked total farm position equals the sum of
  outstanding positions whose recorded owner is that user, also after positions are transferred
  and then used by another account."

  Model: Core/Staking.lean.  The staking farm issues its positions AND its unbond tokens under one
  token identifier / nonce counter (`md n = some (.pos attrs) | some (.unbond unlock)`); the
  outstanding units of nonce `n` are what the accounts of the world hold of it,
  `Σ_{a ∈ accounts} hold a n`.  The sums below range over the nonces created so far (`0 … nonce`);
  `holdings_domain` says nothing is held outside that range or by a non-account, so they are the
  sums over ALL outstanding SFTs.

  Accounts.  `init` takes ANY list of accounts; the sums run over the distinct accounts
  `accts.dedup` (same members, each once), so the theorems need no hypothesis at all.  For a world
  created with distinct accounts (`accts.Nodup`, what the harness does) `accts.dedup = accts`: the
  `…_nodup` corollaries are the same statements with the plain list.

  Proxy endpoints (`stakeFarmThroughProxy`, `claimRewardsWithNewValue`, `unstakeFarmThroughProxy`):
  the staked amount is virtual (no staking tokens move), but the position token, the supply and
  the original caller's total are written exactly as for a direct stake
  (`claimRewardsWithNewValue` replaces the position amount: `supply −= old; += new`, same for the
  owner's total) — so both clauses hold unchanged for them; only the BALANCE clause of C12 / C05
  (`bal + virt = supply + …`) sees the difference.

  Only property theorems live here (helpers: Lemmas/StakingPos.lean, Lemmas/StakingTrans.lean).
  The per-operation clauses of C07 (merge / split arithmetic) are in Props/C07Staking.lean.
-/
import MxModel.Lemmas.StakingTrans

namespace Mx.C07StakingSum
open Mx.Staking

/-- one successful transaction keeps the position-token invariant (`PosInv`: holdings only at
    accounts and created nonces, supply = Σ positions, owner totals = Σ owned positions) -/
theorem pos_step {s s' : St} {op : Op} {o : Out} (hI : PosInv s) (h : step s op = some (s', o)) :
    PosInv s' :=
  step_posInv hI h

/-- the position-token invariant holds in every reachable state: any deployment parameters, any
    accounts, any history of operations (failed ones leave the state unchanged) -/
theorem pos_inv_reachable (epoch block dsc maxApr minUnbond perBlock : Nat) (accts wl : List Nat)
    (ops : List Op) :
    PosInv (run (init epoch block dsc maxApr minUnbond perBlock accts wl) ops) :=
  run_posInv ops (posInv_init epoch block dsc maxApr minUnbond perBlock accts wl)

/-- **supply = sum.**  In every reachable state the reported farm-token supply equals the sum,
    over the position nonces (unbond tokens excluded), of the units of that nonce held by all
    (distinct) accounts. -/
theorem supply_eq_sum (epoch block dsc maxApr minUnbond perBlock : Nat) (accts wl : List Nat)
    (ops : List Op) :
    let s := run (init epoch block dsc maxApr minUnbond perBlock accts wl) ops
    s.supply =
      ((List.range (s.nonce + 1)).map fun n =>
        match s.md n with
        | some (.pos _) => (s.accts.dedup.map fun a => s.hold a n).sum
        | _ => 0).sum :=
  (pos_inv_reachable epoch block dsc maxApr minUnbond perBlock accts wl ops).supply_eq

/-- **owner totals.**  In every reachable state, for EVERY address `u`,
    `userTotalFarmPosition(u)` equals the sum of the outstanding units of the positions whose
    recorded original owner is `u` — whoever holds them now (after plain transfers), and after
    positions recorded for one user were used by another account (the endpoint then moves the
    amount from the old owner's total to the new owner's and re-issues the position under the
    new owner). -/
theorem owner_totals (epoch block dsc maxApr minUnbond perBlock : Nat) (accts wl : List Nat)
    (ops : List Op) (u : Nat) :
    let s := run (init epoch block dsc maxApr minUnbond perBlock accts wl) ops
    s.userTotal u =
      ((List.range (s.nonce + 1)).map fun n =>
        match s.md n with
        | some (.pos a) => if a.owner = u then (s.accts.dedup.map fun c => s.hold c n).sum else 0
        | _ => 0).sum :=
  (pos_inv_reachable epoch block dsc maxApr minUnbond perBlock accts wl ops).owner_eq u

/-- the accounts of a world never change -/
theorem accts_const (epoch block dsc maxApr minUnbond perBlock : Nat) (accts wl : List Nat)
    (ops : List Op) :
    (run (init epoch block dsc maxApr minUnbond perBlock accts wl) ops).accts = accts :=
  run_accts ops

/-- `supply_eq_sum` for a world created with distinct accounts: the plain list of accounts -/
theorem supply_eq_sum_nodup (epoch block dsc maxApr minUnbond perBlock : Nat) (accts wl : List Nat)
    (hnd : accts.Nodup) (ops : List Op) :
    let s := run (init epoch block dsc maxApr minUnbond perBlock accts wl) ops
    s.supply =
      ((List.range (s.nonce + 1)).map fun n =>
        match s.md n with
        | some (.pos _) => (s.accts.map fun a => s.hold a n).sum
        | _ => 0).sum :=
  (pos_inv_reachable epoch block dsc maxApr minUnbond perBlock accts wl ops).supply_eq_nodup
    (by rw [accts_const]; exact hnd)

/-- `owner_totals` for a world created with distinct accounts -/
theorem owner_totals_nodup (epoch block dsc maxApr minUnbond perBlock : Nat) (accts wl : List Nat)
    (hnd : accts.Nodup) (ops : List Op) (u : Nat) :
    let s := run (init epoch block dsc maxApr minUnbond perBlock accts wl) ops
    s.userTotal u =
      ((List.range (s.nonce + 1)).map fun n =>
        match s.md n with
        | some (.pos a) => if a.owner = u then (s.accts.map fun c => s.hold c n).sum else 0
        | _ => 0).sum :=
  (pos_inv_reachable epoch block dsc maxApr minUnbond perBlock accts wl ops).owner_eq_nodup
    (by rw [accts_const]; exact hnd) u

/-- the sums above miss nothing: farm-token SFTs are only held by accounts of the world and only
    under nonces created so far -/
theorem holdings_domain (epoch block dsc maxApr minUnbond perBlock : Nat) (accts wl : List Nat)
    (ops : List Op) (a n : Nat) :
    let s := run (init epoch block dsc maxApr minUnbond perBlock accts wl) ops
    s.hold a n ≠ 0 → a ∈ s.accts ∧ n ≤ s.nonce := by
  intro s hne
  exact (pos_inv_reachable epoch block dsc maxApr minUnbond perBlock accts wl ops).domain hne

/-- no user's tracked total exceeds the supply (the positions recorded as `u`'s are among all
    positions) -/
theorem totals_le_supply (epoch block dsc maxApr minUnbond perBlock : Nat) (accts wl : List Nat)
    (ops : List Op) (u : Nat) :
    let s := run (init epoch block dsc maxApr minUnbond perBlock accts wl) ops
    s.userTotal u ≤ s.supply := by
  intro s
  have h := pos_inv_reachable epoch block dsc maxApr minUnbond perBlock accts wl ops
  have h1 : s.userTotal u = _ := h.own u
  have h2 : s.supply = _ := h.sup
  rw [h1, h2]
  apply wsum_le
  intro n _
  simp only [ownW, posW]
  split
  · split <;> omega
  · exact Nat.le_refl _

/-- **transferred and then used by another account.**  In a state that satisfies the invariant
    (every reachable state), when an account `c` claims with units of a position whose recorded
    owner is somebody else (it got them by a plain transfer), exactly the amount sent moves from
    the recorded owner's total — which contains it, nothing saturates — to `c`'s total, nobody
    else's total changes, and the position handed out records `c` as its owner. -/
theorem foreign_position_used {s s' : St} {c : Nat} {pay : Pay} {o : Out} {a : Attrs}
    (hI : PosInv s) (hc : c ∈ s.accts) (h : claimCore s c c [pay] none = some (s', o))
    (ha : posOf s.md pay.1 = some a) (hne : a.owner ≠ c) :
    pay.2 ≤ s.userTotal a.owner ∧ s'.userTotal a.owner = s.userTotal a.owner - pay.2 ∧
    s'.userTotal c = s.userTotal c + pay.2 ∧
    (∀ u, u ≠ c → u ≠ a.owner → s'.userTotal u = s.userTotal u) ∧
    (∃ t, s'.md (s.nonce + 1) = some (.pos t) ∧ t.owner = c ∧ t.amount = pay.2) :=
  claimCore_foreign hI hc h ha hne

/-- `decrease_user_farm_position` on unstake is an exact subtraction (the code's saturating
    "`total > amount ? total − amount : clear`" never hides a shortfall): the recorded owner's
    total contains the part taken out, and supply and that total drop by exactly this part -/
theorem unstake_decrease_exact {s s' : St} {c orig : Nat} {pay : Pay} {x : Option Nat} {o : Out}
    (hI : PosInv s) (hc : c ∈ s.accts) (h : unstakeCore s c orig pay x = some (s', o)) :
    ∃ a, posOf s.md pay.1 = some a ∧ pay.2 ≤ s.userTotal a.owner ∧
      s'.userTotal a.owner = s.userTotal a.owner - pay.2 ∧
      (∀ u, u ≠ a.owner → s'.userTotal u = s.userTotal u) ∧ s'.supply + pay.2 = s.supply :=
  unstakeCore_total_exact hI hc h

/-- non-vacuity / the "transferred and then used by another account" scenario: user 1 stakes
    1000 and 500, transfers 400 units of the first position to user 2; user 2 claims with them
    (the 400 move from user 1's total to user 2's, the new position records user 2); user 1
    unstakes 100 of the rest (an unbond token of 100 appears under the same token id and does not
    count).  Supply 1400 = 500 (nonce 1, user 1) + 500 (nonce 2, user 1) + 400 (nonce 3, user 2). -/
example :
    let s := run (init 5 10 1000000000000 1000000 2 5000 [1, 2, 101] [101])
      [.topUp 1000000, .stake 1 none 1000 [], .advance 10 0, .stake 1 none 500 [],
       .transfer 1 2 (1, 400), .advance 10 0, .claim 2 none (1, 400), .unstake 1 none (1, 100)]
    s.supply = 1400 ∧ s.userTotal 1 = 1000 ∧ s.userTotal 2 = 400 ∧ s.nonce = 4 ∧
    s.hold 1 1 = 500 ∧ s.hold 1 2 = 500 ∧ s.hold 2 3 = 400 ∧ s.hold 1 4 = 100 ∧
    s.md 4 = some (.unbond 7) ∧
    (s.md 3).map (fun m => match m with | .pos a => a.owner | _ => 0) = some 2 := by
  decide

/-- **merge_no_gain_nary** (farm-staking).  `merge_attributes_from_payments` over the whole payment
    list: the merged position's principal is the base's plus the sum of the paid amounts, and at
    EVERY future index `R` its un-rounded entitlement is at most the base's plus the sum of what the
    paid parts could claim at their own entry indexes — plain list sums over the stored attributes. -/
theorem merge_no_gain_nary {md : Nat → Option Meta} {pays : List Pay} {base out : Attrs}
    (h : mergeParts md base pays = some out) (R : Nat) :
    out.amount = base.amount + (pays.map (·.2)).sum ∧
    out.amount * (R - out.rps) ≤ base.amount * (R - base.rps) +
      (pays.map fun p => p.2 * (match posOf md p.1 with | some a => R - a.rps | none => 0)).sum := by
  have e1 := (mergeParts_amount h).1
  have e2 := mergeParts_pot md R pays base out h
  rw [payTot_eq] at e1
  have s2 : ∀ l : List Pay, payW (potW md R) l =
      (l.map fun p => p.2 * (match posOf md p.1 with | some a => R - a.rps | none => 0)).sum := by
    intro l; induction l with
    | nil => rfl
    | cons p r ih =>
      have e : potW md R p.1 = (match posOf md p.1 with | some a => R - a.rps | none => 0) := by
        unfold potW; cases posOf md p.1 <;> rfl
      simp only [payW, List.map_cons, List.sum_cons, ih, e, Nat.mul_comm]
  rw [s2] at e2
  exact ⟨e1, e2⟩

/-- non-vacuity: two stored positions with different indexes merged into a base -/
example :
    let md : Nat → Option Meta := fun n =>
      if n = 1 then some (.pos ⟨3, 0, 20, 1⟩) else if n = 2 then some (.pos ⟨9, 0, 11, 1⟩) else none
    (mergeParts md ⟨5, 0, 30, 1⟩ [(1, 20), (2, 11)]).map (·.amount) = some 61 := by
  decide

end Mx.C07StakingSum
