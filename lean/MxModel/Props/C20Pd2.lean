/-
  C20 (price-discovery part, completion) — the `withdraw` completeness iff that was missing
  next to `C20.pd_deposit_ok_iff`, its form on reachable states (where three of the raw
  guards are implied by the invariant), and non-vacuity examples for the whole `pd_*` family
  of `Props/C20Pd.lean`.

  Views: `viewPhase` = `getCurrentPhase`, `viewPrice` = `getCurrentPrice` =
  `priceOf cfg launched_balance accepted_balance`, `viewSupply` =
  `getRedeemTokenTotalCirculatingSupply`.  Rust: dex/price-discovery/src/lib.rs `withdraw`
  (lines 169–217): phase gate, payment must be the redeem token (nonce 1 / 2),
  `burn_redeem_token` (ESDT burn + supply -= amount), penalty = amount·pct/10^13,
  `decrease_balance`, `calculate_price` (fails on an empty launched pool), floor check,
  `send().direct`.
-/
import MxModel.Props.C17
import MxModel.Props.C20Pd

set_option linter.unusedSimpArgs false

namespace Mx.C20Pd2
open Mx.PD

/-- the penalty `getCurrentPhase` implies for handing in `amt` redeem tokens now -/
def penaltyNow (s : St) (amt : Nat) : Nat := amt * (viewPhase s).pct / MAXP

/-- the tracked pools after `amt − penalty` of token `t` left: what `getCurrentPrice` will be
    computed from after the withdrawal -/
def poolAfterL (s : St) (t : Tok) (amt : Nat) : Nat :=
  if t = .launched then s.L.bal - (amt - penaltyNow s amt) else s.L.bal
def poolAfterA (s : St) (t : Tok) (amt : Nat) : Nat :=
  if t = .accepted then s.A.bal - (amt - penaltyNow s amt) else s.A.bal

/-- **withdraw: the quote is complete (raw form, every state).**  A withdrawal of `amt` redeem
    tokens of side `t` by `c` succeeds exactly when: the caller is a user; the amount is
    positive; the phase `getCurrentPhase` reports allows withdrawals; the caller holds the
    redeem tokens; the reported circulating supply covers the burn; the penalty computed from
    the reported percentage does not exceed the amount (checked subtraction); the tracked
    pool and the contract's real balance cover the payout; and the price the views would
    report afterwards exists (launched pool not empty) and passes the floor.  There is no
    further guard. -/
theorem pd_withdraw_ok_iff (s : St) (c : Nat) (t : Tok) (amt : Nat) :
    (withdraw s c t amt).isSome = true ↔
      s.isUser c ∧ 0 < amt ∧ (viewPhase s).withdrawAllowed = true ∧
      amt ≤ (s.side t).h c ∧ amt ≤ viewSupply s t ∧
      penaltyNow s amt ≤ amt ∧
      amt - penaltyNow s amt ≤ (s.side t).bal ∧ amt - penaltyNow s amt ≤ (s.side t).real ∧
      ∃ p, priceOf s.cfg (poolAfterL s t amt) (poolAfterA s t amt) = some p ∧
           s.cfg.minPrice ≤ p := by
  constructor
  · intro h
    obtain ⟨⟨s', o⟩, hd⟩ := Option.isSome_iff_exists.1 h
    obtain ⟨p, pen, h1, h2, h3, hpen, h5, h6, h7, h8, h9, h10, h11, _, rfl⟩ := withdraw_spec hd
    have hp : pen = penaltyNow s amt := hpen
    subst hp
    refine ⟨h1, h2, h3, h6, h7, h5, h8, h9, p, ?_, h11⟩
    cases t <;>
      simpa [St.price, St.setSide, St.side, wdSide, poolAfterL, poolAfterA] using h10
  · rintro ⟨h1, h2, h3, h4, h5, h6, h7, h8, p, h9, h10⟩
    have h3' : s.phase.withdrawAllowed = true := h3
    have h6' : amt * s.phase.pct / MAXP ≤ amt := h6
    cases t
    · simp [withdraw, req, sub?, h1, h2, h3', St.price, St.setSide, St.side, viewSupply,
        penaltyNow, viewPhase, poolAfterL, poolAfterA] at h4 h5 h7 h8 h9 ⊢
      simp [h4, h5, h6', h7, h8, h9, h10]
    · simp [withdraw, req, sub?, h1, h2, h3', St.price, St.setSide, St.side, viewSupply,
        penaltyNow, viewPhase, poolAfterL, poolAfterA] at h4 h5 h7 h8 h9 ⊢
      simp [h4, h5, h6', h7, h8, h9, h10]

/-- on a state satisfying the invariant, while withdrawals are open, the contract's real
    balance of a token equals its tracked pool (nothing has been redeemed yet) -/
theorem real_eq_bal_of_withdrawAllowed {s : St} (hi : Inv s)
    (hp : (viewPhase s).withdrawAllowed = true) (t : Tok) :
    (s.side t).real = (s.side t).bal := by
  have hb : s.block < s.cfg.e3 := ((withdrawAllowed_iff s.cfg s.block).1 hp).2
  have h1 := (hi t).real_paid
  have h2 := ((hi t).pre_redeem hb).2
  omega

/-- …and a user's redeem tokens never exceed the reported circulating supply -/
theorem held_le_supply {s : St} (hi : Inv s) {c : Nat} (hc : s.isUser c) (t : Tok) :
    (s.side t).h c ≤ viewSupply s t := by
  have h1 := (hi t).sup_eq
  have h2 := le_sumU s.n (s.side t).h hc.1 hc.2
  unfold viewSupply
  omega

/-- **withdraw: the quote is complete (reachable states).**  In every state reached by any
    history from a deployment with a valid configuration, a withdrawal succeeds exactly when
    the caller is a user holding the redeem tokens, the amount is positive, the phase
    `getCurrentPhase` reports allows withdrawals, the tracked pool covers `amt − penalty` and
    the price the views would report afterwards exists and passes the floor.  The supply,
    real-balance and penalty-≤-amount guards of the raw form are consequences of the
    invariant and of `Cfg.ok`. -/
theorem pd_withdraw_ok_iff_reachable (cfg : Cfg) (hc : cfg.ok) (n fL fA : Nat) (ops : List Op)
    (c : Nat) (t : Tok) (amt : Nat) :
    let s := run (init cfg n fL fA) ops
    (withdraw s c t amt).isSome = true ↔
      s.isUser c ∧ 0 < amt ∧ (viewPhase s).withdrawAllowed = true ∧
      amt ≤ (s.side t).h c ∧
      amt - penaltyNow s amt ≤ (s.side t).bal ∧
      ∃ p, priceOf s.cfg (poolAfterL s t amt) (poolAfterA s t amt) = some p ∧
           s.cfg.minPrice ≤ p := by
  intro s
  have hi : Inv s := run_inv ops (inv_init cfg n fL fA)
  have hcfg : s.cfg = cfg := (run_cfg ops (init cfg n fL fA)).1
  have hpct : (viewPhase s).pct < MAXP := by
    have := C17.penalty_below_full cfg hc s.block
    simpa [viewPhase, St.phase, hcfg] using this
  have hpen : penaltyNow s amt ≤ amt := by
    unfold penaltyNow
    apply Nat.div_le_of_le_mul
    rw [Nat.mul_comm MAXP]
    exact Nat.mul_le_mul_left _ (Nat.le_of_lt hpct)
  rw [pd_withdraw_ok_iff]
  constructor
  · rintro ⟨h1, h2, h3, h4, _, _, h7, _, h9⟩
    exact ⟨h1, h2, h3, h4, h7, h9⟩
  · rintro ⟨h1, h2, h3, h4, h7, h9⟩
    refine ⟨h1, h2, h3, h4, Nat.le_trans h4 (held_le_supply hi h1 t), hpen, h7, ?_, h9⟩
    rw [real_eq_bal_of_withdrawAllowed hi h3 t]
    exact h7

/-- a successful withdrawal charges exactly the penalty the phase view implies and the price
    view afterwards is the one checked: exec ⇒ quote in the vocabulary of the iff -/
theorem pd_withdraw_exec_quote {s s' : St} {c : Nat} {t : Tok} {amt : Nat} {o : Out}
    (h : withdraw s c t amt = some (s', o)) :
    o.v2 = penaltyNow s amt ∧ o.v1 = amt - penaltyNow s amt ∧
    viewPrice s' = priceOf s.cfg (poolAfterL s t amt) (poolAfterA s t amt) := by
  obtain ⟨p, pen, _, _, _, hpen, _, _, _, _, _, _, _, rfl, rfl⟩ := withdraw_spec h
  have hp : pen = penaltyNow s amt := hpen
  subst hp
  refine ⟨rfl, rfl, ?_⟩
  cases t <;> simp [viewPrice, St.price, St.setSide, St.side, wdSide, poolAfterL, poolAfterA]

/-! ### non-vacuity (closed reachable states) -/

/-- configuration of the examples (the one of `Props/C17.lean`): start 2, phases of 1 / 3 / 1
    blocks, linear penalty 10 % … 50 %, fixed 25 %, min price 0.5 at 6 decimals, unlock 5 -/
def exCfg : Cfg := ⟨2, 1, 3, 1, 1000000000000, 5000000000000, 2500000000000, 500000, 1000000, 5⟩

/-- block 4 = second block of the linear phase: `getCurrentPhase` = Linear(30 %) -/
def exLinear : St := run (init exCfg 2 1000000 1000000)
  [.advance 2, .deposit 1 .launched 1000, .deposit 2 .accepted 900, .advance 4]

/-- block 6 = the fixed-penalty phase (25 %), after one penalised withdrawal -/
def exFixed : St := run (init exCfg 2 1000000 1000000)
  [.advance 2, .deposit 1 .launched 1000, .deposit 2 .accepted 900, .advance 4,
   .withdraw 2 .accepted 100, .advance 6]

/-- `pd_withdraw_ok_iff`, both directions, in the penalty phase with a NON-ZERO penalty: 100
    redeem tokens at 30 % — every listed guard holds (penalty 30, payout 70, price after
    830·10^6/1000 = 830000 ≥ 500000) and the call succeeds, pays 70 and keeps 30 -/
example :
    let s := exLinear
    exCfg.ok ∧ viewPhase s = .linear 3000000000000 ∧ penaltyNow s 100 = 30 ∧
    s.isUser 2 ∧ (viewPhase s).withdrawAllowed = true ∧ 100 ≤ s.A.h 2 ∧ 100 ≤ viewSupply s .accepted ∧
    70 ≤ s.A.bal ∧ 70 ≤ s.A.real ∧
    priceOf s.cfg (poolAfterL s .accepted 100) (poolAfterA s .accepted 100) = some 830000 ∧
    (withdraw s 2 .accepted 100).isSome = true ∧
    (withdraw s 2 .accepted 100).map (·.2) = some ⟨70, 30, 0⟩ := by
  decide

/-- the floor guard of the iff is live: handing in 600 at 30 % would leave 480·10^6/1000 =
    480000 < 500000 — every other guard holds, the price guard fails, the call fails; and a
    caller without the redeem tokens fails on the wallet guard alone -/
example :
    let s := exLinear
    600 ≤ s.A.h 2 ∧ penaltyNow s 600 = 180 ∧
    priceOf s.cfg (poolAfterL s .accepted 600) (poolAfterA s .accepted 600) = some 480000 ∧
    (withdraw s 2 .accepted 600).isSome = false ∧
    (withdraw s 2 .accepted 571).isSome = true ∧ (withdraw s 2 .accepted 572).isSome = false ∧
    s.A.h 1 = 0 ∧ (withdraw s 1 .accepted 1).isSome = false := by
  decide

/-- the launched side: withdrawing launched tokens RAISES the price, but emptying the pool
    makes `getCurrentPrice` fail — the `∃ p` guard: 1000 redeem tokens at 30 % leave 300 (ok),
    while in the no-penalty phase handing in everything leaves 0 and is refused -/
example :
    let s := exLinear
    let s0 := run (init exCfg 2 1000000 1000000)
      [.advance 2, .deposit 1 .launched 1000, .deposit 2 .accepted 900]
    (withdraw s 1 .launched 1000).map (·.2) = some ⟨700, 300, 0⟩ ∧
    viewPhase s0 = .noPenalty ∧ penaltyNow s0 1000 = 0 ∧
    priceOf s0.cfg (poolAfterL s0 .launched 1000) (poolAfterA s0 .launched 1000) = none ∧
    (withdraw s0 1 .launched 1000).isSome = false ∧ (withdraw s0 1 .launched 999).isSome = true := by
  decide

/-- `C20.pd_withdraw_phase_quote` / `pd_price_after_withdraw` instantiated: fixed phase (25 %),
    80 redeem tokens → pays 60, keeps 20; `getCurrentPrice` afterwards is the checked price -/
example :
    let s := exFixed
    viewPhase s = .fixed 2500000000000 ∧
    (withdraw s 2 .accepted 80).map (·.2) = some ⟨60, 20, 0⟩ ∧
    (withdraw s 2 .accepted 80).map (fun r => viewPrice r.1) = some (some 770000) ∧
    (viewPhase s).depositAllowed = false ∧ (deposit s 1 .launched 1).isSome = false := by
  decide

/-- `C20.pd_deposit_ok_iff` / `pd_deposit_phase_quote` / `pd_price_after_deposit` instantiated
    in the linear phase: every guard holds for a launched deposit of 600 (price after
    830·10^6/1600 = 518750 ≥ 500000) and it succeeds; 661 more launched tokens would push the
    price to 499698 < floor and is refused, while an accepted-token deposit is exempt -/
example :
    let s := run exLinear [.withdraw 2 .accepted 100]
    s.isUser 1 ∧ (viewPhase s).depositAllowed = true ∧ 600 ≤ s.L.w 1 ∧
    priceOf s.cfg (s.L.bal + 600) s.A.bal = some 518750 ∧
    (deposit s 1 .launched 600).isSome = true ∧
    (deposit s 1 .launched 600).map (fun r => viewPrice r.1) = some (some 518750) ∧
    priceOf s.cfg (s.L.bal + 661) s.A.bal = some 499698 ∧
    (deposit s 1 .launched 661).isSome = false ∧ (deposit s 1 .launched 660).isSome = true ∧
    (deposit s 1 .accepted 5).isSome = true := by
  decide

end Mx.C20Pd2
