/-
  C05 (farm, farm-with-locked-rewards), last clause — the POSITION half of the week budget.

  Props/C05Cover.lean reduces "no legitimate claim/exit/enter/merge fails because an internal counter
  would go negative" to the weekly-rewards module and isolates the one arithmetic cause inside it: the
  per-week subtraction `remainingBoostedRewardsToDistribute(w) −= reward` of
  `get_user_rewards_for_week`.  It is safe under the week budget (`weekly_sub_safe_under_budget`), whose
  ENERGY half `Σ e_v ≤ E_w` holds in every reachable state (`week_budget_energy_half`).  Finding F6 was
  a reachable violation of the POSITION half `Σ f_v ≤ F_w`.  With the repair
  (`claim_boosted_yields_rewards` runs `update_energy_and_progress` also when no boosted-yields
  factors are configured) the position half is an invariant — proved here for every history of the
  farm model (both kinds):

  * `week_budget_position_half` — every completed week `w`: `farmSupplyForWeek(w) = 0` or the CURRENT
    total farm positions of all users who can still claim `w` sum to at most `farmSupplyForWeek(w)`;
  * `current_week_supply_recorded` — the running week's recorded supply is 0 or the farm-token supply,
    later weeks have nothing recorded;
  * `claimer_position_le_week_supply`, `claimer_energy_le_week_energy` — the two single-user bounds
    `f ≤ F`, `e ≤ E` (what failed in F6 was `f ≤ F`: 1001 against 1);
  * `no_reward_exceeds_week_pool` — hence for every reachable state, every claimable week and every
    user who can still claim it, the reward the code computes for that week is at most the week's
    whole pool `R` (in F6: 1 002 500 against 2 500);
  * `week_budget_at_freeze` — `WeekBudget … paid := 0` holds for every completed week in every
    reachable state (both halves together).

  NOT proved here (needed for `C05Cover.no_underflow_full`; see notes/f6fix.md): the budget WITH the
  amount already paid (`remaining(w) + paid(w) = R_w` for a frozen week inside the window, the paid
  amount being the shares of the users who left the claimers' sums, the week's factors staying the same
  ring entry while the week is claimable), and the success of the weekly module's own checked
  subtractions (bucket / total-energy updates).

  Hypothesis of the run-level theorems: `users.Nodup` (distinct accounts — `PosInv`).
  Model: Core/Farm.lean.  Lemmas: Lemmas/FarmWeekPos.lean (+ FarmPos, FarmEnergy, FarmWeekSafe).
-/
import MxModel.Lemmas.FarmWeekPos
import MxModel.Lemmas.FarmEnergy
import MxModel.Lemmas.FarmWeekSafe

namespace Mx.C05Budget
open Mx.Farm

/-- **the position half of the week budget holds in every reachable farm state.**  For the current
    week `W` and every completed week `w < W`: either no farm supply is recorded for `w` (then nothing
    is paid for it), or the CURRENT total farm positions (`userTotalFarmPosition`) of all users whose
    claim progress can still reach `w` (`fFor`: the total if `progress(v).week ≤ w`, else 0) sum to at
    most `farmSupplyForWeek(w)` — `Σ f_v ≤ F`.  (False before the repair of F6.) -/
theorem week_budget_position_half (kind : Kind) (same : Bool) (dsc pb : Nat) (produce : Bool)
    (users : List Nat) (e0 : Nat) (hnd : users.Nodup) (ops : List Op) :
    let s := run (init kind same dsc pb produce users e0) ops
    ∀ W, s.week = some W → ∀ w, w < W →
      s.b.farmSupplyWeek w = 0 ∨
      (s.w.users.map fun v => fFor s.w.progress s.userTotal v w).sum ≤ s.b.farmSupplyWeek w :=
  fun W hW w hw => (reachable_weekPos kind same dsc pb produce users e0 hnd ops).past W hW w hw

/-- what `fFor` is: the user's current total farm position if its claim progress has not passed the
    week, else nothing -/
theorem fFor_eq (prog : Nat → Option Weekly.ClaimProgress) (tot : Nat → Nat) (v w : Nat) :
    fFor prog tot v w = match prog v with
      | some p => if p.week ≤ w then tot v else 0
      | none => 0 := rfl

/-- the running week: the recorded farm supply is 0 (no supply-changing operation yet) or exactly the
    farm-token supply; no later week has anything recorded; the key list of the weekly module has no
    duplicates (so the sums above count every user once) -/
theorem current_week_supply_recorded (kind : Kind) (same : Bool) (dsc pb : Nat) (produce : Bool)
    (users : List Nat) (e0 : Nat) (hnd : users.Nodup) (ops : List Op) :
    let s := run (init kind same dsc pb produce users e0) ops
    s.w.users.Nodup ∧
    ∀ W, s.week = some W →
      (s.b.farmSupplyWeek W = 0 ∨ s.b.farmSupplyWeek W = s.supply) ∧
      ∀ w, W < w → s.b.farmSupplyWeek w = 0 := by
  intro s
  have h := reachable_weekPos kind same dsc pb produce users e0 hnd ops
  exact ⟨h.nodup, fun W hW => ⟨h.cur W hW, h.fut W hW⟩⟩

/-- a user with a claim-progress entry is in the weekly module's key list (reachable states) -/
theorem progress_mem_users (kind : Kind) (same : Bool) (dsc pb : Nat) (produce : Bool)
    (users : List Nat) (e0 : Nat) (ops : List Op) (v : Nat) :
    let s := run (init kind same dsc pb produce users e0) ops
    s.w.progress v ≠ none → v ∈ s.w.users := by
  intro s hv
  rcases (reachable_winv kind same dsc pb produce users e0 ops).1 with hp | ⟨_, hr⟩
  · exact absurd (hp.noProgress v) hv
  · exact hr.p.mem v hv

/-- **`f ≤ F` for every claimer**: in every reachable state, a user `v` whose claim progress is at a
    week `≤ w` for a completed week `w` with a recorded supply has a current total farm position of at
    most that supply.  (F6: user 1 had 1001 against `farmSupplyForWeek 1 = 1`.) -/
theorem claimer_position_le_week_supply (kind : Kind) (same : Bool) (dsc pb : Nat) (produce : Bool)
    (users : List Nat) (e0 : Nat) (hnd : users.Nodup) (ops : List Op) (v : Nat) (p : Weekly.ClaimProgress) :
    let s := run (init kind same dsc pb produce users e0) ops
    ∀ W w, s.week = some W → w < W → s.w.progress v = some p → p.week ≤ w →
      s.b.farmSupplyWeek w ≠ 0 → s.userTotal v ≤ s.b.farmSupplyWeek w := by
  intro s W w hW hw hp hpw hF
  have hmem : v ∈ s.w.users :=
    progress_mem_users kind same dsc pb produce users e0 ops v (by rw [hp]; exact fun e => by cases e)
  rcases week_budget_position_half kind same dsc pb produce users e0 hnd ops W hW w hw with h0 | hle
  · exact absurd h0 hF
  · refine Nat.le_trans ?_ hle
    have := Weekly.le_usum (f := fun x => fFor s.w.progress s.userTotal x w) hmem
    have e : fFor s.w.progress s.userTotal v w = s.userTotal v := by
      rw [fFor_eq, hp]; simp only [hpw, if_true]
    rw [e] at this
    exact this

/-- **`e ≤ E` for every claimer** (from the energy half): the energy a user claims week `w` with — its
    recorded energy decayed to `w` — is at most `totalEnergyForWeek(w)` when that is non-zero -/
theorem claimer_energy_le_week_energy (kind : Kind) (same : Bool) (dsc pb : Nat) (produce : Bool)
    (users : List Nat) (e0 : Nat) (ops : List Op) (v w : Nat) :
    let s := run (init kind same dsc pb produce users e0) ops
    s.w.progress v ≠ none → s.w.totalEnergy w ≠ 0 →
      Weekly.eForP s.w.progress v w ≤ s.w.totalEnergy w := by
  intro s hv hE
  have hmem : v ∈ s.w.users := progress_mem_users kind same dsc pb produce users e0 ops v hv
  rcases (reachable_winv kind same dsc pb produce users e0 ops).2 w with h0 | hle
  · exact absurd h0 hE
  · exact Nat.le_trans (Weekly.le_usum (f := fun x => Weekly.eForP s.w.progress x w) hmem) hle

/-- **no computed weekly reward exceeds the week's whole pool.**  In every reachable state of the
    repaired farm, for every completed week `w` with recorded supply `F_w ≠ 0` and total energy
    `E_w ≠ 0`, every user `v` who can still claim `w` (progress at a week `≤ w`), any factors `fa`
    (`cE + cF ≠ 0`) and any frozen pool `R`: the amount `get_user_rewards_for_week` computes for `v` —
    with `v`'s CURRENT total farm position and its energy decayed to `w` — is at most `R`.
    This is exactly what finding F6 violated (1 002 500 computed against a pool of 2 500); it makes the
    FIRST payment out of a freshly frozen week (`remaining = R`) safe. -/
theorem no_reward_exceeds_week_pool (kind : Kind) (same : Bool) (dsc pb : Nat) (produce : Bool)
    (users : List Nat) (e0 : Nat) (hnd : users.Nodup) (ops : List Op) (v : Nat)
    (p : Weekly.ClaimProgress) (fa : Factors) (R : Nat) :
    let s := run (init kind same dsc pb produce users e0) ops
    ∀ W w, s.week = some W → w < W → s.w.progress v = some p → p.week ≤ w →
      s.b.farmSupplyWeek w ≠ 0 → s.w.totalEnergy w ≠ 0 → fa.cE + fa.cF ≠ 0 →
      boostedAmount fa R (s.userTotal v) (s.b.farmSupplyWeek w)
        (Weekly.eForP s.w.progress v w) (s.w.totalEnergy w) ≤ R := by
  intro s W w hW hw hp hpw hF hE hc
  exact boostedAmount_le fa R _ _ _ _ hc
    (claimer_position_le_week_supply kind same dsc pb produce users e0 hnd ops v p W w hW hw hp hpw hF)
    (claimer_energy_le_week_energy kind same dsc pb produce users e0 ops v w
      (by rw [hp]; exact fun e => by cases e) hE)

/-- **the week budget at freeze time holds in every reachable state**: for every completed week `w`
    with recorded supply and total energy, any factors and any pool `R`, `WeekBudget` with nothing paid
    yet holds for the sums over ALL users that can still claim `w` (energy half + position half). -/
theorem week_budget_at_freeze (kind : Kind) (same : Bool) (dsc pb : Nat) (produce : Bool)
    (users : List Nat) (e0 : Nat) (hnd : users.Nodup) (ops : List Op) (fa : Factors) (R : Nat) :
    let s := run (init kind same dsc pb produce users e0) ops
    ∀ W w, s.week = some W → w < W → s.b.farmSupplyWeek w ≠ 0 → s.w.totalEnergy w ≠ 0 →
      WeekBudget fa R (s.b.farmSupplyWeek w) (s.w.totalEnergy w) 0
        ((s.w.users.map fun u => Weekly.eForP s.w.progress u w).sum)
        ((s.w.users.map fun v => fFor s.w.progress s.userTotal v w).sum) := by
  intro s W w hW hw hF hE
  apply WeekBudget.init
  · rcases (reachable_winv kind same dsc pb produce users e0 ops).2 w with h0 | hle
    · exact absurd h0 hE
    · exact hle
  · rcases week_budget_position_half kind same dsc pb produce users e0 hnd ops W hW w hw with h0 | hle
    · exact absurd h0 hF
    · exact hle

/-- non-vacuity, on the history of finding F6 (ops 1–10, `C05Cover.cxOps`): week 1 is completed
    (current week 2), its recorded supply is 1, user 1's total position is 1001 — and user 1 is NOT
    among the claimers of week 1 any more (progress at week 2), so the sum of the claimers' positions
    is 0 ≤ 1.  With the pre-repair progress (week 1) the sum would be 1001 > 1. -/
example :
    let s := run (init .mint false 1000000000000 1000 true [1, 2] 0)
      [.setPct OWNER 2500, .setEnergy 1 1000000 0 1000, .enter 1 none 1 [], .advance 10 6,
       .claim 1 none [(1, 1)], .advance 10 7, .enter 2 none 1000 [], .transfer 2 1 3 1000,
       .claim 1 none [(3, 1000)], .setFactors OWNER ⟨10, 3, 2, 1, 1⟩]
    s.week = some 2 ∧ s.b.farmSupplyWeek 1 = 1 ∧ s.userTotal 1 = 1001 ∧ s.w.users = [1] ∧
    (s.w.users.map fun v => fFor s.w.progress s.userTotal v 1).sum = 0 ∧
    s.b.farmSupplyWeek 2 = s.supply := by
  decide

/-- non-vacuity with a non-trivial sum: corpus history f1 in week 2 — user 1 (position 100000000,
    progress still at week 1) is a claimer of week 1, whose recorded supply is 100000000 -/
example :
    let s := run (init .mint false 1000000000000 1000 true [1, 2] 0)
      [.setFactors OWNER ⟨10, 3, 2, 1, 1⟩, .setPct OWNER 2500, .setEnergy 1 1000000 0 1000,
       .enter 1 none 100000000 [], .advance 10 6, .claim 1 none [(1, 100000000)], .advance 20 7]
    s.week = some 2 ∧ s.b.farmSupplyWeek 1 = 100000000 ∧
    (s.w.users.map fun v => fFor s.w.progress s.userTotal v 1).sum = 100000000 := by
  decide

end Mx.C05Budget
