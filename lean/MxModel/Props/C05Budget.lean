/-
  C05 (farm, farm-with-locked-rewards), last clause — the POSITION half of the week budget.

  Props/C05Cover.lean reduces "no legitimate claim/exit/enter/merge fails because an internal counter
  would go negative" to the weekly-rewards module and isolates the one arithmetic cause inside it: the
  per-week subtraction `remainingBoostedRewardsToDistribute(w) −= reward` of
  `get_user_rewards_for_week`.  It is safe under the week budget (`weekly_sub_safe_under_budget`), whose
  ENERGY half `Σ e_v ≤ E_w` holds in every reachable state (`week_budget_energy_half`).  Finding F6 was
  a reachable violation of the POSITION half `Σ f_v ≤ F_w`.  With the repair
  (`claim_boosted_yields_rewards` runs `update_energy_and_progress` also when no boosted-yields
  factors are configured) the position half is an invariant — proved here for every history of the
  farm model (both kinds):

  * `week_budget_position_half` — every completed week `w`: `farmSupplyForWeek(w) = 0` or the CURRENT
    total farm positions of all users who can still claim `w` sum to at most `farmSupplyForWeek(w)`;
  * `current_week_supply_recorded` — the running week's recorded supply is 0 or the farm-token supply,
    later weeks have nothing recorded;
  * `claimer_position_le_week_supply`, `claimer_energy_le_week_energy` — the two single-user bounds
    `f ≤ F`, `e ≤ E` (what failed in F6 was `f ≤ F`: 1001 against 1);
  * `no_reward_exceeds_week_pool` — hence for every reachable state, every claimable week and every
    user who can still claim it, the reward the code computes for that week is at most the week's
    whole pool `R` (in F6: 1 002 500 against 2 500);
  * `week_budget_at_freeze` — `WeekBudget … paid := 0` holds for every completed week in every
    reachable state (both halves together).

  Round 2 (Lemmas/FarmWeekPaid.lean), under the additional explicit hypothesis `GoodOps ops` (every
  `setBoostedYieldsFactors` of the history installs factors with `cE + cF ≠ 0`):

  * `week_budget_with_payments` — every FROZEN week of the claim window: `remaining + paid = R` and
    `WeekBudget fa R F_w E_w (paid w) (Σ eForP) (Σ fFor)` for the factors in force (which do not change
    while the week is claimable);
  * `claimer_reward_le_remaining` — the operand pair of the checked subtraction: the computed reward of
    every remaining claimer is `≤ remaining(w)`;
  * `weekly_pool_sub_never_underflows` — the boosted claim of any user succeeds as soon as the weekly
    module's global energy update for that user succeeds: nothing inside the reward loop — in particular not
    `remaining_boosted_rewards_to_distribute(week) −= user_reward` — can abort;
  * `exit_succeeds_weekly`, `claim_succeeds_weekly` — `exit_succeeds` / `claim_succeeds` of Props/C05Cover
    with the boosted-claim hypothesis discharged.

  Round 2, liveness (Lemmas/WeeklyLive.lean, FarmWeekLive.lean):

  * `weekly_update_never_fails` — the weekly module's global energy update (`update_user_energy_for_current_week`:
    bucket shift, bucket reallocation, total tokens / energy) cannot abort in a reachable state;
  * `boosted_claim_always_succeeds`, `exit_always_succeeds`, `claim_always_succeeds` — unconditional progress;
  * `no_underflow_full_good_holds` — the full last clause of C05 PROVED under `GoodOps`;
    `no_underflow_full_needs_factor_validation` — and false without it (`cE = cF = 0`, division by zero).

  Hypothesis of the run-level theorems: `users.Nodup` (distinct accounts — `PosInv`).
  Model: Core/Farm.lean.  Lemmas: Lemmas/FarmWeekPos.lean, FarmWeekPaid.lean (+ FarmPos, FarmEnergy, FarmWeekSafe).
-/
import MxModel.Lemmas.FarmWeekPos
import MxModel.Lemmas.FarmEnergy
import MxModel.Lemmas.FarmWeekSafe
import MxModel.Lemmas.FarmWeekPaid
import MxModel.Lemmas.FarmWeekLive
import MxModel.Props.C05Cover

namespace Mx.C05Budget
open Mx.Farm

/-- **the position half of the week budget holds in every reachable farm state.**  For the current
    week `W` and every completed week `w < W`: either no farm supply is recorded for `w` (then nothing
    is paid for it), or the CURRENT total farm positions (`userTotalFarmPosition`) of all users whose
    claim progress can still reach `w` (`fFor`: the total if `progress(v).week ≤ w`, else 0) sum to at
    most `farmSupplyForWeek(w)` — `Σ f_v ≤ F`.  (False before the repair of F6.) -/
theorem week_budget_position_half (kind : Kind) (same : Bool) (dsc pb : Nat) (produce : Bool)
    (users : List Nat) (e0 : Nat) (hnd : users.Nodup) (ops : List Op) :
    let s := run (init kind same dsc pb produce users e0) ops
    ∀ W, s.week = some W → ∀ w, w < W →
      s.b.farmSupplyWeek w = 0 ∨
      (s.w.users.map fun v => fFor s.w.progress s.userTotal v w).sum ≤ s.b.farmSupplyWeek w :=
  fun W hW w hw => (reachable_weekPos kind same dsc pb produce users e0 hnd ops).past W hW w hw

/-- what `fFor` is: the user's current total farm position if its claim progress has not passed the
    week, else nothing -/
theorem fFor_eq (prog : Nat → Option Weekly.ClaimProgress) (tot : Nat → Nat) (v w : Nat) :
    fFor prog tot v w = match prog v with
      | some p => if p.week ≤ w then tot v else 0
      | none => 0 := rfl

/-- the running week: the recorded farm supply is 0 (no supply-changing operation yet) or exactly the
    farm-token supply; no later week has anything recorded; the key list of the weekly module has no
    duplicates (so the sums above count every user once) -/
theorem current_week_supply_recorded (kind : Kind) (same : Bool) (dsc pb : Nat) (produce : Bool)
    (users : List Nat) (e0 : Nat) (hnd : users.Nodup) (ops : List Op) :
    let s := run (init kind same dsc pb produce users e0) ops
    s.w.users.Nodup ∧
    ∀ W, s.week = some W →
      (s.b.farmSupplyWeek W = 0 ∨ s.b.farmSupplyWeek W = s.supply) ∧
      ∀ w, W < w → s.b.farmSupplyWeek w = 0 := by
  intro s
  have h := reachable_weekPos kind same dsc pb produce users e0 hnd ops
  exact ⟨h.nodup, fun W hW => ⟨h.cur W hW, h.fut W hW⟩⟩

/-- a user with a claim-progress entry is in the weekly module's key list (reachable states) -/
theorem progress_mem_users (kind : Kind) (same : Bool) (dsc pb : Nat) (produce : Bool)
    (users : List Nat) (e0 : Nat) (ops : List Op) (v : Nat) :
    let s := run (init kind same dsc pb produce users e0) ops
    s.w.progress v ≠ none → v ∈ s.w.users := by
  intro s hv
  rcases (reachable_winv kind same dsc pb produce users e0 ops).1 with hp | ⟨_, hr⟩
  · exact absurd (hp.noProgress v) hv
  · exact hr.p.mem v hv

/-- **`f ≤ F` for every claimer**: in every reachable state, a user `v` whose claim progress is at a
    week `≤ w` for a completed week `w` with a recorded supply has a current total farm position of at
    most that supply.  (F6: user 1 had 1001 against `farmSupplyForWeek 1 = 1`.) -/
theorem claimer_position_le_week_supply (kind : Kind) (same : Bool) (dsc pb : Nat) (produce : Bool)
    (users : List Nat) (e0 : Nat) (hnd : users.Nodup) (ops : List Op) (v : Nat) (p : Weekly.ClaimProgress) :
    let s := run (init kind same dsc pb produce users e0) ops
    ∀ W w, s.week = some W → w < W → s.w.progress v = some p → p.week ≤ w →
      s.b.farmSupplyWeek w ≠ 0 → s.userTotal v ≤ s.b.farmSupplyWeek w := by
  intro s W w hW hw hp hpw hF
  have hmem : v ∈ s.w.users :=
    progress_mem_users kind same dsc pb produce users e0 ops v (by rw [hp]; exact fun e => by cases e)
  rcases week_budget_position_half kind same dsc pb produce users e0 hnd ops W hW w hw with h0 | hle
  · exact absurd h0 hF
  · refine Nat.le_trans ?_ hle
    have := Weekly.le_usum (f := fun x => fFor s.w.progress s.userTotal x w) hmem
    have e : fFor s.w.progress s.userTotal v w = s.userTotal v := by
      rw [fFor_eq, hp]; simp only [hpw, if_true]
    rw [e] at this
    exact this

/-- **`e ≤ E` for every claimer** (from the energy half): the energy a user claims week `w` with — its
    recorded energy decayed to `w` — is at most `totalEnergyForWeek(w)` when that is non-zero -/
theorem claimer_energy_le_week_energy (kind : Kind) (same : Bool) (dsc pb : Nat) (produce : Bool)
    (users : List Nat) (e0 : Nat) (ops : List Op) (v w : Nat) :
    let s := run (init kind same dsc pb produce users e0) ops
    s.w.progress v ≠ none → s.w.totalEnergy w ≠ 0 →
      Weekly.eForP s.w.progress v w ≤ s.w.totalEnergy w := by
  intro s hv hE
  have hmem : v ∈ s.w.users := progress_mem_users kind same dsc pb produce users e0 ops v hv
  rcases (reachable_winv kind same dsc pb produce users e0 ops).2 w with h0 | hle
  · exact absurd h0 hE
  · exact Nat.le_trans (Weekly.le_usum (f := fun x => Weekly.eForP s.w.progress x w) hmem) hle

/-- **no computed weekly reward exceeds the week's whole pool.**  In every reachable state of the
    repaired farm, for every completed week `w` with recorded supply `F_w ≠ 0` and total energy
    `E_w ≠ 0`, every user `v` who can still claim `w` (progress at a week `≤ w`), any factors `fa`
    (`cE + cF ≠ 0`) and any frozen pool `R`: the amount `get_user_rewards_for_week` computes for `v` —
    with `v`'s CURRENT total farm position and its energy decayed to `w` — is at most `R`.
    This is exactly what finding F6 violated (1 002 500 computed against a pool of 2 500); it makes the
    FIRST payment out of a freshly frozen week (`remaining = R`) safe. -/
theorem no_reward_exceeds_week_pool (kind : Kind) (same : Bool) (dsc pb : Nat) (produce : Bool)
    (users : List Nat) (e0 : Nat) (hnd : users.Nodup) (ops : List Op) (v : Nat)
    (p : Weekly.ClaimProgress) (fa : Factors) (R : Nat) :
    let s := run (init kind same dsc pb produce users e0) ops
    ∀ W w, s.week = some W → w < W → s.w.progress v = some p → p.week ≤ w →
      s.b.farmSupplyWeek w ≠ 0 → s.w.totalEnergy w ≠ 0 → fa.cE + fa.cF ≠ 0 →
      boostedAmount fa R (s.userTotal v) (s.b.farmSupplyWeek w)
        (Weekly.eForP s.w.progress v w) (s.w.totalEnergy w) ≤ R := by
  intro s W w hW hw hp hpw hF hE hc
  exact boostedAmount_le fa R _ _ _ _ hc
    (claimer_position_le_week_supply kind same dsc pb produce users e0 hnd ops v p W w hW hw hp hpw hF)
    (claimer_energy_le_week_energy kind same dsc pb produce users e0 ops v w
      (by rw [hp]; exact fun e => by cases e) hE)

/-- **the week budget at freeze time holds in every reachable state**: for every completed week `w`
    with recorded supply and total energy, any factors and any pool `R`, `WeekBudget` with nothing paid
    yet holds for the sums over ALL users that can still claim `w` (energy half + position half). -/
theorem week_budget_at_freeze (kind : Kind) (same : Bool) (dsc pb : Nat) (produce : Bool)
    (users : List Nat) (e0 : Nat) (hnd : users.Nodup) (ops : List Op) (fa : Factors) (R : Nat) :
    let s := run (init kind same dsc pb produce users e0) ops
    ∀ W w, s.week = some W → w < W → s.b.farmSupplyWeek w ≠ 0 → s.w.totalEnergy w ≠ 0 →
      WeekBudget fa R (s.b.farmSupplyWeek w) (s.w.totalEnergy w) 0
        ((s.w.users.map fun u => Weekly.eForP s.w.progress u w).sum)
        ((s.w.users.map fun v => fFor s.w.progress s.userTotal v w).sum) := by
  intro s W w hW hw hF hE
  apply WeekBudget.init
  · rcases (reachable_winv kind same dsc pb produce users e0 ops).2 w with h0 | hle
    · exact absurd h0 hE
    · exact hle
  · rcases week_budget_position_half kind same dsc pb produce users e0 hnd ops W hW w hw with h0 | hle
    · exact absurd h0 hF
    · exact hle

/-- non-vacuity, on the history of finding F6 (ops 1–10, `C05Cover.cxOps`): week 1 is completed
    (current week 2), its recorded supply is 1, user 1's total position is 1001 — and user 1 is NOT
    among the claimers of week 1 any more (progress at week 2), so the sum of the claimers' positions
    is 0 ≤ 1.  With the pre-repair progress (week 1) the sum would be 1001 > 1. -/
example :
    let s := run (init .mint false 1000000000000 1000 true [1, 2] 0)
      [.setPct OWNER 2500, .setEnergy 1 1000000 0 1000, .enter 1 none 1 [], .advance 10 6,
       .claim 1 none [(1, 1)], .advance 10 7, .enter 2 none 1000 [], .transfer 2 1 3 1000,
       .claim 1 none [(3, 1000)], .setFactors OWNER ⟨10, 3, 2, 1, 1⟩]
    s.week = some 2 ∧ s.b.farmSupplyWeek 1 = 1 ∧ s.userTotal 1 = 1001 ∧ s.w.users = [1] ∧
    (s.w.users.map fun v => fFor s.w.progress s.userTotal v 1).sum = 0 ∧
    s.b.farmSupplyWeek 2 = s.supply := by
  decide

/-- non-vacuity with a non-trivial sum: corpus history f1 in week 2 — user 1 (position 100000000,
    progress still at week 1) is a claimer of week 1, whose recorded supply is 100000000 -/
example :
    let s := run (init .mint false 1000000000000 1000 true [1, 2] 0)
      [.setFactors OWNER ⟨10, 3, 2, 1, 1⟩, .setPct OWNER 2500, .setEnergy 1 1000000 0 1000,
       .enter 1 none 100000000 [], .advance 10 6, .claim 1 none [(1, 100000000)], .advance 20 7]
    s.week = some 2 ∧ s.b.farmSupplyWeek 1 = 100000000 ∧
    (s.w.users.map fun v => fFor s.w.progress s.userTotal v 1).sum = 100000000 := by
  decide

/-! ### the budget WITH payments, and: the weekly pool subtraction never underflows

  Additional hypothesis of this section, explicit and satisfiable: `GoodOps ops` — every
  `setBoostedYieldsFactors` of the history installs factors with `cE + cF ≠ 0`
  (`user_rewards_energy_const + user_rewards_farm_const`, the divisor of the reward formula; the real
  endpoint does not validate it, and with `cE + cF = 0` `get_user_rewards_for_week` divides by zero).
  The model's `init` has no factors; the hypothesis is about the op list only. -/

/-- **frozen-pool accounting and the week budget with payments, in every reachable state.**  For the
    current week `W` and every week `w` of the claim window (`W − 4 ≤ w < W`) that is frozen with pool
    `R` (`totalRewardsForWeek(w) = [(REW, R)]`):
    `remaining(w) + paid(w) = R`, and — when the week is live (`E_w ≠ 0`, `F_w ≠ 0`) — for the factors
    `fa` in force for `w`: `WeekBudget fa R F_w E_w (paid w) (Σ eForP) (Σ fFor)`: what was paid plus the
    un-floored shares of everybody who can still claim `w` fits into `R`. -/
theorem week_budget_with_payments (kind : Kind) (same : Bool) (dsc pb : Nat) (produce : Bool)
    (users : List Nat) (e0 : Nat) (hnd : users.Nodup) (ops : List Op) (hg : GoodOps ops) :
    let s := run (init kind same dsc pb produce users e0) ops
    ∀ W w R, s.week = some W → W ≤ w + 4 → w < W → s.w.totalRewards w = [(REW, R)] →
      s.b.remaining w + s.b.paidW w = R ∧
      (s.w.totalEnergy w ≠ 0 → s.b.farmSupplyWeek w ≠ 0 → ∀ fa, facAt s.b.cfg w = some fa →
        WeekBudget fa R (s.b.farmSupplyWeek w) (s.w.totalEnergy w) (s.b.paidW w)
          ((s.w.users.map fun u => Weekly.eForP s.w.progress u w).sum)
          ((s.w.users.map fun v => fFor s.w.progress s.userTotal v w).sum)) := by
  intro s W w R hW hw1 hw2 hT
  have hP := reachable_paidInv kind same dsc pb produce users e0 hnd ops hg W hW
  refine ⟨hP.rel.frozen w R hw1 hT, fun hE hF fa hfa => ?_⟩
  have := hP.rel.budget w hw1 hw2 hE hF fa hfa
  have hT' : (pmv s).TR w = [(REW, R)] := hT
  rw [hT', rOf_single] at this
  exact this

/-- **the reward of every claimer fits into what the week's pool still holds**: in every reachable
    state, for every frozen live week `w` of the window, every user `v` of the weekly module's key list
    and the factors in force: `boostedAmount fa R (f_v) F_w (e_v) E_w ≤ remaining(w)` — `f_v`, `e_v` the
    position / energy `v` can still claim `w` with (0 once `v`'s progress has passed `w`).  This is the
    operand pair of the checked subtraction `remaining_boosted_rewards_to_distribute(w) −= user_reward`. -/
theorem claimer_reward_le_remaining (kind : Kind) (same : Bool) (dsc pb : Nat) (produce : Bool)
    (users : List Nat) (e0 : Nat) (hnd : users.Nodup) (ops : List Op) (hg : GoodOps ops) (v : Nat) :
    let s := run (init kind same dsc pb produce users e0) ops
    ∀ W w R fa, s.week = some W → W ≤ w + 4 → w < W → s.w.totalRewards w = [(REW, R)] →
      v ∈ s.w.users → facAt s.b.cfg w = some fa → s.w.totalEnergy w ≠ 0 → s.b.farmSupplyWeek w ≠ 0 →
      boostedAmount fa R (fFor s.w.progress s.userTotal v w) (s.b.farmSupplyWeek w)
        (Weekly.eForP s.w.progress v w) (s.w.totalEnergy w) ≤ s.b.remaining w := by
  intro s W w R fa hW hw1 hw2 hT hv hfa hE hF
  have hP := reachable_paidInv kind same dsc pb produce users e0 hnd ops hg W hW
  have hc : fa.cE + fa.cF ≠ 0 := by
    cases hcfg : s.b.cfg with
    | none => rw [hcfg] at hfa; cases hfa
    | some cfg =>
      rw [hcfg] at hfa
      obtain ⟨hWF, _, hgood⟩ := hP.wf cfg hcfg
      exact hgood fa (facFor_mem hWF hfa)
  exact hP.rel.sub_ok hv hw1 hw2 hT hfa hc hE hF

/-- **weekly_pool_sub_never_underflows.**  In every reachable state of the (repaired) farm, for every
    user `u`: the boosted claim `claim_boosted_yields_rewards(u)` — `claim_multi` over
    `get_user_rewards_for_week` for up to four weeks — SUCCEEDS as soon as the weekly-rewards module's
    own global energy update for `u` (`update_user_energy_for_current_week`, the first statement of
    `claim_multi`) succeeds.  So nothing inside the reward loop can abort the transaction: not the
    factors lookup, not the frozen list, not the division by `cE + cF`, and in particular NOT the checked
    subtraction `remaining_boosted_rewards_to_distribute(week) −= user_reward` (the failure of F6). -/
theorem weekly_pool_sub_never_underflows (kind : Kind) (same : Bool) (dsc pb : Nat) (produce : Bool)
    (users : List Nat) (e0 : Nat) (hnd : users.Nodup) (ops : List Op) (hg : GoodOps ops) (u : Nat) :
    let s := run (init kind same dsc pb produce users e0) ops
    ∀ W, s.week = some W →
      (Weekly.updateUserEnergyForCurrentWeek s.w W (Weekly.Energy.queried (s.energy u) s.epoch)
        (s.w.progress u)).isSome = true →
      (claimBoostedYields s u).isSome = true := by
  intro s W hW h1
  exact claimBoostedYields_total (reachable_paidInv kind same dsc pb produce users e0 hnd ops hg W hW)
    (reachable_winv kind same dsc pb produce users e0 ops)
    (reachable_weekPos kind same dsc pb produce users e0 hnd ops) h1

/-- the same on the settled state an endpoint claims from (`generate` first, as claim / exit /
    claimBoostedRewards do): the boosted claim of the endpoint succeeds under the same condition -/
theorem endpoint_boosted_claim_succeeds (kind : Kind) (same : Bool) (dsc pb : Nat) (produce : Bool)
    (users : List Nat) (e0 : Nat) (hnd : users.Nodup) (ops : List Op) (hg : GoodOps ops) (u : Nat)
    {s1 : St} {c1 : Cache} :
    let s := run (init kind same dsc pb produce users e0) ops
    generate s (Cache.read s) = some (s1, c1) →
    ∀ W, s.week = some W →
      (Weekly.updateUserEnergyForCurrentWeek s.w W (Weekly.Energy.queried (s.energy u) s.epoch)
        (s.w.progress u)).isSome = true →
      (claimBoostedYields s1 u).isSome = true := by
  intro s hgen W hW h1
  have hP := (reachable_paidInv kind same dsc pb produce users e0 hnd ops hg W hW).of_view (generate_pmv hgen)
  have hWI := (reachable_winv kind same dsc pb produce users e0 ops).of_w (generate_w hgen)
  have hWP := (reachable_weekPos kind same dsc pb produce users e0 hnd ops).of_wv (generate_wv hgen).1
  have hw : s1.w = s.w := generate_w hgen
  obtain ⟨b', rfl, _⟩ := generate_spec hgen
  exact claimBoostedYields_total hP hWI hWP h1

/-- **principal withdrawable unless the weekly module's own energy bookkeeping aborts.**  `exit_succeeds`
    (Props/C05Cover.lean) with its first hypothesis discharged: in every reachable state of an active farm,
    a holder's `exitFarm` succeeds as soon as the weekly module's global energy update for the caller
    succeeds (then the boosted claim does, by the theorem above) and `clear_user_energy_if_needed` does. -/
theorem exit_succeeds_weekly (kind : Kind) (same : Bool) (dsc pb : Nat) (produce : Bool)
    (users : List Nat) (e0 : Nat) (hnd : users.Nodup) (hd : dsc ≠ 0) (ops : List Op) (hg : GoodOps ops)
    (u n a : Nat) :
    let s := run (init kind same dsc pb produce users e0) ops
    s.active = true → a ≠ 0 → a ≤ s.hold u n →
    ∀ W, s.week = some W →
      (Weekly.updateUserEnergyForCurrentWeek s.w W (Weekly.Energy.queried (s.energy u) s.epoch)
        (s.w.progress u)).isSome = true →
      ∃ att s1 c1 s2 boosted, s.attrs n = some att ∧ generate s (Cache.read s) = some (s1, c1) ∧
        claimBoostedYields s1 u = some (s2, boosted) ∧
        ((clearUserEnergyIfNeeded (decreaseOwner s2 att.owner a) u).isSome = true →
          (step s (.exit u none n a)).isSome = true) := by
  intro s hact ha hle W hW h1
  obtain ⟨att, s1, c1, hat, hgen, hex⟩ :=
    Mx.C05Cover.exit_succeeds kind same dsc pb produce users e0 hnd hd ops u n a hact ha hle
  have hb := endpoint_boosted_claim_succeeds kind same dsc pb produce users e0 hnd ops hg u hgen W hW h1
  obtain ⟨⟨s2, boosted⟩, hcl⟩ := Option.isSome_iff_exists.mp hb
  exact ⟨att, s1, c1, s2, boosted, hat, hgen, hcl, hex s2 boosted hcl⟩

/-- the same for `claimRewards` of one payment by its holder: it succeeds as soon as the weekly module's
    global energy update for the caller does -/
theorem claim_succeeds_weekly (kind : Kind) (same : Bool) (dsc pb : Nat) (produce : Bool)
    (users : List Nat) (e0 : Nat) (hnd : users.Nodup) (hd : dsc ≠ 0) (ops : List Op) (hg : GoodOps ops)
    (u n a : Nat) :
    let s := run (init kind same dsc pb produce users e0) ops
    s.active = true → a ≠ 0 → a ≤ s.hold u n →
    ∀ W, s.week = some W →
      (Weekly.updateUserEnergyForCurrentWeek s.w W (Weekly.Energy.queried (s.energy u) s.epoch)
        (s.w.progress u)).isSome = true →
      (step s (.claim u none [(n, a)])).isSome = true := by
  intro s hact ha hle W hW h1
  obtain ⟨s1, c1, hgen, hex⟩ :=
    Mx.C05Cover.claim_succeeds kind same dsc pb produce users e0 hnd hd ops u n a hact ha hle
  have hb := endpoint_boosted_claim_succeeds kind same dsc pb produce users e0 hnd ops hg u hgen W hW h1
  obtain ⟨⟨s2, boosted⟩, hcl⟩ := Option.isSome_iff_exists.mp hb
  exact hex s2 boosted hcl

/-- the history of the non-vacuity example: two users with energy (1 : 3) and positions (1000 : 3000)
    farm through week 1 (pool of week 1: 2500); in week 2 user 1 claims, which FREEZES week 1 and pays
    user 1's share 623 -/
def twoClaimers : List Op :=
  [.setFactors OWNER ⟨10, 3, 2, 1, 1⟩, .setPct OWNER 2500, .setEnergy 1 1000000 0 1000,
   .setEnergy 2 3000000 0 1000, .enter 1 none 1000 [], .enter 2 none 3000 [], .advance 10 6,
   .claim 1 none [(1, 1000)], .advance 20 7, .claim 1 none [(3, 1000)]]

/-- non-vacuity (closed, by `decide`): `GoodOps` holds for the history; in the reached state week 1 is
    frozen with `R = 2500`, `remaining + paid = 1877 + 623 = R`, user 2 is the only claimer left, the
    weekly module's update for user 2 succeeds, so (by `weekly_pool_sub_never_underflows`) user 2's claim
    succeeds — it pays 1876 ≤ 1877 and leaves 1 in the pool: `remaining + paid = 1 + 2499 = R` again. -/
example :
    let s := run (init .mint false 1000000000000 1000 true [1, 2] 0) twoClaimers
    twoClaimers.all goodOp = true ∧
    s.week = some 2 ∧ s.w.totalRewards 1 = [(REW, 2500)] ∧ s.b.remaining 1 = 1877 ∧ s.b.paidW 1 = 623 ∧
    s.b.farmSupplyWeek 1 = 4000 ∧ s.w.totalEnergy 1 = 3994000 ∧ s.w.users = [1, 2] ∧
    (s.w.users.map fun v => fFor s.w.progress s.userTotal v 1).sum = 3000 ∧
    (Weekly.updateUserEnergyForCurrentWeek s.w 2 (Weekly.Energy.queried (s.energy 2) s.epoch)
      (s.w.progress 2)).isSome = true ∧
    (claimBoostedYields s 2).map (·.2) = some 1876 ∧
    (step s (.claim 2 none [(2, 3000)])).map (fun r => (r.1.b.remaining 1, r.1.b.paidW 1)) =
      some (1, 2499) := by
  decide

/-! ### the weekly module's own bookkeeping cannot abort: `no_underflow_full` under factor validation -/

/-- **the weekly module's global energy update never fails** in a reachable farm state, for any user and
    any current energy: the checked subtractions of `shift_buckets_and_update_tokens_energy`,
    `reallocate_bucket_after_energy_update`, `update_…_total_tokens_…`, `update_…_total_energy_…` and the
    two week-order `require!`s are discharged from the lot invariant `GInv` and
    `lastGlobalUpdateWeek ≤ current week` (Lemmas/WeeklyLive.lean).  (`GoodOps` is only carried because
    the latter is a clause of the same state invariant `PaidInv`; the factors play no role here.) -/
theorem weekly_update_never_fails (kind : Kind) (same : Bool) (dsc pb : Nat) (produce : Bool)
    (users : List Nat) (e0 : Nat) (hnd : users.Nodup) (ops : List Op) (hg : GoodOps ops) (u : Nat)
    (cur : Weekly.Energy) :
    let s := run (init kind same dsc pb produce users e0) ops
    ∀ W, s.week = some W →
      (Weekly.updateUserEnergyForCurrentWeek s.w W cur (s.w.progress u)).isSome = true := by
  intro s W hW
  exact weekly_update_ok (reachable_paidInv kind same dsc pb produce users e0 hnd ops hg W hW)
    (reachable_winv kind same dsc pb produce users e0 ops) u cur

/-- **the boosted claim of any user succeeds in every reachable state** (`weekly_pool_sub_never_underflows`
    with its hypothesis discharged) -/
theorem boosted_claim_always_succeeds (kind : Kind) (same : Bool) (dsc pb : Nat) (produce : Bool)
    (users : List Nat) (e0 : Nat) (hnd : users.Nodup) (ops : List Op) (hg : GoodOps ops) (u : Nat) :
    let s := run (init kind same dsc pb produce users e0) ops
    (claimBoostedYields s u).isSome = true := by
  intro s
  obtain ⟨W, hW⟩ := (reachable_weekPos kind same dsc pb produce users e0 hnd ops).week
  exact claimBoostedYields_ok (reachable_paidInv kind same dsc pb produce users e0 hnd ops hg W hW)
    (reachable_winv kind same dsc pb produce users e0 ops)
    (reachable_weekPos kind same dsc pb produce users e0 hnd ops) u

/-- **every position's principal is withdrawable**: in every reachable state of an active farm (both
    kinds), whoever holds `a > 0` of position `n` can exit with it — NO internal counter, guard or checked
    subtraction of `exitFarm` (farm, boosted-yields and weekly-rewards modules included) can fail.
    Hypotheses: distinct accounts, `dsc ≠ 0`, and `GoodOps` (every installed factor set has
    `cE + cF ≠ 0`). -/
theorem exit_always_succeeds (kind : Kind) (same : Bool) (dsc pb : Nat) (produce : Bool)
    (users : List Nat) (e0 : Nat) (hnd : users.Nodup) (hd : dsc ≠ 0) (ops : List Op) (hg : GoodOps ops)
    (u n a : Nat) :
    let s := run (init kind same dsc pb produce users e0) ops
    s.active = true → a ≠ 0 → a ≤ s.hold u n → (exitFarm s u none n a).isSome = true := by
  intro s hact ha hle
  obtain ⟨hA, hP, hK, hI, hdsc⟩ := reachable_invs kind same dsc pb produce users e0 hnd ops
  obtain ⟨W, hW⟩ := (reachable_weekPos kind same dsc pb produce users e0 hnd ops).week
  exact exitFarm_always hA hP hK hI (reachable_xinv kind same dsc pb produce users e0 ops)
    (by rw [hdsc]; exact hd) (reachable_paidInv kind same dsc pb produce users e0 hnd ops hg W hW)
    (reachable_winv kind same dsc pb produce users e0 ops)
    (reachable_weekPos kind same dsc pb produce users e0 hnd ops) hact ha hle

/-- the same for `claimRewards` of one payment by its holder -/
theorem claim_always_succeeds (kind : Kind) (same : Bool) (dsc pb : Nat) (produce : Bool)
    (users : List Nat) (e0 : Nat) (hnd : users.Nodup) (hd : dsc ≠ 0) (ops : List Op) (hg : GoodOps ops)
    (u n a : Nat) :
    let s := run (init kind same dsc pb produce users e0) ops
    s.active = true → a ≠ 0 → a ≤ s.hold u n → (claimRewards s u none [(n, a)]).isSome = true := by
  intro s hact ha hle
  obtain ⟨hA, hP, hK, hI, hdsc⟩ := reachable_invs kind same dsc pb produce users e0 hnd ops
  obtain ⟨W, hW⟩ := (reachable_weekPos kind same dsc pb produce users e0 hnd ops).week
  exact claimRewards_always hA hP hK hI (reachable_xinv kind same dsc pb produce users e0 ops)
    (by rw [hdsc]; exact hd) (reachable_paidInv kind same dsc pb produce users e0 hnd ops hg W hW)
    (reachable_winv kind same dsc pb produce users e0 ops)
    (reachable_weekPos kind same dsc pb produce users e0 hnd ops) hact ha hle

/-- the full clause of C05 ("every position's principal is withdrawable and no legitimate … exit fails
    because an internal counter would go negative") under factor validation: `C05Cover.no_underflow_full`
    with the additional hypothesis `GoodOps ops` -/
def no_underflow_full_good : Prop :=
  ∀ (kind : Kind) (same : Bool) (dsc pb : Nat) (produce : Bool) (users : List Nat) (e0 : Nat)
    (ops : List Op), users.Nodup → dsc ≠ 0 → GoodOps ops →
    let s := run (init kind same dsc pb produce users e0) ops
    ∀ u n a, u ∈ s.users → s.active = true → a ≠ 0 → a ≤ s.hold u n → (exitFarm s u none n a).isSome

/-- **no_underflow_full, PROVED under factor validation** -/
theorem no_underflow_full_good_holds : no_underflow_full_good := by
  intro kind same dsc pb produce users e0 ops hnd hd hg s u n a _ hact ha hle
  exact exit_always_succeeds kind same dsc pb produce users e0 hnd hd ops hg u n a hact ha hle

/-- Finding F7 and its repair.  Before the repair `setBoostedYieldsFactors` accepted
    `user_rewards_energy_const = user_rewards_farm_const = 0` (it only checked the two minima);
    `get_user_rewards_for_week` then divides by `cE + cF = 0` and every claim / exit of a user who passes the
    minima against a non-empty pool aborted — `¬ no_underflow_full` was a theorem here, by `decide` on the
    history below.  /repo e29f08e makes the endpoint reject such factors; the model follows
    (`Farm.setFactors`: `req (0 < f.cE ∨ 0 < f.cF)`), so a `setFactors` that violates `GoodOps` is a failed
    transaction: -/
theorem setFactors_bad_fails (s : St) (c : Nat) (f : Factors) (h : f.cE + f.cF = 0) :
    step s (.setFactors c f) = none := by
  have h1 : f.cE = 0 := by omega
  have h2 : f.cF = 0 := by omega
  simp only [step, noOut, setFactors, req, h1, h2, Nat.lt_irrefl, or_self, if_false,
    Option.bind_eq_bind, Option.map_eq_none_iff]
  split <;> try rfl
  split <;> rfl

/-- failed transactions leave no trace, so every history is equivalent to its `GoodOps` part -/
theorem run_filter_good (ops : List Op) (s : St) : run s ops = run s (ops.filter goodOp) := by
  induction ops generalizing s with
  | nil => rfl
  | cons op rest ih =>
    cases hg : goodOp op with
    | true =>
      simp only [List.filter_cons, hg, if_true]
      simp only [run, List.foldl_cons]
      exact ih _
    | false =>
      simp only [List.filter_cons, hg]
      cases op with
      | setFactors c f =>
        have hz : f.cE + f.cF = 0 := by
          simp only [goodOp, decide_eq_false_iff_not, Decidable.not_not] at hg
          exact hg
        have : run s (Op.setFactors c f :: rest) = run s rest := by
          simp only [run, List.foldl_cons, setFactors_bad_fails s c f hz]
        rw [this]
        exact ih s
      | _ => simp [goodOp] at hg

/-- **no_underflow_full, PROVED for ALL histories** (the clause of C05 as literally stated in
    `C05Cover.no_underflow_full`): in every reachable state of an active farm, whoever holds (part of) a
    position can exit with it. -/
theorem no_underflow_full_holds : Mx.C05Cover.no_underflow_full := by
  intro kind same dsc pb produce users e0 ops hnd hd
  have hg : GoodOps (ops.filter goodOp) :=
    goodOps_of_all (List.all_eq_true.mpr fun x hx => (List.mem_filter.mp hx).2)
  have := no_underflow_full_good_holds kind same dsc pb produce users e0 (ops.filter goodOp) hnd hd hg
  simp only [← run_filter_good] at this
  exact this

/-- the F7 history (corpus/farm/f7_zero_reward_constants.ops): the zero-constant configuration is rejected,
    the farm stays without boosted factors and user 1 exits in week 2 with everything -/
theorem f7_history_repaired :
    let ops := [Op.setFactors OWNER ⟨10, 0, 0, 1, 1⟩, .setPct OWNER 2500, .setEnergy 1 1000000 0 1000,
      .enter 1 none 100000000 [], .advance 10 6, .claim 1 none [(1, 100000000)], .advance 20 7]
    let s := run (init .mint false 1000000000000 1000 true [1, 2] 0) ops
    step (init .mint false 1000000000000 1000 true [1, 2] 0) (.setFactors OWNER ⟨10, 0, 0, 1, 1⟩) = none ∧
    (exitFarm s 1 none 2 100000000).isSome = true := by
  decide

/-- non-vacuity of `exit_always_succeeds` (closed): the two-claimers history satisfies `GoodOps`; user 2
    holds position 2 (3000) in an active farm and exits with all of it, being paid the boosted share 1876
    of week 1 on the way -/
example :
    let s := run (init .mint false 1000000000000 1000 true [1, 2] 0) twoClaimers
    twoClaimers.all goodOp = true ∧ s.active = true ∧ s.hold 2 2 = 3000 ∧
    (exitFarm s 2 none 2 3000).map (fun r => (r.2.farming, r.2.boosted)) = some (3000, 1876) := by
  decide

end Mx.C05Budget
