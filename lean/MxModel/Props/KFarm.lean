/-
  KFarm — the farm model (`Core/Farm.lean`) computes what the SOURCE of the default farm wrapper
  (`common/modules/farm/farm_base_impl/src/base_traits_impl.rs`) computes.

  `Gen/KFarm.lean` is regenerated on every run by `bin/gen-kernels`:
    * `calculate_per_block_rewards`  — the emission of a settlement     (model: `Farm.minted`)
    * `calculate_rewards`            — the base reward of a position    (model: `Farm.baseReward`)
    * `generate_aggregated_rewards`  — reserve / index update of the DEFAULT wrapper (no boosted
      cut), with the emission as an input (model: `Farm.generate` when the boosted cut is 0).
  The wrappers the two farm contracts really run (`dex/farm` `Wrapper`, `take_reward_slice`, exit
  penalty, position attributes) are in `Props/KFarmDex.lean`.
-/
import MxModel.Gen.KFarm
import MxModel.Lemmas.FarmSpec
import MxModel.Lemmas.KTactic

namespace Mx.KFarm
open Mx Mx.Gen Mx.Farm

/-- source `calculate_per_block_rewards`: nothing when the block did not advance or production is
    off, otherwise `per_block · Δblocks`; never aborts -/
theorem calculate_per_block_rewards_eq (cur last perBlock : Nat) (produce : Bool) :
    KFarm.calculate_per_block_rewards cur last perBlock produce =
      some (if cur ≤ last ∨ produce = false then 0 else perBlock * (cur - last)) := by
  k_defs [KFarm.calculate_per_block_rewards]
  cases produce <;> k_solve

/-- on a model state the source's emission is the model's `minted` (the amount `generate` adds to
    the reserve and to the `generated` counter) -/
theorem calculate_per_block_rewards_minted (s : St) :
    KFarm.calculate_per_block_rewards s.block s.lastBlock s.perBlock s.produce = some (minted s) := by
  rw [calculate_per_block_rewards_eq]
  simp only [minted]
  by_cases hb : s.lastBlock < s.block
  · have h1 : ¬ s.block ≤ s.lastBlock := by omega
    cases hp : s.produce <;> simp [hb, h1]
  · have h1 : s.block ≤ s.lastBlock := by omega
    simp [hb, h1]

/-- source `calculate_rewards` = model `baseReward`; the source aborts exactly when the index moved
    and the division safety constant is 0 (division by zero) -/
theorem calculate_rewards_eq (amount rpsTok dsc rpsNow : Nat) :
    KFarm.calculate_rewards amount rpsTok dsc rpsNow =
      if rpsTok < rpsNow ∧ dsc = 0 then none else some (baseReward dsc rpsNow amount rpsTok) := by
  k_defs [KFarm.calculate_rewards, baseReward]
  k_solve

/-- with a non-zero division safety constant the source always returns the model's base reward -/
theorem calculate_rewards_some (amount rpsTok dsc rpsNow : Nat) (hd : dsc ≠ 0) :
    KFarm.calculate_rewards amount rpsTok dsc rpsNow = some (baseReward dsc rpsNow amount rpsTok) := by
  rw [calculate_rewards_eq, if_neg (fun c => hd c.2)]

/-- source `generate_aggregated_rewards` of the default wrapper, in closed form: the whole emission
    goes to the reserve, and — when there is supply — `⌊emission · dsc / supply⌋` to the index;
    never aborts.  Result order: (reward_per_share, reward_reserve) -/
theorem generate_aggregated_rewards_eq (dsc supply rps reserve emitted : Nat) :
    KFarm.generate_aggregated_rewards dsc supply rps reserve emitted =
      some (rps + (if supply = 0 then 0 else emitted * dsc / supply), reserve + emitted) := by
  k_defs [KFarm.generate_aggregated_rewards]
  k_solve

/-- a successful model `generate` whose boosted cut is 0 (percentage 0, or a cut that rounds to 0)
    is a run of the default wrapper's `generate_aggregated_rewards` fed with the source's own
    `calculate_per_block_rewards`: same new index, same new reserve -/
theorem generate_runs_source {s s' : St} {c c' : Cache} (h : generate s c = some (s', c'))
    (hcut : cutOf s = 0) :
    ∃ emitted, KFarm.calculate_per_block_rewards s.block s.lastBlock s.perBlock s.produce = some emitted ∧
      KFarm.generate_aggregated_rewards s.dsc c.supply c.rps c.reserve emitted =
        some (c'.rps, c'.reserve) ∧ c'.supply = c.supply := by
  obtain ⟨_, _, _, hc, _⟩ := generate_spec h
  refine ⟨minted s, calculate_per_block_rewards_minted s, ?_, by rw [hc]⟩
  rw [generate_aggregated_rewards_eq, hc, hcut, Nat.sub_zero]

example : KFarm.calculate_per_block_rewards 10 4 5 true = some 30 := by decide
example : KFarm.calculate_per_block_rewards 10 4 5 false = some 0 := by decide
example : KFarm.calculate_rewards 100 3 10 8 = some 50 := by decide
example : KFarm.calculate_rewards 100 3 0 8 = none := by decide
example : KFarm.generate_aggregated_rewards 1000 50 7 20 30 = some (607, 50) := by decide

end Mx.KFarm
