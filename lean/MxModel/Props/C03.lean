/-
  C03 — Swaps follow the documented formula, honour slippage bounds, conserve tokens.
  `Out` of `swapIn` = (out, 0, 0); of `swapOut` = (out delivered, charged, refund); `Out.locked`
  says whether the `out` units reached the caller as LOCKED tokens minted by simple-lock
  (`lockedAmt = out, plainAmt = 0`) or as the plain token (`plainAmt = out, lockedAmt = 0`).
  `balIn/balOut d` are the pair's REAL balances of the input / output token of direction `d`,
  `slkIn/slkOut d` those of the simple-lock contract.
-/
import MxModel.Lemmas.PairLock

namespace Mx.C03
open Mx.Pair

/-- fixed input: pays exactly `⌊a(M−f)rOut / (rIn·M + a(M−f))⌋`, never less than the caller's
    minimum, never zero and never the whole reserve -/
theorem swapIn_out_eq {s s' : St} {d : Dir} {a minOut : Nat} {o : Out}
    (h : swapIn s d a minOut = some (s', o)) :
    o.v1 = (a * (M - s.total)) * s.rout d / (s.rin d * M + a * (M - s.total)) ∧
    minOut ≤ o.v1 ∧ 0 < o.v1 ∧ o.v1 < s.rout d := by
  obtain ⟨_, _, _, _, _, _, rfl, h6, h7, h8, _⟩ := swapIn_spec h
  exact ⟨rfl, h6, Nat.pos_of_ne_zero h8, h7⟩

/-- …and fails rather than pay less than the caller's minimum -/
theorem swapIn_rejects_below_min (s : St) (d : Dir) (a minOut : Nat)
    (hlt : amountOut s.total a (s.rin d) (s.rout d) < minOut) : swapIn s d a minOut = none := by
  cases h : swapIn s d a minOut with
  | none => rfl
  | some r =>
    obtain ⟨s', o⟩ := r
    obtain ⟨_, _, _, _, _, _, rfl, h6, _⟩ := swapIn_spec h
    simp only at h6
    omega

/-- fixed output: delivers exactly the requested amount, charges
    `⌊rIn·out·M / ((rOut−out)(M−f))⌋ + 1`, never more than the caller's maximum, refunds the rest -/
theorem swapOut_exact {s s' : St} {d : Dir} {maxIn out : Nat} {o : Out}
    (h : swapOut s d maxIn out = some (s', o)) :
    o.v1 = out ∧
    o.v2 = s.rin d * out * M / ((s.rout d - out) * (M - s.total)) + 1 ∧
    o.v2 ≤ maxIn ∧ o.v3 = maxIn - o.v2 ∧ out < s.rout d := by
  obtain ⟨_, _, _, _, _, h4, _, rfl, h6, _⟩ := swapOut_spec h
  exact ⟨rfl, rfl, h6, rfl, h4⟩

/-- …and fails rather than charge more than the caller's maximum -/
theorem swapOut_rejects_above_max (s : St) (d : Dir) (maxIn out : Nat)
    (hlt : maxIn < amountIn s.total out (s.rin d) (s.rout d)) : swapOut s d maxIn out = none := by
  cases h : swapOut s d maxIn out with
  | none => rfl
  | some r =>
    obtain ⟨s', o⟩ := r
    obtain ⟨_, _, _, _, _, _, _, rfl, h6, _⟩ := swapOut_spec h
    simp only at h6
    omega

/-- the fixed-output charge is always enough under the fixed-input rule -/
theorem swapOut_sufficient (total out rin rout : Nat) (ht : total < M) (ho : out < rout) :
    out ≤ amountOut total (amountIn total out rin rout) rin rout :=
  Mx.Pair.swapOut_sufficient total out rin rout ht ho

/-- conservation, fixed input.  Of the `a` tokens the caller gives up, the pair keeps all but
    at most the special fee `⌊a·special/M⌋` (which is burned / sent to the collector or a
    trusted pair, or re-enters the reserve through a local fee swap); on the output side
    exactly what leaves the reserve leaves the pair, and the caller's `out` is part of it. -/
theorem swapIn_conservation {s s' : St} {d : Dir} {a minOut : Nat} {o : Out}
    (h : swapIn s d a minOut = some (s', o)) :
    s'.balIn d ≤ s.balIn d + a ∧
    s.balIn d + a ≤ s'.balIn d + swapFee s a ∧
    swapFee s a ≤ a * s.special / M ∧
    s.rin d + (a - swapFee s a) ≤ s'.rin d ∧ s'.rin d ≤ s.rin d + a ∧
    s'.balOut d + (s.rout d - s'.rout d) = s.balOut d ∧
    s'.rout d + o.v1 ≤ s.rout d := by
  obtain ⟨s3, spent, _, _, _, _, rfl, _, h7, _, h9, _, h11, h12, h13, rfl⟩ := swapIn_spec h
  obtain ⟨i1, o1, m1, a1, _, b1, b2, _, _⟩ := h12
  have hf : swapFee s a ≤ a * s.special / M := by
    unfold swapFee specialFee; split
    · exact Nat.le_refl _
    · exact Nat.zero_le _
  rw [swapMid_rin, swapMid_balIn] at i1
  rw [swapMid_rout, swapMid_balOut] at o1
  rw [swapMid_rin] at m1
  rw [swapMid_rout] at a1
  rw [swapMid_balIn] at b1
  rw [swapMid_balOut] at b2
  rw [setBal_rin, setBal_rout, setBal_balIn, setBal_balOut]
  simp only at *
  omega

/-- conservation, fixed output (same statement with the charged amount `o.v2`) -/
theorem swapOut_conservation {s s' : St} {d : Dir} {maxIn out : Nat} {o : Out}
    (h : swapOut s d maxIn out = some (s', o)) :
    s'.balIn d ≤ s.balIn d + o.v2 ∧
    s.balIn d + o.v2 ≤ s'.balIn d + swapFee s o.v2 ∧
    swapFee s o.v2 ≤ o.v2 * s.special / M ∧
    s.rin d + (o.v2 - swapFee s o.v2) ≤ s'.rin d ∧ s'.rin d ≤ s.rin d + o.v2 ∧
    s'.balOut d + (s.rout d - s'.rout d) = s.balOut d ∧
    s'.rout d + out ≤ s.rout d := by
  obtain ⟨s3, spent, _, _, _, h4, _, rfl, _, _, h9, _, h11, h12, h13, rfl⟩ := swapOut_spec h
  obtain ⟨i1, o1, m1, a1, _, b1, b2, _, _⟩ := h12
  have hf : swapFee s (amountIn s.total out (s.rin d) (s.rout d)) ≤
      amountIn s.total out (s.rin d) (s.rout d) * s.special / M := by
    unfold swapFee specialFee; split
    · exact Nat.le_refl _
    · exact Nat.zero_le _
  rw [swapMid_rin, swapMid_balIn] at i1
  rw [swapMid_rout, swapMid_balOut] at o1
  rw [swapMid_rin] at m1
  rw [swapMid_rout] at a1
  rw [swapMid_balIn] at b1
  rw [swapMid_balOut] at b2
  rw [setBal_rin, setBal_rout, setBal_balIn, setBal_balOut]
  simp only at *
  omega

/-- with the fee switch off (no destination, no collector) no special fee is taken: the whole
    input enters the reserve and stays in the pair, and only `out` leaves -/
theorem fee_switch_off {s s' : St} {d : Dir} {a minOut : Nat} {o : Out}
    (hoff : s.feeOn = false) (h : swapIn s d a minOut = some (s', o)) :
    swapFee s a = 0 ∧ s'.rin d = s.rin d + a ∧ s'.balIn d = s.balIn d + a ∧
    s'.rout d = s.rout d - o.v1 ∧ s'.balOut d = s.balOut d - o.v1 := by
  have hz : swapFee s a = 0 := by simp [swapFee, hoff]
  obtain ⟨s3, h3, rfl⟩ := swapIn_sendFee h
  rw [hz, sendFee_zero] at h3
  simp only [Option.some.injEq] at h3
  subst h3
  refine ⟨hz, ?_⟩
  cases d <;>
    simp [swapMid, St.touch, St.setR, St.setBal, St.addSlkOut, St.rin, St.rout, St.balIn, St.balOut]

/-- the special fee is only taken when the switch is on, and then equals `⌊a·special/M⌋` -/
theorem special_fee_formula (s : St) (a : Nat) :
    swapFee s a = if s.feeOn then a * s.special / M else 0 := rfl

/-! ### output locking (`locking_wrapper.rs`, `build_swap_output_payments`) -/

/-- what `Out.locked` decides: all of `v1` is LOCKED or all of it is plain — never both, never neither -/
theorem out_locked_xor_plain (o : Out) :
    o.plainAmt + o.lockedAmt = o.v1 ∧
    (o.locked = true → o.lockedAmt = o.v1 ∧ o.plainAmt = 0) ∧
    (o.locked = false → o.plainAmt = o.v1 ∧ o.lockedAmt = 0) := by
  cases hl : o.locked <;> simp [Out.plainAmt, Out.lockedAmt, hl]

/-- fixed input: the caller is credited exactly `out = ⌊a(M−f)rOut/(rIn·M + a(M−f))⌋ > 0` of the
    output token and nothing else (no refund, nothing of the input token); as LOCKED tokens iff
    `epoch < lockingDeadlineEpoch` and the unlock epoch is still ahead, as the plain token
    otherwise; and while locking is on the swap only succeeds through simple-lock -/
theorem swapIn_locked_or_plain {s s' : St} {d : Dir} {a minOut : Nat} {o : Out}
    (h : swapIn s d a minOut = some (s', o)) :
    o.v1 = amountOut s.total a (s.rin d) (s.rout d) ∧ 0 < o.v1 ∧ o.v2 = 0 ∧ o.v3 = 0 ∧
    (o.locked = true ↔ s.epoch < s.lockDeadline ∧ s.epoch < s.lockUnlockEpoch) ∧
    o.plainAmt + o.lockedAmt = o.v1 ∧
    (s.epoch < s.lockDeadline → s.lockSc = .simpleLock) := by
  obtain ⟨hsc, _, _⟩ := swapIn_lock_spec h
  obtain ⟨_, _, _, _, _, _, rfl, _, _, h8, _⟩ := swapIn_spec h
  refine ⟨rfl, Nat.pos_of_ne_zero h8, rfl, rfl, ?_, (out_locked_xor_plain _).1, ?_⟩
  · simp [St.locksOut, St.lockOn]
  · intro hd; exact hsc (by simp [St.lockOn, hd])

/-- fixed output: the caller is credited exactly the requested `out` of the output token (plus
    the refund `maxIn − charged` of the INPUT token, always plain); `out` comes as LOCKED tokens
    iff `epoch < lockingDeadlineEpoch` and the unlock epoch is still ahead, as the plain token
    otherwise; and while locking is on the swap only succeeds through simple-lock -/
theorem swapOut_locked_or_plain {s s' : St} {d : Dir} {maxIn out : Nat} {o : Out}
    (h : swapOut s d maxIn out = some (s', o)) :
    o.v1 = out ∧ 0 < o.v1 ∧ o.v3 = maxIn - o.v2 ∧
    (o.locked = true ↔ s.epoch < s.lockDeadline ∧ s.epoch < s.lockUnlockEpoch) ∧
    o.plainAmt + o.lockedAmt = o.v1 ∧
    (s.epoch < s.lockDeadline → s.lockSc = .simpleLock) := by
  obtain ⟨hsc, _, _⟩ := swapOut_lock_spec h
  obtain ⟨_, _, h1, _, _, _, _, rfl, _⟩ := swapOut_spec h
  refine ⟨rfl, h1, rfl, ?_, (out_locked_xor_plain _).1, ?_⟩
  · simp [St.locksOut, St.lockOn]
  · intro hd; exact hsc (by simp [St.lockOn, hd])

/-- either swap endpoint, as a step of the state machine: the caller is credited exactly
    `o.v1 > 0` of the output token — all of it LOCKED (`lockedAmt = v1`, `plainAmt = 0`) iff
    `epoch < lockingDeadlineEpoch` and the unlock epoch is still ahead, all of it plain
    (`plainAmt = v1`, `lockedAmt = 0`) otherwise: never both, never neither -/
theorem swap_output_locked_or_plain {s s' : St} {op : Op} {o : Out} (hsw : isSwap op = true)
    (h : step s op = some (s', o)) :
    0 < o.v1 ∧
    (o.locked = true ↔ s.epoch < s.lockDeadline ∧ s.epoch < s.lockUnlockEpoch) ∧
    (s.epoch < s.lockDeadline ∧ s.epoch < s.lockUnlockEpoch → o.lockedAmt = o.v1 ∧ o.plainAmt = 0) ∧
    (¬(s.epoch < s.lockDeadline ∧ s.epoch < s.lockUnlockEpoch) → o.plainAmt = o.v1 ∧ o.lockedAmt = 0) ∧
    (s.epoch < s.lockDeadline → s.lockSc = .simpleLock) := by
  have hx := out_locked_xor_plain o
  have key : 0 < o.v1 ∧ (o.locked = true ↔ s.epoch < s.lockDeadline ∧ s.epoch < s.lockUnlockEpoch) ∧
      (s.epoch < s.lockDeadline → s.lockSc = .simpleLock) := by
    cases op <;> simp only [isSwap] at hsw <;> try contradiction
    case swapIn d a m =>
      simp only [step] at h
      obtain ⟨_, h2, _, _, h5, _, h7⟩ := swapIn_locked_or_plain h
      exact ⟨h2, h5, h7⟩
    case swapOut d mx out =>
      simp only [step] at h
      obtain ⟨_, h2, _, h4, _, h6⟩ := swapOut_locked_or_plain h
      exact ⟨h2, h4, h6⟩
  obtain ⟨k1, k2, k3⟩ := key
  refine ⟨k1, k2, fun hc => hx.2.1 (k2.2 hc), fun hc => hx.2.2 ?_, k3⟩
  cases hl : o.locked
  · rfl
  · exact absurd (k2.1 hl) hc

/-- conservation of the output token across the pair, simple-lock and the caller (either swap
    endpoint; `d` = the swap's direction): simple-lock's holdings of the output token grow by
    exactly the LOCKED amount delivered and its holdings of the input token do not move;
    exactly what leaves the reserve leaves the pair; and everything that left the pair went to
    the caller as plain tokens, to simple-lock (backing the caller's LOCKED tokens 1:1), or was
    bought and routed away by a local fee swap (`rout` decrease beyond `out`) — nothing is created -/
theorem swap_lock_conservation {s s' : St} {op : Op} {o : Out} (hsw : isSwap op = true)
    (h : step s op = some (s', o)) :
    s'.slkOut (swapDir op) = s.slkOut (swapDir op) + o.lockedAmt ∧
    s'.slkIn (swapDir op) = s.slkIn (swapDir op) ∧
    s'.balOut (swapDir op) + (s.rout (swapDir op) - s'.rout (swapDir op)) = s.balOut (swapDir op) ∧
    s'.rout (swapDir op) + o.v1 ≤ s.rout (swapDir op) ∧
    s.balOut (swapDir op) + s.slkOut (swapDir op) =
      s'.balOut (swapDir op) + s'.slkOut (swapDir op) + o.plainAmt +
        (s.rout (swapDir op) - s'.rout (swapDir op) - o.v1) := by
  have hx := (out_locked_xor_plain o).1
  cases op <;> simp only [isSwap] at hsw <;> try contradiction
  case swapIn d a m =>
    simp only [step] at h
    obtain ⟨_, l2, l3⟩ := swapIn_lock_spec h
    obtain ⟨_, _, _, _, _, c6, c7⟩ := swapIn_conservation h
    simp only [swapDir]
    refine ⟨l2, l3, c6, c7, ?_⟩
    omega
  case swapOut d mx out =>
    simp only [step] at h
    obtain ⟨_, l2, l3⟩ := swapOut_lock_spec h
    obtain ⟨e1, _⟩ := swapOut_exact h
    obtain ⟨_, _, _, _, _, c6, c7⟩ := swapOut_conservation h
    simp only [swapDir]
    refine ⟨l2, l3, c6, by omega, ?_⟩
    omega

/-- with the fee switch off the pair's output balance drops by exactly `out`: all of it is in
    the caller's hands as plain tokens, or in simple-lock's as the backing of the caller's LOCKED tokens -/
theorem fee_off_output_exact {s s' : St} {d : Dir} {a minOut : Nat} {o : Out}
    (hoff : s.feeOn = false) (h : swapIn s d a minOut = some (s', o)) :
    s'.balOut d + o.v1 = s.balOut d ∧ s'.slkOut d = s.slkOut d + o.lockedAmt ∧
    s.balOut d + s.slkOut d = s'.balOut d + s'.slkOut d + o.plainAmt := by
  obtain ⟨_, _, _, _, h5⟩ := fee_switch_off hoff h
  obtain ⟨_, l2, _⟩ := swapIn_lock_spec h
  obtain ⟨_, _, _, _, _, c6, c7⟩ := swapIn_conservation h
  have hx := (out_locked_xor_plain o).1
  refine ⟨by omega, l2, by omega⟩

/-- over any history from a fresh pair: simple-lock's holdings of each pool token equal the sum
    of the LOCKED amounts the pair's swaps delivered to their callers (every LOCKED token handed
    out is backed 1:1, and nothing else ever reaches or leaves simple-lock through the pair) -/
theorem locked_backed_run (total special : Nat) (adder : Option Nat) (cap : Nat) (ops : List Op) :
    let r := runLocked (init total special adder cap) ops
    r.1 = run (init total special adder cap) ops ∧ r.1.slk1 = r.2.1 ∧ r.1.slk2 = r.2.2 := by
  intro r
  have h1 := runLocked_fst (init total special adder cap) ops
  have h2 := run_slk ops (init total special adder cap)
  have z1 : (init total special adder cap).slk1 = 0 := rfl
  have z2 : (init total special adder cap).slk2 = 0 := rfl
  refine ⟨h1, ?_, ?_⟩
  · show (runLocked _ ops).1.slk1 = (runLocked _ ops).2.1
    rw [h1, h2.1, z1, Nat.zero_add]
  · show (runLocked _ ops).1.slk2 = (runLocked _ ops).2.2
    rw [h1, h2.2, z2, Nat.zero_add]

/-- the locking setters are owner-only: a caller without owner permissions cannot change them -/
theorem lock_setters_owner_only (s : St) (o : LockOp) : step s (.lock false o) = none := by
  cases o <;> simp [step, lockCfg, req]

/-- non-vacuity: a fee-charging swap in each mode on a concrete pool -/
example :
    let s0 := run (init 300 50 none 8)
      [.cfg (.setState .active), .addLiq 1000000 2000000 1 1, .cfg (.addDest .second)]
    (swapIn s0 .ab 100000 1).isSome ∧ (swapOut s0 .ba 90000 4000).isSome ∧ s0.feeOn = true := by
  decide

/-- non-vacuity of the locking theorems: before the deadline the output is LOCKED and backed,
    after the unlock epoch (still before the deadline) it is plain, after the deadline it is
    plain; with the locking address unset a swap fails while locking is on -/
example :
    let s0 := run (init 300 50 none 8)
      [.cfg (.setState .active), .addLiq 1000000 2000000 1 1, .lock true (.setDeadline 5),
       .lock true (.setUnlock 3)]
    let s1 := run s0 [.lock true (.setSc .simpleLock)]
    swapIn s0 .ab 1000 1 = none ∧
    ((swapIn s1 .ab 1000 1).map fun r => (r.2.v1, r.2.locked, r.1.slk2)) = some (1992, true, 1992) ∧
    ((swapOut (run s1 [.epoch 3]) .ba 90000 500).map fun r => (r.2.locked, r.1.slk1)) = some (false, 0) ∧
    ((swapIn (run s1 [.epoch 5]) .ab 1000 1).map fun r => r.2.locked) = some false := by
  decide

end Mx.C03
