/-
  C03 — Swaps follow the documented formula, honour slippage bounds, conserve tokens.
  `Out` of `swapIn` = (out, 0, 0); of `swapOut` = (out delivered, charged, refund).
  `balIn/balOut d` are the pair's REAL balances of the input / output token of direction `d`.
-/
import MxModel.Lemmas.PairK

namespace Mx.C03
open Mx.Pair

/-- fixed input: pays exactly `⌊a(M−f)rOut / (rIn·M + a(M−f))⌋`, never less than the caller's
    minimum, never zero and never the whole reserve -/
theorem swapIn_out_eq {s s' : St} {d : Dir} {a minOut : Nat} {o : Out}
    (h : swapIn s d a minOut = some (s', o)) :
    o.v1 = (a * (M - s.total)) * s.rout d / (s.rin d * M + a * (M - s.total)) ∧
    minOut ≤ o.v1 ∧ 0 < o.v1 ∧ o.v1 < s.rout d := by
  obtain ⟨_, _, _, _, _, _, rfl, h6, h7, h8, _⟩ := swapIn_spec h
  exact ⟨rfl, h6, Nat.pos_of_ne_zero h8, h7⟩

/-- …and fails rather than pay less than the caller's minimum -/
theorem swapIn_rejects_below_min (s : St) (d : Dir) (a minOut : Nat)
    (hlt : amountOut s.total a (s.rin d) (s.rout d) < minOut) : swapIn s d a minOut = none := by
  cases h : swapIn s d a minOut with
  | none => rfl
  | some r =>
    obtain ⟨s', o⟩ := r
    obtain ⟨_, _, _, _, _, _, rfl, h6, _⟩ := swapIn_spec h
    simp only at h6
    omega

/-- fixed output: delivers exactly the requested amount, charges
    `⌊rIn·out·M / ((rOut−out)(M−f))⌋ + 1`, never more than the caller's maximum, refunds the rest -/
theorem swapOut_exact {s s' : St} {d : Dir} {maxIn out : Nat} {o : Out}
    (h : swapOut s d maxIn out = some (s', o)) :
    o.v1 = out ∧
    o.v2 = s.rin d * out * M / ((s.rout d - out) * (M - s.total)) + 1 ∧
    o.v2 ≤ maxIn ∧ o.v3 = maxIn - o.v2 ∧ out < s.rout d := by
  obtain ⟨_, _, _, _, _, h4, _, rfl, h6, _⟩ := swapOut_spec h
  exact ⟨rfl, rfl, h6, rfl, h4⟩

/-- …and fails rather than charge more than the caller's maximum -/
theorem swapOut_rejects_above_max (s : St) (d : Dir) (maxIn out : Nat)
    (hlt : maxIn < amountIn s.total out (s.rin d) (s.rout d)) : swapOut s d maxIn out = none := by
  cases h : swapOut s d maxIn out with
  | none => rfl
  | some r =>
    obtain ⟨s', o⟩ := r
    obtain ⟨_, _, _, _, _, _, _, rfl, h6, _⟩ := swapOut_spec h
    simp only at h6
    omega

/-- the fixed-output charge is always enough under the fixed-input rule -/
theorem swapOut_sufficient (total out rin rout : Nat) (ht : total < M) (ho : out < rout) :
    out ≤ amountOut total (amountIn total out rin rout) rin rout :=
  Mx.Pair.swapOut_sufficient total out rin rout ht ho

/-- conservation, fixed input.  Of the `a` tokens the caller gives up, the pair keeps all but
    at most the special fee `⌊a·special/M⌋` (which is burned / sent to the collector or a
    trusted pair, or re-enters the reserve through a local fee swap); on the output side
    exactly what leaves the reserve leaves the pair, and the caller's `out` is part of it. -/
theorem swapIn_conservation {s s' : St} {d : Dir} {a minOut : Nat} {o : Out}
    (h : swapIn s d a minOut = some (s', o)) :
    s'.balIn d ≤ s.balIn d + a ∧
    s.balIn d + a ≤ s'.balIn d + swapFee s a ∧
    swapFee s a ≤ a * s.special / M ∧
    s.rin d + (a - swapFee s a) ≤ s'.rin d ∧ s'.rin d ≤ s.rin d + a ∧
    s'.balOut d + (s.rout d - s'.rout d) = s.balOut d ∧
    s'.rout d + o.v1 ≤ s.rout d := by
  obtain ⟨s3, spent, _, _, _, _, rfl, _, h7, _, h9, _, h11, h12, h13, rfl⟩ := swapIn_spec h
  obtain ⟨i1, o1, m1, a1, _, b1, b2, _, _⟩ := h12
  have hf : swapFee s a ≤ a * s.special / M := by
    unfold swapFee specialFee; split
    · exact Nat.le_refl _
    · exact Nat.zero_le _
  rw [swapMid_rin, swapMid_balIn] at i1
  rw [swapMid_rout, swapMid_balOut] at o1
  rw [swapMid_rin] at m1
  rw [swapMid_rout] at a1
  rw [swapMid_balIn] at b1
  rw [swapMid_balOut] at b2
  rw [setBal_rin, setBal_rout, setBal_balIn, setBal_balOut]
  simp only at *
  omega

/-- conservation, fixed output (same statement with the charged amount `o.v2`) -/
theorem swapOut_conservation {s s' : St} {d : Dir} {maxIn out : Nat} {o : Out}
    (h : swapOut s d maxIn out = some (s', o)) :
    s'.balIn d ≤ s.balIn d + o.v2 ∧
    s.balIn d + o.v2 ≤ s'.balIn d + swapFee s o.v2 ∧
    swapFee s o.v2 ≤ o.v2 * s.special / M ∧
    s.rin d + (o.v2 - swapFee s o.v2) ≤ s'.rin d ∧ s'.rin d ≤ s.rin d + o.v2 ∧
    s'.balOut d + (s.rout d - s'.rout d) = s.balOut d ∧
    s'.rout d + out ≤ s.rout d := by
  obtain ⟨s3, spent, _, _, _, h4, _, rfl, _, _, h9, _, h11, h12, h13, rfl⟩ := swapOut_spec h
  obtain ⟨i1, o1, m1, a1, _, b1, b2, _, _⟩ := h12
  have hf : swapFee s (amountIn s.total out (s.rin d) (s.rout d)) ≤
      amountIn s.total out (s.rin d) (s.rout d) * s.special / M := by
    unfold swapFee specialFee; split
    · exact Nat.le_refl _
    · exact Nat.zero_le _
  rw [swapMid_rin, swapMid_balIn] at i1
  rw [swapMid_rout, swapMid_balOut] at o1
  rw [swapMid_rin] at m1
  rw [swapMid_rout] at a1
  rw [swapMid_balIn] at b1
  rw [swapMid_balOut] at b2
  rw [setBal_rin, setBal_rout, setBal_balIn, setBal_balOut]
  simp only at *
  omega

/-- with the fee switch off (no destination, no collector) no special fee is taken: the whole
    input enters the reserve and stays in the pair, and only `out` leaves -/
theorem fee_switch_off {s s' : St} {d : Dir} {a minOut : Nat} {o : Out}
    (hoff : s.feeOn = false) (h : swapIn s d a minOut = some (s', o)) :
    swapFee s a = 0 ∧ s'.rin d = s.rin d + a ∧ s'.balIn d = s.balIn d + a ∧
    s'.rout d = s.rout d - o.v1 ∧ s'.balOut d = s.balOut d - o.v1 := by
  have hz : swapFee s a = 0 := by simp [swapFee, hoff]
  obtain ⟨s3, h3, rfl⟩ := swapIn_sendFee h
  rw [hz, sendFee_zero] at h3
  simp only [Option.some.injEq] at h3
  subst h3
  refine ⟨hz, ?_⟩
  cases d <;> simp [swapMid, St.touch, St.setR, St.setBal, St.rin, St.rout, St.balIn, St.balOut]

/-- the special fee is only taken when the switch is on, and then equals `⌊a·special/M⌋` -/
theorem special_fee_formula (s : St) (a : Nat) :
    swapFee s a = if s.feeOn then a * s.special / M else 0 := rfl

/-- non-vacuity: a fee-charging swap in each mode on a concrete pool -/
example :
    let s0 := run (init 300 50 none 8)
      [.cfg (.setState .active), .addLiq 1000000 2000000 1 1, .cfg (.addDest .second)]
    (swapIn s0 .ab 100000 1).isSome ∧ (swapOut s0 .ba 90000 4000).isSome ∧ s0.feeOn = true := by
  decide

end Mx.C03
