/-
  KStakingUnbond — farm-staking `unbondFarm` (farm-staking/farm-staking/src/unbond_farm.rs) as the
  SOURCE writes it, against `Staking.unbondFarm` of `Core/Staking.lean` (property C12: an unbond
  token pays out its exact amount of the farming token, once, and only after the unbond period).

  Generated definitions:
    * `KFarmState.staking_unbond_gate`  the state gate `validate_contract_state(…)` that opens the endpoint
    * `KStaking.unbond_payout`          from the unlock-epoch guard to the payment that is sent:
                                        (token id, nonce, amount) of `farming_tokens`
    * `KStaking.unbond_burn_amount`     the amount handed to `nft_burn`
  (`KStaking.unbond_guard`, the guard alone, is in `Props/KStaking.lean`.)
-/
import MxModel.Gen.KStaking
import MxModel.Props.KFarmState
import MxModel.Core.Staking
import MxModel.Lemmas.KTactic

namespace Mx.KStakingUnbond
open Mx Mx.Gen Mx.Staking

/-- guard + payout of `unbondFarm`: before the unlock epoch it aborts; from the unlock epoch on the
    payment is exactly `(farming token, nonce 0, the amount of unbond tokens paid in)` — no fee, no
    rounding, independent of the caller.  (The arguments are passed BY NAME: the statement says which
    source value is the token id — `storage_cache.farming_token_id` — and which the amount.) -/
theorem unbond_payout_eq (unlock now amt tok : Nat) :
    KStaking.unbond_payout (attributes_unlock_epoch := unlock) (current_epoch := now)
        (payment_amount := amt) (storage_cache_farming_token_id := tok) =
      if unlock ≤ now then some (tok, 0, amt) else none := by
  k_defs [KStaking.unbond_payout]
  k_solve

/-- the whole paid amount of the unbond token is burnt (nothing of it survives the payout) -/
theorem unbond_burn_amount_eq (amt : Nat) : KStaking.unbond_burn_amount amt = some amt := by
  k_defs [KStaking.unbond_burn_amount]

/-- burnt = paid out: the two amounts the source computes from the same payment agree whenever the
    payout happens -/
theorem unbond_burn_eq_payout (unlock now amt tok : Nat) (r : Nat × Nat × Nat)
    (h : KStaking.unbond_payout unlock now amt tok = some r) :
    KStaking.unbond_burn_amount amt = some r.2.2 ∧ r.1 = tok ∧ r.2.1 = 0 := by
  rw [unbond_payout_eq] at h
  split at h
  · cases h; exact ⟨unbond_burn_amount_eq amt, rfl, rfl⟩
  · cases h

/-- the state gate of `unbondFarm` is the shared `validate_contract_state`: it aborts for every
    state index other than Active and when the farm token is not issued -/
theorem staking_unbond_gate_eq (n : Nat) (issued : Bool) :
    KFarmState.staking_unbond_gate n issued = KFarmState.validate_contract_state n issued := by
  k_defs [KFarmState.staking_unbond_gate]
  cases KFarmState.validate_contract_state n issued <;> rfl

theorem staking_unbond_gate_blocks_unless_active (n : Nat) (issued : Bool) (h : n ≠ 1) :
    KFarmState.staking_unbond_gate n issued = none := by
  rw [staking_unbond_gate_eq, (KFarmState.source_gate_blocks_unless_active n issued h).1]

/-- **every `unbondFarm` the model accepts ran the source**: the farm was active (source gate passes),
    the stored unlock epoch was reached, and the model's output amount is the source's payout amount,
    which is the amount of unbond tokens paid in (for EVERY farming-token id `tok`) -/
theorem unbondFarm_runs_source {s s' : St} {caller : Nat} {pay : Pay} {o : Out} (tok : Nat)
    (h : unbondFarm s caller pay = some (s', o)) :
    KFarmState.staking_unbond_gate (KFarmState.stateTag s.active) true = some () ∧
    ∃ unlock, unbondOf s.md pay.1 = some unlock ∧
      KStaking.unbond_payout unlock s.epoch pay.2 tok = some (tok, 0, o.b) ∧
      KStaking.unbond_burn_amount pay.2 = some o.b := by
  simp only [unbondFarm, Option.bind_eq_bind, Option.bind_eq_some_iff, req_eq_some] at h
  obtain ⟨_, _, _, ha, unlock, hu, _, hle, _, _, hr⟩ := h
  simp only [Option.pure_def, Option.some.injEq, Prod.mk.injEq] at hr
  obtain ⟨_, ho⟩ := hr
  subst ho
  refine ⟨?_, unlock, hu, ?_, ?_⟩
  · rw [staking_unbond_gate_eq, (KFarmState.gate_on_model s.active).1, if_pos ha]
  · rw [unbond_payout_eq, if_pos hle]
  · exact unbond_burn_amount_eq _

example : KStaking.unbond_payout 10 10 500 42 = some (42, 0, 500) := by decide
example : KStaking.unbond_payout 10 9 500 42 = none := by decide
example : KFarmState.staking_unbond_gate 1 true = some () := by decide
example : KFarmState.staking_unbond_gate 0 true = none := by decide

end Mx.KStakingUnbond
