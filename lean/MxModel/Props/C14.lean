/-
  C14 — Router: one pair per token pair, registered pairs only, pass-through multi-hop.

  Statement: at most one pair exists per unordered token pair and lookups are order-insensitive;
  pairs are created only by the owner unless public creation is enabled, and only registered
  pairs can be paused, resumed, configured or used as swap hops.  A multi-hop swap leaves the
  router's own balances unchanged: the caller receives exactly the last hop's output plus every
  fixed-output residual, each hop's result equals what the pair alone would give, and the whole
  transaction reverts if any hop fails.

  Model: Core/Router.lean (router + every deployed pair contract, each a `Mx.Pair.St` from
  Core/Pair.lean; `rbal` = the router's own balances, `ubal` = the accounts' balances).
  Only property theorems live in this file; helper lemmas are in Lemmas/Router*.lean.
  "Reachable" below always means `run (init …) ops` for an arbitrary history `ops` — any mix
  of createPair / removePair in either token order by any caller, management calls, liquidity
  operations, swaps and multi-hop swaps, enable-by-user configuration, simple-lock lock / unlock,
  `setSwapEnabledByUser` and epoch changes with arbitrary arguments; failed calls are skipped.

  The router's `EnableSwapByUserModule` (enable_swap_by_user.rs) is the one way in which somebody
  other than the owner changes a pair's state and fee percents through the router; the section
  "swaps enabled by the user" pins down who, when, on which pair and with which payment, and that
  a pair the owner paused cannot be brought back that way.
-/
import MxModel.Lemmas.RouterPause

namespace Mx.C14
open Mx.Router

/-! ### one pair per unordered token pair; order-insensitive lookup -/

/-- after every history the registry holds at most one entry per unordered token pair -/
theorem registry_unique (owner self : Addr) (template : Bool) (foreign : List PairRec)
    (funds : Addr → Nat → Nat) (ops : List Op) :
    Uniq (run (init owner self template foreign funds) ops).pairMap :=
  (run_inv ops (inv_init owner self template foreign funds)).uniq

/-- the same, spelled out: two registry entries whose keys name the same two tokens, in the
    same or in the opposite order, are one and the same entry -/
theorem registry_unique_entries (owner self : Addr) (template : Bool) (foreign : List PairRec)
    (funds : Addr → Nat → Nat) (ops : List Op) (e f : (Tok × Tok) × Addr)
    (he : e ∈ (run (init owner self template foreign funds) ops).pairMap)
    (hf : f ∈ (run (init owner self template foreign funds) ops).pairMap)
    (h : e.1 = f.1 ∨ e.1 = (f.1.2, f.1.1)) : e = f :=
  (registry_unique owner self template foreign funds ops).eq_of_same he hf h

/-- no address is registered for two token pairs -/
theorem registry_addr_unique (owner self : Addr) (template : Bool) (foreign : List PairRec)
    (funds : Addr → Nat → Nat) (ops : List Op) :
    AddrUniq (run (init owner self template foreign funds) ops).pairMap :=
  (run_inv ops (inv_init owner self template foreign funds)).addrUniq

/-- `getPair` is order-insensitive on every reachable state -/
theorem getPair_symm (owner self : Addr) (template : Bool) (foreign : List PairRec)
    (funds : Addr → Nat → Nat) (ops : List Op) (a b : Tok) :
    getPair (run (init owner self template foreign funds) ops).pairMap a b =
      getPair (run (init owner self template foreign funds) ops).pairMap b a := by
  have hi := run_inv ops (inv_init owner self template foreign funds)
  exact getPair_comm hi.uniq hi.nonZero a b

/-- `getPair`, asked in either order, returns the (non-zero) address of the registry entry -/
theorem getPair_finds_entry (owner self : Addr) (template : Bool) (foreign : List PairRec)
    (funds : Addr → Nat → Nat) (ops : List Op) (e : (Tok × Tok) × Addr)
    (he : e ∈ (run (init owner self template foreign funds) ops).pairMap) :
    getPair (run (init owner self template foreign funds) ops).pairMap e.1.1 e.1.2 = e.2 ∧
    getPair (run (init owner self template foreign funds) ops).pairMap e.1.2 e.1.1 = e.2 ∧
    e.2 ≠ 0 := by
  have hi := run_inv ops (inv_init owner self template foreign funds)
  have h1 := getPair_eq_of_mem hi.uniq hi.nonZero (k := e.1) (x := e.2) he
  exact ⟨h1, by rw [getPair_comm hi.uniq hi.nonZero]; exact h1, hi.nonZero e he⟩

/-! ### who may create and remove pairs -/

/-- a successful `createPair` was called by the owner, or public creation was enabled -/
theorem create_auth {s s' : St} {c : Addr} {t1 t2 : Tok} {adder : Addr}
    {fees : Option (Nat × Nat)} {o : Out}
    (h : step s (.createPair c t1 t2 adder fees) = some (s', o)) :
    c = s.owner ∨ s.creationEnabled = true := by
  obtain ⟨_, _, h2, _⟩ := createPair_spec h
  exact h2

/-- a successful `createPair(t1, t2)` on a reachable state: no pair existed for the two tokens
    in either order, the tokens are distinct valid ids, the router is active; afterwards both
    lookups return the new address, which was not registered before -/
theorem create_registers (owner self : Addr) (template : Bool) (foreign : List PairRec)
    (funds : Addr → Nat → Nat) (ops : List Op) {s' : St} {c : Addr} {t1 t2 : Tok} {adder : Addr}
    {fees : Option (Nat × Nat)} {o : Out}
    (h : step (run (init owner self template foreign funds) ops) (.createPair c t1 t2 adder fees)
      = some (s', o)) :
    let s := run (init owner self template foreign funds) ops
    s.active = true ∧ t1 ≠ t2 ∧ validTok t1 ∧ validTok t2 ∧
    getPair s.pairMap t1 t2 = 0 ∧ getPair s.pairMap t2 t1 = 0 ∧
    o.addr ∉ s.pairMap.map Prod.snd ∧ o.addr ≠ 0 ∧
    getPair s'.pairMap t1 t2 = o.addr ∧ getPair s'.pairMap t2 t1 = o.addr ∧
    tokOf s'.pairs o.addr = some (t1, t2) := by
  intro s
  have hi : Inv s := run_inv ops (inv_init owner self template foreign funds)
  have hi' : Inv s' := step_inv hi h
  obtain ⟨fp, h1, _, h3, h4, h5, h6, _, _, _, _, ho, hs'⟩ := createPair_spec h
  have hmem : ((t1, t2), o.addr) ∈ s'.pairMap := by
    rw [hs', ho]; exact List.mem_append_right _ List.mem_cons_self
  have hg := getPair_eq_of_mem hi'.uniq hi'.nonZero hmem
  refine ⟨h1, h3, h4, h5, h6, ?_, ?_, hi'.nonZero _ hmem, hg, ?_, hi'.toks _ hmem⟩
  · rw [getPair_comm hi.uniq hi.nonZero]; exact h6
  · intro hin
    obtain ⟨e, he, hea⟩ := List.mem_map.mp hin
    have := (hi.lt e he).2
    rw [hea, ho] at this
    exact Nat.lt_irrefl _ this
  · rw [getPair_comm hi'.uniq hi'.nonZero]; exact hg

/-- a successful `removePair(t1, t2)` on a reachable state was called by the owner, returns
    the registered address (whichever order it was registered in), and afterwards neither
    order finds a pair -/
theorem remove_auth_and_effect (owner self : Addr) (template : Bool) (foreign : List PairRec)
    (funds : Addr → Nat → Nat) (ops : List Op) {s' : St} {c : Addr} {t1 t2 : Tok} {o : Out}
    (h : step (run (init owner self template foreign funds) ops) (.removePair c t1 t2)
      = some (s', o)) :
    let s := run (init owner self template foreign funds) ops
    c = s.owner ∧ o.addr = getPair s.pairMap t1 t2 ∧ o.addr ≠ 0 ∧
    getPair s'.pairMap t1 t2 = 0 ∧ getPair s'.pairMap t2 t1 = 0 := by
  intro s
  have hi : Inv s := run_inv ops (inv_init owner self template foreign funds)
  have hi' : Inv s' := step_inv hi h
  obtain ⟨h1, _, h3, _, _, h6, ho, hs'⟩ := removePair_spec h
  have hne : (t2, t1) ≠ (t1, t2) := by
    intro e; simp only [Prod.mk.injEq] at e; exact h3 e.2
  have key : getPair s'.pairMap t1 t2 = 0 := by
    rw [getPair_eq_zero_iff hi'.nonZero, hs']
    show lookup (removed s.pairMap t1 t2) (t1, t2) = none ∧
      lookup (removed s.pairMap t1 t2) (t2, t1) = none
    unfold removed
    by_cases ha : (lookup s.pairMap (t1, t2)).getD 0 ≠ 0
    · rw [if_pos ha]
      refine ⟨lookup_erase_self _ _, ?_⟩
      rw [lookup_erase_other _ hne]
      -- an entry for the reversed key would be a second entry for the same unordered pair
      cases h2 : lookup s.pairMap (t2, t1) with
      | none => rfl
      | some y =>
        cases h1' : lookup s.pairMap (t1, t2) with
        | none => rw [h1'] at ha; exact absurd rfl ha
        | some x =>
          have := hi.uniq.eq_of_same (lookup_some_mem h1') (lookup_some_mem h2) (Or.inr rfl)
          simp only [Prod.mk.injEq] at this
          exact absurd this.1.1 h3
    · rw [if_neg ha]
      refine ⟨?_, lookup_erase_self _ _⟩
      rw [lookup_erase_other _ hne.symm]
      exact lookup_erase_self _ _
  refine ⟨h1, by rw [ho], by rw [ho]; exact h6, key, ?_⟩
  rw [getPair_comm hi'.uniq hi'.nonZero]; exact key

/-- only the owner switches public pair creation on or off -/
theorem creation_flag_owner_only {s s' : St} {op : Op} {o : Out} (h : step s op = some (s', o))
    (hne : s'.creationEnabled ≠ s.creationEnabled) : ∃ b, op = .setCreation s.owner b := by
  cases op with
  | setCreation c b =>
    obtain ⟨hc, _⟩ := setCreation_frame h
    exact ⟨b, by rw [hc]⟩
  | createPair c t1 t2 ad f =>
    obtain ⟨fp, _, _, _, _, _, _, _, _, _, _, _, rfl⟩ := createPair_spec h
    exact absurd rfl hne
  | removePair c t1 t2 =>
    obtain ⟨_, _, _, _, _, _, _, rfl⟩ := removePair_spec h
    exact absurd rfl hne
  | setTemplate c =>
    obtain ⟨_, rfl⟩ := setTemplate_frame h
    exact absurd rfl hne
  | pause c a =>
    obtain ⟨_, h2⟩ := setState_spec h
    rcases h2 with ⟨_, rfl⟩ | ⟨_, _, p, _, rfl⟩ <;> exact absurd rfl hne
  | resume c a =>
    obtain ⟨_, h2⟩ := setState_spec h
    rcases h2 with ⟨_, rfl⟩ | ⟨_, _, p, _, rfl⟩ <;> exact absurd rfl hne
  | setFeeOn c a tok =>
    obtain ⟨_, _, _, p, _, rfl⟩ := setFeeOn_spec h
    exact absurd rfl hne
  | setFeeOff c a i tok =>
    obtain ⟨_, _, _, p, _, _, _, rfl⟩ := setFeeOff_spec h
    exact absurd rfl hne
  | multi c tokIn amount hops =>
    obtain ⟨r, _, _, _, rfl⟩ := multiPairSwap_spec h
    exact absurd rfl hne
  | addInitial u a a1 a2 =>
    simp only [step, addInitial, Option.bind_eq_bind, Option.bind_eq_some_iff, Option.pure_def,
      Option.some.injEq, Prod.mk.injEq] at h
    obtain ⟨p, _, _, _, _, _, r, _, rfl, _⟩ := h
    exact absurd rfl hne
  | addLiq u a a1 a2 m1 m2 =>
    simp only [step, addLiq, Option.bind_eq_bind, Option.bind_eq_some_iff, Option.pure_def,
      Option.some.injEq, Prod.mk.injEq] at h
    obtain ⟨p, _, _, _, r, _, _, _, _, _, rfl, _⟩ := h
    exact absurd rfl hne
  | removeLiq u a lp m1 m2 =>
    simp only [step, removeLiq, Option.bind_eq_bind, Option.bind_eq_some_iff, Option.pure_def,
      Option.some.injEq, Prod.mk.injEq] at h
    obtain ⟨p, _, _, _, r, _, rfl, _⟩ := h
    exact absurd rfl hne
  | swapIn u a ti x tq m =>
    simp only [step, swapIn, Option.bind_eq_bind, Option.bind_eq_some_iff, Option.pure_def,
      Option.some.injEq, Prod.mk.injEq] at h
    obtain ⟨p, _, _, _, _, _, r, _, rfl, _⟩ := h
    exact absurd rfl hne
  | swapOut u a ti mx tq out =>
    simp only [step, swapOut, Option.bind_eq_bind, Option.bind_eq_some_iff, Option.pure_def,
      Option.some.injEq, Prod.mk.injEq] at h
    obtain ⟨p, _, _, _, _, _, r, _, rfl, _⟩ := h
    exact absurd rfl hne
  | configEnable c common locked mv mp =>
    obtain ⟨_, _, _, _, rfl⟩ := configEnable_spec h
    exact absurd rfl hne
  | addCommon c toks =>
    obtain ⟨_, _, rfl⟩ := addCommon_spec h
    exact absurd rfl hne
  | removeCommon c toks =>
    obtain ⟨_, rfl⟩ := removeCommon_spec h
    exact absurd rfl hne
  | enableByUser c a k amount =>
    obtain ⟨_, _, _, _, p, _, _, _, _, _, _, _, _, _, _, _, _, rfl⟩ := enableByUser_spec h
    exact absurd rfl hne
  | enablePlain c a tok amount => cases h
  | lock u coll orig amount unlock =>
    obtain ⟨_, _, _, h4⟩ := lockTokens_spec h
    rcases h4 with ⟨_, rfl, _⟩ | ⟨_, _, rfl⟩ <;> exact absurd rfl hne
  | unlock u k amount =>
    obtain ⟨_, _, _, _, rfl⟩ := unlockTokens_spec h
    exact absurd rfl hne
  | advance e =>
    obtain ⟨_, rfl⟩ := advance_spec h
    exact absurd rfl hne
  | setTmpPeriod c n =>
    obtain ⟨_, _, rfl⟩ := setTmpPeriod_spec h
    exact absurd rfl hne
  | clearTmp c =>
    obtain ⟨_, _, rfl⟩ := clearTmp_spec h
    exact absurd rfl hne
  | issueLp c x =>
    obtain ⟨_, _, _, _, _, _, rfl⟩ := issueLp_spec h
    exact absurd rfl hne
  | setLocalRoles c x =>
    obtain ⟨_, _, _, _, rfl⟩ := setLocalRoles_spec (c := c) h
    exact absurd rfl hne
  | upgradePair c t1 t2 =>
    obtain ⟨_, _, _, _, _, _, _, rfl⟩ := upgradePair_spec h
    exact absurd rfl hne
  | advanceBlock n =>
    obtain ⟨_, _, rfl⟩ := advanceBlock_spec h
    exact absurd rfl hne
  | bareNext b =>
    obtain ⟨_, rfl⟩ := setBareNext_spec h
    exact absurd rfl hne

/-! ### only registered pairs can be paused, resumed, configured or used as hops -/

/-- on every reachable state `check_is_pair_sc` accepts exactly the registered addresses -/
theorem only_registered_iff (owner self : Addr) (template : Bool) (foreign : List PairRec)
    (funds : Addr → Nat → Nat) (ops : List Op) (a : Addr) :
    let s := run (init owner self template foreign funds) ops
    checkIsPairSc s.pairMap s.pairs a = some () ↔ a ∈ s.pairMap.map Prod.snd :=
  checkIsPairSc_iff_mem (run_inv ops (inv_init owner self template foreign funds)) a

/-- … equivalently: the address is the registry entry (`getPair`) for the tokens the pair
    contract at that address itself reports -/
theorem only_registered_getPair (owner self : Addr) (template : Bool) (foreign : List PairRec)
    (funds : Addr → Nat → Nat) (ops : List Op) (a : Addr) :
    let s := run (init owner self template foreign funds) ops
    checkIsPairSc s.pairMap s.pairs a = some () ↔
      ∃ k, tokOf s.pairs a = some k ∧ a ≠ 0 ∧ getPair s.pairMap k.1 k.2 = a :=
  checkIsPairSc_iff_getPair (run_inv ops (inv_init owner self template foreign funds)) a

/-- `pause` / `resume` succeed only for the owner, and only on the router itself or on an
    address `check_is_pair_sc` accepts; nothing else than that pair's status (resp. the
    router's own flag) changes -/
theorem pause_resume_only_registered {s s' : St} {c a : Addr} {o : Out} (on : Bool)
    (h : step s (if on then .resume c a else .pause c a) = some (s', o)) :
    c = s.owner ∧
    ((a = s.self ∧ s' = { s with active := on }) ∨
     (checkIsPairSc s.pairMap s.pairs a = some () ∧ ∃ p, s.pairs a = some p ∧
        s' = { s with pairs := setPairSt s.pairs a p (withStatus p.st on) })) := by
  have h' : setState s c a on = some (s', o) := by cases on <;> simpa [step] using h
  obtain ⟨h1, h2⟩ := setState_spec h'
  refine ⟨h1, ?_⟩
  rcases h2 with ⟨ha, hs⟩ | ⟨_, hc, p, hp, hs⟩
  · exact Or.inl ⟨ha, hs⟩
  · exact Or.inr ⟨hc, p, hp, hs⟩

/-- `setFeeOn` succeeds only for the owner on an address `check_is_pair_sc` accepts -/
theorem setFeeOn_only_registered {s s' : St} {c a : Addr} {tok : Tok} {o : Out}
    (h : step s (.setFeeOn c a tok) = some (s', o)) :
    c = s.owner ∧ checkIsPairSc s.pairMap s.pairs a = some () := by
  obtain ⟨h1, _, h3, _⟩ := setFeeOn_spec h
  exact ⟨h1, h3⟩

/-- `setFeeOff` succeeds only for the owner on an address `check_is_pair_sc` accepts -/
theorem setFeeOff_only_registered {s s' : St} {c a : Addr} {i : Nat} {tok : Tok} {o : Out}
    (h : step s (.setFeeOff c a i tok) = some (s', o)) :
    c = s.owner ∧ checkIsPairSc s.pairMap s.pairs a = some () := by
  obtain ⟨h1, _, h3, _⟩ := setFeeOff_spec h
  exact ⟨h1, h3⟩

/-- every hop of a successful `multiPairSwap` goes through an address `check_is_pair_sc` accepts -/
theorem hops_only_registered {s s' : St} {c : Addr} {tokIn : Tok} {amount : Nat}
    {hops : List Hop} {o : Out} (h : step s (.multi c tokIn amount hops) = some (s', o)) :
    ∀ g ∈ hops, checkIsPairSc s.pairMap s.pairs g.pair = some () := by
  obtain ⟨r, _, hr, _, _⟩ := multiPairSwap_spec h
  obtain ⟨rs, _, _, _, htr, _⟩ := multiG_spec hr
  exact hopTrace_registered hops htr

/-- a pair contract that is not registered is out of the router's reach: no pause, resume,
    setFeeOn, setFeeOff or multi-hop swap changes anything about it -/
theorem unregistered_pair_untouched {s s' : St} {op : Op} {o : Out} {x : Addr}
    (hx : checkIsPairSc s.pairMap s.pairs x ≠ some ())
    (hop : (∃ c a, op = .pause c a) ∨ (∃ c a, op = .resume c a) ∨ (∃ c a t, op = .setFeeOn c a t) ∨
      (∃ c a i t, op = .setFeeOff c a i t) ∨ (∃ c t x hs, op = .multi c t x hs))
    (h : step s op = some (s', o)) : s'.pairs x = s.pairs x := by
  have key : ∀ (a : Addr) (p' : PairRec), checkIsPairSc s.pairMap s.pairs a = some () →
      upd s.pairs a (some p') x = s.pairs x := by
    intro a p' hc
    have : x ≠ a := fun e => hx (e ▸ hc)
    exact upd_other _ _ this
  rcases hop with ⟨c, a, rfl⟩ | ⟨c, a, rfl⟩ | ⟨c, a, t, rfl⟩ | ⟨c, a, i, t, rfl⟩ | ⟨c, t, am, hs, rfl⟩
  · obtain ⟨_, h2⟩ := setState_spec h
    rcases h2 with ⟨_, rfl⟩ | ⟨_, hc, p, _, rfl⟩
    · rfl
    · exact key a _ hc
  · obtain ⟨_, h2⟩ := setState_spec h
    rcases h2 with ⟨_, rfl⟩ | ⟨_, hc, p, _, rfl⟩
    · rfl
    · exact key a _ hc
  · obtain ⟨_, _, hc, p, _, rfl⟩ := setFeeOn_spec h
    exact key a _ hc
  · obtain ⟨_, _, hc, p, _, _, _, rfl⟩ := setFeeOff_spec h
    exact key a _ hc
  · obtain ⟨r, _, hr, _, rfl⟩ := multiPairSwap_spec h
    obtain ⟨rs, _, _, _, htr, _⟩ := multiG_spec hr
    have hreg := hopTrace_registered hs htr
    exact hopTrace_untouched hs htr (fun g hg e => hx (e ▸ hreg g hg))

/-! ### multi-hop swap: pass-through, parametric in what the hops answer -/

/-- For ANY behaviour `resp` of the hops (any function from pair world, hop and forwarded
    payment to new world, output and residual): a successful `multiPairSwap` received the
    responses `rs` of the chain, returns exactly the non-zero residuals followed by the last
    output, leaves every router balance as it was, and the caller — debited the payment — is
    credited exactly the returned payments. -/
theorem multihop_passthrough {σ : Type} (resp : Resp σ) {w : σ} {rb : Tok → Nat} {cb : Nat → Nat}
    {tokIn : Tok} {amount : Nat} {hops : List Hop} {r : MultiRes σ}
    (h : multiG resp w rb cb tokIn amount hops = some r) :
    ∃ rs, hopTrace resp hops w tokIn amount = some (r.w, rs) ∧
      r.pays = residuals tokIn hops rs ++ [lastPay tokIn amount hops rs] ∧
      (∀ t, r.rb t = rb t) ∧
      (∀ t, r.cb t + (if t = tokIn then amount else 0) = cb t + sumTok r.pays t) := by
  obtain ⟨rs, _, _, _, h4, h5, h6, h7⟩ := multiG_spec h
  exact ⟨rs, h4, h5, h6, h7⟩

/-- any hop error fails the whole call: if the chain reaches hop `g` (after the hops `pre`)
    and `g` answers with an error, `multiPairSwap` returns an error, whatever follows -/
theorem multihop_atomic {σ : Type} (resp : Resp σ) (pre : List Hop) (g : Hop) (post : List Hop)
    {w w1 : σ} {rb : Tok → Nat} {cb : Nat → Nat} {tokIn : Tok} {amount : Nat}
    {rs1 : List (Nat × Nat)} (hpre : hopTrace resp pre w tokIn amount = some (w1, rs1))
    (hfail : resp w1 g (lastPay tokIn amount pre rs1).1 (lastPay tokIn amount pre rs1).2 = none) :
    multiG resp w rb cb tokIn amount (pre ++ g :: post) = none :=
  multiG_none_of_trace_none (hopTrace_fail_at pre g post hpre hfail)

/-- the router adds no failure of its own: a positive payment the caller owns, a non-empty hop
    list and hops that all answer make the call succeed -/
theorem multihop_no_extra_failure {σ : Type} (resp : Resp σ) {w w' : σ} (rb : Tok → Nat)
    {cb : Nat → Nat} {tokIn : Tok} {amount : Nat} {hops : List Hop} {rs : List (Nat × Nat)}
    (h1 : 0 < amount) (h2 : hops ≠ []) (h3 : amount ≤ cb tokIn)
    (htr : hopTrace resp hops w tokIn amount = some (w', rs)) :
    ∃ r, multiG resp w rb cb tokIn amount hops = some r :=
  multiG_complete h1 h2 h3 htr

/-- the composed world: a successful `multiPairSwap` leaves the router's balance of every
    token unchanged, returns the non-zero residuals and the last output of the real chain of
    pair swaps, credits exactly those payments to the caller (who paid `amount` of `tokIn`),
    touches nobody else's balances, and changes neither the registry nor any flag -/
theorem multihop_on_pairs {s s' : St} {c : Addr} {tokIn : Tok} {amount : Nat} {hops : List Hop}
    {o : Out} (h : step s (.multi c tokIn amount hops) = some (s', o)) :
    ∃ rs, hopTrace (pairResp s.pairMap) hops s.pairs tokIn amount = some (s'.pairs, rs) ∧
      o.pays = residuals tokIn hops rs ++ [lastPay tokIn amount hops rs] ∧
      (∀ t, s'.rbal t = s.rbal t) ∧
      (∀ t, s'.ubal c t + (if t = tokIn then amount else 0) = s.ubal c t + sumTok o.pays t) ∧
      (∀ u, u ≠ c → s'.ubal u = s.ubal u) ∧
      s'.pairMap = s.pairMap ∧ s'.active = s.active ∧ s'.creationEnabled = s.creationEnabled := by
  obtain ⟨r, _, hr, rfl, rfl⟩ := multiPairSwap_spec h
  obtain ⟨rs, _, _, _, h4, h5, h6, h7⟩ := multiG_spec hr
  refine ⟨rs, h4, h5, h6, ?_, ?_, rfl, rfl, rfl⟩
  · intro t
    show upd s.ubal c r.cb c t + _ = _
    rw [upd_same]; exact h7 t
  · intro u hu
    exact upd_other _ _ hu

/-- between transactions the router holds nothing -/
theorem router_keeps_nothing (owner self : Addr) (template : Bool) (foreign : List PairRec)
    (funds : Addr → Nat → Nat) (ops : List Op) (t : Tok) :
    (run (init owner self template foreign funds) ops).rbal t = 0 :=
  (run_inv ops (inv_init owner self template foreign funds)).rb0 t

/-- each hop equals what the pair alone would give: a successful hop is literally one
    `swapTokensFixedInput` / `swapTokensFixedOutput` step of the pair model on that pair's own
    state, paying the whole forwarded amount, and no other pair contract changes -/
theorem hop_eq_pair_alone {m : Reg} {w w' : Pairs} {g : Hop} {tok : Tok} {amt out resid : Nat}
    (h : pairResp m w g tok amt = some (w', out, resid)) :
    ∃ p d st' po, w g.pair = some p ∧ dirOf p tok g.tokOut = some d ∧
      w' = setPairSt w g.pair p st' ∧ (∀ x, x ≠ g.pair → w' x = w x) ∧
      ((g.kind = .fixedIn ∧ Mx.Pair.step p.st (.swapIn d amt g.amt) = some (st', po) ∧
          out = po.v1 ∧ resid = 0) ∨
       (g.kind = .fixedOut ∧ Mx.Pair.step p.st (.swapOut d amt g.amt) = some (st', po) ∧
          out = po.v1 ∧ resid = po.v3)) := by
  obtain ⟨_, p, d, hp, hd, hk⟩ := pairResp_spec h
  rcases hk with ⟨hk, st', po, hs, h1, h2, rfl⟩ | ⟨hk, st', po, hs, h1, h2, rfl⟩
  · exact ⟨p, d, st', po, hp, hd, rfl, fun x hx => setPairSt_other w p st' hx,
      Or.inl ⟨hk, hs, h1, h2⟩⟩
  · exact ⟨p, d, st', po, hp, hd, rfl, fun x hx => setPairSt_other w p st' hx,
      Or.inr ⟨hk, hs, h1, h2⟩⟩

/-- … hence the amounts are the pair's formulas on the pair's reserves at that moment:
    fixed input: the whole forwarded amount buys `amountOut` (≥ the requested minimum), no
    residual; fixed output: exactly the requested amount is delivered, `amountIn` is charged
    and the rest of the forwarded amount comes back as residual -/
theorem hop_amounts {m : Reg} {w w' : Pairs} {g : Hop} {tok : Tok} {amt out resid : Nat}
    (h : pairResp m w g tok amt = some (w', out, resid)) :
    ∃ p d, w g.pair = some p ∧ dirOf p tok g.tokOut = some d ∧ p.st.status = .active ∧
      ((g.kind = .fixedIn ∧ out = Mx.Pair.amountOut p.st.total amt (p.st.rin d) (p.st.rout d) ∧
          g.amt ≤ out ∧ 0 < out ∧ out < p.st.rout d ∧ resid = 0) ∨
       (g.kind = .fixedOut ∧ out = g.amt ∧
          Mx.Pair.amountIn p.st.total g.amt (p.st.rin d) (p.st.rout d) ≤ amt ∧
          resid = amt - Mx.Pair.amountIn p.st.total g.amt (p.st.rin d) (p.st.rout d))) := by
  obtain ⟨_, p, d, hp, hd, hk⟩ := pairResp_spec h
  rcases hk with ⟨hk, st', po, hs, h1, h2, _⟩ | ⟨hk, st', po, hs, h1, h2, _⟩
  · obtain ⟨_, _, _, _, hact, _, ho, hmin, hlt, hne, _⟩ := Mx.Pair.swapIn_spec hs
    refine ⟨p, d, hp, hd, hact, Or.inl ⟨hk, ?_, ?_, ?_, ?_, h2⟩⟩
    · rw [h1, ho]
    · rw [h1]; exact hmin
    · rw [h1]; exact Nat.pos_of_ne_zero hne
    · rw [h1]; exact hlt
  · obtain ⟨_, _, _, _, hact, _, _, ho, hle, _⟩ := Mx.Pair.swapOut_spec hs
    refine ⟨p, d, hp, hd, hact, Or.inr ⟨hk, ?_, ?_, ?_⟩⟩
    · rw [h1, ho]
    · have := hle; rw [ho] at this; exact this
    · rw [h2, ho]

/-! ### swaps enabled by the user (`EnableSwapByUserModule`) -/

/-- A successful `setSwapEnabledByUser(a)` by `c` paying `amount` LOCKED tokens of class `k`
    implies: the router is active; `a` passes `check_is_pair_sc` (on reachable states: is in the
    registry — `enable_by_user_registered`); the pair's state before the call is PartialActive
    (initial liquidity added, swaps not yet enabled — in particular NOT Inactive / paused and not
    Active); the caller is the pair's initial liquidity adder; the payment is a positive amount the
    caller owns of the locked token configured for the pair's common token (first pool token if
    whitelisted, else the second if whitelisted) and it wraps exactly this pair's LP token; its
    value in the common token — the pair's own `getTokensForGivenPosition(amount)` — reaches the
    configured minimum; and the remaining lock `unlock − now` (0 once passed) reaches the
    configured minimum period. -/
theorem enable_by_user_requires {s s' : St} {c a : Addr} {k : LTok} {amount : Nat} {o : Out}
    (h : step s (.enableByUser c a k amount) = some (s', o)) :
    s.active = true ∧ checkIsPairSc s.pairMap s.pairs a = some () ∧
    ∃ p common cfg, s.pairs a = some p ∧
      p.st.status = .partialActive ∧
      p.st.adder = some c ∧
      0 < amount ∧ amount ≤ s.lbal c k ∧
      s.enableCfg common = some cfg ∧ k.coll = cfg.lockedTok ∧ k.orig = a ∧
      ((p.t1 ∈ s.commonToks ∧ common = p.t1 ∧
          cfg.minValue ≤ (Mx.Pair.viewTokensForPosition p.st amount).1) ∨
       (p.t1 ∉ s.commonToks ∧ p.t2 ∈ s.commonToks ∧ common = p.t2 ∧
          cfg.minValue ≤ (Mx.Pair.viewTokensForPosition p.st amount).2)) ∧
      cfg.minPeriod ≤ k.unlock - s.epoch := by
  obtain ⟨h0, hb, h1, hc, p, cv, cfg, hp, h2, h3, hcv, hcfg, h4, h5, h6, h7, _, _⟩ :=
    enableByUser_spec h
  have hper : cfg.minPeriod ≤ k.unlock - s.epoch := by
    unfold lockedEpochs at h6
    split at h6
    · exact h6
    · exact Nat.le_trans h6 (Nat.zero_le _)
  refine ⟨h1, hc, p, cv.1, cfg, hp, h2, h7, h0, hb, hcfg, h4, h3, ?_, hper⟩
  rcases lpValue_spec hcv with ⟨hw, rfl⟩ | ⟨hw1, hw2, rfl⟩
  · exact Or.inl ⟨hw, rfl, h5⟩
  · exact Or.inr ⟨hw1, hw2, rfl, h5⟩

/-- … and on every reachable state that means: the pair is registered in the router -/
theorem enable_by_user_registered (owner self : Addr) (template : Bool) (foreign : List PairRec)
    (funds : Addr → Nat → Nat) (ops : List Op) {s' : St} {c a : Addr} {k : LTok} {amount : Nat}
    {o : Out}
    (h : step (run (init owner self template foreign funds) ops) (.enableByUser c a k amount)
      = some (s', o)) :
    a ∈ (run (init owner self template foreign funds) ops).pairMap.map Prod.snd :=
  (checkIsPairSc_iff_mem (run_inv ops (inv_init owner self template foreign funds)) a).mp
    (enable_by_user_requires h).2.1

/-- The effect of a successful `setSwapEnabledByUser(a)`: the pair is Active with fee percents
    (USER_DEFINED_TOTAL_FEE_PERCENT, DEFAULT_SPECIAL_FEE_PERCENT) = (1000, 50) and nothing else
    about it changes (reserves, supply, balances, fee destinations); no other pair changes; the
    caller gets the locked tokens back in full — every LOCKED balance of every account, the
    router's included, is what it was — and the output names exactly that payment; the router's
    pool-token balances, the accounts' balances, the registry and the router's flags and
    configuration are untouched. -/
theorem enable_by_user_effect {s s' : St} {c a : Addr} {k : LTok} {amount : Nat} {o : Out}
    (h : step s (.enableByUser c a k amount) = some (s', o)) :
    ∃ p, s.pairs a = some p ∧
      s'.pairs a = some { p with st := { p.st with total := 1000, special := 50,
                                                   status := .active } } ∧
      (∀ x, x ≠ a → s'.pairs x = s.pairs x) ∧
      o.back = some (k, amount) ∧
      (∀ u k', s'.lbal u k' = s.lbal u k') ∧
      (∀ t, s'.rbal t = s.rbal t) ∧ s'.ubal = s.ubal ∧
      s'.pairMap = s.pairMap ∧ s'.active = s.active ∧ s'.creationEnabled = s.creationEnabled ∧
      s'.commonToks = s.commonToks ∧ s'.enableCfg = s.enableCfg ∧ s'.epoch = s.epoch := by
  obtain ⟨_, _, _, _, p, _, _, hp, _, _, _, _, _, _, _, _, rfl, rfl⟩ := enableByUser_spec h
  refine ⟨p, hp, ?_, ?_, rfl, fun _ _ => rfl, fun _ => rfl, rfl, rfl, rfl, rfl, rfl, rfl, rfl⟩
  · show setPairSt s.pairs a p (enabledSt p.st) a = _
    simp [setPairSt, enabledSt, USER_TOTAL, DEFAULT_SPECIAL]
  · intro x hx
    exact setPairSt_other s.pairs p _ hx

/-- the router adds no failure of its own: when the conditions of `enable_by_user_requires`
    hold the call succeeds -/
theorem enable_by_user_no_extra_failure {s : St} {c a : Addr} {k : LTok} {amount : Nat}
    {p : PairRec} {cv : Tok × Nat} {cfg : EnableCfg}
    (h0 : 0 < amount) (hb : amount ≤ s.lbal c k) (h1 : s.active = true)
    (hc : checkIsPairSc s.pairMap s.pairs a = some ()) (hp : s.pairs a = some p)
    (h2 : p.st.status = .partialActive) (h3 : k.orig = a)
    (hcv : lpValue s.commonToks p amount = some cv) (hcfg : s.enableCfg cv.1 = some cfg)
    (h4 : k.coll = cfg.lockedTok) (h5 : cfg.minValue ≤ cv.2)
    (h6 : cfg.minPeriod ≤ lockedEpochs s.epoch k.unlock) (h7 : p.st.adder = some c) :
    ∃ r, step s (.enableByUser c a k amount) = some r :=
  enableByUser_complete h0 hb h1 hc hp h2 h3 hcv hcfg h4 h5 h6 h7

/-- A paused pair cannot be resumed by a user: while the pair's state is Inactive,
    `setSwapEnabledByUser` fails for every caller and every payment — any amount of any locked
    token class, or any plain token.  (The same holds for an Active pair: only PartialActive
    passes.) -/
theorem paused_not_resumable_by_user {s : St} {a : Addr} {p : PairRec}
    (hp : s.pairs a = some p) (hst : p.st.status ≠ .partialActive) (c : Addr) :
    (∀ k amount, step s (.enableByUser c a k amount) = none) ∧
    (∀ tok amount, step s (.enablePlain c a tok amount) = none) := by
  refine ⟨fun k amount => ?_, fun _ _ => rfl⟩
  cases h : step s (.enableByUser c a k amount) with
  | none => rfl
  | some r =>
    have h' : step s (.enableByUser c a k amount) = some (r.1, r.2) := by rw [h]
    obtain ⟨_, _, q, _, _, hq, hpart, _⟩ := enable_by_user_requires h'
    rw [hp] at hq
    cases hq
    exact absurd hpart hst

/-- Over whole histories: a registered pair that is Inactive and holds liquidity (= paused by the
    owner; a pair without liquidity is still in its bootstrap state, which `addInitialLiquidity`
    is meant to leave) stays Inactive with that liquidity under every continuation `more` of the
    history — any operations by any callers, `setSwapEnabledByUser` included — that does not
    contain the owner's `resume` of that pair. -/
theorem paused_stays_paused (owner self : Addr) (template : Bool) (foreign : List PairRec)
    (funds : Addr → Nat → Nat) (ops more : List Op) (a : Addr)
    (hreg : a ∈ (run (init owner self template foreign funds) ops).pairMap.map Prod.snd)
    (hpa : Paused (run (init owner self template foreign funds) ops).pairs a)
    (hno : Op.resume owner a ∉ more) :
    Paused (run (run (init owner self template foreign funds) ops) more).pairs a := by
  have hi := run_inv ops (inv_init owner self template foreign funds)
  obtain ⟨e, he, rfl⟩ := List.mem_map.mp hreg
  refine run_paused more (hi.lt e he).2 hpa ?_
  rw [run_owner]
  exact hno

/-- only the owner changes the enable-by-user configuration: a step that changes the whitelist
    of common tokens or any per-token config is one of the three configuration endpoints called
    by the owner -/
theorem enable_config_owner_only {s s' : St} {op : Op} {o : Out} (h : step s op = some (s', o))
    (hne : s'.commonToks ≠ s.commonToks ∨ s'.enableCfg ≠ s.enableCfg) :
    (∃ common locked mv mp, op = .configEnable s.owner common locked mv mp) ∨
    (∃ toks, op = .addCommon s.owner toks) ∨ (∃ toks, op = .removeCommon s.owner toks) := by
  have same : s'.commonToks = s.commonToks → s'.enableCfg = s.enableCfg → False := by
    intro h1 h2
    rcases hne with hn | hn
    · exact hn h1
    · exact hn h2
  cases op with
  | configEnable c common locked mv mp =>
    obtain ⟨hc, _⟩ := configEnable_spec h
    exact Or.inl ⟨common, locked, mv, mp, by rw [hc]⟩
  | addCommon c toks =>
    obtain ⟨hc, _⟩ := addCommon_spec h
    exact Or.inr (Or.inl ⟨toks, by rw [hc]⟩)
  | removeCommon c toks =>
    obtain ⟨hc, _⟩ := removeCommon_spec h
    exact Or.inr (Or.inr ⟨toks, by rw [hc]⟩)
  | createPair c t1 t2 ad f =>
    obtain ⟨fp, _, _, _, _, _, _, _, _, _, _, _, rfl⟩ := createPair_spec h
    exact (same rfl rfl).elim
  | removePair c t1 t2 =>
    obtain ⟨_, _, _, _, _, _, _, rfl⟩ := removePair_spec h
    exact (same rfl rfl).elim
  | setCreation c b =>
    obtain ⟨_, rfl⟩ := setCreation_frame h
    exact (same rfl rfl).elim
  | setTemplate c =>
    obtain ⟨_, rfl⟩ := setTemplate_frame h
    exact (same rfl rfl).elim
  | pause c a =>
    obtain ⟨_, h2⟩ := setState_spec h
    rcases h2 with ⟨_, rfl⟩ | ⟨_, _, p, _, rfl⟩ <;> exact (same rfl rfl).elim
  | resume c a =>
    obtain ⟨_, h2⟩ := setState_spec h
    rcases h2 with ⟨_, rfl⟩ | ⟨_, _, p, _, rfl⟩ <;> exact (same rfl rfl).elim
  | setFeeOn c a tok =>
    obtain ⟨_, _, _, p, _, rfl⟩ := setFeeOn_spec h
    exact (same rfl rfl).elim
  | setFeeOff c a i tok =>
    obtain ⟨_, _, _, p, _, _, _, rfl⟩ := setFeeOff_spec h
    exact (same rfl rfl).elim
  | multi c tokIn amount hops =>
    obtain ⟨r, _, _, _, rfl⟩ := multiPairSwap_spec h
    exact (same rfl rfl).elim
  | addInitial u a a1 a2 =>
    simp only [step, addInitial, Option.bind_eq_bind, Option.bind_eq_some_iff, Option.pure_def,
      Option.some.injEq, Prod.mk.injEq] at h
    obtain ⟨p, _, _, _, _, _, r, _, rfl, _⟩ := h
    exact (same rfl rfl).elim
  | addLiq u a a1 a2 m1 m2 =>
    simp only [step, addLiq, Option.bind_eq_bind, Option.bind_eq_some_iff, Option.pure_def,
      Option.some.injEq, Prod.mk.injEq] at h
    obtain ⟨p, _, _, _, r, _, _, _, _, _, rfl, _⟩ := h
    exact (same rfl rfl).elim
  | removeLiq u a lp m1 m2 =>
    simp only [step, removeLiq, Option.bind_eq_bind, Option.bind_eq_some_iff, Option.pure_def,
      Option.some.injEq, Prod.mk.injEq] at h
    obtain ⟨p, _, _, _, r, _, rfl, _⟩ := h
    exact (same rfl rfl).elim
  | swapIn u a ti x tq m =>
    simp only [step, swapIn, Option.bind_eq_bind, Option.bind_eq_some_iff, Option.pure_def,
      Option.some.injEq, Prod.mk.injEq] at h
    obtain ⟨p, _, _, _, _, _, r, _, rfl, _⟩ := h
    exact (same rfl rfl).elim
  | swapOut u a ti mx tq out =>
    simp only [step, swapOut, Option.bind_eq_bind, Option.bind_eq_some_iff, Option.pure_def,
      Option.some.injEq, Prod.mk.injEq] at h
    obtain ⟨p, _, _, _, _, _, r, _, rfl, _⟩ := h
    exact (same rfl rfl).elim
  | enableByUser c a k amount =>
    obtain ⟨_, _, _, _, p, _, _, _, _, _, _, _, _, _, _, _, _, rfl⟩ := enableByUser_spec h
    exact (same rfl rfl).elim
  | enablePlain c a tok amount => cases h
  | lock u coll orig amount unlock =>
    obtain ⟨_, _, _, h4⟩ := lockTokens_spec h
    rcases h4 with ⟨_, rfl, _⟩ | ⟨_, _, rfl⟩ <;> exact (same rfl rfl).elim
  | unlock u k amount =>
    obtain ⟨_, _, _, _, rfl⟩ := unlockTokens_spec h
    exact (same rfl rfl).elim
  | advance e =>
    obtain ⟨_, rfl⟩ := advance_spec h
    exact (same rfl rfl).elim
  | setTmpPeriod c n =>
    obtain ⟨_, _, rfl⟩ := setTmpPeriod_spec h
    exact (same rfl rfl).elim
  | clearTmp c =>
    obtain ⟨_, _, rfl⟩ := clearTmp_spec h
    exact (same rfl rfl).elim
  | issueLp c x =>
    obtain ⟨_, _, _, _, _, _, rfl⟩ := issueLp_spec h
    exact (same rfl rfl).elim
  | setLocalRoles c x =>
    obtain ⟨_, _, _, _, rfl⟩ := setLocalRoles_spec (c := c) h
    exact (same rfl rfl).elim
  | upgradePair c t1 t2 =>
    obtain ⟨_, _, _, _, _, _, _, rfl⟩ := upgradePair_spec h
    exact (same rfl rfl).elim
  | advanceBlock n =>
    obtain ⟨_, _, rfl⟩ := advanceBlock_spec h
    exact (same rfl rfl).elim
  | bareNext b =>
    obtain ⟨_, rfl⟩ := setBareNext_spec h
    exact (same rfl rfl).elim

/-- … and the configuration endpoints themselves: owner only, valid ids, and a per-token config
    only for a whitelisted common token -/
theorem enable_config_guards {s s' : St} {c : Addr} {common locked : Tok} {mv mp : Nat} {o : Out}
    (h : step s (.configEnable c common locked mv mp) = some (s', o)) :
    c = s.owner ∧ validTok common ∧ validTok locked ∧ common ∈ s.commonToks ∧
    s'.enableCfg common = some ⟨locked, mv, mp⟩ ∧
    (∀ t, t ≠ common → s'.enableCfg t = s.enableCfg t) := by
  obtain ⟨h1, h2, h3, h4, rfl⟩ := configEnable_spec h
  exact ⟨h1, h2, h3, h4, upd_same _ _ _, fun t ht => upd_other _ _ ht⟩

/-- a failed call leaves the state untouched (atomicity as modelled) -/
theorem failed_op_no_effect (s : St) (op : Op) (h : step s op = none) : run s [op] = s := by
  simp [run, h]

/-! ### non-vacuity: the hypotheses above are reachable -/

/-- funds of the accounts in the examples -/
def exFunds : Addr → Nat → Nat := fun a t => if a ≤ 100 ∧ 1 ≤ t ∧ t ≤ 3 then 1000000000000 else 0

/-- owner creates (1,2) and (3,2); a non-owner is refused, then allowed once creation is
    enabled, but not for the reversed duplicate (2,1); (3,2) is removed through the reversed
    order -/
def exRegistry : List Op :=
  [.createPair 100 1 2 0 (some (300, 50)), .createPair 100 3 2 0 (some (300, 50)),
   .createPair 1 1 3 0 none, .setCreation 100 true, .createPair 1 2 1 0 none,
   .createPair 1 1 3 0 none, .removePair 100 2 3]

example :
    let s := run (init 100 200 true [foreignPair 1 2 300 50] exFunds) exRegistry
    s.pairMap = [((1, 2), 1000), ((1, 3), 1002)] ∧ getPair s.pairMap 2 1 = 1000 ∧
    getPair s.pairMap 3 2 = 0 ∧
    checkIsPairSc s.pairMap s.pairs 1000 = some () ∧
    checkIsPairSc s.pairMap s.pairs 1001 = none ∧     -- removed pair
    checkIsPairSc s.pairMap s.pairs 900 = none ∧      -- foreign pair with the tokens of pair 1000
    checkIsPairSc s.pairMap s.pairs 1 = none := by    -- not a pair at all
  decide

/-- liquidity on two pairs, then a two-hop swap: fixed input through (1,2), fixed output
    through (3,2); the caller gets a residual in token 2 and the output in token 3 -/
def exSwap : List Op :=
  [.createPair 100 1 2 0 (some (300, 50)), .createPair 100 3 2 0 (some (300, 50)),
   .addInitial 1 1000 1000000 2000000, .addInitial 1 1001 3000000 1000000,
   .resume 100 1000, .resume 100 1001]

example :
    let s := run (init 100 200 true [] exFunds) exSwap
    (step s (.multi 2 1 10000 [⟨1000, .fixedIn, 2, 1⟩, ⟨1001, .fixedOut, 3, 5000⟩])).map
        (fun r => (r.2.pays, r.1.rbal 1, r.1.rbal 2, r.1.rbal 3)) =
      some ([(2, 18068), (3, 5000)], 0, 0, 0) ∧
    -- a hop through an unregistered address, a bad function name, or too tight a bound fails everything
    (step s (.multi 2 1 10000 [⟨1000, .fixedIn, 2, 1⟩, ⟨900, .fixedIn, 3, 1⟩])).isNone = true ∧
    (step s (.multi 2 1 10000 [⟨1000, .bad, 2, 1⟩])).isNone = true ∧
    (step s (.multi 2 1 10000 [⟨1000, .fixedIn, 2, 1⟩, ⟨1001, .fixedOut, 3, 500000⟩])).isNone = true := by
  decide

/-- user 1 is the initial liquidity adder of pair (1,2): the owner whitelists token 2 and asks
    for at least 1 000 000 of it locked for 10 epochs; user 1 adds the initial liquidity, locks
    his LP tokens until epoch 30 in the simple-lock 501 -/
def exEnable : List Op :=
  [.createPair 100 1 2 1 (some (300, 50)), .addInitial 1 1000 3000000 2000000,
   .addCommon 100 [2], .configEnable 100 2 501 1000000 10, .advance 20,
   .lock 1 501 1000 1999000 30]

example :
    let s := run (init 100 200 true [] exFunds) exEnable
    let k : LTok := ⟨501, 1000, 30⟩
    -- the adder enables swaps: Active, fees 1000 / 50, tokens back, router holds nothing
    (step s (.enableByUser 1 1000 k 1999000)).map (fun r =>
        (r.1.pairs 1000).map fun p => (p.st.status, p.st.total, p.st.special)) =
      some (some (.active, 1000, 50)) ∧
    (step s (.enableByUser 1 1000 k 1999000)).map (fun r => (r.1.lbal 1 k, r.1.lbal 200 k)) =
      some (1999000, 0) ∧
    (step s (.enableByUser 1 1000 k 1999000)).map (fun r => r.2.back) = some (some (k, 1999000)) ∧
    -- somebody else, too little value, too short a lock (one epoch later), a plain token: refused
    (step s (.enableByUser 2 1000 k 1999000)).isNone = true ∧
    (step s (.enableByUser 1 1000 k 1000)).isNone = true ∧
    (step (run s [.advance 21]) (.enableByUser 1 1000 k 1999000)).isNone = true ∧
    (step s (.enablePlain 1 1000 1 5000)).isNone = true ∧
    -- a non-owner cannot configure
    (step s (.configEnable 1 2 501 0 0)).isNone = true ∧ (step s (.addCommon 1 [1])).isNone = true ∧
    -- paused by the owner (before or after the user enabled swaps): the adder cannot bring it back
    (step (run s [.pause 100 1000]) (.enableByUser 1 1000 k 1999000)).isNone = true ∧
    (step (run s [.enableByUser 1 1000 k 1999000, .pause 100 1000])
        (.enableByUser 1 1000 k 1999000)).isNone = true ∧
    Paused (run s [.enableByUser 1 1000 k 1999000, .pause 100 1000]).pairs 1000 := by
  refine ⟨by decide, by decide, by decide, by decide, by decide, by decide, by decide, by decide,
    by decide, by decide, by decide, ⟨_, rfl, by decide, by decide⟩⟩

end Mx.C14
