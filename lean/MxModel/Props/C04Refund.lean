/-
  C04 (second file) — the refund side of `addLiquidity` and the burn side of `removeLiquidity`.

  `Out` of `addLiq` = (LP minted, used₁, used₂).  What the caller gets back is the observable
  `Mx.PairDriver.received` (Driver/Pair.lean) that the correspondence run compares, per
  transaction, with the caller's real balance deltas on the contract: for `addLiq` it is
  `(a₁ − used₁, a₂ − used₂)` of the two pool tokens, for `removeLiq` the two withdrawn amounts.
  The theorems below say these are exact (no truncated subtraction), that payment = used +
  refund per token, that the pair's real balance keeps exactly the used part, that one side is
  always used in full, and that `removeLiquidity` burns exactly the LP paid (the pair keeps none).
  They hold in ANY state (no invariant needed), so in particular in every reachable one.
-/
import MxModel.Lemmas.PairK
import MxModel.Driver.Pair

namespace Mx.C04Refund
open Mx.Pair Mx.PairDriver

/-- **refunds of `addLiquidity`.**  For every state and all arguments, if `addLiquidity(m₁,m₂)` with
    payments `(a₁,a₂)` succeeds, the caller receives back `refund_i = a_i − used_i` of each pool
    token (nothing LOCKED), where the subtraction is exact: `used_i + refund_i = a_i`; the pair's
    real balance of each token ends at `old + a_i − refund_i`; and at least one of the two refunds
    is 0 (one side of the deposit is always used in full; on the first deposit both are). -/
theorem addLiq_refunds {s s' : St} {a1 a2 m1 m2 : Nat} {o : Out}
    (h : addLiq s a1 a2 m1 m2 = some (s', o)) :
    received (.addLiq a1 a2 m1 m2) o = (a1 - o.v2, a2 - o.v3, 0, 0) ∧
    o.v2 + (a1 - o.v2) = a1 ∧ o.v3 + (a2 - o.v3) = a2 ∧
    s'.bal1 + (a1 - o.v2) = s.bal1 + a1 ∧ s'.bal2 + (a2 - o.v3) = s.bal2 + a2 ∧
    (a1 - o.v2 = 0 ∨ a2 - o.v3 = 0) := by
  refine ⟨rfl, ?_⟩
  by_cases hS : s.S = 0
  · obtain ⟨_, _, _, _, _, rfl, rfl⟩ := addLiq_first_spec hS h
    simp only []
    omega
  · obtain ⟨o1, o2, _, _, _, _, _, _, _, hopt, rfl, _, _, rfl⟩ := addLiq_spec hS h
    obtain ⟨hcase, _, _⟩ := optimal_spec hopt
    simp only []
    rcases hcase with ⟨c1, rfl, rfl⟩ | ⟨_, c2, rfl, rfl⟩ <;> omega

/-- the LP side of `addLiquidity`: the minted LP all goes to the caller except the 1000 units the
    pair locks on the first deposit: `minted = to_caller + locked`, `locked ∈ {0, 1000}` -/
theorem addLiq_lp_split {s s' : St} {a1 a2 m1 m2 : Nat} {o : Out}
    (h : addLiq s a1 a2 m1 m2 = some (s', o)) :
    s'.lpCirc = s.lpCirc + o.v1 + (s'.lpOwn - s.lpOwn) ∧
    ((s.S ≠ 0 ∧ s'.lpOwn = s.lpOwn) ∨ (s.S = 0 ∧ s'.lpOwn = s.lpOwn + MINLIQ)) := by
  have hM : MINLIQ = 1000 := rfl
  by_cases hS : s.S = 0
  · obtain ⟨_, _, _, _, h5, rfl, rfl⟩ := addLiq_first_spec hS h
    exact ⟨by simp only []; omega, Or.inr ⟨hS, rfl⟩⟩
  · obtain ⟨o1, o2, _, _, _, _, _, _, _, _, rfl, _, _, rfl⟩ := addLiq_spec hS h
    exact ⟨by simp only [St.touch]; omega, Or.inl ⟨hS, rfl⟩⟩

/-- **`removeLiquidity` burns exactly the LP paid** and pays out of the pair's real balances: for
    every state and all arguments, on success the circulating LP and the reported supply both drop
    by exactly the payment `lp` (exact subtraction: `lp ≤` both), the pair keeps none of it
    (`lpOwn` unchanged), the caller receives exactly `(x₁, x₂)` as plain tokens and the pair's real
    balances drop by exactly those amounts. -/
theorem removeLiq_burns_payment {s s' : St} {lp m1 m2 : Nat} {o : Out}
    (h : removeLiq s lp m1 m2 = some (s', o)) :
    received (.removeLiq lp m1 m2) o = (o.v1, o.v2, 0, 0) ∧
    s'.lpCirc + lp = s.lpCirc ∧ s'.S + lp = s.S ∧ s'.lpOwn = s.lpOwn ∧
    s'.bal1 + o.v1 = s.bal1 ∧ s'.bal2 + o.v2 = s.bal2 ∧
    s'.r1 + o.v1 = s.r1 ∧ s'.r2 + o.v2 = s.r2 := by
  have hM : MINLIQ = 1000 := rfl
  refine ⟨rfl, ?_⟩
  obtain ⟨_, _, _, _, h5, rfl, _, _, h9, _, _, h12, h13, h14, h15, rfl⟩ := removeLiq_spec h
  exact ⟨Nat.sub_add_cancel h13, Nat.sub_add_cancel (by omega), rfl, Nat.sub_add_cancel h14,
    Nat.sub_add_cancel h15, Nat.sub_add_cancel (Nat.le_of_lt h9), Nat.sub_add_cancel (Nat.le_of_lt h12)⟩

/-- over any history the LP ledger stays closed: reported supply = LP in circulation, of which the
    pair itself holds exactly the locked floor (0 before the first deposit, 1000 ever after) — so
    everything minted by `addLiquidity` beyond the floor is held by accounts and everything paid to
    `removeLiquidity` is gone -/
theorem lp_ledger_run (total special : Nat) (adder : Option Nat) (cap : Nat) (ops : List Op) :
    let s := run (init total special adder cap) ops
    s.S = s.lpCirc ∧ s.lpOwn ≤ s.lpCirc ∧ (s.S = 0 → s.lpOwn = 0) ∧ (0 < s.S → s.lpOwn = MINLIQ) := by
  intro s
  have hi : Inv s := run_inv ops (inv_init total special adder cap)
  refine ⟨hi.supply, ?_, hi.ownZero, hi.ownPos⟩
  rcases Nat.eq_zero_or_pos s.S with h0 | h0
  · rw [hi.ownZero h0]; exact Nat.zero_le _
  · rw [hi.ownPos h0, ← hi.supply]; exact (hi.pos h0).2.2

/-- non-vacuity: a skewed deposit is refunded on the over-supplied side only, a removal burns its
    payment -/
example :
    let s0 := run (init 300 50 none 8) [.cfg (.setState .active), .addLiq 5000 7000 1 1]
    (addLiq s0 100 1000 1 1).map (fun r => received (.addLiq 100 1000 1 1) r.2) = some (0, 860, 0, 0) ∧
    (addLiq s0 1000 100 1 1).map (fun r => received (.addLiq 1000 100 1 1) r.2) = some (929, 0, 0, 0) ∧
    (removeLiq s0 4000 1 1).map (fun r => (r.1.lpCirc, r.1.lpOwn, received (.removeLiq 4000 1 1) r.2))
      = some (1000, 1000, (4000, 5600, 0, 0)) := by
  decide

end Mx.C04Refund
