/-
  C09 — the per-operation statement of token-unstake `cancelUnbond` (audit session 4, item 14).

  A successful `cancelUnbond` by `c`
   (i)   empties `c`'s unbond queue and leaves every other queue alone;
   (ii)  returns exactly the locked tokens of the pending entries, nonce by nonce, from the
         token-unstake account to `c` (penalty part included — cancelling refunds the penalty);
   (iii) burns exactly Σ `unlocked` — the base tokens `unlockEarly` minted into token-unstake for
         these entries: token-unstake's base balance, the base supply and the `burnCancel`
         ledger move by exactly that;
   (iv)  writes `c`'s energy record = current view + Σ per entry of `amount·(unlock − now)` while
         the token is still locked, `−amount·(now − unlock)` once it is past its unlock epoch,
         and total locked + Σ `locked`;
   (v)   penalty ledgers: nothing is burned or sent to the fees collector (`penBurned`,
         `collected` unchanged); the ghost "penalties pending in the unbond queue" drops by
         exactly Σ (`locked` − `unlocked`) — the brief's "penalty ledgers unchanged" is true of the
         two counters, not of the pending amount;
   (vi)  guards: fails iff nothing is pending, or the factory is paused (`revertUnstake` has
         `require_not_paused`), or the per-entry loop fails (a bookkeeping underflow).

  Rust: locked-asset/token-unstake/src/cancel_unstake.rs `cancel_unbond` (16–68),
  energy-factory/src/unstake.rs `revert_unstake` (47–52).  Model: `Energy.cancelUnbond`,
  `Energy.cancelEntries`, `Entry.restoreCancel`; loop lemmas in Lemmas/EnergyCancel.lean,
  Lemmas/EnergySupply.lean, Lemmas/EnergyBase.lean.
-/
import MxModel.Lemmas.EnergyCancel

set_option linter.unusedSimpArgs false

namespace Mx.C09Cancel
open Mx.Energy

/-- Σ of a field over the caller's pending entries -/
def sumLocked (q : List UEntry) : Nat := (q.map (·.locked)).sum
def sumUnlocked (q : List UEntry) : Nat := (q.map (·.unlocked)).sum
def sumPenalty (q : List UEntry) : Nat := (q.map (fun e => e.locked - e.unlocked)).sum

/-- the shape of a successful `cancelUnbond`: guards, the loop's result, the final state -/
theorem cancel_shape {s s' : St} {c : Nat} {o : Out} (h : cancelUnbond s c = some (s', o)) :
    s.queue c ≠ [] ∧ s.paused = false ∧
    ∃ s1 e, cancelEntries s c (s.view c) (s.queue c) = some (s1, e) ∧
      s' = { s1 with queue := updO s1.queue c [] }.setEnergy c e ∧
      o = ⟨(s.queue c).length, 0, 0⟩ := by
  simp only [cancelUnbond, Option.bind_eq_bind, Option.bind_eq_some_iff, req_eq_some,
    Option.pure_def, Option.some.injEq, Prod.mk.injEq] at h
  obtain ⟨_, hq, ⟨s1, e⟩, hp, _, hpa, rfl, rfl⟩ := h
  exact ⟨hq, hpa, s1, e, hp, rfl, rfl⟩

/-- **(i) the queue**: every pending entry of the caller is removed (the output counts them);
    nobody else's queue changes -/
theorem cancel_queue {s s' : St} {c : Nat} {o : Out} (h : cancelUnbond s c = some (s', o)) :
    s'.queue c = [] ∧ (∀ a, a ≠ c → s'.queue a = s.queue a) ∧ o.v1 = (s.queue c).length ∧
    0 < (s.queue c).length := by
  obtain ⟨hq, _, s1, e, hp, rfl, rfl⟩ := cancel_shape h
  obtain ⟨_, _, _, r4, _⟩ := cancelEntries_rest _ hp
  refine ⟨?_, fun a ha => ?_, rfl, List.length_pos_iff.mpr hq⟩
  · simp [St.setEnergy, updO_same]
  · simp [St.setEnergy, updO_other _ _ ha, r4]

/-- **(ii) the locked tokens**: for every nonce, the caller's balance rises by exactly the
    `locked` amounts of his pending entries of that nonce, token-unstake's balance falls by the
    same, and no other account's locked tokens move.  (`c ≠ UNSTAKE`: the caller is not the
    token-unstake contract itself.) -/
theorem cancel_returns_locked {s s' : St} {c : Nat} {o : Out} (hc : c ≠ UNSTAKE)
    (h : cancelUnbond s c = some (s', o)) :
    (∀ n, s'.bal c n = s.bal c n + lockedOf (s.queue c) n) ∧
    (∀ n, s'.bal UNSTAKE n + lockedOf (s.queue c) n = s.bal UNSTAKE n) ∧
    (∀ a, a ≠ c → a ≠ UNSTAKE → s'.bal a = s.bal a) ∧
    s'.circ = s.circ + sumLocked (s.queue c) := by
  obtain ⟨_, _, s1, e, hp, rfl, rfl⟩ := cancel_shape h
  obtain ⟨b1, b2, b3⟩ := cancelEntries_bal _ hc hp
  obtain ⟨_, _, _, _, _, _, _, _, _, _, a10, _⟩ := cancelEntries_supply _ hp
  exact ⟨b1, b2, b3, a10⟩

theorem sum_range_add (f g : Nat → Nat) (M : Nat) :
    ((List.range M).map (fun n => f n + g n)).sum =
      ((List.range M).map f).sum + ((List.range M).map g).sum := by
  induction M with
  | zero => rfl
  | succ k ih =>
    simp only [List.range_succ, List.map_append, List.sum_append, List.map_cons, List.map_nil,
      List.sum_cons, List.sum_nil, ih]
    omega

theorem sum_range_ite (a v M : Nat) :
    ((List.range M).map (fun n => if a = n then v else 0)).sum = if a < M then v else 0 := by
  induction M with
  | zero => simp
  | succ k ih =>
    simp only [List.range_succ, List.map_append, List.sum_append, List.map_cons, List.map_nil,
      List.sum_cons, List.sum_nil, ih]
    by_cases h1 : a < k
    · have h2 : a < k + 1 := by omega
      have h3 : ¬ a = k := by omega
      simp [h1, h2, h3]
    · by_cases h4 : a = k
      · subst h4; simp
      · have h2 : ¬ a < k + 1 := by omega
        simp [h1, h2, h4]

/-- summed over nonces: the per-nonce amounts add up to Σ `locked` of the pending entries
    (`lockedOf` only regroups them) -/
theorem lockedOf_total (q : List UEntry) (N : Nat) (hN : ∀ e ∈ q, e.nonce < N) :
    ((List.range N).map (lockedOf q)).sum = sumLocked q := by
  induction q with
  | nil =>
    have h0 : lockedOf [] = fun n => if 0 = n then 0 else 0 := by funext n; simp [lockedOf]
    rw [h0, sum_range_ite]; simp [sumLocked]
  | cons x xs ih =>
    have hx : x.nonce < N := hN x (by simp)
    have ih' := ih (fun e he => hN e (by simp [he]))
    have h1 : lockedOf (x :: xs) =
        fun n => (fun n => if x.nonce = n then x.locked else 0) n + lockedOf xs n := by
      funext n; rfl
    rw [h1, sum_range_add, sum_range_ite, ih']
    simp [hx, sumLocked]

/-- **(iii) the base tokens**: exactly Σ `unlocked` of the pending entries — what `unlockEarly`
    minted into token-unstake for them — is burned: token-unstake's base balance and the base
    supply fall by it, the `burnCancel` ledger rises by it, the mint ledgers and every other
    base balance (the caller's included) stay -/
theorem cancel_burns_unlocked {s s' : St} {c : Nat} {o : Out}
    (h : cancelUnbond s c = some (s', o)) :
    s'.base UNSTAKE + sumUnlocked (s.queue c) = s.base UNSTAKE ∧
    (∀ a, a ≠ UNSTAKE → s'.base a = s.base a) ∧
    s'.baseSupply + sumUnlocked (s.queue c) = s.baseSupply ∧
    s'.burnCancel = s.burnCancel + sumUnlocked (s.queue c) ∧
    s'.mintEarly = s.mintEarly ∧ s'.mintUnlock = s.mintUnlock ∧ s'.burnLock = s.burnLock := by
  obtain ⟨_, _, s1, e, hp, rfl, rfl⟩ := cancel_shape h
  obtain ⟨_, _, a2, a3, a4, _, _, _, a8, a9, _⟩ := cancelEntries_supply _ hp
  obtain ⟨b1, b2⟩ := cancelEntries_base _ hp
  exact ⟨b1, b2, a8, a9, a3, a2, a4⟩

/-- **(iv) the energy**: the caller's stored record becomes his current view plus, per pending
    entry, `+locked·(unlock − now)` if the token is still locked (`now ≤ unlock`) and
    `−locked·(now − unlock)` if it is past its unlock epoch (`restoreDelta`), with the total of
    locked tokens raised by Σ `locked`; it is stamped with the current epoch, so it is also what
    `getEnergyEntryForUser` reports afterwards.  No other account's record changes. -/
theorem cancel_restores_energy {s s' : St} {c : Nat} {o : Out}
    (h : cancelUnbond s c = some (s', o)) :
    ∃ e, s'.energy c = some e ∧ s'.view c = e ∧
      e.E = (s.view c).E + restoreSum s.epoch s.nonces (s.queue c) ∧
      e.T = (s.view c).T + sumLocked (s.queue c) ∧ e.last = s.epoch ∧
      (∀ a, a ≠ c → s'.energy a = s.energy a) ∧ s'.epoch = s.epoch ∧ s'.nonces = s.nonces := by
  obtain ⟨_, _, s1, e, hp, rfl, rfl⟩ := cancel_shape h
  obtain ⟨r1, r2, r3, _⟩ := cancelEntries_rest _ hp
  obtain ⟨e1, e2, e3⟩ := cancelEntries_energy _ hp
  have hl : e.last = s.epoch := by rw [e3]; exact view_last s c
  have hen : ({ s1 with queue := updO s1.queue c [] }.setEnergy c e).energy c = some e := by
    simp [St.setEnergy, updO_same]
  refine ⟨e, hen, ?_, e1, e2, hl, fun a ha => ?_, r1, r2⟩
  · exact view_of_some hen (by rw [hl]; exact r1.symm)
  · simp [St.setEnergy, updO_other _ _ ha, r3]

/-- the closed formula of one entry's contribution, both branches -/
theorem restoreDelta_locked {now amt unlock : Nat} (h : now ≤ unlock) :
    restoreDelta now amt unlock = ((amt * (unlock - now) : Nat) : Int) := by
  simp [restoreDelta, h]

theorem restoreDelta_expired {now amt unlock : Nat} (h : unlock < now) :
    restoreDelta now amt unlock = - ((amt * (now - unlock) : Nat) : Int) := by
  have : ¬ now ≤ unlock := by omega
  simp [restoreDelta, this]

/-- **(v) the penalty ledgers**: a cancellation burns no penalty and sends none to the fees
    collector; the penalties pending in the unbond queue drop by exactly Σ (`locked − unlocked`)
    of the cancelled entries (they return to the caller inside the locked tokens), and every
    entry had `unlocked ≤ locked`, so Σ `unlocked` + Σ penalty = Σ `locked` -/
theorem cancel_penalty_ledgers {s s' : St} {c : Nat} {o : Out}
    (h : cancelUnbond s c = some (s', o)) :
    s'.penBurned = s.penBurned ∧ s'.collected = s.collected ∧
    s'.pendingPenalty + sumPenalty (s.queue c) = s.pendingPenalty ∧
    sumUnlocked (s.queue c) + sumPenalty (s.queue c) = sumLocked (s.queue c) := by
  obtain ⟨_, _, s1, e, hp, rfl, rfl⟩ := cancel_shape h
  obtain ⟨_, _, _, _, _, _, a6, a7, _, _, _, a11, a12⟩ := cancelEntries_supply _ hp
  exact ⟨a6, a7, a11, sum_sub_le _ a12⟩

/-- **(vi) the guards**: `cancelUnbond` fails exactly when nothing is pending, or the energy
    factory is paused, or the per-entry loop fails -/
theorem cancel_fails_iff (s : St) (c : Nat) :
    cancelUnbond s c = none ↔
      s.queue c = [] ∨ s.paused = true ∨ cancelEntries s c (s.view c) (s.queue c) = none := by
  unfold cancelUnbond
  by_cases hq : s.queue c = []
  · simp [req, hq]
  · cases hl : cancelEntries s c (s.view c) (s.queue c) with
    | none => simp [req, hq, hl]
    | some r =>
      obtain ⟨s1, e⟩ := r
      cases hp : s.paused <;> simp [req, hq, hl, hp]

/-- the loop's own guards, entry by entry: the nonce exists, token-unstake holds the locked
    tokens and the base tokens of the entry, the supply / pending-penalty counters cover them and
    `unlocked ≤ locked` (all bookkeeping facts about an entry `unlockEarly` created) -/
theorem cancelEntries_cons_some_iff (s : St) (c : Nat) (e : Entry) (q : UEntry) (qs : List UEntry) :
    (cancelEntries s c e (q :: qs)).isSome = true ↔
      ∃ u, s.unlockOf q.nonce = some u ∧ q.locked ≤ s.bal UNSTAKE q.nonce ∧
        q.unlocked ≤ s.base UNSTAKE ∧ q.unlocked ≤ s.baseSupply ∧ q.unlocked ≤ q.locked ∧
        q.locked - q.unlocked ≤ s.pendingPenalty ∧
        (cancelEntries
          ({ s with bal := upd2 s.bal UNSTAKE q.nonce (s.bal UNSTAKE q.nonce - q.locked),
                    base := upd s.base UNSTAKE (s.base UNSTAKE - q.unlocked),
                    baseSupply := s.baseSupply - q.unlocked,
                    burnCancel := s.burnCancel + q.unlocked,
                    circ := s.circ + q.locked,
                    pendingPenalty := s.pendingPenalty - (q.locked - q.unlocked) }.credit c q.nonce q.locked)
          c (e.restoreCancel q.locked u s.epoch) qs).isSome = true := by
  constructor
  · intro h
    obtain ⟨⟨s2, e2⟩, hd⟩ := Option.isSome_iff_exists.1 h
    simp only [cancelEntries, Option.bind_eq_bind, Option.bind_eq_some_iff, sub?_eq_some] at hd
    obtain ⟨u, hu, s1, hdeb, b, ⟨h1, rfl⟩, bs, ⟨h2, rfl⟩, pen, ⟨h3, rfl⟩, pp, ⟨h4, rfl⟩, hrec⟩ := hd
    obtain ⟨h0, rfl⟩ := debit_spec hdeb
    exact ⟨u, hu, h0, h1, h2, h3, h4, by rw [hrec]; rfl⟩
  · rintro ⟨u, hu, h0, h1, h2, h3, h4, hrec⟩
    simp only [cancelEntries, St.debit, sub?, Option.bind_eq_bind, hu, h0, Option.bind_some, if_true,
      Option.pure_def]
    have h1' : q.unlocked ≤ s.base UNSTAKE := h1
    simp only [h1', h2, h3, h4, if_true, Option.bind_some]
    exact hrec

/-! ### non-vacuity: two pending entries, one of them past its unlock epoch -/

/-- deployment of `Props/C09.lean`'s example -/
def exCfg : Cfg := { epoch := 5, opts := [(360, 4000), (720, 6000), (1440, 8000)], unbond := 10,
                     burnPct := 2500, minLock := 4, cooldown := 6, users := 2, funds := 1000000 }

/-- user 1 locks 100000 until epoch 1440 (nonce 1) and 50000 until epoch 360 (nonce 2), at epoch
    340 unlocks 10000 of the first (penalty 7055) and 5000 of the second (penalty 111) early; now
    epoch 365: both entries still pending, nonce 2 is PAST its unlock epoch -/
def exPending : St := run (init exCfg)
  [.lock 1 100000 1440 0, .lock 1 50000 360 0, .advance 340, .unlockEarly 1 1 10000,
   .unlockEarly 1 2 5000, .advance 365]

set_option maxRecDepth 8000 in
/-- the hypotheses of every theorem above are met and their conclusions show: both entries leave
    the queue, 10000 + 5000 locked tokens return, 2945 + 4889 = 7834 base tokens are burned,
    the pending penalty 7166 vanishes with nothing burned or collected, and the energy moves by
    `10000·(1440−365) − 5000·(365−360)` = 10750000 − 25000 -/
example :
    let s := exPending
    s.queue 1 = [⟨350, 1, 10000, 2945⟩, ⟨350, 2, 5000, 4889⟩] ∧ s.nonces = [1440, 360] ∧
    s.pendingPenalty = 7166 ∧ s.base UNSTAKE = 7834 ∧ (s.view 1).E = 96525000 ∧
    restoreSum s.epoch s.nonces (s.queue 1) = 10750000 - 25000 ∧
    lockedOf (s.queue 1) 1 = 10000 ∧ lockedOf (s.queue 1) 2 = 5000 ∧
    sumUnlocked (s.queue 1) = 7834 ∧ sumPenalty (s.queue 1) = 7166 := by
  decide

set_option maxRecDepth 8000 in
/-- … and the successful call on that state, observable by observable -/
example :
    (cancelUnbond exPending 1).map (fun r =>
        (r.1.queue 1, r.1.bal 1 1, r.1.bal 1 2, r.1.bal UNSTAKE 1, r.1.bal UNSTAKE 2, r.2)) =
      some (([] : List UEntry), 100000, 50000, 0, 0, Out.mk 2 0 0) := by
  decide

set_option maxRecDepth 8000 in
example :
    (cancelUnbond exPending 1).map (fun r =>
        (r.1.base UNSTAKE, r.1.baseSupply, r.1.burnCancel, r.1.pendingPenalty, r.1.penBurned,
         r.1.collected)) = some (0, 1850000, 7834, 0, 0, 0) ∧
    (cancelUnbond exPending 1).map (fun r => ((r.1.view 1).E, (r.1.view 1).T)) =
      some (107250000, 150000) := by
  decide

set_option maxRecDepth 8000 in
/-- the guards are live: nothing pending (user 2), a paused factory; and a claim in between
    changes what is left to cancel (matured entries are claimed first: cancel then refunds
    nothing of them) -/
example :
    let s := exPending
    cancelUnbond s 2 = none ∧ s.queue 2 = [] ∧
    (cancelUnbond { s with paused := true } 1).isSome = false ∧
    (cancelUnbond s 1).isSome = true ∧
    (run s [.claim 1]).queue 1 = [] ∧ (cancelUnbond (run s [.claim 1]) 1).isSome = false := by
  decide

end Mx.C09Cancel
