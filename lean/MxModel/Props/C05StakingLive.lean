/-
  C05 (farm-staking side) — "no legitimate call fails because an internal counter would go
  negative": LIVENESS of `unstakeFarm` and `claimRewards` (audit gap 22).

  Model: Core/Staking.lean (`unstakeCore` = `unstake_farm_common`, `claimCore` =
  `claim_rewards_base_no_farm_token_mint` + `claim_rewards_common`).

  Guards and checked subtractions of `unstakeFarm` in the code (unstake_farm.rs, exit_farm.rs,
  base_impl_wrapper.rs) and how each is met:
    1. the sender is an account; an `opt_original_caller` may only be named by a whitelisted
       address                                           — hypotheses of the statement (legitimacy);
    2. the payment is non-zero and the sender holds it    — hypotheses (`0 < x`, `x ≤ hold c n`);
    3. `state == Active`                                  — hypothesis;
    4. the token decodes as a staking position            — hypothesis (`md n = some (.pos att)`);
    5. `generate_aggregated_rewards`: `accumulated ≤ capacity`, boosted slice ≤ total
                                                          — DISCHARGED (`Inv.acc_le`, `Inv.pct_le`);
    6. `into_part`: `rule_of_three` divides by the recorded amount
                                                          — DISCHARGED (new invariant `AmtInv`:
                                                            units outstanding ≤ recorded amount, so the
                                                            recorded amount of a held position is > 0);
    7. `claim_boosted_yields_rewards(orig)` (`claim_multi` of the weekly-rewards module)
                                                          — HYPOTHESIS (weekly module);
    8. `reward_reserve −= base + boosted`                 — DISCHARGED (`PotInv`, `BoostInv`, `Inv`:
                                                            `Lemmas/StakingLive.lean` `reward_covered`);
    9. `decrease_user_farm_position`                      — saturating in the code, cannot fail;
   10. `farm_token_supply −= amount`                      — DISCHARGED (`PosInv`: supply = Σ units);
   11. `clear_user_energy_if_needed(orig)`                — HYPOTHESIS (weekly module);
   12. the unbond SFT is created with a non-zero quantity — DISCHARGED (`x > 0`);
   13. the reward is sent out of the contract's balance   — DISCHARGED under the proxy discipline
                                                            `discRun P` (`Inv.bal_eq`, `UnbInv`,
                                                            `VirtOK`: reserve ≤ balance).
  `claimRewards`: the same 1–8 and 13, plus `check_and_update_user_farm_position` (total: the
  token is a position), the new position's non-zero amount (`x > 0`), and the final
  `update_energy_and_progress(orig)` — a second HYPOTHESIS on the weekly module.

  The proxy discipline (Props/C12Ledger.lean) is needed for 13 only: an undisciplined whitelisted
  address can make `virt > supply` (`C12Ledger.undisciplined_proxy_drains_capacity`) and then the
  balance no longer contains the reserve.  Deployments without whitelisted contracts need no
  hypothesis on the history (`…_no_proxy`).

  The weekly-module hypotheses are about the state `s1` that the settlement produces, which the
  theorems exhibit.  They are discharged unconditionally for deployments that never configured
  boosted yields (`…_always_succeeds_no_boost`, section 3), using the weekly module's global
  invariant `Weekly.GInv`, proved here for every reachable staking state (`weekly_invariant`).

  Lemmas: Lemmas/StakingLive.lean.  Only property theorems live here.
-/
import MxModel.Lemmas.StakingLive
import MxModel.Props.C12Ledger

namespace Mx.C05StakingLive
open Mx.Staking Mx.Weekly
open Mx.C12Ledger (reach discRun_nil)

/-- every state reached under the proxy discipline satisfies the invariants of the liveness lemmas -/
theorem reach_live (epoch block dsc maxApr minUnbond perBlock : Nat) (accts wl P : List Nat)
    (ops : List Op) (hdsc : 0 < dsc)
    (hd : discRun P (init epoch block dsc maxApr minUnbond perBlock accts wl) ops = true) :
    LiveInv P (reach epoch block dsc maxApr minUnbond perBlock accts wl ops) := by
  have hP0 := posInv_init epoch block dsc maxApr minUnbond perBlock accts wl
  exact
    { inv := run_inv ops (inv_init epoch block dsc maxApr minUnbond perBlock accts wl)
      pos := run_posInv ops hP0
      pot := run_potInv ops hP0 (potInv_init epoch block dsc maxApr minUnbond perBlock accts wl)
      boost := run_boostInv ops (boostInv_init epoch block dsc maxApr minUnbond perBlock accts wl)
      unb := run_unbInv ops hP0 (unbInv_init epoch block dsc maxApr minUnbond perBlock accts wl)
      virt := run_virtOK ops hP0 (virtOK_init P epoch block dsc maxApr minUnbond perBlock accts wl) hd
      amt := run_amtInv ops hP0 (amtInv_init epoch block dsc maxApr minUnbond perBlock accts wl)
      dsc := by show 0 < (run _ ops).dsc; rw [run_dsc]; exact hdsc }

/-- **recorded amounts bound what is outstanding** (new invariant, all histories): in every
    reachable state the units of a position nonce held by all accounts together never exceed the
    `amount` written in the nonce's attributes — so `into_part` never divides by zero for a token
    somebody holds -/
theorem outstanding_le_recorded (epoch block dsc maxApr minUnbond perBlock : Nat) (accts wl : List Nat)
    (ops : List Op) (n : Nat) (att : Attrs) :
    let s := reach epoch block dsc maxApr minUnbond perBlock accts wl ops
    s.md n = some (.pos att) → (s.accts.dedup.map fun a => s.hold a n).sum ≤ att.amount := by
  intro s hm
  have hP0 := posInv_init epoch block dsc maxApr minUnbond perBlock accts wl
  exact run_amtInv ops hP0 (amtInv_init epoch block dsc maxApr minUnbond perBlock accts wl)
    n att (posOf_of_md hm)

/-! ### 1. unstake -/

/-- **unstake_succeeds_for** (every legitimate sender).  Every state `s` reached from a fresh
    deployment (any parameters, non-zero division-safety constant) by a history that obeys the
    proxy discipline for `P`; the contract is active; account `c` holds `x > 0` units of the
    staking position `n`; `c` sends `unstakeFarm` for itself (`opt = none`) or, being on the SC
    whitelist, names any original caller (`opt = some orig`).  Then the settlement succeeds — call
    its result `s1`, `c1` — and AS SOON AS the two calls into the weekly-rewards module succeed
    (the boosted claim of the original caller on `s1`, and `clear_user_energy_if_needed` on the
    state with the owner's total decreased), the transaction SUCCEEDS: it mints an unbond token
    (`o.a` = the next nonce) of exactly `x` units to `c`, unlocking at `epoch + minUnbondEpochs`,
    and pays `o.c` = base reward of the `x` units at the settled index + the boosted reward.
    Every other guard and checked subtraction of the endpoint is discharged by invariants (see
    the list in the header). -/
theorem unstake_succeeds_for (epoch block dsc maxApr minUnbond perBlock : Nat)
    (accts wl P : List Nat) (ops : List Op) (hdsc : 0 < dsc)
    (hd : discRun P (init epoch block dsc maxApr minUnbond perBlock accts wl) ops = true)
    (c : Nat) (opt : Option Nat) (n x : Nat) (att : Attrs) :
    let s := reach epoch block dsc maxApr minUnbond perBlock accts wl ops
    s.active = true → s.md n = some (.pos att) → 0 < x → x ≤ s.hold c n →
    (opt = none ∨ c ∈ s.whitelist) →
    ∃ s1 c1, generate s s.cache = some (s1, c1) ∧
      ∀ r, claimBoostedYields s1 (opt.getD c) (s1.userTotal (opt.getD c)) = some r →
        (clearEnergyIfNeeded
          { s1 with userTotal := decreaseUT s1.userTotal att.owner x, b := r.2.1 } r.1 (opt.getD c)).isSome
            = true →
        ∃ s' o, step s (.unstake c opt (n, x)) = some (s', o) ∧
          o.a = s.nonce + 1 ∧ o.b = x ∧
          o.c = (if att.rps < s'.rps then x * (s'.rps - att.rps) / s'.dsc else 0) + r.2.2 ∧
          s'.md o.a = some (.unbond (s.epoch + s.minUnbond)) ∧ s'.hold c o.a = x := by
  intro s hact hm hx hh hw
  have hL := reach_live epoch block dsc maxApr minUnbond perBlock accts wl P ops hdsc hd
  have hne : s.hold c n ≠ 0 := by omega
  have hc : c ∈ s.accts := (PosInv.domain hL.pos hne).1
  refine ⟨genSt s, genCache s s.cache, generate_ok s.cache hL.inv.acc_le hL.inv.pct_le, fun r hr hcl => ?_⟩
  have hsome := unstakeCore_ok hL hact hm hx hh hr hcl
  obtain ⟨⟨s', o⟩, hs'⟩ := Option.isSome_iff_exists.mp hsome
  obtain ⟨_, u2, u3, u4, u5, _, _, _⟩ := unstakeCore_unbond hs'
  obtain ⟨attrs, tok, r', ha', htok, hr', hoc, _⟩ := unstakeCore_reward hs'
  have e1 : attrs = att := by
    have := posOf_of_md hm
    rw [this] at ha'
    exact (Option.some.inj ha').symm
  have e2 : r' = r := by
    rw [show claimBoostedYields (genSt s) (opt.getD c) ((genSt s).userTotal (opt.getD c)) = some r from hr] at hr'
    exact (Option.some.inj hr').symm
  obtain ⟨t1, _, _, _⟩ := intoPart_spec htok
  refine ⟨s', o, ?_, u4, u5, ?_, ?_, ?_⟩
  · rw [step_unstake_eq hc hw]; exact hs'
  · rw [hoc, t1, e1, e2]
  · rw [u4]; exact u2
  · rw [u4]; exact u3

/-- **unstake_succeeds** — the holder unstakes for itself (`unstake_succeeds_for` with no original
    caller named): in every reachable state of an active contract, whoever holds `x > 0` units of
    a position can unstake them unless the weekly-rewards module aborts; the unbond token carries
    `x` units and unlocks at `epoch + minUnbondEpochs`. -/
theorem unstake_succeeds (epoch block dsc maxApr minUnbond perBlock : Nat)
    (accts wl P : List Nat) (ops : List Op) (hdsc : 0 < dsc)
    (hd : discRun P (init epoch block dsc maxApr minUnbond perBlock accts wl) ops = true)
    (c n x : Nat) (att : Attrs) :
    let s := reach epoch block dsc maxApr minUnbond perBlock accts wl ops
    s.active = true → s.md n = some (.pos att) → 0 < x → x ≤ s.hold c n →
    ∃ s1 c1, generate s s.cache = some (s1, c1) ∧
      ∀ r, claimBoostedYields s1 c (s1.userTotal c) = some r →
        (clearEnergyIfNeeded
          { s1 with userTotal := decreaseUT s1.userTotal att.owner x, b := r.2.1 } r.1 c).isSome = true →
        ∃ s' o, step s (.unstake c none (n, x)) = some (s', o) ∧
          o.a = s.nonce + 1 ∧ o.b = x ∧
          o.c = (if att.rps < s'.rps then x * (s'.rps - att.rps) / s'.dsc else 0) + r.2.2 ∧
          s'.md o.a = some (.unbond (s.epoch + s.minUnbond)) ∧ s'.hold c o.a = x := by
  intro s hact hm hx hh
  exact unstake_succeeds_for epoch block dsc maxApr minUnbond perBlock accts wl P ops hdsc hd
    c none n x att hact hm hx hh (Or.inl rfl)

/-- `unstake_succeeds_for` for a deployment without whitelisted contracts: no hypothesis on the
    history at all -/
theorem unstake_succeeds_no_proxy (epoch block dsc maxApr minUnbond perBlock : Nat)
    (accts : List Nat) (ops : List Op) (hdsc : 0 < dsc) (c n x : Nat) (att : Attrs) :
    let s := reach epoch block dsc maxApr minUnbond perBlock accts [] ops
    s.active = true → s.md n = some (.pos att) → 0 < x → x ≤ s.hold c n →
    ∃ s1 c1, generate s s.cache = some (s1, c1) ∧
      ∀ r, claimBoostedYields s1 c (s1.userTotal c) = some r →
        (clearEnergyIfNeeded
          { s1 with userTotal := decreaseUT s1.userTotal att.owner x, b := r.2.1 } r.1 c).isSome = true →
        ∃ s' o, step s (.unstake c none (n, x)) = some (s', o) ∧
          o.a = s.nonce + 1 ∧ o.b = x ∧
          o.c = (if att.rps < s'.rps then x * (s'.rps - att.rps) / s'.dsc else 0) + r.2.2 ∧
          s'.md o.a = some (.unbond (s.epoch + s.minUnbond)) ∧ s'.hold c o.a = x :=
  unstake_succeeds epoch block dsc maxApr minUnbond perBlock accts [] [] ops hdsc
    (discRun_nil ops _ rfl) c n x att

/-- the FULL clause for unstake: no hypothesis on the weekly-rewards module.
    STATUS: not proved.  `unstake_succeeds_for` is the partial statement (`…_partial` in the sense
    of CONTRIBUTING: everything except the weekly module).  Missing for the staking world: the
    weekly module's global invariant `Weekly.GInv` and energy bound `Weekly.EB` transported through
    the staking operations (farm analogue Lemmas/FarmEnergy.lean `WInv`), the week budget with
    payments (farm analogue Lemmas/FarmWeekPaid.lean) that bounds `remaining(week) − reward` inside
    `claim_multi`, and well-formedness of the stored boosted-yields config (`BCfg.update`,
    `factorsForWeek` succeed; farm analogue `Lemmas/FarmWeekLive.lean` `cfg_update_ok`). -/
def unstake_always_succeeds_full : Prop :=
  ∀ (epoch block dsc maxApr minUnbond perBlock : Nat) (accts wl P : List Nat) (ops : List Op),
    0 < dsc → discRun P (init epoch block dsc maxApr minUnbond perBlock accts wl) ops = true →
    ∀ (c : Nat) (opt : Option Nat) (n x : Nat) (att : Attrs),
      let s := reach epoch block dsc maxApr minUnbond perBlock accts wl ops
      s.active = true → s.md n = some (.pos att) → 0 < x → x ≤ s.hold c n →
      (opt = none ∨ c ∈ s.whitelist) →
      (step s (.unstake c opt (n, x))).isSome = true

/-! ### 2. claim -/

/-- **claim_succeeds_for** (every legitimate sender).  Same quantification as
    `unstake_succeeds_for`: in every state reached under the proxy discipline, on an active
    contract, `c` holds `x > 0` units of the position `n` and sends `claimRewards` with that one
    payment, for itself or — whitelisted — naming an original caller.  The settlement succeeds
    (`s1`, `c1`) and as soon as the two calls into the weekly-rewards module succeed (the boosted
    claim of the original caller on `s1` and the final `update_energy_and_progress`), the
    transaction SUCCEEDS, re-issues the `x` units under the next nonce to `c` and pays
    `o.c` = base reward at the settled index + boosted reward. -/
theorem claim_succeeds_for (epoch block dsc maxApr minUnbond perBlock : Nat)
    (accts wl P : List Nat) (ops : List Op) (hdsc : 0 < dsc)
    (hd : discRun P (init epoch block dsc maxApr minUnbond perBlock accts wl) ops = true)
    (c : Nat) (opt : Option Nat) (n x : Nat) (att : Attrs) :
    let s := reach epoch block dsc maxApr minUnbond perBlock accts wl ops
    s.active = true → s.md n = some (.pos att) → 0 < x → x ≤ s.hold c n →
    (opt = none ∨ c ∈ s.whitelist) →
    ∃ s1 c1, generate s s.cache = some (s1, c1) ∧
      ∀ r, claimBoostedYields s1 (opt.getD c) (s1.userTotal (opt.getD c)) = some r →
        (updateEnergyAndProgress r.1 (opt.getD c) s1.week
          (Energy.queried (s1.energy (opt.getD c)) s1.epoch)).isSome = true →
        ∃ s' o, step s (.claim c opt (n, x)) = some (s', o) ∧
          o.a = s.nonce + 1 ∧ o.b = x ∧
          o.c = (if att.rps < s'.rps then x * (s'.rps - att.rps) / s'.dsc else 0) + r.2.2 ∧
          s'.hold c o.a = x := by
  intro s hact hm hx hh hw
  have hL := reach_live epoch block dsc maxApr minUnbond perBlock accts wl P ops hdsc hd
  have hne : s.hold c n ≠ 0 := by omega
  have hc : c ∈ s.accts := (PosInv.domain hL.pos hne).1
  refine ⟨genSt s, genCache s s.cache, generate_ok s.cache hL.inv.acc_le hL.inv.pct_le, fun r hr hup => ?_⟩
  have hsome := claimCore_ok hL hact hm hx hh hr hup
  obtain ⟨⟨s', o⟩, hs'⟩ := Option.isSome_iff_exists.mp hsome
  obtain ⟨p, first, tok, r', merged, hp, hf, htok, hr', hoc, _, _, hmg, _, _, ua, ub, uh⟩ :=
    claimCore_reward hs'
  have ep : p = (n, x) := by
    simp only [List.head?_cons, Option.some.injEq] at hp
    exact hp.symm
  subst ep
  have e1 : first = att := by
    have := posOf_of_md hm
    rw [this] at hf
    exact (Option.some.inj hf).symm
  have e2 : r' = r := by
    rw [show claimBoostedYields (genSt s) (opt.getD c) ((genSt s).userTotal (opt.getD c)) = some r from hr] at hr'
    exact (Option.some.inj hr').symm
  obtain ⟨t1, _, t3, _⟩ := intoPart_spec htok
  have em : merged.amount = x := by
    simp only [List.tail_cons, mergeParts, Option.some.injEq] at hmg
    rw [← hmg]
    exact t3
  refine ⟨s', o, ?_, ua, ?_, ?_, ?_⟩
  · rw [step_claim_eq hc hw]; exact hs'
  · rw [ub]; exact em
  · rw [hoc, t1, e1, e2]
  · rw [ua, uh]; exact em

/-- **claim_succeeds** — the holder claims for itself -/
theorem claim_succeeds (epoch block dsc maxApr minUnbond perBlock : Nat)
    (accts wl P : List Nat) (ops : List Op) (hdsc : 0 < dsc)
    (hd : discRun P (init epoch block dsc maxApr minUnbond perBlock accts wl) ops = true)
    (c n x : Nat) (att : Attrs) :
    let s := reach epoch block dsc maxApr minUnbond perBlock accts wl ops
    s.active = true → s.md n = some (.pos att) → 0 < x → x ≤ s.hold c n →
    ∃ s1 c1, generate s s.cache = some (s1, c1) ∧
      ∀ r, claimBoostedYields s1 c (s1.userTotal c) = some r →
        (updateEnergyAndProgress r.1 c s1.week (Energy.queried (s1.energy c) s1.epoch)).isSome = true →
        ∃ s' o, step s (.claim c none (n, x)) = some (s', o) ∧
          o.a = s.nonce + 1 ∧ o.b = x ∧
          o.c = (if att.rps < s'.rps then x * (s'.rps - att.rps) / s'.dsc else 0) + r.2.2 ∧
          s'.hold c o.a = x := by
  intro s hact hm hx hh
  exact claim_succeeds_for epoch block dsc maxApr minUnbond perBlock accts wl P ops hdsc hd
    c none n x att hact hm hx hh (Or.inl rfl)

/-- `claim_succeeds` for a deployment without whitelisted contracts: no hypothesis on the history -/
theorem claim_succeeds_no_proxy (epoch block dsc maxApr minUnbond perBlock : Nat)
    (accts : List Nat) (ops : List Op) (hdsc : 0 < dsc) (c n x : Nat) (att : Attrs) :
    let s := reach epoch block dsc maxApr minUnbond perBlock accts [] ops
    s.active = true → s.md n = some (.pos att) → 0 < x → x ≤ s.hold c n →
    ∃ s1 c1, generate s s.cache = some (s1, c1) ∧
      ∀ r, claimBoostedYields s1 c (s1.userTotal c) = some r →
        (updateEnergyAndProgress r.1 c s1.week (Energy.queried (s1.energy c) s1.epoch)).isSome = true →
        ∃ s' o, step s (.claim c none (n, x)) = some (s', o) ∧
          o.a = s.nonce + 1 ∧ o.b = x ∧
          o.c = (if att.rps < s'.rps then x * (s'.rps - att.rps) / s'.dsc else 0) + r.2.2 ∧
          s'.hold c o.a = x :=
  claim_succeeds epoch block dsc maxApr minUnbond perBlock accts [] [] ops hdsc
    (discRun_nil ops _ rfl) c n x att

/-- the FULL clause for claim: no hypothesis on the weekly-rewards module.
    STATUS: not proved; `claim_succeeds_for` is the partial statement.  Missing: as for
    `unstake_always_succeeds_full`. -/
def claim_always_succeeds_full : Prop :=
  ∀ (epoch block dsc maxApr minUnbond perBlock : Nat) (accts wl P : List Nat) (ops : List Op),
    0 < dsc → discRun P (init epoch block dsc maxApr minUnbond perBlock accts wl) ops = true →
    ∀ (c : Nat) (opt : Option Nat) (n x : Nat) (att : Attrs),
      let s := reach epoch block dsc maxApr minUnbond perBlock accts wl ops
      s.active = true → s.md n = some (.pos att) → 0 < x → x ≤ s.hold c n →
      (opt = none ∨ c ∈ s.whitelist) →
      (step s (.claim c opt (n, x))).isSome = true

/-! ### 3. no boosted-yields configuration: unconditional liveness -/

/-- **the weekly module's invariant in the staking world** (new, all histories): in every reachable
    state the embedded weekly-rewards-splitting module satisfies its global invariant
    `Weekly.GInv` (every bucket / total is the sum of the users' lots) and its
    `lastGlobalUpdateWeek` is not ahead of the current week — which is what makes
    `update_user_energy_for_current_week` unable to abort (Lemmas/WeeklyLive.lean). -/
theorem weekly_invariant (epoch block dsc maxApr minUnbond perBlock : Nat) (accts wl : List Nat)
    (ops : List Op) :
    let s := reach epoch block dsc maxApr minUnbond perBlock accts wl ops
    GInv s.w ∧ s.w.lastGlobalUpdateWeek ≤ s.week :=
  run_wl ops (wlInv_init epoch block dsc maxApr minUnbond perBlock accts wl)

/-- `update_energy_and_progress` (endpoint `updateEnergyForUser` for a user without progress, and
    the call inside stake / claim) cannot abort in a reachable state, for any user -/
theorem update_energy_never_aborts (epoch block dsc maxApr minUnbond perBlock : Nat)
    (accts wl : List Nat) (ops : List Op) (u : Nat) (cur : Energy) :
    let s := reach epoch block dsc maxApr minUnbond perBlock accts wl ops
    (updateEnergyAndProgress s.w u s.week cur).isSome = true := by
  intro s
  obtain ⟨h1, h2⟩ := weekly_invariant epoch block dsc maxApr minUnbond perBlock accts wl ops
  exact uep_ok (week_pos s) h1 h2 u cur

/-- **unstake_always_succeeds_no_boost** — the full clause (no hypothesis on the weekly module) for
    states WITHOUT a boosted-yields configuration (`boostedYieldsConfig` empty: e.g. every
    deployment on which `setBoostedYieldsFactors` never succeeded).  In every such state reached
    under the proxy discipline, on an active contract, every legitimate sender holding `x > 0`
    units of a position unstakes them successfully: unbond token of `x` units unlocking at
    `epoch + minUnbondEpochs`, reward = the base reward at the settled index. -/
theorem unstake_always_succeeds_no_boost (epoch block dsc maxApr minUnbond perBlock : Nat)
    (accts wl P : List Nat) (ops : List Op) (hdsc : 0 < dsc)
    (hd : discRun P (init epoch block dsc maxApr minUnbond perBlock accts wl) ops = true)
    (c : Nat) (opt : Option Nat) (n x : Nat) (att : Attrs) :
    let s := reach epoch block dsc maxApr minUnbond perBlock accts wl ops
    s.active = true → s.md n = some (.pos att) → 0 < x → x ≤ s.hold c n →
    (opt = none ∨ c ∈ s.whitelist) → s.b.cfg = none →
    ∃ s' o, step s (.unstake c opt (n, x)) = some (s', o) ∧
      o.a = s.nonce + 1 ∧ o.b = x ∧
      o.c = (if att.rps < s'.rps then x * (s'.rps - att.rps) / s'.dsc else 0) ∧
      s'.md o.a = some (.unbond (s.epoch + s.minUnbond)) ∧ s'.hold c o.a = x := by
  intro s hact hm hx hh hw hcfg
  have hL := reach_live epoch block dsc maxApr minUnbond perBlock accts wl P ops hdsc hd
  have hW : WLInv s := weekly_invariant epoch block dsc maxApr minUnbond perBlock accts wl ops
  obtain ⟨s1, c1, hg, H⟩ := unstake_succeeds_for epoch block dsc maxApr minUnbond perBlock accts wl P
    ops hdsc hd c opt n x att hact hm hx hh hw
  have hg' : generate s s.cache = some (genSt s, genCache s s.cache) :=
    generate_ok s.cache hL.inv.acc_le hL.inv.pct_le
  have hg2 : generate s s.cache = some (s1, c1) := hg
  rw [hg'] at hg2
  obtain ⟨rfl, rfl⟩ := Prod.mk.inj (Option.some.inj hg2)
  obtain ⟨r, hr, hb, hz⟩ := cby_none_ok hW hcfg (opt.getD c) ((genSt s).userTotal (opt.getD c))
  have hcl : (clearEnergyIfNeeded
      { genSt s with userTotal := decreaseUT (genSt s).userTotal att.owner x, b := r.2.1 } r.1
        (opt.getD c)).isSome = true := by
    rw [clear_none_ok (by show r.2.1.cfg = none; rw [hb]; exact hcfg)]
    rfl
  obtain ⟨s', o, h1, h2, h3, h4, h5, h6⟩ := H r hr hcl
  exact ⟨s', o, h1, h2, h3, by rw [h4, hz, Nat.add_zero], h5, h6⟩

/-- **claim_always_succeeds_no_boost** — the same for `claimRewards`: without a boosted-yields
    configuration every legitimate claim of a held position part succeeds in every reachable state
    of an active contract and pays the base reward at the settled index. -/
theorem claim_always_succeeds_no_boost (epoch block dsc maxApr minUnbond perBlock : Nat)
    (accts wl P : List Nat) (ops : List Op) (hdsc : 0 < dsc)
    (hd : discRun P (init epoch block dsc maxApr minUnbond perBlock accts wl) ops = true)
    (c : Nat) (opt : Option Nat) (n x : Nat) (att : Attrs) :
    let s := reach epoch block dsc maxApr minUnbond perBlock accts wl ops
    s.active = true → s.md n = some (.pos att) → 0 < x → x ≤ s.hold c n →
    (opt = none ∨ c ∈ s.whitelist) → s.b.cfg = none →
    ∃ s' o, step s (.claim c opt (n, x)) = some (s', o) ∧
      o.a = s.nonce + 1 ∧ o.b = x ∧
      o.c = (if att.rps < s'.rps then x * (s'.rps - att.rps) / s'.dsc else 0) ∧
      s'.hold c o.a = x := by
  intro s hact hm hx hh hw hcfg
  have hL := reach_live epoch block dsc maxApr minUnbond perBlock accts wl P ops hdsc hd
  have hW : WLInv s := weekly_invariant epoch block dsc maxApr minUnbond perBlock accts wl ops
  obtain ⟨s1, c1, hg, H⟩ := claim_succeeds_for epoch block dsc maxApr minUnbond perBlock accts wl P
    ops hdsc hd c opt n x att hact hm hx hh hw
  have hg' : generate s s.cache = some (genSt s, genCache s s.cache) :=
    generate_ok s.cache hL.inv.acc_le hL.inv.pct_le
  have hg2 : generate s s.cache = some (s1, c1) := hg
  rw [hg'] at hg2
  obtain ⟨rfl, rfl⟩ := Prod.mk.inj (Option.some.inj hg2)
  obtain ⟨r, hr, hb, hz⟩ := cby_none_ok hW hcfg (opt.getD c) ((genSt s).userTotal (opt.getD c))
  obtain ⟨k1, k2⟩ := cby_wl (s := genSt s) hW.1 hr
  have hup : (updateEnergyAndProgress r.1 (opt.getD c) (genSt s).week
      (Energy.queried ((genSt s).energy (opt.getD c)) (genSt s).epoch)).isSome = true :=
    uep_ok (week_pos _) k1 k2 _ _
  obtain ⟨s', o, h1, h2, h3, h4, h5⟩ := H r hr hup
  exact ⟨s', o, h1, h2, h3, by rw [h4, hz, Nat.add_zero], h5⟩

/-- non-vacuity of the `…_no_boost` theorems: no boosted-yields config (boosted percentage 25 %
    nevertheless: the cut accumulates unclaimed), two stakers, a week boundary crossed; user 1
    unstakes / claims 4·10¹⁰ units and is paid the base reward 8250 -/
example :
    let s0 := init 5 10 1000000000000 1000000 5 5000 [1, 2] []
    let ops : List Op :=
      [.topUp 100000000, .setBoostedPct 2500, .setEnergy 1 10000 100,
       .stake 1 none 100000000000 [], .stake 2 none 100000000000 [], .advance 10 0,
       .claimBoosted 1 none, .advance 1 7]
    let s := run s0 ops
    discRun [] s0 ops = true ∧ s.active = true ∧ s.b.cfg = none ∧
    s.md 1 = some (.pos ⟨0, 0, 100000000000, 1⟩) ∧ s.hold 1 1 = 100000000000 ∧
    (step s (.unstake 1 none (1, 40000000000))).map (fun r => (r.2, r.1.md 3, r.1.hold 1 3))
      = some (⟨3, 40000000000, 8250⟩, some (.unbond 17), 40000000000) ∧
    (step s (.claim 1 none (1, 40000000000))).map (·.2) = some ⟨3, 40000000000, 8250⟩ := by
  decide

/-! ### non-vacuity -/

/-- non-vacuity (holder, with a boosted part): two stakers, boosted percentage 25 %, user 1 has
    energy; rewards are settled in week 1, then week 2 begins.  User 1 holds 10¹¹ units of
    position 1; the history is disciplined; both weekly-module calls succeed on the settled state
    and return a boosted reward of 10000; unstaking / claiming 4·10¹⁰ units succeeds and pays
    18250 = 8250 base + 10000 boosted; the unbond token 3 carries 4·10¹⁰ units and unlocks at
    epoch 12 + 5. -/
example :
    let s0 := init 5 10 1000000000000 1000000 5 5000 [1, 2, 101] [101]
    let ops : List Op :=
      [.topUp 100000000, .setBoostedPct 2500, .setFactors ⟨10, 3, 2, 1, 1⟩, .setEnergy 1 10000 100,
       .stake 1 none 100000000000 [], .stake 2 none 100000000000 [], .advance 10 0,
       .claimBoosted 1 none, .advance 1 7]
    let s := run s0 ops
    discRun [101] s0 ops = true ∧ s.active = true ∧ s.md 1 = some (.pos ⟨0, 0, 100000000000, 1⟩) ∧
    s.hold 1 1 = 100000000000 ∧ s.epoch = 12 ∧ s.minUnbond = 5 ∧
    ((generate s s.cache).bind fun g => (claimBoostedYields g.1 1 (g.1.userTotal 1)).map fun r =>
      (r.2.2,
       (clearEnergyIfNeeded { g.1 with userTotal := decreaseUT g.1.userTotal 1 40000000000, b := r.2.1 }
          r.1 1).isSome,
       (updateEnergyAndProgress r.1 1 g.1.week (Energy.queried (g.1.energy 1) g.1.epoch)).isSome))
      = some (10000, true, true) ∧
    (step s (.unstake 1 none (1, 40000000000))).map (fun r => (r.2, r.1.md 3, r.1.hold 1 3))
      = some (⟨3, 40000000000, 18250⟩, some (.unbond 17), 40000000000) ∧
    (step s (.claim 1 none (1, 40000000000))).map (·.2) = some ⟨3, 40000000000, 18250⟩ := by
  decide

/-- non-vacuity (whitelisted sender naming an original caller): the whitelisted contract 101
    staked (really, not virtually) for user 2 and holds the position; it unstakes / claims
    4·10¹⁰ units naming user 2: both succeed and pay user 2's boosted reward -/
example :
    let s0 := init 5 10 1000000000000 1000000 5 5000 [1, 2, 101] [101]
    let ops : List Op :=
      [.topUp 100000000, .setBoostedPct 2500, .setFactors ⟨10, 3, 2, 1, 1⟩, .setEnergy 2 10000 100,
       .stake 1 none 100000000000 [], .stake 101 (some 2) 100000000000 [], .advance 10 0,
       .claimBoosted 1 none, .advance 1 7]
    let s := run s0 ops
    discRun [] s0 ops = true ∧ s.active = true ∧ s.md 2 = some (.pos ⟨0, 0, 100000000000, 2⟩) ∧
    s.hold 101 2 = 100000000000 ∧ 101 ∈ s.whitelist ∧
    (step s (.unstake 101 (some 2) (2, 40000000000))).map (·.2) = some ⟨3, 40000000000, 18250⟩ ∧
    (step s (.claim 101 (some 2) (2, 40000000000))).map (·.2) = some ⟨3, 40000000000, 18250⟩ := by
  decide

/-- **OBSERVATION (the proxy discipline is necessary for liveness; consequence of the known
    trust assumption on the SC whitelist, `C12Ledger.undisciplined_proxy_drains_capacity`).**
    A whitelisted address registers 10¹⁵ + 5000 of VIRTUAL stake (no tokens move), leaves through the
    DIRECT `unstakeFarm` and unbonds: it is paid user 1's principal and the admin's capacity, the
    balance is 0.  Two blocks later user 1 — an honest holder of 10¹⁵ units on an active contract —
    can neither claim nor unstake: the settlement puts 2000 into the reserve, the base reward 2000
    is covered by the reserve, and the transaction fails on the token transfer (guard 13). -/
theorem undisciplined_proxy_blocks_claim :
    let s0 := init 5 10 1000000000000 2500 0 1000 [1, 101] [101]
    let ops : List Op :=
      [.topUp 5000, .stake 1 none 1000000000000000 [], .stakeProxy 101 1 1000000000005000 [],
       .unstake 101 none (2, 1000000000005000), .unbond 101 (3, 1000000000005000), .advance 2 0]
    let s := run s0 ops
    discRun [101] s0 ops = false ∧ s.active = true ∧ s.hold 1 1 = 1000000000000000 ∧ s.bal = 0 ∧
    s.b.cfg = none ∧
    (generate s s.cache).map (fun g => (g.2.reserve, baseReward g.2 s.dsc 1000000000000000
      ⟨0, 0, 1000000000000000, 1⟩)) = some (2000, 2000) ∧
    step s (.claim 1 none (1, 1000000000000000)) = none ∧
    step s (.unstake 1 none (1, 1000000000000000)) = none := by
  decide

end Mx.C05StakingLive
