/-
  KFarmState — the state gate of the farms (dex/farm, farm-with-locked-rewards, farm-staking) as the
  SOURCE states it, against the kill switch `active` of the farm and staking models.

  `Gen/KFarmState.lean` is regenerated on every run by `bin/gen-kernels`:
  * `validate_contract_state` (farm_base_impl/src/base_farm_validation.rs) — the first call of
    `enter_farm_base`, `claim_rewards_base`, `compound_rewards_base`, `exit_farm_base`;
  * `is_active` (farm config) and the guard `require!(self.is_active())` that opens
    `mergeFarmTokens` of dex/farm and of farm-staking (the repaired finding F2).
  `pausable::State` is a plain enum: a value is its variant index (`Inactive` 0, `Active` 1,
  `PartialActive` 2).  The models keep a Bool `active`; `pause` / `resume` store Inactive / Active, so the
  stored index is `stateTag active`.

  This ties `Props/C19Models.farm_paused_blocks_funds` / `staking_paused_blocks_funds` to the source:
  the gate of the source aborts for every state index other than Active, and every fund-moving step
  the models accept passes the source's gate.
-/
import MxModel.Gen.KFarmState
import MxModel.Props.C19Models
import MxModel.Lemmas.KTactic

namespace Mx.KFarmState
open Mx Mx.Gen

/-- the `pausable::State` index a farm stores for its kill switch (`pause` → Inactive, `resume` → Active) -/
def stateTag (active : Bool) : Nat := if active then 1 else 0

/-- source `validate_contract_state`: passes exactly when the state is Active (index 1) and the farm
    token is issued -/
theorem validate_contract_state_eq (n : Nat) (issued : Bool) :
    KFarmState.validate_contract_state n issued =
      if n = 1 ∧ issued = true then some () else none := by
  k_defs [KFarmState.validate_contract_state]
  try k_solve

/-- source `is_active` decides `state == Active`; the `mergeFarmTokens` guards of dex/farm and
    farm-staking pass exactly then -/
theorem merge_guards_eq (n : Nat) :
    KFarmState.is_active n = some (decide (n = 1)) ∧
    KFarmState.farm_merge_guard n = (if n = 1 then some () else none) ∧
    KFarmState.staking_merge_guard n = (if n = 1 then some () else none) := by
  refine ⟨?_, ?_, ?_⟩
  · k_defs [KFarmState.is_active]
  · k_defs [KFarmState.farm_merge_guard, KFarmState.is_active]
    try k_solve
  · k_defs [KFarmState.staking_merge_guard, KFarmState.is_active]
    try k_solve

/-- **paused farm, at the source**: for EVERY state index other than Active (Inactive, PartialActive,
    anything undecodable) the gate of enter / claim / compound / exit and the guard of
    mergeFarmTokens abort, whatever the other inputs -/
theorem source_gate_blocks_unless_active (n : Nat) (issued : Bool) (h : n ≠ 1) :
    KFarmState.validate_contract_state n issued = none ∧
    KFarmState.farm_merge_guard n = none ∧ KFarmState.staking_merge_guard n = none := by
  rw [validate_contract_state_eq, (merge_guards_eq n).2.1, (merge_guards_eq n).2.2]
  simp [h]

/-- on a model state the source gate is the model's kill switch -/
theorem gate_on_model (active : Bool) :
    KFarmState.validate_contract_state (stateTag active) true =
      (if active = true then some () else none) ∧
    KFarmState.farm_merge_guard (stateTag active) = (if active = true then some () else none) := by
  rw [validate_contract_state_eq, (merge_guards_eq _).2.1]
  cases active <;> simp [stateTag]

/-- every fund-moving user operation the FARM model accepts (enter, enter on behalf, claim, claim on
    behalf, compound, exit, merge, claimBoostedRewards; both farm kinds) passes the source's state
    gate on the stored state -/
theorem farm_step_passes_source_gate (s : Farm.St) (op : Farm.Op) (r : Farm.St × Farm.Out)
    (hf : C19Models.farmUserFundsOp op = true) (h : Farm.step s op = some r) :
    KFarmState.validate_contract_state (stateTag s.active) true = some () ∧
    KFarmState.farm_merge_guard (stateTag s.active) = some () := by
  have ha : s.active = true := by
    cases hs : s.active with
    | true => rfl
    | false => rw [C19Models.farm_paused_blocks_funds s op hs hf] at h; cases h
  rw [(gate_on_model s.active).1, (gate_on_model s.active).2, if_pos ha]; exact ⟨rfl, rfl⟩

/-- every fund-moving user operation the STAKING model accepts passes the source's state gate -/
theorem staking_step_passes_source_gate (s : Staking.St) (op : Staking.Op) (r : Staking.St × Staking.Out)
    (hf : C19Models.stakingUserFundsOp op = true) (h : Staking.step s op = some r) :
    KFarmState.validate_contract_state (stateTag s.active) true = some () ∧
    KFarmState.staking_merge_guard (stateTag s.active) = some () := by
  have ha : s.active = true := by
    cases hs : s.active with
    | true => rfl
    | false => rw [C19Models.staking_paused_blocks_funds s op hs hf] at h; cases h
  have := gate_on_model s.active
  rw [this.1, (merge_guards_eq _).2.2, if_pos ha]
  simp [stateTag, ha]

/-- source `is_old_farm_position`: a position minted before the migration nonce (and not nonce 0) -/
theorem is_old_farm_position_eq (nonce mig : Nat) :
    KFarmState.is_old_farm_position nonce mig = some (decide (0 < nonce ∧ nonce < mig)) := by
  k_defs [KFarmState.is_old_farm_position]

example : KFarmState.validate_contract_state 1 true = some () := by decide
example : KFarmState.validate_contract_state 2 true = none := by decide
example : KFarmState.validate_contract_state 1 false = none := by decide
example : KFarmState.farm_merge_guard 0 = none := by decide
example : KFarmState.staking_merge_guard 1 = some () := by decide

end Mx.KFarmState
