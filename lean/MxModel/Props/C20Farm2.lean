/-
  C20 (farm clause, second file) — received positions, and the view's own settlement.

  * `quote_eq_exec_received`: the reward view of dex/farm / farm-with-locked-rewards takes a `user`
    argument; for a position whose recorded `original_owner` is someone else (received by a plain
    transfer), the quote for the HOLDER is what the holder's `claimRewards` / `exitFarm` pays in the
    same state, boosted part included — and the quote for the recorded owner is in general a
    different number (`example`, the history of corpus/farm/c20_quote_received_position.ops,
    seed C20-b).
  * `view_settlement_is_claim_settlement`: the real view runs `generate_aggregated_rewards` on a
    cache and the user's boosted claim before answering (and the test VM commits that).  The value it
    returns in state `s` is built from exactly the settled cache and the boosted amount that
    `claimRewards`, executed DIRECTLY in `s` (not in a state some earlier settlement left), computes
    for itself; the claim's resulting reward index, last reward block and division constant are
    those of the view's settlement.
  * `committed_view_breaks_next_quote`: why the harness needs a twin world — if the view's settlement
    WERE committed (as the test VM does), the same quote asked again would drop the boosted part.
-/
import MxModel.Lemmas.FarmView

namespace Mx.C20Farm2
open Mx.Farm

/-- **received position.**  In any state, for a position `n` whose recorded owner differs from the
    holder `user`: if the holder's `claimRewards` of `a` units succeeds, the view asked for
    `(user, a, attributes of n)` in that same state answers exactly the reward paid, base + boosted
    (the boosted part being the HOLDER's); likewise for `exitFarm`. -/
theorem quote_eq_exec_received {s s' : St} {user n a : Nat} {rest : List (Nat × Nat)} {att : Attr}
    {o : Out} (hat : s.attrs n = some att) (_hforeign : att.owner ≠ user) :
    (claimRewards s user none ((n, a) :: rest) = some (s', o) →
      calcRewards s user a att.rps = some o.rew ∧ o.rew = o.base + o.boosted) ∧
    (exitFarm s user none n a = some (s', o) →
      calcRewards s user a att.rps = some o.rew ∧ o.rew = o.base + o.boosted) := by
  constructor
  · intro hx
    simp only [claimRewards, origCaller, Option.bind_eq_bind, Option.bind_some] at hx
    obtain ⟨att', s1, c1, s2, boosted, hat', hg, hb, h1, h2, h3⟩ := claimCore_reward hx
    rw [hat] at hat'
    simp only [Option.some.injEq] at hat'
    subst hat'
    exact ⟨calcRewards_eq_some.mpr ⟨s1, c1, s2, boosted, hg, hb, h3⟩, by rw [h3, h1, h2]⟩
  · intro hx
    obtain ⟨orig, att', s1, c1, s2, boosted, horig, hat', hg, hb, h1, h2, h3⟩ := exitFarm_reward hx
    simp only [origCaller, Option.some.injEq] at horig
    subst horig
    rw [hat] at hat'
    simp only [Option.some.injEq] at hat'
    subst hat'
    exact ⟨calcRewards_eq_some.mpr ⟨s1, c1, s2, boosted, hg, hb, h3⟩, by rw [h3, h1, h2]⟩

/-- **the view's internal settlement is the operation's own.**  If `claimRewards` / `compoundRewards`
    (`claimCore`: any caller, boosted rewards for `orig`, any merged payments) succeeds when executed
    directly in `s`, then the view's computation in `s` — settle on a fresh cache (`s1`, `c1`), run
    `orig`'s boosted claim (`boosted`) — succeeds, the view's answer is
    `baseReward(at c1) + boosted`, the operation pays exactly these two parts, and the operation
    leaves the reward index, the last reward block and the division constant exactly as the view's
    settlement computed them. -/
theorem view_settlement_is_claim_settlement {s s' : St} {caller orig n a : Nat}
    {rest : List (Nat × Nat)} {cmp : Bool} {att : Attr} {o : Out}
    (hat : s.attrs n = some att)
    (hx : claimCore s caller orig ((n, a) :: rest) cmp = some (s', o)) :
    ∃ s1 c1 s2 boosted,
      generate s (Cache.read s) = some (s1, c1) ∧ claimBoostedYields s1 orig = some (s2, boosted) ∧
      calcRewards s orig a att.rps = some (baseReward s1.dsc c1.rps a att.rps + boosted) ∧
      o.base = baseReward s1.dsc c1.rps a att.rps ∧ o.boosted = boosted ∧
      o.rew = baseReward s1.dsc c1.rps a att.rps + boosted ∧
      s'.rps = c1.rps ∧ s'.lastBlock = s1.lastBlock ∧ s'.dsc = s1.dsc := by
  obtain ⟨att', s1, c1, s2, boosted, hat', hg, hb, h1, h2, h3⟩ := claimCore_reward hx
  rw [hat] at hat'
  simp only [Option.some.injEq] at hat'
  subst hat'
  obtain ⟨_, _, _, _, _, _, _, hrv⟩ := claimCore_rv hx
  obtain ⟨e1, hr, _⟩ := generate_rv hg
  refine ⟨s1, c1, s2, boosted, hg, hb, calcRewards_eq_some.mpr ⟨s1, c1, s2, boosted, hg, hb, rfl⟩,
    h1, h2, h3, ?_, ?_, ?_⟩
  · have := congrArg RV.rps hrv
    simp only [rv, settledRV, rpsIncr] at this
    rw [this, hr]
    rfl
  · have h' := congrArg RV.lastBlock hrv
    have h'' := congrArg RV.lastBlock e1
    simp only [rv, settledRV] at h' h''
    rw [h', h'']
  · have h' := congrArg RV.dsc hrv
    have h'' := congrArg RV.dsc e1
    simp only [rv, settledRV] at h' h''
    rw [h', h'']

/-- the state a COMMITTED view would leave (what `execute_query` does in the test VM): the settled
    cache written back and the user's boosted claim applied -/
def commitView (s : St) (user : Nat) : Option St := do
  let (s1, c1) ← generate s (Cache.read s)
  let (s2, _) ← claimBoostedYields s1 user
  pure (Cache.drop s2 c1)

/-- the history of corpus/farm/c20_quote_received_position.ops up to the quote: user 1 (no energy)
    enters and passes the position to user 2 (energy, own position); one week later -/
def receivedOps : List Op :=
  [.setFactors OWNER ⟨10, 3, 2, 1, 1⟩, .setPct OWNER 2500, .setEnergy 2 1000000 0 1000,
   .enter 1 none 100000000 [], .enter 2 none 50000000 [], .advance 10 6,
   .claim 2 none [(2, 50000000)], .transfer 1 2 1 100000000, .advance 20 7]

/-- non-vacuity of `quote_eq_exec_received` and the reason seed C20-b is a violation: position 1 is
    recorded for user 1 but held by user 2; the quote for the holder (11833 = base 10000 + his boosted
    1833) is what his `claimRewards` and `exitFarm` pay; the quote for the recorded owner is 10000 -/
example :
    let s := run (init .mint false 1000000000000 1000 true [1, 2, 3] 0) receivedOps
    (s.attrs 1).map (fun a => (a.rps, a.owner)) = some (0, 1) ∧ s.hold 2 1 = 100000000 ∧
    calcRewards s 2 100000000 0 = some 11833 ∧ calcRewards s 1 100000000 0 = some 10000 ∧
    (claimRewards s 2 none [(1, 100000000)]).map (fun r => (r.2.rew, r.2.base, r.2.boosted))
      = some (11833, 10000, 1833) ∧
    (exitFarm s 2 none 1 100000000).map (fun r => (r.2.rew, r.2.base, r.2.boosted))
      = some (11833, 10000, 1833) := by
  decide

/-- **why quoting must not change state**: in the same reachable state, had the view's settlement
    been committed, the same quote asked again would be 10000 instead of 11833 (the boosted week is
    consumed without being paid) and the claim would pay only that — so "the view equals the claim
    executed directly in `s`" (`view_settlement_is_claim_settlement`) is NOT the same as "the view
    equals a claim in the state the view leaves" -/
theorem committed_view_breaks_next_quote :
    let s := run (init .mint false 1000000000000 1000 true [1, 2, 3] 0) receivedOps
    calcRewards s 2 100000000 0 = some 11833 ∧
    ((commitView s 2).bind fun s' => calcRewards s' 2 100000000 0) = some 10000 ∧
    ((commitView s 2).bind fun s' => (claimRewards s' 2 none [(1, 100000000)]).map (·.2.rew))
      = some 10000 := by
  decide

end Mx.C20Farm2
