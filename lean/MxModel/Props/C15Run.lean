/-
  C15 composed with the staking-farm MODEL — discharging the callee hypotheses of Props/C15.

  Statement (C15, second sentence): unstaking returns … an unbond token for exactly the staking-token
  amount obtained from the removed liquidity.
  In Props/C15.lean the staking farm's answer is an unconstrained argument of the operation, and
  `unbond_eq_pool_output` / `stake_mints` / `no_zero_supply` assume the callee facts
  `r.unA = r.stk`, `r.stA = r.safe + merged`, `r.stA ≠ 0` as hypotheses (`hfarm`, `RespPos`).
  Here those facts are PROVED from the model of the callee (Core/Staking.lean, the model that is
  tied to farm-staking by its own correspondence run, C05/C11/C12): if the recorded answer is what
  the staking model returns when it is called with the values the proxy model passes
  (`o.toStaking`, the released staking-farm amounts), the hypotheses hold.  So for the pair
  (proxy model, staking model) the C15 clause needs no assumption about the callee any more.

  (Audit item 9 also asked for run-level versions of `proxy_keeps_nothing` and
  `dy_parts_le_whole`: Props/C15.lean already states them for EVERY history —
  `proxy_keeps_nothing (ops)`, `dy_backed_exact (ops)` (exact, per nonce), `dy_parts_le_whole (ops)`,
  `dy_token_life` — see notes/proxies-session4.md.)
  Only property theorems live here; lemmas are in Lemmas/DualYieldStaking.lean.
-/
import MxModel.Lemmas.DualYieldStaking
import MxModel.Lemmas.StakingGate
import MxModel.Lemmas.DualYieldLife

namespace Mx.C15Run
open Mx.DualYield

/-- **unbond = pool output, composed with the staking model.**  Let `unstakeFarmTokens` succeed in
    the proxy model with callee answers `r`, and let the unbond token in `r` be the one the staking
    model creates when the proxy (a whitelisted address `proxy`) calls `unstakeFarmThroughProxy`
    with the staking tokens it passes (`o.toStaking`) and the released staking-farm position `pay`.
    Then the caller's unbond token is for exactly the staking-token amount the pair returned for the
    removed liquidity — not for the (safe-price) value of the position —, it is a NEW token, held by
    the proxy (which forwards it, `unstake_outputs`) and unlocks `minUnbondEpochs` from now. -/
theorem unbond_for_pool_output {s s' : St} {c d x : Nat} {r : UnstakeResp} {o : Out}
    (h : unstake s c d x r = some (s', o))
    {σ σ' : Staking.St} {proxy : Nat} {pay : Staking.Pay} {so : Staking.Out}
    (hst : Staking.unstakeProxy σ proxy c o.toStaking pay = some (σ', so))
    (hrec : r.unN = so.a ∧ r.unA = so.b) :
    o.unA = r.stk ∧ o.unN = σ.nonce + 1 ∧ proxy ∈ σ.whitelist ∧
    σ'.md (σ.nonce + 1) = some (.unbond (σ.epoch + σ.minUnbond)) ∧
    σ'.hold proxy (σ.nonce + 1) = r.stk := by
  obtain ⟨s1, p, _, _, rfl⟩ := unstake_spec h
  obtain ⟨hw, hcore⟩ := Staking.unstakeProxy_spec hst
  obtain ⟨_, hmd, hhold, ha, hb, _⟩ := Staking.unstakeCore_unbond hcore
  simp only [Option.getD_some] at hhold hb
  refine ⟨?_, ?_, hw, hmd, hhold⟩
  · show r.unA = r.stk; rw [hrec.2, hb]
  · show r.unN = σ.nonce + 1; rw [hrec.1, ha]

/-- the hypothesis `hfarm` of `C15.unbond_eq_pool_output` holds for every answer of the staking
    model: whatever its state, position and caller, `unstakeFarmThroughProxy(amount)` returns an
    unbond token for `amount` -/
theorem hfarm_from_staking_model {σ σ' : Staking.St} {proxy orig amount : Nat} {pay : Staking.Pay}
    {so : Staking.Out} (hst : Staking.unstakeProxy σ proxy orig amount pay = some (σ', so)) :
    so.b = amount := by
  obtain ⟨_, _, _, _, hb, _⟩ := Staking.unstakeCore_unbond (Staking.unstakeProxy_spec hst).2
  simpa using hb

/-- **the new dual-yield token is for the safe-price value plus the merged positions, composed with
    the staking model.**  Let `stakeFarmTokens` succeed in the proxy model, and let the staking-farm
    token in the answer be the one the staking model creates when the proxy calls
    `stakeFarmThroughProxy(o.toStaking)` with additional payments `adds` whose amounts are the
    dual-yield amounts paid in (`ms`).  Then the callee hypotheses of `C15.stake_mints` and
    `C15.no_zero_supply` hold: the dual-yield token is minted for `safe + Σ merged` and never for 0. -/
theorem stake_amount_from_staking_model {s s' : St} {c lpN a : Nat} {auth : Bool}
    {ms : List (Nat × Nat)} {r : StakeResp} {o : Out}
    (h : stake s c auth lpN a ms r = some (s', o))
    {σ σ' : Staking.St} {proxy : Nat} {adds : List Staking.Pay} {so : Staking.Out}
    (hst : Staking.stakeProxy σ proxy c o.toStaking adds = some (σ', so))
    (hadds : adds.map (·.2) = ms.map (·.2)) (hrec : r.stA = so.b) :
    r.stA = r.safe + o.stReleased ∧ o.dyA = r.safe + o.stReleased ∧ r.stA ≠ 0 ∧
    RespPos (.stake c auth lpN a ms r) := by
  obtain ⟨q, _, _, hq, hsafe, _, rfl⟩ := stake_spec h
  obtain ⟨_, hcore⟩ := Staking.stakeProxy_spec hst
  obtain ⟨hpos, hb⟩ := stakeCore_amount hcore
  have hrel := releaseAll_stTotal hq
  have hA : r.stA = r.safe + q.2.2 := by
    rw [hrec, hb, Staking.payTot_eq, hadds, hrel]
  have hne : r.stA ≠ 0 := by
    have : 0 < r.safe := hpos
    omega
  exact ⟨hA, hA, hne, hne⟩

/-! ### non-vacuity -/

/-- the staking history of `Props/C12Ledger` up to the proxy's unstake: account 101 is the
    whitelisted metastaking proxy holding position 4 (700·10¹²) for user 2 -/
def stakingBefore : Staking.St :=
  Staking.run (Staking.init 5 10 1000000000000 2500 2 5000 [1, 2, 101] [101])
    [.topUp 30000, .withdraw 100, .stake 1 none 1000000000000000 [],
     .stakeProxy 101 2 500000000000000 [], .advance 3 0, .claim 1 none (1, 1000000000000000),
     .claimNew 101 2 700000000000000 (2, 500000000000000), .advance 1 0,
     .unstake 1 none (3, 400000000000000)]

/-- the proxy side: user 2 holds dual-yield nonce 1 recording staking-farm token (4, 700·10¹²) -/
def proxyBefore : St :=
  run init [.stake 2 true 7 1000 [] ⟨700000000000000, 4, 700000000000000, 0, 0, 0, 0⟩]

/-- the hypotheses of `unbond_for_pool_output` are met by concrete non-trivial states of both
    models: the pair returns 300·10¹² staking tokens for the removed liquidity, the staking model,
    called with exactly that amount, creates unbond token 6 for 300·10¹² (the position was worth
    700·10¹²), and the proxy model accepts that answer -/
example :
    (unstake proxyBefore 2 1 700000000000000 ⟨900, 5, 300000000000000, 77, 6, 300000000000000, 3⟩).map
        (fun p => (p.2.toStaking, p.2.unN, p.2.unA)) = some (300000000000000, 6, 300000000000000) ∧
    (Staking.unstakeProxy stakingBefore 101 2 300000000000000 (4, 700000000000000)).map
        (fun p => (p.2.a, p.2.b)) = some (6, 300000000000000) := by
  decide

/-- … and of `stake_amount_from_staking_model`: a fresh staking model, proxy 101 stakes the
    safe-price value 500·10¹² for user 2; the staking model answers token 1 for 500·10¹² -/
example :
    (Staking.stakeProxy (Staking.init 5 10 1000000000000 2500 2 5000 [1, 2, 101] [101]) 101 2
        500000000000000 []).isSome ∧
    (stake init 2 true 7 1000 [] ⟨500000000000000, 1, 500000000000000, 0, 0, 0, 0⟩).isSome := by
  decide

end Mx.C15Run
