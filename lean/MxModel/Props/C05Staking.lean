/-
  C05 (farm-staking side) — reward accounting exact; principal backed.

  Statement: the reward reserve the contract reports equals rewards generated so far minus
  rewards paid out, and it always covers all currently claimable base rewards plus all
  not-yet-claimed boosted-reward pools; the farming tokens the farm holds always cover the
  reported farm-token supply (for the staking farm: the C12 balance decomposition).

  Model: Core/Staking.lean.  In the staking farm "generated" is the storage cell
  `accumulatedRewards` itself; `paidBase + paidBoosted` is the ghost ledger of everything paid out
  or compounded.  Only property theorems live here.
-/
import MxModel.Lemmas.StakingFactors

namespace Mx.C05Staking
open Mx.Staking

abbrev reach (epoch block dsc maxApr minUnbond perBlock : Nat) (accts wl : List Nat)
    (ops : List Op) : St :=
  run (init epoch block dsc maxApr minUnbond perBlock accts wl) ops

/-- reserve = generated − paid, after any history (F1 — the lost reserve decrement of
    `claimBoostedRewards` — broke exactly this; repaired in the code and in the model) -/
theorem reserve_exact (epoch block dsc maxApr minUnbond perBlock : Nat) (accts wl : List Nat)
    (ops : List Op) :
    let s := reach epoch block dsc maxApr minUnbond perBlock accts wl ops
    s.reserve = s.accumulated - (s.paidBase + s.paidBoosted) ∧
    s.paidBase + s.paidBoosted ≤ s.accumulated := by
  intro s
  have h : Inv s := run_inv ops (inv_init epoch block dsc maxApr minUnbond perBlock accts wl)
  have h1 := h.res_eq
  omega

/-- one transaction: the reserve moves by what was generated minus what was paid, nothing else
    (`pb`, `pbo` = base / boosted paid, `tot` = accrued by the settlement of this transaction) -/
theorem reserve_step {s s' : St} {op : Op} {o : Out} (h : step s op = some (s', o)) :
    s'.reserve + (s'.paidBase - s.paidBase) + (s'.paidBoosted - s.paidBoosted)
      = s.reserve + (s'.accumulated - s.accumulated) ∧
    s.paidBase ≤ s'.paidBase ∧ s.paidBoosted ≤ s'.paidBoosted ∧ s.accumulated ≤ s'.accumulated := by
  obtain ⟨tot, cut, inc, pb, pbo, up, down, _, _, e1, _, _, e4, e5, e6, _⟩ := step_eff h
  omega

/-- principal is backed: the staking tokens the contract holds, beyond the capacity not yet
    accrued and the reserve, are exactly the directly staked principal (supply minus the
    proxy-virtual stake) plus the outstanding unbond amounts -/
theorem principal_backed (epoch block dsc maxApr minUnbond perBlock : Nat) (accts wl : List Nat)
    (ops : List Op) :
    let s := reach epoch block dsc maxApr minUnbond perBlock accts wl ops
    (s.bal : Int) - ((s.capacity - s.accumulated : Nat) : Int) - s.reserve
      = ((s.supply : Int) - s.virt) + s.unbondOut := by
  intro s
  have h : Inv s := run_inv ops (inv_init epoch block dsc maxApr minUnbond perBlock accts wl)
  have h1 := h.bal_eq
  have h2 := h.acc_le
  omega

/-- the boosted pools are bounded per week (C11): what a week can still pay never exceeds what
    was set aside for it and not yet paid -/
theorem pools_bounded (epoch block dsc maxApr minUnbond perBlock : Nat) (accts wl : List Nat)
    (ops : List Op) (week : Nat) :
    let s := reach epoch block dsc maxApr minUnbond perBlock accts wl ops
    s.b.remaining week ≤ s.b.collected week - s.b.paid week := by
  intro s
  have h : PoolOK s.b := run_pool ops (by
    show PoolOK (init epoch block dsc maxApr minUnbond perBlock accts wl).b
    exact PoolOK.init)
  have := h week
  omega

/-- the full coverage statement: reserve ≥ Σ claimable base + Σ boosted pools + undistributed
    (the base part is the potential-function theorem `total_base_bound`, see C06Staking) -/
def reserve_covers_full : Prop :=
  ∀ (epoch block dsc maxApr minUnbond perBlock : Nat) (accts wl : List Nat) (ops : List Op),
    0 < dsc →
    let s := reach epoch block dsc maxApr minUnbond perBlock accts wl ops
    s.boostedBudget - s.paidBoosted + (s.baseBudget - s.paidBase) ≤ s.reserve ∧ s.paidBase ≤ s.baseBudget

/-- coverage, conditional form: whenever the base rewards paid so far are within the base budget
    (C06 `total_base_bound`), the reserve holds the whole unpaid remainder of both budgets -/
theorem reserve_covers_partial (epoch block dsc maxApr minUnbond perBlock : Nat) (accts wl : List Nat)
    (ops : List Op) :
    let s := reach epoch block dsc maxApr minUnbond perBlock accts wl ops
    s.paidBase ≤ s.baseBudget → s.paidBoosted ≤ s.boostedBudget →
    s.reserve = (s.baseBudget - s.paidBase) + (s.boostedBudget - s.paidBoosted) := by
  intro s hb hbo
  have h : Inv s := run_inv ops (inv_init epoch block dsc maxApr minUnbond perBlock accts wl)
  have h1 := h.res_eq
  have h2 := h.budget
  omega

/-- non-vacuity: after claims by two users and a boosted claim the reserve is what is left -/
example :
    let s := reach 5 10 1000000000000 1000000 5 5000 [1, 2, 101] [101]
      [.topUp 100000000, .setBoostedPct 2500, .setFactors ⟨10, 3, 2, 1, 1⟩, .setEnergy 1 10000 100,
       .stake 1 none 100000000000 [], .advance 10 0, .claimBoosted 1 none, .advance 1 7,
       .claim 1 none (1, 100000000000)]
    s.reserve = 1250 ∧ s.accumulated = 55000 ∧ s.paidBase + s.paidBoosted = 53750 ∧
    s.bal = 100000000 + 100000000000 - 53750 := by
  decide

end Mx.C05Staking
