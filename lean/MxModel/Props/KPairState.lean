/-
  KPairState — the state predicates, the reserve selection and the opening `require!` blocks of the
  pair's user endpoints, as the SOURCE states them (dex/pair/src/pair_actions/*.rs,
  contexts/base.rs), against the pair model (`Core/Pair.lean`).

  `Gen/KPairState.lean` is regenerated on every run by `bin/gen-kernels`.  `pausable::State` and
  `SwapTokensOrder` are plain enums: a value is its variant index (`Status.tag`, `Dir.tag` of
  `Lemmas/KernelTags2.lean`); an `Option` place is the pair (tag, payload) (`optTag`, `optVal`).
  Token identifiers are numbers; `is_valid_esdt_identifier()` and `whitelist().contains(..)` are
  Bool inputs.

  What this file ties to the source (the deterministic side of C19's "paused means no fund moves,
  a partially active pair accepts liquidity but no swaps"):
  * `is_state_active` / `can_swap` of the source decide the model's status conditions;
  * `get_reserve_in` / `get_reserve_out` (a `match` on the swap direction) are the model's `rin` / `rout`;
  * the guard block of every user endpoint, in closed form, and: every successful model step passes
    the source's guard block (`*_runs_source_guards`); in an Inactive pair every guard block of a
    gated endpoint aborts for ALL arguments, in a PartialActive pair every swap guard aborts.
-/
import MxModel.Gen.KPairState
import MxModel.Lemmas.PairSpec
import MxModel.Lemmas.KernelTags2
import MxModel.Lemmas.KTactic

namespace Mx.KPairState
open Mx Mx.Pair Mx.Gen

/-! ### the state predicates and the reserve selection -/

/-- source `is_state_active` (`state == Active || state == PartialActive`) decides the model's
    "liquidity operations allowed" condition; never aborts -/
theorem is_state_active_eq (st : Status) :
    KPairState.is_state_active st.tag = some (decide (st = .active ∨ st = .partialActive)) := by
  cases st <;> k_defs [KPairState.is_state_active, Status.tag] <;> simp

/-- source `can_swap` (`state == Active`) decides the model's "swaps allowed" condition -/
theorem can_swap_eq (st : Status) :
    KPairState.can_swap st.tag = some (decide (st = .active)) := by
  cases st <;> k_defs [KPairState.can_swap, Status.tag] <;> simp

/-- source `StorageCache::get_reserve_in` (a `match` on the swap direction) IS the model's `rin` -/
theorem get_reserve_in_eq (s : St) (d : Dir) :
    KPairState.get_reserve_in d.tag s.r1 s.r2 = some (s.rin d) := by
  cases d <;> k_defs [KPairState.get_reserve_in, Dir.tag, St.rin] <;> try k_solve

/-- source `StorageCache::get_reserve_out` IS the model's `rout` -/
theorem get_reserve_out_eq (s : St) (d : Dir) :
    KPairState.get_reserve_out d.tag s.r1 s.r2 = some (s.rout d) := by
  cases d <;> k_defs [KPairState.get_reserve_out, Dir.tag, St.rout] <;> try k_solve

/-- a direction index outside the enum makes the selection abort (the `| _ => none` the translator
    adds to a `match` without catch-all arm) -/
theorem get_reserve_bad_order (n a b : Nat) (h : 2 ≤ n) :
    KPairState.get_reserve_in n a b = none ∧ KPairState.get_reserve_out n a b = none := by
  obtain ⟨k, rfl⟩ : ∃ k, n = k + 2 := ⟨n - 2, by omega⟩
  constructor <;> rfl

/-! ### the guard blocks in closed form -/

/-- `addLiquidity`, the block between reading the payments and `update_safe_price`: right tokens
    with positive amounts, state Active or PartialActive, LP token issued, and either no initial
    liquidity adder is configured or the pool already has liquidity -/
theorem add_liq_guard_eq (a1 t1 a2 t2 id1 id2 S : Nat) (st : Status) (adder : Option Nat)
    (lpValid : Bool) :
    KPairState.add_liq_guard a1 t1 (optTag adder) a2 t2 st.tag id1 lpValid S id2 =
      if (t1 = id1 ∧ 0 < a1) ∧ (t2 = id2 ∧ 0 < a2) ∧ (st = .active ∨ st = .partialActive) ∧
         lpValid = true ∧ (adder = none ∨ S ≠ 0) then some () else none := by
  have ho : optTag adder = 0 ↔ adder = none := by cases adder <;> simp [optTag]
  generalize optTag adder = ot at ho
  k_defs [KPairState.add_liq_guard, is_state_active_eq]
  cases st <;> cases lpValid <;> simp [ho] <;> try k_solve

/-- `removeLiquidity`: state Active or PartialActive, LP token issued, the payment is the LP token
    with a positive amount -/
theorem remove_liq_guard_eq (lp tok lpId : Nat) (st : Status) (lpValid : Bool) :
    KPairState.remove_liq_guard lp tok st.tag lpId lpValid =
      if (st = .active ∨ st = .partialActive) ∧ lpValid = true ∧ (tok = lpId ∧ 0 < lp)
      then some () else none := by
  k_defs [KPairState.remove_liq_guard, is_state_active_eq]
  cases st <;> cases lpValid <;> simp <;> try k_solve

/-- `addInitialLiquidity`, the caller check (`if let Some(adder) = … { require!(caller == adder) }`):
    passes when no adder is configured or the caller is the adder — the model's first guard -/
theorem add_initial_adder_guard_eq (c : Nat) (adder : Option Nat) :
    KPairState.add_initial_adder_guard c (optTag adder) (optVal adder) =
      if adder = none ∨ adder = some c then some () else none := by
  cases adder with
  | none =>
    k_defs [KPairState.add_initial_adder_guard, optTag, optVal]
    try k_solve
  | some v =>
    have hv : (some v = none ∨ some v = some c) ↔ c = v := by
      constructor
      · rintro (h | h)
        · cases h
        · exact (Option.some.inj h).symm
      · rintro rfl; exact Or.inr rfl
    k_defs [KPairState.add_initial_adder_guard, optTag, optVal, hv]
    try k_solve

/-- `addInitialLiquidity`, the block after the payments: right tokens, positive amounts, state NOT
    active (only Inactive is left), no liquidity yet -/
theorem add_initial_guard_eq (a1 t1 a2 t2 id1 id2 S : Nat) (st : Status) :
    KPairState.add_initial_guard a1 t1 a2 t2 st.tag id1 S id2 =
      if (t1 = id1 ∧ 0 < a1) ∧ (t2 = id2 ∧ 0 < a2) ∧ st = .inactive ∧ S = 0
      then some () else none := by
  k_defs [KPairState.add_initial_guard, is_state_active_eq]
  cases st <;> simp <;> try k_solve

/-- `swapTokensFixedInput`: state Active and the requested minimum is below the output reserve
    (selected by the swap direction) -/
theorem swap_fixed_input_guard_eq (s : St) (d : Dir) (minOut : Nat) :
    KPairState.swap_fixed_input_guard s.status.tag s.r1 s.r2 minOut d.tag =
      if s.status = .active ∧ minOut < s.rout d then some () else none := by
  k_defs [KPairState.swap_fixed_input_guard, can_swap_eq, get_reserve_out_eq]
  cases s.status <;> simp <;> try k_solve

/-- `swapTokensFixedOutput`: state Active and the requested amount is below the output reserve -/
theorem swap_fixed_output_guard_eq (s : St) (d : Dir) (out : Nat) :
    KPairState.swap_fixed_output_guard s.status.tag s.r1 s.r2 out d.tag =
      if s.status = .active ∧ out < s.rout d then some () else none := by
  k_defs [KPairState.swap_fixed_output_guard, can_swap_eq, get_reserve_out_eq]
  cases s.status <;> simp <;> try k_solve

/-- `swapNoFeeAndForward`: the caller must be in the whitelist, the state Active -/
theorem swap_no_fee_guards_eq (c : Nat) (wl : Bool) (st : Status) :
    KPairState.swap_no_fee_whitelist_guard c wl = (if wl = true then some () else none) ∧
    KPairState.swap_no_fee_state_guard st.tag = (if st = .active then some () else none) := by
  constructor
  · k_defs [KPairState.swap_no_fee_whitelist_guard]
    try k_solve
  · k_defs [KPairState.swap_no_fee_state_guard, can_swap_eq]
    try (cases st <;> simp)

/-- the argument checks that open `addLiquidity`, `removeLiquidity`, `swapTokensFixedInput`,
    `swapTokensFixedOutput` (positive minimum amounts / positive requested amount) -/
theorem args_guards_eq (m1 m2 : Nat) :
    KPairState.add_liq_args_guard m1 m2 = (if 0 < m1 ∧ 0 < m2 then some () else none) ∧
    KPairState.remove_liq_args_guard m1 m2 = (if 0 < m1 ∧ 0 < m2 then some () else none) ∧
    KPairState.swap_fixed_input_args_guard m1 = (if 0 < m1 then some () else none) ∧
    KPairState.swap_fixed_output_args_guard m1 = (if 0 < m1 then some () else none) := by
  refine ⟨?_, ?_, ?_, ?_⟩
  · k_defs [KPairState.add_liq_args_guard]
    try k_solve
  · k_defs [KPairState.remove_liq_args_guard]
    try k_solve
  · k_defs [KPairState.swap_fixed_input_args_guard]
    try k_solve
  · k_defs [KPairState.swap_fixed_output_args_guard]
    try k_solve

/-! ### the model's steps pass the source's guards -/

/-- every successful model `addLiq` passes both guard blocks of the source's `add_liquidity`
    (with the pool's own token identifiers on the payments and an issued LP token) -/
theorem addLiq_runs_source_guards {s : St} {a1 a2 m1 m2 : Nat} {r : St × Out}
    (h : addLiq s a1 a2 m1 m2 = some r) (id1 id2 : Nat) :
    KPairState.add_liq_args_guard m1 m2 = some () ∧
    KPairState.add_liq_guard a1 id1 (optTag s.adder) a2 id2 s.status.tag id1 true s.S id2 = some () := by
  obtain ⟨s', o⟩ := r
  rw [(args_guards_eq m1 m2).1, add_liq_guard_eq]
  have hm : 0 < m1 ∧ 0 < m2 := by
    simp only [addLiq, Option.bind_eq_bind, Option.bind_eq_some_iff, req_eq_some] at h
    exact h.choose_spec.1
  by_cases hS : s.S = 0
  · obtain ⟨h1, h2, h3, h4, _⟩ := addLiq_first_spec hS h
    rw [if_pos hm, if_pos ⟨⟨rfl, h1⟩, ⟨rfl, h2⟩, h3, rfl, Or.inl h4⟩]; exact ⟨rfl, rfl⟩
  · obtain ⟨_, _, _, _, h1, h2, h3, _⟩ := addLiq_spec hS h
    rw [if_pos hm, if_pos ⟨⟨rfl, h1⟩, ⟨rfl, h2⟩, h3, rfl, Or.inr hS⟩]; exact ⟨rfl, rfl⟩

/-- every successful model `removeLiq` passes both guard blocks of the source's `remove_liquidity` -/
theorem removeLiq_runs_source_guards {s : St} {lp m1 m2 : Nat} {r : St × Out}
    (h : removeLiq s lp m1 m2 = some r) (lpId : Nat) :
    KPairState.remove_liq_args_guard m1 m2 = some () ∧
    KPairState.remove_liq_guard lp lpId s.status.tag lpId true = some () := by
  obtain ⟨s', o⟩ := r
  obtain ⟨h1, h2, h3, h4, _⟩ := removeLiq_spec h
  rw [(args_guards_eq m1 m2).2.1, remove_liq_guard_eq, if_pos ⟨h1, h2⟩, if_pos ⟨h3, rfl, rfl, h4⟩]
  exact ⟨rfl, rfl⟩

/-- every successful model `addInitial` passes the caller check and the guard block of the source's
    `add_initial_liquidity` -/
theorem addInitial_runs_source_guards {s : St} {c a1 a2 : Nat} {r : St × Out}
    (h : addInitial s c a1 a2 = some r) (id1 id2 : Nat) :
    KPairState.add_initial_adder_guard c (optTag s.adder) (optVal s.adder) = some () ∧
    KPairState.add_initial_guard a1 id1 a2 id2 s.status.tag id1 s.S id2 = some () := by
  obtain ⟨s', o⟩ := r
  obtain ⟨h1, h2, h3, h4, h5, _⟩ := addInitial_spec h
  rw [add_initial_adder_guard_eq, add_initial_guard_eq, if_pos h1,
    if_pos ⟨⟨rfl, h2⟩, ⟨rfl, h3⟩, h4, h5⟩]
  exact ⟨rfl, rfl⟩

/-- every successful model `swapIn` passes both guard blocks of the source's `swap_tokens_fixed_input` -/
theorem swapIn_runs_source_guards {s : St} {d : Dir} {a minOut : Nat} {r : St × Out}
    (h : swapIn s d a minOut = some r) :
    KPairState.swap_fixed_input_args_guard minOut = some () ∧
    KPairState.swap_fixed_input_guard s.status.tag s.r1 s.r2 minOut d.tag = some () := by
  obtain ⟨s', o⟩ := r
  obtain ⟨_, _, h1, _, h3, h4, _⟩ := swapIn_spec h
  rw [(args_guards_eq minOut 0).2.2.1, swap_fixed_input_guard_eq, if_pos h1, if_pos ⟨h3, h4⟩]
  exact ⟨rfl, rfl⟩

/-- every successful model `swapOut` passes both guard blocks of the source's `swap_tokens_fixed_output` -/
theorem swapOut_runs_source_guards {s : St} {d : Dir} {maxIn out : Nat} {r : St × Out}
    (h : swapOut s d maxIn out = some r) :
    KPairState.swap_fixed_output_args_guard out = some () ∧
    KPairState.swap_fixed_output_guard s.status.tag s.r1 s.r2 out d.tag = some () := by
  obtain ⟨s', o⟩ := r
  obtain ⟨_, _, h1, _, h3, h4, _⟩ := swapOut_spec h
  rw [(args_guards_eq out 0).2.2.2, swap_fixed_output_guard_eq, if_pos h1, if_pos ⟨h3, h4⟩]
  exact ⟨rfl, rfl⟩

/-- every successful model `swapNoFee` passes the whitelist and the state guard of the source's
    `swap_no_fee` (`c ∈ wl` is what `whitelist().contains(&caller)` reads) -/
theorem swapNoFee_runs_source_guards {s : St} {c : Nat} {d : Dir} {a : Nat} {r : St × Out}
    (h : swapNoFee s c d a = some r) :
    KPairState.swap_no_fee_whitelist_guard c (decide (c ∈ s.wl)) = some () ∧
    KPairState.swap_no_fee_state_guard s.status.tag = some () := by
  obtain ⟨s', o⟩ := r
  obtain ⟨h1, _, h3, _⟩ := swapNoFee_spec h
  rw [(swap_no_fee_guards_eq c (decide (c ∈ s.wl)) s.status).1,
    (swap_no_fee_guards_eq c true s.status).2, if_pos (by simpa using h1), if_pos h3]
  exact ⟨rfl, rfl⟩

/-! ### gating at the source: paused / partially active -/

/-- **paused pair, at the source**: with the state Inactive the guard block of `addLiquidity`,
    `removeLiquidity`, `swapTokensFixedInput`, `swapTokensFixedOutput`, `swapNoFeeAndForward` aborts,
    whatever the payments, arguments, reserves, direction and the other inputs -/
theorem source_guards_block_when_inactive
    (a1 t1 ot a2 t2 id1 id2 S lp tok lpId r1 r2 x dir : Nat) (v : Bool) :
    KPairState.add_liq_guard a1 t1 ot a2 t2 Status.inactive.tag id1 v S id2 = none ∧
    KPairState.remove_liq_guard lp tok Status.inactive.tag lpId v = none ∧
    KPairState.swap_fixed_input_guard Status.inactive.tag r1 r2 x dir = none ∧
    KPairState.swap_fixed_output_guard Status.inactive.tag r1 r2 x dir = none ∧
    KPairState.swap_no_fee_state_guard Status.inactive.tag = none := by
  refine ⟨?_, ?_, ?_, ?_, ?_⟩
  · k_defs [KPairState.add_liq_guard, is_state_active_eq]
    simp; try k_solve
  · k_defs [KPairState.remove_liq_guard, is_state_active_eq]
    simp
  · k_defs [KPairState.swap_fixed_input_guard, can_swap_eq]
    simp
  · k_defs [KPairState.swap_fixed_output_guard, can_swap_eq]
    simp
  · k_defs [KPairState.swap_no_fee_state_guard, can_swap_eq]
    simp

/-- **partially active pair, at the source**: every swap guard aborts for all inputs, while the
    state check of the liquidity endpoints passes (`is_state_active` is true) -/
theorem source_guards_partial_active (r1 r2 x dir : Nat) :
    KPairState.swap_fixed_input_guard Status.partialActive.tag r1 r2 x dir = none ∧
    KPairState.swap_fixed_output_guard Status.partialActive.tag r1 r2 x dir = none ∧
    KPairState.swap_no_fee_state_guard Status.partialActive.tag = none ∧
    KPairState.is_state_active Status.partialActive.tag = some true := by
  refine ⟨?_, ?_, ?_, ?_⟩
  · k_defs [KPairState.swap_fixed_input_guard, can_swap_eq]
    simp
  · k_defs [KPairState.swap_fixed_output_guard, can_swap_eq]
    simp
  · k_defs [KPairState.swap_no_fee_state_guard, can_swap_eq]
    simp
  · rw [is_state_active_eq]; rfl

/-! non-vacuity: concrete inputs on which the guards pass / abort -/
example : KPairState.add_liq_guard 5 7 0 6 8 1 7 true 0 8 = some () := by decide
example : KPairState.add_liq_guard 5 7 1 6 8 1 7 true 0 8 = none := by decide      -- adder set, empty pool
example : KPairState.add_liq_guard 5 7 1 6 8 2 7 true 9 8 = some () := by decide   -- PartialActive accepts liquidity
example : KPairState.add_liq_guard 5 7 0 6 8 0 7 true 9 8 = none := by decide      -- Inactive
example : KPairState.swap_fixed_input_guard 1 100 200 150 0 = some () := by decide
example : KPairState.swap_fixed_input_guard 1 100 200 150 1 = none := by decide    -- other direction: reserve 100
example : KPairState.swap_fixed_input_guard 2 100 200 150 0 = none := by decide    -- PartialActive: no swaps
example : KPairState.add_initial_adder_guard 4 1 4 = some () := by decide
example : KPairState.add_initial_adder_guard 5 1 4 = none := by decide
example : KPairState.get_reserve_in 1 10 20 = some 20 := by decide
example : (addLiq { (Pair.init 300 100 none 0) with status := .active } 5000 6000 1 1).isSome = true ∧
    KPairState.add_liq_guard 5000 7 (optTag (none : Option Nat)) 6000 8 Status.active.tag 7 true 0 8 = some () :=
  ⟨by decide, by decide⟩

end Mx.KPairState
