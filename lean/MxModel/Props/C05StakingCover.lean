/-
  C05 (farm-staking side) — the reserve covers everything claimable, at full strength.

  Statement (properties.jsonl C05): "… the reward reserve … always covers all currently claimable
  base rewards plus all not-yet-claimed boosted-reward pools …".

  Model: Core/Staking.lean.  `reserve` = the storage cell `reward_reserve`; claimable base rewards
  of nonce `n` = `⌊outstanding(n)·(rps − entryRps(n))/dsc⌋` (outstanding(n) = units of the
  position nonce `n` held by the distinct accounts of the world; C07 `supply_eq_sum`); boosted
  pools of week `w` = `accumulatedRewardsForWeek w + remainingBoostedRewardsToDistribute w`
  (`b.accumulated`, `b.remaining`); `undistributed` = `undistributedBoostedRewards`.

  Three invariants are combined, each proved for every reachable state (any deployment parameters,
  any account list, any history):
    * `Inv` (Lemmas/StakingInv.lean): reserve + paidBase + paidBoosted = accumulated
                                       = baseBudget + boostedBudget;
    * `PotInv` (Lemmas/StakingPot.lean, Props/C06StakingBound.lean): claimable base + paidBase ≤ baseBudget;
    * `BoostInv` (Lemmas/StakingCover.lean): Σ_{w<N} pools + undistributed + paidBoosted ≤ boostedBudget
      for EVERY `N` (so for every finite set of weeks; no statement about which weeks are non-empty
      is needed).
  `reserve_covers` is exactly `Mx.C05Staking.reserve_covers_full`.

  Only property theorems live here.
-/
import MxModel.Lemmas.StakingCover
import MxModel.Props.C05Staking

namespace Mx.C05StakingCover
open Mx.Staking

/-- one successful transaction keeps the boosted-pool conservation bound -/
theorem boost_step {s s' : St} {op : Op} {o : Out} (hI : BoostInv s) (h : step s op = some (s', o)) :
    BoostInv s' :=
  step_boostInv hI h

/-- **boosted pools are budgeted.**  In every reachable state, for every `N`: the boosted pools of
    the weeks `0 … N−1` (accumulated, and frozen-but-unpaid), the undistributed boosted rewards and
    everything paid as boosted rewards together never exceed the sum of the boosted cuts of all
    settlements. -/
theorem boosted_pools_bound (epoch block dsc maxApr minUnbond perBlock : Nat) (accts wl : List Nat)
    (ops : List Op) (N : Nat) :
    let s := run (init epoch block dsc maxApr minUnbond perBlock accts wl) ops
    ((List.range N).map fun w => s.b.accumulated w + s.b.remaining w).sum
      + s.undistributed + s.paidBoosted ≤ s.boostedBudget :=
  (run_boostInv ops (boostInv_init epoch block dsc maxApr minUnbond perBlock accts wl)).explicit N

/-- the reserve is exactly the unspent base budget plus the unspent boosted budget, and neither
    budget is overspent -/
theorem reserve_is_unspent (epoch block dsc maxApr minUnbond perBlock : Nat) (accts wl : List Nat)
    (ops : List Op) (hd : 0 < dsc) :
    let s := run (init epoch block dsc maxApr minUnbond perBlock accts wl) ops
    s.paidBase ≤ s.baseBudget ∧ s.paidBoosted ≤ s.boostedBudget ∧
    s.reserve = (s.baseBudget - s.paidBase) + (s.boostedBudget - s.paidBoosted) :=
  reserve_split (run_inv ops (inv_init epoch block dsc maxApr minUnbond perBlock accts wl))
    (run_potInv ops (posInv_init epoch block dsc maxApr minUnbond perBlock accts wl)
      (potInv_init epoch block dsc maxApr minUnbond perBlock accts wl))
    (run_boostInv ops (boostInv_init epoch block dsc maxApr minUnbond perBlock accts wl))
    (by show 0 < (run _ ops).dsc; rw [run_dsc]; exact hd)

/-- **reserve covers** — the full statement `reserve_covers_full` of Props/C05Staking.lean: the
    reserve holds the whole unpaid remainder of both budgets, and the base budget is never overspent -/
theorem reserve_covers : Mx.C05Staking.reserve_covers_full := by
  intro epoch block dsc maxApr minUnbond perBlock accts wl ops hd
  exact reserve_full (run_inv ops (inv_init epoch block dsc maxApr minUnbond perBlock accts wl))
    (run_potInv ops (posInv_init epoch block dsc maxApr minUnbond perBlock accts wl)
      (potInv_init epoch block dsc maxApr minUnbond perBlock accts wl))
    (run_boostInv ops (boostInv_init epoch block dsc maxApr minUnbond perBlock accts wl))
    (by show 0 < (run _ ops).dsc; rw [run_dsc]; exact hd)

/-- **reserve covers, claimable form.**  In every reachable state (non-zero division-safety
    constant), for every `N`:
    `reserve ≥ Σ_n ⌊outstanding(n)·(rps − entryRps(n))/dsc⌋ + Σ_{w<N} (accumulated w + remaining w)
               + undistributed` —
    all base rewards claimable right now (one claim per position nonce: the largest the floors can
    add up to), all boosted pools not yet paid out, and the undistributed boosted rewards. -/
theorem reserve_covers_claimable (epoch block dsc maxApr minUnbond perBlock : Nat) (accts wl : List Nat)
    (ops : List Op) (hd : 0 < dsc) (N : Nat) :
    let s := run (init epoch block dsc maxApr minUnbond perBlock accts wl) ops
    ((List.range (s.nonce + 1)).map fun n =>
        match s.md n with
        | some (.pos a) => (s.accts.dedup.map fun u => s.hold u n).sum * (s.rps - a.rps) / s.dsc
        | _ => 0).sum
      + ((List.range N).map fun w => s.b.accumulated w + s.b.remaining w).sum
      + s.undistributed ≤ s.reserve :=
  cover_explicit (run_inv ops (inv_init epoch block dsc maxApr minUnbond perBlock accts wl))
    (run_potInv ops (posInv_init epoch block dsc maxApr minUnbond perBlock accts wl)
      (potInv_init epoch block dsc maxApr minUnbond perBlock accts wl))
    (run_boostInv ops (boostInv_init epoch block dsc maxApr minUnbond perBlock accts wl))
    (by show 0 < (run _ ops).dsc; rw [run_dsc]; exact hd) N

/-- the same with every account claiming each of its holdings separately — the sum the harness
    oracle `reserve_covers` evaluates on the real contract -/
theorem reserve_covers_holdings (epoch block dsc maxApr minUnbond perBlock : Nat) (accts wl : List Nat)
    (ops : List Op) (hd : 0 < dsc) (N : Nat) :
    let s := run (init epoch block dsc maxApr minUnbond perBlock accts wl) ops
    ((List.range (s.nonce + 1)).map fun n =>
        match s.md n with
        | some (.pos a) => (s.accts.dedup.map fun u => s.hold u n * (s.rps - a.rps) / s.dsc).sum
        | _ => 0).sum
      + ((List.range N).map fun w => s.b.accumulated w + s.b.remaining w).sum
      + s.undistributed ≤ s.reserve :=
  cover_holdings_explicit (run_inv ops (inv_init epoch block dsc maxApr minUnbond perBlock accts wl))
    (run_potInv ops (posInv_init epoch block dsc maxApr minUnbond perBlock accts wl)
      (potInv_init epoch block dsc maxApr minUnbond perBlock accts wl))
    (run_boostInv ops (boostInv_init epoch block dsc maxApr minUnbond perBlock accts wl))
    (by show 0 < (run _ ops).dsc; rw [run_dsc]; exact hd) N

/-- the ghost ledger of outstanding unbond amounts is exact: in every reachable state it equals the
    units of all unbond tokens held by the accounts (minted by unstake, burned by unbond,
    conserved by transfers) -/
theorem unbond_ledger_exact (epoch block dsc maxApr minUnbond perBlock : Nat) (accts wl : List Nat)
    (ops : List Op) :
    let s := run (init epoch block dsc maxApr minUnbond perBlock accts wl) ops
    s.unbondOut =
      (((List.range (s.nonce + 1)).map fun n =>
        match s.md n with
        | some (.unbond _) => (s.accts.dedup.map fun a => s.hold a n).sum
        | _ => 0).sum : Nat) :=
  (run_unbInv ops (posInv_init epoch block dsc maxApr minUnbond perBlock accts wl)
    (unbInv_init epoch block dsc maxApr minUnbond perBlock accts wl)).explicit

/-- **principal backed, in terms of what is outstanding** (strengthens `principal_backed` of
    Props/C05Staking.lean, which states it with the ghost ledger): the staking tokens the contract
    holds beyond the capacity not yet accrued and the reserve are exactly the directly staked
    principal (supply minus proxy-virtual stake) plus the units of all outstanding unbond tokens -/
theorem principal_backed_outstanding (epoch block dsc maxApr minUnbond perBlock : Nat) (accts wl : List Nat)
    (ops : List Op) :
    let s := run (init epoch block dsc maxApr minUnbond perBlock accts wl) ops
    (s.bal : Int) - ((s.capacity - s.accumulated : Nat) : Int) - s.reserve
      = ((s.supply : Int) - s.virt) +
        (((List.range (s.nonce + 1)).map fun n =>
          match s.md n with
          | some (.unbond _) => (s.accts.dedup.map fun a => s.hold a n).sum
          | _ => 0).sum : Nat) :=
  principal_explicit (run_inv ops (inv_init epoch block dsc maxApr minUnbond perBlock accts wl))
    (run_unbInv ops (posInv_init epoch block dsc maxApr minUnbond perBlock accts wl)
      (unbInv_init epoch block dsc maxApr minUnbond perBlock accts wl))

/-- non-vacuity: two stakers, boosted percentage 25 %; user 1 claims the boosted rewards of week 1
    (the rest of that week's pool stays frozen in `remaining 1`), claims base rewards on half of its
    position in week 2, more rewards accrue in week 2 (`accumulated 2`).  Claimable base
    10312 + 20625, pools 2500 + 1250: 34687 ≤ reserve 34688 (one unit lost to a floor). -/
example :
    let s := run (init 5 10 1000000000000 1000000 5 5000 [1, 2, 101] [101])
      [.topUp 100000000, .setBoostedPct 2500, .setFactors ⟨10, 3, 2, 1, 1⟩, .setEnergy 1 10000 100,
       .stake 1 none 100000000000 [], .stake 2 none 100000000000 [], .advance 10 0,
       .claimBoosted 1 none, .advance 1 7, .claim 1 none (1, 50000000000), .advance 5 0]
    s.reserve = 34688 ∧ s.rps = 206250 ∧
    s.hold 1 1 * s.rps / s.dsc = 10312 ∧ s.hold 2 2 * s.rps / s.dsc = 20625 ∧
    s.b.remaining 1 = 2500 ∧ s.b.accumulated 2 = 1250 ∧ s.undistributed = 0 ∧
    s.paidBase = 10312 ∧ s.paidBoosted = 10000 ∧ s.baseBudget = 41250 ∧ s.boostedBudget = 13750 := by
  decide

end Mx.C05StakingCover
