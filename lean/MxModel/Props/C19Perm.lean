/-
  C19 — authorisation and pause: ARBITRARY ROLE ASSIGNMENT (audit gap 21).

  The table theorems of Props/C19.lean speak about the deployment of the matrix world (`deployed c`).  This file is
  about the permission bit-set machine (`common/modules/permissions_module`: OWNER | ADMIN | PAUSE per address) and the
  pausable machine (`common/modules/pausable`) started from ANY permission assignment `s0 : PermSt` — whatever `init`
  or an upgrade wrote — and run through ANY history of `addAdmin / removeAdmin / addToPauseWhitelist /
  removeFromPauseWhitelist / updateOwnerOrAdmin` (and `pause / resume / setStateActiveNoSwaps`) calls by any callers.

  Reading of the Rust (permissions_module.rs, pausable.rs), as transcribed in Core/Access.lean:
    addAdmin, removeAdmin, addToPauseWhitelist, removeFromPauseWhitelist   `require_caller_has_owner_permissions`
                                                                           (OWNER bit of the caller; ADMIN is not enough)
    updateOwnerOrAdmin(prev)      `#[only_owner]` (blockchain-level owner); permissions(prev) are MOVED to the caller:
                                  `prev` is cleared and the caller's own bit-set is OVERWRITTEN (not united)
    pause, resume                 PAUSE bit;     setStateActiveNoSwaps (pair)   OWNER bit
  There is no other writer of the permission storage after `init` (`set_permissions`, `add_permissions_for_all` are
  internal functions called from `init` only): that is the arbitrary initial assignment `s0`.

  Vocabulary (Lemmas/AccessPermRun.lean): `Bit`, `Perm.get`, `PermOp.effect s o a b` (what a successful `o` run in state `s`
  does to bit `b` of address `a`: `some true` grants, `some false` revokes, `none` leaves it), `PermSt.Untouched v a b s ops`
  (no successful operation of the history sets the bit to `v`; split-the-history form) and its decidable twin
  `PermSt.noSet`, `PermSt.Granted s0 ops a b` (a successful operation of the history grants the bit and its caller held
  OWNER at that moment or is the contract owner).
  Only property theorems live here; helper lemmas are in Lemmas/AccessPermRun.lean.
-/
import MxModel.Lemmas.AccessPermRun
import MxModel.Props.C19

namespace Mx.C19Perm
open Mx.Access

-- =====================================================================================
-- the contract owner is well defined
-- =====================================================================================

/-- No permission operation, successful or not, by anybody, changes who the blockchain-level owner of the contract is:
    "the contract owner" means the same account before and after every history. -/
theorem perm_contract_owner_constant (s0 : PermSt) (ops : List PermOp) : (s0.run ops).scOwner = s0.scOwner :=
  PermSt.run_scOwner s0 ops

-- =====================================================================================
-- one operation: exact effect, and who is behind a grant
-- =====================================================================================

/-- Exact effect of one successful operation, for every address and every bit, from every state: the bit becomes
    what `effect` says (granted / revoked), and is unchanged when `effect` says nothing. -/
theorem perm_step_effect {s s' : PermSt} {o : PermOp} (h : s.step o = some s') (a : Addr) (b : Bit) :
    (s'.perms a).get b = (o.effect s a b).getD ((s.perms a).get b) :=
  PermSt.step_get h a b

/-- Who is behind a grant, in every state: bit `b` of `a` is granted only by `addAdmin` (ADMIN) or
    `addToPauseWhitelist` (PAUSE) from a caller holding the OWNER bit at that moment — ADMIN or PAUSE do not suffice —
    or by the contract owner itself taking over, through `updateOwnerOrAdmin`, the bit-set of another address that holds
    the bit at that moment.  In particular nobody but the contract owner ever GAINS the OWNER bit. -/
theorem perm_grant_needs_authority {s s' : PermSt} {o : PermOp} (h : s.step o = some s') {a : Addr} {b : Bit}
    (he : o.effect s a b = some true) :
    (∃ c, o = .addAdmin c a ∧ b = .admin ∧ (s.perms c).owner = true) ∨
    (∃ c, o = .addPause c a ∧ b = .pause ∧ (s.perms c).owner = true) ∨
    (∃ prev, o = .updateOwnerOrAdmin a prev ∧ a = s.scOwner ∧ prev ≠ a ∧ (s.perms prev).get b = true) :=
  PermSt.grant_cases h he

-- =====================================================================================
-- every history from every initial assignment: last relevant operation wins
-- =====================================================================================

/-- LAST RELEVANT OPERATION WINS (both directions, grant and revoke alike).  From any initial assignment `s0`, after
    any history `ops`, bit `b` of address `a` has value `v` if and only if
      either it had value `v` at the start and no successful operation of the history set it to `!v`,
      or some successful operation of the history set it to `v` and no successful operation after it set it to `!v`.
    With `v = true`: a permission held at the end was held from the start and never revoked, or was granted and not
    revoked afterwards.  With `v = false`: a permission is absent at the end iff it was never there and never granted,
    or the last successful operation touching it was a revocation. -/
theorem perm_bit_last_op_wins (s0 : PermSt) (ops : List PermOp) (a : Addr) (b : Bit) (v : Bool) :
    ((s0.run ops).perms a).get b = v ↔
      ((s0.perms a).get b = v ∧ s0.Untouched (!v) a b ops) ∨
      ∃ pre o post s', ops = pre ++ o :: post ∧ (s0.run pre).step o = some s' ∧
        o.effect (s0.run pre) a b = some v ∧ s'.Untouched (!v) a b post := by
  rw [PermSt.run_get_iff]
  constructor
  · rintro (⟨h1, h2⟩ | ⟨pre, o, post, s', h1, h2, h3, h4⟩)
    · exact Or.inl ⟨h1, (PermSt.noSet_iff _ _ _ _ _).mp h2⟩
    · exact Or.inr ⟨pre, o, post, s', h1, h2, h3, (PermSt.noSet_iff _ _ _ _ _).mp h4⟩
  · rintro (⟨h1, h2⟩ | ⟨pre, o, post, s', h1, h2, h3, h4⟩)
    · exact Or.inl ⟨h1, (PermSt.noSet_iff _ _ _ _ _).mpr h2⟩
    · exact Or.inr ⟨pre, o, post, s', h1, h2, h3, (PermSt.noSet_iff _ _ _ _ _).mpr h4⟩

/-- the same with the decidable replay `noSet` (what the closed examples below evaluate) -/
theorem perm_bit_last_op_wins_dec (s0 : PermSt) (ops : List PermOp) (a : Addr) (b : Bit) (v : Bool) :
    ((s0.run ops).perms a).get b = v ↔
      ((s0.perms a).get b = v ∧ PermSt.noSet (!v) a b s0 ops = true) ∨
      ∃ pre o post s', ops = pre ++ o :: post ∧ (s0.run pre).step o = some s' ∧
        o.effect (s0.run pre) a b = some v ∧ PermSt.noSet (!v) a b s' post = true :=
  PermSt.run_get_iff s0 ops a b v

/-- the decidable replay means what it should: `noSet v a b s ops` iff no successful operation of the history, run from
    `s`, has effect `some v` on bit `b` of `a` -/
theorem perm_noSet_meaning (v : Bool) (a : Addr) (b : Bit) (s : PermSt) (ops : List PermOp) :
    PermSt.noSet v a b s ops = true ↔
      ∀ pre o post s', ops = pre ++ o :: post → (s.run pre).step o = some s' → o.effect (s.run pre) a b ≠ some v :=
  PermSt.noSet_iff v a b s ops

/-- Revocation is effective for good: if a successful operation of the history revokes bit `b` of `a` (`removeAdmin`,
    `removeFromPauseWhitelist`, or an `updateOwnerOrAdmin` that clears / overwrites it) and no successful operation
    after it grants the bit again, the bit is clear at the end — whatever else happens in between. -/
theorem perm_revoked_stays_revoked (s0 : PermSt) (pre post : List PermOp) (o : PermOp) (s' : PermSt) (a : Addr) (b : Bit)
    (hstep : (s0.run pre).step o = some s') (hrev : o.effect (s0.run pre) a b = some false)
    (hno : s'.Untouched true a b post) : ((s0.run (pre ++ o :: post)).perms a).get b = false :=
  (perm_bit_last_op_wins s0 (pre ++ o :: post) a b false).mpr (Or.inr ⟨pre, o, post, s', rfl, hstep, hrev, hno⟩)

/-- … and a grant lasts exactly until the next successful revocation: granted and not revoked afterwards means held
    at the end. -/
theorem perm_granted_stays_granted (s0 : PermSt) (pre post : List PermOp) (o : PermOp) (s' : PermSt) (a : Addr) (b : Bit)
    (hstep : (s0.run pre).step o = some s') (hgr : o.effect (s0.run pre) a b = some true)
    (hno : s'.Untouched false a b post) : ((s0.run (pre ++ o :: post)).perms a).get b = true :=
  (perm_bit_last_op_wins s0 (pre ++ o :: post) a b true).mpr (Or.inr ⟨pre, o, post, s', rfl, hstep, hgr, hno⟩)

-- =====================================================================================
-- provenance
-- =====================================================================================

/-- PROVENANCE.  From any initial assignment, after any history: an address holds a permission bit only if it held it
    at the start, or a successful operation of the history granted it and the caller of that operation was authorised
    AT THE TIME IT RAN (held OWNER in the state the operation ran in, or is the contract owner). -/
theorem perm_bit_provenance (s0 : PermSt) (ops : List PermOp) (a : Addr) (b : Bit)
    (h : ((s0.run ops).perms a).get b = true) :
    (s0.perms a).get b = true ∨
    ∃ pre o post s', ops = pre ++ o :: post ∧ (s0.run pre).step o = some s' ∧
      o.effect (s0.run pre) a b = some true ∧
      (((s0.run pre).perms o.caller).owner = true ∨ o.caller = s0.scOwner) :=
  PermSt.run_provenance s0 ops a b h

/-- Provenance with the granting operation spelled out: held at the start, or `addAdmin c a` / `addToPauseWhitelist c a`
    occurs in the history at a point where `c` held OWNER, or `a` is the contract owner and an `updateOwnerOrAdmin a prev`
    occurs at a point where `prev` held the bit. -/
theorem perm_bit_provenance_explicit (s0 : PermSt) (ops : List PermOp) (a : Addr) (b : Bit)
    (h : ((s0.run ops).perms a).get b = true) :
    (s0.perms a).get b = true ∨
    (∃ pre c post, ops = pre ++ .addAdmin c a :: post ∧ b = .admin ∧ ((s0.run pre).perms c).owner = true) ∨
    (∃ pre c post, ops = pre ++ .addPause c a :: post ∧ b = .pause ∧ ((s0.run pre).perms c).owner = true) ∨
    (∃ pre prev post, ops = pre ++ .updateOwnerOrAdmin a prev :: post ∧ a = s0.scOwner ∧ prev ≠ a ∧
        ((s0.run pre).perms prev).get b = true) := by
  rcases PermSt.run_provenance s0 ops a b h with h0 | ⟨pre, o, post, s', h1, h2, h3, _⟩
  · exact Or.inl h0
  · rcases PermSt.grant_cases h2 h3 with ⟨c, hc1, hc2, hc3⟩ | ⟨c, hc1, hc2, hc3⟩ | ⟨prev, hc1, hc2, hc3, hc4⟩
    · subst hc1; exact Or.inr (Or.inl ⟨pre, c, post, h1, hc2, hc3⟩)
    · subst hc1; exact Or.inr (Or.inr (Or.inl ⟨pre, c, post, h1, hc2, hc3⟩))
    · subst hc1
      rw [PermSt.run_scOwner] at hc2
      exact Or.inr (Or.inr (Or.inr ⟨pre, prev, post, h1, hc2, hc3, hc4⟩))

/-- ADMIN bit: held at the start, granted by `addAdmin` from a caller holding OWNER at that moment, or moved to the
    contract owner from an address that was an admin at that moment. -/
theorem perm_admin_provenance (s0 : PermSt) (ops : List PermOp) (a : Addr)
    (h : ((s0.run ops).perms a).admin = true) :
    (s0.perms a).admin = true ∨
    (∃ pre c post, ops = pre ++ .addAdmin c a :: post ∧ ((s0.run pre).perms c).owner = true) ∨
    (∃ pre prev post, ops = pre ++ .updateOwnerOrAdmin a prev :: post ∧ a = s0.scOwner ∧ prev ≠ a ∧
        ((s0.run pre).perms prev).admin = true) := by
  rcases perm_bit_provenance_explicit s0 ops a .admin h with h0 | ⟨p, c, q, h1, _, h3⟩ | ⟨_, _, _, _, hb, _⟩ | h4
  · exact Or.inl h0
  · exact Or.inr (Or.inl ⟨p, c, q, h1, h3⟩)
  · cases hb
  · exact Or.inr (Or.inr h4)

/-- PAUSE bit: held at the start, granted by `addToPauseWhitelist` from a caller holding OWNER at that moment, or moved
    to the contract owner from an address that held it at that moment. -/
theorem perm_pause_provenance (s0 : PermSt) (ops : List PermOp) (a : Addr)
    (h : ((s0.run ops).perms a).pause = true) :
    (s0.perms a).pause = true ∨
    (∃ pre c post, ops = pre ++ .addPause c a :: post ∧ ((s0.run pre).perms c).owner = true) ∨
    (∃ pre prev post, ops = pre ++ .updateOwnerOrAdmin a prev :: post ∧ a = s0.scOwner ∧ prev ≠ a ∧
        ((s0.run pre).perms prev).pause = true) := by
  rcases perm_bit_provenance_explicit s0 ops a .pause h with h0 | ⟨_, _, _, _, hb, _⟩ | ⟨p, c, q, h1, _, h3⟩ | h4
  · exact Or.inl h0
  · cases hb
  · exact Or.inr (Or.inl ⟨p, c, q, h1, h3⟩)
  · exact Or.inr (Or.inr h4)

/-- OWNER bit: held at the start, or `a` is the contract owner and took it over, by `updateOwnerOrAdmin`, from an address
    that held it at that moment.  No endpoint grants OWNER to anybody else. -/
theorem perm_owner_provenance (s0 : PermSt) (ops : List PermOp) (a : Addr)
    (h : ((s0.run ops).perms a).owner = true) :
    (s0.perms a).owner = true ∨
    (∃ pre prev post, ops = pre ++ .updateOwnerOrAdmin a prev :: post ∧ a = s0.scOwner ∧ prev ≠ a ∧
        ((s0.run pre).perms prev).owner = true) := by
  rcases perm_bit_provenance_explicit s0 ops a .owner h with h0 | ⟨_, _, _, _, hb, _⟩ | ⟨_, _, _, _, hb, _⟩ | h4
  · exact Or.inl h0
  · cases hb
  · cases hb
  · exact Or.inr h4

/-- The OWNER bit is never minted.  After any history, whoever holds OWNER held it in the initial assignment, or is the
    contract owner — and then somebody held it in the initial assignment.  So the set of accounts that can ever
    grant or revoke anything is contained in {initial OWNER holders} ∪ {contract owner}, for every history. -/
theorem perm_owner_never_minted (s0 : PermSt) (ops : List PermOp) (a : Addr)
    (h : ((s0.run ops).perms a).owner = true) :
    (s0.perms a).owner = true ∨ (a = s0.scOwner ∧ ∃ p, (s0.perms p).owner = true) :=
  PermSt.run_owner_origin s0 ops a h

/-- Without an OWNER holder in the initial assignment nothing can be created: a bit that no address holds at the start
    is held by no address after any history (the contract owner's `updateOwnerOrAdmin` only MOVES bit-sets).  In
    particular an assignment without any OWNER never gets one. -/
theorem perm_bits_only_moved (s0 : PermSt) (hown : ∀ x, (s0.perms x).owner = false) (b : Bit)
    (hb : ∀ x, (s0.perms x).get b = false) (ops : List PermOp) (x : Addr) : ((s0.run ops).perms x).get b = false :=
  PermSt.run_no_bit s0 hown b hb ops x

/-- Generalisation of `C19.perm_guard_sound` from the matrix deployment to an arbitrary assignment and history: a caller
    that passes a permission-mask guard `require_caller_any_of(m)` after the history holds some bit of the mask, and
    that bit was his in the initial assignment or was granted by a caller authorised at the time. -/
theorem perm_guard_provenance (s0 : PermSt) (ops : List PermOp) (x : Addr) (m : Perm)
    (h : (s0.run ops).holds x m = true) :
    ∃ b, m.get b = true ∧ ((s0.perms x).get b = true ∨ s0.Granted ops x b) := by
  simp only [PermSt.holds, Perm.intersects, Bool.or_eq_true, Bool.and_eq_true] at h
  rcases h with (⟨h1, h2⟩ | ⟨h1, h2⟩) | ⟨h1, h2⟩
  · exact ⟨.owner, h2, PermSt.run_provenance s0 ops x .owner h1⟩
  · exact ⟨.admin, h2, PermSt.run_provenance s0 ops x .admin h1⟩
  · exact ⟨.pause, h2, PermSt.run_provenance s0 ops x .pause h1⟩

/-- what the guards decided by the permission storage answer in an ARBITRARY assignment `p`
    (`none`: the guard is decided by something else — whitelist, hub, router storage) -/
def permGuardOk (p : PermSt) : Guard → Addr → Option Bool
  | .scOwner, x => some (x == p.scOwner)
  | .perm m, x => some (p.holds x m)
  | _, _ => none

/-- the decision function of the access table is this guard evaluated in the matrix deployment -/
theorem permGuardOk_deployed (c : Contract) (g : Guard) (r : Role) (v : Bool)
    (h : permGuardOk (deployed c) g r.addr = some v) : guardOk c g r = v := by
  cases g <;> simp_all [permGuardOk, guardOk]

/-- Generalisation of `C19.admin_needs_role` to an arbitrary assignment: in EVERY permission assignment, every
    configuration / admin endpoint of every contract (other than the two router endpoints guarded by the router's
    stored owner) rejects an account that holds no permission bit and is not the contract owner. -/
theorem config_rejects_plain_account :
    ∀ c ∈ Contract.all, ∀ ent ∈ table c, ent.cls = .config → ent.guard ≠ .storedOwner →
      ∀ (p : PermSt) (x : Addr), p.perms x = Perm.none → x ≠ p.scOwner → permGuardOk p ent.guard x = some false := by
  intro c hc ent he hcls hns p x hx hsc
  have hr := Mx.C19.config_is_guarded c hc ent he hcls
  cases hg : ent.guard with
  | scOwner => simp [permGuardOk, hsc]
  | perm m => simp [permGuardOk, PermSt.holds, hx, Perm.intersects, Perm.none]
  | storedOwner => exact absurd hg hns
  | anyone => rw [hg] at hr; cases hr
  | whitelisted => rw [hg] at hr; cases hr
  | hubAgent => rw [hg] at hr; cases hr
  | adder => rw [hg] at hr; cases hr
  | nobody => rw [hg] at hr; cases hr

-- =====================================================================================
-- unauthorised histories
-- =====================================================================================

/-- If no caller of the history holds OWNER at the moment of its call and none is the contract owner, nothing changes:
    the final assignment IS the initial one.  (Callers are checked against the state at the time of each call.) -/
theorem perm_history_unauthorised_frozen_at_time (s0 : PermSt) (ops : List PermOp)
    (h : ∀ pre o post, ops = pre ++ o :: post →
      (s0.run pre).holds o.caller Perm.OWNER = false ∧ o.caller ≠ s0.scOwner) : s0.run ops = s0 :=
  PermSt.run_unauthorised_at_time s0 ops h

/-- `C19.perm_history_unauthorised_frozen` checks the callers against the INITIAL assignment only; that is the same
    condition as checking each caller at the time of its call (because nothing changes in between), so neither
    theorem is weaker than the other. -/
theorem perm_unauthorised_check_equiv (s0 : PermSt) (ops : List PermOp) :
    (∀ o ∈ ops, s0.holds o.caller Perm.OWNER = false ∧ o.caller ≠ s0.scOwner) ↔
    (∀ pre o post, ops = pre ++ o :: post →
      (s0.run pre).holds o.caller Perm.OWNER = false ∧ o.caller ≠ s0.scOwner) :=
  PermSt.unauthorised_iff s0 ops

/-- Contrapositive, with the witness: a history that changed anything contains a successful operation whose caller
    held OWNER at that moment or is the contract owner. -/
theorem perm_history_changed_has_authorised_op (s0 : PermSt) (ops : List PermOp) (h : s0.run ops ≠ s0) :
    ∃ pre o post s', ops = pre ++ o :: post ∧ (s0.run pre).step o = some s' ∧
      (((s0.run pre).perms o.caller).owner = true ∨ o.caller = s0.scOwner) :=
  PermSt.run_changed s0 ops h

-- =====================================================================================
-- pausable machine with an arbitrary permission assignment inside
-- =====================================================================================

/-- The permission storage inside the pausable machine evolves exactly as the permission machine alone, on the
    permission operations of the history: pause / resume / no-swaps calls never touch it.  (So every theorem above
    applies to `(s.run ops).perm` with history `permOps ops`.) -/
theorem pause_perm_projection (s : PauseSt) (ops : List PauseOp) : (s.run ops).perm = s.perm.run (permOps ops) :=
  PauseSt.run_perm s ops

/-- Kill switch, any initial state (any permission assignment inside), any history: the final value is the initial one,
    or it was written by a successful `pause` / `resume` of the history whose caller held PAUSE at that moment, or by
    a successful `setStateActiveNoSwaps` whose caller held OWNER at that moment. -/
theorem pause_kill_switch_provenance (s : PauseSt) (ops : List PauseOp) :
    (s.run ops).state = s.state ∨
    ∃ pre o post s' c, ops = pre ++ o :: post ∧ (s.run pre).step o = some s' ∧ o.sets = some (s.run ops).state ∧
      (((o = .pause c ∨ o = .resume c) ∧ ((s.run pre).perm.perms c).pause = true) ∨
       (o = .setActiveNoSwaps c ∧ ((s.run pre).perm.perms c).owner = true)) :=
  PauseSt.run_state s ops

/-- … and the right of that caller has its own provenance: if the kill switch differs from the initial one, some
    `pause` / `resume` (resp. `setStateActiveNoSwaps`) of the history was made by a caller `c` who held PAUSE (resp.
    OWNER) in the INITIAL assignment, or was granted it — by a caller authorised at the time — by a permission
    operation EARLIER in the same history.  For OWNER moreover: `c` held it initially, or is the contract owner. -/
theorem pause_kill_switch_caller_provenance (s : PauseSt) (ops : List PauseOp) (h : (s.run ops).state ≠ s.state) :
    ∃ pre o post c, ops = pre ++ o :: post ∧
      (((o = .pause c ∨ o = .resume c) ∧
          ((s.perm.perms c).pause = true ∨ s.perm.Granted (permOps pre) c .pause)) ∨
       (o = .setActiveNoSwaps c ∧
          ((s.perm.perms c).owner = true ∨ s.perm.Granted (permOps pre) c .owner) ∧
          ((s.perm.perms c).owner = true ∨ c = s.perm.scOwner))) := by
  rcases PauseSt.run_state s ops with h0 | ⟨pre, o, post, s', c, h1, _, _, h4⟩
  · exact absurd h0 h
  · refine ⟨pre, o, post, c, h1, ?_⟩
    rw [PauseSt.run_perm] at h4
    rcases h4 with ⟨ho, hp⟩ | ⟨ho, hp⟩
    · exact Or.inl ⟨ho, PermSt.run_provenance s.perm (permOps pre) c .pause hp⟩
    · refine Or.inr ⟨ho, PermSt.run_provenance s.perm (permOps pre) c .owner hp, ?_⟩
      rcases PermSt.run_owner_origin s.perm (permOps pre) c hp with h5 | ⟨h5, _⟩
      · exact Or.inl h5
      · exact Or.inr h5

/-- Corollary: if nobody holds PAUSE or OWNER in the initial assignment, the kill switch never moves, whatever is
    called by whomever (the contract owner included: `updateOwnerOrAdmin` only moves existing bits). -/
theorem pause_frozen_without_holders (s : PauseSt) (ops : List PauseOp)
    (hnone : ∀ x, (s.perm.perms x).owner = false ∧ (s.perm.perms x).pause = false) :
    (s.run ops).state = s.state := by
  rcases PauseSt.run_state s ops with h0 | ⟨pre, o, post, s', c, _, _, _, h4⟩
  · exact h0
  · exfalso
    rw [PauseSt.run_perm] at h4
    rcases h4 with ⟨_, hp⟩ | ⟨_, hp⟩
    · have := PermSt.run_no_bit s.perm (fun x => (hnone x).1) .pause (fun x => (hnone x).2) (permOps pre) c
      simp only [Perm.get] at this
      rw [this] at hp; cases hp
    · rw [PermSt.run_no_owner s.perm (fun x => (hnone x).1)] at hp; cases hp

-- =====================================================================================
-- non-vacuity: a NON-deployment assignment and a mixed history
-- =====================================================================================

/-- two OWNER holders (1, 2), an admin that also has PAUSE (3), a former owner (20) whose rights the contract owner (10)
    will take over; the contract owner itself holds no bit -/
def s0 : PermSt :=
  { scOwner := 10
    perms := setAt (setAt (setAt (setAt (fun _ => Perm.none) 1 Perm.OWNER) 2 Perm.OWNER) 3 ⟨false, true, true⟩)
               20 ⟨true, false, true⟩ }

def hist : List PermOp :=
  [ .addAdmin 3 4,               -- fails: 3 is ADMIN|PAUSE, not OWNER
    .addAdmin 1 4,               -- granted … (revoked below)
    .addPause 2 5,               -- granted and kept
    .addAdmin 10 6,              -- fails: the contract owner holds no OWNER bit yet
    .updateOwnerOrAdmin 10 20,   -- the contract owner takes over OWNER|PAUSE of 20; 20 is cleared
    .addAdmin 10 6,              -- … and now grants successfully
    .removeAdmin 2 4,            -- revokes the grant of step 2 (another owner than the granter)
    .addPause 20 7,              -- fails: 20 lost OWNER
    .removePause 5 3,            -- fails: 5 only holds PAUSE
    .updateOwnerOrAdmin 1 2 ]    -- fails: 1 holds OWNER but is not the contract owner

/-- the final assignment, address by address -/
example :
    (s0.run hist).perms 1 = Perm.OWNER ∧ (s0.run hist).perms 2 = Perm.OWNER ∧
    (s0.run hist).perms 3 = ⟨false, true, true⟩ ∧ (s0.run hist).perms 4 = Perm.none ∧
    (s0.run hist).perms 5 = Perm.PAUSE ∧ (s0.run hist).perms 6 = Perm.ADMIN ∧ (s0.run hist).perms 7 = Perm.none ∧
    (s0.run hist).perms 10 = ⟨true, false, true⟩ ∧ (s0.run hist).perms 20 = Perm.none := by decide

/-- which operations succeed -/
example :
    ((List.range hist.length).map fun i => ((hist[i]?).bind fun o => (s0.run (hist.take i)).step o).isSome)
    = [false, true, true, false, true, true, true, false, false, false] := by decide

/-- hypotheses of the provenance theorems are met with the SECOND alternative: 6 is an admin at the end and was not at
    the start, so the theorem produces the grant (by 10, who got OWNER from `updateOwnerOrAdmin` in the same history) -/
example : s0.Granted hist 6 .admin :=
  (PermSt.run_provenance s0 hist 6 .admin (by decide)).resolve_left (by decide)

example : ∃ pre prev post, hist = pre ++ .updateOwnerOrAdmin 10 prev :: post ∧ (10 : Addr) = s0.scOwner ∧ prev ≠ 10 ∧
    ((s0.run pre).perms prev).owner = true :=
  (perm_owner_provenance s0 hist 10 (by decide)).resolve_left (by decide)

/-- last operation wins, both ways: the grant to 4 is revoked (a revoking operation succeeds), the grant to 5 is kept
    (no revocation of (5, PAUSE) succeeds), the initial bits of 20 are gone, the initial bits of 3 are untouched -/
example :
    PermSt.noSet false 4 .admin s0 hist = false ∧ ((s0.run hist).perms 4).get .admin = false ∧
    PermSt.noSet false 5 .pause s0 hist = true ∧ ((s0.run hist).perms 5).get .pause = true ∧
    PermSt.noSet false 20 .owner s0 hist = false ∧ ((s0.run hist).perms 20).get .owner = false ∧
    PermSt.noSet false 3 .pause s0 hist = true ∧ PermSt.noSet true 3 .owner s0 hist = true := by decide

/-- `perm_revoked_stays_revoked` instantiated: split at the successful `removeAdmin 2 4` -/
example : ((s0.run hist).perms 4).get .admin = false := by
  refine perm_revoked_stays_revoked s0 (hist.take 6) (hist.drop 7) (.removeAdmin 2 4)
    (match (s0.run (hist.take 6)).step (.removeAdmin 2 4) with | some t => t | none => s0) 4 .admin ?_ (by decide) ?_
  · rfl
  · exact (PermSt.noSet_iff _ _ _ _ _).mp (by decide)

/-- an unauthorised history (callers 3, 5, 7: ADMIN|PAUSE, nothing, nothing) changes nothing, checked at the time of call -/
example : s0.run [.addAdmin 3 4, .removePause 5 3, .updateOwnerOrAdmin 3 2, .addPause 7 7] = s0 :=
  perm_history_unauthorised_frozen_at_time s0 _ ((perm_unauthorised_check_equiv s0 _).mp (by decide))

/-- NOTE (behaviour of the real code, not a violation of the property): `updateOwnerOrAdmin` OVERWRITES the caller's own
    bit-set.  A contract owner that already holds OWNER|PAUSE and names an address without permissions loses all of
    its own permissions — this is why `updateOwnerOrAdmin` counts as a revoking operation for its caller. -/
example :
    let s1 := s0.run [.updateOwnerOrAdmin 10 20]
    (s1.perms 10 = ⟨true, false, true⟩) ∧ ((s1.run [.updateOwnerOrAdmin 10 99]).perms 10 = Perm.none) := by decide

/-- an assignment WITHOUT any OWNER holder (hypothesis of `perm_bits_only_moved`): the contract owner can move the
    ADMIN|PAUSE of 3 to itself, but still cannot grant anything, and nobody ever holds OWNER -/
def sNoOwner : PermSt := { scOwner := 10, perms := setAt (fun _ => Perm.none) 3 ⟨false, true, true⟩ }

example : ∀ x, (sNoOwner.perms x).owner = false := by
  intro x; simp only [sNoOwner, setAt]; split <;> rfl

example :
    let s1 := sNoOwner.run [.updateOwnerOrAdmin 10 3, .addAdmin 10 4, .addPause 3 4]
    s1.perms 10 = ⟨false, true, true⟩ ∧ s1.perms 3 = Perm.none ∧ s1.perms 4 = Perm.none := by decide

example (ops : List PermOp) (x : Addr) : ((sNoOwner.run ops).perms x).owner = false :=
  perm_bits_only_moved sNoOwner (by intro x; simp only [sNoOwner, setAt]; split <;> rfl) .owner
    (by intro x; simp only [sNoOwner, setAt, Perm.get]; split <;> rfl) ops x

/-- pausable machine on the same assignment: 3 (PAUSE from the start) pauses, 5 (PAUSE granted inside the history)
    resumes, 6 (admin only) cannot pause, 10 (OWNER taken over) sets no-swaps -/
example :
    let p : PauseSt := { perm := s0, state := .active }
    (p.run [.pause 3]).state = .inactive ∧
    (p.run [.pause 3, .perm (.addPause 2 5), .resume 5]).state = .active ∧
    (p.run [.perm (.addAdmin 1 6), .pause 6]).state = .active ∧
    (p.run [.setActiveNoSwaps 10]).state = .active ∧
    (p.run [.perm (.updateOwnerOrAdmin 10 20), .setActiveNoSwaps 10]).state = .partialActive := by decide

example : ∃ pre o post c, [PauseOp.pause 3, .perm (.addPause 2 5), .resume 5, .pause 5] = pre ++ o :: post ∧
      (((o = .pause c ∨ o = .resume c) ∧ ((s0.perms c).pause = true ∨ s0.Granted (permOps pre) c .pause)) ∨
       (o = .setActiveNoSwaps c ∧ ((s0.perms c).owner = true ∨ s0.Granted (permOps pre) c .owner) ∧
          ((s0.perms c).owner = true ∨ c = s0.scOwner))) :=
  pause_kill_switch_caller_provenance { perm := s0, state := .active } _ (by decide)

end Mx.C19Perm
