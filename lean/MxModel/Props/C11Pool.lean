/-
  C11 — run-level corollaries of the boosted-pool invariant (dex/farm, dex/farm-with-locked-rewards):
  "the sum paid for a week never exceeds R" and "undistributed rewards are collected once", for
  EVERY reachable state (Props/C11.lean has the per-operation statements).

  Ghosts of Core/Farm.lean: `cutW w` = Σ boosted cut accumulated into week `w`'s pool (everything the
  week ever had — the frozen amount `R` of the week is at most this), `paidW w` = Σ boosted rewards
  paid out of it, `collW w` = what was moved from it to `undistributedBoostedRewards`,
  `accum w` / `remaining w` = the two storage cells of the pool, `lastCollect` =
  `lastUndistributedBoostedRewardsCollectWeek`.

  Closest true statements where the property's wording needed adapting:
  * the bound is against `cutW w` (all that was ever put into the week's pool); the frozen amount
    `R = totalRewardsForWeek(w)` is the accumulated part at freeze time, and the life-cycle equation
    `accum + remaining + paid + collected = cut` is exact;
  * "collected once": a week's `collW` changes at most once, from 0 to the pool then remaining (which
    is emptied), exactly when the collection marker passes the week; the marker never moves back.
  Lemmas: Lemmas/FarmPool.lean (`PoolInv`), Lemmas/FarmColl.lean (`CollMove`, `CollInv`).
-/
import MxModel.Lemmas.FarmColl

namespace Mx.C11Pool
open Mx.Farm

/-- **week_pool_life_cycle.**  In every reachable state, for every week `w`: what is still
    accumulated or frozen-and-unpaid, what was paid and what was collected as undistributed add up to
    exactly what was ever cut into that week's pool. -/
theorem week_pool_life_cycle (kind : Kind) (same : Bool) (dsc pb : Nat) (produce : Bool)
    (users : List Nat) (e0 : Nat) (ops : List Op) (w : Nat) :
    let s := run (init kind same dsc pb produce users e0) ops
    s.b.accum w + s.b.remaining w + s.b.paidW w + s.b.collW w = s.b.cutW w :=
  (reachable_poolInv kind same dsc pb produce users e0 ops).week w

/-- **week_paid_le_pool.**  The sum paid for a week never exceeds the week's pool — not even together
    with what was collected from it and what is still in it. -/
theorem week_paid_le_pool (kind : Kind) (same : Bool) (dsc pb : Nat) (produce : Bool)
    (users : List Nat) (e0 : Nat) (ops : List Op) (w : Nat) :
    let s := run (init kind same dsc pb produce users e0) ops
    s.b.paidW w ≤ s.b.cutW w ∧ s.b.paidW w + s.b.collW w ≤ s.b.cutW w ∧
      s.b.paidW w + s.b.remaining w ≤ s.b.cutW w := by
  intro s
  have h : s.b.accum w + s.b.remaining w + s.b.paidW w + s.b.collW w = s.b.cutW w :=
    (reachable_poolInv kind same dsc pb produce users e0 ops).week w
  omega

/-- nothing is ever accumulated, paid or collected for a week after the current one -/
theorem future_weeks_empty (kind : Kind) (same : Bool) (dsc pb : Nat) (produce : Bool)
    (users : List Nat) (e0 : Nat) (ops : List Op) (W w : Nat) :
    let s := run (init kind same dsc pb produce users e0) ops
    s.week = some W → W < w →
      s.b.cutW w = 0 ∧ s.b.paidW w = 0 ∧ s.b.collW w = 0 ∧ s.b.accum w = 0 ∧ s.b.remaining w = 0 := by
  intro s hW hw
  have hI := reachable_poolInv kind same dsc pb produce users e0 ops
  have h1 : s.b.cutW w = 0 := hI.fut W w hW hw
  have h2 : s.b.accum w + s.b.remaining w + s.b.paidW w + s.b.collW w = s.b.cutW w := hI.week w
  omega

/-- **pool_ledgers.**  The per-week ghosts are the global counters, week by week:
    Σ cut + base budget = generated, Σ paid = boosted rewards paid, Σ collected = undistributed. -/
theorem pool_ledgers (kind : Kind) (same : Bool) (dsc pb : Nat) (produce : Bool)
    (users : List Nat) (e0 : Nat) (ops : List Op) (W : Nat) :
    let s := run (init kind same dsc pb produce users e0) ops
    s.week = some W →
      ((List.range (W + 1)).map s.b.cutW).sum + s.baseBudget = s.generated ∧
      ((List.range (W + 1)).map s.b.paidW).sum = s.paidBoosted ∧
      ((List.range (W + 1)).map s.b.collW).sum = s.undist := by
  intro s hW
  have hI := reachable_poolInv kind same dsc pb produce users e0 ops
  exact ⟨hI.cut W hW, hI.paid W hW, hI.coll W hW⟩

/-- all boosted rewards ever paid, all undistributed rewards and all pools together are exactly the
    boosted share of the emission: total boosted payments never exceed Σ_w R_w -/
theorem boosted_paid_le_cut (kind : Kind) (same : Bool) (dsc pb : Nat) (produce : Bool)
    (users : List Nat) (e0 : Nat) (ops : List Op) (W : Nat) :
    let s := run (init kind same dsc pb produce users e0) ops
    s.week = some W →
      s.paidBoosted + s.undist + ((List.range (W + 1)).map fun w => s.b.accum w + s.b.remaining w).sum
        = ((List.range (W + 1)).map s.b.cutW).sum := by
  intro s hW
  have hI := reachable_poolInv kind same dsc pb produce users e0 ops
  have h1 := pools_eq hI hW
  have h2 : ((List.range (W + 1)).map s.b.cutW).sum + s.baseBudget = s.generated := hI.cut W hW
  have h3 : ((List.range (W + 1)).map fun w => s.b.accum w + s.b.remaining w).sum + s.undist +
      s.paidBoosted + s.baseBudget = s.generated := h1
  omega

/-- **collected_once (one operation).**  In every reachable state, whatever the next operation is, for
    every week `w`: either the week's collected ghost does not change, or it goes from 0 to the pool
    then remaining, the pool is emptied, and the collection marker has just passed `w`.  Weeks at or
    below the marker never change again, and the marker never moves back. -/
theorem collected_once (kind : Kind) (same : Bool) (dsc pb : Nat) (produce : Bool)
    (users : List Nat) (e0 : Nat) (ops : List Op) {op : Op} {s' : St} {o : Out} :
    let s := run (init kind same dsc pb produce users e0) ops
    step s op = some (s', o) →
    s.lastCollect ≤ s'.lastCollect ∧
    ∀ w,
      (s'.b.collW w = s.b.collW w ∨
        (s.lastCollect < w ∧ w ≤ s'.lastCollect ∧ s.b.collW w = 0 ∧
          s'.b.collW w = s.b.remaining w ∧ s'.b.remaining w = 0)) ∧
      (w ≤ s.lastCollect → s'.b.collW w = s.b.collW w) := by
  intro s h
  have hI : CollInv s := (run_collInv ops (init_collInv kind same dsc pb produce users e0)).1
  rcases step_collMove h with hc | ⟨h1, _, h3, h4⟩
  · simp only [cl, Prod.mk.injEq] at hc
    obtain ⟨e1, e2⟩ := hc
    refine ⟨by omega, fun w => ⟨Or.inl (by rw [e1]), fun _ => by rw [e1]⟩⟩
  · refine ⟨by omega, fun w => ⟨?_, fun hw => (h4 w (Or.inl hw)).1⟩⟩
    by_cases hw : s.lastCollect < w ∧ w ≤ s'.lastCollect
    · obtain ⟨j1, j2⟩ := h3 w hw.1 hw.2
      have hz := hI w hw.1
      exact Or.inr ⟨hw.1, hw.2, hz, by rw [j1, hz, Nat.zero_add], j2⟩
    · exact Or.inl (h4 w (by omega)).1

/-- **collected_once (reachable states).**  A week above the collection marker has never been
    collected; so (with `collected_once`) every week is collected at most once over a whole history. -/
theorem uncollected_above_marker (kind : Kind) (same : Bool) (dsc pb : Nat) (produce : Bool)
    (users : List Nat) (e0 : Nat) (ops : List Op) (w : Nat) :
    let s := run (init kind same dsc pb produce users e0) ops
    s.lastCollect < w → s.b.collW w = 0 :=
  fun hw => (run_collInv ops (init_collInv kind same dsc pb produce users e0)).1 w hw

/-- only `collectUndistributedBoostedRewards` collects: any other operation leaves every `collW w` and
    the marker alone -/
theorem only_collect_collects {s s' : St} {op : Op} {o : Out} (h : step s op = some (s', o))
    (hop : ∀ c, op ≠ .collect c) : s'.b.collW = s.b.collW ∧ s'.lastCollect = s.lastCollect := by
  have hc := step_cl_of_not_collect h hop
  simp only [cl, Prod.mk.injEq] at hc
  exact hc

/-- non-vacuity: two users with equal energy and position, only user 1 claims week 1's pool (2500):
    1247 paid, the other 1253 collected in week 7 (marker → 2); a second collection in the same week
    and one in week 8 (marker → 3) leave week 1 alone -/
example :
    let s := run (init .mint false 1000000000000 1000 true [1, 2] 0)
      [.setFactors OWNER ⟨10, 3, 2, 1, 1⟩, .setPct OWNER 2500, .setEnergy 1 1000000 0 1000,
       .setEnergy 2 1000000 0 1000, .enter 1 none 100 [], .enter 2 none 100 [], .advance 10 6,
       .claim 1 none [(1, 100)], .advance 10 7, .claimBoosted 1 none, .advance 10 42, .collect OWNER]
    let s' := run s [.collect OWNER, .advance 10 49, .collect OWNER]
    s.week = some 7 ∧ s.lastCollect = 2 ∧ s.b.cutW 1 = 2500 ∧ s.b.paidW 1 = 1247 ∧
    s.b.collW 1 = 1253 ∧ s.b.remaining 1 = 0 ∧ s.undist = 1253 ∧ s.paidBoosted = 1247 ∧
    s'.lastCollect = 3 ∧ s'.b.collW 1 = 1253 ∧ s'.undist = 1253 := by
  decide

end Mx.C11Pool
