/-
  KPd — the price-discovery model (`Core/PriceDiscovery.lean`) computes what the SOURCE of
  `dex/price-discovery/src/{phase.rs, lib.rs}` computes.

  `Gen/KPd.lean` is regenerated on every run by `bin/gen-kernels`.  `get_current_phase` returns the
  `Phase` enum as a pair (variant index, payload): `Idle = 0`, `NoPenalty = 1`,
  `LinearIncreasingPenalty { penalty_percentage } = 2`, `OnlyWithdrawFixedPenalty { … } = 3`,
  `Redeem = 4`; the payload is the penalty percentage (0 for the variants without one).  In the
  model that pair is `(Phase.rank, Phase.pct)` of `Cfg.phaseAt`.
-/
import MxModel.Gen.KPd
import MxModel.Core.PriceDiscovery

namespace Mx.KPd
open Mx Mx.Gen Mx.PD

/-- the (variant index, penalty percentage) encoding of a model phase -/
theorem phase_encoding :
    (Phase.idle.rank, Phase.idle.pct) = (0, 0) ∧ (Phase.noPenalty.rank, Phase.noPenalty.pct) = (1, 0) ∧
    (∀ p, ((Phase.linear p).rank, (Phase.linear p).pct) = (2, p)) ∧
    (∀ p, ((Phase.fixed p).rank, (Phase.fixed p).pct) = (3, p)) ∧
    (Phase.redeem.rank, Phase.redeem.pct) = (4, 0) :=
  ⟨rfl, rfl, fun _ => rfl, fun _ => rfl, rfl⟩

/-- source `get_current_phase` = model `phaseAt` (variant and penalty percentage), for a
    configuration with `min ≤ max` (guaranteed by `init`, `Cfg.ok`); it never aborts then -/
theorem get_current_phase_eq (c : Cfg) (b : Nat) (hmm : c.pmin ≤ c.pmax) :
    KPd.get_current_phase b c.pfix c.d3 c.d2 c.d1 c.pmax c.pmin c.start =
      some ((c.phaseAt b).rank, (c.phaseAt b).pct) := by
  by_cases h0 : b < c.start
  · have hp : c.phaseAt b = .idle := by simp only [Cfg.phaseAt, if_pos h0]
    rw [hp]
    simp only [KPd.get_current_phase, if_pos h0, Option.pure_def, Phase.rank, Phase.pct]
  · by_cases h1 : b < c.start + c.d1
    · have hp : c.phaseAt b = .noPenalty := by
        have h1' : b < c.e1 := h1
        simp only [Cfg.phaseAt, if_neg h0, if_pos h1']
      rw [hp]
      simp only [KPd.get_current_phase, if_neg h0, if_pos h1, Option.pure_def, Phase.rank, Phase.pct]
    · by_cases h2 : b < c.start + c.d1 + c.d2
      · have hle : c.start + c.d1 ≤ b := by omega
        have hp : c.phaseAt b = .linear (c.linearPct (b - (c.start + c.d1))) := by
          have h1' : ¬ b < c.e1 := h1
          have h2' : b < c.e2 := h2
          simp only [Cfg.phaseAt, if_neg h0, if_neg h1', if_pos h2'] <;> rfl
        rw [hp]
        by_cases hd : 1 < c.d2
        · have hd1 : 1 ≤ c.d2 := by omega
          have hd0 : ¬ (c.d2 - 1 = 0) := by omega
          simp only [KPd.get_current_phase, Cfg.linearPct, if_neg h0, if_neg h1, if_pos h2, sub?, div?,
            if_pos hle, if_pos hmm, gt_iff_lt, if_pos hd, if_pos hd1, if_neg hd0, Option.bind_eq_bind,
            Option.bind_some, Option.pure_def, Phase.rank, Phase.pct]
        · simp only [KPd.get_current_phase, Cfg.linearPct, if_neg h0, if_neg h1, if_pos h2, sub?,
            if_pos hle, if_pos hmm, gt_iff_lt, if_neg hd, Option.bind_eq_bind, Option.bind_some,
            Option.pure_def, Phase.rank, Phase.pct]
      · by_cases h3 : b < c.start + c.d1 + c.d2 + c.d3
        · have hp : c.phaseAt b = .fixed c.pfix := by
            have h1' : ¬ b < c.e1 := h1
            have h2' : ¬ b < c.e2 := h2
            have h3' : b < c.e3 := h3
            simp only [Cfg.phaseAt, if_neg h0, if_neg h1', if_neg h2', if_pos h3']
          rw [hp]
          simp only [KPd.get_current_phase, if_neg h0, if_neg h1, if_neg h2, if_pos h3, Option.pure_def,
            Phase.rank, Phase.pct]
        · have hp : c.phaseAt b = .redeem := by
            have h1' : ¬ b < c.e1 := h1
            have h2' : ¬ b < c.e2 := h2
            have h3' : ¬ b < c.e3 := h3
            simp only [Cfg.phaseAt, if_neg h0, if_neg h1', if_neg h2', if_neg h3']
          rw [hp]
          simp only [KPd.get_current_phase, if_neg h0, if_neg h1, if_neg h2, if_neg h3, Option.pure_def,
            Phase.rank, Phase.pct]

/-- on a model state with the `init` guards the view `getCurrentPhase` is the model's `St.phase` -/
theorem get_current_phase_state (s : St) (hok : s.cfg.ok) :
    KPd.get_current_phase s.block s.cfg.pfix s.cfg.d3 s.cfg.d2 s.cfg.d1 s.cfg.pmax s.cfg.pmin
        s.cfg.start = some (s.phase.rank, s.phase.pct) :=
  get_current_phase_eq s.cfg s.block hok.1

/-- outside the linear phase the source never aborts, whatever the percentages -/
theorem get_current_phase_no_abort_outside_linear (c : Cfg) (b : Nat)
    (h : b < c.e1 ∨ c.e2 ≤ b) :
    KPd.get_current_phase b c.pfix c.d3 c.d2 c.d1 c.pmax c.pmin c.start =
      some ((c.phaseAt b).rank, (c.phaseAt b).pct) := by
  simp only [Cfg.e1, Cfg.e2] at h
  by_cases h0 : b < c.start
  · have hp : c.phaseAt b = .idle := by simp only [Cfg.phaseAt, if_pos h0]
    rw [hp]
    simp only [KPd.get_current_phase, if_pos h0, Option.pure_def, Phase.rank, Phase.pct]
  · by_cases h1 : b < c.start + c.d1
    · have hp : c.phaseAt b = .noPenalty := by
        have h1' : b < c.e1 := h1
        simp only [Cfg.phaseAt, if_neg h0, if_pos h1']
      rw [hp]
      simp only [KPd.get_current_phase, if_neg h0, if_pos h1, Option.pure_def, Phase.rank, Phase.pct]
    · have h2 : ¬ b < c.start + c.d1 + c.d2 := by omega
      by_cases h3 : b < c.start + c.d1 + c.d2 + c.d3
      · have hp : c.phaseAt b = .fixed c.pfix := by
          have h1' : ¬ b < c.e1 := h1
          have h2' : ¬ b < c.e2 := h2
          have h3' : b < c.e3 := h3
          simp only [Cfg.phaseAt, if_neg h0, if_neg h1', if_neg h2', if_pos h3']
        rw [hp]
        simp only [KPd.get_current_phase, if_neg h0, if_neg h1, if_neg h2, if_pos h3, Option.pure_def,
          Phase.rank, Phase.pct]
      · have hp : c.phaseAt b = .redeem := by
          have h1' : ¬ b < c.e1 := h1
          have h2' : ¬ b < c.e2 := h2
          have h3' : ¬ b < c.e3 := h3
          simp only [Cfg.phaseAt, if_neg h0, if_neg h1', if_neg h2', if_neg h3']
        rw [hp]
        simp only [KPd.get_current_phase, if_neg h0, if_neg h1, if_neg h2, if_neg h3, Option.pure_def,
          Phase.rank, Phase.pct]

/-- in the linear phase a configuration with `max < min` makes the source abort (checked
    `BigUint` subtraction) — the reason `init` demands `min ≤ max` -/
theorem get_current_phase_aborts (c : Cfg) (b : Nat) (h1 : c.e1 ≤ b) (h2 : b < c.e2)
    (hmm : c.pmax < c.pmin) :
    KPd.get_current_phase b c.pfix c.d3 c.d2 c.d1 c.pmax c.pmin c.start = none := by
  simp only [Cfg.e1, Cfg.e2] at h1 h2
  have a0 : ¬ b < c.start := by omega
  have a1 : ¬ b < c.start + c.d1 := by omega
  have a2 : c.start + c.d1 ≤ b := h1
  have a3 : ¬ c.pmin ≤ c.pmax := by omega
  simp only [KPd.get_current_phase, if_neg a0, if_neg a1, if_pos h2, sub?, if_pos a2, if_neg a3,
    Option.bind_eq_bind, Option.bind_some, Option.bind_none]

/-- source `calculate_price` (view `getCurrentPrice`) IS the model's `priceOf`: it aborts exactly
    when no launched tokens are in the pool, otherwise `⌊accepted · precision / launched⌋` -/
theorem calculate_price_eq (c : Cfg) (l a : Nat) :
    KPd.calculate_price a l c.prec = priceOf c l a := by
  by_cases h : 0 < l
  · have h0 : ¬ l = 0 := by omega
    simp only [KPd.calculate_price, priceOf, gt_iff_lt, req, if_pos h, div?, if_neg h0,
      Option.bind_eq_bind, Option.bind_some, Option.pure_def]
  · simp only [KPd.calculate_price, priceOf, gt_iff_lt, req, if_neg h, Option.bind_eq_bind,
      Option.bind_none]

/-- on a model state: the source price on the tracked balances is `St.price` -/
theorem calculate_price_state (s : St) :
    KPd.calculate_price s.A.bal s.L.bal s.cfg.prec = s.price :=
  calculate_price_eq s.cfg s.L.bal s.A.bal

example : KPd.get_current_phase 25 7 10 11 10 60 10 10 = some (2, 35) := by decide
example : KPd.get_current_phase 5 7 10 11 10 60 10 10 = some (0, 0) := by decide
example : KPd.get_current_phase 35 7 10 11 10 60 10 10 = some (3, 7) := by decide
example : KPd.get_current_phase 25 7 10 11 10 5 10 10 = none := by decide
example : KPd.calculate_price 30 0 100 = none := by decide

end Mx.KPd
