/-
  KPd — the price-discovery model (`Core/PriceDiscovery.lean`) computes what the SOURCE of
  `dex/price-discovery/src/{phase.rs, lib.rs}` computes.

  `Gen/KPd.lean` is regenerated on every run by `bin/gen-kernels`.  `get_current_phase` returns the
  `Phase` enum as a pair (variant index, payload): `Idle = 0`, `NoPenalty = 1`,
  `LinearIncreasingPenalty { penalty_percentage } = 2`, `OnlyWithdrawFixedPenalty { … } = 3`,
  `Redeem = 4`; the payload is the penalty percentage (0 for the variants without one).  In the
  model that pair is `(Phase.rank, Phase.pct)` of `Cfg.phaseAt`.
-/
import MxModel.Gen.KPd
import MxModel.Lemmas.PdSpec
import MxModel.Lemmas.KTactic

namespace Mx.KPd
open Mx Mx.Gen Mx.PD

/-- the (variant index, penalty percentage) encoding of a model phase -/
theorem phase_encoding :
    (Phase.idle.rank, Phase.idle.pct) = (0, 0) ∧ (Phase.noPenalty.rank, Phase.noPenalty.pct) = (1, 0) ∧
    (∀ p, ((Phase.linear p).rank, (Phase.linear p).pct) = (2, p)) ∧
    (∀ p, ((Phase.fixed p).rank, (Phase.fixed p).pct) = (3, p)) ∧
    (Phase.redeem.rank, Phase.redeem.pct) = (4, 0) :=
  ⟨rfl, rfl, fun _ => rfl, fun _ => rfl, rfl⟩

/-- source `get_current_phase` = model `phaseAt` (variant and penalty percentage), for a
    configuration with `min ≤ max` (guaranteed by `init`, `Cfg.ok`); it never aborts then -/
theorem get_current_phase_eq (c : Cfg) (b : Nat) (hmm : c.pmin ≤ c.pmax) :
    KPd.get_current_phase b c.pfix c.d3 c.d2 c.d1 c.pmax c.pmin c.start =
      some ((c.phaseAt b).rank, (c.phaseAt b).pct) := by
  rcases PD.phaseAt_cases c b with ⟨h0, hp⟩ | ⟨h0, h1, hp⟩ | ⟨h0, h1, hp⟩ | ⟨h0, h1, hp⟩ | ⟨h0, hp⟩
  all_goals
    rw [hp]
    try simp only [Cfg.e1, Cfg.e2, Cfg.e3] at *
    k_defs [KPd.get_current_phase, Phase.rank, Phase.pct, Cfg.linearPct]
    k_solve

/-- on a model state with the `init` guards the view `getCurrentPhase` is the model's `St.phase` -/
theorem get_current_phase_state (s : St) (hok : s.cfg.ok) :
    KPd.get_current_phase s.block s.cfg.pfix s.cfg.d3 s.cfg.d2 s.cfg.d1 s.cfg.pmax s.cfg.pmin
        s.cfg.start = some (s.phase.rank, s.phase.pct) :=
  get_current_phase_eq s.cfg s.block hok.1

/-- outside the linear phase the source never aborts, whatever the percentages -/
theorem get_current_phase_no_abort_outside_linear (c : Cfg) (b : Nat)
    (h : b < c.e1 ∨ c.e2 ≤ b) :
    KPd.get_current_phase b c.pfix c.d3 c.d2 c.d1 c.pmax c.pmin c.start =
      some ((c.phaseAt b).rank, (c.phaseAt b).pct) := by
  simp only [Cfg.e1, Cfg.e2] at h
  rcases PD.phaseAt_cases c b with ⟨h0, hp⟩ | ⟨h0, h1, hp⟩ | ⟨h0, h1, hp⟩ | ⟨h0, h1, hp⟩ | ⟨h0, hp⟩
  all_goals
    rw [hp]
    try simp only [Cfg.e1, Cfg.e2, Cfg.e3] at *
    k_defs [KPd.get_current_phase, Phase.rank, Phase.pct, Cfg.linearPct]
    k_solve

/-- in the linear phase a configuration with `max < min` makes the source abort (checked
    `BigUint` subtraction) — the reason `init` demands `min ≤ max` -/
theorem get_current_phase_aborts (c : Cfg) (b : Nat) (h1 : c.e1 ≤ b) (h2 : b < c.e2)
    (hmm : c.pmax < c.pmin) :
    KPd.get_current_phase b c.pfix c.d3 c.d2 c.d1 c.pmax c.pmin c.start = none := by
  simp only [Cfg.e1, Cfg.e2] at h1 h2
  k_defs [KPd.get_current_phase]
  k_solve

/-- source `calculate_price` (view `getCurrentPrice`) IS the model's `priceOf`: it aborts exactly
    when no launched tokens are in the pool, otherwise `⌊accepted · precision / launched⌋` -/
theorem calculate_price_eq (c : Cfg) (l a : Nat) :
    KPd.calculate_price a l c.prec = priceOf c l a := by
  k_defs [KPd.calculate_price, priceOf]
  try k_solve

/-- on a model state: the source price on the tracked balances is `St.price` -/
theorem calculate_price_state (s : St) :
    KPd.calculate_price s.A.bal s.L.bal s.cfg.prec = s.price :=
  calculate_price_eq s.cfg s.L.bal s.A.bal

/-! ### the arithmetic cores of `withdraw`, `deposit`, `redeem` (fragments of lib.rs) -/

/-- the penalty / refund computation of `withdraw` (source lines `let penalty_amount …; let
    withdraw_amount …`): penalty `⌊amount · pct / 10^13⌋`, refund = amount − penalty (checked).
    Result order (penalty_amount, withdraw_amount) -/
theorem withdraw_amounts_eq (amt pct : Nat) :
    KPd.withdraw_amounts amt pct =
      (sub? amt (amt * pct / MAXP)).map fun wd => (amt * pct / MAXP, wd) := by
  have hM : MAXP = 10000000000000 := rfl
  k_defs [KPd.withdraw_amounts, hM]
  k_solve

/-- the price guard of `withdraw`: the price after the balance update must not fall below the
    minimum; aborts also when no launched tokens are left -/
theorem withdraw_price_check_eq (c : Cfg) (l a : Nat) :
    KPd.withdraw_price_check a l c.minPrice c.prec =
      (priceOf c l a).bind fun p => if c.minPrice ≤ p then some p else none := by
  k_defs [KPd.withdraw_price_check, calculate_price_eq]
  try (cases priceOf c l a <;> k_solve)

/-- the price guard of `deposit`: price 0, or not below the minimum, or the payment is the
    accepted token (token identifiers are the redeem nonces of the model's sides) -/
theorem deposit_price_check_eq (c : Cfg) (l a : Nat) (t : Tok) :
    KPd.deposit_price_check a Tok.accepted.nonce l c.minPrice t.nonce c.prec =
      (priceOf c l a).bind fun p =>
        if p = 0 ∨ c.minPrice ≤ p ∨ t = .accepted then some p else none := by
  have ht : t.nonce = Tok.accepted.nonce ↔ t = .accepted := by cases t <;> simp [Tok.nonce]
  generalize t.nonce = n at ht ⊢
  generalize Tok.accepted.nonce = an at ht ⊢
  k_defs [KPd.deposit_price_check, calculate_price_eq]
  try (cases priceOf c l a <;> k_solve)

/-- the share computation of `redeem` (`compute_bought_tokens`): `⌊other-side balance · amount /
    redeem supply⌋`, aborting on a zero supply -/
theorem bought_tokens_amount_eq (amt sup bal : Nat) :
    KPd.bought_tokens_amount amt sup bal = if sup = 0 then none else some (bal * amt / sup) := by
  k_defs [KPd.bought_tokens_amount]
  k_solve

/-- a successful model `withdraw` runs the source's penalty computation and price guard with the
    model's refund `o.v1`, penalty `o.v2` and the price of the new state -/
theorem withdraw_runs_source {s s' : St} {c : Nat} {t : Tok} {amt : Nat} {o : Out}
    (h : withdraw s c t amt = some (s', o)) :
    KPd.withdraw_amounts amt s.phase.pct = some (o.v2, o.v1) ∧
    ∃ p, s'.price = some p ∧
      KPd.withdraw_price_check s'.A.bal s'.L.bal s'.cfg.minPrice s'.cfg.prec = some p := by
  obtain ⟨p, pen, _, _, _, hpen, hle, _, _, _, _, hprice, hmin, rfl, hs'⟩ := withdraw_spec h
  have hcfg : s'.cfg = s.cfg := by rw [hs']; cases t <;> rfl
  refine ⟨?_, p, hprice, ?_⟩
  · rw [withdraw_amounts_eq, ← hpen]
    simp only [sub?, if_pos hle, Option.map_some]
  · have hp : priceOf s'.cfg s'.L.bal s'.A.bal = some p := hprice
    rw [withdraw_price_check_eq, hp, hcfg]
    simp only [Option.bind_some, if_pos hmin]

/-- a successful model `deposit` passes the source's price guard on the new balances -/
theorem deposit_runs_source {s s' : St} {c : Nat} {t : Tok} {amt : Nat} {o : Out}
    (h : deposit s c t amt = some (s', o)) :
    ∃ p, s'.price = some p ∧
      KPd.deposit_price_check s'.A.bal Tok.accepted.nonce s'.L.bal s'.cfg.minPrice t.nonce
        s'.cfg.prec = some p := by
  obtain ⟨p, _, _, _, _, hprice, hguard, _, hs'⟩ := deposit_spec h
  have hcfg : s'.cfg = s.cfg := by rw [hs']; cases t <;> rfl
  refine ⟨p, hprice, ?_⟩
  have hp : priceOf s'.cfg s'.L.bal s'.A.bal = some p := hprice
  rw [deposit_price_check_eq, hp, hcfg]
  simp only [Option.bind_some, if_pos hguard]

/-- a successful model `redeem` pays exactly what the source's `compute_bought_tokens` computes -/
theorem redeem_runs_source {s s' : St} {c : Nat} {t : Tok} {amt : Nat} {o : Out}
    (h : redeem s c t amt = some (s', o)) :
    KPd.bought_tokens_amount amt (s.side t).sup (s.side t.other).bal = some o.v1 := by
  obtain ⟨bought, _, _, _, _, hsup, hb, _, rfl, _⟩ := redeem_spec h
  rw [bought_tokens_amount_eq, if_neg hsup, hb]

/-- the configuration guards of `init` on the penalty percentages are the first three conjuncts of
    the model's `Cfg.ok` (`min ≤ max`, `max < 100 %`, `fixed < 100 %`), and the stored `end_block` is
    the model's `e3` (first block of the redeem phase) -/
theorem init_guards_eq (c : Cfg) :
    KPd.init_guards c.pfix c.d3 c.d2 c.d1 c.pmax c.pmin c.start =
      if c.pmin ≤ c.pmax ∧ c.pmax < MAXP ∧ c.pfix < MAXP then some c.e3 else none := by
  have hM : MAXP = 10000000000000 := rfl
  k_defs [KPd.init_guards, Cfg.e3, hM]
  k_solve

/-- a configuration the model accepts passes the source's `init` guards -/
theorem init_guards_of_ok (c : Cfg) (h : c.ok) :
    KPd.init_guards c.pfix c.d3 c.d2 c.d1 c.pmax c.pmin c.start = some c.e3 := by
  rw [init_guards_eq, if_pos ⟨h.1, h.2.1, h.2.2.1⟩]

example : KPd.get_current_phase 25 7 10 11 10 60 10 10 = some (2, 35) := by decide
example : KPd.get_current_phase 5 7 10 11 10 60 10 10 = some (0, 0) := by decide
example : KPd.get_current_phase 35 7 10 11 10 60 10 10 = some (3, 7) := by decide
example : KPd.get_current_phase 25 7 10 11 10 5 10 10 = none := by decide
example : KPd.calculate_price 30 0 100 = none := by decide
example : KPd.withdraw_amounts 1000 2500000000000 = some (250, 750) := by decide
example : KPd.bought_tokens_amount 10 0 500 = none := by decide
example : KPd.deposit_price_check 5 2 100 10 1 100 = none := by decide
example : KPd.deposit_price_check 5 2 100 10 2 100 = some 5 := by decide

/-! ### `match` on the phase and on the redeem-token nonce (session 4: the translator reads `match`)

`Phase` has variants with data, so a phase VALUE is the pair (variant index, payload) =
`(Phase.rank, Phase.pct)` (see `phase_encoding`); a `match` on it is a Lean `match` on the index. -/

/-- source `Phase::get_penalty_percentage` (a `match self` with a catch-all arm) IS the model's
    `Phase.pct`: the carried percentage for the two penalty phases, 0 otherwise; never aborts -/
theorem get_penalty_percentage_eq (ph : Phase) :
    KPd.get_penalty_percentage ph.rank ph.pct = some ph.pct := by
  cases ph <;> k_defs [KPd.get_penalty_percentage, Phase.rank, Phase.pct] <;> try k_solve

/-- source `require_deposit_allowed` (a `match` with the or-pattern `Idle | OnlyWithdrawFixedPenalty
    {..} | Redeem => sc_panic!`) passes exactly when the model's `depositAllowed` holds -/
theorem require_deposit_allowed_eq (ph : Phase) :
    KPd.require_deposit_allowed ph.rank = if ph.depositAllowed = true then some () else none := by
  cases ph <;> k_defs [KPd.require_deposit_allowed, Phase.rank, Phase.depositAllowed] <;> try k_solve

/-- source `require_withdraw_allowed` (`Idle | Redeem => sc_panic!`) passes exactly when the model's
    `withdrawAllowed` holds -/
theorem require_withdraw_allowed_eq (ph : Phase) :
    KPd.require_withdraw_allowed ph.rank = if ph.withdrawAllowed = true then some () else none := by
  cases ph <;> k_defs [KPd.require_withdraw_allowed, Phase.rank, Phase.withdrawAllowed] <;> try k_solve

/-- source `require_redeem_allowed` (`phase == &Phase::Redeem`, a comparison of variant indices)
    passes exactly when the model's `redeemAllowed` holds -/
theorem require_redeem_allowed_eq (ph : Phase) :
    KPd.require_redeem_allowed ph.rank = if ph.redeemAllowed = true then some () else none := by
  cases ph <;> k_defs [KPd.require_redeem_allowed, Phase.rank, Phase.redeemAllowed] <;> try k_solve

/-- the three phase gates on a model state: `deposit` / `withdraw` / `redeem` of the model ask for
    exactly what the source's gate functions ask for on the encoded current phase -/
theorem phase_gates_state (s : St) :
    (KPd.require_deposit_allowed s.phase.rank = some () ↔ s.phase.depositAllowed = true) ∧
    (KPd.require_withdraw_allowed s.phase.rank = some () ↔ s.phase.withdrawAllowed = true) ∧
    (KPd.require_redeem_allowed s.phase.rank = some () ↔ s.phase.redeemAllowed = true) := by
  rw [require_deposit_allowed_eq, require_withdraw_allowed_eq, require_redeem_allowed_eq]
  refine ⟨?_, ?_, ?_⟩ <;> split <;> simp [*]

/-- the WHOLE of source `compute_bought_tokens` (the `match redeem_token_nonce` that picks the
    OTHER side's token and balance, then the share): for the redeem token of side `t` the payment
    is (identifier of the other side's token, nonce 0, `⌊other balance · amount / supply of t⌋`);
    it aborts on a zero supply.  `idL`, `idA`: the launched / accepted token identifiers -/
theorem compute_bought_tokens_eq (t : Tok) (amt sup balL balA idL idA : Nat) :
    KPd.compute_bought_tokens t.nonce amt balA idA balL idL sup =
      if sup = 0 then none
      else some (match t with | .launched => idA | .accepted => idL, 0,
                 (match t with | .launched => balA | .accepted => balL) * amt / sup) := by
  cases t <;> k_defs [KPd.compute_bought_tokens, Tok.nonce] <;> try k_solve

/-- a redeem-token nonce that is neither side's makes `compute_bought_tokens` abort
    (`_ => sc_panic!(INVALID_PAYMENT_ERR_MSG)`) -/
theorem compute_bought_tokens_bad_nonce (n amt sup balL balA idL idA : Nat)
    (h1 : n ≠ Tok.launched.nonce) (h2 : n ≠ Tok.accepted.nonce) :
    KPd.compute_bought_tokens n amt balA idA balL idL sup = none := by
  simp only [Tok.nonce] at h1 h2
  k_defs [KPd.compute_bought_tokens]
  try k_solve

/-- a successful model `redeem` pays exactly the amount the whole source function computes, taken
    from the balance of the OTHER side (the direction is now part of the translated source) -/
theorem redeem_runs_whole_source {s s' : St} {c : Nat} {t : Tok} {amt : Nat} {o : Out}
    (h : redeem s c t amt = some (s', o)) (idL idA : Nat) :
    ∃ tok, KPd.compute_bought_tokens t.nonce amt s.A.bal idA s.L.bal idL (s.side t).sup =
      some (tok, 0, o.v1) := by
  obtain ⟨bought, _, _, _, _, hsup, hb, _, rfl, _⟩ := redeem_spec h
  rw [compute_bought_tokens_eq, if_neg hsup]
  cases t <;> exact ⟨_, by simp only [St.side, Tok.other] at hb ⊢; rw [hb]⟩

example : KPd.get_penalty_percentage 2 35 = some 35 := by decide
example : KPd.get_penalty_percentage 4 35 = some 0 := by decide
example : KPd.require_deposit_allowed 3 = none := by decide
example : KPd.require_deposit_allowed 2 = some () := by decide
example : KPd.require_withdraw_allowed 3 = some () := by decide
example : KPd.compute_bought_tokens 1 10 500 7 300 8 20 = some (7, 0, 250) := by decide
example : KPd.compute_bought_tokens 2 10 500 7 300 8 20 = some (8, 0, 150) := by decide
example : KPd.compute_bought_tokens 3 10 500 7 300 8 20 = none := by decide

end Mx.KPd
