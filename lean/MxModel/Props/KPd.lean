/-
  KPd — the price-discovery model (`Core/PriceDiscovery.lean`) computes what the SOURCE of
  `dex/price-discovery/src/{phase.rs, lib.rs}` computes.

  `Gen/KPd.lean` is regenerated on every run by `bin/gen-kernels`.  `get_current_phase` returns the
  `Phase` enum as a pair (variant index, payload): `Idle = 0`, `NoPenalty = 1`,
  `LinearIncreasingPenalty { penalty_percentage } = 2`, `OnlyWithdrawFixedPenalty { … } = 3`,
  `Redeem = 4`; the payload is the penalty percentage (0 for the variants without one).  In the
  model that pair is `(Phase.rank, Phase.pct)` of `Cfg.phaseAt`.
-/
import MxModel.Gen.KPd
import MxModel.Lemmas.PdSpec
import MxModel.Lemmas.KTactic

namespace Mx.KPd
open Mx Mx.Gen Mx.PD

/-- the (variant index, penalty percentage) encoding of a model phase -/
theorem phase_encoding :
    (Phase.idle.rank, Phase.idle.pct) = (0, 0) ∧ (Phase.noPenalty.rank, Phase.noPenalty.pct) = (1, 0) ∧
    (∀ p, ((Phase.linear p).rank, (Phase.linear p).pct) = (2, p)) ∧
    (∀ p, ((Phase.fixed p).rank, (Phase.fixed p).pct) = (3, p)) ∧
    (Phase.redeem.rank, Phase.redeem.pct) = (4, 0) :=
  ⟨rfl, rfl, fun _ => rfl, fun _ => rfl, rfl⟩

/-- source `get_current_phase` = model `phaseAt` (variant and penalty percentage), for a
    configuration with `min ≤ max` (guaranteed by `init`, `Cfg.ok`); it never aborts then -/
theorem get_current_phase_eq (c : Cfg) (b : Nat) (hmm : c.pmin ≤ c.pmax) :
    KPd.get_current_phase b c.pfix c.d3 c.d2 c.d1 c.pmax c.pmin c.start =
      some ((c.phaseAt b).rank, (c.phaseAt b).pct) := by
  rcases PD.phaseAt_cases c b with ⟨h0, hp⟩ | ⟨h0, h1, hp⟩ | ⟨h0, h1, hp⟩ | ⟨h0, h1, hp⟩ | ⟨h0, hp⟩
  all_goals
    rw [hp]
    try simp only [Cfg.e1, Cfg.e2, Cfg.e3] at *
    k_defs [KPd.get_current_phase, Phase.rank, Phase.pct, Cfg.linearPct]
    k_solve

/-- on a model state with the `init` guards the view `getCurrentPhase` is the model's `St.phase` -/
theorem get_current_phase_state (s : St) (hok : s.cfg.ok) :
    KPd.get_current_phase s.block s.cfg.pfix s.cfg.d3 s.cfg.d2 s.cfg.d1 s.cfg.pmax s.cfg.pmin
        s.cfg.start = some (s.phase.rank, s.phase.pct) :=
  get_current_phase_eq s.cfg s.block hok.1

/-- outside the linear phase the source never aborts, whatever the percentages -/
theorem get_current_phase_no_abort_outside_linear (c : Cfg) (b : Nat)
    (h : b < c.e1 ∨ c.e2 ≤ b) :
    KPd.get_current_phase b c.pfix c.d3 c.d2 c.d1 c.pmax c.pmin c.start =
      some ((c.phaseAt b).rank, (c.phaseAt b).pct) := by
  simp only [Cfg.e1, Cfg.e2] at h
  rcases PD.phaseAt_cases c b with ⟨h0, hp⟩ | ⟨h0, h1, hp⟩ | ⟨h0, h1, hp⟩ | ⟨h0, h1, hp⟩ | ⟨h0, hp⟩
  all_goals
    rw [hp]
    try simp only [Cfg.e1, Cfg.e2, Cfg.e3] at *
    k_defs [KPd.get_current_phase, Phase.rank, Phase.pct, Cfg.linearPct]
    k_solve

/-- in the linear phase a configuration with `max < min` makes the source abort (checked
    `BigUint` subtraction) — the reason `init` demands `min ≤ max` -/
theorem get_current_phase_aborts (c : Cfg) (b : Nat) (h1 : c.e1 ≤ b) (h2 : b < c.e2)
    (hmm : c.pmax < c.pmin) :
    KPd.get_current_phase b c.pfix c.d3 c.d2 c.d1 c.pmax c.pmin c.start = none := by
  simp only [Cfg.e1, Cfg.e2] at h1 h2
  k_defs [KPd.get_current_phase]
  k_solve

/-- source `calculate_price` (view `getCurrentPrice`) IS the model's `priceOf`: it aborts exactly
    when no launched tokens are in the pool, otherwise `⌊accepted · precision / launched⌋` -/
theorem calculate_price_eq (c : Cfg) (l a : Nat) :
    KPd.calculate_price a l c.prec = priceOf c l a := by
  k_defs [KPd.calculate_price, priceOf]
  try k_solve

/-- on a model state: the source price on the tracked balances is `St.price` -/
theorem calculate_price_state (s : St) :
    KPd.calculate_price s.A.bal s.L.bal s.cfg.prec = s.price :=
  calculate_price_eq s.cfg s.L.bal s.A.bal

/-! ### the arithmetic cores of `withdraw`, `deposit`, `redeem` (fragments of lib.rs) -/

/-- the penalty / refund computation of `withdraw` (source lines `let penalty_amount …; let
    withdraw_amount …`): penalty `⌊amount · pct / 10^13⌋`, refund = amount − penalty (checked).
    Result order (penalty_amount, withdraw_amount) -/
theorem withdraw_amounts_eq (amt pct : Nat) :
    KPd.withdraw_amounts amt pct =
      (sub? amt (amt * pct / MAXP)).map fun wd => (amt * pct / MAXP, wd) := by
  have hM : MAXP = 10000000000000 := rfl
  k_defs [KPd.withdraw_amounts, hM]
  k_solve

/-- the price guard of `withdraw`: the price after the balance update must not fall below the
    minimum; aborts also when no launched tokens are left -/
theorem withdraw_price_check_eq (c : Cfg) (l a : Nat) :
    KPd.withdraw_price_check a l c.minPrice c.prec =
      (priceOf c l a).bind fun p => if c.minPrice ≤ p then some p else none := by
  k_defs [KPd.withdraw_price_check, calculate_price_eq]
  try (cases priceOf c l a <;> k_solve)

/-- the price guard of `deposit`: price 0, or not below the minimum, or the payment is the
    accepted token (token identifiers are the redeem nonces of the model's sides) -/
theorem deposit_price_check_eq (c : Cfg) (l a : Nat) (t : Tok) :
    KPd.deposit_price_check a Tok.accepted.nonce l c.minPrice t.nonce c.prec =
      (priceOf c l a).bind fun p =>
        if p = 0 ∨ c.minPrice ≤ p ∨ t = .accepted then some p else none := by
  have ht : t.nonce = Tok.accepted.nonce ↔ t = .accepted := by cases t <;> simp [Tok.nonce]
  generalize t.nonce = n at ht ⊢
  generalize Tok.accepted.nonce = an at ht ⊢
  k_defs [KPd.deposit_price_check, calculate_price_eq]
  try (cases priceOf c l a <;> k_solve)

/-- the share computation of `redeem` (`compute_bought_tokens`): `⌊other-side balance · amount /
    redeem supply⌋`, aborting on a zero supply -/
theorem bought_tokens_amount_eq (amt sup bal : Nat) :
    KPd.bought_tokens_amount amt sup bal = if sup = 0 then none else some (bal * amt / sup) := by
  k_defs [KPd.bought_tokens_amount]
  k_solve

/-- a successful model `withdraw` runs the source's penalty computation and price guard with the
    model's refund `o.v1`, penalty `o.v2` and the price of the new state -/
theorem withdraw_runs_source {s s' : St} {c : Nat} {t : Tok} {amt : Nat} {o : Out}
    (h : withdraw s c t amt = some (s', o)) :
    KPd.withdraw_amounts amt s.phase.pct = some (o.v2, o.v1) ∧
    ∃ p, s'.price = some p ∧
      KPd.withdraw_price_check s'.A.bal s'.L.bal s'.cfg.minPrice s'.cfg.prec = some p := by
  obtain ⟨p, pen, _, _, _, hpen, hle, _, _, _, _, hprice, hmin, rfl, hs'⟩ := withdraw_spec h
  have hcfg : s'.cfg = s.cfg := by rw [hs']; cases t <;> rfl
  refine ⟨?_, p, hprice, ?_⟩
  · rw [withdraw_amounts_eq, ← hpen]
    simp only [sub?, if_pos hle, Option.map_some]
  · have hp : priceOf s'.cfg s'.L.bal s'.A.bal = some p := hprice
    rw [withdraw_price_check_eq, hp, hcfg]
    simp only [Option.bind_some, if_pos hmin]

/-- a successful model `deposit` passes the source's price guard on the new balances -/
theorem deposit_runs_source {s s' : St} {c : Nat} {t : Tok} {amt : Nat} {o : Out}
    (h : deposit s c t amt = some (s', o)) :
    ∃ p, s'.price = some p ∧
      KPd.deposit_price_check s'.A.bal Tok.accepted.nonce s'.L.bal s'.cfg.minPrice t.nonce
        s'.cfg.prec = some p := by
  obtain ⟨p, _, _, _, _, hprice, hguard, _, hs'⟩ := deposit_spec h
  have hcfg : s'.cfg = s.cfg := by rw [hs']; cases t <;> rfl
  refine ⟨p, hprice, ?_⟩
  have hp : priceOf s'.cfg s'.L.bal s'.A.bal = some p := hprice
  rw [deposit_price_check_eq, hp, hcfg]
  simp only [Option.bind_some, if_pos hguard]

/-- a successful model `redeem` pays exactly what the source's `compute_bought_tokens` computes -/
theorem redeem_runs_source {s s' : St} {c : Nat} {t : Tok} {amt : Nat} {o : Out}
    (h : redeem s c t amt = some (s', o)) :
    KPd.bought_tokens_amount amt (s.side t).sup (s.side t.other).bal = some o.v1 := by
  obtain ⟨bought, _, _, _, _, hsup, hb, _, rfl, _⟩ := redeem_spec h
  rw [bought_tokens_amount_eq, if_neg hsup, hb]

/-- the configuration guards of `init` on the penalty percentages are the first three conjuncts of
    the model's `Cfg.ok` (`min ≤ max`, `max < 100 %`, `fixed < 100 %`), and the stored `end_block` is
    the model's `e3` (first block of the redeem phase) -/
theorem init_guards_eq (c : Cfg) :
    KPd.init_guards c.pfix c.d3 c.d2 c.d1 c.pmax c.pmin c.start =
      if c.pmin ≤ c.pmax ∧ c.pmax < MAXP ∧ c.pfix < MAXP then some c.e3 else none := by
  have hM : MAXP = 10000000000000 := rfl
  k_defs [KPd.init_guards, Cfg.e3, hM]
  k_solve

/-- a configuration the model accepts passes the source's `init` guards -/
theorem init_guards_of_ok (c : Cfg) (h : c.ok) :
    KPd.init_guards c.pfix c.d3 c.d2 c.d1 c.pmax c.pmin c.start = some c.e3 := by
  rw [init_guards_eq, if_pos ⟨h.1, h.2.1, h.2.2.1⟩]

example : KPd.get_current_phase 25 7 10 11 10 60 10 10 = some (2, 35) := by decide
example : KPd.get_current_phase 5 7 10 11 10 60 10 10 = some (0, 0) := by decide
example : KPd.get_current_phase 35 7 10 11 10 60 10 10 = some (3, 7) := by decide
example : KPd.get_current_phase 25 7 10 11 10 5 10 10 = none := by decide
example : KPd.calculate_price 30 0 100 = none := by decide
example : KPd.withdraw_amounts 1000 2500000000000 = some (250, 750) := by decide
example : KPd.bought_tokens_amount 10 0 500 = none := by decide
example : KPd.deposit_price_check 5 2 100 10 1 100 = none := by decide
example : KPd.deposit_price_check 5 2 100 10 2 100 = some 5 := by decide

end Mx.KPd
