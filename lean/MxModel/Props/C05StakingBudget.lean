/-
  C05 (farm-staking side), last clause — the POSITION half of the week budget for the staking farm.

  farm-staking uses the same shared Rust module `farm-boosted-yields` as dex/farm and
  farm-with-locked-rewards, hence had the same finding F6 and got the same repair
  (`claim_boosted_yields_rewards` runs `update_energy_and_progress` also when no boosted-yields factors
  are configured; Core/Staking.lean `claimBoostedYields`, `none` branch).  With the repair, in every
  reachable state of the staking model (any deployment parameters, any account list, any history):

  * `week_budget_position_half` — every completed week `w`: `farmSupplyForWeek(w) = 0` or the CURRENT
    total farm positions of all users who can still claim `w` sum to at most `farmSupplyForWeek(w)`;
  * `current_week_supply_recorded` — the running week's recorded supply is 0 or the farm-token supply,
    later weeks have nothing recorded; the weekly module's key list has no duplicates;
  * `claimer_position_le_week_supply` — `f ≤ F` for every single claimer in the key list;
  * `single_reward_le_pool` — so (with `e ≤ E`) the reward computed for a claimer is at most the week's
    whole pool.

  NOT proved for the staking world: the energy half (`Weekly.EB` transported through the staking
  operations — the farm analogue is Lemmas/FarmEnergy.lean) and the budget with payments
  (Lemmas/FarmWeekPaid.lean is farm-only); see notes/f6fix.md.

  Model: Core/Staking.lean.  Lemmas: Lemmas/StakingWeekPos.lean (view and generic lemmas shared with
  Lemmas/FarmWeekPos.lean), Lemmas/StakingTrans.lean (`PosInv`, C07).
-/
import MxModel.Lemmas.StakingWeekPos

namespace Mx.C05StakingBudget
open Mx.Staking
open Mx.Farm (fFor)

/-- **the position half of the week budget holds in every reachable state of the staking farm.**  For
    every completed week `w` (before the current week): either no farm supply is recorded for `w` (then
    nothing is paid for it), or the CURRENT total farm positions of all users whose claim progress can
    still reach `w` (`fFor`: the total if `progress(v).week ≤ w`, else 0) sum to at most
    `farmSupplyForWeek(w)`.  (False before the repair of F6.) -/
theorem week_budget_position_half (epoch block dsc maxApr minUnbond perBlock : Nat) (accts wl : List Nat)
    (ops : List Op) :
    let s := run (init epoch block dsc maxApr minUnbond perBlock accts wl) ops
    ∀ w, w < s.week →
      s.b.farmSupply w = 0 ∨
      (s.w.users.map fun v => fFor s.w.progress s.userTotal v w).sum ≤ s.b.farmSupply w := by
  intro s w hw
  have h := reachable_weekPos epoch block dsc maxApr minUnbond perBlock accts wl ops
  exact h.past s.week (wv_week h.time) w hw

/-- the running week: the recorded farm supply is 0 (no supply-changing operation yet) or exactly the
    farm-token supply; no later week has anything recorded; the key list of the weekly module has no
    duplicates; time never runs backwards past the first week -/
theorem current_week_supply_recorded (epoch block dsc maxApr minUnbond perBlock : Nat)
    (accts wl : List Nat) (ops : List Op) :
    let s := run (init epoch block dsc maxApr minUnbond perBlock accts wl) ops
    s.w.users.Nodup ∧ s.firstWeek ≤ s.epoch ∧
    (s.b.farmSupply s.week = 0 ∨ s.b.farmSupply s.week = s.supply) ∧
    ∀ w, s.week < w → s.b.farmSupply w = 0 := by
  intro s
  have h := reachable_weekPos epoch block dsc maxApr minUnbond perBlock accts wl ops
  have hW := wv_week h.time
  exact ⟨h.nodup, h.time, h.cur s.week hW, h.fut s.week hW⟩

/-- **`f ≤ F` for every claimer**: a user `v` of the weekly module's key list whose claim progress is at
    a week `≤ w` for a completed week `w` with a recorded supply has a current total farm position of at
    most that supply -/
theorem claimer_position_le_week_supply (epoch block dsc maxApr minUnbond perBlock : Nat)
    (accts wl : List Nat) (ops : List Op) (v : Nat) (p : Weekly.ClaimProgress) :
    let s := run (init epoch block dsc maxApr minUnbond perBlock accts wl) ops
    ∀ w, w < s.week → v ∈ s.w.users → s.w.progress v = some p → p.week ≤ w →
      s.b.farmSupply w ≠ 0 → s.userTotal v ≤ s.b.farmSupply w := by
  intro s w hw hmem hp hpw hF
  rcases week_budget_position_half epoch block dsc maxApr minUnbond perBlock accts wl ops w hw with h0 | hle
  · exact absurd h0 hF
  · refine Nat.le_trans ?_ hle
    have := Weekly.le_usum (f := fun x => fFor s.w.progress s.userTotal x w) hmem
    have e : fFor s.w.progress s.userTotal v w = s.userTotal v := by
      unfold fFor; rw [hp]; simp only [hpw, if_true]
    rw [e] at this
    exact this

/-- the staking reward formula is bounded by the week's pool when `f ≤ F` and `e ≤ E` -/
theorem boostedAmount_le_pool (x : Factors) (R f F e E : Nat) (hf : f ≤ F) (he : e ≤ E) :
    boostedAmount x R f F e E ≤ R := by
  unfold boostedAmount
  refine Nat.le_trans (Nat.min_le_right _ _) ?_
  have h1 : R * x.cE * e / E ≤ R * x.cE := by
    rcases Nat.eq_zero_or_pos E with hz | hpos
    · subst hz; simp
    · exact Nat.div_le_of_le_mul (by rw [Nat.mul_comm E]; exact Nat.mul_le_mul_left _ he)
  have h2 : R * x.cF * f / F ≤ R * x.cF := by
    rcases Nat.eq_zero_or_pos F with hz | hpos
    · subst hz; simp
    · exact Nat.div_le_of_le_mul (by rw [Nat.mul_comm F]; exact Nat.mul_le_mul_left _ hf)
  rcases Nat.eq_zero_or_pos (x.cE + x.cF) with hz | hpos
  · rw [hz, Nat.div_zero]; exact Nat.zero_le _
  · apply Nat.div_le_of_le_mul
    have : R * x.cE + R * x.cF = (x.cE + x.cF) * R := by ring
    omega

/-- **no single reward exceeds the week's pool** (given the claimer's energy is within the week's total):
    for every reachable state, every claimer `v` of a completed week `w` with a recorded supply, any
    factors and pool `R`, and any energy `e ≤ E`: the staking farm's reward formula gives at most `R` -/
theorem single_reward_le_pool (epoch block dsc maxApr minUnbond perBlock : Nat)
    (accts wl : List Nat) (ops : List Op) (v : Nat) (p : Weekly.ClaimProgress) (x : Factors)
    (R e E : Nat) :
    let s := run (init epoch block dsc maxApr minUnbond perBlock accts wl) ops
    ∀ w, w < s.week → v ∈ s.w.users → s.w.progress v = some p → p.week ≤ w →
      s.b.farmSupply w ≠ 0 → e ≤ E →
      boostedAmount x R (s.userTotal v) (s.b.farmSupply w) e E ≤ R := by
  intro s w hw hmem hp hpw hF he
  exact boostedAmount_le_pool x R _ _ e E
    (claimer_position_le_week_supply epoch block dsc maxApr minUnbond perBlock accts wl ops v p w hw
      hmem hp hpw hF) he

/-- non-vacuity: the staking analogue of the F6 history — boosted percentage 25 % but no factors; user 1
    stakes 10⁶ through week 1 (`farmSupplyForWeek 1 = 10⁶`); in week 2 user 2 stakes 10⁹ and sends the
    position to user 1, who claims with it (total position 1 001 000 000); then the FIRST factors are set.
    User 1's progress is at week 2 (moved by the claim without a config — the repair), so user 1 is not a
    claimer of week 1: the claimers' sum is 0 ≤ 10⁶; the boosted claim pays 0 and unstake / claim of the
    received position succeed.  (Before the repair: progress at week 1, sum 1 001 000 000 > 10⁶.) -/
example :
    let s := run (init 0 0 1000000000000 5000000 10 1000 [1, 2] [])
      [.topUp 100000000, .setBoostedPct 2500, .setEnergy 1 1000000 1000, .stake 1 none 1000000 [],
       .advance 10 6, .claim 1 none (1, 1000000), .advance 10 1, .stake 2 none 1000000000 [],
       .transfer 2 1 (3, 1000000000), .claim 1 none (3, 1000000000), .setFactors ⟨10, 3, 2, 1, 1⟩]
    s.week = 2 ∧ s.b.farmSupply 1 = 1000000 ∧ s.userTotal 1 = 1001000000 ∧ s.w.users = [1] ∧
    (s.w.progress 1).map (·.week) = some 2 ∧ s.b.accumulated 1 = 237 ∧
    (s.w.users.map fun v => fFor s.w.progress s.userTotal v 1).sum = 0 ∧
    s.b.farmSupply 2 = s.supply ∧
    (claimBoostedYields s 1 (s.userTotal 1)).map (·.2.2) = some 0 ∧
    (step s (.unstake 1 none (4, 1000000000))).isSome = true ∧
    (step s (.claim 1 none (4, 1000000000))).isSome = true := by
  decide

end Mx.C05StakingBudget
