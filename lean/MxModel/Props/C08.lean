/-
  C08 — Energy equals the time-weighted sum of the account's locked tokens.

  Statement: for every account, the energy entry reported by the energy factory equals the sum
  over the locked tokens attributed to it of amount·(unlock_epoch − current_epoch) (negative terms
  allowed until the tokens are unlocked) and its locked-token total equals the sum of those
  amounts, after any sequence of lock, extend, merge, reduce, unlock, early unlock and its
  cancellation, LKMEX transfer, wrap/unwrap, reward locking and epoch advance.  Tokens sitting in
  escrow (pending transfer, unbonding, wrapped) give energy to nobody.

  Model: Core/Energy.lean.  `s.bal a n` = locked tokens of nonce `n` held by address `a` (real ESDT
  balances), `s.nonces[n-1]` = unlock epoch of nonce `n`, `s.view a` = `getEnergyEntryForUser(a)`.
  `sumE f now 1 ns` = Σ_n f(n)·(unlock_n − now) in `Int`, `sumT f 1 ns` = Σ_n f(n).
  Users are the addresses below `SCBASE`; the escrow contracts are the addresses from `SCBASE` up.
  Only property theorems live in this file; helper lemmas are in Lemmas/Energy*.lean.
-/
import MxModel.Lemmas.EnergyStep

namespace Mx.C08
open Mx.Energy

/-- `deplete` is exactly linear decay: an entry that equals the two sums at epoch `now` equals
    them again at any later epoch `now'` after `deplete(now')` — whatever happened to expire in
    between (terms just turn negative) -/
theorem deplete_linear (e : Entry) (f : Nat → Nat) (ns : List Nat) (now now' : Nat)
    (hE : e.E = sumE f now 1 ns) (hT : e.T = sumT f 1 ns) (hl : e.last = now) (hle : now ≤ now') :
    (e.deplete now').E = sumE f now' 1 ns ∧ (e.deplete now').T = sumT f 1 ns ∧
    (e.deplete now').last = now' :=
  Tracks.deplete ⟨hE, hT, hl⟩ hle

/-- the decay itself: `d` epochs later the sum is lower by `d · Σ amount` -/
theorem sum_decay (f : Nat → Nat) (now d : Nat) (ns : List Nat) :
    sumE f (now + d) 1 ns = sumE f now 1 ns - (d : Int) * (sumT f 1 ns : Int) :=
  sumE_shift f now d 1 ns

/-- one transaction preserves the invariant: any operation (lock, lock for another destination,
    extend, unlock, merge, early unlock, reduce, reward locking, claim, cancel unbond, LKMEX
    lock/withdraw/cancel, wrap/unwrap, wrapped-token transfer, configuration, epoch advance),
    any arguments, any option set -/
theorem energy_inv_step {s s' : St} {op : Op} {o : Out} (hi : Inv s) (hw : op.WF)
    (h : step s op = some (s', o)) : Inv s' :=
  step_inv hi hw h

/-- the headline: after every history from a freshly deployed world, for every user account,
    `getEnergyEntryForUser` = (Σ amount·(unlock − now), Σ amount) over the locked tokens the
    account holds -/
theorem energy_inv (c : Cfg) (ops : List Op) (hw : ∀ op ∈ ops, op.WF) (a : Nat) (ha : a < SCBASE) :
    let s := run (init c) ops
    (s.view a).E = sumE (s.bal a) s.epoch 1 s.nonces ∧
    (s.view a).T = sumT (s.bal a) 1 s.nonces ∧
    (s.view a).last = s.epoch := by
  intro s
  exact (run_inv ops (init_inv c) hw).track a ha

/-- `getEnergyAmountForUser` is the positive part of that sum -/
theorem energy_amount_view (c : Cfg) (ops : List Op) (hw : ∀ op ∈ ops, op.WF) (a : Nat)
    (ha : a < SCBASE) :
    let s := run (init c) ops
    (s.view a).amount =
      if 0 < sumE (s.bal a) s.epoch 1 s.nonces then (sumE (s.bal a) s.epoch 1 s.nonces).toNat else 0 := by
  intro s
  have h : Tracks (s.view a) (s.bal a) s.nonces s.epoch := (run_inv ops (init_inv c) hw).track a ha
  unfold Entry.amount
  rw [h.1]

/-- tokens sitting in escrow give energy to nobody: the escrow contracts (factory residue,
    token-unstake, lkmex-transfer, wrapper, fees collector) never get an entry — their view is the
    zero entry — while every user's entry counts only the tokens in the user's own account
    (`energy_inv`) -/
theorem escrow_gives_nothing (c : Cfg) (ops : List Op) (hw : ∀ op ∈ ops, op.WF) (a : Nat)
    (ha : SCBASE ≤ a) :
    let s := run (init c) ops
    s.energy a = none ∧ s.view a = Entry.zero s.epoch := by
  intro s
  have h : s.energy a = none := (run_inv ops (init_inv c) hw).sc a ha
  exact ⟨h, by simp [St.view, h]⟩

/-- balances exist only on nonces the factory created (so the sums range over everything held) -/
theorem holdings_within_nonces (c : Cfg) (ops : List Op) (hw : ∀ op ∈ ops, op.WF) (a n : Nat)
    (ha : a < SCBASE) :
    let s := run (init c) ops
    (n = 0 ∨ s.nonces.length < n) → s.bal a n = 0 := by
  intro s
  exact (run_inv ops (init_inv c) hw).dom a n ha

/-- across an epoch jump (over unlock epochs, month boundaries, anything) every entry moves by
    exactly `− Δ · total_locked` -/
theorem advance_decay {s : St} (hi : Inv s) (d a : Nat) (ha : a < SCBASE) :
    (St.view { s with epoch := s.epoch + d } a).E = (s.view a).E - (d : Int) * ((s.view a).T : Int) ∧
    (St.view { s with epoch := s.epoch + d } a).T = (s.view a).T := by
  have h1 := (advance_inv hi (Nat.le_add_right s.epoch d)).track a ha
  have h0 := hi.track a ha
  refine ⟨?_, ?_⟩
  · rw [h1.1, h0.1, h0.2.1]
    exact sumE_shift _ _ _ _ _
  · rw [h1.2.1, h0.2.1]

/-- a failed transaction leaves the state untouched (atomicity as modelled) -/
theorem failed_tx_no_effect (s : St) (op : Op) (h : step s op = none) : run s [op] = s := by
  simp [run, h]

/-- non-vacuity: a concrete history with three users exercising lock-for-other, merge, early
    unlock + cancel after expiry, transfer with withdrawal after expiry, wrap / transfer / unwrap,
    reduce, and epoch jumps past an unlock epoch — ends in a state where user 1's energy is
    negative, user 2's positive, i.e. the invariant's sums are not trivially zero -/
example :
    let s := run (init { epoch := 5, opts := [(360, 4000), (720, 6000), (1440, 8000)], unbond := 10,
                         burnPct := 5000, minLock := 4, cooldown := 6, users := 3, funds := 1000000 })
      [.lock 1 1000 360 0, .lock 1 500 720 2, .lock 2 700 1440 0, .merge 2 0 [(2, 500), (3, 200)],
       .unlockEarly 1 1 300, .reduce 2 3 400 360, .lockFunds 1 3 [(1, 100)], .wrap 1 1 50,
       .xferWrapped 1 2 1 50, .advance 400, .cancel 1, .withdraw 3 1, .unwrap 2 1 50, .advance 600]
    (s.view 1).E = -204000 ∧ (s.view 2).E = 270840 ∧ (s.view 2).T = 984 ∧ s.bal 3 1 = 100 ∧
    s.bal 2 1 = 184 ∧ s.bal 1 1 = 850 ∧ s.nonces = [360, 720, 1440, 930] := by
  decide

end Mx.C08
